(** C14: proofs, part 3.  rational/src/cmp.rs repr_cmp / repr_eq (RBig <-> Relaxed), the integer bodies,
    float/src/cmp.rs repr_cmp_same_base. *)
From Dashu Require Import Base.Prelude Cross.XVal Cross.XOrdModel Cross.XOrdProofs Cross.XPrimProofs.
Open Scope Z_scope.

Lemma bit_len_abs a : bit_len (Z.abs a) = bit_len a.
Proof. unfold bit_len. rewrite Z.abs_involutive. destruct (Z.eqb_spec a 0), (Z.eqb_spec (Z.abs a) 0); try lia; reflexivity. Qed.

(* ---------------------------------------------------------------- integer crate *)
Theorem ubig_cmp_ibig_ord u i : 0 <= u -> Some (ubig_cmp_ibig u i) = spec_cmp (XFin u 1) (XFin i 1).
Proof.
  intros Hu. unfold ubig_cmp_ibig. cbn [spec_cmp]. f_equal. destruct (sign_of i) eqn:S.
  - apply sign_of_pos in S. rewrite Z.abs_eq by lia. apply cmp_ext; ring.
  - apply sign_of_neg in S. symmetry. apply cmp_gt. lia.
Qed.
Theorem ibig_cmp_ubig_ord i u : 0 <= u -> Some (ibig_cmp_ubig i u) = spec_cmp (XFin i 1) (XFin u 1).
Proof.
  intros Hu. unfold ibig_cmp_ubig. cbn [spec_cmp]. f_equal. destruct (sign_of i) eqn:S.
  - apply sign_of_pos in S. rewrite Z.abs_eq by lia. apply cmp_ext; ring.
  - apply sign_of_neg in S. symmetry. apply cmp_lt. lia.
Qed.
Theorem ibig_cmp_ord a b : Some (ibig_cmp a b) = spec_cmp (XFin a 1) (XFin b 1).
Proof.
  unfold ibig_cmp. cbn [spec_cmp]. f_equal. destruct (sign_of a) eqn:Sa, (sign_of b) eqn:Sb;
    try apply sign_of_pos in Sa; try apply sign_of_neg in Sa; try apply sign_of_pos in Sb; try apply sign_of_neg in Sb.
  - rewrite !Z.abs_eq by lia. apply cmp_ext; ring.
  - symmetry. apply cmp_gt. lia.
  - symmetry. apply cmp_lt. lia.
  - rewrite !Z.abs_neq by lia. rewrite !Z.mul_1_r. rewrite Z.compare_opp. reflexivity.
Qed.
Theorem int_abs_cmp_abs a b : Some (int_abs_cmp a b) = spec_abs_cmp (XFin a 1) (XFin b 1).
Proof. unfold int_abs_cmp, spec_abs_cmp. cbn [xabs spec_cmp]. f_equal. apply cmp_ext; ring. Qed.

(* ---------------------------------------------------------------- rational repr_cmp *)
(** the part of repr_cmp after the sign filter, both operands nonzero and of one sign *)
Lemma qrepr_steps sg n1 d1 n2 d2 (X : comparison) :
  0 < d1 -> 0 < d2 -> n1 <> 0 -> n2 <> 0 -> sign_of n1 = sg -> sign_of n2 = sg ->
  X = (n1 * d2 ?= n2 * d1) ->
  (let lhs_bits := bit_len n1 - bit_len d1 in
   let rhs_bits := bit_len n2 - bit_len d2 in
   if lhs_bits >? rhs_bits + 1 then smul sg Gt
   else if rhs_bits <? lhs_bits - 1 then smul sg Lt
   else X) = (n1 * d2 ?= n2 * d1).
Proof.
  intros H1 H2 N1 N2 S1 S2 HX. cbn zeta.
  destruct (ratio_pow2 n1 d1 N1 H1) as [G1 L1]. destruct (ratio_pow2 n2 d2 N2 H2) as [G2 L2].
  destruct (Z.gtb_spec (bit_len n1 - bit_len d1) (bit_len n2 - bit_len d2 + 1)).
  - symmetry. apply order_from_mag_gt; auto.
    apply (pow2_sep (Z.abs n1, d1) (Z.abs n2, d2) (bit_len n1 - bit_len d1 - 1) (bit_len n2 - bit_len d2 + 1)); cbn [fst snd]; auto; lia.
  - destruct (Z.ltb_spec (bit_len n2 - bit_len d2) (bit_len n1 - bit_len d1 - 1)); [lia | exact HX].
Qed.

Theorem qrepr_cmp_ord n1 d1 n2 d2 : 0 < d1 -> 0 < d2 ->
  Some (qrepr_cmp false n1 d1 n2 d2) = spec_cmp (XFin n1 d1) (XFin n2 d2).
Proof.
  intros H1 H2. unfold qrepr_cmp. cbn [spec_cmp]. f_equal.
  assert (K : forall sg, sign_of n1 = sg -> sign_of n2 = sg ->
    (if (d1 =? 1) && (d2 =? 1) then n1 ?= n2
     else match n1 =? 0, n2 =? 0 with
          | true, true => Eq | true, false => Lt | false, true => Gt
          | false, false =>
            let lhs_bits := bit_len n1 - bit_len d1 in let rhs_bits := bit_len n2 - bit_len d2 in
            if lhs_bits >? rhs_bits + 1 then (if match sg with Negative => true | Positive => false end then Lt else Gt)
            else if rhs_bits <? lhs_bits - 1 then (if match sg with Negative => true | Positive => false end then Gt else Lt)
            else n1 * d2 ?= n2 * d1
          end) = (n1 * d2 ?= n2 * d1)).
  { intros sg S1 S2.
    destruct (Z.eqb_spec d1 1) as [D1 | D1], (Z.eqb_spec d2 1) as [D2 | D2]; cbn [andb]; try (subst d1 d2; apply cmp_ext; ring).
    all: destruct (Z.eqb_spec n1 0) as [E1 | N1], (Z.eqb_spec n2 0) as [E2 | N2];
      [ subst; reflexivity
      | subst n1; destruct sg; [ | discriminate S1]; apply sign_of_pos in S2; symmetry; apply cmp_lt; nia
      | subst n2; destruct sg; [ | discriminate S2]; apply sign_of_pos in S1; symmetry; apply cmp_gt; nia
      | pose proof (qrepr_steps sg n1 d1 n2 d2 (n1 * d2 ?= n2 * d1) H1 H2 N1 N2 S1 S2 eq_refl) as Q; cbn zeta in Q;
        destruct sg; exact Q ]. }
  destruct (sign_of n1) eqn:S1, (sign_of n2) eqn:S2.
  - apply (K Positive); auto.
  - symmetry. apply order_mixed_gt; auto.
  - symmetry. apply order_mixed_lt; auto.
  - apply (K Negative); auto.
Qed.

Theorem qrepr_cmp_abs n1 d1 n2 d2 : 0 < d1 -> 0 < d2 ->
  Some (qrepr_cmp true n1 d1 n2 d2) = spec_abs_cmp (XFin n1 d1) (XFin n2 d2).
Proof.
  intros H1 H2. unfold qrepr_cmp, spec_abs_cmp. cbn [spec_cmp xabs]. f_equal.
  destruct (Z.eqb_spec d1 1) as [D1 | D1], (Z.eqb_spec d2 1) as [D2 | D2]; cbn [andb]; try (subst d1 d2; apply cmp_ext; ring).
  all: destruct (Z.eqb_spec n1 0) as [E1 | N1], (Z.eqb_spec n2 0) as [E2 | N2];
    [ subst; reflexivity
    | subst n1; symmetry; apply cmp_lt; cbn; nia
    | subst n2; symmetry; apply cmp_gt; cbn; nia
    | pose proof (qrepr_steps Positive (Z.abs n1) d1 (Z.abs n2) d2 (Z.abs (n1 * d2) ?= Z.abs (n2 * d1)) H1 H2) as Q;
      cbn zeta in Q; rewrite !bit_len_abs in Q; apply Q; try lia; try (apply sign_of_pos; lia);
      rewrite !Z.abs_mul, (Z.abs_eq d1), (Z.abs_eq d2) by lia; reflexivity ].
Qed.

(** repr_eq::<false>: the num_eq override between RBig and Relaxed decides equality of the values *)
Lemma bit_len_mul_bounds a b : a <> 0 -> b <> 0 ->
  2 ^ (bit_len a + bit_len b - 2) <= Z.abs (a * b) < 2 ^ (bit_len a + bit_len b).
Proof.
  intros Ha Hb. destruct (bit_len_bounds a Ha) as [[La Ua] Pa]. destruct (bit_len_bounds b Hb) as [[Lb Ub] Pb].
  rewrite Z.abs_mul.
  replace (bit_len a + bit_len b - 2) with ((bit_len a - 1) + (bit_len b - 1)) by lia.
  rewrite !Z.pow_add_r by lia.
  assert (0 < 2 ^ (bit_len a - 1)) by (apply pow2_pos; lia). assert (0 < 2 ^ (bit_len b - 1)) by (apply pow2_pos; lia).
  split; nia.
Qed.

Theorem qrepr_eq_spec n1 d1 n2 d2 : 0 < d1 -> 0 < d2 ->
  qrepr_eq n1 d1 n2 d2 = true <-> spec_cmp (XFin n1 d1) (XFin n2 d2) = Some Eq.
Proof.
  intros H1 H2. cbn [spec_cmp]. unfold qrepr_eq.
  assert (EQ : Some (n1 * d2 ?= n2 * d1) = Some Eq <-> n1 * d2 = n2 * d1).
  { split; [intros H; injection H as H; apply Z.compare_eq_iff; exact H | intros ->; rewrite Z.compare_refl; reflexivity]. }
  rewrite EQ. clear EQ.
  destruct (sign_of n1) eqn:S1, (sign_of n2) eqn:S2; cbn [negb];
    try apply sign_of_pos in S1; try apply sign_of_neg in S1; try apply sign_of_pos in S2; try apply sign_of_neg in S2;
    try (split; [discriminate | intros; nia]).
  all: destruct (Z.eqb_spec n1 0) as [E1 | N1];
    [ subst n1; destruct (Z.eqb_spec n2 0); split; intros; try reflexivity; try discriminate; try nia | ].
  all: destruct (Z.gtb_spec (Z.abs (bit_len n1 + bit_len d2 - (bit_len n2 + bit_len d1))) 1) as [G | G].
  all: try (split; [discriminate | intros EQ; exfalso;
      assert (N2 : n2 <> 0) by nia;
      pose proof (bit_len_mul_bounds n1 d2 N1 ltac:(lia)) as B1; pose proof (bit_len_mul_bounds n2 d1 N2 ltac:(lia)) as B2;
      rewrite EQ in B1;
      assert (bit_len n1 + bit_len d2 - 2 < bit_len n2 + bit_len d1) by (apply (Z.pow_lt_mono_r_iff 2); try lia; pose proof (bit_len_nonneg n2); pose proof (bit_len_nonneg d1); lia);
      assert (bit_len n2 + bit_len d1 - 2 < bit_len n1 + bit_len d2) by (apply (Z.pow_lt_mono_r_iff 2); try lia; pose proof (bit_len_nonneg n1); pose proof (bit_len_nonneg d2); lia);
      lia]).
  all: rewrite Z.eqb_eq; split; intros EQ; [ | rewrite EQ; reflexivity].
  - rewrite !Z.abs_eq in EQ by nia. exact EQ.
  - rewrite !Z.abs_neq in EQ by nia. lia.
Qed.

(* ---------------------------------------------------------------- float/src/cmp.rs repr_cmp_same_base *)
Lemma fnum_max B s e : fnum B s e = s * B ^ Z.max e 0.
Proof. unfold fnum. destruct (Z.leb_spec 0 e); [rewrite Z.max_l by lia; reflexivity | rewrite Z.max_r by lia; cbn; ring]. Qed.
Lemma fden_max B e : fden B e = B ^ Z.max (- e) 0.
Proof. unfold fden. destruct (Z.leb_spec 0 e); [rewrite Z.max_r by lia; reflexivity | rewrite Z.max_l by lia; reflexivity]. Qed.

(** two floats of one base are compared after aligning to the smaller exponent *)
Lemma same_base_cmp B s1 e1 s2 e2 : 0 < B ->
  (fnum B s1 e1 * fden B e2 ?= fnum B s2 e2 * fden B e1)
  = (s1 * B ^ (e1 - Z.min e1 e2) ?= s2 * B ^ (e2 - Z.min e1 e2)).
Proof.
  intros HB. rewrite !fnum_max, !fden_max.
  assert (0 < B ^ (Z.min e1 e2 + Z.max (- e1) 0 + Z.max (- e2) 0)) by (apply Z.pow_pos_nonneg; lia).
  replace (s1 * B ^ Z.max e1 0 * B ^ Z.max (- e2) 0)
    with (s1 * B ^ (e1 - Z.min e1 e2) * B ^ (Z.min e1 e2 + Z.max (- e1) 0 + Z.max (- e2) 0))
    by (rewrite <- !Z.mul_assoc, <- !Z.pow_add_r by lia; f_equal; f_equal; lia).
  replace (s2 * B ^ Z.max e2 0 * B ^ Z.max (- e1) 0)
    with (s2 * B ^ (e2 - Z.min e1 e2) * B ^ (Z.min e1 e2 + Z.max (- e1) 0 + Z.max (- e2) 0))
    by (rewrite <- !Z.mul_assoc, <- !Z.pow_add_r by lia; f_equal; f_equal; lia).
  apply cmp_scale. assumption.
Qed.

(** cases 4 and 5 of repr_cmp_same_base for nonzero significands of one sign; D1, D2 over-estimate the digits *)
Lemma same_base_steps sg B s1 e1 s2 e2 D1 D2 (XE XG XL : comparison) :
  2 <= B -> s1 <> 0 -> s2 <> 0 -> sign_of s1 = sg -> sign_of s2 = sg ->
  Z.abs s1 < B ^ D1 -> Z.abs s2 < B ^ D2 ->
  XE = (s1 ?= s2) -> XG = (s1 * B ^ (e1 - e2) ?= s2) -> XL = (s1 ?= s2 * B ^ (e2 - e1)) ->
  (if e1 >? e2 + D2 then smul sg Gt
   else if e2 >? e1 + D1 then smul sg Lt
   else match e1 ?= e2 with Eq => XE | Gt => XG | Lt => XL end)
  = (s1 * B ^ (e1 - Z.min e1 e2) ?= s2 * B ^ (e2 - Z.min e1 e2)).
Proof.
  intros HB N1 N2 S1 S2 U1 U2 -> -> ->.
  assert (P1 : 0 <= D1) by (destruct (Z.lt_ge_cases D1 0); [rewrite Z.pow_neg_r in U1 by lia; lia | lia]).
  assert (P2 : 0 <= D2) by (destruct (Z.lt_ge_cases D2 0); [rewrite Z.pow_neg_r in U2 by lia; lia | lia]).
  destruct (Z.gtb_spec e1 (e2 + D2)) as [G1 | G1].
  - rewrite Z.min_r by lia. replace (e2 - e2) with 0 by lia. rewrite Z.pow_0_r, Z.mul_1_r.
    assert (B ^ D2 <= B ^ (e1 - e2)) by (apply Z.pow_le_mono_r; lia).
    assert (0 < B ^ (e1 - e2)) by (apply Z.pow_pos_nonneg; lia).
    destruct sg; cbn [smul CompOpp]; symmetry.
    + apply sign_of_pos in S1, S2. apply cmp_gt. nia.
    + apply sign_of_neg in S1, S2. apply cmp_lt. nia.
  - destruct (Z.gtb_spec e2 (e1 + D1)) as [G2 | G2].
    + rewrite Z.min_l by lia. replace (e1 - e1) with 0 by lia. rewrite Z.pow_0_r, Z.mul_1_r.
      assert (B ^ D1 <= B ^ (e2 - e1)) by (apply Z.pow_le_mono_r; lia).
      assert (0 < B ^ (e2 - e1)) by (apply Z.pow_pos_nonneg; lia).
      destruct sg; cbn [smul CompOpp]; symmetry.
      * apply sign_of_pos in S1, S2. apply cmp_lt. nia.
      * apply sign_of_neg in S1, S2. apply cmp_gt. nia.
    + destruct (Z.compare_spec e1 e2) as [E | E | E].
      * subst e2. rewrite Z.min_id, Z.sub_diag, Z.pow_0_r, !Z.mul_1_r. reflexivity.
      * rewrite Z.min_l by lia. rewrite Z.sub_diag, Z.pow_0_r, Z.mul_1_r. reflexivity.
      * rewrite Z.min_r by lia. rewrite Z.sub_diag, Z.pow_0_r, Z.mul_1_r. reflexivity.
Qed.

Lemma f_not_inf_zero s e : f_is_inf s e = false -> s = 0 -> e = 0.
Proof. unfold f_is_inf. intros H ->. cbn in H. destruct (Z.eqb_spec e 0); [assumption | discriminate]. Qed.

Section SameBaseProof.
Variable dub : Z -> Z -> Z.
(** contract of Repr::digits_ub: an over-estimate of the number of base-B digits *)
Hypothesis dub_ok : forall B s, 2 <= B -> s <> 0 -> Z.abs s < B ^ dub B s.

Theorem fsame_cmp_ord B s1 e1 s2 e2 : 2 <= B -> fwf s1 e1 -> fwf s2 e2 ->
  Some (fsame_cmp dub false B s1 e1 s2 e2) = spec_cmp (fval B s1 e1) (fval B s2 e2).
Proof.
  intros HB W1 W2. unfold fsame_cmp.
  destruct (f_is_inf s1 e1) eqn:Hi1, (f_is_inf s2 e2) eqn:Hi2.
  - rewrite !fval_inf by assumption.
    apply f_is_inf_true in Hi1, Hi2. specialize (W1 (proj1 Hi1)). specialize (W2 (proj1 Hi2)).
    destruct (Z.ltb_spec 0 e1), (Z.ltb_spec 0 e2); cbn [spec_cmp]; f_equal;
      [apply Z.compare_eq_iff | apply cmp_gt | apply cmp_lt | apply Z.compare_eq_iff]; lia.
  - rewrite (fval_inf B s1) by assumption. rewrite (fval_fin B s2) by assumption. cbn [orb].
    apply f_is_inf_true in Hi1. destruct (Z.leb_spec 0 e1), (Z.ltb_spec 0 e1); try lia; reflexivity.
  - rewrite (fval_inf B s2) by assumption. rewrite (fval_fin B s1) by assumption. cbn [orb].
    apply f_is_inf_true in Hi2. destruct (Z.leb_spec 0 e2), (Z.ltb_spec 0 e2); try lia; reflexivity.
  - rewrite !fval_fin by assumption. cbn [spec_cmp]. f_equal.
    assert (Q1 : 0 < fden B e1) by (apply fden_pos; lia). assert (Q2 : 0 < fden B e2) by (apply fden_pos; lia).
    assert (Hn1 : sign_of (fnum B s1 e1) = sign_of s1) by (apply fnum_sign; lia).
    assert (Hn2 : sign_of (fnum B s2 e2) = sign_of s2) by (apply fnum_sign; lia).
    assert (K : forall sg, sign_of s1 = sg -> sign_of s2 = sg ->
      match s1 =? 0, s2 =? 0 with
      | true, true => Eq | true, false => Lt | false, true => Gt
      | false, false =>
        if e1 >? e2 + dub B s2 then smul sg Gt
        else if e2 >? e1 + dub B s1 then smul sg Lt
        else match e1 ?= e2 with
             | Eq => s1 ?= s2
             | Gt => shl_digits B s1 (e1 - e2) ?= s2
             | Lt => s1 ?= shl_digits B s2 (e2 - e1)
             end
      end = (fnum B s1 e1 * fden B e2 ?= fnum B s2 e2 * fden B e1)).
    { intros sg S1 S2.
      destruct (Z.eqb_spec s1 0) as [Z1 | N1], (Z.eqb_spec s2 0) as [Z2 | N2].
      - subst. rewrite (proj2 (fnum_zero B 0 e1 ltac:(lia)) eq_refl), (proj2 (fnum_zero B 0 e2 ltac:(lia)) eq_refl). reflexivity.
      - subst s1. rewrite (proj2 (fnum_zero B 0 e1 ltac:(lia)) eq_refl).
        destruct sg; [ | discriminate S1]. pose proof (fnum_pos_of_sign B s2 e2 ltac:(lia) N2 S2). symmetry; apply cmp_lt; nia.
      - subst s2. rewrite (proj2 (fnum_zero B 0 e2 ltac:(lia)) eq_refl).
        destruct sg; [ | discriminate S2]. pose proof (fnum_pos_of_sign B s1 e1 ltac:(lia) N1 S1). symmetry; apply cmp_gt; nia.
      - rewrite same_base_cmp by lia.
        apply (same_base_steps sg B s1 e1 s2 e2 (dub B s1) (dub B s2)); auto; reflexivity. }
    unfold sign_filter. destruct (sign_of s1) eqn:S1, (sign_of s2) eqn:S2.
    + apply (K Positive); reflexivity.
    + symmetry. apply order_mixed_gt; auto.
    + symmetry. apply order_mixed_lt; auto.
    + apply (K Negative); reflexivity.
Qed.

Theorem fsame_cmp_abs B s1 e1 s2 e2 : 2 <= B ->
  Some (fsame_cmp dub true B s1 e1 s2 e2) = spec_abs_cmp (fval B s1 e1) (fval B s2 e2).
Proof.
  intros HB. unfold fsame_cmp, spec_abs_cmp.
  destruct (f_is_inf s1 e1) eqn:Hi1, (f_is_inf s2 e2) eqn:Hi2.
  - rewrite !fval_inf by assumption. reflexivity.
  - rewrite (fval_inf B s1) by assumption. rewrite (fval_fin B s2) by assumption. reflexivity.
  - rewrite (fval_inf B s2) by assumption. rewrite (fval_fin B s1) by assumption. reflexivity.
  - rewrite !fval_fin by assumption. cbn [spec_cmp xabs]. f_equal.
    rewrite !fnum_abs by lia.
    destruct (Z.eqb_spec s1 0) as [Z1 | N1], (Z.eqb_spec s2 0) as [Z2 | N2].
    + subst. cbn [Z.abs]. rewrite (proj2 (fnum_zero B 0 e1 ltac:(lia)) eq_refl), (proj2 (fnum_zero B 0 e2 ltac:(lia)) eq_refl). reflexivity.
    + subst s1. cbn [Z.abs]. rewrite (proj2 (fnum_zero B 0 e1 ltac:(lia)) eq_refl).
      assert (0 < fden B e1) by (apply fden_pos; lia).
      pose proof (fnum_pos_of_sign B (Z.abs s2) e2 ltac:(lia) ltac:(lia) ltac:(apply sign_of_pos; lia)). symmetry; apply cmp_lt; nia.
    + subst s2. cbn [Z.abs]. rewrite (proj2 (fnum_zero B 0 e2 ltac:(lia)) eq_refl).
      assert (0 < fden B e2) by (apply fden_pos; lia).
      pose proof (fnum_pos_of_sign B (Z.abs s1) e1 ltac:(lia) ltac:(lia) ltac:(apply sign_of_pos; lia)). symmetry; apply cmp_gt; nia.
    + rewrite same_base_cmp by lia. cbn [smul].
      assert (A : forall s k, Z.abs (shl_digits B s k) = Z.abs s * B ^ k).
      { intros s k. unfold shl_digits. rewrite Z.abs_mul. f_equal. apply Z.abs_eq. apply Z.pow_nonneg; lia. }
      apply (same_base_steps Positive B (Z.abs s1) e1 (Z.abs s2) e2 (dub B s1) (dub B s2)); try lia;
        try (apply sign_of_pos; lia); try (rewrite Z.abs_involutive; apply dub_ok; assumption);
        try reflexivity; cbn zeta; rewrite A; reflexivity.
Qed.
End SameBaseProof.
