(** C14: operands of every numeric kind, their exact values, and the specification of cross-type
    comparison (NumOrd), magnitude comparison (AbsOrd) and of the NumHash input.  Definitions only. *)
From Dashu Require Import Base.Prelude.
Open Scope Z_scope.

(** exact extended value: NaN, an infinity, or the fraction n/d with d > 0 *)
Inductive xval := XNaN | XInf (s : sign) | XFin (n d : Z).

(** operands as the library stores them *)
Inductive operand :=
| OInt (z : Z)                       (* UBig, IBig and every primitive integer *)
| OFlt (B sig exp : Z)               (* Repr<B>/FBig<_,B> as stored: sig * B^exp; the infinities are sig = 0, exp = +-1 *)
| ORat (n d : Z)                     (* RBig / Relaxed as stored: n/d, d > 0 *)
| OPrim (mb eb bits : Z).            (* f32 = (23, 8, bits), f64 = (52, 11, bits) *)

(* ---------------------------------------------------------------- primitive floats *)
(** FloatEncoding::decode: Err(Nan) / Err(Infinite) / Ok (signed mantissa, exponent) *)
Inductive fdec := DNaN | DInf (s : sign) | DFin (man exp : Z).

Definition decode (mb eb bits : Z) : fdec :=
  let sign_bit := Z.shiftr bits (mb + eb) in
  let mant := Z.land bits (2 ^ mb - 1) in
  let e := Z.land (Z.shiftr bits mb) (2 ^ eb - 1) in
  let bias := 2 ^ (eb - 1) - 1 in
  if e =? 2 ^ eb - 1 then
    (if mant =? 0 then DInf (if sign_bit =? 0 then Positive else Negative) else DNaN)
  else
    let '(m, ex) := if e =? 0 then (mant, 1 - bias - mb) else (Z.lor mant (2 ^ mb), e - (bias + mb)) in
    DFin (if sign_bit =? 0 then m else - m) ex.

(** value of m * B^e as a fraction *)
Definition scale_val (m B e : Z) : xval :=
  if 0 <=? e then XFin (m * B ^ e) 1 else XFin m (B ^ (- e)).

(** Repr::is_infinite / is_zero / sign *)
Definition f_is_inf (s e : Z) : bool := (s =? 0) && negb (e =? 0).
Definition f_is_zero (s e : Z) : bool := (s =? 0) && (e =? 0).
Definition repr_sign (s e : Z) : sign :=
  if s =? 0 then (if 0 <=? e then Positive else Negative) else sign_of s.

Definition fval (B s e : Z) : xval :=
  if f_is_inf s e then XInf (if 0 <? e then Positive else Negative) else scale_val s B e.

Definition value_of (o : operand) : xval :=
  match o with
  | OInt z => XFin z 1
  | OFlt B s e => fval B s e
  | ORat n d => XFin n d
  | OPrim mb eb bits =>
      match decode mb eb bits with
      | DNaN => XNaN
      | DInf s => XInf s
      | DFin m e => scale_val m 2 e
      end
  end.

(* ---------------------------------------------------------------- ordering of exact values *)
Definition spec_cmp (a b : xval) : option comparison :=
  match a, b with
  | XNaN, _ | _, XNaN => None
  | XInf Positive, XInf Positive | XInf Negative, XInf Negative => Some Eq
  | XInf Positive, _ => Some Gt
  | XInf Negative, _ => Some Lt
  | _, XInf Positive => Some Lt
  | _, XInf Negative => Some Gt
  | XFin n1 d1, XFin n2 d2 => Some (n1 * d2 ?= n2 * d1)
  end.

Definition xabs (a : xval) : xval :=
  match a with XNaN => XNaN | XInf _ => XInf Positive | XFin n d => XFin (Z.abs n) d end.

Definition spec_abs_cmp (a b : xval) : option comparison := spec_cmp (xabs a) (xabs b).

(* ---------------------------------------------------------------- hashing *)
Definition M127 : Z := 2 ^ 127 - 1.

(** extended Euclid: (g, u, v) with u*a + v*b = g *)
Fixpoint egcd (fuel : nat) (a b : Z) : Z * Z * Z :=
  match fuel with
  | O => (a, 1, 0)
  | S f => if b =? 0 then (a, 1, 0)
           else let '(g, u, v) := egcd f b (a mod b) in (g, v, u - (a / b) * v)
  end.

(** modular inverse in the field of 2^127-1 (None when x is not invertible) *)
Definition minv_euclid (x : Z) : option Z :=
  let '(g, u, _) := egcd 400 (x mod M127) M127 in
  if g =? 1 then Some (u mod M127) else None.

(** The value the NumHash of a finite number must feed to the hasher (as an i128):
    sgn * (|n'| * d'^-1 mod M127) for the lowest-terms fraction n'/d'; 0 when d' is a multiple of M127
    (num-order maps the "infinite" residues +-M127 to 0). *)
Definition spec_hash_fin (n d : Z) : Z :=
  let g := Z.gcd n d in
  let n' := n / g in let d' := d / g in
  match minv_euclid d' with
  | None => 0
  | Some i => Z.sgn n' * ((Z.abs n' mod M127) * i mod M127)
  end.

Definition spec_hash (v : xval) : option Z :=
  match v with
  | XFin n d => Some (spec_hash_fin n d)
  | _ => None   (* infinities and NaN are not numbers with an exact value: outside the property *)
  end.

(* ---------------------------------------------------------------- constructors used by the oracle *)
(** RBig::from_parts reduces to lowest terms; Relaxed::from_parts removes the common power of two *)
Definition mk_rbig (n d : Z) : operand :=
  let g := Z.gcd n d in ORat (n / g) (d / g).
Definition mk_relaxed (n d : Z) : operand :=
  if n =? 0 then ORat 0 1
  else let g := Z.gcd n d in let p := Z.land g (- g) in ORat (n / p) (d / p).
