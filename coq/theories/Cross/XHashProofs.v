(** C14: proofs, part 4.  NumHash: the i128 fed to the hasher by integers, floats and rationals is a function of
    the exact value.  [hash_of n d h]: h is the hash of the fraction n/d in the field of 2^127-1, i.e.
    sgn(n) * (|n| * d^-1 mod M127) for SOME inverse d^-1; inverses are unique, so equal fractions get equal h. *)
From Dashu Require Import Base.Prelude Cross.XVal Cross.XOrdModel Cross.XDispatch Cross.XOrdProofs.
From Coq Require Import Zpow_facts.
Open Scope Z_scope.

Lemma M127_val : M127 = 170141183460469231731687303715884105727.
Proof. reflexivity. Qed.
Lemma M127_pos : 1 < M127.
Proof. rewrite M127_val. lia. Qed.
Local Hint Resolve M127_pos : core.

Definition hash_of (n d h : Z) : Prop :=
  exists i, (d * i) mod M127 = 1 /\ h = Z.sgn n * ((Z.abs n * i) mod M127).

Lemma mod_mul_one x y : y mod M127 = 1 -> (x * y) mod M127 = x mod M127.
Proof. intros H. rewrite Z.mul_mod by (pose proof M127_pos; lia). rewrite H, Z.mul_1_r. apply Z.mod_mod. pose proof M127_pos; lia. Qed.

(** equal fractions have equal hashes, whatever representation (numerator, denominator, inverse) was used *)
Theorem hash_of_consistent n1 d1 h1 n2 d2 h2 : 0 < d1 -> 0 < d2 ->
  hash_of n1 d1 h1 -> hash_of n2 d2 h2 -> n1 * d2 = n2 * d1 -> h1 = h2.
Proof.
  intros P1 P2 (i1 & I1 & ->) (i2 & I2 & ->) EQ.
  assert (S : Z.sgn n1 = Z.sgn n2).
  { assert (Z.sgn (n1 * d2) = Z.sgn (n2 * d1)) by (rewrite EQ; reflexivity).
    rewrite !Z.sgn_mul, (Z.sgn_pos d1), (Z.sgn_pos d2) in H by lia. lia. }
  assert (A : Z.abs n1 * d2 = Z.abs n2 * d1).
  { rewrite <- (Z.abs_eq d2), <- (Z.abs_eq d1), <- !Z.abs_mul by lia. rewrite EQ. reflexivity. }
  rewrite S. f_equal.
  rewrite <- (mod_mul_one (Z.abs n1 * i1) (d2 * i2) I2).
  rewrite <- (mod_mul_one (Z.abs n2 * i2) (d1 * i1) I1).
  f_equal. transitivity ((Z.abs n1 * d2) * (i1 * i2)); [ring | rewrite A; ring].
Qed.

(* ---------------------------------------------------------------- the modular inverse *)
Lemma egcd_bezout fuel : forall a b g u v, egcd fuel a b = (g, u, v) -> u * a + v * b = g.
Proof.
  induction fuel as [ | f IH]; intros a b g u v; cbn [egcd].
  - intros H; injection H as <- <- <-. ring.
  - destruct (Z.eqb_spec b 0) as [-> | Hb].
    + intros H; injection H as <- <- <-. ring.
    + destruct (egcd f b (a mod b)) as [[g' u'] v'] eqn:R. intros H; injection H as <- <- <-.
      specialize (IH _ _ _ _ _ R). rewrite <- IH. rewrite (Z.mod_eq a b Hb). ring.
Qed.

Lemma minv_sound x i : minv_euclid x = Some i -> (x * i) mod M127 = 1.
Proof.
  unfold minv_euclid. destruct (egcd 400 (x mod M127) M127) as [[g u] v] eqn:R.
  destruct (Z.eqb_spec g 1) as [-> | ]; [ | discriminate]. intros H; injection H as <-.
  pose proof (egcd_bezout _ _ _ _ _ _ R) as Bz. pose proof M127_pos.
  rewrite Z.mul_mod_idemp_r by lia. rewrite <- Z.mul_mod_idemp_l by lia.
  replace (x mod M127 * u) with (1 + (- v) * M127) by lia.
  rewrite Z.mod_add by lia. apply Z.mod_small. lia.
Qed.

(* ---------------------------------------------------------------- integers *)
Theorem int_hash_of x : hash_of x 1 (int_hash x).
Proof.
  exists 1. pose proof M127_pos. split; [apply Z.mod_small; lia | ].
  unfold int_hash. rewrite Z.rem_mod by lia. rewrite (Z.abs_eq M127) by lia. rewrite Z.mul_1_r. reflexivity.
Qed.

(* ---------------------------------------------------------------- rationals *)
Lemma sgnz_sign_of n : n <> 0 -> sgnz (sign_of n) = Z.sgn n.
Proof. intros H. unfold sign_of. destruct (Z.ltb_spec n 0); cbn [sgnz]; lia. Qed.

Lemma abs_rem_mod n : Z.abs (Z.rem n M127) = Z.abs n mod M127.
Proof.
  pose proof M127_pos. rewrite <- Z.rem_abs_l by lia. apply Z.rem_mod_nonneg; lia.
Qed.

Lemma ratio_hash_core n d i h : (d mod M127 * i) mod M127 = 1 ->
  h = sgnz (sign_of n) * (Z.abs (Z.rem n M127) * i mod M127) -> hash_of n d h.
Proof.
  intros I ->. pose proof M127_pos. exists i. split.
  - rewrite Z.mul_mod_idemp_l in I by lia. exact I.
  - rewrite abs_rem_mod. rewrite Z.mul_mod_idemp_l by lia.
    destruct (Z.eq_dec n 0) as [-> | N]; [reflexivity | ]. rewrite sgnz_sign_of by exact N. reflexivity.
Qed.

(** a denominator that is not a multiple of 2^127-1 *)
Theorem qrepr_hash_of n d h : d mod M127 <> 0 -> qrepr_hash n d = Some h -> hash_of n d h.
Proof.
  intros ND. unfold qrepr_hash.
  assert (F : forall fuel, qrepr_hash_f fuel n d = Some h -> hash_of n d h); [ | apply F].
  intros fuel. destruct fuel; cbn [qrepr_hash_f]; destruct (Z.eqb_spec (d mod M127) 0); try contradiction;
    (destruct (minv_euclid (d mod M127)) as [binv | ] eqn:MI; [ | discriminate]; intros H; injection H as <-;
     apply (ratio_hash_core n d binv); [apply minv_sound; exact MI | reflexivity]).
Qed.
