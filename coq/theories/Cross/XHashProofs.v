(** C14: proofs, part 4.  NumHash: the i128 fed to the hasher by integers, floats and rationals is a function of
    the exact value.  [hash_of n d h]: h is the hash of the fraction n/d in the field of 2^127-1, i.e.
    sgn(n) * (|n| * d^-1 mod M127) for SOME inverse d^-1; inverses are unique, so equal fractions get equal h. *)
From Dashu Require Import Base.Prelude Cross.XVal Cross.XOrdModel Cross.XDispatch Cross.XOrdProofs.
From Coq Require Import Zpow_facts.
Open Scope Z_scope.

Lemma M127_val : M127 = 170141183460469231731687303715884105727.
Proof. reflexivity. Qed.
Lemma M127_pos : 1 < M127.
Proof. rewrite M127_val. lia. Qed.
Local Hint Resolve M127_pos : core.

Definition hash_of (n d h : Z) : Prop :=
  exists i, (d * i) mod M127 = 1 /\ h = Z.sgn n * ((Z.abs n * i) mod M127).

Lemma mod_mul_one x y : y mod M127 = 1 -> (x * y) mod M127 = x mod M127.
Proof. intros H. rewrite Z.mul_mod by (pose proof M127_pos; lia). rewrite H, Z.mul_1_r. apply Z.mod_mod. pose proof M127_pos; lia. Qed.

(** equal fractions have equal hashes, whatever representation (numerator, denominator, inverse) was used *)
Theorem hash_of_consistent n1 d1 h1 n2 d2 h2 : 0 < d1 -> 0 < d2 ->
  hash_of n1 d1 h1 -> hash_of n2 d2 h2 -> n1 * d2 = n2 * d1 -> h1 = h2.
Proof.
  intros P1 P2 (i1 & I1 & ->) (i2 & I2 & ->) EQ.
  assert (S : Z.sgn n1 = Z.sgn n2).
  { assert (Z.sgn (n1 * d2) = Z.sgn (n2 * d1)) by (rewrite EQ; reflexivity).
    rewrite !Z.sgn_mul, (Z.sgn_pos d1), (Z.sgn_pos d2) in H by lia. lia. }
  assert (A : Z.abs n1 * d2 = Z.abs n2 * d1).
  { rewrite <- (Z.abs_eq d2), <- (Z.abs_eq d1), <- !Z.abs_mul by lia. rewrite EQ. reflexivity. }
  rewrite S. f_equal.
  rewrite <- (mod_mul_one (Z.abs n1 * i1) (d2 * i2) I2).
  rewrite <- (mod_mul_one (Z.abs n2 * i2) (d1 * i1) I1).
  f_equal. transitivity ((Z.abs n1 * d2) * (i1 * i2)); [ring | rewrite A; ring].
Qed.

(* ---------------------------------------------------------------- the modular inverse *)
Lemma egcd_bezout fuel : forall a b g u v, egcd fuel a b = (g, u, v) -> u * a + v * b = g.
Proof.
  induction fuel as [ | f IH]; intros a b g u v; cbn [egcd].
  - intros H; injection H as <- <- <-. ring.
  - destruct (Z.eqb_spec b 0) as [-> | Hb].
    + intros H; injection H as <- <- <-. ring.
    + destruct (egcd f b (a mod b)) as [[g' u'] v'] eqn:R. intros H; injection H as <- <- <-.
      specialize (IH _ _ _ _ _ R). rewrite <- IH. rewrite (Z.mod_eq a b Hb). ring.
Qed.

Lemma minv_sound x i : minv_euclid x = Some i -> (x * i) mod M127 = 1.
Proof.
  unfold minv_euclid. destruct (egcd 400 (x mod M127) M127) as [[g u] v] eqn:R.
  destruct (Z.eqb_spec g 1) as [-> | ]; [ | discriminate]. intros H; injection H as <-.
  pose proof (egcd_bezout _ _ _ _ _ _ R) as Bz. pose proof M127_pos.
  rewrite Z.mul_mod_idemp_r by lia. rewrite <- Z.mul_mod_idemp_l by lia.
  replace (x mod M127 * u) with (1 + (- v) * M127) by lia.
  rewrite Z.mod_add by lia. apply Z.mod_small. lia.
Qed.

(* ---------------------------------------------------------------- integers *)
Theorem int_hash_of x : hash_of x 1 (int_hash x).
Proof.
  exists 1. pose proof M127_pos. split; [apply Z.mod_small; lia | ].
  unfold int_hash. rewrite Z.rem_mod by lia. rewrite (Z.abs_eq M127) by lia. rewrite Z.mul_1_r. reflexivity.
Qed.

(* ---------------------------------------------------------------- rationals *)
Lemma sgnz_sign_of n : n <> 0 -> sgnz (sign_of n) = Z.sgn n.
Proof. intros H. unfold sign_of. destruct (Z.ltb_spec n 0); cbn [sgnz]; lia. Qed.

Lemma abs_rem_mod n : Z.abs (Z.rem n M127) = Z.abs n mod M127.
Proof.
  pose proof M127_pos. rewrite <- Z.rem_abs_l by lia. apply Z.rem_mod_nonneg; lia.
Qed.

Lemma ratio_hash_core n d i h : (d mod M127 * i) mod M127 = 1 ->
  h = sgnz (sign_of n) * (Z.abs (Z.rem n M127) * i mod M127) -> hash_of n d h.
Proof.
  intros I ->. pose proof M127_pos. exists i. split.
  - rewrite Z.mul_mod_idemp_l in I by lia. exact I.
  - rewrite abs_rem_mod. rewrite Z.mul_mod_idemp_l by lia.
    destruct (Z.eq_dec n 0) as [-> | N]; [reflexivity | ]. rewrite sgnz_sign_of by exact N. reflexivity.
Qed.

(** a denominator that is not a multiple of 2^127-1 *)
Theorem qrepr_hash_of n d h : d mod M127 <> 0 -> qrepr_hash n d = Some h -> hash_of n d h.
Proof.
  intros ND. unfold qrepr_hash.
  assert (F : forall fuel, qrepr_hash_f fuel n d = Some h -> hash_of n d h); [ | apply F].
  intros fuel. destruct fuel; cbn [qrepr_hash_f]; destruct (Z.eqb_spec (d mod M127) 0); try contradiction;
    (destruct (minv_euclid (d mod M127)) as [binv | ] eqn:MI; [ | discriminate]; intros H; injection H as <-;
     apply (ratio_hash_core n d binv); [apply minv_sound; exact MI | reflexivity]).
Qed.

(* ---------------------------------------------------------------- floats *)
Lemma mpow_pos_correct x p : mpow_pos x p = x ^ Zpos p mod M127.
Proof.
  pose proof M127_pos. induction p as [p IH | p IH | ]; cbn [mpow_pos].
  - rewrite IH. rewrite Pos2Z.inj_xI. replace (2 * Z.pos p + 1) with (Z.pos p + Z.pos p + 1) by lia.
    rewrite !Z.pow_add_r, Z.pow_1_r by lia.
    rewrite <- Z.mul_mod by lia. rewrite Z.mul_mod_idemp_l by lia. reflexivity.
  - rewrite IH. rewrite Pos2Z.inj_xO. replace (2 * Z.pos p) with (Z.pos p + Z.pos p) by lia.
    rewrite Z.pow_add_r by lia. rewrite <- Z.mul_mod by lia. reflexivity.
  - rewrite Z.pow_1_r. reflexivity.
Qed.
Lemma mpow_correct x n : 0 <= n -> mpow x n = x ^ n mod M127.
Proof.
  intros Hn. destruct n as [ | p | p]; cbn [mpow]; [ | apply mpow_pos_correct | lia].
  rewrite Z.pow_0_r. symmetry. apply Z.mod_small. pose proof M127_pos; lia.
Qed.

Lemma two_pow_127 : 2 ^ 127 mod M127 = 1.
Proof. reflexivity. Qed.
Lemma pow_mod_one x q : 0 <= q -> x mod M127 = 1 -> (x ^ q) mod M127 = 1.
Proof.
  intros Hq H. pose proof M127_pos. rewrite Zpower_mod by lia. rewrite H, Z.pow_1_l by lia. apply Z.mod_small; lia.
Qed.
(** 2^127 = 1 in the field: only the exponent modulo 127 matters (ModularAbs::absm) *)
Lemma two_pow_red e : 0 <= e -> 2 ^ absm e 127 mod M127 = 2 ^ e mod M127.
Proof.
  intros He. unfold absm. pose proof M127_pos.
  assert (Hq : 0 <= e / 127) by (apply Z.div_pos; lia).
  assert (Hr : 0 <= e mod 127 < 127) by (apply Z.mod_pos_bound; lia).
  replace (2 ^ e) with ((2 ^ 127) ^ (e / 127) * 2 ^ (e mod 127))
    by (rewrite <- Z.pow_mul_r, <- Z.pow_add_r by lia; f_equal; pose proof (Z.div_mod e 127 ltac:(lia)); lia).
  rewrite (Z.mul_mod ((2 ^ 127) ^ (e / 127))) by lia. rewrite (pow_mod_one (2 ^ 127) (e / 127) Hq two_pow_127).
  rewrite Z.mul_1_l. rewrite Z.mod_mod by lia. reflexivity.
Qed.
Lemma two_pow_inv e : e < 0 -> (2 ^ (- e) * (2 ^ absm e 127 mod M127)) mod M127 = 1.
Proof.
  intros He. unfold absm. pose proof M127_pos.
  rewrite Z.mul_mod_idemp_r by lia.
  assert (0 <= e mod 127 < 127) by (apply Z.mod_pos_bound; lia).
  rewrite <- Z.pow_add_r by lia.
  replace (- e + e mod 127) with (127 * (- (e / 127))) by (rewrite (Z.mod_eq e 127) by lia; ring).
  assert (e / 127 < 0) by (apply Z.div_lt_upper_bound; lia).
  rewrite Z.pow_mul_r by lia. apply pow_mod_one; [lia | exact two_pow_127].
Qed.

Lemma sign_fix s k : let X := (Z.abs (Z.rem s M127) * k) mod M127 in
  (if Z.rem s M127 <? 0 then - X else X) = Z.sgn s * X.
Proof.
  cbn zeta. pose proof M127_pos.
  destruct (Z.ltb_spec (Z.rem s M127) 0) as [R | R].
  - assert (s < 0). { destruct (Z.lt_ge_cases s 0); [assumption | ]. pose proof (Z.rem_nonneg s M127 ltac:(lia) ltac:(lia)). lia. }
    rewrite Z.sgn_neg by lia. lia.
  - destruct (Z.lt_trichotomy s 0) as [N | [-> | P]].
    + pose proof (Z.rem_bound_pos_neg s M127 ltac:(lia) ltac:(lia)). assert (E : Z.rem s M127 = 0) by lia.
      rewrite E. cbn [Z.abs Z.mul]. rewrite Z.mod_0_l by lia. lia.
    + reflexivity.
    + rewrite Z.sgn_pos by lia. lia.
Qed.

Theorem frepr_hash_of B s e h : 2 <= B -> frepr_hash B s e = Some h -> hash_of (fnum B s e) (fden B e) h.
Proof.
  intros HB. unfold frepr_hash. pose proof M127_pos.
  set (eh := if B =? 2 then Some (2 ^ absm e 127 mod M127)
             else if e <? 0 then minv_euclid (mpow (B mod M127) (- e)) else Some (mpow (B mod M127) e)).
  destruct eh as [k | ] eqn:EH; [ | discriminate]. intros H0; injection H0 as <-.
  rewrite (sign_fix s k). rewrite abs_rem_mod, Z.mul_mod_idemp_l by lia.
  unfold fnum, fden. destruct (Z.leb_spec 0 e) as [He | He].
  - (* e >= 0: the integer s * B^e *)
    assert (K : k = B ^ e mod M127).
    { unfold eh in EH. destruct (Z.eqb_spec B 2) as [-> | ].
      - injection EH as <-. apply two_pow_red; lia.
      - destruct (Z.ltb_spec e 0); [lia | ]. injection EH as <-. rewrite mpow_correct by lia. symmetry. apply Zpower_mod; lia. }
    exists 1. split; [apply Z.mod_small; lia | ].
    assert (0 < B ^ e) by (apply Z.pow_pos_nonneg; lia).
    rewrite Z.sgn_mul, (Z.sgn_pos (B ^ e)), Z.mul_1_r by lia. f_equal.
    rewrite Z.abs_mul, (Z.abs_eq (B ^ e)), Z.mul_1_r by lia. rewrite K. apply Z.mul_mod_idemp_r; lia.
  - (* e < 0: the fraction s / B^(-e) *)
    exists k. split; [ | reflexivity].
    unfold eh in EH. destruct (Z.eqb_spec B 2) as [-> | ].
    + injection EH as <-. apply two_pow_inv; lia.
    + destruct (Z.ltb_spec e 0); [ | lia]. apply minv_sound in EH.
      rewrite mpow_correct in EH by lia. rewrite <- Zpower_mod in EH by lia.
      rewrite Z.mul_mod_idemp_l in EH by lia. exact EH.
Qed.

(* ---------------------------------------------------------------- the statement of the property *)
(** the fraction an operand stands for *)
Definition frac_of (t : tagged) : option (Z * Z) :=
  match t with
  | TU z | TI z => Some (z, 1)
  | TF B s e => if f_is_inf s e then None else Some (fnum B s e, fden B e)
  | TQ n d => if d mod M127 =? 0 then None else Some (n, d)    (* no inverse: hashed like an infinity *)
  | TP _ _ _ => None
  end.

Lemma hash_asis_of t n d h : match t with TF B _ _ => 2 <= B | TQ _ d => 0 < d | _ => True end ->
  frac_of t = Some (n, d) -> hash_asis t = Some h -> 0 < d /\ hash_of n d h.
Proof.
  destruct t as [z | z | B s e | n' d' | mb eb w]; cbn [frac_of hash_asis]; intros W F H.
  - injection F as <- <-. injection H as <-. split; [lia | apply int_hash_of].
  - injection F as <- <-. injection H as <-. split; [lia | apply int_hash_of].
  - destruct (f_is_inf s e); [discriminate | ]. injection F as <- <-.
    split; [apply fden_pos; lia | apply frepr_hash_of; assumption].
  - destruct (Z.eqb_spec (d' mod M127) 0); [discriminate | ]. injection F as <- <-.
    split; [assumption | apply qrepr_hash_of; assumption].
  - discriminate.
Qed.

(** Numerically equal numbers of different types feed the hasher the same i128 *)
Theorem hash_equal_values a b n1 d1 n2 d2 ha hb :
  match a with TF B _ _ => 2 <= B | TQ _ d => 0 < d | _ => True end ->
  match b with TF B _ _ => 2 <= B | TQ _ d => 0 < d | _ => True end ->
  frac_of a = Some (n1, d1) -> frac_of b = Some (n2, d2) -> n1 * d2 = n2 * d1 ->
  hash_asis a = Some ha -> hash_asis b = Some hb -> ha = hb.
Proof.
  intros Wa Wb Fa Fb EQ Ha Hb.
  destruct (hash_asis_of a n1 d1 ha Wa Fa Ha) as [P1 H1]. destruct (hash_asis_of b n2 d2 hb Wb Fb Hb) as [P2 H2].
  exact (hash_of_consistent n1 d1 ha n2 d2 hb P1 P2 H1 H2 EQ).
Qed.

(** frac_of is the exact value *)
Lemma frac_of_value t n d : frac_of t = Some (n, d) -> value_of (untag t) = XFin n d.
Proof.
  destruct t as [z | z | B s e | n' d' | mb eb w]; cbn [frac_of untag value_of]; intros F; try discriminate.
  - injection F as <- <-; reflexivity.
  - injection F as <- <-; reflexivity.
  - destruct (f_is_inf s e) eqn:I; [discriminate | ]. injection F as <- <-. apply fval_fin; exact I.
  - destruct (d' mod M127 =? 0); [discriminate | ]. injection F as <- <-. reflexivity.
Qed.

Example hash_equal_values_ex :
  hash_asis (TF 10 5 (-1)) = Some 85070591730234615865843651857942052864 /\
  hash_asis (TQ 1 2) = Some 85070591730234615865843651857942052864 /\
  hash_asis (TF 2 1 (-1)) = Some 85070591730234615865843651857942052864.
Proof. vm_compute. auto. Qed.

(** the executable specification used by the oracle (lowest terms, then the inverse) is the same function *)
Lemma spec_hash_of n d i : minv_euclid (d / Z.gcd n d) = Some i ->
  hash_of (n / Z.gcd n d) (d / Z.gcd n d) (spec_hash_fin n d).
Proof.
  intros MI. unfold spec_hash_fin. rewrite MI. pose proof M127_pos. exists i. split; [apply minv_sound; exact MI | ].
  rewrite Z.mul_mod_idemp_l by lia. reflexivity.
Qed.

Theorem hash_asis_is_spec a n d h i : 
  match a with TF B _ _ => 2 <= B | TQ _ d => 0 < d | _ => True end ->
  frac_of a = Some (n, d) -> hash_asis a = Some h -> minv_euclid (d / Z.gcd n d) = Some i ->
  h = spec_hash_fin n d.
Proof.
  intros W F H MI. destruct (hash_asis_of a n d h W F H) as [Pd Hh].
  pose proof (spec_hash_of n d i MI) as Hs.
  assert (G : 0 < Z.gcd n d).
  { pose proof (Z.gcd_nonneg n d). destruct (Z.eq_dec (Z.gcd n d) 0) as [E | ]; [apply Z.gcd_eq_0_r in E; lia | lia]. }
  destruct (Z.gcd_divide_l n d) as [qn En]. destruct (Z.gcd_divide_r n d) as [qd Ed].
  assert (Qn : n / Z.gcd n d = qn) by (rewrite En at 1; apply Z.div_mul; lia).
  assert (Qd : d / Z.gcd n d = qd) by (rewrite Ed at 1; apply Z.div_mul; lia).
  apply (hash_of_consistent n d h (n / Z.gcd n d) (d / Z.gcd n d) (spec_hash_fin n d)); auto.
  - rewrite Qd. nia.
  - rewrite Qn, Qd. rewrite En at 1. rewrite Ed at 2. ring.
Qed.
