(** C16 - theorems about the documented panic table and the as-is panic mechanisms. *)
From Dashu Require Import Base.Prelude Cross.PanicSpec Cross.PanicAsis.
Open Scope Z_scope.

(** * the table, reason by reason *)
Lemma in_when b x r : In r (when b x) <-> b = true /\ r = Doc x.
Proof. unfold when. destruct b; cbn; split; intros; intuition (try discriminate; eauto). Qed.

Lemma in_whenp b x r : In r (whenp b x) <-> b = true /\ r = x.
Proof. unfold whenp. destruct b; cbn; split; intros; intuition (try discriminate; eauto). Qed.

Theorem doc_div b r : In r (documented (KDiv b)) <-> r = Doc DivideBy0 /\ b = 0.
Proof. cbn [documented]. rewrite in_when, Z.eqb_eq. tauto. Qed.

Theorem doc_usub a b r : In r (documented (KUSub a b)) <-> r = Doc NegativeUBig /\ a < b.
Proof. cbn [documented]. rewrite in_when, Z.ltb_lt. tauto. Qed.

Theorem doc_gcd a b r : In r (documented (KGcd a b)) <-> r = Doc GcdZeroZero /\ a = 0 /\ b = 0.
Proof. cbn [documented]. rewrite in_when, andb_true_iff, !Z.eqb_eq. tauto. Qed.

Theorem doc_root x n r : In r (documented (KRoot x n)) <->
  (r = Doc RootZeroth /\ n = 0) \/ (r = Doc RootNegative /\ x < 0 /\ Z.even n = true).
Proof. cbn [documented]. rewrite in_app_iff, !in_when, andb_true_iff, Z.eqb_eq, Z.ltb_lt. tauto. Qed.

Theorem doc_ilog x b r : In r (documented (KIlog x b)) <-> r = Doc LogOperand /\ (x = 0 \/ b < 2).
Proof. cbn [documented]. rewrite in_when, orb_true_iff, Z.eqb_eq, Z.ltb_lt. tauto. Qed.

Theorem doc_radix x r : In r (documented (KRadix x)) <-> r = Doc InvalidRadix /\ ~ (2 <= x <= 36).
Proof. cbn [documented]. rewrite in_when, orb_true_iff, !Z.ltb_lt. intuition lia. Qed.

Theorem doc_ring_same m b r : m <> 0 -> In r (documented (KRing m m true true b)) <->
  r = Doc NonInvertible /\ Z.gcd (b mod m) m <> 1.
Proof.
  intro Hm. cbn [documented]. rewrite !in_app_iff, !in_when.
  assert (E : (m =? 0) = false) by (apply Z.eqb_neq; exact Hm). rewrite E. cbn.
  rewrite negb_true_iff, Z.eqb_neq. intuition discriminate.
Qed.

(** no float operation of the table may panic when all operands are finite, the precision is
    limited, divisors are non-zero and arguments are positive *)
Theorem float_clean B o prec xs xe ys ye n :
  0 < prec -> 0 < xs -> 0 < ys -> 0 <= n -> documented (KFloat B o prec (Fin xs xe) (Fin ys ye) n) = [].
Proof.
  intros Hp Hx Hy Hn.
  assert (E1 : (prec =? 0) = false) by (apply Z.eqb_neq; lia).
  assert (E2 : (ys =? 0) = false) by (apply Z.eqb_neq; lia).
  assert (E3 : (xs <? 0) = false) by (apply Z.ltb_ge; lia).
  assert (E4 : (xs <=? 0) = false) by (apply Z.leb_gt; lia).
  assert (E5 : (n <? 0) = false) by (apply Z.ltb_ge; lia).
  assert (E6 : le_minus_one B xs xe = false) by (unfold le_minus_one; rewrite E3; reflexivity).
  destruct o; unfold documented, float_documented, finf, fzero, fneg, fone, fsig, fexp;
    rewrite ?E1, ?E2, ?E3, ?E4, ?E5, ?E6; reflexivity.
Qed.

(** * try_into().unwrap() of the primitive-operand forms *)
(** a signed primitive of k bits: the truncated remainder always fits, the only panic is the
    documented one (IBig % iN, div_rem, div_rem_assign) *)
Theorem prim_rem_signed k a b : 0 < k -> - 2 ^ (k - 1) <= b <= 2 ^ (k - 1) - 1 ->
  prim_rem_asis (- 2 ^ (k - 1)) (2 ^ (k - 1) - 1) a b = if b =? 0 then OPanic (Doc DivideBy0) else ORet.
Proof.
  intros Hk Hb. unfold prim_rem_asis, guard, conv_unwrap.
  destruct (Z.eqb_spec b 0) as [->|Hn]; [reflexivity|].
  pose proof (Z.rem_bound_abs a b Hn) as Hr.
  assert (H : (- 2 ^ (k - 1) <=? Z.rem a b) && (Z.rem a b <=? 2 ^ (k - 1) - 1) = true).
  { apply andb_true_iff; split; apply Z.leb_le; lia. }
  rewrite H. reflexivity.
Qed.

(** an unsigned primitive: the remainder fits iff the dividend is non-negative or the division is
    exact - the undocumented panic of finding prim_rem_negative is exactly the complement *)
Theorem prim_rem_unsigned hi a b : 0 < b <= hi ->
  (prim_rem_asis 0 hi a b = ORet <-> (0 <= a \/ Z.rem a b = 0)) /\
  (prim_rem_asis 0 hi a b = OPanic (Doc Undocumented) <-> (a < 0 /\ Z.rem a b <> 0)).
Proof.
  intros Hb. unfold prim_rem_asis, guard, conv_unwrap.
  assert (Hn : b <> 0) by lia.
  destruct (Z.eqb_spec b 0); [contradiction|].
  pose proof (Z.rem_bound_abs a b Hn) as Hr.
  pose proof (Z.rem_sign_mul a b Hn) as Hs.
  destruct ((0 <=? Z.rem a b) && (Z.rem a b <=? hi)) eqn:E.
  - apply andb_true_iff in E as [E1 E2]. apply Z.leb_le in E1, E2.
    split; split; intro H.
    + destruct (Z.eq_dec (Z.rem a b) 0); [right; assumption|left; nia].
    + reflexivity.
    + discriminate.
    + exfalso. nia.
  - assert (Hneg : Z.rem a b < 0).
    { apply andb_false_iff in E. destruct E as [E|E]; apply Z.leb_gt in E; lia. }
    assert (Ha : a < 0).
    { destruct (Z_lt_le_dec a 0) as [|Hge]; [assumption|exfalso].
      destruct (Z.eq_dec a 0) as [->|]; [rewrite Z.rem_0_l in Hneg by assumption; lia|nia]. }
    split; split; intro H.
    + discriminate.
    + exfalso. destruct H; lia.
    + split; lia.
    + reflexivity.
Qed.

(** unsigned primitive / positive IBig: the quotient always fits *)
Theorem prim_div_unsigned_pos hi a b : 0 <= a <= hi -> 0 < b -> prim_div_asis 0 hi a b = ORet.
Proof.
  intros Ha Hb. unfold prim_div_asis, guard, conv_unwrap.
  destruct (Z.eqb_spec b 0); [lia|].
  rewrite Z.quot_div_nonneg by lia.
  assert (0 <= a / b) by (apply Z.div_pos; lia).
  assert (a / b <= a) by (apply Z.div_le_upper_bound; nia).
  assert (H1 : (0 <=? a / b) && (a / b <=? hi) = true) by (apply andb_true_iff; split; apply Z.leb_le; lia).
  rewrite H1. reflexivity.
Qed.

(** * the as-is mechanisms stay inside the documented table outside the finding classes *)
Lemma preason_beq_refl r : preason_beq r r = true.
Proof. destruct r as [r| |]; cbn; [destruct r; reflexivity|reflexivity|reflexivity]. Qed.

Lemma mem_reason_in r l : In r l -> mem_reason r l = true.
Proof.
  unfold mem_reason. intro H. apply existsb_exists. exists r. split; [assumption|apply preason_beq_refl].
Qed.

Lemma accepts_panic_doc c r : In r (documented c) -> accepts c (OPanic r) = true.
Proof. intro H. cbn [accepts]. rewrite (mem_reason_in _ _ H). reflexivity. Qed.

Lemma accepts_panic_may c r : In r (may c) -> accepts c (OPanic r) = true.
Proof. intro H. cbn [accepts]. rewrite (mem_reason_in _ _ H). apply orb_true_r. Qed.

Lemma accepts_ret c : documented c = [] -> accepts c ORet = true.
Proof. intro H. cbn [accepts]. rewrite H. reflexivity. Qed.

Ltac bools :=
  repeat match goal with
         | |- context [if ?b then _ else _] => let E := fresh "E" in destruct b eqn:E
         | H : context [if ?b then _ else _] |- _ => let E := fresh "E" in destruct b eqn:E
         end.

Ltac close :=
  cbn in *; subst;
  first [ discriminate
        | contradiction
        | reflexivity
        | match goal with H : _ \/ _ |- _ => destruct H; close end ].

Lemma le_minus_one_neg B s e : le_minus_one B s e = true -> s < 0.
Proof. unfold le_minus_one. intro H. apply andb_true_iff in H as [H _]. apply Z.ltb_lt in H. exact H. Qed.

Ltac atoms :=
  repeat match goal with
         | |- context [le_minus_one ?a ?b ?c] =>
             let E := fresh "El" in destruct (le_minus_one a b c) eqn:E; [apply le_minus_one_neg in E|clear E]
         | H : context [le_minus_one ?a ?b ?c] |- _ =>
             let E := fresh "El" in destruct (le_minus_one a b c) eqn:E; [apply le_minus_one_neg in E|clear E]
         | |- context [?a =? ?b] => destruct (Z.eqb_spec a b)
         | H : context [?a =? ?b] |- _ => destruct (Z.eqb_spec a b)
         | |- context [?a <? ?b] => destruct (Z.ltb_spec a b)
         | H : context [?a <? ?b] |- _ => destruct (Z.ltb_spec a b)
         | |- context [?a <=? ?b] => destruct (Z.leb_spec a b)
         | H : context [?a <=? ?b] |- _ => destruct (Z.leb_spec a b)
         end.

(** since the repair of ln (60b59c4) no float guard sequence leaves the table: no finding class is excluded *)
Theorem float_asis_within_spec B o prec x y n out :
  In out (float_asis B o prec x y n) -> accepts (KFloat B o prec x y n) out = true.
Proof.
  intros Hin.
  destruct x as [xs xe|], y as [ys ye|], o;
    unfold float_asis, guard, finf, fzero, fneg, fone, fsig, fexp in *;
    unfold accepts, documented, may, float_documented, finf, fzero, fneg, fone, fsig, fexp, exp_band, big;
    atoms; cbn in *; try discriminate;
    repeat match goal with H : _ \/ _ |- _ => destruct H end; try contradiction; subst;
    first [reflexivity | exfalso; lia].
Qed.

(** the guard sequences are exact: each operation returns iff the table lists no violated
    precondition and otherwise panics with the first listed reason (powf and the total operations
    have shortcuts / profile-dependent outcomes and are covered by the inclusion above only) *)
Definition first_documented (c : call) : outcome :=
  match documented c with [] => ORet | r :: _ => OPanic r end.
Theorem float_guards_exact B o prec x y n :
  match o with FoPowf | FoTotal => False | _ => True end ->
  float_asis B o prec x y n = [first_documented (KFloat B o prec x y n)].
Proof.
  intros Ho.
  destruct x as [xs xe|], y as [ys ye|], o; try contradiction;
    unfold float_asis, first_documented, guard, documented, float_documented, when, finf, fzero, fneg, fone, fsig, fexp;
    atoms; cbn; try reflexivity; exfalso; lia.
Qed.

(** operator-form division: inside the table unless the dividend is longer than repr_div supports *)
Theorem opdiv_asis_within_spec B prec x y out :
  known (KFloatOpDiv B prec x y) = None -> In out (opdiv_asis B prec x y) ->
  accepts (KFloatOpDiv B prec x y) out = true.
Proof.
  intros Hk Hin. unfold known in Hk.
  destruct (opdiv_long B prec x y) eqn:El; [discriminate|].
  unfold opdiv_asis in Hin. rewrite El in Hin.
  destruct x as [xs xe|], y as [ys ye|];
    unfold guard, finf, fzero in *;
    unfold accepts, documented, may, float_documented, when, finf, fzero, fneg, fone, fsig, fexp, exp_band, big;
    atoms; cbn in *; try discriminate;
    repeat match goal with H : _ \/ _ |- _ => destruct H end; try contradiction; subst;
    first [reflexivity | exfalso; lia].
Qed.

Lemma ndig_fuel_nonneg f : forall B v, 0 <= ndig_fuel f B v.
Proof.
  induction f as [|f IH]; intros B v; cbn [ndig_fuel]; [lia|].
  destruct (v <=? 0); [lia|]. specialize (IH B (v / B)). lia.
Qed.
Lemma ndig_nonneg B s : 0 <= ndig B s.
Proof. unfold ndig. destruct (B <? 2); [lia|apply ndig_fuel_nonneg]. Qed.

(** operands that respect the FBig invariant (at most prec digits) are never in the class *)
Theorem opdiv_valid_operands_clean B prec xs xe y : ndig B xs <= prec -> opdiv_long B prec (Fin xs xe) y = false.
Proof.
  intro H. unfold opdiv_long. destruct y as [ys ye|]; [|reflexivity].
  pose proof (ndig_nonneg B ys). destruct (prec =? 0); [reflexivity|]. cbn [negb andb].
  apply Z.ltb_ge. lia.
Qed.

Theorem prim_asis_within_spec c out :
  match c with KPrimRem _ _ _ _ | KPrimDiv _ _ _ _ | KPrimStd _ _ _ => True | _ => False end ->
  known c = None -> In out (asis c) -> accepts c out = true.
Proof.
  intros Hc Hk Hin. destruct c; try contradiction;
    unfold asis, known, prim_rem_asis, prim_div_asis, prim_std_asis, guard, conv_unwrap in *;
    unfold accepts, documented, may, when, whenp;
    atoms; cbn in *; try discriminate;
    repeat match goal with H : _ \/ _ |- _ => destruct H end; try contradiction; subst;
    first [reflexivity | exfalso; lia].
Qed.

(** * the open finding classes are real: the as-is outcome is refused by the table *)
Lemma prim_rem_negative_refuted :
  asis (KPrimRem 0 255 (-7) 3) = [OPanic (Doc Undocumented)] /\ accepts (KPrimRem 0 255 (-7) 3) (OPanic (Doc Undocumented)) = false
  /\ known (KPrimRem 0 255 (-7) 3) = Some TPrimRemNegative.
Proof. repeat split. Qed.

Lemma prim_div_unfit_refuted :
  asis (KPrimDiv 0 65535 1 (-1)) = [OPanic (Doc Undocumented)] /\ accepts (KPrimDiv 0 65535 1 (-1)) (OPanic (Doc Undocumented)) = false
  /\ asis (KPrimDiv (-128) 127 (-128) (-1)) = [OPanic (Doc Undocumented)]
  /\ known (KPrimDiv (-128) 127 (-128) (-1)) = Some TPrimDivUnfit.
Proof. repeat split. Qed.

(** finding ln_nonpositive (fixed by 60b59c4): every outcome of the old guard sequence was refused *)
Lemma ln_nonpositive_refuted :
  forall o, In o (ln_asis_before_60b59c4 2 false 17 (Fin (-1) (-7))) -> accepts (KFloat 2 FoLn 17 (Fin (-1) (-7)) (Fin 1 0) 0) o = false.
Proof. intros o H. cbn in H. repeat destruct H as [<-|H]; try reflexivity. contradiction. Qed.

(** ... and today's sequence panics as documented on the same input *)
Lemma ln_nonpositive_fixed :
  asis (KFloat 2 FoLn 17 (Fin (-1) (-7)) (Fin 1 0) 0) = [OPanic (Doc LogOperand)] /\
  asis (KFloat 10 FoLn 5 (Fin 0 0) (Fin 1 0) 0) = [OPanic (Doc LogOperand)] /\
  asis (KFloat 10 FoLn1p 5 (Fin (-1) 0) (Fin 1 0) 0) = [OPanic (Doc LogOperand)] /\
  asis (KFloat 10 FoLn1p 5 (Fin (-5) (-1)) (Fin 1 0) 0) = [ORet].
Proof. repeat split. Qed.

(** finding float_operand_exceeds_precision (C15 F03) seen from the panic table: 31 / 3 with the
    dividend of unlimited precision runs repr_div at precision 2 *)
Lemma float_operand_exceeds_precision_refuted :
  known (KFloatOpDiv 2 2 (Fin 31 0) (Fin 3 0)) = Some TFloatOperandExceedsPrecision /\
  asis (KFloatOpDiv 2 2 (Fin 31 0) (Fin 3 0)) = [OPanic (Doc Undocumented); ORet] /\
  accepts (KFloatOpDiv 2 2 (Fin 31 0) (Fin 3 0)) (OPanic (Doc Undocumented)) = false /\
  opdiv_long 10 1 (Fin 1000 0) (Fin 3 0) = false.
Proof. repeat split. Qed.

Lemma with_base_precision_zero_refuted :
  auto_prec_zero 3 10 1 = true /\ with_base_asis 3 10 0 (Fin 1 1000) = OPanic (Doc UnlimitedPrecision)
  /\ accepts (KWithBase 3 10 1 (Fin 1 1000)) (OPanic (Doc UnlimitedPrecision)) = false.
Proof. repeat split. Qed.

(** * Farey stepping needs a number of iterations linear in the limit (finding farey_linear_steps):
    from the state (0/1, 1/m) towards 1/(L^2+1), every fuel f with m + f <= L runs out *)
Lemma farey_walk_linear L : 1 <= L -> forall f m, 1 <= m -> m + Z.of_nat f <= L ->
  farey_walk f (0, 1) (1, m) (1, L * L + 1) L = OutOfFuel.
Proof.
  intros HL f. induction f as [|f IH]; intros m Hm Hf; [reflexivity|].
  cbn [farey_walk fst snd].
  replace (0 + 1) with 1 by lia.
  assert (E1 : (L <? 1 + m) = false) by (apply Z.ltb_ge; lia).
  rewrite E1. cbn [snd]. rewrite E1.
  unfold flt. cbn [fst snd].
  assert (E2 : (1 * (1 + m) <? 1 * (L * L + 1)) = true) by (apply Z.ltb_lt; nia).
  rewrite E2. apply IH; lia.
Qed.

Theorem farey_integer_linear n L : 2 <= L -> farey_up_asis (Z.to_nat (L - 1)) n 1 L = OHang.
Proof.
  intro HL. unfold farey_up_asis.
  assert (E0 : (L =? 0) = false) by (apply Z.eqb_neq; lia). rewrite E0.
  assert (E1 : (1 <=? L) = true) by (apply Z.leb_le; lia). rewrite E1.
  rewrite Z.mod_1_r. unfold up_target, fred. cbn [fst snd].
  replace (0 * (L * L + 1) + 1) with 1 by lia. rewrite Z.mul_1_l, Z.gcd_1_l, !Z.div_1_r.
  rewrite (farey_walk_linear L ltac:(lia) (Z.to_nat (L - 1)) 1 ltac:(lia)); [reflexivity|].
  rewrite Z2Nat.id by lia. lia.
Qed.

(** non-vacuity *)
Example prim_rem_unsigned_ex : prim_rem_asis 0 255 (-6) 3 = ORet /\ prim_rem_asis 0 255 (-7) 3 = OPanic (Doc Undocumented).
Proof. split; reflexivity. Qed.
Example float_guards_exact_ex : float_asis 10 FoDiv 5 (Fin 6 0) (Fin 0 0) 0 = [OPanic (Doc DivideBy0)] /\ float_asis 10 FoSqrt 0 (Fin (-4) 0) (Fin 1 0) 0 = [OPanic (Doc UnlimitedPrecision)].
Proof. split; reflexivity. Qed.
Example opdiv_ex : known (KFloatOpDiv 2 2 (Fin 15 0) (Fin 3 0)) = None /\ In ORet (opdiv_asis 2 2 (Fin 15 0) (Fin 3 0)) /\ ndig 10 1000 = 1 /\ ndig 2 31 = 5.
Proof. repeat split. left. reflexivity. Qed.
Example farey_ex : farey_up_asis 9 3 1 10 = OHang /\ farey_up_asis 10 3 1 10 = ORet.
Proof. split; reflexivity. Qed.
