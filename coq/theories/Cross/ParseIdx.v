(** C16 (parsers never panic): index-level as-is models of the text parsers that slice a [&str] by byte offsets.

    - [parse_idx]: Repr::from_str_native (float/src/parse.rs) with every [&name[a..b]] of the source taken through
      [Utf8.str_range] (a panic value when an index is out of range or not a char boundary), the positions coming from
      [rfind] / [find] exactly as in the source; the characters [rfind] looks for are the REGENERATED table
      [DashuGen.ParseSites.gen_marker].  Everything else (sub-parsers, digit counts, the exponent arithmetic) is that of
      the C08 model Float/TextIoModel.v, which works on ready-made slices.
    - [ratio_radix_idx], [ratio_prefix_idx]: Repr::from_str_radix / from_str_with_radix_prefix (rational/src/parse.rs);
      IBig::from_str_radix / from_str_with_radix_prefix / _default are taken at their C07 specification (proved equal to the
      as-is integer parser for every word size: IoPow2.from_str_radix_asis_correct).
    strip_prefix / starts_with / matches / as_bytes().get are safe APIs (no index from the caller) and are modelled
    by pattern matching as in C07 / C08.  Definitions only; proofs: Cross/ParseIdxProofs.v. *)
From Dashu Require Import Base.Prelude Float.Model Int.IoSpec Float.TextIoSpec Float.TextIoModel Cross.Utf8.
From DashuGen Require Import ParseSites.
Open Scope Z_scope.

Definition str_from (s : list Z) (a : nat) : result (list Z) := str_range s a (length s).   (* &s[a..] *)
Definition str_to (s : list Z) (b : nat) : result (list Z) := str_range s 0 b.              (* &s[..b] *)

Definition is_dot (c : Z) : bool := c =? 46.
Definition is_slash (c : Z) : bool := c =? 47.

(** lines 92-159 of float/src/parse.rs *)
Definition parse_body_idx (B : Z) (src : list Z) (scale : Z) (pmarker has_prefix : bool) : result (Z * Z * Z) :=
  match lfind is_dot src with                                             (* src.find('.') *)
  | Some dot =>
    if len src =? 1 then Err E_NoDigits else
    rbind (if negb (Nat.eqb dot 0) then
             rbind (str_to src dot) (fun int_str =>                        (* let int_str = &src[..dot]; *)
             if (B =? 2) && has_prefix then
               rbind (str_from int_str 2) (fun t =>                        (* let int_str = &int_str[2..]; *)
               let digits := 4 * (len t - count_us t) in
               if len t =? 0 then Ok (0, digits, 16)
               else rbind (parse_unsigned 16 t) (fun v => Ok (v, digits, 16)))
             else if (B =? 2) && pmarker && negb has_prefix then Err E_UnsupportedRadix
             else
               let digits := len int_str - count_us int_str in
               rbind (str_to src dot) (fun s2 =>                           (* parse_unsigned(&src[..dot], B) *)
               rbind (parse_unsigned B s2) (fun v => Ok (v, digits, B))))
           else if pmarker then Err E_UnsupportedRadix else Ok (0, 0, B))
      (fun '(int, int_digits, base) =>
       rbind (str_from src (S dot)) (fun frac_str =>                       (* src = &src[dot + 1..]; *)
       rbind (if negb (len frac_str =? 0) then
                let d := len frac_str - count_us frac_str in
                let d := if (B =? 2) && (base =? 16) then 4 * d else d in
                rbind (parse_unsigned base frac_str) (fun v => Ok (v, d))
              else Ok (0, 0))
         (fun '(fract, fract_digits) =>
          let nd := int_digits + fract_digits in
          if nd =? 0 then Err E_NoDigits
          else if fract =? 0 then Ok (int, scale, nd)
          else Ok (int * B ^ fract_digits + fract, scale - fract_digits, nd))))
  | None =>
    let has_prefix2 := has_hex_prefix src in
    if (B =? 2) && has_prefix2 then
      rbind (str_from src 2) (fun t =>                                     (* src = &src[2..]; *)
      rbind (parse_unsigned 16 t) (fun v => Ok (v, scale, 4 * (len t - count_us t))))
    else if (B =? 2) && pmarker && negb has_prefix2 then Err E_UnsupportedRadix
    else rbind (parse_unsigned B src) (fun v => Ok (v, scale, len src - count_us src))
  end.

(** lines 36-90 and 161-173 *)
Definition parse_idx (B : Z) (s0 : list Z) : result (Z * Z * Z) :=
  let '(sg, src) := strip_float_sign s0 in                                 (* strip_prefix('-') / strip_prefix('+') *)
  let has_prefix := has_hex_prefix src in
  rbind (match rfind (gen_marker B has_prefix) src with                    (* src.rfind(&[..]) *)
         | Some pos =>
           rbind (str_from src (S pos)) (fun after =>                      (* src[pos + 1..].parse::<isize>() *)
           rbind (isize_from_str after) (fun v =>
           let mk := nth pos src 0 in                                      (* src.as_bytes().get(pos) *)
           let use_p := (B =? 2) && ((mk =? 112) || (mk =? 80)) in
           rbind (str_to src pos) (fun before => Ok (v, use_p, before))))  (* src = &src[..pos]; *)
         | None => Ok (0, false, src)
         end)
    (fun '(scale, pmarker, src') =>
     rbind (parse_body_idx B src' scale pmarker has_prefix)
       (fun '(signif, exponent, nd) =>
        let '(s', k) := normalize B (sg * signif) 0 in
        if s' =? 0 then Ok (0, 0, nd)
        else if in_isize (exponent + k) then Ok (s', exponent + k, nd) else Err E_InvalidDigit)).

(** rational/src/parse.rs: Ok (numerator, denominator) before reduce() *)
Definition E_InconsistentRadix : Z := 4.

Definition ratio_radix_idx (radix : Z) (src : list Z) : result (Z * Z) :=
  match lfind is_slash src with                                            (* src.find('/') *)
  | Some slash =>
      rbind (str_to src slash) (fun ns =>                                  (* &src[..slash] *)
      rbind (from_str_radix_spec true radix ns) (fun num =>
      rbind (str_from src (S slash)) (fun ds =>                            (* &src[slash + 1..] *)
      rbind (from_str_radix_spec true radix ds) (fun den =>
      if den =? 0 then Err E_InvalidDigit else Ok (num * Z.sgn den, Z.abs den)))))
  | None => rbind (from_str_radix_spec true radix src) (fun n => Ok (n, 1))
  end.

(** IBig::from_str_with_radix_default: the validity test of the default radix comes first *)
Definition ibig_default (default : Z) (s : list Z) : result (Z * Z) :=
  if radix_valid default then from_str_prefix_spec true default s else Err E_UnsupportedRadix.

Definition ratio_prefix_idx (src : list Z) : result (Z * Z * Z) :=
  match lfind is_slash src with
  | Some slash =>
      rbind (str_to src slash) (fun ns =>
      rbind (ibig_default 10 ns) (fun '(num, num_radix) =>
      rbind (str_from src (S slash)) (fun ds =>
      rbind (ibig_default num_radix ds) (fun '(den, den_radix) =>
      if negb (num_radix =? den_radix) then Err E_InconsistentRadix
      else if den =? 0 then Err E_InvalidDigit
      else Ok (num * Z.sgn den, Z.abs den, num_radix)))))
  | None => rbind (ibig_default 10 src) (fun '(n, radix) => Ok (n, 1, radix))
  end.

(** the outcome class the correspondence run compares: 0 = Ok, the ParseError code, -1 = panic / no result *)
Definition outcome_code {A} (x : result A) : Z :=
  match x with Ok _ => 0 | Err e => e | _ => -1 end.

Definition float_parse_code (B : Z) (s : list Z) : Z := outcome_code (parse_idx B s).
Definition ratio_radix_code (radix : Z) (s : list Z) : Z := outcome_code (ratio_radix_idx radix s).
Definition ratio_prefix_code (s : list Z) : Z := outcome_code (ratio_prefix_idx s).
Definition int_radix_code (sg : bool) (radix : Z) (s : list Z) : Z := outcome_code (from_str_radix_spec sg radix s).
Definition int_default_code (sg : bool) (default : Z) (s : list Z) : Z :=
  outcome_code (if radix_valid default then from_str_prefix_spec sg default s else Err E_UnsupportedRadix).
