(** C14: as XEstF32.v, for integer parts of ANY size (bit length below 2^62; word size 32..64): with XLog2Large.v the
    multi-word estimator log2_bounds_large is covered too, so NumOrd between any two supported types, run with the
    library's own f32 estimates, returns the order of the exact values for all operands a machine can hold. *)
From Coq Require Import ZArith Reals Lia Lra Bool.
From Flocq Require Import Core IEEE754.BinarySingleNaN.
From Dashu Require Import Base.Prelude Cross.XVal Cross.XOrdModel Cross.XDispatch
  Cross.XOrdProofs Cross.XPrimProofs Cross.XRatioProofs Cross.XDispatchProofs Cross.XEstInstance
  Cross.XLog2Model Cross.XLog2Flocq Cross.XLog2Large Cross.XEstF32Model Cross.XEstF32.
Open Scope Z_scope.

Section InstAny.
Variable lg : f32 -> f32.
Hypothesis lg_ok : lg_contract lg.
Variable w : Z.
Hypothesis Hw : 32 <= w <= 64.

Definition okz (z : Z) : bool := Z.log2 (Z.abs z) <? 2 ^ 62.

Definition ibA (z : Z) : f32 * f32 := if okz z then ibig_log2_bounds lg w z else trivial_est.
Definition fbA (B s e : Z) : f32 * f32 :=
  if (B <? 2 ^ w) && okz s && (Z.abs e <=? 2 ^ 63) then f_log2_bounds lg w B s e else trivial_est.
Definition qbA (n d : Z) : f32 * f32 := if okz n && okz d then q_log2_bounds lg w n d else trivial_est.

Lemma ibA_ok z : lo32 (fst (ibA z)) (Z.abs z, 1) /\ hi32 (snd (ibA z)) (Z.abs z, 1).
Proof.
  unfold ibA, okz. destruct (Z.ltb_spec (Z.log2 (Z.abs z)) (2 ^ 62)) as [S | _]; [ | apply trivial_ok; cbn; lia].
  destruct (Z.eq_dec z 0) as [-> | Nz].
  - unfold ibig_log2_bounds, ubig_log2_bounds. cbn [Z.abs]. assert (0 < 2 ^ (2 * w)) by (apply Z.pow_pos_nonneg; lia).
    destruct (Z.ltb_spec 0 (2 ^ (2 * w))); [ | lia]. cbn [u_log2_bounds Z.eqb fst snd]. apply zero_est_ok; lia.
  - destruct (ibig_log2_sound lg lg_ok w Hw z Nz S) as ([F1 _] & [F2 _] & L & U).
    split.
    + right. cbn [fst snd]. repeat split; try assumption; try lia. unfold Rdiv. rewrite Rinv_1, Rmult_1_r. exact L.
    + repeat split; cbn [fst snd]; try lia. right; right. split; [exact F2 | right]. split; [lia | ].
      unfold Rdiv. rewrite Rinv_1, Rmult_1_r. exact U.
Qed.

Lemma qbA_ok n d : 0 < d -> lo32 (fst (qbA n d)) (Z.abs n, d) /\ hi32 (snd (qbA n d)) (Z.abs n, d).
Proof.
  intros Hd. unfold qbA, okz.
  destruct (Z.ltb_spec (Z.log2 (Z.abs n)) (2 ^ 62)) as [Sn | _]; [ | apply trivial_ok; cbn; lia].
  destruct (Z.ltb_spec (Z.log2 (Z.abs d)) (2 ^ 62)) as [Sd | _]; [ | apply trivial_ok; cbn; lia]. cbn [andb].
  rewrite Z.abs_eq in Sd by lia.
  destruct (Z.eq_dec n 0) as [-> | Nn].
  - unfold q_log2_bounds. cbn [Z.eqb Z.abs fst snd]. apply zero_est_ok; exact Hd.
  - destruct (q_log2_sound_any lg lg_ok w Hw n d Nn Hd Sn Sd) as (F1 & F2 & L & U). split.
    + right. cbn [fst snd]. repeat split; try assumption; lia.
    + repeat split; cbn [fst snd]; try lia. right; right. split; [exact F2 | right]. split; [lia | exact U].
Qed.

Lemma fbA_ok B s e : 2 <= B -> f_is_inf s e = false ->
  lo32 (fst (fbA B s e)) (fmag B s e) /\ hi32 (snd (fbA B s e)) (fmag B s e).
Proof.
  intros HB Hinf. unfold fbA, okz.
  assert (D : 0 < snd (fmag B s e)) by (unfold fmag; cbn [snd]; apply fden_pos; lia).
  assert (N : 0 <= fst (fmag B s e)) by (unfold fmag; cbn [fst]; lia).
  destruct (Z.ltb_spec B (2 ^ w)) as [SB | _]; [ | apply trivial_ok; assumption].
  destruct (Z.ltb_spec (Z.log2 (Z.abs s)) (2 ^ 62)) as [Ss | _]; [ | apply trivial_ok; assumption].
  destruct (Z.leb_spec (Z.abs e) (2 ^ 63)) as [Se | _]; [ | apply trivial_ok; assumption]. cbn [andb].
  destruct (Z.eq_dec s 0) as [-> | Ns].
  - unfold f_log2_bounds, f_log2_bounds_gen. cbn [Z.eqb fst snd].
    assert (E : fmag B 0 e = (0, fden B e)).
    { unfold fmag. f_equal. rewrite (proj2 (fnum_zero B 0 e ltac:(lia)) eq_refl). reflexivity. }
    rewrite E. apply zero_est_ok. apply fden_pos; lia.
  - assert (2 ^ w <= 2 ^ 128) by (apply Z.pow_le_mono_r; lia).
    destruct (f_log2_sound_any lg lg_ok w Hw B s e ltac:(lia) Ns Ss Se) as (F1 & F2 & L & U).
    destruct (fmag_log w ltac:(lia) B s e HB Ns) as (P1 & P2 & EQ). split.
    + right. repeat split; try assumption. rewrite EQ. exact L.
    + repeat split; try assumption. right; right. split; [exact F2 | right]. split; [exact P1 | ]. rewrite EQ. exact U.
Qed.

Theorem ord_f32_any_correct a b r : wf a -> wf b ->
  ord_asis f32 f_gt ibA fbA qbA a b = Some r -> r = spec_cmp (val a) (val b).
Proof. apply (ord_asis_correct f32 f_gt ibA fbA qbA lo32 hi32 f_gt_sound ibA_ok fbA_ok qbA_ok). Qed.

(** operands a machine can hold: bit lengths below 2^62, exponents within isize *)
Definition dom_any (t : tagged) : Prop :=
  match t with
  | TU z | TI z => Z.log2 (Z.abs z) < 2 ^ 62
  | TF B s e => B < 2 ^ w /\ Z.log2 (Z.abs s) < 2 ^ 62 /\ Z.abs e <= 2 ^ 63
  | TQ n d => Z.log2 (Z.abs n) < 2 ^ 62 /\ Z.log2 (Z.abs d) < 2 ^ 62
  | TP _ _ _ => True
  end.
Lemma ibA_dom z : Z.log2 (Z.abs z) < 2 ^ 62 -> ibA z = ibig_log2_bounds lg w z.
Proof. intros H. unfold ibA, okz. destruct (Z.ltb_spec (Z.log2 (Z.abs z)) (2 ^ 62)); [reflexivity | lia]. Qed.
Lemma qbA_dom n d : Z.log2 (Z.abs n) < 2 ^ 62 -> Z.log2 (Z.abs d) < 2 ^ 62 -> qbA n d = q_log2_bounds lg w n d.
Proof.
  intros H1 H2. unfold qbA, okz. destruct (Z.ltb_spec (Z.log2 (Z.abs n)) (2 ^ 62)); [ | lia].
  destruct (Z.ltb_spec (Z.log2 (Z.abs d)) (2 ^ 62)); [reflexivity | lia].
Qed.
Lemma fbA_dom B s e : B < 2 ^ w -> Z.log2 (Z.abs s) < 2 ^ 62 -> Z.abs e <= 2 ^ 63 -> fbA B s e = f_log2_bounds lg w B s e.
Proof.
  intros H1 H2 H3. unfold fbA, okz. destruct (Z.ltb_spec B (2 ^ w)); [ | lia].
  destruct (Z.ltb_spec (Z.log2 (Z.abs s)) (2 ^ 62)); [ | lia]. destruct (Z.leb_spec (Z.abs e) (2 ^ 63)); [reflexivity | lia].
Qed.

Lemma ord_raw_any_eq a b : dom_any a -> dom_any b -> ord_raw lg w a b = ord_asis f32 f_gt ibA fbA qbA a b.
Proof.
  unfold ord_raw. destruct a as [x | x | B1 s1 e1 | n1 d1 | mb1 eb1 w1], b as [y | y | B2 s2 e2 | n2 d2 | mb2 eb2 w2].
  all: cbn [dom_any].
  all: intros Da Db.
  all: repeat match goal with
    | H : _ /\ _ |- _ => lazymatch H with Hw => fail | _ => destruct H end
    end.
  all: unfold ord_asis.
  all: unfold repr_num_cmp, frepr_cmp_ubig, frepr_cmp_ibig, qrepr_cmp_ubig, qrepr_cmp_ibig, qrepr_cmp_fbig.
  all: rewrite ?ibA_dom by assumption.
  all: rewrite ?fbA_dom by assumption.
  all: rewrite ?qbA_dom by assumption.
  all: match goal with |- ?x = ?y => constr_eq x y; reflexivity end.
Qed.

(** NumOrd with the library's f32 estimates, operands of any size *)
Theorem ord_raw_any_correct a b r : wf a -> wf b -> dom_any a -> dom_any b ->
  ord_raw lg w a b = Some r -> r = spec_cmp (val a) (val b).
Proof. intros Wa Wb Da Db H. rewrite (ord_raw_any_eq a b Da Db) in H. exact (ord_f32_any_correct a b r Wa Wb H). Qed.
End InstAny.

(** non-vacuity of the domain: a 300-bit integer against a decimal float with an exponent beyond 2^24 *)
Example dom_any_inhabited : dom_any 64 (TU (2 ^ 300 + 1)) /\ dom_any 64 (TF 10 7 (2 ^ 30)) /\ wf (TU (2 ^ 300 + 1)) /\ wf (TF 10 7 (2 ^ 30)).
Proof.
  assert (L1 : Z.log2 (Z.abs (2 ^ 300 + 1)) < 2 ^ 62) by (vm_compute; reflexivity).
  assert (L2 : Z.log2 (Z.abs 7) < 2 ^ 62) by (vm_compute; reflexivity).
  cbn [dom_any wf]. unfold fwf. repeat split; try assumption; try lia; vm_compute; intros; discriminate.
Qed.
