(** C16 (termination): the three series loops of float/src/log.rs and float/src/exp.rs WITH rounding, and the fuel as a
    function of the precision.

    Cross/SeriesLoops.v treats every operation as exact.  Here every multiplication and division is followed by an
    arbitrary rounding [rm], [rd] that enlarges the magnitude by at most the factor (1 + u) (all six rounding modes of
    dashu at precision p satisfy this with u = B^(1-p)); the rounding [ra] of the additions is arbitrary (the sum only
    feeds the threshold).  The loops are transcribed statement by statement:

      iacoth (log.rs:172-189)         pow *= &inv2; increase = &pow / k; if increase < sum.sub_ulp() { return sum }
      ln_internal (log.rs:311-326)    pow *= &z2;   increase = &pow / k; if increase.abs_cmp(&sum.sub_ulp()).is_le() { break }
      exp_internal (exp.rs:316-336)   factorial *= k; pow *= &r; increase = &pow / &factorial; if ..is_le() { break }

    Theorems: with q = |multiplier| (1 + u) < 1 the loops leave within N steps as soon as |pow0| (1+u) q^N < eps <= thr;
    for q <= 1/2, |pow0| (1 + u) <= 1 and a threshold bounded below by B^-m (m = working precision + 1 - exponent floor
    of the sum: sub_ulp = B^(exponent + digits_lb - precision - 1)) the fuel [fuel_prec B m = 1 + m * log2_up B] - LINEAR in
    the precision - suffices.  The argument reductions deliver the small multipliers: z = (x-1)/(x+1) for 1 <= x < 2 and
    z = x/(x+2) for |x| <= 1/2 have |z| <= 1/3; r = (x mod L) / B^n with 2 L <= B, n >= 1 has 0 <= r <= 1/2; the arguments
    of iacoth found in the source (regenerated list gen_iacoth_args) are all >= 4. *)
From Coq Require Import QArith Qabs Qround ZArith Lia Lqa List.
From Dashu Require Import Cross.SeriesLoops.
From DashuGen Require Import ParseSites.
Import ListNotations.
Open Scope Q_scope.

(** * small facts *)
Lemma qpow_S q n : qpow q (S n) = q * qpow q n. Proof. reflexivity. Qed.

Lemma qpow_half_lt_inv (D : Z) (N : nat) : (0 < D)%Z -> (D < 2 ^ Z.of_nat N)%Z -> qpow (1 # 2) N < / inject_Z D.
Proof.
  intros HD HN.
  pose proof (qpow_half_pow2 N) as HP.
  assert (H0 : 0 < inject_Z D) by (change 0 with (inject_Z 0); rewrite <- Zlt_Qlt; exact HD).
  assert (H1 : inject_Z D < inject_Z (2 ^ Z.of_nat N)) by (rewrite <- Zlt_Qlt; exact HN).
  set (T := inject_Z (2 ^ Z.of_nat N)) in *. set (P := qpow (1 # 2) N) in *.
  assert (HP0 : 0 <= P) by (apply qpow_nonneg; lra).
  apply Qlt_shift_inv_l; [exact H0|].
  destruct (Qlt_le_dec 0 P) as [Hp|Hp]; [nra|].
  assert (P == 0) by lra. rewrite H in HP. lra.
Qed.

(** fuel as a function of the precision: 1 + m * ceil(log2 B) *)
Definition fuel_prec (B m : Z) : nat := S (Z.to_nat (m * Z.log2_up B)).

Lemma fuel_prec_spec B m : (2 <= B)%Z -> (0 <= m)%Z -> qpow (1 # 2) (fuel_prec B m) < / inject_Z (B ^ m).
Proof.
  intros HB Hm. apply qpow_half_lt_inv; [apply Z.pow_pos_nonneg; lia|].
  unfold fuel_prec. rewrite Nat2Z.inj_succ, Z2Nat.id by (pose proof (Z.log2_up_nonneg B); nia).
  assert (HL : (B <= 2 ^ Z.log2_up B)%Z) by apply log2_up_pow_ge.
  assert (H1 : (B ^ m <= (2 ^ Z.log2_up B) ^ m)%Z) by (apply Z.pow_le_mono_l; lia).
  rewrite <- Z.pow_mul_r in H1 by (try apply Z.log2_up_nonneg; lia).
  rewrite (Z.mul_comm (Z.log2_up B) m) in H1.
  rewrite Z.pow_succ_r by (pose proof (Z.log2_up_nonneg B); nia).
  assert (0 < 2 ^ (m * Z.log2_up B))%Z by (apply Z.pow_pos_nonneg; pose proof (Z.log2_up_nonneg B); nia).
  lia.
Qed.

Section Rounded.

Variable eps : Q.
Variable thr : Q -> Q.
Variable u : Q.
Variables rm rd ra : Q -> Q.
Hypothesis thr_lb : forall s, eps <= thr s.
Hypothesis u_nonneg : 0 <= u.
Hypothesis rm_bound : forall x, Qabs (rm x) <= Qabs x * (1 + u).
Hypothesis rd_bound : forall x, Qabs (rd x) <= Qabs x * (1 + u).

(** one step of any of the loops: the next power and the next term *)
Lemma step_bounds pow m (d : Z) : (1 <= d)%Z ->
  Qabs (rm (pow * m)) <= Qabs pow * (Qabs m * (1 + u)) /\
  Qabs (rd (rm (pow * m) / inject_Z d)) <= Qabs pow * (Qabs m * (1 + u)) * (1 + u).
Proof.
  intros Hd.
  pose proof (rm_bound (pow * m)) as H1. rewrite Qabs_Qmult in H1.
  pose proof (rd_bound (rm (pow * m) / inject_Z d)) as H2.
  pose proof (Qabs_div_le (rm (pow * m)) (inject_Z d) (inject_Z_ge_1 d Hd)) as H3.
  pose proof (Qabs_nonneg pow). pose proof (Qabs_nonneg m). pose proof (Qabs_nonneg (rm (pow * m))).
  split; [lra|]. nra.
Qed.

(** the arithmetic of the induction: with q = |m| (1 + u) *)
Lemma decay_last a q : 0 <= a -> 0 <= q -> a * qpow q 1 * (1 + u) < eps -> a * q * (1 + u) < eps.
Proof. intros Ha Hq H. cbn [qpow] in H. lra. Qed.

Lemma decay_step a a' q M : 0 <= a' -> a' <= a * q -> 0 <= q ->
  a * qpow q (S (S M)) * (1 + u) < eps -> a' * qpow q (S M) * (1 + u) < eps.
Proof.
  intros Ha' Hle Hq H. rewrite (qpow_S q (S M)) in H.
  pose proof (qpow_nonneg q (S M) Hq) as HP. set (P := qpow q (S M)) in *.
  assert (a' * P <= a * q * P) by nra. nra.
Qed.

(** ** iacoth *)
Fixpoint iacoth_loop_r (fuel : nat) (inv2 sum pow : Q) (k : Z) : option Q :=
  match fuel with
  | O => None
  | S f =>
      let pow' := rm (pow * inv2) in
      let increase := rd (pow' / inject_Z k) in
      if Qltb increase (thr sum) then Some sum
      else iacoth_loop_r f inv2 (ra (sum + increase)) pow' (k + 2)
  end.

Definition iacoth_r (fuel : nat) (n : Z) : option Q :=
  let inv := rd (1 / inject_Z n) in            (* FBig::ONE / n *)
  let inv2 := rm (inv * inv) in                (* inv.sqr() *)
  iacoth_loop_r fuel inv2 inv inv 3.

Lemma iacoth_loop_r_terminates M : forall fuel inv2 sum pow k, (1 <= k)%Z ->
  Qabs pow * qpow (Qabs inv2 * (1 + u)) (S M) * (1 + u) < eps -> (S M <= fuel)%nat ->
  iacoth_loop_r fuel inv2 sum pow k <> None.
Proof.
  induction M; intros fuel inv2 sum pow k Hk Hb Hf;
    (destruct fuel as [|f]; [lia|]); cbn [iacoth_loop_r]; cbv zeta;
    destruct (step_bounds pow inv2 k Hk) as [S1 S2];
    pose proof (Qabs_nonneg pow) as Hp; pose proof (Qabs_nonneg inv2) as Hi;
    assert (Hq : 0 <= Qabs inv2 * (1 + u)) by nra;
    destruct (Qltb (rd (rm (pow * inv2) / inject_Z k)) (thr sum)) eqn:E; try discriminate.
  - exfalso. apply Qltb_false in E.
    pose proof (decay_last _ _ Hp Hq Hb). pose proof (thr_lb sum).
    pose proof (Qle_Qabs (rd (rm (pow * inv2) / inject_Z k))). lra.
  - apply IHM; try lia.
    apply (decay_step (Qabs pow)); try assumption; apply Qabs_nonneg.
Qed.

(** ** the series of ln_internal *)
Fixpoint ln_series_loop_r (fuel : nat) (z2 sum pow : Q) (k : Z) : option Q :=
  match fuel with
  | O => None
  | S f =>
      let pow' := rm (pow * z2) in
      let increase := rd (pow' / inject_Z k) in
      if Qle_bool (Qabs increase) (thr sum) then Some sum
      else ln_series_loop_r f z2 (ra (sum + increase)) pow' (k + 2)
  end.

Definition ln_series_r (fuel : nat) (z : Q) : option Q :=
  let z2 := rm (z * z) in                       (* z.sqr() *)
  ln_series_loop_r fuel z2 z z 3.

Lemma ln_series_loop_r_terminates M : forall fuel z2 sum pow k, (1 <= k)%Z ->
  Qabs pow * qpow (Qabs z2 * (1 + u)) (S M) * (1 + u) < eps -> (S M <= fuel)%nat ->
  ln_series_loop_r fuel z2 sum pow k <> None.
Proof.
  induction M; intros fuel z2 sum pow k Hk Hb Hf;
    (destruct fuel as [|f]; [lia|]); cbn [ln_series_loop_r]; cbv zeta;
    destruct (step_bounds pow z2 k Hk) as [S1 S2];
    pose proof (Qabs_nonneg pow) as Hp; pose proof (Qabs_nonneg z2) as Hi;
    assert (Hq : 0 <= Qabs z2 * (1 + u)) by nra;
    destruct (Qle_bool (Qabs (rd (rm (pow * z2) / inject_Z k))) (thr sum)) eqn:E; try discriminate.
  - exfalso. apply Qle_bool_false in E.
    pose proof (decay_last _ _ Hp Hq Hb). pose proof (thr_lb sum). lra.
  - apply IHM; try lia.
    apply (decay_step (Qabs pow)); try assumption; apply Qabs_nonneg.
Qed.

(** ** the Maclaurin series of exp_internal *)
Fixpoint exp_series_loop_r (fuel : nat) (r sum pow : Q) (factorial k : Z) : option Q :=
  match fuel with
  | O => None
  | S f =>
      let factorial' := (factorial * k)%Z in
      let pow' := rm (pow * r) in
      let increase := rd (pow' / inject_Z factorial') in
      if Qle_bool (Qabs increase) (thr sum) then Some sum
      else exp_series_loop_r f r (ra (sum + increase)) pow' factorial' (k + 1)
  end.

Definition exp_series_r (fuel : nat) (no_scaling : bool) (r : Q) : option Q :=
  exp_series_loop_r fuel r (if no_scaling then r else ra (1 + r)) r 1 2.

Lemma exp_series_loop_r_terminates M : forall fuel r sum pow factorial k, (1 <= factorial)%Z -> (1 <= k)%Z ->
  Qabs pow * qpow (Qabs r * (1 + u)) (S M) * (1 + u) < eps -> (S M <= fuel)%nat ->
  exp_series_loop_r fuel r sum pow factorial k <> None.
Proof.
  induction M; intros fuel r sum pow factorial k Hfa Hk Hb Hf;
    (destruct fuel as [|f]; [lia|]); cbn [exp_series_loop_r]; cbv zeta;
    assert (Hfk : (1 <= factorial * k)%Z) by nia;
    destruct (step_bounds pow r (factorial * k) Hfk) as [S1 S2];
    pose proof (Qabs_nonneg pow) as Hp; pose proof (Qabs_nonneg r) as Hi;
    assert (Hq : 0 <= Qabs r * (1 + u)) by nra;
    destruct (Qle_bool (Qabs (rd (rm (pow * r) / inject_Z (factorial * k)))) (thr sum)) eqn:E; try discriminate.
  - exfalso. apply Qle_bool_false in E.
    pose proof (decay_last _ _ Hp Hq Hb). pose proof (thr_lb sum). lra.
  - apply IHM; try lia.
    apply (decay_step (Qabs pow)); try assumption; apply Qabs_nonneg.
Qed.

End Rounded.

(** * fuel linear in the precision *)
Section Precision.

Variables B m : Z.
Hypothesis B_ge_2 : (2 <= B)%Z.
Hypothesis m_nonneg : (0 <= m)%Z.
Variable thr : Q -> Q.
Variable u : Q.
Variables rm rd ra : Q -> Q.
Hypothesis thr_lb : forall s, / inject_Z (B ^ m) <= thr s.        (* sub_ulp >= B^-m *)
Hypothesis u_nonneg : 0 <= u.
Hypothesis rm_bound : forall x, Qabs (rm x) <= Qabs x * (1 + u).
Hypothesis rd_bound : forall x, Qabs (rd x) <= Qabs x * (1 + u).

Lemma prec_bound a q : 0 <= a -> a * (1 + u) <= 1 -> 0 <= q -> q <= 1 # 2 ->
  a * qpow q (fuel_prec B m) * (1 + u) < / inject_Z (B ^ m).
Proof.
  intros Ha Ha1 Hq0 Hq.
  pose proof (fuel_prec_spec B m B_ge_2 m_nonneg) as HS.
  pose proof (qpow_le_mono q (1 # 2) (fuel_prec B m) Hq0 Hq) as HM.
  pose proof (qpow_nonneg q (fuel_prec B m) Hq0) as HP.
  set (P := qpow q (fuel_prec B m)) in *. set (H := qpow (1 # 2) (fuel_prec B m)) in *.
  assert (a * P * (1 + u) <= P) by nra. lra.
Qed.

Theorem iacoth_r_fuel_prec : forall (n : Z) (fuel : nat),
  Qabs (rd (1 / inject_Z n)) * (1 + u) <= 1 ->
  Qabs (rm (rd (1 / inject_Z n) * rd (1 / inject_Z n))) * (1 + u) <= 1 # 2 ->
  (fuel_prec B m <= fuel)%nat -> iacoth_r thr rm rd ra fuel n <> None.
Proof.
  intros n fuel H1 H2 Hf. unfold iacoth_r. cbv zeta. unfold fuel_prec in Hf.
  apply (iacoth_loop_r_terminates (/ inject_Z (B ^ m)) thr u rm rd ra thr_lb u_nonneg rm_bound rd_bound (Z.to_nat (m * Z.log2_up B)));
    try lia.
  apply prec_bound; try assumption; try apply Qabs_nonneg.
  pose proof (Qabs_nonneg (rm (rd (1 / inject_Z n) * rd (1 / inject_Z n)))). nra.
Qed.

Theorem ln_series_r_fuel_prec : forall (z : Q) (fuel : nat),
  Qabs z * (1 + u) <= 1 -> Qabs (rm (z * z)) * (1 + u) <= 1 # 2 ->
  (fuel_prec B m <= fuel)%nat -> ln_series_r thr rm rd ra fuel z <> None.
Proof.
  intros z fuel H1 H2 Hf. unfold ln_series_r. cbv zeta. unfold fuel_prec in Hf.
  apply (ln_series_loop_r_terminates (/ inject_Z (B ^ m)) thr u rm rd ra thr_lb u_nonneg rm_bound rd_bound (Z.to_nat (m * Z.log2_up B)));
    try lia.
  apply prec_bound; try assumption; try apply Qabs_nonneg.
  pose proof (Qabs_nonneg (rm (z * z))). nra.
Qed.

Theorem exp_series_r_fuel_prec : forall (no_scaling : bool) (r : Q) (fuel : nat),
  Qabs r * (1 + u) <= 1 # 2 ->
  (fuel_prec B m <= fuel)%nat -> exp_series_r thr rm rd ra fuel no_scaling r <> None.
Proof.
  intros ns r fuel H1 Hf. unfold exp_series_r. unfold fuel_prec in Hf.
  apply (exp_series_loop_r_terminates (/ inject_Z (B ^ m)) thr u rm rd ra thr_lb u_nonneg rm_bound rd_bound (Z.to_nat (m * Z.log2_up B)));
    try lia.
  pose proof (Qabs_nonneg r).
  apply prec_bound; try assumption; try apply Qabs_nonneg; nra.
Qed.

End Precision.

(** * the argument reductions deliver small multipliers (exact rationals) *)

(** ln_internal, scaled branch: z = (x - 1) / (x + 1) with 1 <= x < 2 *)
Lemma ln_reduction_scaled x : 1 <= x -> x < 2 -> 0 <= (x - 1) / (x + 1) /\ (x - 1) / (x + 1) <= 1 # 3.
Proof.
  intros H1 H2. assert (Hp : 0 < x + 1) by lra. split.
  - apply Qle_shift_div_l; [exact Hp | lra].
  - apply Qle_shift_div_r; [exact Hp | lra].
Qed.

(** ln_internal, no_scaling branch: z = x / (x + 2) with |x| <= 1/2 (|x| < 1/B) *)
Lemma ln_reduction_unscaled x : Qabs x <= 1 # 2 -> Qabs (x / (x + 2)) <= 1 # 3.
Proof.
  intros H. apply Qabs_Qle_condition in H. destruct H as [Hl Hh].
  assert (Hp : 0 < x + 2) by lra.
  apply Qabs_Qle_condition. split.
  - apply Qle_shift_div_l; [exact Hp | lra].
  - apply Qle_shift_div_r; [exact Hp | lra].
Qed.

(** exp_internal: r = (x - floor(x / L) L) / B^n with the rounded logarithm L of the base, 0 < L, 2 L <= B, n >= 1 *)
Lemma exp_reduction (x L : Q) (B : Z) (n : nat) : 0 < L -> 2 * L <= inject_Z B -> (1 <= n)%nat -> (2 <= B)%Z ->
  let s := Qfloor (x / L) in
  let r := (x - inject_Z s * L) / inject_Z (B ^ Z.of_nat n) in
  0 <= r /\ r <= 1 # 2.
Proof.
  intros HL HB Hn HB2 s r.
  assert (Hs1 : inject_Z s <= x / L) by apply Qfloor_le.
  assert (Hs2 : x / L < inject_Z s + 1).
  { pose proof (Qlt_floor (x / L)) as H. rewrite inject_Z_plus in H. exact H. }
  assert (Hx : x == x / L * L) by (field; lra).
  assert (R0 : 0 <= x - inject_Z s * L) by nra.
  assert (R1 : x - inject_Z s * L < L) by nra.
  assert (HP : inject_Z B <= inject_Z (B ^ Z.of_nat n)).
  { rewrite <- Zle_Qle. destruct n as [|k]; [lia|]. rewrite Nat2Z.inj_succ, Z.pow_succ_r by lia.
    assert (1 <= B ^ Z.of_nat k)%Z by (apply Z.lt_pred_le; apply Z.pow_pos_nonneg; lia). nia. }
  assert (HB0 : 2 <= inject_Z B) by (change 2 with (inject_Z 2); rewrite <- Zle_Qle; exact HB2).
  assert (Hpos : 0 < inject_Z (B ^ Z.of_nat n)) by lra.
  unfold r. split.
  - apply Qle_shift_div_l; [exact Hpos | lra].
  - apply Qle_shift_div_r; [exact Hpos | nra].
Qed.

(** the arguments of iacoth in the source *)
Lemma gen_iacoth_args_ge_4 : Forall (fun n => (4 <= n)%Z) gen_iacoth_args.
Proof. repeat constructor; discriminate. Qed.

(** for n >= 4 and u <= 1/2 (precision >= 2 in any base) the start values of iacoth satisfy the premises of
    [iacoth_r_fuel_prec] *)
Lemma iacoth_start_small (u : Q) (rm rd : Q -> Q) (n : Z) :
  0 <= u -> u <= 1 # 2 ->
  (forall x, Qabs (rm x) <= Qabs x * (1 + u)) -> (forall x, Qabs (rd x) <= Qabs x * (1 + u)) -> (4 <= n)%Z ->
  Qabs (rd (1 / inject_Z n)) * (1 + u) <= 1 /\
  Qabs (rm (rd (1 / inject_Z n) * rd (1 / inject_Z n))) * (1 + u) <= 1 # 2.
Proof.
  intros Hu0 Hu Hrm Hrd Hn.
  assert (H4 : 4 <= inject_Z n) by (change 4 with (inject_Z 4); rewrite <- Zle_Qle; exact Hn).
  assert (E : 1 / inject_Z n == / inject_Z n) by (unfold Qdiv; ring).
  assert (I0 : 0 < / inject_Z n) by (apply Qinv_lt_0_compat; lra).
  assert (I1 : / inject_Z n <= 1 # 4) by (apply Qle_shift_inv_r; lra).
  set (t := 1 / inject_Z n) in *.
  assert (T0 : 0 < t) by lra. assert (T1 : t <= 1 # 4) by lra.
  pose proof (Hrd t) as H1. rewrite (Qabs_pos t) in H1 by lra.
  set (a := Qabs (rd t)) in *.
  assert (Ha0 : 0 <= a) by apply Qabs_nonneg.
  assert (Ha : a <= 3 # 8) by nra.
  pose proof (Hrm (rd t * rd t)) as H2. rewrite Qabs_Qmult in H2. fold a in H2.
  set (b := Qabs (rm (rd t * rd t))) in *.
  assert (Hb0 : 0 <= b) by apply Qabs_nonneg.
  assert (a * a <= 9 # 64) by nra.
  split; nra.
Qed.

(** * non-vacuity: a rounding that really rounds (to multiples of 1/4096, towards zero) *)
Definition rnd12 (x : Q) : Q := inject_Z (Qfloor (Qabs x * 4096)) / 4096 * (if Qle_bool 0 x then 1 else -1).
Definition thr12 : Q -> Q := fun _ => 1 # 1024.

Example iacoth_r_run : iacoth_r thr12 rnd12 rnd12 rnd12 3 6 <> None /\ iacoth_r thr12 rnd12 rnd12 rnd12 1 6 = None.
Proof. split; vm_compute; [discriminate | reflexivity]. Qed.
Example exp_series_r_run : exp_series_r thr12 rnd12 rnd12 rnd12 5 false (1 # 2) <> None /\ exp_series_r thr12 rnd12 rnd12 rnd12 2 false (1 # 2) = None.
Proof. split; vm_compute; [discriminate | reflexivity]. Qed.
Example ln_series_r_run : ln_series_r thr12 rnd12 rnd12 rnd12 4 (-1 # 3) <> None /\ ln_series_r thr12 rnd12 rnd12 rnd12 1 (-1 # 3) = None.
Proof. split; vm_compute; [discriminate | reflexivity]. Qed.
Example fuel_prec_values : (fuel_prec 2 53, fuel_prec 10 20, fuel_prec 16 10) = (54%nat, 81%nat, 41%nat).
Proof. vm_compute. reflexivity. Qed.

Lemma rnd12_bound x : Qabs (rnd12 x) <= Qabs x * (1 + 0).
Proof.
  unfold rnd12.
  pose proof (Qabs_nonneg x) as Hx.
  assert (F1 : inject_Z (Qfloor (Qabs x * 4096)) <= Qabs x * 4096) by apply Qfloor_le.
  assert (F0 : 0 <= inject_Z (Qfloor (Qabs x * 4096))).
  { assert (H : 0 <= Qabs x * 4096) by nra.
    pose proof (Qfloor_resp_le 0 (Qabs x * 4096) H) as HF.
    change 0 with (inject_Z 0). rewrite <- Zle_Qle. exact HF. }
  rewrite Qabs_Qmult.
  assert (E : Qabs (if Qle_bool 0 x then 1 else -1) == 1) by (destruct (Qle_bool 0 x); reflexivity).
  rewrite E. rewrite Qabs_pos.
  - assert (inject_Z (Qfloor (Qabs x * 4096)) / 4096 <= Qabs x).
    { apply Qle_shift_div_r; lra. }
    lra.
  - apply Qle_shift_div_l; lra.
Qed.

(** the precision theorem instantiated: 12 fractional bits, threshold 2^-10: fuel 11 is enough for every reduced argument *)
Example exp_series_r_by_theorem : forall ns r fuel, Qabs r <= 1 # 2 -> (11 <= fuel)%nat ->
  exp_series_r thr12 rnd12 rnd12 rnd12 fuel ns r <> None.
Proof.
  intros ns r fuel Hr Hf.
  apply (exp_series_r_fuel_prec 2 10 ltac:(lia) ltac:(lia) thr12 0 rnd12 rnd12 rnd12); try exact rnd12_bound; try lra.
  - intros s. unfold thr12. vm_compute. discriminate.
  - exact Hf.
Qed.
