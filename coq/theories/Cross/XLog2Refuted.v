(** C14 finding F07 (repaired in 388fab5): the float estimator as it was - one outward step for three roundings
    ([f_log2_bounds_pinned]) - returns an upper bound BELOW the true logarithm for
    Repr<10> 18726616038703945008763 * 10^17310609, with the values libm returns on this machine for the three
    logarithms it needs (each within one step of the exact value).  The repaired code ([f_log2_bounds]) encloses. *)
From Coq Require Import ZArith Reals Lra Lia.
From Flocq Require Import Core IEEE754.BinarySingleNaN.
From Dashu Require Import Base.Prelude Cross.XLog2Model Cross.XLog2Flocq.
From Dashu Require Float.Log10Const.
Open Scope Z_scope.

(** f32::log2 at the three arguments used: the 24-bit prefix of the significand, the prefix + 1, and 10.0 *)
Definition lg_tab (x : f32) : f32 :=
  let b := f_to_bits x in
  if b =? 0x4b7dcb00 then f_of_bits 0x41bfe66b
  else if b =? 0x4b7dcb01 then f_of_bits 0x41bfe66b
  else if b =? 0x41200000 then f_of_bits 0x40549a78
  else f_of_bits 0.

Definition wit_s : Z := 18726616038703945008763.
Definition wit_e : Z := 17310609.

Lemma pinned_bits : f_to_bits (snd (f_log2_bounds_pinned lg_tab 64 10 wit_s wit_e)) = 0x4c5b5ce8.
Proof. vm_compute. reflexivity. Qed.
Lemma repaired_bits : f_to_bits (snd (f_log2_bounds lg_tab 64 10 wit_s wit_e)) = 0x4c5b5ceb.
Proof. vm_compute. reflexivity. Qed.
(** 0x4c5b5ce8 is the f32 57504672, 0x4c5b5ceb is 57504684 *)
Lemma pinned_value : B2R (f_of_bits 0x4c5b5ce8) = IZR 57504672.
Proof.
  change (f_of_bits 0x4c5b5ce8) with (f_dyadic 14376168 2).
  assert (E : F2R (Float radix2 14376168 2) = IZR 57504672) by (unfold F2R; cbn [Fnum Fexp]; simpl; lra).
  destruct (f_dyadic_R 14376168 2) as [V _].
  - apply F32_dyadic; lia.
  - rewrite E. rewrite Rabs_pos_eq by (apply IZR_le; lia). apply Rlt_trans with (bpow radix2 26); [ | apply bpow_lt; lia].
    change (bpow radix2 26) with (IZR 67108864). apply IZR_lt. lia.
  - rewrite V. exact E.
Qed.

Open Scope R_scope.
Lemma ln_18_tenth : / 2 <= ln (18 / 10).
Proof.
  rewrite <- (ln_exp (/ 2)). left. apply ln_increasing; [apply exp_pos | ].
  assert (H : exp (/ 2) * exp (/ 2) = exp 1) by (rewrite <- exp_plus; f_equal; lra).
  pose proof exp_le_3 as E3. pose proof (exp_pos (/ 2)) as P.
  destruct (Rlt_or_le (exp (/ 2)) (18 / 10)) as [ | C]; [assumption | exfalso].
  assert (18 / 10 * (18 / 10) <= exp (/ 2) * exp (/ 2)) by (apply Rmult_le_compat; lra). lra.
Qed.

(** the true logarithm is above 57504672 *)
Theorem witness_log2_above : IZR 57504672 < log2R (IZR wit_s) + IZR wit_e * log2R 10.
Proof.
  pose proof Float.Log10Const.ln2_le as L2. pose proof Float.Log10Const.ln10_ge as L10. pose proof ln2_pos as P2.
  assert (LS : / 2 + 22 * ln 10 <= ln (IZR wit_s)).
  { replace (/ 2 + 22 * ln 10) with (/ 2 + ln (10 ^ 22)) by (rewrite ln_pow by lra; simpl INR; lra).
    apply Rle_trans with (ln (18 / 10) + ln (10 ^ 22)); [pose proof ln_18_tenth; lra | ].
    rewrite <- ln_mult by (try apply pow_lt; lra).
    assert (LE : 18 / 10 * 10 ^ 22 <= IZR wit_s).
    { replace (18 / 10 * 10 ^ 22) with (IZR 18000000000000000000000) by (simpl; lra). apply IZR_le. unfold wit_s. lia. }
    destruct LE as [LT | EQ]; [left; apply ln_increasing; [apply Rmult_lt_0_compat; [lra | apply pow_lt; lra] | exact LT] | rewrite EQ; lra]. }
  unfold log2R. apply Rmult_lt_reg_r with (ln 2); [exact P2 | ].
  replace ((ln (IZR wit_s) / ln 2 + IZR wit_e * (ln 10 / ln 2)) * ln 2) with (ln (IZR wit_s) + IZR wit_e * ln 10) by (field; lra).
  unfold wit_e. 
  assert (IZR 57504672 * ln 2 <= IZR 57504672 * (693147181 / 1000000000)) by (apply Rmult_le_compat_l; [apply IZR_le; lia | exact L2]).
  assert (IZR 17310609 * (2302585092 / 1000000000) <= IZR 17310609 * ln 10) by (apply Rmult_le_compat_l; [apply IZR_le; lia | exact L10]).
  lra.
Qed.

(** the defect: upper bound of the old code < true value; the repaired code returns a larger bound *)
Theorem f_log2_pinned_refuted :
  B2R (f_of_bits (f_to_bits (snd (f_log2_bounds_pinned lg_tab 64 10 wit_s wit_e)))) < log2R (IZR wit_s) + IZR wit_e * log2R 10.
Proof. rewrite pinned_bits, pinned_value. exact witness_log2_above. Qed.
