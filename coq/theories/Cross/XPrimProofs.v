(** C14: proofs, part 2.  The bodies that filter with bit lengths: comparisons with f32/f64 after
    FloatEncoding::decode (integer, float and rational crate) and rational/src/cmp.rs repr_cmp. *)
From Dashu Require Import Base.Prelude Cross.XVal Cross.XOrdModel Cross.XOrdProofs.
Open Scope Z_scope.

(* ---------------------------------------------------------------- magnitudes against powers of two *)
(** 2^k <= n/d   and   n/d < 2^k   for an exponent k of either sign *)
Definition ge_pow2 (x : Z * Z) (k : Z) : Prop := snd x * 2 ^ Z.max k 0 <= fst x * 2 ^ Z.max (- k) 0.
Definition lt_pow2 (x : Z * Z) (k : Z) : Prop := fst x * 2 ^ Z.max (- k) 0 < snd x * 2 ^ Z.max k 0.

Lemma pow2_pos k : 0 <= k -> 0 < 2 ^ k.
Proof. intros; apply Z.pow_pos_nonneg; lia. Qed.

Lemma ge_pow2_intro n d k p q : 0 <= p -> 0 <= q -> k = p - q -> d * 2 ^ p <= n * 2 ^ q -> ge_pow2 (n, d) k.
Proof.
  intros Hp Hq -> H. unfold ge_pow2; cbn [fst snd].
  set (t := Z.min p q).
  replace (2 ^ p) with (2 ^ Z.max (p - q) 0 * 2 ^ t) in H by (rewrite <- Z.pow_add_r by lia; f_equal; lia).
  replace (2 ^ q) with (2 ^ Z.max (- (p - q)) 0 * 2 ^ t) in H by (rewrite <- Z.pow_add_r by lia; f_equal; lia).
  assert (0 < 2 ^ t) by (apply pow2_pos; lia).
  apply (Z.mul_le_mono_pos_r _ _ (2 ^ t)); [assumption | ]. rewrite <- !Z.mul_assoc. exact H.
Qed.
Lemma lt_pow2_intro n d k p q : 0 <= p -> 0 <= q -> k = p - q -> n * 2 ^ q < d * 2 ^ p -> lt_pow2 (n, d) k.
Proof.
  intros Hp Hq -> H. unfold lt_pow2; cbn [fst snd].
  set (t := Z.min p q).
  replace (2 ^ p) with (2 ^ Z.max (p - q) 0 * 2 ^ t) in H by (rewrite <- Z.pow_add_r by lia; f_equal; lia).
  replace (2 ^ q) with (2 ^ Z.max (- (p - q)) 0 * 2 ^ t) in H by (rewrite <- Z.pow_add_r by lia; f_equal; lia).
  assert (0 < 2 ^ t) by (apply pow2_pos; lia).
  apply (Z.mul_lt_mono_pos_r (2 ^ t)); [assumption | ]. rewrite <- !Z.mul_assoc. exact H.
Qed.

(** y < 2^k2 <= 2^k1 <= x *)
Lemma pow2_sep x y k1 k2 : 0 < snd x -> 0 <= fst y -> ge_pow2 x k1 -> lt_pow2 y k2 -> k2 <= k1 -> mlt y x.
Proof.
  destruct x as [nx dx], y as [ny dy]. unfold ge_pow2, lt_pow2, mlt; cbn [fst snd]. intros Hdx Hny G L Hk.
  set (p1 := 2 ^ Z.max k1 0) in *. set (q1 := 2 ^ Z.max (- k1) 0) in *.
  set (p2 := 2 ^ Z.max k2 0) in *. set (q2 := 2 ^ Z.max (- k2) 0) in *.
  assert (0 < p1) by (apply pow2_pos; lia). assert (0 < q1) by (apply pow2_pos; lia).
  assert (0 < p2) by (apply pow2_pos; lia). assert (0 < q2) by (apply pow2_pos; lia).
  assert (M : p2 * q1 <= p1 * q2).
  { unfold p1, p2, q1, q2. rewrite <- !Z.pow_add_r by lia. apply Z.pow_le_mono_r; lia. }
  assert (0 < nx * q1) by nia.
  assert (S1 : (ny * q2) * (dx * p1) <= (ny * q2) * (nx * q1)) by (apply Z.mul_le_mono_nonneg_l; nia).
  assert (S2 : (ny * q2) * (nx * q1) < (dy * p2) * (nx * q1)) by (apply Z.mul_lt_mono_pos_r; nia).
  assert (S3 : (ny * dx) * (p1 * q2) < (nx * dy) * (p2 * q1)) by nia.
  assert (S4 : (nx * dy) * (p2 * q1) <= (nx * dy) * (p1 * q2)).
  { apply Z.mul_le_mono_nonneg_l; [ | exact M].
    assert (0 < dy) by nia. nia. }
  assert (0 < p1 * q2) by nia. nia.
Qed.

(* ---------------------------------------------------------------- bit lengths *)
Lemma bit_len_bounds a : a <> 0 -> 2 ^ (bit_len a - 1) <= Z.abs a < 2 ^ bit_len a /\ 1 <= bit_len a.
Proof.
  intros H. unfold bit_len. destruct (Z.eqb_spec a 0); [contradiction | ].
  assert (P : 0 < Z.abs a) by lia. pose proof (Z.log2_spec _ P) as L. pose proof (Z.log2_nonneg (Z.abs a)).
  replace (Z.log2 (Z.abs a) + 1 - 1) with (Z.log2 (Z.abs a)) by lia.
  replace (Z.log2 (Z.abs a) + 1) with (Z.succ (Z.log2 (Z.abs a))) by lia. lia.
Qed.
Lemma bit_len_nonneg a : 0 <= bit_len a.
Proof. unfold bit_len. destruct (a =? 0); [lia | ]. pose proof (Z.log2_nonneg (Z.abs a)). lia. Qed.

(** a nonzero integer *)
Lemma int_pow2 x : x <> 0 -> ge_pow2 (Z.abs x, 1) (bit_len x - 1) /\ lt_pow2 (Z.abs x, 1) (bit_len x).
Proof.
  intros H. destruct (bit_len_bounds x H) as [[L U] P]. split.
  - apply ge_pow2_intro with (p := bit_len x - 1) (q := 0); lia.
  - apply lt_pow2_intro with (p := bit_len x) (q := 0); lia.
Qed.

(** a decoded primitive float man * 2^exp *)
Lemma dyadic_pow2 man exp : man <> 0 ->
  ge_pow2 (fmag 2 man exp) (bit_len man + exp - 1) /\ lt_pow2 (fmag 2 man exp) (bit_len man + exp).
Proof.
  intros H. destruct (bit_len_bounds man H) as [[L U] P]. unfold fmag. rewrite fnum_abs by lia.
  unfold fnum, fden. destruct (Z.leb_spec 0 exp).
  - assert (0 < 2 ^ exp) by (apply pow2_pos; lia). split.
    + apply ge_pow2_intro with (p := bit_len man - 1 + exp) (q := 0); try lia. rewrite Z.pow_add_r by lia. nia.
    + apply lt_pow2_intro with (p := bit_len man + exp) (q := 0); try lia. rewrite Z.pow_add_r by lia. nia.
  - assert (0 < 2 ^ (- exp)) by (apply pow2_pos; lia). split.
    + apply ge_pow2_intro with (p := bit_len man - 1) (q := - exp); try lia. nia.
    + apply lt_pow2_intro with (p := bit_len man) (q := - exp); try lia. nia.
Qed.

(** a nonzero rational n/d *)
Lemma ratio_pow2 n d : n <> 0 -> 0 < d ->
  ge_pow2 (Z.abs n, d) (bit_len n - bit_len d - 1) /\ lt_pow2 (Z.abs n, d) (bit_len n - bit_len d + 1).
Proof.
  intros H Hd. destruct (bit_len_bounds n H) as [[L U] P]. destruct (bit_len_bounds d) as [[L' U'] P']; [lia | ].
  rewrite Z.abs_eq in L', U' by lia.
  assert (0 < 2 ^ (bit_len n - 1)) by (apply pow2_pos; lia). assert (0 < 2 ^ (bit_len d - 1)) by (apply pow2_pos; lia).
  split.
  - apply ge_pow2_intro with (p := bit_len n - 1) (q := bit_len d); try lia. nia.
  - apply lt_pow2_intro with (p := bit_len n) (q := bit_len d - 1); try lia. nia.
Qed.

(** B^t between powers of two *)
Lemma pow_between B t : 2 <= B -> 0 <= t -> 2 ^ ((bit_len B - 1) * t) <= B ^ t <= 2 ^ (bit_len B * t).
Proof.
  intros HB Ht. destruct (bit_len_bounds B) as [[L U] P]; [lia | ]. rewrite Z.abs_eq in L, U by lia.
  assert (0 <= 2 ^ (bit_len B - 1)) by (apply Z.pow_nonneg; lia).
  rewrite !Z.pow_mul_r by lia. split; apply Z.pow_le_mono_l; lia.
Qed.

(** a nonzero float s * B^e: the bounds of impl_num_ord_with_float (step 3) *)
Lemma float_pow2 B s e : 2 <= B -> s <> 0 ->
  let self_log2 := bit_len s + bit_len B * e in
  let lb := if 0 <=? e then self_log2 - e else self_log2 in
  let ub := if 0 <=? e then self_log2 else self_log2 - e in
  ge_pow2 (fmag B s e) (lb - 1) /\ lt_pow2 (fmag B s e) ub.
Proof.
  intros HB H. cbn zeta. destruct (bit_len_bounds s H) as [[L U] P]. unfold fmag. rewrite fnum_abs by lia.
  assert (PB : 1 <= bit_len B) by (apply bit_len_bounds; lia).
  unfold fnum, fden. destruct (Z.leb_spec 0 e).
  - destruct (pow_between B e HB) as [Bl Bu]; [lia | ].
    assert (0 < 2 ^ ((bit_len B - 1) * e)) by (apply pow2_pos; nia).
    assert (0 < 2 ^ (bit_len s - 1)) by (apply pow2_pos; lia).
    split.
    + apply ge_pow2_intro with (p := bit_len s - 1 + (bit_len B - 1) * e) (q := 0); try nia.
      rewrite Z.pow_add_r by nia. nia.
    + apply lt_pow2_intro with (p := bit_len s + bit_len B * e) (q := 0); try nia.
      rewrite Z.pow_add_r by nia. assert (0 < B ^ e) by (apply Z.pow_pos_nonneg; lia). nia.
  - destruct (pow_between B (- e) HB) as [Bl Bu]; [lia | ].
    assert (0 < 2 ^ ((bit_len B - 1) * - e)) by (apply pow2_pos; nia).
    assert (0 < 2 ^ (bit_len s - 1)) by (apply pow2_pos; lia).
    assert (0 < B ^ (- e)) by (apply Z.pow_pos_nonneg; lia).
    split.
    + apply ge_pow2_intro with (p := bit_len s - 1) (q := bit_len B * - e); try nia.
    + apply lt_pow2_intro with (p := bit_len s) (q := (bit_len B - 1) * - e); try nia.
Qed.

(* ---------------------------------------------------------------- FloatEncoding::decode *)
Lemma land_ones_bound a n : 0 <= n -> 0 <= Z.land a (2 ^ n - 1) < 2 ^ n.
Proof.
  intros Hn. replace (2 ^ n - 1) with (Z.ones n) by (rewrite Z.ones_equiv; lia).
  rewrite Z.land_ones by lia. apply Z.mod_pos_bound. apply pow2_pos; lia.
Qed.
Lemma bit_len_opp a : bit_len (- a) = bit_len a.
Proof. unfold bit_len. rewrite Z.abs_opp. destruct (Z.eqb_spec a 0), (Z.eqb_spec (- a) 0); try lia; reflexivity. Qed.
Lemma bit_len_le a k : 0 <= k -> Z.abs a < 2 ^ k -> bit_len a <= k.
Proof.
  intros Hk H. unfold bit_len. destruct (Z.eqb_spec a 0); [lia | ].
  assert (Z.log2 (Z.abs a) < k); [ | lia]. apply Z.log2_lt_pow2; lia.
Qed.

(** the largest finite primitive float is below 2^MAX_EXP *)
Lemma decode_bound mb eb bits man exp : 0 <= mb -> 1 <= eb -> decode mb eb bits = DFin man exp ->
  bit_len man + exp <= mant_digits mb + max_exp eb.
Proof.
  intros Hmb Heb. unfold decode, mant_digits, max_exp.
  set (mant := Z.land bits (2 ^ mb - 1)). set (e := Z.land (Z.shiftr bits mb) (2 ^ eb - 1)).
  assert (Bm : 0 <= mant < 2 ^ mb) by (apply land_ones_bound; lia).
  assert (Be : 0 <= e < 2 ^ eb) by (apply land_ones_bound; lia).
  assert (P : 0 < 2 ^ (eb - 1)) by (apply pow2_pos; lia).
  assert (D : 2 ^ eb = 2 * 2 ^ (eb - 1)) by (rewrite <- Z.pow_succ_r by lia; f_equal; lia).
  destruct (Z.eqb_spec e (2 ^ eb - 1)); [destruct (mant =? 0); discriminate | ].
  destruct (Z.eqb_spec e 0) as [E0 | E0].
  - intros H. assert (Hm : bit_len man <= mb).
    { destruct (Z.shiftr bits (mb + eb) =? 0); injection H as <- <-; [ | rewrite bit_len_opp];
        apply bit_len_le; try lia; rewrite Z.abs_eq; lia. }
    assert (exp = 1 - (2 ^ (eb - 1) - 1) - mb) by (destruct (Z.shiftr bits (mb + eb) =? 0); injection H as <- <-; reflexivity).
    lia.
  - intros H.
    assert (Bl : 0 <= Z.lor mant (2 ^ mb) < 2 ^ (mb + 1)).
    { assert (0 < 2 ^ mb) by (apply pow2_pos; lia). split; [apply Z.lor_nonneg; lia | ].
      destruct (Z.eq_dec (Z.lor mant (2 ^ mb)) 0) as [Z0 | NZ]; [rewrite Z0; apply pow2_pos; lia | ].
      apply Z.log2_lt_pow2; [pose proof (Z.lor_nonneg mant (2 ^ mb)); lia | ].
      rewrite Z.log2_lor by lia. rewrite Z.log2_pow2 by lia.
      destruct (Z.eq_dec mant 0) as [-> | ]; [cbn; lia | ].
      assert (Z.log2 mant < mb) by (apply Z.log2_lt_pow2; lia). lia. }
    assert (Hm : bit_len man <= mb + 1).
    { destruct (Z.shiftr bits (mb + eb) =? 0); injection H as <- <-; [ | rewrite bit_len_opp];
        apply bit_len_le; try lia; rewrite Z.abs_eq; lia. }
    assert (exp = e - (2 ^ (eb - 1) - 1 + mb)) by (destruct (Z.shiftr bits (mb + eb) =? 0); injection H as <- <-; reflexivity).
    lia.
Qed.

(* ---------------------------------------------------------------- steps 3-5 of the comparisons with f32/f64 *)
Lemma fmag_pos_den B s e : 0 < B -> 0 < snd (fmag B s e) /\ 0 <= fst (fmag B s e).
Proof. intros H. unfold fmag; cbn [fst snd]. split; [apply fden_pos; lia | lia]. Qed.

(** integer against man * 2^exp, both nonzero and of sign sg *)
Lemma int_dyadic_steps sg x man exp lim :
  x <> 0 -> man <> 0 -> sign_of x = sg -> sign_of man = sg -> bit_len man + exp <= lim ->
  (let self_bits := bit_len x in
   if self_bits >? lim then Some (smul sg Gt)
   else let other_bits := bit_len man + exp in
     if other_bits <? 0 then Some (smul sg Gt)
     else if self_bits >? other_bits then Some (smul sg Gt)
     else if self_bits <? other_bits then Some (smul sg Lt)
     else if 0 <=? exp then Some (x ?= man * 2 ^ exp)
     else Some (x * 2 ^ (- exp) ?= man))
  = Some (x * fden 2 exp ?= fnum 2 man exp * 1).
Proof.
  intros Hx Hm Sx Sm Hl. cbn zeta.
  destruct (int_pow2 x Hx) as [Gx Lx]. destruct (dyadic_pow2 man exp Hm) as [Gm Lm].
  destruct (fmag_pos_den 2 man exp) as [Pd Pn]; [lia | ].
  assert (Sf : sign_of (fnum 2 man exp) = sg) by (rewrite fnum_sign by lia; exact Sm).
  assert (P1 : 1 <= bit_len x) by (apply bit_len_bounds; exact Hx).
  assert (GT : bit_len man + exp <= bit_len x - 1 -> Some (smul sg Gt) = Some (x * fden 2 exp ?= fnum 2 man exp * 1)).
  { intros K. f_equal. symmetry. apply order_from_mag_gt; auto.
    apply (pow2_sep (Z.abs x, 1) (fmag 2 man exp) (bit_len x - 1) (bit_len man + exp)); cbn [fst snd]; auto; lia. }
  assert (LT : bit_len x <= bit_len man + exp - 1 -> Some (smul sg Lt) = Some (x * fden 2 exp ?= fnum 2 man exp * 1)).
  { intros K. f_equal. symmetry. apply order_from_mag_lt; auto.
    apply (pow2_sep (fmag 2 man exp) (Z.abs x, 1) (bit_len man + exp - 1) (bit_len x)); cbn [fst snd]; auto; lia. }
  destruct (Z.gtb_spec (bit_len x) lim); [apply GT; lia | ].
  destruct (Z.ltb_spec (bit_len man + exp) 0); [apply GT; lia | ].
  destruct (Z.gtb_spec (bit_len x) (bit_len man + exp)); [apply GT; lia | ].
  destruct (Z.ltb_spec (bit_len x) (bit_len man + exp)); [apply LT; lia | ].
  unfold fnum, fden. destruct (Z.leb_spec 0 exp); f_equal; apply cmp_ext; ring.
Qed.

(** float s * B^e against man * 2^oexp *)
Lemma float_dyadic_steps sg B s e man oexp lim :
  2 <= B -> s <> 0 -> man <> 0 -> sign_of s = sg -> sign_of man = sg -> bit_len man + oexp <= lim ->
  (let self_signif_log2 := bit_len s in
   let self_log2 := self_signif_log2 + bit_len B * e in
   let '(lb, ub) := if 0 <=? e then (self_log2 - e, self_log2) else (self_log2, self_log2 - e) in
   if lb >? lim then Some (smul sg Gt)
   else let other_log2 := bit_len man + oexp in
     if lb >? other_log2 then Some (smul sg Gt)
     else if ub <? other_log2 then Some (smul sg Lt)
     else
       let '(lhs, rhs) := if e <? 0 then (s, shl_digits B man (- e)) else (shl_digits B s e, man) in
       let '(lhs, rhs) := if oexp <? 0 then (lhs * 2 ^ (- oexp), rhs) else (lhs, rhs * 2 ^ oexp) in
       Some (lhs ?= rhs))
  = Some (fnum B s e * fden 2 oexp ?= fnum 2 man oexp * fden B e).
Proof.
  intros HB Hs Hm Ss Sm Hl. cbn zeta.
  pose proof (float_pow2 B s e HB Hs) as FP. cbn zeta in FP.
  destruct (dyadic_pow2 man oexp Hm) as [Gm Lm].
  destruct (fmag_pos_den 2 man oexp) as [Pd Pn]; [lia | ].
  destruct (fmag_pos_den B s e) as [Qd Qn]; [lia | ].
  assert (Sf : sign_of (fnum 2 man oexp) = sg) by (rewrite fnum_sign by lia; exact Sm).
  assert (Sg : sign_of (fnum B s e) = sg) by (rewrite fnum_sign by lia; exact Ss).
  set (sl := bit_len s + bit_len B * e) in *.
  assert (X : (let '(lhs, rhs) := if e <? 0 then (s, shl_digits B man (- e)) else (shl_digits B s e, man) in
               let '(lhs, rhs) := if oexp <? 0 then (lhs * 2 ^ (- oexp), rhs) else (lhs, rhs * 2 ^ oexp) in
               Some (lhs ?= rhs)) = Some (fnum B s e * fden 2 oexp ?= fnum 2 man oexp * fden B e)).
  { unfold fnum, fden, shl_digits.
    destruct (Z.ltb_spec e 0), (Z.leb_spec 0 e), (Z.ltb_spec oexp 0), (Z.leb_spec 0 oexp); try lia; f_equal; apply cmp_ext; ring. }
  destruct (0 <=? e); destruct FP as [Gs Ls].
  - destruct (Z.gtb_spec (sl - e) lim); [ | destruct (Z.gtb_spec (sl - e) (bit_len man + oexp)); [ | destruct (Z.ltb_spec sl (bit_len man + oexp)); [ | exact X]]].
    + f_equal. symmetry. apply order_from_mag_gt; auto.
      apply (pow2_sep (fmag B s e) (fmag 2 man oexp) (sl - e - 1) (bit_len man + oexp)); auto; lia.
    + f_equal. symmetry. apply order_from_mag_gt; auto.
      apply (pow2_sep (fmag B s e) (fmag 2 man oexp) (sl - e - 1) (bit_len man + oexp)); auto; lia.
    + f_equal. symmetry. apply order_from_mag_lt; auto.
      apply (pow2_sep (fmag 2 man oexp) (fmag B s e) (bit_len man + oexp - 1) sl); auto; lia.
  - destruct (Z.gtb_spec sl lim); [ | destruct (Z.gtb_spec sl (bit_len man + oexp)); [ | destruct (Z.ltb_spec (sl - e) (bit_len man + oexp)); [ | exact X]]].
    + f_equal. symmetry. apply order_from_mag_gt; auto.
      apply (pow2_sep (fmag B s e) (fmag 2 man oexp) (sl - 1) (bit_len man + oexp)); auto; lia.
    + f_equal. symmetry. apply order_from_mag_gt; auto.
      apply (pow2_sep (fmag B s e) (fmag 2 man oexp) (sl - 1) (bit_len man + oexp)); auto; lia.
    + f_equal. symmetry. apply order_from_mag_lt; auto.
      apply (pow2_sep (fmag 2 man oexp) (fmag B s e) (bit_len man + oexp - 1) (sl - e)); auto; lia.
Qed.

(** rational n/d against man * 2^oexp *)
Lemma ratio_dyadic_steps sg n d man oexp lim :
  0 < d -> n <> 0 -> man <> 0 -> sign_of n = sg -> sign_of man = sg -> bit_len man + oexp <= lim ->
  (let self_log2 := bit_len n - bit_len d in
   let lb := self_log2 - 1 in let ub := self_log2 + 1 in
   if lb >? lim then Some (smul sg Gt)
   else let other_log2 := bit_len man + oexp - 1 in
     if lb >? other_log2 then Some (smul sg Gt)
     else if ub <? other_log2 then Some (smul sg Lt)
     else
       let lhs := n in let rhs := man * d in
       let '(lhs, rhs) := if oexp <? 0 then (lhs * 2 ^ (- oexp), rhs) else (lhs, rhs * 2 ^ oexp) in
       Some (lhs ?= rhs))
  = Some (n * fden 2 oexp ?= fnum 2 man oexp * d).
Proof.
  intros Hd Hn Hm Sn Sm Hl. cbn zeta.
  destruct (ratio_pow2 n d Hn Hd) as [Gn Ln]. destruct (dyadic_pow2 man oexp Hm) as [Gm Lm].
  destruct (fmag_pos_den 2 man oexp) as [Pd Pn]; [lia | ].
  assert (Sf : sign_of (fnum 2 man oexp) = sg) by (rewrite fnum_sign by lia; exact Sm).
  set (sl := bit_len n - bit_len d) in *.
  destruct (Z.gtb_spec (sl - 1) lim); [ | destruct (Z.gtb_spec (sl - 1) (bit_len man + oexp - 1)); [ | destruct (Z.ltb_spec (sl + 1) (bit_len man + oexp - 1))]].
  - f_equal. symmetry. apply order_from_mag_gt; auto.
    apply (pow2_sep (Z.abs n, d) (fmag 2 man oexp) (sl - 1) (bit_len man + oexp)); cbn [fst snd]; auto; lia.
  - f_equal. symmetry. apply order_from_mag_gt; auto.
    apply (pow2_sep (Z.abs n, d) (fmag 2 man oexp) (sl - 1) (bit_len man + oexp)); cbn [fst snd]; auto; lia.
  - f_equal. symmetry. apply order_from_mag_lt; auto.
    apply (pow2_sep (fmag 2 man oexp) (Z.abs n, d) (bit_len man + oexp - 1) (sl + 1)); cbn [fst snd]; auto; lia.
  - pose proof (ratio_float_exact n d 2 man oexp) as X. cbn zeta in X.
    destruct (oexp <? 0); f_equal; exact X.
Qed.

(* ---------------------------------------------------------------- the bodies *)
Lemma fnum_pos_of_sign B m e : 0 < B -> m <> 0 -> sign_of m = Positive -> 0 < fnum B m e.
Proof.
  intros HB Hm S. pose proof (fnum_sign B m e HB) as F. rewrite S in F. apply sign_of_pos in F.
  pose proof (fnum_zero B m e HB). lia.
Qed.
Lemma fnum_neg_of_sign B m e : 0 < B -> sign_of m = Negative -> fnum B m e < 0.
Proof. intros HB S. pose proof (fnum_sign B m e HB) as F. rewrite S in F. apply sign_of_neg in F. exact F. Qed.

(** integer/src/third_party/num_order.rs impl_num_ord_ubig_with_float *)
Theorem ubig_cmp_prim_ord x mb eb bits : 0 <= x -> 0 <= mb -> 1 <= eb ->
  ubig_cmp_prim x mb eb bits = spec_cmp (XFin x 1) (value_of (OPrim mb eb bits)).
Proof.
  intros Hx Hmb Heb. unfold ubig_cmp_prim. cbn [value_of].
  destruct (decode mb eb bits) as [ | ds | man exp] eqn:D.
  - reflexivity.
  - cbn [d_is_zero d_sign]. destruct (Z.eqb_spec x 0); destruct ds; reflexivity.
  - rewrite scale_val_fin. cbn [spec_cmp d_is_zero d_sign].
    assert (Pd : 0 < fden 2 exp) by (apply fden_pos; lia).
    destruct (Z.eqb_spec man 0) as [-> | Hm].
    + rewrite (proj2 (fnum_zero 2 0 exp ltac:(lia)) eq_refl). f_equal.
      destruct (Z.eqb_spec x 0) as [-> | ]; [reflexivity | ]. symmetry; apply cmp_gt; nia.
    + destruct (Z.eqb_spec x 0) as [-> | Hx0].
      * f_equal. destruct (sign_of man) eqn:Sm; cbn [smul CompOpp]; symmetry.
        -- apply cmp_lt. pose proof (fnum_pos_of_sign 2 man exp ltac:(lia) Hm Sm). lia.
        -- apply cmp_gt. pose proof (fnum_neg_of_sign 2 man exp ltac:(lia) Sm). lia.
      * destruct (sign_of man) eqn:Sm.
        -- assert (0 <= man) by (apply sign_of_pos; exact Sm). rewrite (Z.abs_eq man) by lia.
           apply (int_dyadic_steps Positive x man exp (mant_digits mb + max_exp eb)); auto.
           ++ apply sign_of_pos; lia.
           ++ eapply decode_bound; eauto.
        -- f_equal. symmetry. apply order_mixed_gt; try lia.
           ++ apply sign_of_pos; lia.
           ++ rewrite fnum_sign by lia. exact Sm.
Qed.

(** impl_num_ord_ibig_with_float *)
Theorem ibig_cmp_prim_ord x mb eb bits : 0 <= mb -> 1 <= eb ->
  ibig_cmp_prim x mb eb bits = spec_cmp (XFin x 1) (value_of (OPrim mb eb bits)).
Proof.
  intros Hmb Heb. unfold ibig_cmp_prim. cbn [value_of].
  destruct (decode mb eb bits) as [ | ds | man exp] eqn:D.
  - reflexivity.
  - cbn [d_is_zero d_sign]. destruct (Z.eqb_spec x 0); [destruct ds; reflexivity | ].
    unfold sign_filter_o. destruct (sign_of x), ds; reflexivity.
  - rewrite scale_val_fin. cbn [spec_cmp d_is_zero d_sign].
    assert (Pd : 0 < fden 2 exp) by (apply fden_pos; lia).
    destruct (Z.eqb_spec man 0) as [-> | Hm].
    + rewrite (proj2 (fnum_zero 2 0 exp ltac:(lia)) eq_refl). f_equal.
      destruct (Z.eqb_spec x 0) as [-> | ]; [reflexivity | ].
      destruct (sign_of x) eqn:Sx; cbn [smul CompOpp]; symmetry.
      * apply sign_of_pos in Sx. apply cmp_gt; nia.
      * apply sign_of_neg in Sx. apply cmp_lt; nia.
    + destruct (Z.eqb_spec x 0) as [-> | Hx0].
      * f_equal. destruct (sign_of man) eqn:Sm; cbn [smul CompOpp]; symmetry.
        -- apply cmp_lt. pose proof (fnum_pos_of_sign 2 man exp ltac:(lia) Hm Sm). lia.
        -- apply cmp_gt. pose proof (fnum_neg_of_sign 2 man exp ltac:(lia) Sm). lia.
      * assert (Sf : sign_of (fnum 2 man exp) = sign_of man) by (apply fnum_sign; lia).
        unfold sign_filter_o. destruct (sign_of x) eqn:Sx, (sign_of man) eqn:Sm.
        -- apply (int_dyadic_steps Positive x man exp (mant_digits mb + max_exp eb)); auto. eapply decode_bound; eauto.
        -- f_equal. symmetry. apply order_mixed_gt; auto; lia.
        -- f_equal. symmetry. apply order_mixed_lt; auto; lia.
        -- apply (int_dyadic_steps Negative x man exp (mant_digits mb + max_exp eb)); auto. eapply decode_bound; eauto.
Qed.

(** rational/src/third_party/num_order.rs impl_num_ord_with_float *)
Theorem qrepr_cmp_prim_ord n d mb eb bits : 0 < d -> 0 <= mb -> 1 <= eb ->
  qrepr_cmp_prim n d mb eb bits = spec_cmp (XFin n d) (value_of (OPrim mb eb bits)).
Proof.
  intros Hd Hmb Heb. unfold qrepr_cmp_prim. cbn [value_of].
  destruct (decode mb eb bits) as [ | ds | man exp] eqn:D.
  - reflexivity.
  - destruct ds; reflexivity.
  - rewrite scale_val_fin. cbn [spec_cmp].
    assert (Pd : 0 < fden 2 exp) by (apply fden_pos; lia).
    destruct (Z.eqb_spec man 0) as [-> | Hm].
    + rewrite (proj2 (fnum_zero 2 0 exp ltac:(lia)) eq_refl). f_equal.
      destruct (Z.eqb_spec n 0) as [-> | ]; [reflexivity | ].
      destruct (sign_of n) eqn:Sx; cbn [smul CompOpp]; symmetry.
      * apply sign_of_pos in Sx. apply cmp_gt; nia.
      * apply sign_of_neg in Sx. apply cmp_lt; nia.
    + destruct (Z.eqb_spec n 0) as [-> | Hn0].
      * f_equal. destruct (sign_of man) eqn:Sm; cbn [smul CompOpp]; symmetry.
        -- apply cmp_lt. pose proof (fnum_pos_of_sign 2 man exp ltac:(lia) Hm Sm). nia.
        -- apply cmp_gt. pose proof (fnum_neg_of_sign 2 man exp ltac:(lia) Sm). nia.
      * assert (Sf : sign_of (fnum 2 man exp) = sign_of man) by (apply fnum_sign; lia).
        unfold sign_filter_o. destruct (sign_of n) eqn:Sx, (sign_of man) eqn:Sm.
        -- apply (ratio_dyadic_steps Positive n d man exp (mant_digits mb + max_exp eb)); auto. eapply decode_bound; eauto.
        -- f_equal. symmetry. apply order_mixed_gt; auto; lia.
        -- f_equal. symmetry. apply order_mixed_lt; auto; lia.
        -- apply (ratio_dyadic_steps Negative n d man exp (mant_digits mb + max_exp eb)); auto. eapply decode_bound; eauto.
Qed.

(** the three shapes of a stored float: infinity, zero, finite nonzero *)
Lemma shape_inf e : e <> 0 ->
  f_is_inf 0 e = true /\ f_is_zero 0 e = false /\ repr_sign 0 e = (if 0 <? e then Positive else Negative).
Proof.
  intros He. unfold f_is_inf, f_is_zero, repr_sign. cbn [Z.eqb andb].
  rewrite (proj2 (Z.eqb_neq e 0) He). repeat split.
  destruct (Z.leb_spec 0 e), (Z.ltb_spec 0 e); try lia; reflexivity.
Qed.
Lemma shape_fin s e : s <> 0 -> f_is_inf s e = false /\ f_is_zero s e = false /\ repr_sign s e = sign_of s.
Proof. intros Hs. unfold f_is_inf, f_is_zero, repr_sign. rewrite (proj2 (Z.eqb_neq s 0) Hs). auto. Qed.

(** float/src/third_party/num_order.rs impl_num_ord_with_float *)
Theorem frepr_cmp_prim_ord B s e mb eb bits : 2 <= B -> 0 <= mb -> 1 <= eb ->
  frepr_cmp_prim B s e mb eb bits = spec_cmp (fval B s e) (value_of (OPrim mb eb bits)).
Proof.
  intros HB Hmb Heb. unfold frepr_cmp_prim. cbn [value_of].
  destruct (decode mb eb bits) as [ | ds | man oexp] eqn:D.
  - destruct (fval B s e) as [ | [ | ] | ]; reflexivity.
  - (* an infinite primitive *)
    cbn [d_is_zero d_sign].
    destruct (Z.eq_dec s 0) as [-> | Hs]; [destruct (Z.eq_dec e 0) as [-> | He] | ].
    + destruct ds; reflexivity.
    + destruct (shape_inf e He) as (I & Zr & R). rewrite fval_inf by exact I. rewrite I, Zr, R.
      unfold sign_filter_o. destruct (0 <? e), ds; reflexivity.
    + destruct (shape_fin s e Hs) as (I & Zr & R). rewrite fval_fin by exact I. rewrite I, Zr, R.
      unfold sign_filter_o. destruct (sign_of s), ds; reflexivity.
  - rewrite scale_val_fin. cbn [d_is_zero d_sign].
    assert (Pd : 0 < fden 2 oexp) by (apply fden_pos; lia).
    assert (Qd : 0 < fden B e) by (apply fden_pos; lia).
    destruct (Z.eq_dec s 0) as [-> | Hs]; [destruct (Z.eq_dec e 0) as [-> | He] | ].
    + (* zero *)
      change (f_is_zero 0 0) with true. change (fval B 0 0) with (XFin (0 * B ^ 0) 1). cbn [spec_cmp].
      destruct (Z.eqb_spec man 0) as [-> | Hm].
      * rewrite (proj2 (fnum_zero 2 0 oexp ltac:(lia)) eq_refl). reflexivity.
      * f_equal. destruct (sign_of man) eqn:Sm; cbn [smul CompOpp]; symmetry.
        -- apply cmp_lt. pose proof (fnum_pos_of_sign 2 man oexp ltac:(lia) Hm Sm). nia.
        -- apply cmp_gt. pose proof (fnum_neg_of_sign 2 man oexp ltac:(lia) Sm). nia.
    + (* infinity *)
      destruct (shape_inf e He) as (I & Zr & R). rewrite fval_inf by exact I. rewrite I, Zr, R.
      destruct (man =? 0); [destruct (0 <? e); reflexivity | ].
      unfold sign_filter_o. destruct (0 <? e), (sign_of man); reflexivity.
    + (* finite, nonzero *)
      destruct (shape_fin s e Hs) as (I & Zr & R). rewrite fval_fin by exact I. rewrite I, Zr, R. cbn [spec_cmp].
      destruct (Z.eqb_spec man 0) as [-> | Hm].
      * rewrite (proj2 (fnum_zero 2 0 oexp ltac:(lia)) eq_refl). f_equal.
        destruct (sign_of s) eqn:Ss; cbn [smul CompOpp]; symmetry.
        -- apply cmp_gt. pose proof (fnum_pos_of_sign B s e ltac:(lia) Hs Ss). nia.
        -- apply cmp_lt. pose proof (fnum_neg_of_sign B s e ltac:(lia) Ss). nia.
      * assert (Sf : sign_of (fnum 2 man oexp) = sign_of man) by (apply fnum_sign; lia).
        assert (Sg : sign_of (fnum B s e) = sign_of s) by (apply fnum_sign; lia).
        unfold sign_filter_o. destruct (sign_of s) eqn:Ss, (sign_of man) eqn:Sm.
        -- apply (float_dyadic_steps Positive B s e man oexp (mant_digits mb + max_exp eb)); auto. eapply decode_bound; eauto.
        -- f_equal. symmetry. apply order_mixed_gt; auto.
        -- f_equal. symmetry. apply order_mixed_lt; auto.
        -- apply (float_dyadic_steps Negative B s e man oexp (mant_digits mb + max_exp eb)); auto. eapply decode_bound; eauto.
Qed.
