(** C14 (shared): the f32 arithmetic of EstimatedLog2::log2_bounds / Repr::digits_ub (XLog2Model.v, on Flocq's
    binary32) returns bounds that enclose the exact base-2 logarithm - for every input, under ONE assumption
    about libm: f32::log2 of an integer in [1, 2^24] is finite and within one f32 step of the exact logarithm
    ([lg_contract]).  Everything around it is proved: the conversions `as f32`, the 24-bit truncation, the shift
    addition, next_up / next_down, the subtraction of the rational estimator, the three outward steps of the float
    estimator, the truncation `as usize` of digits_ub. *)
From Coq Require Import ZArith Reals Lia Lra Bool Psatz.
From Flocq Require Import Core IEEE754.BinarySingleNaN.
From Dashu Require Import Base.Prelude Cross.XLog2Model.
From Dashu Require Float.Log10Const.
Open Scope R_scope.

Notation fexp32 := (FLT_exp (3 - 128 - 24) 24).
Notation rnd32 := (round radix2 fexp32 ZnearestE).
Notation F32 := (generic_format radix2 fexp32).
Notation succ32 := (succ radix2 fexp32).
Notation pred32 := (pred radix2 fexp32).
Notation ulp32 := (ulp radix2 fexp32).
Notation cexp32 := (cexp radix2 fexp32).
Notation b2r := (@B2R 24 128).
Notation fin := (@is_finite 24 128).
Notation p2 := (bpow radix2).

Definition log2R (x : R) : R := ln x / ln 2.

(* ================================================================================================
   real-number facts about log2
   ================================================================================================ *)
Lemma ln2_pos : 0 < ln 2.
Proof. rewrite <- ln_1. apply ln_increasing; lra. Qed.

Lemma log2R_le x y : 0 < x -> x <= y -> log2R x <= log2R y.
Proof.
  intros Hx [H | ->]; [ | lra]. unfold log2R. apply Rmult_le_compat_r; [pose proof ln2_pos; left; apply Rinv_0_lt_compat; lra | ].
  left. apply ln_increasing; lra.
Qed.
Lemma log2R_lt_inv x y : 0 < x -> 0 < y -> log2R x < log2R y -> x < y.
Proof.
  intros Hx Hy H. unfold log2R in H. apply ln_lt_inv; try assumption.
  pose proof ln2_pos. apply Rmult_lt_reg_r with (/ ln 2); [apply Rinv_0_lt_compat; lra | exact H].
Qed.
Lemma log2R_mult x y : 0 < x -> 0 < y -> log2R (x * y) = log2R x + log2R y.
Proof. intros. unfold log2R. rewrite ln_mult by assumption. field. pose proof ln2_pos; lra. Qed.
Lemma log2R_div x y : 0 < x -> 0 < y -> log2R (x / y) = log2R x - log2R y.
Proof. intros. unfold log2R, Rdiv. rewrite ln_mult, ln_Rinv by (try apply Rinv_0_lt_compat; assumption). field. pose proof ln2_pos; lra. Qed.
Lemma log2R_bpow k : log2R (p2 k) = IZR k.
Proof.
  unfold log2R. rewrite bpow_exp. rewrite ln_exp. simpl (IZR radix2). field. pose proof ln2_pos; lra.
Qed.
Lemma log2R_1 : log2R 1 = 0.
Proof. unfold log2R. rewrite ln_1. field. pose proof ln2_pos; lra. Qed.
Lemma IZR_pow2 k : (0 <= k)%Z -> IZR (2 ^ k) = p2 k.
Proof. intros H. exact (IZR_Zpower radix2 k H). Qed.
Lemma log2R_pow k x : (0 <= k)%Z -> 0 < x -> log2R (x ^ Z.to_nat k) = IZR k * log2R x.
Proof.
  intros Hk Hx. rewrite <- (Z2Nat.id k) at 2 by exact Hk. generalize (Z.to_nat k). clear k Hk. intros n.
  induction n as [ | n IH].
  - simpl. rewrite log2R_1. lra.
  - rewrite Nat2Z.inj_succ, succ_IZR. simpl pow. rewrite log2R_mult; [ | assumption | apply pow_lt; assumption]. rewrite IH. ring.
Qed.

(* ================================================================================================
   the format: integers, outward steps
   ================================================================================================ *)
Lemma F32_int n : (Z.abs n <= 2 ^ 24)%Z -> F32 (IZR n).
Proof.
  intros H. destruct (Z.eq_dec (Z.abs n) (2 ^ 24)) as [E | N].
  - assert (Hb : F32 (p2 24)) by (apply generic_format_bpow; unfold FLT_exp; simpl; lia).
    assert (IZR (Z.abs n) = p2 24) by (rewrite E; apply IZR_pow2; lia).
    destruct (Z.abs_spec n) as [[_ A] | [_ A]]; rewrite A in H0.
    + rewrite H0. exact Hb.
    + rewrite opp_IZR in H0. replace (IZR n) with (- p2 24) by lra. apply generic_format_opp. exact Hb.
  - apply generic_format_FLT. exists (Float radix2 n 0); cbn [Fnum Fexp].
    + unfold F2R; cbn [Fnum Fexp]. simpl. ring.
    + change (2 ^ 24)%Z with 16777216%Z in *. simpl. lia.
    + lia.
Qed.

Lemma F32_0 : F32 0.
Proof. apply generic_format_0. Qed.

Lemma p2_128 : p2 128 = IZR (2 ^ 128).
Proof. rewrite IZR_pow2 by lia. reflexivity. Qed.

(** a value below an integer bound stays below it after rounding *)
Lemma rnd_abs_le z n : (0 <= n <= 2 ^ 24)%Z -> Rabs z <= IZR n -> Rabs (rnd32 z) <= IZR n.
Proof. intros Hn H. apply abs_round_le_generic; [apply FLT_exp_valid; exact Hprec32 | typeclasses eauto | apply F32_int; lia | exact H]. Qed.

Lemma small_lt_max n : (0 <= n <= 2 ^ 24)%Z -> IZR n < p2 128.
Proof. intros H. rewrite p2_128. apply IZR_lt. assert (2 ^ 24 < 2 ^ 128)%Z by (apply Z.pow_lt_mono_r; lia). lia. Qed.

(* ================================================================================================
   the operations of the model on real numbers
   ================================================================================================ *)
Lemma f_dyadic_R m e : F32 (F2R (Float radix2 m e)) -> Rabs (F2R (Float radix2 m e)) < p2 128 ->
  b2r (f_dyadic m e) = F2R (Float radix2 m e) /\ fin (f_dyadic m e) = true.
Proof.
  intros Hf Hb. unfold f_dyadic.
  pose proof (binary_normalize_correct 24 128 Hprec32 Hmax32 mode_NE m e false) as C. cbv zeta in C.
  cbn [round_mode] in C. rewrite round_generic in C by (try typeclasses eauto; exact Hf).
  rewrite Rlt_bool_true in C by exact Hb. destruct C as (C1 & C2 & _). split; assumption.
Qed.

Lemma f_of_Z_R n : (Z.abs n <= 2 ^ 24)%Z -> b2r (f_of_Z n) = IZR n /\ fin (f_of_Z n) = true.
Proof.
  intros H. assert (E : F2R (Float radix2 n 0) = IZR n) by (unfold F2R; cbn [Fnum Fexp]; simpl; ring).
  unfold f_of_Z. change (binary_normalize 24 128 Hprec32 Hmax32 mode_NE n 0 false) with (f_dyadic n 0).
  rewrite <- E. apply f_dyadic_R; rewrite E.
  - apply F32_int; exact H.
  - rewrite <- abs_IZR. apply small_lt_max. lia.
Qed.

(** `x as f32` of any integer below 2^127: the nearest f32 *)
Lemma f_of_Z_rnd n : (Z.abs n <= 2 ^ 127)%Z -> b2r (f_of_Z n) = rnd32 (IZR n) /\ fin (f_of_Z n) = true.
Proof.
  intros H. assert (E : F2R (Float radix2 n 0) = IZR n) by (unfold F2R; cbn [Fnum Fexp]; simpl; ring).
  unfold f_of_Z. pose proof (binary_normalize_correct 24 128 Hprec32 Hmax32 mode_NE n 0 false) as C. cbv zeta in C.
  cbn [round_mode] in C. rewrite E in C. change (SpecFloat.fexp 24 128) with (FLT_exp (3 - 128 - 24) 24) in C.
  rewrite Rlt_bool_true in C.
  - destruct C as (C1 & C2 & _). split; assumption.
  - apply Rle_lt_trans with (p2 127); [ | apply bpow_lt; lia].
    apply abs_round_le_generic; [apply FLT_exp_valid; exact Hprec32 | typeclasses eauto | apply generic_format_bpow; unfold FLT_exp; lia | ].
    rewrite <- abs_IZR, <- IZR_pow2 by lia. apply IZR_le. exact H.
Qed.

Lemma f_add_R a b : fin a = true -> fin b = true -> Rabs (rnd32 (b2r a + b2r b)) < p2 128 ->
  b2r (f_add a b) = rnd32 (b2r a + b2r b) /\ fin (f_add a b) = true.
Proof.
  intros Fa Fb Hb. unfold f_add. pose proof (Bplus_correct 24 128 Hprec32 Hmax32 mode_NE a b Fa Fb) as C.
  cbn [round_mode] in C. rewrite Rlt_bool_true in C by exact Hb. destruct C as (C1 & C2 & _). split; assumption.
Qed.
Lemma f_sub_R a b : fin a = true -> fin b = true -> Rabs (rnd32 (b2r a - b2r b)) < p2 128 ->
  b2r (f_sub a b) = rnd32 (b2r a - b2r b) /\ fin (f_sub a b) = true.
Proof.
  intros Fa Fb Hb. unfold f_sub. pose proof (Bminus_correct 24 128 Hprec32 Hmax32 mode_NE a b Fa Fb) as C.
  cbn [round_mode] in C. rewrite Rlt_bool_true in C by exact Hb. destruct C as (C1 & C2 & _). split; assumption.
Qed.
Lemma f_mul_R a b : fin a = true -> fin b = true -> Rabs (rnd32 (b2r a * b2r b)) < p2 128 ->
  b2r (f_mul a b) = rnd32 (b2r a * b2r b) /\ fin (f_mul a b) = true.
Proof.
  intros Fa Fb Hb. unfold f_mul. pose proof (Bmult_correct 24 128 Hprec32 Hmax32 mode_NE a b) as C.
  cbn [round_mode] in C. rewrite Rlt_bool_true in C by exact Hb. destruct C as (C1 & C2 & _). rewrite Fa, Fb in C2. split; assumption.
Qed.
Lemma f_div_R a b : fin a = true -> b2r b <> 0 -> Rabs (rnd32 (b2r a / b2r b)) < p2 128 ->
  b2r (f_div a b) = rnd32 (b2r a / b2r b) /\ fin (f_div a b) = true.
Proof.
  intros Fa Nb Hb. unfold f_div. pose proof (Bdiv_correct 24 128 Hprec32 Hmax32 mode_NE a b Nb) as C.
  cbn [round_mode] in C. rewrite Rlt_bool_true in C by exact Hb. destruct C as (C1 & C2 & _). rewrite Fa in C2. split; assumption.
Qed.
Lemma next_up_R a : fin a = true -> succ32 (b2r a) < p2 128 ->
  b2r (next_up a) = succ32 (b2r a) /\ fin (next_up a) = true.
Proof.
  intros Fa Hb. unfold next_up. pose proof (Bsucc_correct 24 128 Hprec32 Hmax32 a Fa) as C.
  rewrite Rlt_bool_true in C by exact Hb. destruct C as (C1 & C2 & _). split; assumption.
Qed.
Lemma next_down_R a : fin a = true -> - p2 128 < pred32 (b2r a) ->
  b2r (next_down a) = pred32 (b2r a) /\ fin (next_down a) = true.
Proof.
  intros Fa Hb. unfold next_down. pose proof (Bpred_correct 24 128 Hprec32 Hmax32 a Fa) as C.
  rewrite Rlt_bool_true in C by exact Hb. destruct C as (C1 & C2 & _). split; assumption.
Qed.
Lemma F32_b2r a : F32 (b2r a).
Proof. apply generic_format_B2R. Qed.

(** one outward step after a rounding restores a bound (Flocq: pred_round_le_id / succ_round_ge_id) *)
Lemma pred_rnd_le z : pred32 (rnd32 z) <= z.
Proof. apply pred_round_le_id; [apply FLT_exp_valid; exact Hprec32 | typeclasses eauto]. Qed.
Lemma succ_rnd_ge z : z <= succ32 (rnd32 z).
Proof. apply succ_round_ge_id; [apply FLT_exp_valid; exact Hprec32 | typeclasses eauto]. Qed.

(* ================================================================================================
   the shift addition: est + shift, then one outward step
   ================================================================================================ *)
Lemma F32_mult v c : F32 v -> (c <= cexp32 v)%Z -> exists N : Z, v = IZR N * p2 c.
Proof.
  intros Fv Hc. exists (Ztrunc (scaled_mantissa radix2 fexp32 v) * 2 ^ (cexp32 v - c))%Z.
  rewrite mult_IZR, IZR_pow2 by lia. rewrite Rmult_assoc, <- bpow_plus.
  replace (cexp32 v - c + c)%Z with (cexp32 v) by ring. exact Fv.
Qed.

Lemma cexp32_le x y : 0 < x -> x <= y -> (cexp32 x <= cexp32 y)%Z.
Proof.
  intros Hx Hxy. unfold cexp. apply (@monotone_exp fexp32); [typeclasses eauto | ]. apply mag_le; assumption.
Qed.

Lemma int_mult k c : (c <= 0)%Z -> IZR k = IZR (k * 2 ^ (- c)) * p2 c.
Proof.
  intros Hc. rewrite mult_IZR, IZR_pow2 by lia. rewrite Rmult_assoc, <- bpow_plus.
  replace (- c + c)%Z with 0%Z by ring. simpl. ring.
Qed.

(** lower side: pred (fl (succ p + k)) <= p + k for a positive f32 p with ulp p <= 1 and an integer k >= 0 *)
Lemma shift_lower p k : F32 p -> 0 < p -> (cexp32 p <= 0)%Z -> (0 <= k)%Z ->
  pred32 (rnd32 (succ32 p + IZR k)) <= p + IZR k.
Proof.
  intros Fp Hp Hc Hk.
  assert (Hu : succ32 p = p + p2 (cexp32 p)) by (rewrite succ_eq_pos by lra; rewrite ulp_neq_0 by lra; reflexivity).
  set (u := p2 (cexp32 p)) in *. assert (Upos : 0 < u) by apply bpow_gt_0.
  assert (Kpos : 0 <= IZR k) by (apply IZR_le; exact Hk).
  set (a := succ32 p) in *. assert (Fa : F32 a) by (apply generic_format_succ; [apply FLT_exp_valid; exact Hprec32 | exact Fp]).
  set (r := rnd32 (a + IZR k)).
  assert (Ra : a <= r) by (apply round_ge_generic; [apply FLT_exp_valid; exact Hprec32 | typeclasses eauto | exact Fa | lra]).
  destruct (Rle_or_lt (pred32 r) (p + IZR k)) as [ | C]; [assumption | exfalso].
  assert (Fr : F32 r) by (apply generic_format_round; [apply FLT_exp_valid; exact Hprec32 | typeclasses eauto]).
  assert (Fv : F32 (pred32 r)) by (apply generic_format_pred; [apply FLT_exp_valid; exact Hprec32 | exact Fr]).
  destruct (F32_mult p (cexp32 p) Fp ltac:(lia)) as [Mp Ep].
  destruct (F32_mult (pred32 r) (cexp32 p) Fv ltac:(apply cexp32_le; lra)) as [N En].
  pose proof (int_mult k (cexp32 p) Hc) as Ek. set (K := (k * 2 ^ (- cexp32 p))%Z) in *.
  fold u in Ep, En, Ek.
  assert (L : (Mp + K < N)%Z).
  { apply lt_IZR. rewrite plus_IZR. apply Rmult_lt_reg_r with u; [exact Upos | ]. rewrite Rmult_plus_distr_r, <- Ep, <- Ek, <- En. exact C. }
  assert (G : a + IZR k <= pred32 r).
  { rewrite Hu, En, Ep, Ek. replace (IZR Mp * u + u + IZR K * u) with (IZR (Mp + K + 1) * u) by (rewrite !plus_IZR; simpl; ring).
    apply Rmult_le_compat_r; [lra | ]. apply IZR_le. lia. }
  assert (R1 : r <= pred32 r).
  { unfold r. apply round_le_generic; [apply FLT_exp_valid; exact Hprec32 | typeclasses eauto | exact Fv | exact G]. }
  assert (R2 : pred32 r < r) by (apply pred_lt_id; lra).
  lra.
Qed.

(** upper side: succ b + k <= succ (fl (b + k)) *)
Lemma shift_upper b k : F32 b -> 0 < b -> (cexp32 b <= 0)%Z -> (0 <= k)%Z ->
  succ32 b + IZR k <= succ32 (rnd32 (b + IZR k)).
Proof.
  intros Fb Hb Hc Hk.
  assert (Hu : succ32 b = b + p2 (cexp32 b)) by (rewrite succ_eq_pos by lra; rewrite ulp_neq_0 by lra; reflexivity).
  set (u := p2 (cexp32 b)) in *. assert (Upos : 0 < u) by apply bpow_gt_0.
  assert (Kpos : 0 <= IZR k) by (apply IZR_le; exact Hk).
  set (r := rnd32 (b + IZR k)).
  assert (Rb : b <= r) by (apply round_ge_generic; [apply FLT_exp_valid; exact Hprec32 | typeclasses eauto | exact Fb | lra]).
  destruct (Rle_or_lt (succ32 b + IZR k) (succ32 r)) as [ | C]; [assumption | exfalso].
  assert (Fr : F32 r) by (apply generic_format_round; [apply FLT_exp_valid; exact Hprec32 | typeclasses eauto]).
  assert (Fv : F32 (succ32 r)) by (apply generic_format_succ; [apply FLT_exp_valid; exact Hprec32 | exact Fr]).
  assert (R2 : r < succ32 r) by (apply succ_gt_id; lra).
  destruct (F32_mult b (cexp32 b) Fb ltac:(lia)) as [Mb Eb].
  destruct (F32_mult (succ32 r) (cexp32 b) Fv ltac:(apply cexp32_le; lra)) as [N En].
  pose proof (int_mult k (cexp32 b) Hc) as Ek. set (K := (k * 2 ^ (- cexp32 b))%Z) in *.
  fold u in Eb, En, Ek.
  assert (L : (N < Mb + 1 + K)%Z).
  { apply lt_IZR. rewrite !plus_IZR. apply Rmult_lt_reg_r with u; [exact Upos | ].
    rewrite !Rmult_plus_distr_r, <- Eb, <- Ek, <- En. rewrite Hu in C. lra. }
  assert (G : succ32 r <= b + IZR k).
  { rewrite En, Eb, Ek. rewrite <- Rmult_plus_distr_r, <- plus_IZR. apply Rmult_le_compat_r; [lra | ]. apply IZR_le. lia. }
  assert (R1 : succ32 r <= r).
  { unfold r at 2. apply round_ge_generic; [apply FLT_exp_valid; exact Hprec32 | typeclasses eauto | exact Fv | exact G]. }
  lra.
Qed.

(* ================================================================================================
   small facts about the format used below
   ================================================================================================ *)
Lemma F32_dyadic m e : (Z.abs m < 2 ^ 24)%Z -> (-149 <= e)%Z -> F32 (F2R (Float radix2 m e)).
Proof.
  intros Hm He. apply generic_format_FLT. exists (Float radix2 m e); cbn [Fnum Fexp]; [reflexivity | | lia].
  change (2 ^ 24)%Z with 16777216%Z in *. simpl. lia.
Qed.
Lemma F32_half n : (Z.abs n < 2 ^ 23)%Z -> F32 (IZR n + / 2).
Proof.
  intros H. replace (IZR n + / 2) with (F2R (Float radix2 (2 * n + 1) (-1))).
  - apply F32_dyadic; lia.
  - unfold F2R; cbn [Fnum Fexp]. rewrite plus_IZR, mult_IZR. simpl. lra.
Qed.
Lemma cexp32_small v : v <> 0 -> Rabs v < p2 24 -> (cexp32 v <= 0)%Z.
Proof.
  intros Nv H. unfold cexp, FLT_exp. pose proof (mag_le_bpow radix2 v 24 Nv H). lia.
Qed.
Lemma succ32_le x y : F32 x -> F32 y -> x <= y -> succ32 x <= succ32 y.
Proof. intros. apply succ_le; try assumption. apply FLT_exp_valid; exact Hprec32. Qed.
Lemma pred32_le x y : F32 x -> F32 y -> x <= y -> pred32 x <= pred32 y.
Proof. intros. apply pred_le; try assumption. apply FLT_exp_valid; exact Hprec32. Qed.
Lemma succ32_le_lt x y : F32 x -> F32 y -> x < y -> succ32 x <= y.
Proof. intros. apply succ_le_lt; try assumption. apply FLT_exp_valid; exact Hprec32. Qed.
Lemma pred32_ge_gt x y : F32 x -> F32 y -> x < y -> x <= pred32 y.
Proof. intros. apply pred_ge_gt; try assumption. apply FLT_exp_valid; exact Hprec32. Qed.
Lemma pred32_le_id x : pred32 x <= x.
Proof. apply pred_le_id. Qed.
Lemma succ32_ge_id x : x <= succ32 x.
Proof. apply succ_ge_id. Qed.
Lemma F32_succ x : F32 x -> F32 (succ32 x).
Proof. apply generic_format_succ. apply FLT_exp_valid; exact Hprec32. Qed.
Lemma F32_pred x : F32 x -> F32 (pred32 x).
Proof. apply generic_format_pred. apply FLT_exp_valid; exact Hprec32. Qed.
Lemma F32_rnd x : F32 (rnd32 x).
Proof. apply generic_format_round; [apply FLT_exp_valid; exact Hprec32 | typeclasses eauto]. Qed.
Lemma rnd32_le x y : x <= y -> rnd32 x <= rnd32 y.
Proof. apply round_le; [apply FLT_exp_valid; exact Hprec32 | typeclasses eauto]. Qed.
Lemma rnd32_id x : F32 x -> rnd32 x = x.
Proof. apply round_generic. typeclasses eauto. Qed.

(** one outward step from a value in [-n, n] stays within [-(n+1), n+1] (n a small integer) *)
Lemma succ32_int_bound x n : F32 x -> (0 <= n < 2 ^ 23)%Z -> x <= IZR n -> succ32 x <= IZR n + 1.
Proof.
  intros Fx Hn H. apply Rle_trans with (succ32 (IZR n)); [apply succ32_le; [exact Fx | apply F32_int; lia | exact H] | ].
  rewrite <- plus_IZR. apply succ32_le_lt; [apply F32_int; lia | apply F32_int; lia | apply IZR_lt; lia].
Qed.
Lemma pred32_int_bound x n : F32 x -> (0 <= n < 2 ^ 23)%Z -> - IZR n <= x -> - IZR n - 1 <= pred32 x.
Proof.
  intros Fx Hn H. apply Rle_trans with (pred32 (- IZR n)); [ | apply pred32_le; [rewrite <- opp_IZR; apply F32_int; lia | exact Fx | exact H]].
  replace (- IZR n - 1) with (IZR (- n - 1)) by (rewrite minus_IZR, opp_IZR; ring). rewrite <- opp_IZR.
  apply pred32_ge_gt; [apply F32_int; lia | apply F32_int; lia | apply IZR_lt; lia].
Qed.

(* ================================================================================================
   the assumption about libm, and the unsigned-integer estimator
   ================================================================================================ *)
(** bounds with everything the callers need: finite, enclosing, of bounded magnitude *)
Definition encl (M : Z) (lb ub : f32) (v : R) : Prop :=
  fin lb = true /\ fin ub = true /\ b2r lb <= v <= b2r ub /\ - IZR M <= b2r lb /\ b2r ub <= IZR M.

Section Libm.
Variable lg : f32 -> f32.

(** THE assumption: f32::log2 of an integer n in [1, 2^24] is finite and its two neighbours enclose log2 n
    (an error of at most one unit in the last place) *)
Definition lg_contract : Prop := forall (x : f32) (n : Z), fin x = true -> b2r x = IZR n -> (1 <= n <= 2 ^ 24)%Z ->
  fin (lg x) = true /\ pred32 (b2r (lg x)) <= log2R (IZR n) <= succ32 (b2r (lg x)).
Hypothesis lg_ok : lg_contract.

Lemma log2R_int_range n : (1 <= n <= 2 ^ 24)%Z -> 0 <= log2R (IZR n) <= 24.
Proof.
  intros H. split.
  - rewrite <- log2R_1. apply log2R_le; [lra | apply IZR_le; lia].
  - change 24 with (IZR 24). rewrite <- (log2R_bpow 24). apply log2R_le; [apply IZR_lt; lia | ]. rewrite <- IZR_pow2 by lia. apply IZR_le; lia.
Qed.

Lemma lg_range x n : fin x = true -> b2r x = IZR n -> (1 <= n <= 2 ^ 24)%Z -> -1 <= b2r (lg x) <= 25.
Proof.
  intros Fx Ex Hn. destruct (lg_ok x n Fx Ex Hn) as (_ & L & U). pose proof (log2R_int_range n Hn) as R.
  pose proof (F32_b2r (lg x)) as Fy. set (y := b2r (lg x)) in *. split.
  - destruct (Rle_or_lt (-1) y) as [ | C]; [assumption | exfalso].
    assert (succ32 y <= -1) by (apply succ32_le_lt; [exact Fy | change (-1) with (IZR (-1)); apply F32_int; lia | exact C]). lra.
  - destruct (Rle_or_lt y 25) as [ | C]; [assumption | exfalso].
    assert (25 <= pred32 y) by (apply pred32_ge_gt; [change 25 with (IZR 25); apply F32_int; lia | exact Fy | exact C]). lra.
Qed.

(** for the 24-bit prefixes (n >= 2^23) the value is above 22 *)
Lemma lg_big x n : fin x = true -> b2r x = IZR n -> (2 ^ 23 <= n <= 2 ^ 24)%Z -> 22 < b2r (lg x).
Proof.
  intros Fx Ex Hn. destruct (lg_ok x n Fx Ex ltac:(lia)) as (_ & L & U).
  pose proof (F32_b2r (lg x)) as Fy. set (y := b2r (lg x)) in *.
  destruct (Rlt_or_le 22 y) as [ | C]; [assumption | exfalso].
  assert (F22 : F32 22) by (change 22 with (IZR 22); apply F32_int; lia).
  assert (S1 : succ32 y <= succ32 22) by (apply succ32_le; assumption).
  assert (S2 : succ32 22 <= 22 + / 2) by (apply succ32_le_lt; [exact F22 | change 22 with (IZR 22); apply F32_half; lia | lra]).
  assert (23 <= log2R (IZR n)).
  { change 23 with (IZR 23). rewrite <- (log2R_bpow 23). apply log2R_le; [apply bpow_gt_0 | ]. rewrite <- IZR_pow2 by lia. apply IZR_le; lia. }
  lra.
Qed.

Lemma shift_facts x : (2 ^ 24 <= x)%Z -> let k := (Z.log2 x + 1 - 24)%Z in let sh := Z.shiftr x k in
  (1 <= k)%Z /\ (2 ^ 23 <= sh < 2 ^ 24)%Z /\ (sh * 2 ^ k <= x < (sh + 1) * 2 ^ k)%Z.
Proof.
  intros Hx k sh. assert (L24 : (24 <= Z.log2 x)%Z) by (apply Z.log2_le_pow2; lia).
  pose proof (Z.log2_spec x ltac:(lia)) as [Lo Hi]. unfold sh. rewrite Z.shiftr_div_pow2 by lia.
  assert (P : (0 < 2 ^ k)%Z) by (apply Z.pow_pos_nonneg; lia).
  assert (E1 : (2 ^ Z.log2 x = 2 ^ 23 * 2 ^ k)%Z) by (rewrite <- Z.pow_add_r by lia; f_equal; lia).
  assert (E2 : (2 ^ Z.succ (Z.log2 x) = 2 ^ 24 * 2 ^ k)%Z) by (rewrite <- Z.pow_add_r by lia; f_equal; lia).
  split; [lia | ]. split.
  - split; [apply Z.div_le_lower_bound; lia | apply Z.div_lt_upper_bound; lia].
  - pose proof (Z.mul_div_le x (2 ^ k) P). pose proof (Z.mul_succ_div_gt x (2 ^ k) P). lia.
Qed.

Lemma log2R_scaled sh k : (0 < sh)%Z -> (0 <= k)%Z -> log2R (IZR (sh * 2 ^ k)) = log2R (IZR sh) + IZR k.
Proof.
  intros Hs Hk. rewrite mult_IZR, IZR_pow2 by lia. rewrite log2R_mult; [ | apply IZR_lt; lia | apply bpow_gt_0].
  rewrite log2R_bpow. reflexivity.
Qed.

Lemma is_pow2_spec x : (0 < x)%Z -> is_pow2 x = true -> x = (2 ^ Z.log2 x)%Z.
Proof. intros _ H. apply Z.eqb_eq. exact H. Qed.

Theorem u_log2_sound x : (1 <= x < 2 ^ 128)%Z ->
  encl 130 (fst (u_log2_bounds lg x)) (snd (u_log2_bounds lg x)) (log2R (IZR x)) /\
  ((2 <= x)%Z -> 0 <= b2r (fst (u_log2_bounds lg x))).
Proof.
  intros Hx. unfold u_log2_bounds. destruct (Z.eqb_spec x 0) as [ | _]; [lia | ].
  assert (Lb : (0 <= Z.log2 x < 128)%Z) by (split; [apply Z.log2_nonneg | apply Z.log2_lt_pow2; lia]).
  destruct (is_pow2 x) eqn:P2.
  { (* power of two: trailing_zeros as f32 *)
    apply is_pow2_spec in P2; [ | lia]. cbn [fst snd].
    destruct (f_of_Z_R (Z.log2 x)) as [V Fi]; [change (2 ^ 24)%Z with 16777216%Z; lia | ].
    assert (E : log2R (IZR x) = IZR (Z.log2 x)) by (rewrite P2 at 1; rewrite IZR_pow2 by lia; apply log2R_bpow).
    unfold encl. rewrite V, E. repeat split; try assumption; try lra.
    - apply Rle_trans with 0; [lra | apply IZR_le; lia].
    - apply IZR_le; lia.
    - intros _. apply IZR_le; lia. }
  destruct (Z.leb_spec (Z.log2 x + 1) 24) as [Small | Big].
  { (* at most 24 bits: log2 of the exact conversion, one step to each side *)
    cbn [fst snd].
    assert (X24 : (1 <= x <= 2 ^ 24)%Z) by (split; [lia | apply Z.lt_le_incl; apply Z.log2_lt_pow2; lia]).
    destruct (f_of_Z_R x) as [V Fi]; [lia | ].
    destruct (lg_ok _ x Fi V X24) as (Fy & L & U). pose proof (lg_range _ x Fi V X24) as [R1 R2].
    pose proof (F32_b2r (lg (f_of_Z x))) as Fy'. set (y := lg (f_of_Z x)) in *.
    assert (B1 : - 2 <= pred32 (b2r y)) by (replace (-2) with (- IZR 1 - 1) by lra; apply pred32_int_bound; [exact Fy' | lia | lra]).
    assert (B2 : succ32 (b2r y) <= 26) by (replace 26 with (IZR 25 + 1) by lra; apply succ32_int_bound; [exact Fy' | lia | lra]).
    pose proof (small_lt_max 26 ltac:(lia)) as M.
    destruct (next_down_R y Fy) as [Vd Fd]; [lra | ].
    destruct (next_up_R y Fy) as [Vu Fu]; [lra | ].
    unfold encl. rewrite Vd, Vu. repeat split; try assumption; try lra.
    intros X2. assert (X3 : (3 <= x)%Z).
    { destruct (Z.eq_dec x 2) as [-> | ]; [ | lia]. unfold is_pow2 in P2. change (Z.log2 2) with 1%Z in P2. discriminate. }
    assert (1 <= log2R (IZR x)).
    { change 1 with (IZR 1). rewrite <- (log2R_bpow 1). apply log2R_le; [apply bpow_gt_0 | ]. change (p2 1) with 2. apply IZR_le; lia. }
    apply pred32_ge_gt; [apply F32_0 | exact Fy' | ].
    destruct (Rlt_or_le 0 (b2r y)) as [ | C]; [assumption | exfalso].
    assert (succ32 (b2r y) <= / 2).
    { apply succ32_le_lt; [exact Fy' | replace (/ 2) with (IZR 0 + / 2) by lra; apply F32_half; lia | lra]. }
    lra. }
  (* more than 24 bits *)
  cbn [fst snd].
  assert (X24 : (2 ^ 24 <= x)%Z).
  { destruct (Z.le_gt_cases (2 ^ 24) x) as [ | C]; [assumption | ]. assert (Z.log2 x < 24)%Z by (apply Z.log2_lt_pow2; lia). lia. }
  destruct (shift_facts x X24) as (K1 & SH & XB). set (k := (Z.log2 x + 1 - 24)%Z) in *. set (sh := Z.shiftr x k) in *.
  assert (K2 : (k <= 104)%Z) by (unfold k; lia).
  destruct (f_of_Z_R sh) as [Vs Fs]; [lia | ].
  destruct (f_of_Z_R 1) as [V1 F1]; [change (2 ^ 24)%Z with 16777216%Z; lia | ].
  destruct (f_of_Z_R k) as [Vk Fk]; [change (2 ^ 24)%Z with 16777216%Z; lia | ].
  assert (Fsh1 : F32 (IZR (sh + 1))) by (apply F32_int; lia).
  destruct (f_add_R (f_of_Z sh) f_one Fs F1) as [Vs1 Fs1].
  { unfold f_one. rewrite Vs, V1, <- plus_IZR. rewrite rnd32_id by exact Fsh1. rewrite <- abs_IZR. apply small_lt_max. lia. }
  unfold f_one in Vs1. rewrite Vs, V1, <- plus_IZR in Vs1. rewrite rnd32_id in Vs1 by exact Fsh1.
  (* lower estimate *)
  destruct (lg_ok _ sh Fs Vs ltac:(lia)) as (Fl & Ll & _). pose proof (lg_range _ sh Fs Vs ltac:(lia)) as [_ Rl2].
  pose proof (lg_big _ sh Fs Vs ltac:(lia)) as Rl1. pose proof (F32_b2r (lg (f_of_Z sh))) as Fel. set (el := lg (f_of_Z sh)) in *.
  (* upper estimate *)
  destruct (lg_ok _ (sh + 1)%Z Fs1 Vs1 ltac:(lia)) as (Fu & _ & Uu). pose proof (lg_range _ (sh + 1)%Z Fs1 Vs1 ltac:(lia)) as [_ Ru2].
  pose proof (lg_big _ (sh + 1)%Z Fs1 Vs1 ltac:(lia)) as Ru1. pose proof (F32_b2r (lg (f_add (f_of_Z sh) f_one))) as Feu.
  set (eu := lg (f_add (f_of_Z sh) f_one)) in *.
  assert (Kr : 1 <= IZR k <= 104) by (split; apply IZR_le; lia).
  pose proof (small_lt_max 131 ltac:(lia)) as M.
  (* the two sums *)
  assert (Al : Rabs (rnd32 (b2r el + b2r (f_of_Z k))) <= IZR 129) by (apply rnd_abs_le; [lia | rewrite Vk; apply Rabs_le; lra]).
  assert (Au : Rabs (rnd32 (b2r eu + b2r (f_of_Z k))) <= IZR 129) by (apply rnd_abs_le; [lia | rewrite Vk; apply Rabs_le; lra]).
  destruct (f_add_R el (f_of_Z k) Fl Fk) as [Vsl Fsl]; [lra | ].
  destruct (f_add_R eu (f_of_Z k) Fu Fk) as [Vsu Fsu]; [lra | ].
  rewrite Vk in Vsl, Vsu, Al, Au.
  apply Rabs_le_inv in Al, Au.
  assert (Bl : - 130 <= pred32 (rnd32 (b2r el + IZR k))).
  { replace (-130) with (- IZR 129 - 1) by lra. apply pred32_int_bound; [apply F32_rnd | lia | lra]. }
  assert (Bu : succ32 (rnd32 (b2r eu + IZR k)) <= 130).
  { replace 130 with (IZR 129 + 1) by lra. apply succ32_int_bound; [apply F32_rnd | lia | lra]. }
  destruct (next_down_R _ Fsl) as [Vd Fd]; [rewrite Vsl; lra | ].
  destruct (next_up_R _ Fsu) as [Vu Fu']; [rewrite Vsu; lra | ].
  (* the enclosures *)
  assert (Lo : pred32 (rnd32 (b2r el + IZR k)) <= log2R (IZR x)).
  { set (p := pred32 (b2r el)) in *.
    assert (P22 : 22 <= p) by (apply pred32_ge_gt; [change 22 with (IZR 22); apply F32_int; lia | exact Fel | exact Rl1]).
    assert (Pf : F32 p) by (apply F32_pred; exact Fel).
    assert (Ps : succ32 p = b2r el) by (apply succ_pred; [apply FLT_exp_valid; exact Hprec32 | exact Fel]).
    assert (Pc : (cexp32 p <= 0)%Z).
    { apply cexp32_small; [lra | ]. pose proof (pred32_le_id (b2r el)). fold p in H. rewrite Rabs_pos_eq by lra.
      apply Rle_lt_trans with 25; [lra | ]. change 25 with (IZR 25). rewrite <- IZR_pow2 by lia. apply IZR_lt. lia. }
    pose proof (shift_lower p k Pf ltac:(lra) Pc ltac:(lia)) as S. rewrite Ps in S.
    apply Rle_trans with (p + IZR k); [exact S | ].
    apply Rle_trans with (log2R (IZR sh) + IZR k); [lra | ].
    rewrite <- log2R_scaled by lia. apply log2R_le; [apply IZR_lt; nia | apply IZR_le; lia]. }
  assert (Hi : log2R (IZR x) <= succ32 (rnd32 (b2r eu + IZR k))).
  { assert (Pc : (cexp32 (b2r eu) <= 0)%Z).
    { apply cexp32_small; [lra | ]. rewrite Rabs_pos_eq by lra.
      apply Rle_lt_trans with 25; [lra | ]. change 25 with (IZR 25). rewrite <- IZR_pow2 by lia. apply IZR_lt. lia. }
    pose proof (shift_upper (b2r eu) k Feu ltac:(lra) Pc ltac:(lia)) as S.
    apply Rle_trans with (succ32 (b2r eu) + IZR k); [ | exact S].
    apply Rle_trans with (log2R (IZR (sh + 1)) + IZR k); [ | lra].
    rewrite <- log2R_scaled by lia. apply log2R_le; [apply IZR_lt; lia | apply IZR_le; lia]. }
  unfold encl. rewrite Vd, Vu, Vsl, Vsu. repeat split; try assumption; try lra.
  intros _. apply pred32_ge_gt; [apply F32_0 | apply F32_rnd | ].
  apply Rlt_le_trans with (IZR 23); [lra | ]. rewrite <- (rnd32_id (IZR 23)) by (apply F32_int; lia). apply rnd32_le. lra.
Qed.
End Libm.

(* ================================================================================================
   outward steps after a rounding, with magnitudes bounded by powers of two
   ================================================================================================ *)
Lemma F32_bpow m : (-149 <= m <= 127)%Z -> F32 (p2 m).
Proof. intros H. apply generic_format_bpow. unfold FLT_exp. lia. Qed.
Lemma bnd_rnd z m : (-149 <= m <= 127)%Z -> Rabs z <= p2 m -> Rabs (rnd32 z) <= p2 m.
Proof. intros Hm H. apply abs_round_le_generic; [apply FLT_exp_valid; exact Hprec32 | typeclasses eauto | apply F32_bpow; exact Hm | exact H]. Qed.
Lemma bnd_succ x m : F32 x -> (-149 <= m <= 126)%Z -> x <= p2 m -> succ32 x <= p2 (m + 1).
Proof.
  intros Fx Hm H. apply Rle_trans with (succ32 (p2 m)); [apply succ32_le; [exact Fx | apply F32_bpow; lia | exact H] | ].
  apply succ32_le_lt; [apply F32_bpow; lia | apply F32_bpow; lia | apply bpow_lt; lia].
Qed.
Lemma bnd_pred x m : F32 x -> (-149 <= m <= 126)%Z -> - p2 m <= x -> - p2 (m + 1) <= pred32 x.
Proof.
  intros Fx Hm H. apply Rle_trans with (pred32 (- p2 m)); [ | apply pred32_le; [apply generic_format_opp; apply F32_bpow; lia | exact Fx | exact H]].
  apply pred32_ge_gt; [apply generic_format_opp; apply F32_bpow; lia | apply generic_format_opp; apply F32_bpow; lia | ].
  apply Ropp_lt_contravar. apply bpow_lt. lia.
Qed.
Lemma p2_mono a b : (a <= b)%Z -> p2 a <= p2 b.
Proof. apply bpow_le. Qed.
Lemma p2_lt_max m : (m <= 127)%Z -> p2 m < p2 128.
Proof. intros. apply bpow_lt. lia. Qed.

Definition bd (m : Z) (a : f32) : Prop := fin a = true /\ Rabs (b2r a) <= p2 m.

Lemma step_dn r z m : fin r = true -> b2r r = rnd32 z -> Rabs z <= p2 m -> (-149 <= m <= 125)%Z ->
  bd (m + 1) (next_down r) /\ b2r (next_down r) <= z.
Proof.
  intros Fr Er Hz Hm. pose proof (bnd_rnd z m ltac:(lia) Hz) as Hr. apply Rabs_le_inv in Hr.
  pose proof (bnd_pred (rnd32 z) m (F32_rnd z) ltac:(lia) ltac:(lra)) as Hp.
  pose proof (p2_lt_max (m + 1) ltac:(lia)). pose proof (pred32_le_id (rnd32 z)).
  pose proof (p2_mono m (m + 1) ltac:(lia)).
  destruct (next_down_R r Fr) as [V Fi]; [rewrite Er; lra | ]. rewrite V, Er. split; [split; [exact Fi | ] | apply pred_rnd_le].
  rewrite V, Er. apply Rabs_le. lra.
Qed.
Lemma step_up r z m : fin r = true -> b2r r = rnd32 z -> Rabs z <= p2 m -> (-149 <= m <= 125)%Z ->
  bd (m + 1) (next_up r) /\ z <= b2r (next_up r).
Proof.
  intros Fr Er Hz Hm. pose proof (bnd_rnd z m ltac:(lia) Hz) as Hr. apply Rabs_le_inv in Hr.
  pose proof (bnd_succ (rnd32 z) m (F32_rnd z) ltac:(lia) ltac:(lra)) as Hp.
  pose proof (p2_lt_max (m + 1) ltac:(lia)). pose proof (succ32_ge_id (rnd32 z)).
  pose proof (p2_mono m (m + 1) ltac:(lia)).
  destruct (next_up_R r Fr) as [V Fi]; [rewrite Er; lra | ]. rewrite V, Er. split; [split; [exact Fi | ] | apply succ_rnd_ge].
  rewrite V, Er. apply Rabs_le. lra.
Qed.

Lemma abs_add_le a b m : Rabs a <= p2 m -> Rabs b <= p2 m -> Rabs (a + b) <= p2 (m + 1).
Proof.
  intros Ha Hb. replace (p2 (m + 1)) with (p2 m + p2 m) by (rewrite bpow_plus; simpl; lra).
  apply Rle_trans with (Rabs a + Rabs b); [apply Rabs_triang | lra].
Qed.
Lemma abs_sub_le a b m : Rabs a <= p2 m -> Rabs b <= p2 m -> Rabs (a - b) <= p2 (m + 1).
Proof. intros Ha Hb. unfold Rminus. apply abs_add_le; [exact Ha | rewrite Rabs_Ropp; exact Hb]. Qed.
Lemma abs_mul_le a b ma mb : Rabs a <= p2 ma -> Rabs b <= p2 mb -> Rabs (a * b) <= p2 (ma + mb).
Proof.
  intros Ha Hb. rewrite Rabs_mult, bpow_plus. apply Rmult_le_compat; try apply Rabs_pos; assumption.
Qed.

Lemma add_gen a b m : bd m a -> bd m b -> (-149 <= m <= 124)%Z ->
  fin (f_add a b) = true /\ b2r (f_add a b) = rnd32 (b2r a + b2r b) /\ Rabs (b2r a + b2r b) <= p2 (m + 1).
Proof.
  intros [Fa Ha] [Fb Hb] Hm. pose proof (abs_add_le _ _ m Ha Hb) as Hs.
  destruct (f_add_R a b Fa Fb) as [V Fi].
  { apply Rle_lt_trans with (p2 (m + 1)); [apply bnd_rnd; [lia | exact Hs] | apply p2_lt_max; lia]. }
  repeat split; assumption.
Qed.
Lemma sub_gen a b m : bd m a -> bd m b -> (-149 <= m <= 124)%Z ->
  fin (f_sub a b) = true /\ b2r (f_sub a b) = rnd32 (b2r a - b2r b) /\ Rabs (b2r a - b2r b) <= p2 (m + 1).
Proof.
  intros [Fa Ha] [Fb Hb] Hm. pose proof (abs_sub_le _ _ m Ha Hb) as Hs.
  destruct (f_sub_R a b Fa Fb) as [V Fi].
  { apply Rle_lt_trans with (p2 (m + 1)); [apply bnd_rnd; [lia | exact Hs] | apply p2_lt_max; lia]. }
  repeat split; assumption.
Qed.
Lemma mul_gen a b ma mb : bd ma a -> bd mb b -> (-149 <= ma + mb <= 125)%Z ->
  fin (f_mul a b) = true /\ b2r (f_mul a b) = rnd32 (b2r a * b2r b) /\ Rabs (b2r a * b2r b) <= p2 (ma + mb).
Proof.
  intros [Fa Ha] [Fb Hb] Hm. pose proof (abs_mul_le _ _ ma mb Ha Hb) as Hs.
  destruct (f_mul_R a b Fa Fb) as [V Fi].
  { apply Rle_lt_trans with (p2 (ma + mb)); [apply bnd_rnd; [lia | exact Hs] | apply p2_lt_max; lia]. }
  repeat split; assumption.
Qed.
Lemma conv_gen e m : (Z.abs e <= 2 ^ m)%Z -> (0 <= m <= 125)%Z ->
  fin (f_of_Z e) = true /\ b2r (f_of_Z e) = rnd32 (IZR e) /\ Rabs (IZR e) <= p2 m.
Proof.
  intros He Hm. assert (Z.abs e <= 2 ^ 127)%Z by (assert (2 ^ m <= 2 ^ 127)%Z by (apply Z.pow_le_mono_r; lia); lia).
  destruct (f_of_Z_rnd e H) as [V Fi]. repeat split; try assumption.
  rewrite <- abs_IZR, <- IZR_pow2 by lia. apply IZR_le. exact He.
Qed.
Lemma bd_mono m m' a : (m <= m')%Z -> bd m a -> bd m' a.
Proof. intros H [Fa Ha]. split; [exact Fa | ]. pose proof (p2_mono m m' H). lra. Qed.
Lemma encl_bd M m lb ub v : encl M lb ub v -> IZR M <= p2 m -> bd m lb /\ bd m ub.
Proof.
  intros (F1 & F2 & (L & U) & B1 & B2) HM. split; (split; [assumption | apply Rabs_le; lra]).
Qed.

(* ================================================================================================
   the estimators built on the unsigned one: UBig / IBig that fit a double word, rationals, floats, digits_ub
   ================================================================================================ *)
Lemma log2R_lt x y : 0 < x -> x < y -> log2R x < log2R y.
Proof.
  intros Hx H. unfold log2R. apply Rmult_lt_compat_r; [pose proof ln2_pos; apply Rinv_0_lt_compat; lra | ].
  apply ln_increasing; lra.
Qed.
Lemma log2R_Zpow b k : (0 < b)%Z -> (0 <= k)%Z -> log2R (IZR (b ^ k)) = IZR k * log2R (IZR b).
Proof.
  intros Hb Hk. rewrite <- (Z2Nat.id k) at 1 by exact Hk. rewrite <- pow_IZR. apply log2R_pow; [exact Hk | apply IZR_lt; exact Hb].
Qed.

Section Libm2.
Variable lg : f32 -> f32.
Hypothesis lg_ok : lg_contract lg.
Variable w : Z.
Hypothesis Hw : (8 <= w <= 64)%Z.

Lemma dword_le : (2 ^ (2 * w) <= 2 ^ 128)%Z.
Proof. apply Z.pow_le_mono_r; lia. Qed.

(** the lower bound of a number >= 2 is at least 1/2 (used for the sign reasoning and the division of digits_ub) *)
Lemma u_log2_lb_half x : (2 <= x < 2 ^ 128)%Z -> / 2 <= b2r (fst (u_log2_bounds lg x)).
Proof.
  intros Hx. destruct (u_log2_sound lg lg_ok x ltac:(lia)) as [(F1 & F2 & (L & U) & B1 & B2) NN].
  unfold u_log2_bounds in *. destruct (Z.eqb_spec x 0) as [ | _]; [lia | ].
  destruct (is_pow2 x) eqn:P2.
  { cbn [fst snd] in *. apply is_pow2_spec in P2; [ | lia].
    assert (1 <= Z.log2 x)%Z by (apply Z.log2_le_pow2; lia).
    destruct (f_of_Z_R (Z.log2 x)) as [V _].
    { assert (Z.log2 x < 128)%Z by (apply Z.log2_lt_pow2; lia). change (2 ^ 24)%Z with 16777216%Z; lia. }
    rewrite V. apply Rle_trans with 1; [lra | apply IZR_le; lia]. }
  destruct (Z.leb_spec (Z.log2 x + 1) 24) as [Small | Big]; cbn [fst snd] in *.
  - assert (X3 : (3 <= x)%Z).
    { destruct (Z.eq_dec x 2) as [-> | ]; [ | lia]. unfold is_pow2 in P2. change (Z.log2 2) with 1%Z in P2. discriminate. }
    assert (X24 : (1 <= x <= 2 ^ 24)%Z) by (split; [lia | apply Z.lt_le_incl; apply Z.log2_lt_pow2; lia]).
    destruct (f_of_Z_R x) as [V Fi]; [lia | ].
    destruct (lg_ok _ x Fi V X24) as (Fy & Ly & Uy). pose proof (F32_b2r (lg (f_of_Z x))) as Fy'. set (y := lg (f_of_Z x)) in *.
    assert (1 < log2R (IZR x)).
    { change 1 with (IZR 1). rewrite <- (log2R_bpow 1). apply log2R_lt; [apply bpow_gt_0 | ]. change (p2 1) with 2. apply IZR_lt; lia. }
    assert (Fh : F32 (/ 2)) by (replace (/ 2) with (IZR 0 + / 2) by lra; apply F32_half; lia).
    destruct (next_down_R y Fy) as [Vd _].
    { pose proof (lg_range lg lg_ok _ x Fi V X24) as [R1 R2]. fold y in R1, R2. pose proof (pred32_int_bound (b2r y) 1 Fy' ltac:(lia) ltac:(lra)). pose proof (small_lt_max 3 ltac:(lia)). lra. }
    rewrite Vd. apply pred32_ge_gt; [exact Fh | exact Fy' | ].
    destruct (Rlt_or_le (/ 2) (b2r y)) as [ | C]; [assumption | exfalso].
    assert (succ32 (b2r y) <= succ32 (/ 2)) by (apply succ32_le; assumption).
    assert (succ32 (/ 2) <= 1) by (apply succ32_le_lt; [exact Fh | change 1 with (IZR 1); apply F32_int; lia | lra]).
    lra.
  - assert (X24 : (2 ^ 24 <= x)%Z).
    { destruct (Z.le_gt_cases (2 ^ 24) x) as [ | C]; [assumption | ]. assert (Z.log2 x < 24)%Z by (apply Z.log2_lt_pow2; lia). lia. }
    (* the value is above 22 (shown inside u_log2_sound); recover it from the enclosure of a number >= 2^24 *)
    destruct (shift_facts x X24) as (K1 & SH & XB). set (k := (Z.log2 x + 1 - 24)%Z) in *. set (sh := Z.shiftr x k) in *.
    destruct (f_of_Z_R sh) as [Vs Fs]; [lia | ].
    destruct (f_of_Z_R k) as [Vk Fk]; [assert (Z.log2 x < 128)%Z by (apply Z.log2_lt_pow2; lia); unfold k; change (2 ^ 24)%Z with 16777216%Z; lia | ].
    destruct (lg_ok _ sh Fs Vs ltac:(lia)) as (Fl & _ & _). pose proof (lg_range lg lg_ok _ sh Fs Vs ltac:(lia)) as [_ Rl2].
    pose proof (lg_big lg lg_ok _ sh Fs Vs ltac:(lia)) as Rl1. set (el := lg (f_of_Z sh)) in *.
    assert (Kr : 1 <= IZR k <= 104) by (assert (Z.log2 x < 128)%Z by (apply Z.log2_lt_pow2; lia); split; apply IZR_le; unfold k; lia).
    destruct (f_add_R el (f_of_Z k) Fl Fk) as [Vsl Fsl].
    { rewrite Vk. apply Rle_lt_trans with (IZR 129); [apply rnd_abs_le; [lia | apply Rabs_le; lra] | apply small_lt_max; lia]. }
    rewrite Vk in Vsl.
    assert (G : IZR 23 <= rnd32 (b2r el + IZR k)).
    { rewrite <- (rnd32_id (IZR 23)) by (apply F32_int; lia). apply rnd32_le. lra. }
    destruct (next_down_R _ Fsl) as [Vd _].
    { rewrite Vsl. pose proof (pred32_int_bound (rnd32 (b2r el + IZR k)) 1 (F32_rnd _) ltac:(lia) ltac:(lra)). pose proof (small_lt_max 3 ltac:(lia)). lra. }
    rewrite Vd, Vsl. apply Rle_trans with (IZR 22); [lra | ].
    apply pred32_ge_gt; [apply F32_int; lia | apply F32_rnd | lra].
Qed.

Lemma ubig_small x : (x < 2 ^ (2 * w))%Z -> ubig_log2_bounds lg w x = u_log2_bounds lg x.
Proof. intros H. unfold ubig_log2_bounds. destruct (Z.ltb_spec x (2 ^ (2 * w))); [reflexivity | lia]. Qed.

Lemma ibig_small_sound z : z <> 0%Z -> (Z.abs z < 2 ^ (2 * w))%Z ->
  encl 130 (fst (ibig_log2_bounds lg w z)) (snd (ibig_log2_bounds lg w z)) (log2R (IZR (Z.abs z))).
Proof.
  intros Nz Hz. unfold ibig_log2_bounds. rewrite ubig_small by exact Hz. pose proof dword_le.
  apply (u_log2_sound lg lg_ok). lia.
Qed.

Lemma p2_8 : IZR 130 <= p2 8.
Proof. change (p2 8) with (IZR 256). apply IZR_le. lia. Qed.

(** rational/src/repr.rs log2_bounds *)
Theorem q_log2_sound n d : n <> 0%Z -> (0 < d)%Z -> (Z.abs n < 2 ^ (2 * w))%Z -> (d < 2 ^ (2 * w))%Z ->
  let b := q_log2_bounds lg w n d in
  fin (fst b) = true /\ fin (snd b) = true /\ b2r (fst b) <= log2R (IZR (Z.abs n) / IZR d) <= b2r (snd b).
Proof.
  intros Nn Hd Hn Hd2. unfold q_log2_bounds. destruct (Z.eqb_spec n 0) as [ | _]; [contradiction | ].
  pose proof (ibig_small_sound n Nn Hn) as En.
  pose proof (ibig_small_sound d ltac:(lia) ltac:(rewrite Z.abs_eq by lia; exact Hd2)) as Ed.
  unfold ibig_log2_bounds in Ed at 1 2. rewrite (Z.abs_eq d) in Ed by lia.
  destruct (ibig_log2_bounds lg w n) as [n_lb n_ub]. destruct (ubig_log2_bounds lg w d) as [d_lb d_ub]. cbn [fst snd] in *.
  destruct (encl_bd _ 8 _ _ _ En p2_8) as [Bnl Bnu]. destruct (encl_bd _ 8 _ _ _ Ed p2_8) as [Bdl Bdu].
  destruct En as (_ & _ & (Ln & Un) & _). destruct Ed as (_ & _ & (Ld & Ud) & _).
  rewrite log2R_div by (apply IZR_lt; lia).
  destruct (sub_gen n_lb d_ub 8 Bnl Bdu ltac:(lia)) as (F1 & V1 & A1).
  destruct (sub_gen n_ub d_lb 8 Bnu Bdl ltac:(lia)) as (F2 & V2 & A2).
  destruct (step_dn _ _ 9 F1 V1 A1 ltac:(lia)) as [[Fd _] Ld'].
  destruct (step_up _ _ 9 F2 V2 A2 ltac:(lia)) as [[Fu _] Uu'].
  repeat split; try assumption; lra.
Qed.

Lemma base_bounds_eq B : B <> 0%Z -> base_log2_bounds lg B = u_log2_bounds lg B.
Proof.
  intros NB. unfold base_log2_bounds, u_log2_bounds. destruct (Z.eqb_spec B 0) as [ | _]; [contradiction | ].
  destruct (is_pow2 B); reflexivity.
Qed.

(** float/src/log.rs log2_bounds (the repaired code: an outward step after each of the three roundings) *)
Theorem f_log2_sound B s e : (2 <= B < 2 ^ 128)%Z -> s <> 0%Z -> (Z.abs s < 2 ^ (2 * w))%Z -> (Z.abs e <= 2 ^ 63)%Z ->
  let b := f_log2_bounds lg w B s e in
  fin (fst b) = true /\ fin (snd b) = true /\
  b2r (fst b) <= log2R (IZR (Z.abs s)) + IZR e * log2R (IZR B) <= b2r (snd b).
Proof.
  intros HB Ns Hs He. unfold f_log2_bounds, f_log2_bounds_gen. destruct (Z.eqb_spec s 0) as [ | _]; [contradiction | ].
  pose proof (ibig_small_sound s Ns Hs) as Es. rewrite base_bounds_eq by lia.
  destruct (u_log2_sound lg lg_ok B ltac:(lia)) as [Eb _]. pose proof (u_log2_lb_half B HB) as Hh.
  destruct (ibig_log2_bounds lg w s) as [logs_lb logs_ub]. destruct (u_log2_bounds lg B) as [logb_lb logb_ub]. cbn [fst snd] in *.
  destruct (encl_bd _ 8 _ _ _ Es p2_8) as [Bsl Bsu]. destruct (encl_bd _ 8 _ _ _ Eb p2_8) as [Bbl Bbu].
  destruct Es as (_ & _ & (Ls & Us) & _). destruct Eb as (_ & _ & (Lb & Ub) & _).
  set (LS := log2R (IZR (Z.abs s))) in *. set (LB := log2R (IZR B)) in *. set (E := IZR e).
  destruct (conv_gen e 63 He ltac:(lia)) as (Fe & Ve & Ae). fold E in Ve, Ae.
  destruct (step_dn _ _ 63 Fe Ve Ae ltac:(lia)) as [Bel Lel]. destruct (step_up _ _ 63 Fe Ve Ae ltac:(lia)) as [Beu Leu].
  set (e_lb := next_down (f_of_Z e)) in *. set (e_ub := next_up (f_of_Z e)) in *.
  apply (bd_mono 8 73) in Bsl, Bsu; try lia.
  destruct (Z.leb_spec 0 e) as [Pos | Neg].
  - assert (0 <= E) by (apply IZR_le; exact Pos).
    destruct (mul_gen e_lb logb_lb 64 8 Bel Bbl ltac:(lia)) as (F1 & V1 & A1).
    destruct (mul_gen e_ub logb_ub 64 8 Beu Bbu ltac:(lia)) as (F2 & V2 & A2).
    destruct (step_dn _ _ 72 F1 V1 A1 ltac:(lia)) as [Bp1 Lp1]. destruct (step_up _ _ 72 F2 V2 A2 ltac:(lia)) as [Bp2 Lp2].
    destruct (add_gen logs_lb _ 73 Bsl Bp1 ltac:(lia)) as (F3 & V3 & A3).
    destruct (add_gen logs_ub _ 73 Bsu Bp2 ltac:(lia)) as (F4 & V4 & A4).
    destruct (step_dn _ _ 74 F3 V3 A3 ltac:(lia)) as [[Fd _] Ld]. destruct (step_up _ _ 74 F4 V4 A4 ltac:(lia)) as [[Fu _] Lu].
    cbn [fst snd]. repeat split; try assumption.
    + apply Rle_trans with (1 := Ld). apply Rplus_le_compat; [exact Ls | ]. apply Rle_trans with (1 := Lp1).
      assert (0 <= (E - b2r e_lb) * b2r logb_lb) by (apply Rmult_le_pos; lra).
      assert (0 <= E * (LB - b2r logb_lb)) by (apply Rmult_le_pos; lra). lra.
    + apply Rle_trans with (2 := Lu). apply Rplus_le_compat; [exact Us | ]. apply Rle_trans with (2 := Lp2).
      assert (0 <= (b2r e_ub - E) * b2r logb_ub) by (apply Rmult_le_pos; lra).
      assert (0 <= E * (b2r logb_ub - LB)) by (apply Rmult_le_pos; lra). lra.
  - assert (E < 0) by (apply IZR_lt; exact Neg).
    destruct (mul_gen e_lb logb_ub 64 8 Bel Bbu ltac:(lia)) as (F1 & V1 & A1).
    destruct (mul_gen e_ub logb_lb 64 8 Beu Bbl ltac:(lia)) as (F2 & V2 & A2).
    destruct (step_dn _ _ 72 F1 V1 A1 ltac:(lia)) as [Bp1 Lp1]. destruct (step_up _ _ 72 F2 V2 A2 ltac:(lia)) as [Bp2 Lp2].
    destruct (add_gen logs_lb _ 73 Bsl Bp1 ltac:(lia)) as (F3 & V3 & A3).
    destruct (add_gen logs_ub _ 73 Bsu Bp2 ltac:(lia)) as (F4 & V4 & A4).
    destruct (step_dn _ _ 74 F3 V3 A3 ltac:(lia)) as [[Fd _] Ld]. destruct (step_up _ _ 74 F4 V4 A4 ltac:(lia)) as [[Fu _] Lu].
    cbn [fst snd]. repeat split; try assumption.
    + apply Rle_trans with (1 := Ld). apply Rplus_le_compat; [exact Ls | ]. apply Rle_trans with (1 := Lp1).
      assert (0 <= (E - b2r e_lb) * b2r logb_ub) by (apply Rmult_le_pos; lra).
      assert (0 <= (- E) * (b2r logb_ub - LB)) by (apply Rmult_le_pos; lra). lra.
    + apply Rle_trans with (2 := Lu). apply Rplus_le_compat; [exact Us | ]. apply Rle_trans with (2 := Lp2).
      assert (0 <= (b2r e_ub - E) * b2r logb_lb) by (apply Rmult_le_pos; lra).
      assert (0 <= (- E) * (LB - b2r logb_lb)) by (apply Rmult_le_pos; lra). lra.
Qed.
End Libm2.

(* ================================================================================================
   Repr::digits_ub
   ================================================================================================ *)
(** core::f32::consts::LOG10_2 is not below log10(2) (CoqInterval) *)
Lemma log10_2_const : 1 <= 10100891 / 33554432 * (ln 10 / ln 2).
Proof. exact Float.Log10Const.log10_2_f32_const. Qed.

Lemma c_log10_2_R : b2r c_log10_2 = 10100891 / 33554432 /\ fin c_log10_2 = true.
Proof.
  assert (E : F2R (Float radix2 10100891 (-25)) = 10100891 / 33554432) by (unfold F2R; cbn [Fnum Fexp]; simpl; lra).
  unfold c_log10_2. rewrite <- E. apply f_dyadic_R.
  - apply F32_dyadic; [change (2 ^ 24)%Z with 16777216%Z; simpl; lia | lia].
  - rewrite E. rewrite Rabs_pos_eq by lra. apply Rlt_trans with (IZR 1); [lra | apply small_lt_max; lia].
Qed.

Lemma trunc_FIX0 x : round radix2 (FIX_exp 0) Ztrunc x = IZR (Ztrunc x).
Proof. unfold round, F2R, scaled_mantissa, cexp, FIX_exp; cbn [Fnum Fexp]. simpl. rewrite !Rmult_1_r. reflexivity. Qed.

Lemma to_usize_ge a D : fin a = true -> (0 <= D < 2 ^ 64)%Z -> IZR D <= b2r a -> (D <= f_to_usize 64 a)%Z.
Proof.
  intros Fa HD H.
  assert (T : (D <= Btrunc a)%Z).
  { apply le_IZR. rewrite (Btrunc_correct 24 128 Hmax32), trunc_FIX0. apply IZR_le. rewrite <- (Ztrunc_IZR D). apply Ztrunc_le. exact H. }
  unfold f_to_usize. destruct a; try discriminate; lia.
Qed.

Section Libm3.
Variable lg : f32 -> f32.
Hypothesis lg_ok : lg_contract lg.
Variable w : Z.
Hypothesis Hw : (8 <= w <= 64)%Z.

Theorem digits_ub_sound B s : (2 <= B < 2 ^ (2 * w))%Z -> s <> 0%Z -> (Z.abs s < 2 ^ (2 * w))%Z ->
  (Z.abs s < B ^ digits_ub32 lg 64 w B s)%Z.
Proof.
  intros HB Ns Hs. pose proof (dword_le w Hw) as DW. unfold digits_ub32. destruct (Z.eqb_spec s 0) as [ | _]; [contradiction | ].
  pose proof (ibig_small_sound lg lg_ok w Hw s Ns Hs) as Es.
  destruct (u_log2_sound lg lg_ok B ltac:(lia)) as [Eb _]. pose proof (u_log2_lb_half lg lg_ok B ltac:(lia)) as Hh.
  destruct (encl_bd _ 8 _ _ _ Es p2_8) as [_ Bsu]. destruct (encl_bd _ 8 _ _ _ Eb p2_8) as [Bbl _].
  destruct Es as (_ & Fub & (_ & Us) & _ & Mub). destruct Eb as (Fbl & _ & (Lb & _) & _).
  set (ub := snd (ibig_log2_bounds lg w s)) in *. set (lbB := fst (u_log2_bounds lg B)) in *.
  set (LS := log2R (IZR (Z.abs s))) in *. set (LB := log2R (IZR B)) in *.
  assert (LS0 : 0 <= LS) by (unfold LS; rewrite <- log2R_1; apply log2R_le; [lra | apply IZR_le; lia]).
  set (log := if (B =? 2)%Z then ub else if (B =? 10)%Z then f_mul ub c_log10_2 else f_div ub lbB).
  assert (K : fin log = true /\ forall D, (0 <= D <= 2 ^ 24)%Z -> IZR D * LB <= LS -> IZR D <= b2r log).
  { unfold log. destruct (Z.eqb_spec B 2) as [E2 | N2]; [ | destruct (Z.eqb_spec B 10) as [E10 | N10]].
    - split; [exact Fub | ]. intros D HD H. assert (LB = 1).
      { unfold LB. rewrite E2. change 2 with (p2 1). rewrite log2R_bpow. reflexivity. }
      rewrite H0 in H. lra.
    - destruct c_log10_2_R as [Vc Fc].
      assert (Bc : bd 0 c_log10_2) by (split; [exact Fc | rewrite Vc, Rabs_pos_eq by lra; simpl; lra]).
      destruct (mul_gen ub c_log10_2 8 0 Bsu Bc ltac:(lia)) as (Fm & Vm & _). split; [exact Fm | ].
      intros D HD H. rewrite Vm, Vc. rewrite <- (rnd32_id (IZR D)) by (apply F32_int; lia). apply rnd32_le.
      assert (LB = ln 10 / ln 2) by (unfold LB, log2R; rewrite E10; reflexivity).
      pose proof log10_2_const as C. rewrite <- H0 in C. assert (0 <= IZR D) by (apply IZR_le; lia).
      assert (IZR D <= IZR D * LB * (10100891 / 33554432)).
      { replace (IZR D * LB * (10100891 / 33554432)) with (IZR D * (10100891 / 33554432 * LB)) by ring.
        rewrite <- (Rmult_1_r (IZR D)) at 1. apply Rmult_le_compat_l; assumption. }
      apply Rle_trans with (1 := H2). apply Rmult_le_compat_r; lra.
    - assert (Nz : b2r lbB <> 0) by lra.
      assert (A : Rabs (b2r ub / b2r lbB) <= p2 9).
      { unfold Rdiv. rewrite Rabs_mult. replace (p2 9) with (p2 8 * 2) by (change 9%Z with (8 + 1)%Z; rewrite bpow_plus; change (p2 1) with 2; reflexivity). destruct Bsu as [_ Bsu].
        apply Rmult_le_compat; try apply Rabs_pos; [exact Bsu | ]. rewrite Rabs_inv. rewrite Rabs_pos_eq by lra.
        replace 2 with (/ / 2) by field. apply Rinv_le_contravar; lra. }
      destruct (f_div_R ub lbB Fub Nz) as [Vd Fd].
      { apply Rle_lt_trans with (p2 9); [apply bnd_rnd; [lia | exact A] | apply p2_lt_max; lia]. }
      split; [exact Fd | ]. intros D HD H. rewrite Vd. rewrite <- (rnd32_id (IZR D)) by (apply F32_int; lia). apply rnd32_le.
      assert (0 <= IZR D) by (apply IZR_le; lia).
      apply Rmult_le_reg_r with (b2r lbB); [lra | ]. unfold Rdiv. rewrite Rmult_assoc, Rinv_l, Rmult_1_r by exact Nz.
      apply Rle_trans with (IZR D * LB); [apply Rmult_le_compat_l; lra | lra]. }
  destruct K as [Fl K]. fold log. set (D := (f_to_usize 64 log + 1)%Z).
  destruct (Z.lt_ge_cases (Z.abs s) (B ^ D)) as [ | C]; [assumption | exfalso].
  assert (D0 : (0 <= f_to_usize 64 log)%Z) by (unfold f_to_usize; destruct log as [ | [ | ] | | ]; lia).
  assert (D128 : (D < 128)%Z).
  { apply (Z.pow_lt_mono_r_iff 2); [lia | lia | ]. apply Z.le_lt_trans with (B ^ D)%Z; [apply Z.pow_le_mono_l; lia | lia]. }
  assert (H : IZR D * LB <= LS).
  { unfold LB, LS. rewrite <- log2R_Zpow by lia. apply log2R_le; [apply IZR_lt; apply Z.pow_pos_nonneg; lia | apply IZR_le; exact C]. }
  pose proof (K D ltac:(change (2 ^ 24)%Z with 16777216%Z; lia) H) as G.
  pose proof (to_usize_ge log D Fl ltac:(change (2 ^ 64)%Z with 18446744073709551616%Z; lia) G). lia.
Qed.
End Libm3.

(* ================================================================================================
   non-vacuity: the correctly rounded logarithm satisfies the assumption
   ================================================================================================ *)
Definition lg_nearest (x : f32) : f32 :=
  let r := rnd32 (log2R (b2r x)) in
  f_dyadic (Ztrunc (scaled_mantissa radix2 fexp32 r)) (cexp32 r).

Lemma lg_nearest_ok : lg_contract lg_nearest.
Proof.
  intros x n Fx Ex Hn. unfold lg_nearest. rewrite Ex. set (v := log2R (IZR n)). set (r := rnd32 v).
  pose proof (log2R_int_range n Hn) as R. fold v in R.
  assert (Fr : F32 r) by apply F32_rnd.
  assert (E : F2R (Float radix2 (Ztrunc (scaled_mantissa radix2 fexp32 r)) (cexp32 r)) = r) by (symmetry; exact Fr).
  assert (A : Rabs r <= IZR 24) by (apply rnd_abs_le; [lia | apply Rabs_le; lra]).
  destruct (f_dyadic_R (Ztrunc (scaled_mantissa radix2 fexp32 r)) (cexp32 r)) as [V Fi].
  - rewrite E. exact Fr.
  - rewrite E. apply Rle_lt_trans with (1 := A). apply small_lt_max. lia.
  - rewrite V, E. split; [exact Fi | ]. split; [apply pred_rnd_le | apply succ_rnd_ge].
Qed.

Example lg_contract_inhabited : exists lg, lg_contract lg.
Proof. exists lg_nearest. exact lg_nearest_ok. Qed.
