(** C14: the estimator contract of XOrdProofs.v / XDispatchProofs.v is a THEOREM for the f32 code of the library
    (XLog2Model.v on Flocq's binary32), modulo the one assumption on libm ([lg_contract]).
    Consequence: NumOrd / AbsOrd between any two supported types, run with the library's own f32 estimates, return
    the order of the exact values - for operands whose integer parts fit a double word (the multi-word estimator
    log2_bounds_large is not covered here) and exponents of any isize value. *)
From Coq Require Import ZArith Reals Lia Lra Bool.
From Flocq Require Import Core IEEE754.BinarySingleNaN.
From Dashu Require Import Base.Prelude Cross.XVal Cross.XOrdModel Cross.XDispatch
  Cross.XOrdProofs Cross.XPrimProofs Cross.XRatioProofs Cross.XDispatchProofs Cross.XEstInstance
  Cross.XLog2Model Cross.XLog2Flocq Cross.XEstF32Model.
From Dashu Require Float.Contract.
Open Scope Z_scope.

(** interpretation of an f32 estimate of the magnitude n/d (n >= 0, d > 0): -inf is below, +inf above everything *)
Definition lo32 (a : f32) (x : Z * Z) : Prop :=
  a = f_ninf \/ (is_finite a = true /\ 0 < fst x /\ 0 < snd x /\ (B2R a <= log2R (IZR (fst x) / IZR (snd x)))%R).
Definition hi32 (b : f32) (y : Z * Z) : Prop :=
  0 <= fst y /\ 0 < snd y /\
  (b = f_pinf \/ (b = f_ninf /\ fst y = 0) \/
   (is_finite b = true /\ (fst y = 0 \/ (0 < fst y /\ (log2R (IZR (fst y) / IZR (snd y)) <= B2R b)%R)))).

Lemma ratio_lt_Z nx dx ny dy : 0 < dx -> 0 < dy -> (IZR ny / IZR dy < IZR nx / IZR dx)%R -> ny * dx < nx * dy.
Proof.
  intros Hx Hy H. apply lt_IZR. rewrite !mult_IZR.
  assert (0 < IZR dx)%R by (apply IZR_lt; lia). assert (0 < IZR dy)%R by (apply IZR_lt; lia).
  apply (Rmult_lt_compat_r (IZR dx * IZR dy)) in H; [ | apply Rmult_lt_0_compat; assumption].
  replace (IZR ny / IZR dy * (IZR dx * IZR dy))%R with (IZR ny * IZR dx)%R in H by (field; lra).
  replace (IZR nx / IZR dx * (IZR dx * IZR dy))%R with (IZR nx * IZR dy)%R in H by (field; lra).
  exact H.
Qed.

Lemma f_gt_sound a b x y : lo32 a x -> hi32 b y -> f_gt a b = true -> mlt y x.
Proof.
  intros L (Ny & Dy & H) G. unfold f_gt in G. unfold mlt.
  destruct L as [-> | (Fa & Nx & Dx & La)].
  { destruct b as [ | [ | ] | | ]; cbn in G; discriminate. }
  destruct H as [-> | [[-> Z0] | (Fb & H)]].
  - destruct a as [ | | | ]; try discriminate Fa; cbn in G; discriminate.
  - rewrite Z0. nia.
  - rewrite (Bcompare_correct 24 128 a b Fa Fb) in G.
    destruct (Rcompare_spec (B2R a) (B2R b)) as [ | | Gt]; try discriminate G.
    destruct H as [Z0 | [Py Hb]]; [rewrite Z0; nia | ].
    apply ratio_lt_Z; try assumption.
    apply log2R_lt_inv; [ | | lra].
    + apply Rdiv_lt_0_compat; apply IZR_lt; lia.
    + apply Rdiv_lt_0_compat; apply IZR_lt; lia.
Qed.

Section Inst.
Variable lg : f32 -> f32.
Hypothesis lg_ok : lg_contract lg.
Variable w : Z.
Hypothesis Hw : 8 <= w <= 64.

Definition small (z : Z) : bool := Z.abs z <? 2 ^ (2 * w).
Definition trivial_est : f32 * f32 := (f_ninf, f_pinf).

(** the library's estimators, guarded by the domain on which they are proved here *)
Definition ib32 (z : Z) : f32 * f32 := if small z then ibig_log2_bounds lg w z else trivial_est.
Definition fb32 (B s e : Z) : f32 * f32 :=
  if (B <? 2 ^ w) && small s && (Z.abs e <=? 2 ^ 63) then f_log2_bounds lg w B s e else trivial_est.
Definition qb32 (n d : Z) : f32 * f32 := if small n && small d then q_log2_bounds lg w n d else trivial_est.
Definition dub32 (B s : Z) : Z := if (B <? 2 ^ w) && small s then digits_ub32 lg 64 w B s else Contract.dlen B s.

Lemma trivial_ok x : 0 <= fst x -> 0 < snd x -> lo32 (fst trivial_est) x /\ hi32 (snd trivial_est) x.
Proof. intros. split; [left; reflexivity | repeat split; try assumption; left; reflexivity]. Qed.

Lemma zero_est_ok d : 0 < d -> lo32 f_ninf (0, d) /\ hi32 f_ninf (0, d).
Proof. intros. split; [left; reflexivity | ]. repeat split; cbn [fst snd]; try lia. right; left. split; reflexivity. Qed.

Lemma pow_w_le : 2 ^ w <= 2 ^ (2 * w).
Proof. apply Z.pow_le_mono_r; lia. Qed.

Lemma ib32_ok z : lo32 (fst (ib32 z)) (Z.abs z, 1) /\ hi32 (snd (ib32 z)) (Z.abs z, 1).
Proof.
  unfold ib32, small. destruct (Z.ltb_spec (Z.abs z) (2 ^ (2 * w))) as [S | _]; [ | apply trivial_ok; cbn; lia].
  destruct (Z.eq_dec z 0) as [-> | Nz].
  - unfold ibig_log2_bounds, ubig_log2_bounds. cbn [Z.abs]. assert (0 < 2 ^ (2 * w)) by (apply Z.pow_pos_nonneg; lia).
    destruct (Z.ltb_spec 0 (2 ^ (2 * w))); [ | lia]. cbn [u_log2_bounds Z.eqb fst snd]. apply zero_est_ok; lia.
  - destruct (ibig_small_sound lg lg_ok w Hw z Nz S) as (F1 & F2 & (L & U) & _).
    split.
    + right. cbn [fst snd]. repeat split; try assumption; try lia. unfold Rdiv. rewrite Rinv_1, Rmult_1_r. exact L.
    + repeat split; cbn [fst snd]; try lia. right; right. split; [exact F2 | right]. split; [lia | ].
      unfold Rdiv. rewrite Rinv_1, Rmult_1_r. exact U.
Qed.

Lemma qb32_ok n d : 0 < d -> lo32 (fst (qb32 n d)) (Z.abs n, d) /\ hi32 (snd (qb32 n d)) (Z.abs n, d).
Proof.
  intros Hd. unfold qb32, small.
  destruct (Z.ltb_spec (Z.abs n) (2 ^ (2 * w))) as [Sn | _]; [ | apply trivial_ok; cbn; lia].
  destruct (Z.ltb_spec (Z.abs d) (2 ^ (2 * w))) as [Sd | _]; [ | apply trivial_ok; cbn; lia]. cbn [andb].
  rewrite Z.abs_eq in Sd by lia.
  destruct (Z.eq_dec n 0) as [-> | Nn].
  - unfold q_log2_bounds. cbn [Z.eqb Z.abs fst snd]. apply zero_est_ok; exact Hd.
  - destruct (q_log2_sound lg lg_ok w Hw n d Nn Hd Sn Sd) as (F1 & F2 & L & U). split.
    + right. cbn [fst snd]. repeat split; try assumption; lia.
    + repeat split; cbn [fst snd]; try lia. right; right. split; [exact F2 | right]. split; [lia | exact U].
Qed.

Lemma fmag_log B s e : 2 <= B -> s <> 0 ->
  0 < fst (fmag B s e) /\ 0 < snd (fmag B s e) /\
  log2R (IZR (fst (fmag B s e)) / IZR (snd (fmag B s e))) = (log2R (IZR (Z.abs s)) + IZR e * log2R (IZR B))%R.
Proof.
  intros HB Ns. unfold fmag, fnum, fden. cbn [fst snd].
  assert (As : (0 < IZR (Z.abs s))%R) by (apply IZR_lt; lia).
  destruct (Z.leb_spec 0 e) as [P | N].
  - assert (0 < B ^ e) by (apply Z.pow_pos_nonneg; lia). rewrite Z.abs_mul, (Z.abs_eq (B ^ e)) by lia.
    split; [nia | ]. split; [lia | ]. unfold Rdiv. rewrite Rinv_1, Rmult_1_r. rewrite mult_IZR.
    rewrite log2R_mult by (try assumption; apply IZR_lt; lia). rewrite log2R_Zpow by lia. reflexivity.
  - assert (0 < B ^ (- e)) by (apply Z.pow_pos_nonneg; lia).
    split; [lia | ]. split; [lia | ]. rewrite log2R_div by (try assumption; apply IZR_lt; lia).
    rewrite log2R_Zpow by lia. rewrite opp_IZR. ring.
Qed.

Lemma fb32_ok B s e : 2 <= B -> f_is_inf s e = false ->
  lo32 (fst (fb32 B s e)) (fmag B s e) /\ hi32 (snd (fb32 B s e)) (fmag B s e).
Proof.
  intros HB Hinf. unfold fb32, small.
  assert (D : 0 < snd (fmag B s e)) by (unfold fmag; cbn [snd]; apply fden_pos; lia).
  assert (N : 0 <= fst (fmag B s e)) by (unfold fmag; cbn [fst]; lia).
  destruct (Z.ltb_spec B (2 ^ w)) as [SB | _]; [ | apply trivial_ok; assumption].
  destruct (Z.ltb_spec (Z.abs s) (2 ^ (2 * w))) as [Ss | _]; [ | apply trivial_ok; assumption].
  destruct (Z.leb_spec (Z.abs e) (2 ^ 63)) as [Se | _]; [ | apply trivial_ok; assumption]. cbn [andb].
  destruct (Z.eq_dec s 0) as [-> | Ns].
  - unfold f_log2_bounds, f_log2_bounds_gen. cbn [Z.eqb fst snd].
    assert (E : fmag B 0 e = (0, fden B e)).
    { unfold fmag. f_equal. rewrite (proj2 (fnum_zero B 0 e ltac:(lia)) eq_refl). reflexivity. }
    rewrite E. apply zero_est_ok. apply fden_pos; lia.
  - pose proof pow_w_le. pose proof (dword_le w Hw).
    destruct (f_log2_sound lg lg_ok w Hw B s e ltac:(lia) Ns Ss Se) as (F1 & F2 & L & U).
    destruct (fmag_log B s e HB Ns) as (P1 & P2 & EQ). split.
    + right. repeat split; try assumption. rewrite EQ. exact L.
    + repeat split; try assumption. right; right. split; [exact F2 | right]. split; [exact P1 | ]. rewrite EQ. exact U.
Qed.

Lemma dub32_ok B s : 2 <= B -> s <> 0 -> Z.abs s < B ^ dub32 B s.
Proof.
  intros HB Ns. unfold dub32, small.
  destruct (Z.ltb_spec B (2 ^ w)) as [SB | _]; [ | apply dlen_ok; assumption].
  destruct (Z.ltb_spec (Z.abs s) (2 ^ (2 * w))) as [Ss | _]; [ | apply dlen_ok; assumption]. cbn [andb].
  pose proof pow_w_le. apply (digits_ub_sound lg lg_ok w Hw); try assumption. lia.
Qed.

(** NumOrd / AbsOrd / PartialOrd with the f32 estimates of the library: the order of the exact values, all operands *)
Theorem ord_f32_correct a b r : wf a -> wf b ->
  ord_asis f32 f_gt ib32 fb32 qb32 a b = Some r -> r = spec_cmp (val a) (val b).
Proof. apply (ord_asis_correct f32 f_gt ib32 fb32 qb32 lo32 hi32 f_gt_sound ib32_ok fb32_ok qb32_ok). Qed.
Theorem abs_f32_correct a b c : wf a -> wf b ->
  abs_asis f32 f_gt ib32 fb32 qb32 dub32 a b = Some c -> Some c = spec_abs_cmp (val a) (val b).
Proof. apply (abs_asis_correct f32 f_gt ib32 fb32 qb32 dub32 lo32 hi32 f_gt_sound ib32_ok fb32_ok qb32_ok dub32_ok). Qed.
Theorem fsame_f32_correct B s1 e1 s2 e2 : 2 <= B -> fwf s1 e1 -> fwf s2 e2 ->
  Some (fsame_ord dub32 B s1 e1 s2 e2) = spec_cmp (fval B s1 e1) (fval B s2 e2).
Proof. apply (fsame_ord_correct dub32 dub32_ok). Qed.

(** on the proved domain the guards are the identity: the bodies run with the raw estimators of the library *)
Definition dom (t : tagged) : Prop :=
  match t with
  | TU z | TI z => Z.abs z < 2 ^ (2 * w)
  | TF B s e => B < 2 ^ w /\ Z.abs s < 2 ^ (2 * w) /\ Z.abs e <= 2 ^ 63
  | TQ n d => Z.abs n < 2 ^ (2 * w) /\ Z.abs d < 2 ^ (2 * w)
  | TP _ _ _ => True
  end.
Lemma ib32_dom z : Z.abs z < 2 ^ (2 * w) -> ib32 z = ibig_log2_bounds lg w z.
Proof. intros H. unfold ib32, small. destruct (Z.ltb_spec (Z.abs z) (2 ^ (2 * w))); [reflexivity | lia]. Qed.
Lemma qb32_dom n d : Z.abs n < 2 ^ (2 * w) -> Z.abs d < 2 ^ (2 * w) -> qb32 n d = q_log2_bounds lg w n d.
Proof.
  intros H1 H2. unfold qb32, small. destruct (Z.ltb_spec (Z.abs n) (2 ^ (2 * w))); [ | lia].
  destruct (Z.ltb_spec (Z.abs d) (2 ^ (2 * w))); [reflexivity | lia].
Qed.
Lemma fb32_dom B s e : B < 2 ^ w -> Z.abs s < 2 ^ (2 * w) -> Z.abs e <= 2 ^ 63 -> fb32 B s e = f_log2_bounds lg w B s e.
Proof.
  intros H1 H2 H3. unfold fb32, small. destruct (Z.ltb_spec B (2 ^ w)); [ | lia].
  destruct (Z.ltb_spec (Z.abs s) (2 ^ (2 * w))); [ | lia]. destruct (Z.leb_spec (Z.abs e) (2 ^ 63)); [reflexivity | lia].
Qed.
Lemma dub32_dom B s : B < 2 ^ w -> Z.abs s < 2 ^ (2 * w) -> dub32 B s = digits_ub32 lg 64 w B s.
Proof.
  intros H1 H2. unfold dub32, small. destruct (Z.ltb_spec B (2 ^ w)); [ | lia].
  destruct (Z.ltb_spec (Z.abs s) (2 ^ (2 * w))); [reflexivity | lia].
Qed.

Lemma ord_raw_eq a b : dom a -> dom b -> ord_raw lg w a b = ord_asis f32 f_gt ib32 fb32 qb32 a b.
Proof.
  unfold ord_raw. destruct a as [x | x | B1 s1 e1 | n1 d1 | mb1 eb1 w1], b as [y | y | B2 s2 e2 | n2 d2 | mb2 eb2 w2].
  all: cbn [dom].
  all: intros Da Db.
  all: repeat match goal with
    | H : _ /\ _ |- _ => lazymatch H with Hw => fail | _ => destruct H end
    end.
  all: unfold ord_asis.
  all: unfold repr_num_cmp, frepr_cmp_ubig, frepr_cmp_ibig, qrepr_cmp_ubig, qrepr_cmp_ibig, qrepr_cmp_fbig.
  all: rewrite ?ib32_dom by assumption.
  all: rewrite ?fb32_dom by assumption.
  all: rewrite ?qb32_dom by assumption.
  all: match goal with |- ?x = ?y => constr_eq x y; reflexivity end.
Qed.

(** THE result of this file: the transcribed NumOrd bodies, run with the transcribed f32 estimators of the library,
    return the order of the exact values *)
Theorem ord_raw_correct a b r : wf a -> wf b -> dom a -> dom b ->
  ord_raw lg w a b = Some r -> r = spec_cmp (val a) (val b).
Proof. intros Wa Wb Da Db H. rewrite (ord_raw_eq a b Da Db) in H. exact (ord_f32_correct a b r Wa Wb H). Qed.

Lemma abs_raw_eq a b : dom a -> dom b -> abs_raw lg w a b = abs_asis f32 f_gt ib32 fb32 qb32 dub32 a b.
Proof.
  unfold abs_raw. destruct a as [x | x | B1 s1 e1 | n1 d1 | mb1 eb1 w1], b as [y | y | B2 s2 e2 | n2 d2 | mb2 eb2 w2].
  all: cbn [dom].
  all: intros Da Db.
  all: repeat match goal with
    | H : _ /\ _ |- _ => lazymatch H with Hw => fail | _ => destruct H end
    end.
  all: unfold abs_asis.
  all: unfold fsame_cmp, frepr_cmp_ubig, frepr_cmp_ibig, qrepr_cmp_ubig, qrepr_cmp_ibig, qrepr_cmp_fbig.
  all: try (destruct (Z.eqb_spec B1 B2) as [<- | ]).
  all: rewrite ?ib32_dom by assumption.
  all: rewrite ?fb32_dom by assumption.
  all: rewrite ?qb32_dom by assumption.
  all: rewrite ?dub32_dom by assumption.
  all: match goal with |- ?x = ?y => constr_eq x y; reflexivity end.
Qed.

Theorem abs_raw_correct a b c : wf a -> wf b -> dom a -> dom b ->
  abs_raw lg w a b = Some c -> Some c = spec_abs_cmp (val a) (val b).
Proof. intros Wa Wb Da Db H. rewrite (abs_raw_eq a b Da Db) in H. exact (abs_f32_correct a b c Wa Wb H). Qed.

Theorem fsame_raw_correct B s1 e1 s2 e2 : 2 <= B < 2 ^ w -> fwf s1 e1 -> fwf s2 e2 ->
  Z.abs s1 < 2 ^ (2 * w) -> Z.abs s2 < 2 ^ (2 * w) ->
  Some (fsame_raw lg w B s1 e1 s2 e2) = spec_cmp (fval B s1 e1) (fval B s2 e2).
Proof.
  intros HB W1 W2 S1 S2. rewrite <- (fsame_f32_correct B s1 e1 s2 e2 ltac:(lia) W1 W2). f_equal.
  unfold fsame_raw, fsame_ord, fsame_cmp. rewrite !dub32_dom by lia. reflexivity.
Qed.
End Inst.
