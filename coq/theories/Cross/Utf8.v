(** C16 (parsers never panic): the byte / char index discipline of Rust string slices.

    A Rust [&str] is a byte string that is valid UTF-8; [s[a..b]] panics unless [a <= b <= s.len()] and both
    indices are char boundaries ([str::is_char_boundary]: index 0, index len, or a byte that is not a
    continuation byte 0x80..0xBF).  The parsers of dashu-float and dashu-ratio slice at indices computed
    from [find] / [rfind] of ASCII characters (+1) and at the constant 2 behind the prefix "0x".

    [utf8] below is the STRUCTURE of UTF-8 only (lead byte class -> number of continuation bytes); overlong
    forms and surrogates are not excluded, so every Rust [&str] satisfies it and the theorems cover more
    byte strings than Rust can produce.  Definitions and lemmas; closed under the global context. *)
From Dashu Require Import Base.Prelude.
Open Scope Z_scope.

Definition is_cont (b : Z) : bool := (128 <=? b) && (b <? 192).
Definition is_ascii (b : Z) : bool := (0 <=? b) && (b <? 128).

(** the UTF-8 decoder as a state machine: [need] continuation bytes are still expected *)
Fixpoint utf8_from (need : nat) (s : list Z) : bool :=
  match s with
  | [] => Nat.eqb need 0
  | c :: t =>
      match need with
      | O => if is_ascii c then utf8_from 0 t
             else if (192 <=? c) && (c <? 224) then utf8_from 1 t
             else if (224 <=? c) && (c <? 240) then utf8_from 2 t
             else if (240 <=? c) && (c <? 248) then utf8_from 3 t
             else false
      | S k => is_cont c && utf8_from k t
      end
  end.

Definition utf8 (s : list Z) : Prop := utf8_from 0 s = true.

(** [str::is_char_boundary] (library/core/src/str/mod.rs) *)
Definition boundary (s : list Z) (i : nat) : bool :=
  Nat.eqb i 0 || Nat.eqb i (length s) || (Nat.ltb i (length s) && negb (is_cont (nth i s 0))).

(** [&s[a..b]]: the panic of [str::slice_error_fail] is a value *)
Definition str_range (s : list Z) (a b : nat) : result (list Z) :=
  if Nat.leb a b && Nat.leb b (length s) && boundary s a && boundary s b
  then Ok (firstn (b - a) (skipn a s))
  else Panic Undocumented.

(** [s.find(c)], [s.rfind(c)] for a set of ASCII characters: byte index of the first / last match.
    (Rust searches characters; a byte below 0x80 never occurs inside a multi-byte character, so for ASCII
    patterns the byte search and the character search agree.) *)
Fixpoint lfind (f : Z -> bool) (s : list Z) : option nat :=
  match s with
  | [] => None
  | c :: t => if f c then Some O else match lfind f t with Some p => Some (S p) | None => None end
  end.

Fixpoint rfind (f : Z -> bool) (s : list Z) : option nat :=
  match s with
  | [] => None
  | c :: t => match rfind f t with
              | Some p => Some (S p)
              | None => if f c then Some O else None
              end
  end.

(* ------------------------------------------------------------------------------------------ *)
(** * facts *)

Lemma ascii_not_cont c : is_ascii c = true -> is_cont c = false.
Proof. unfold is_ascii, is_cont. intros H. apply andb_true_iff in H. destruct H as [_ H]. apply Z.ltb_lt in H.
  apply andb_false_iff. left. apply Z.leb_gt. lia. Qed.

(** the first byte of a well-formed string is not a continuation byte *)
Lemma utf8_head_not_cont c t : utf8 (c :: t) -> is_cont c = false.
Proof.
  unfold utf8. cbn [utf8_from]. destruct (is_ascii c) eqn:A; [intros _; apply ascii_not_cont; exact A|].
  unfold is_cont.
  destruct ((192 <=? c) && (c <? 224)) eqn:E1.
  { intros _. apply andb_true_iff in E1. destruct E1 as [E1 _]. apply Z.leb_le in E1.
    apply andb_false_iff. right. apply Z.ltb_ge. lia. }
  destruct ((224 <=? c) && (c <? 240)) eqn:E2.
  { intros _. apply andb_true_iff in E2. destruct E2 as [E2 _]. apply Z.leb_le in E2.
    apply andb_false_iff. right. apply Z.ltb_ge. lia. }
  destruct ((240 <=? c) && (c <? 248)) eqn:E3; [|discriminate].
  intros _. apply andb_true_iff in E3. destruct E3 as [E3 _]. apply Z.leb_le in E3.
  apply andb_false_iff. right. apply Z.ltb_ge. lia.
Qed.

(** an ASCII byte ends the character before it and starts a new one: both sides are well formed *)
Lemma utf8_split_ascii c : is_ascii c = true -> forall a n b,
  utf8_from n (a ++ c :: b) = true -> utf8_from n a = true /\ utf8 b.
Proof.
  intros Hc. induction a as [|x a IH]; intros n b H.
  - cbn [app] in H. destruct n as [|k].
    + cbn [utf8_from] in H. rewrite Hc in H. split; [reflexivity | exact H].
    + cbn [utf8_from] in H. rewrite (ascii_not_cont c Hc) in H. discriminate.
  - cbn [app] in H. destruct n as [|k]; cbn [utf8_from] in H |- *.
    + destruct (is_ascii x); [apply IH; exact H|].
      destruct ((192 <=? x) && (x <? 224)); [apply IH; exact H|].
      destruct ((224 <=? x) && (x <? 240)); [apply IH; exact H|].
      destruct ((240 <=? x) && (x <? 248)); [apply IH; exact H | discriminate].
    + apply andb_true_iff in H. destruct H as [H1 H2]. rewrite H1. apply IH. exact H2.
Qed.

Lemma utf8_tail_ascii c t : is_ascii c = true -> utf8 (c :: t) -> utf8 t.
Proof. intros Hc H. unfold utf8 in *. cbn [utf8_from] in H. rewrite Hc in H. exact H. Qed.

(** the index of an ASCII byte, and the index behind it, are char boundaries *)
Lemma boundary_at_ascii a c b : is_ascii c = true -> boundary (a ++ c :: b) (length a) = true.
Proof.
  intros Hc. unfold boundary. rewrite app_length. cbn [length].
  replace (nth (length a) (a ++ c :: b) 0) with c by (rewrite app_nth2 by lia; rewrite Nat.sub_diag; reflexivity).
  rewrite (ascii_not_cont c Hc). cbn [negb]. rewrite andb_true_r.
  replace (Nat.ltb (length a) (length a + S (length b))) with true by (symmetry; apply Nat.ltb_lt; lia).
  apply orb_true_r.
Qed.

Lemma boundary_after_ascii a c b : utf8 b -> boundary (a ++ c :: b) (S (length a)) = true.
Proof.
  intros Hb. unfold boundary. rewrite app_length. cbn [length].
  destruct b as [|y b'].
  - cbn [length]. replace (Nat.eqb (S (length a)) (length a + 1)) with true by (symmetry; apply Nat.eqb_eq; lia).
    rewrite orb_true_r. reflexivity.
  - replace (nth (S (length a)) (a ++ c :: y :: b') 0) with y.
    2:{ rewrite app_nth2 by lia. replace (S (length a) - length a)%nat with 1%nat by lia. reflexivity. }
    rewrite (utf8_head_not_cont y b' Hb). cbn [negb length]. rewrite andb_true_r.
    replace (Nat.ltb (S (length a)) (length a + S (S (length b')))) with true by (symmetry; apply Nat.ltb_lt; lia).
    apply orb_true_r.
Qed.

Lemma boundary_0 s : boundary s 0 = true.
Proof. reflexivity. Qed.

Lemma boundary_len s : boundary s (length s) = true.
Proof. unfold boundary. rewrite Nat.eqb_refl. rewrite orb_true_r. reflexivity. Qed.

(** the slices the parsers take *)
Lemma str_range_prefix a c b : is_ascii c = true ->
  str_range (a ++ c :: b) 0 (length a) = Ok a.
Proof.
  intros Hc. unfold str_range. rewrite boundary_at_ascii by exact Hc. rewrite boundary_0.
  cbn [Nat.leb andb]. rewrite app_length. cbn [length].
  replace (Nat.leb (length a) (length a + S (length b))) with true by (symmetry; apply Nat.leb_le; lia).
  cbn [andb skipn]. rewrite Nat.sub_0_r. rewrite firstn_app, Nat.sub_diag, firstn_all. cbn [firstn]. rewrite app_nil_r. reflexivity.
Qed.

Lemma str_range_suffix a c b : utf8 b ->
  str_range (a ++ c :: b) (S (length a)) (length (a ++ c :: b)) = Ok b.
Proof.
  intros Hb. unfold str_range. rewrite boundary_after_ascii by exact Hb. rewrite boundary_len.
  rewrite Nat.leb_refl. rewrite app_length. cbn [length].
  replace (Nat.leb (S (length a)) (length a + S (length b))) with true by (symmetry; apply Nat.leb_le; lia).
  cbn [andb].
  replace (skipn (S (length a)) (a ++ c :: b)) with b.
  2:{ replace (S (length a)) with (length (a ++ [c])) by (rewrite app_length; cbn [length]; lia).
      replace (a ++ c :: b) with ((a ++ [c]) ++ b) by (rewrite <- app_assoc; reflexivity).
      rewrite skipn_app, skipn_all, Nat.sub_diag. reflexivity. }
  replace (length a + S (length b) - S (length a))%nat with (length b) by lia. rewrite firstn_all. reflexivity.
Qed.

(** [&s[2..]] behind two ASCII bytes *)
Lemma str_range_skip2 x y t : is_ascii y = true -> utf8 t ->
  str_range (x :: y :: t) 2 (length (x :: y :: t)) = Ok t.
Proof.
  intros Hy Ht. exact (str_range_suffix [x] y t Ht).
Qed.

(** [lfind] / [rfind] return the position of a matching byte and split the text around it *)
Lemma lfind_split f s p : lfind f s = Some p ->
  exists a c b, s = a ++ c :: b /\ length a = p /\ f c = true /\ (forall x, In x a -> f x = false).
Proof.
  revert p. induction s as [|x s IH]; intros p H; cbn [lfind] in H; [discriminate|].
  destruct (f x) eqn:E.
  - injection H as <-. exists [], x, s. repeat split; try assumption. intros y [].
  - destruct (lfind f s) as [q|] eqn:L; [|discriminate]. injection H as <-.
    destruct (IH q eq_refl) as (a & c & b & -> & Hl & Hc & Ha).
    exists (x :: a), c, b. repeat split; cbn [length]; try congruence.
    intros y [<- | Hy]; [exact E | exact (Ha y Hy)].
Qed.

Lemma rfind_split f s p : rfind f s = Some p ->
  exists a c b, s = a ++ c :: b /\ length a = p /\ f c = true /\ rfind f b = None.
Proof.
  revert p. induction s as [|x s IH]; intros p H; cbn [rfind] in H; [discriminate|].
  destruct (rfind f s) as [q|] eqn:R.
  - injection H as <-. destruct (IH q eq_refl) as (a & c & b & -> & Hl & Hc & Hb).
    exists (x :: a), c, b. repeat split; cbn [length]; congruence.
  - destruct (f x) eqn:E; [|discriminate]. injection H as <-.
    exists [], x, s. repeat split; assumption.
Qed.

Lemma lfind_none f s : lfind f s = None -> forall x, In x s -> f x = false.
Proof.
  induction s as [|y s IH]; intros H x Hx; [destruct Hx|]. cbn [lfind] in H.
  destruct (f y) eqn:E; [discriminate|]. destruct (lfind f s); [discriminate|].
  destruct Hx as [<-|Hx]; [exact E | exact (IH eq_refl x Hx)].
Qed.

(** non-vacuity: "1é5" = 31 C3 A9 35; index 2 is inside the character *)
Example utf8_ex : utf8 [49; 195; 169; 53]. Proof. reflexivity. Qed.
Example not_utf8_ex : ~ utf8 [49; 169; 53]. Proof. discriminate. Qed.
Example boundary_ex : boundary [49; 195; 169; 53] 1 = true /\ boundary [49; 195; 169; 53] 2 = false /\ boundary [49; 195; 169; 53] 3 = true.
Proof. repeat split. Qed.
Example str_range_panics_ex : str_range [49; 195; 169; 53] 2 4 = Panic Undocumented /\ str_range [49; 195; 169; 53] 3 4 = Ok [53].
Proof. split; reflexivity. Qed.
Example rfind_ex : rfind (fun c => c =? 101) [49; 101; 50; 101; 51] = Some 3%nat /\ lfind (fun c => c =? 101) [49; 101; 50; 101; 51] = Some 1%nat.
Proof. split; reflexivity. Qed.
