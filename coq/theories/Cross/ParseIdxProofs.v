(** C16 (parsers never panic): proofs about the index-level parser models of Cross/ParseIdx.v.

    - the regenerated marker table (DashuGen.ParseSites.gen_marker) contains ASCII characters only and is the table of the
      C08 grammar; the slice expressions found in the sources are exactly the modelled ones;
    - for EVERY well-formed UTF-8 byte string every slice the float parser takes is at char boundaries and in range:
      [parse_idx B s = parse_asis B s] (the C08 model, which C08 proves equal to the documented grammar), for every base;
    - the C08 model, the rational parsers and the integer parser specification return Ok or Err on every byte string. *)
From Coq Require Import String.
From Dashu Require Import Base.Prelude Float.Model Int.IoSpec Float.TextIoSpec Float.TextIoModel Cross.Utf8 Cross.ParseIdx.
From DashuGen Require Import ParseSites.
Open Scope Z_scope.

(* ------------------------------------------------------------------------------------------ *)
(** * the regenerated fragments *)

Lemma gen_marker_is_marker B h c : gen_marker B h c = is_marker B h c.
Proof.
  unfold gen_marker, is_marker.
  destruct (B =? 10); [|destruct (B =? 2); [destruct h|destruct (B =? 8); [|destruct (B =? 16)]]];
    repeat match goal with |- context [c =? ?k] => destruct (c =? k) end; reflexivity.
Qed.

Lemma gen_marker_ascii B h c : gen_marker B h c = true -> is_ascii c = true.
Proof.
  unfold gen_marker. intros H.
  destruct (B =? 10); [|destruct (B =? 2); [destruct h|destruct (B =? 8); [|destruct (B =? 16)]]];
    repeat match goal with H : _ || _ = true |- _ => apply orb_true_iff in H; destruct H as [H|H] end;
    apply Z.eqb_eq in H; subst c; reflexivity.
Qed.

(** the scale markers of a hexadecimal text are not the characters of its prefix *)
Lemma gen_marker_hex_not_prefix c : gen_marker 2 true c = true -> c <> 48 /\ c <> 120 /\ c <> 88 /\ c <> 46.
Proof.
  unfold gen_marker. cbn [Z.eqb Pos.eqb]. intros H.
  repeat match goal with H : _ || _ = true |- _ => apply orb_true_iff in H; destruct H as [H|H] end;
    apply Z.eqb_eq in H; subst c; repeat split; discriminate.
Qed.

(** an edit of the sources that adds, removes or changes an index slice breaks these *)
Lemma gen_float_slices_modelled :
  gen_float_slices = ["src[pos + 1..]"; "src[..pos]"; "src[..dot]"; "int_str[2..]"; "src[..dot]"; "src[dot + 1..]"; "src[2..]"]%string.
Proof. reflexivity. Qed.
Lemma gen_ratio_slices_modelled :
  gen_ratio_slices = ["src[..slash]"; "src[slash + 1..]"; "src[..slash]"; "src[slash + 1..]"]%string.
Proof. reflexivity. Qed.
Lemma gen_int_slices_modelled : gen_int_slices = []%string.
Proof. reflexivity. Qed.

(* ------------------------------------------------------------------------------------------ *)
(** * split functions of the C08 model against find / rfind *)

Lemma rsplit_ext f g : (forall c, f c = g c) -> forall s, rsplit f s = rsplit g s.
Proof. intros E. induction s as [|x s IH]; [reflexivity|]. cbn [rsplit]. rewrite IH, E. reflexivity. Qed.

Lemma rsplit_none f : forall s, rfind f s = None -> rsplit f s = None.
Proof.
  induction s as [|x s IH]; [reflexivity|]. cbn [rfind rsplit].
  destruct (rfind f s); [discriminate|]. rewrite IH by reflexivity.
  destruct (f x); [discriminate | reflexivity].
Qed.

Lemma rsplit_at f a c b : f c = true -> rfind f b = None -> rsplit f (a ++ c :: b) = Some (a, c, b).
Proof.
  intros Hc Hb. induction a as [|x a IH]; cbn [app rsplit].
  - rewrite (rsplit_none f b Hb), Hc. reflexivity.
  - rewrite IH. reflexivity.
Qed.

Lemma lsplit_none f : forall s, lfind f s = None -> lsplit f s = None.
Proof.
  induction s as [|x s IH]; [reflexivity|]. cbn [lfind lsplit].
  destruct (f x); [discriminate|]. destruct (lfind f s); [discriminate|]. rewrite IH; reflexivity.
Qed.

Lemma lsplit_at f a c b : f c = true -> (forall x, In x a -> f x = false) -> lsplit f (a ++ c :: b) = Some (a, b).
Proof.
  intros Hc. induction a as [|x a IH]; intros Ha; cbn [app lsplit].
  - rewrite Hc. reflexivity.
  - rewrite (Ha x (or_introl eq_refl)). rewrite IH; [reflexivity|]. intros y Hy. apply Ha. right. exact Hy.
Qed.

Lemma has_hex_prefix_shape src : has_hex_prefix src = true -> exists x t, src = 48 :: x :: t /\ (x = 120 \/ x = 88).
Proof.
  unfold has_hex_prefix, starts_with. destruct src as [|a [|x t]]; cbn [strip_prefix]; try discriminate.
  - destruct (48 =? a); discriminate.
  - destruct (48 =? a) eqn:E; [|discriminate]. apply Z.eqb_eq in E. subst a. intros H.
    exists x, t. split; [reflexivity|].
    destruct (120 =? x) eqn:E1; [apply Z.eqb_eq in E1; lia|].
    destruct (88 =? x) eqn:E2; [apply Z.eqb_eq in E2; lia|]. discriminate.
Qed.

Lemma len_length {A} (l : list A) : len l = Z.of_nat (length l). Proof. reflexivity. Qed.

(* ------------------------------------------------------------------------------------------ *)
(** * the float parser: every slice is legal on well-formed UTF-8 *)

(** the text handed to the body parser still starts with the prefix that was seen before the scale was cut off *)
Definition keeps_prefix (B : Z) (has_prefix : bool) (src : list Z) : Prop :=
  (B =? 2) && has_prefix = true -> exists x t, src = 48 :: x :: t /\ (x = 120 \/ x = 88).

Lemma parse_body_idx_eq B src scale pmarker has_prefix :
  utf8 src -> keeps_prefix B has_prefix src ->
  parse_body_idx B src scale pmarker has_prefix = parse_body_asis B src scale pmarker has_prefix.
Proof.
  intros Hu Hk. unfold parse_body_idx, parse_body_asis.
  change (fun c => c =? 46) with is_dot.
  destruct (lfind is_dot src) as [dot|] eqn:L.
  - destruct (lfind_split is_dot src dot L) as (a & c & b & -> & Hl & Hc & Ha).
    assert (Hca : is_ascii c = true) by (unfold is_dot in Hc; apply Z.eqb_eq in Hc; subst c; reflexivity).
    destruct (utf8_split_ascii c Hca a 0%nat b Hu) as [Hua Hub]. fold (utf8 a) in Hua.
    rewrite (lsplit_at is_dot a c b Hc Ha). subst dot.
    destruct (len (a ++ c :: b) =? 1); [reflexivity|].
    unfold str_to, str_from. rewrite (str_range_suffix a c b Hub).
    replace (negb (len a =? 0)) with (negb (Nat.eqb (length a) 0)).
    2:{ unfold len. destruct a; reflexivity. }
    destruct (Nat.eqb (length a) 0) eqn:E0; cbn [negb]; [reflexivity|].
    rewrite (str_range_prefix a c b Hca). cbn [rbind].
    destruct ((B =? 2) && has_prefix) eqn:EP; [|reflexivity].
    destruct (Hk EP) as (x & t & Hs & Hx).
    (* a is a non-empty prefix of 48 :: x :: t that does not contain '.', and x is not '.' *)
    destruct a as [|a0 [|a1 a']]; [discriminate E0| |].
    + exfalso. cbn [app] in Hs. injection Hs as _ Hcx _. unfold is_dot in Hc. apply Z.eqb_eq in Hc. lia.
    + cbn [app] in Hs. injection Hs as -> -> _.
      assert (Hxa : is_ascii x = true) by (destruct Hx; subst x; reflexivity).
      assert (Hut : utf8 a').
      { apply (utf8_tail_ascii x a' Hxa). apply (utf8_tail_ascii 48 (x :: a') eq_refl). exact Hua. }
      rewrite (str_range_skip2 48 x a' Hxa Hut). cbn [rbind skipn]. reflexivity.
  - rewrite (lsplit_none is_dot src L).
    destruct ((B =? 2) && has_hex_prefix src) eqn:EP; [|reflexivity].
    apply andb_true_iff in EP. destruct EP as [_ EP].
    destruct (has_hex_prefix_shape src EP) as (x & t & -> & Hx).
    assert (Hxa : is_ascii x = true) by (destruct Hx; subst x; reflexivity).
    assert (Hut : utf8 t).
    { apply (utf8_tail_ascii x t Hxa). apply (utf8_tail_ascii 48 (x :: t) eq_refl). exact Hu. }
    unfold str_from. rewrite (str_range_skip2 48 x t Hxa Hut). cbn [rbind skipn]. reflexivity.
Qed.

Lemma strip_float_sign_utf8 s sg src : utf8 s -> strip_float_sign s = (sg, src) -> utf8 src.
Proof.
  intros Hu. unfold strip_float_sign.
  destruct s as [|c t]; [intros H; injection H as _ <-; exact Hu|].
  destruct (Z.eq_dec c 45) as [->|N1]; [intros H; injection H as _ <-; exact (utf8_tail_ascii 45 t eq_refl Hu)|].
  destruct (Z.eq_dec c 43) as [->|N2]; [intros H; injection H as _ <-; exact (utf8_tail_ascii 43 t eq_refl Hu)|].
  assert (forall A (x y z : A), match c with 45 => x | 43 => y | _ => z end = z) as E.
  { intros A x y z. destruct c as [|p|p]; try reflexivity.
    do 6 (destruct p as [p|p|]; try reflexivity); lia. }
  rewrite E. intros H; injection H as _ <-; exact Hu.
Qed.

Theorem parse_idx_eq B s : utf8 s -> parse_idx B s = parse_asis B s.
Proof.
  intros Hu. unfold parse_idx, parse_asis.
  destruct (strip_float_sign s) as [sg src] eqn:ES.
  pose proof (strip_float_sign_utf8 s sg src Hu ES) as Hsrc.
  unfold marker_set.
  remember (has_hex_prefix src) as hp eqn:Ehp.
  rewrite (rsplit_ext (is_marker B hp) (gen_marker B hp) (fun c => eq_sym (gen_marker_is_marker B hp c))).
  destruct (rfind (gen_marker B hp) src) as [pos|] eqn:R.
  - destruct (rfind_split _ src pos R) as (a & c & b & E & Hl & Hc & Hb).
    pose proof (gen_marker_ascii _ _ _ Hc) as Hca.
    assert (Hab : utf8 a /\ utf8 b).
    { rewrite E in Hsrc. exact (utf8_split_ascii c Hca a 0%nat b Hsrc). }
    destruct Hab as [Hua Hub].
    assert (Hkp : keeps_prefix B hp a).
    { intros EP. apply andb_true_iff in EP. destruct EP as [EB EP]. apply Z.eqb_eq in EB. subst B.
      rewrite EP in Ehp. symmetry in Ehp.
      destruct (has_hex_prefix_shape src Ehp) as (x & t & Es & Hx). rewrite EP in Hc.
      destruct (gen_marker_hex_not_prefix c Hc) as (N48 & N120 & N88 & _).
      rewrite Es in E. destruct a as [|a0 [|a1 a']].
      - cbn [app] in E. injection E as E _. lia.
      - cbn [app] in E. injection E as _ E _. destruct Hx; lia.
      - cbn [app] in E. injection E as <- <- _. exists x, a'. split; [reflexivity | exact Hx]. }
    clear Ehp R Hsrc ES. subst src pos.
    rewrite (rsplit_at _ a c b Hc Hb).
    unfold str_from, str_to.
    rewrite (str_range_suffix a c b Hub). cbn [rbind].
    destruct (isize_from_str b) as [v| | |]; cbn [rbind]; try reflexivity.
    rewrite nth_middle. rewrite (str_range_prefix a c b Hca). cbn [rbind].
    rewrite (parse_body_idx_eq B a v _ hp Hua Hkp). reflexivity.
  - rewrite (rsplit_none _ src R). cbn [rbind].
    assert (Hkp : keeps_prefix B hp src).
    { intros EP. apply andb_true_iff in EP. destruct EP as [_ EP]. rewrite EP in Ehp. symmetry in Ehp.
      exact (has_hex_prefix_shape src Ehp). }
    rewrite (parse_body_idx_eq B src 0 false hp Hsrc Hkp). reflexivity.
Qed.

(* ------------------------------------------------------------------------------------------ *)
(** * totality: Ok or Err, never a panic, never out of fuel *)

Definition no_panic {A} (x : result A) : Prop := match x with Ok _ | Err _ => True | _ => False end.

Lemma np_ok {A} (a : A) : no_panic (Ok a). Proof. exact I. Qed.
Lemma np_err {A} e : no_panic (@Err A e). Proof. exact I. Qed.
Lemma np_bind {A B} (x : result A) (f : A -> result B) : no_panic x -> (forall a, no_panic (f a)) -> no_panic (rbind x f).
Proof. destruct x; cbn; intros H Hf; try contradiction; [apply Hf | exact I]. Qed.
Lemma np_if {A} (b : bool) (x y : result A) : no_panic x -> no_panic y -> no_panic (if b then x else y).
Proof. destruct b; auto. Qed.

Lemma body_spec_np r s : no_panic (body_spec r s).
Proof. unfold body_spec. destruct (body_digits r s) as [[|d ds]|]; exact I. Qed.

Lemma from_str_radix_spec_np sg r s : no_panic (from_str_radix_spec sg r s).
Proof.
  unfold from_str_radix_spec, from_str_radix_gen. apply np_if; [|exact I].
  destruct (strip_sign sg s) as [sgn b]. unfold rmap. apply np_bind; [apply body_spec_np | intros; exact I].
Qed.

Lemma from_str_prefix_spec_np sg d s : no_panic (from_str_prefix_spec sg d s).
Proof.
  unfold from_str_prefix_spec, from_str_prefix_gen.
  destruct (strip_sign sg s) as [sgn b]. destruct (strip_radix_prefix d b) as [r b'].
  unfold rmap. apply np_bind; [apply body_spec_np | intros; exact I].
Qed.

Lemma parse_unsigned_np r s : no_panic (parse_unsigned r s).
Proof. unfold parse_unsigned. destruct s as [|c t]; [|apply np_if; [exact I|]]; apply from_str_radix_spec_np. Qed.

Lemma isize_from_str_np s : no_panic (isize_from_str s).
Proof.
  unfold isize_from_str. destruct s as [|c t]; [exact I|].
  match goal with |- no_panic (let '(sg, b) := ?p in _) => destruct p as [sg b] end.
  destruct (dec_digits b) as [[|d ds]|]; try exact I. apply np_if; exact I.
Qed.

Lemma parse_body_asis_np B src scale pm hp : no_panic (parse_body_asis B src scale pm hp).
Proof.
  unfold parse_body_asis. destruct (lsplit _ src) as [[int_str frac_str]|].
  - apply np_if; [exact I|]. apply np_bind.
    + repeat (apply np_if); try exact I; apply np_bind; try apply parse_unsigned_np; intros; exact I.
    + intros [[int idg] base]. apply np_bind.
      * apply np_if; [|exact I]. apply np_bind; [apply parse_unsigned_np | intros; exact I].
      * intros [fr fd]. repeat apply np_if; exact I.
  - repeat (apply np_if); try exact I; apply np_bind; try apply parse_unsigned_np; intros; exact I.
Qed.

Theorem parse_asis_no_panic B s : no_panic (parse_asis B s).
Proof.
  unfold parse_asis. destruct (strip_float_sign s) as [sg src]. apply np_bind.
  - destruct (rsplit _ src) as [[[before mk] after]|]; [|exact I].
    apply np_bind; [apply isize_from_str_np | intros; exact I].
  - intros [[scale pm] src']. apply np_bind; [apply parse_body_asis_np|].
    intros [[signif e] nd]. destruct (normalize B (sg * signif) 0) as [s' k]. repeat apply np_if; exact I.
Qed.

(** the float parser, index level: no slice panics, whatever the base and the text *)
Theorem parse_idx_no_panic B s : utf8 s -> no_panic (parse_idx B s).
Proof. intros Hu. rewrite (parse_idx_eq B s Hu). apply parse_asis_no_panic. Qed.

(** the rational parsers *)
Lemma ratio_slices_ok (src : list Z) slash : utf8 src -> lfind is_slash src = Some slash ->
  exists a b, str_to src slash = Ok a /\ str_from src (S slash) = Ok b /\ src = a ++ 47 :: b.
Proof.
  intros Hu L. destruct (lfind_split is_slash src slash L) as (a & c & b & -> & Hl & Hc & _).
  unfold is_slash in Hc. apply Z.eqb_eq in Hc. subst c slash.
  destruct (utf8_split_ascii 47 eq_refl a 0%nat b Hu) as [_ Hub].
  exists a, b. unfold str_to, str_from.
  rewrite (str_range_prefix a 47 b eq_refl), (str_range_suffix a 47 b Hub). repeat split.
Qed.

Theorem ratio_radix_idx_no_panic radix src : utf8 src -> no_panic (ratio_radix_idx radix src).
Proof.
  intros Hu. unfold ratio_radix_idx. destruct (lfind is_slash src) as [slash|] eqn:L.
  - destruct (ratio_slices_ok src slash Hu L) as (a & b & -> & -> & _). cbn [rbind].
    apply np_bind; [apply from_str_radix_spec_np|]. intros num.
    apply np_bind; [apply from_str_radix_spec_np|]. intros den. apply np_if; exact I.
  - apply np_bind; [apply from_str_radix_spec_np | intros; exact I].
Qed.

Lemma ibig_default_np d s : no_panic (ibig_default d s).
Proof. unfold ibig_default. apply np_if; [apply from_str_prefix_spec_np | exact I]. Qed.

Theorem ratio_prefix_idx_no_panic src : utf8 src -> no_panic (ratio_prefix_idx src).
Proof.
  intros Hu. unfold ratio_prefix_idx. destruct (lfind is_slash src) as [slash|] eqn:L.
  - destruct (ratio_slices_ok src slash Hu L) as (a & b & -> & -> & _). cbn [rbind].
    apply np_bind; [apply ibig_default_np|]. intros [num nr].
    apply np_bind; [apply ibig_default_np|]. intros [den dr]. repeat apply np_if; exact I.
  - apply np_bind; [apply ibig_default_np | intros [n r]; exact I].
Qed.

(** a parsed fraction has a positive denominator (reduce / reduce2 never see zero) *)
Theorem ratio_radix_idx_den_pos radix src n d : ratio_radix_idx radix src = Ok (n, d) -> 0 < d.
Proof.
  unfold ratio_radix_idx. destruct (lfind is_slash src) as [slash|].
  - destruct (str_to src slash); cbn [rbind]; try discriminate.
    destruct (from_str_radix_spec true radix a); cbn [rbind]; try discriminate.
    destruct (str_from src (S slash)); cbn [rbind]; try discriminate.
    destruct (from_str_radix_spec true radix a1) as [den| | |]; cbn [rbind]; try discriminate.
    destruct (den =? 0) eqn:E; [discriminate|]. apply Z.eqb_neq in E. intros H. injection H as _ <-. lia.
  - destruct (from_str_radix_spec true radix src); cbn [rbind]; try discriminate. intros H. injection H as _ <-. lia.
Qed.

(** non-vacuity: "1é5" in base 10 has the marker set {e, E, @}; with é (C3 A9) as a marker the slice would be illegal *)
Example parse_idx_ex : parse_idx 10 [49; 46; 53; 101; 51] = Ok (15, 2, 2) /\ parse_idx 10 [49; 195; 169; 53] = Err E_InvalidDigit.
Proof. split; vm_compute; reflexivity. Qed.
Example parse_idx_hex_ex : parse_idx 2 [48; 120; 49; 46; 56; 112; 51] = Ok (3, 2, 8).
Proof. vm_compute. reflexivity. Qed.
Example parse_idx_panics_on_bad_bytes : parse_idx 10 [49; 101; 169] = Panic Undocumented /\ ~ utf8 [49; 101; 169].
Proof. split; [vm_compute; reflexivity | discriminate]. Qed.
Example ratio_idx_ex : ratio_radix_idx 10 [45; 49; 47; 45; 50] = Ok (1, 2) /\ ratio_radix_idx 10 [49; 47; 48] = Err E_InvalidDigit
  /\ ratio_prefix_idx [48; 120; 102; 47; 48; 98; 49] = Err E_InconsistentRadix /\ ratio_prefix_idx [48; 120; 102; 47; 49; 48] = Ok (15, 16, 16).
Proof. repeat split; vm_compute; reflexivity. Qed.
