(** C14 (round 4): the pair sets of the regenerated impl tables (coq/gen/XImplTable.v).  Definitions only (the oracle
    extracts them: a pair of operand kinds has a NumOrd / AbsOrd impl iff the regenerated table lists it). *)
From Coq Require Import ZArith List Bool.
From Dashu Require Import Cross.XImplModel.
From DashuGen Require Import XImplTable.
Import ListNotations.
Open Scope Z_scope.

Definition numord_pairs := map (fun r => (snd (fst (fst r)), snd (fst r))) numord_rows.
Definition absord_pairs := map (fun r => (snd (fst (fst r)), snd (fst r))) absord_rows.
Definition numhash_types := map (fun r => snd (fst r)) numhash_rows.
Definition has_numord (s r : xty) : bool := has_pair numord_pairs s r.
Definition has_absord (s r : xty) : bool := has_pair absord_pairs s r.
Definition has_numhash (t : xty) : bool := existsb (xty_eqb t) numhash_types.
