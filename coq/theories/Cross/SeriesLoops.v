(** C16 (termination): the series loops of the float transcendental functions.

    Three loops of dashu-float are "terminated only by a magnitude test on the next term":

    - [Context::iacoth] (float/src/log.rs, lines 172-189):
        inv = 1/n; inv2 = inv.sqr(); sum = inv; pow = inv; k = 3;
        loop { pow *= inv2; increase = pow / k;
               if increase < sum.sub_ulp() { return sum }      // SIGNED, STRICT test
               sum += increase; k += 2 }
      called with n in {6, 9, 99}.

    - the loop at the end of [Context::ln_internal] (float/src/log.rs, lines 311-326):
        z2 = z.sqr(); pow = z; sum = z; k = 3;
        loop { pow *= z2; increase = pow / k;
               if increase.abs_cmp(&sum.sub_ulp()).is_le() { break }   // |increase| <= sub_ulp
               sum += increase; k += 2 }
      with z = (x-1)/(x+1), x in [1,2)  (0 <= z < 1/3), or z = x/(x+2), |x| < 1/B
      (|z| < 1/3 as well, z may be negative).

    - the loop of [Context::exp_internal] (float/src/exp.rs, lines 316-336):
        r = r >> n; factorial = 1; pow = r; sum = if no_scaling { r } else { 1 + r }; k = 2;
        loop { factorial *= k; pow *= r; increase = pow / factorial;
               if increase.abs_cmp(&sum.sub_ulp()).is_le() { break }   // |increase| <= sub_ulp
               sum += increase; k += 1 }
      The argument reduction guarantees |r| <= 1/2: in the scaling branch 0 <= r < ln B is divided
      by B^n with n >= 1 (ln B / B < 1/2 for every B >= 2); in the no_scaling branch |r| < 1/B.
      The test uses the ABSOLUTE value, so negative r is handled by the same loop.

    [FBig::sub_ulp] (float/src/fbig.rs:410) is 1 * B^(exponent + digits_lb - precision - 1): a
    POSITIVE number depending on the current sum.  It enters here as [thr : Q -> Q] with the
    hypothesis [forall s, eps <= thr s] for a fixed [0 < eps] (the working precision is fixed and
    the exponent of the sum is bounded below).

    MODEL.  Exact rationals [Q]; the rounding of each operation to the working precision is
    abstracted away (every operation is exact).  Loops are recursions on explicit [fuel : nat]
    returning [None] when the fuel runs out.  Everything is closed under the global context. *)
From Coq Require Import QArith Qabs Qround ZArith Lia Lqa.
Open Scope Q_scope.

(** * Small library: powers, boolean tests, division by something >= 1 *)

Fixpoint qpow (q : Q) (n : nat) : Q :=
  match n with O => 1 | S m => q * qpow q m end.

Definition Qltb (x y : Q) : bool := negb (Qle_bool y x).

Lemma Qltb_false x y : Qltb x y = false -> y <= x.
Proof.
  unfold Qltb. intros H. apply Qle_bool_iff.
  destruct (Qle_bool y x); [reflexivity | discriminate].
Qed.

Lemma Qltb_true x y : Qltb x y = true -> x < y.
Proof.
  unfold Qltb. intros H. apply Qnot_le_lt. intros L.
  apply Qle_bool_iff in L. rewrite L in H. discriminate.
Qed.

Lemma Qle_bool_false x y : Qle_bool x y = false -> y < x.
Proof.
  intros H. apply Qnot_le_lt. intros L. apply Qle_bool_iff in L. congruence.
Qed.

Lemma qpow_nonneg q n : 0 <= q -> 0 <= qpow q n.
Proof. intros Hq. induction n; simpl; [lra | nra]. Qed.

Lemma qpow_le_mono a b n : 0 <= a -> a <= b -> qpow a n <= qpow b n.
Proof.
  intros Ha Hab. induction n; simpl; [lra|].
  pose proof (qpow_nonneg a n Ha). nra.
Qed.

Lemma qpow_le_1 q n : 0 <= q -> q <= 1 -> qpow q n <= 1.
Proof.
  intros H0 H1. induction n; simpl; [lra|].
  pose proof (qpow_nonneg q n H0). nra.
Qed.

Lemma inject_Z_ge_1 k : (1 <= k)%Z -> 1 <= inject_Z k.
Proof. intros H. rewrite Zle_Qle in H. exact H. Qed.

Lemma Qinv_ge_1 d : 1 <= d -> 0 < / d /\ / d <= 1.
Proof.
  intros H. split.
  - apply Qinv_lt_0_compat. lra.
  - apply Qle_shift_inv_r; lra.
Qed.

(** dividing by something >= 1 does not increase the magnitude *)
Lemma Qabs_div_le a d : 1 <= d -> Qabs (a / d) <= Qabs a.
Proof.
  intros H. unfold Qdiv. rewrite Qabs_Qmult.
  destruct (Qinv_ge_1 d H) as [Hp Hl].
  rewrite (Qabs_pos (/ d)) by lra.
  pose proof (Qabs_nonneg a). nra.
Qed.

Lemma Qabs_mul_nonneg a q : 0 <= q -> Qabs (a * q) == Qabs a * q.
Proof. intros H. rewrite Qabs_Qmult. rewrite (Qabs_pos q) by exact H. reflexivity. Qed.

(** * Explicit numbers of steps *)

Lemma qpow_half_pow2 n : qpow (1 # 2) n * inject_Z (2 ^ Z.of_nat n) == 1.
Proof.
  induction n.
  - simpl. reflexivity.
  - rewrite Nat2Z.inj_succ, Z.pow_succ_r by lia. rewrite inject_Z_mult. simpl qpow.
    setoid_replace ((1 # 2) * qpow (1 # 2) n * (inject_Z 2 * inject_Z (2 ^ Z.of_nat n)))
      with (qpow (1 # 2) n * inject_Z (2 ^ Z.of_nat n)) by (unfold inject_Z at 1; field).
    exact IHn.
Qed.

Lemma log2_up_pow_ge m : (m <= 2 ^ Z.log2_up m)%Z.
Proof.
  destruct (Z_lt_le_dec 1 m) as [H|H].
  - apply Z.log2_up_spec in H. lia.
  - rewrite Z.log2_up_eqn0 by lia. simpl. lia.
Qed.

(** logarithmic step count for ratio <= 1/2:  1 + log2_up (ceil (c / eps)) *)
Definition steps_half (c eps : Q) : nat :=
  S (Z.to_nat (Z.log2_up (Qceiling (c / eps)))).

Lemma steps_half_ge_1 c eps : (1 <= steps_half c eps)%nat.
Proof. unfold steps_half. lia. Qed.

Lemma steps_half_spec c eps :
  0 < eps -> c * qpow (1 # 2) (steps_half c eps) < eps.
Proof.
  intros He. unfold steps_half.
  set (m := Qceiling (c / eps)).
  set (L := Z.to_nat (Z.log2_up m)).
  assert (Hm : c / eps <= inject_Z m) by apply Qle_ceiling.
  assert (HL : (m <= 2 ^ Z.of_nat L)%Z).
  { unfold L. rewrite Z2Nat.id by apply Z.log2_up_nonneg. apply log2_up_pow_ge. }
  rewrite Zle_Qle in HL.
  assert (Hc : c <= inject_Z m * eps).
  { setoid_replace c with (c / eps * eps) by (field; lra). nra. }
  pose proof (qpow_half_pow2 (S L)) as HP.
  rewrite Nat2Z.inj_succ, Z.pow_succ_r, inject_Z_mult in HP by lia.
  set (P := qpow (1 # 2) (S L)) in *.
  set (T := inject_Z (2 ^ Z.of_nat L)) in *.
  assert (HP0 : 0 <= P) by (apply qpow_nonneg; lra).
  assert (HT : 1 <= T).
  { unfold T. apply inject_Z_ge_1. pose proof (Z.pow_pos_nonneg 2 (Z.of_nat L)). lia. }
  assert (H2 : inject_Z 2 == 2) by reflexivity. rewrite H2 in HP.
  (* c * P <= T * eps * P = eps / 2 < eps *)
  assert (c <= T * eps) by nra.
  assert (c * P <= T * eps * P) by nra.
  assert (T * eps * P == eps * (1 # 2)).
  { setoid_replace (T * eps * P) with (eps * (1 # 2) * (P * (2 * T))) by ring.
    rewrite HP. ring. }
  lra.
Qed.

(** Bernoulli: q^n * (1 + n (1 - q)) <= 1 for 0 <= q <= 1 *)
Lemma bernoulli q n :
  0 <= q -> q <= 1 -> qpow q n * (1 + inject_Z (Z.of_nat n) * (1 - q)) <= 1.
Proof.
  intros H0 H1. induction n.
  - cbn [qpow Z.of_nat]. change (inject_Z 0) with 0. lra.
  - rewrite Nat2Z.inj_succ. unfold Z.succ. rewrite inject_Z_plus. simpl qpow.
    set (N := inject_Z (Z.of_nat n)) in *.
    assert (HN : 0 <= N).
    { unfold N. change 0 with (inject_Z 0). rewrite <- Zle_Qle. lia. }
    pose proof (qpow_nonneg q n H0) as HP. set (P := qpow q n) in *.
    assert (E : inject_Z 1 == 1) by reflexivity. rewrite E.
    assert (Hsq : 0 <= (1 - q) * (1 - q)) by nra.
    assert (Hsq' : 0 <= (N + 1) * ((1 - q) * (1 - q))) by nra.
    assert (q * (1 + (N + 1) * (1 - q)) <= 1 + N * (1 - q)).
    { setoid_replace (q * (1 + (N + 1) * (1 - q)))
        with (1 + N * (1 - q) - (N + 1) * ((1 - q) * (1 - q))) by ring. lra. }
    assert (q * P * (1 + (N + 1) * (1 - q)) <= P * (1 + N * (1 - q))) by nra.
    lra.
Qed.

(** linear step count for any ratio q < 1:  1 + ceil (c / (eps (1 - q))) *)
Definition steps_geo (c q eps : Q) : nat :=
  S (Z.to_nat (Qceiling (c / (eps * (1 - q))))).

Lemma steps_geo_ge_1 c q eps : (1 <= steps_geo c q eps)%nat.
Proof. unfold steps_geo. lia. Qed.

Lemma steps_geo_spec c q eps :
  0 <= c -> 0 <= q -> q < 1 -> 0 < eps -> c * qpow q (steps_geo c q eps) < eps.
Proof.
  intros Hc H0 H1 He. unfold steps_geo.
  set (m := Qceiling (c / (eps * (1 - q)))).
  assert (Hm : c / (eps * (1 - q)) <= inject_Z m) by apply Qle_ceiling.
  assert (Hd : 0 < eps * (1 - q)) by nra.
  assert (Hc' : c <= inject_Z m * (eps * (1 - q))).
  { setoid_replace c with (c / (eps * (1 - q)) * (eps * (1 - q))) at 1 by (field; lra). nra. }
  assert (Hm0 : (0 <= m)%Z).
  { rewrite Zle_Qle. change (inject_Z 0) with 0.
    destruct (Qlt_le_dec (inject_Z m) 0) as [Hn|Hn]; [|exact Hn]. exfalso. nra. }
  set (n := S (Z.to_nat m)).
  pose proof (bernoulli q n H0 (Qlt_le_weak _ _ H1)) as HB.
  assert (En : inject_Z (Z.of_nat n) == inject_Z m + 1).
  { unfold n. rewrite Nat2Z.inj_succ, Z2Nat.id by exact Hm0. unfold Z.succ.
    rewrite inject_Z_plus. reflexivity. }
  rewrite En in HB.
  pose proof (qpow_nonneg q n H0) as HP. set (P := qpow q n) in *.
  set (M := inject_Z m) in *.
  assert (HM : 0 <= M). { unfold M. change 0 with (inject_Z 0). rewrite <- Zle_Qle. exact Hm0. }
  (* c * P <= M eps (1-q) P  and  P (1 + (M+1)(1-q)) <= 1 *)
  assert (P * ((M + 1) * (1 - q)) <= 1) by nra.
  assert (c * P <= eps * (M * (1 - q) * P)) by nra.
  assert (M * (1 - q) * P < 1).
  { destruct (Qlt_le_dec 0 P) as [Hp|Hp]; [nra|].
    assert (P == 0) by lra. rewrite H3. lra. }
  nra.
Qed.

(** * The three loops *)

Section Loops.

Variable eps : Q.
Variable thr : Q -> Q.     (* sum.sub_ulp() as a function of the current sum *)
Hypothesis eps_pos : 0 < eps.
Hypothesis thr_lb : forall s, eps <= thr s.

(** ** 1. iacoth *)

Fixpoint iacoth_loop (fuel : nat) (inv2 sum pow : Q) (k : Z) : option Q :=
  match fuel with
  | O => None
  | S f =>
      let pow' := pow * inv2 in                       (* pow *= &inv2 *)
      let increase := pow' / inject_Z k in            (* &pow / convert_int(k) *)
      if Qltb increase (thr sum) then Some sum        (* if increase < sum.sub_ulp() { return sum } *)
      else iacoth_loop f inv2 (sum + increase) pow' (k + 2)
  end.

Definition iacoth (fuel : nat) (n : Z) : option Q :=
  let inv := 1 / inject_Z n in
  let inv2 := inv * inv in                            (* inv.sqr() *)
  iacoth_loop fuel inv2 inv inv 3.

Lemma iacoth_loop_terminates_gen :
  forall M fuel inv2 sum pow k,
    0 <= inv2 -> (1 <= k)%Z ->
    Qabs pow * qpow inv2 (S M) < eps -> (S M <= fuel)%nat ->
    iacoth_loop fuel inv2 sum pow k <> None.
Proof.
  induction M; intros fuel inv2 sum pow k Hq Hk Hb Hf;
    (destruct fuel as [|f]; [lia|]); cbn [iacoth_loop]; cbv zeta;
    destruct (Qltb (pow * inv2 / inject_Z k) (thr sum)) eqn:E; try discriminate.
  - exfalso. apply Qltb_false in E.
    pose proof (Qabs_div_le (pow * inv2) (inject_Z k) (inject_Z_ge_1 k Hk)) as H1.
    rewrite (Qabs_mul_nonneg pow inv2 Hq) in H1.
    pose proof (Qle_Qabs (pow * inv2 / inject_Z k)) as H2.
    pose proof (thr_lb sum). simpl in Hb. lra.
  - apply IHM; try assumption; try lia.
    rewrite (Qabs_mul_nonneg pow inv2 Hq). simpl in Hb |- *. lra.
Qed.

(** main theorem: any N >= 1 with  (1/n) * (1/n^2)^N < eps  is enough fuel *)
Theorem iacoth_terminates :
  forall (n : Z) (N fuel : nat),
    (2 <= n)%Z -> (1 <= N)%nat ->
    (1 / inject_Z n) * qpow ((1 / inject_Z n) * (1 / inject_Z n)) N < eps ->
    (N <= fuel)%nat ->
    iacoth fuel n <> None.
Proof.
  intros n N fuel Hn HN Hb Hf. unfold iacoth.
  destruct N as [|M]; [lia|].
  assert (Hn1 : 1 <= inject_Z n) by (apply inject_Z_ge_1; lia).
  destruct (Qinv_ge_1 _ Hn1) as [Hi0 Hi1].
  assert (E : 1 / inject_Z n == / inject_Z n) by (unfold Qdiv; ring).
  apply iacoth_loop_terminates_gen with (M := M); try lia.
  - rewrite E. nra.
  - rewrite Qabs_pos by (rewrite E; lra). exact Hb.
Qed.

(** n >= 2 gives inv <= 1/2 and inv2 <= 1/4 *)
Lemma iacoth_inv_bounds n :
  (2 <= n)%Z ->
  0 < 1 / inject_Z n /\ 1 / inject_Z n <= 1 # 2 /\
  (1 / inject_Z n) * (1 / inject_Z n) <= 1 # 4.
Proof.
  intros Hn.
  assert (H2 : 2 <= inject_Z n).
  { change 2 with (inject_Z 2). rewrite <- Zle_Qle. exact Hn. }
  assert (E : 1 / inject_Z n == / inject_Z n) by (unfold Qdiv; ring).
  assert (H0 : 0 < / inject_Z n) by (apply Qinv_lt_0_compat; lra).
  assert (H1 : / inject_Z n <= 1 # 2) by (apply Qle_shift_inv_r; lra).
  rewrite E. repeat split; try assumption. nra.
Qed.

(** explicit number of steps: 1 + log2_up (ceil ((1/n) / eps)) *)
Corollary iacoth_terminates_explicit :
  forall (n : Z) (fuel : nat),
    (2 <= n)%Z ->
    (steps_half (1 / inject_Z n) eps <= fuel)%nat ->
    iacoth fuel n <> None.
Proof.
  intros n fuel Hn Hf.
  destruct (iacoth_inv_bounds n Hn) as (H0 & H1 & H2).
  set (inv := 1 / inject_Z n) in *.
  apply iacoth_terminates with (N := steps_half inv eps);
    try assumption; try apply steps_half_ge_1.
  fold inv.
  pose proof (steps_half_spec inv eps eps_pos) as HS.
  set (N := steps_half inv eps) in *.
  assert (qpow (inv * inv) N <= qpow (1 # 2) N) by (apply qpow_le_mono; nra).
  nra.
Qed.

(** ** 2. the series of ln_internal *)

Fixpoint ln_series_loop (fuel : nat) (z2 sum pow : Q) (k : Z) : option Q :=
  match fuel with
  | O => None
  | S f =>
      let pow' := pow * z2 in                              (* pow *= &z2 *)
      let increase := pow' / inject_Z k in                 (* &pow / convert_int(k) *)
      if Qle_bool (Qabs increase) (thr sum) then Some sum  (* abs_cmp(sub_ulp).is_le() => break *)
      else ln_series_loop f z2 (sum + increase) pow' (k + 2)
  end.

Definition ln_series (fuel : nat) (z : Q) : option Q :=
  let z2 := z * z in                                       (* z.sqr() *)
  ln_series_loop fuel z2 z z 3.

Lemma ln_series_loop_terminates_gen :
  forall M fuel z2 sum pow k,
    0 <= z2 -> (1 <= k)%Z ->
    Qabs pow * qpow z2 (S M) < eps -> (S M <= fuel)%nat ->
    ln_series_loop fuel z2 sum pow k <> None.
Proof.
  induction M; intros fuel z2 sum pow k Hq Hk Hb Hf;
    (destruct fuel as [|f]; [lia|]); cbn [ln_series_loop]; cbv zeta;
    destruct (Qle_bool (Qabs (pow * z2 / inject_Z k)) (thr sum)) eqn:E; try discriminate.
  - exfalso. apply Qle_bool_false in E.
    pose proof (Qabs_div_le (pow * z2) (inject_Z k) (inject_Z_ge_1 k Hk)) as H1.
    rewrite (Qabs_mul_nonneg pow z2 Hq) in H1.
    pose proof (thr_lb sum). simpl in Hb. lra.
  - apply IHM; try assumption; try lia.
    rewrite (Qabs_mul_nonneg pow z2 Hq). simpl in Hb |- *. lra.
Qed.

(** main theorem: any N >= 1 with  |z| * (z^2)^N < eps  is enough fuel (z of either sign) *)
Theorem ln_series_terminates :
  forall (z : Q) (N fuel : nat),
    (1 <= N)%nat ->
    Qabs z * qpow (z * z) N < eps ->
    (N <= fuel)%nat ->
    ln_series fuel z <> None.
Proof.
  intros z N fuel HN Hb Hf. unfold ln_series.
  destruct N as [|M]; [lia|].
  apply ln_series_loop_terminates_gen with (M := M); try lia; try assumption.
  nra.
Qed.

(** |z| < 1 (all that the series needs): explicit linear number of steps *)
Corollary ln_series_terminates_lt_1 :
  forall (z : Q) (fuel : nat),
    z * z < 1 ->
    (steps_geo (Qabs z) (z * z) eps <= fuel)%nat ->
    ln_series fuel z <> None.
Proof.
  intros z fuel Hz Hf.
  apply ln_series_terminates with (N := steps_geo (Qabs z) (z * z) eps);
    try assumption; try apply steps_geo_ge_1.
  apply steps_geo_spec; try assumption; try nra. apply Qabs_nonneg.
Qed.

(** |z| <= 1/3 (what the scaling of ln_internal gives; ratio 1/9 <= 1/2): logarithmic number of steps *)
Corollary ln_series_terminates_explicit :
  forall (z : Q) (fuel : nat),
    Qabs z <= 1 # 3 ->
    (steps_half (Qabs z) eps <= fuel)%nat ->
    ln_series fuel z <> None.
Proof.
  intros z fuel Hz Hf.
  apply ln_series_terminates with (N := steps_half (Qabs z) eps);
    try assumption; try apply steps_half_ge_1.
  pose proof (steps_half_spec (Qabs z) eps eps_pos) as HS.
  set (N := steps_half (Qabs z) eps) in *.
  pose proof (Qabs_nonneg z) as Ha.
  assert (Hzz : z * z == Qabs z * Qabs z).
  { rewrite <- Qabs_Qmult. rewrite Qabs_pos by nra. reflexivity. }
  assert (z * z <= 1 # 2) by (rewrite Hzz; nra).
  assert (qpow (z * z) N <= qpow (1 # 2) N) by (apply qpow_le_mono; nra).
  nra.
Qed.

(** ** 3. the Maclaurin series of exp_internal *)

Fixpoint exp_series_loop (fuel : nat) (r sum pow : Q) (factorial k : Z) : option Q :=
  match fuel with
  | O => None
  | S f =>
      let factorial' := (factorial * k)%Z in               (* factorial *= k *)
      let pow' := pow * r in                               (* pow *= &r *)
      let increase := pow' / inject_Z factorial' in        (* &pow / &factorial *)
      if Qle_bool (Qabs increase) (thr sum) then Some sum  (* abs_cmp(sub_ulp).is_le() => break *)
      else exp_series_loop f r (sum + increase) pow' factorial' (k + 1)
  end.

Definition exp_series (fuel : nat) (no_scaling : bool) (r : Q) : option Q :=
  exp_series_loop fuel r (if no_scaling then r else 1 + r) r 1 2.

Lemma exp_series_loop_terminates_gen :
  forall M fuel r sum pow factorial k,
    (1 <= factorial)%Z -> (1 <= k)%Z ->
    Qabs pow * qpow (Qabs r) (S M) < eps -> (S M <= fuel)%nat ->
    exp_series_loop fuel r sum pow factorial k <> None.
Proof.
  induction M; intros fuel r sum pow factorial k Hfa Hk Hb Hf;
    (destruct fuel as [|f]; [lia|]); cbn [exp_series_loop]; cbv zeta;
    destruct (Qle_bool (Qabs (pow * r / inject_Z (factorial * k))) (thr sum)) eqn:E;
    try discriminate;
    assert (Hfk : (1 <= factorial * k)%Z) by nia.
  - exfalso. apply Qle_bool_false in E.
    pose proof (Qabs_div_le (pow * r) (inject_Z (factorial * k)) (inject_Z_ge_1 _ Hfk)) as H1.
    rewrite Qabs_Qmult in H1.
    pose proof (thr_lb sum). simpl in Hb. lra.
  - apply IHM; try assumption; try lia.
    rewrite Qabs_Qmult. simpl in Hb |- *. lra.
Qed.

(** main theorem: any N >= 1 with  |r| * |r|^N < eps  is enough fuel (r of either sign) *)
Theorem exp_series_terminates :
  forall (no_scaling : bool) (r : Q) (N fuel : nat),
    (1 <= N)%nat ->
    Qabs r * qpow (Qabs r) N < eps ->
    (N <= fuel)%nat ->
    exp_series fuel no_scaling r <> None.
Proof.
  intros ns r N fuel HN Hb Hf. unfold exp_series.
  destruct N as [|M]; [lia|].
  apply exp_series_loop_terminates_gen with (M := M); try lia; assumption.
Qed.

(** |r| <= 1/2 (the guarantee of the argument reduction): logarithmic number of steps *)
Corollary exp_series_terminates_explicit :
  forall (no_scaling : bool) (r : Q) (fuel : nat),
    Qabs r <= 1 # 2 ->
    (steps_half (Qabs r) eps <= fuel)%nat ->
    exp_series fuel no_scaling r <> None.
Proof.
  intros ns r fuel Hr Hf.
  apply exp_series_terminates with (N := steps_half (Qabs r) eps);
    try assumption; try apply steps_half_ge_1.
  pose proof (steps_half_spec (Qabs r) eps eps_pos) as HS.
  set (N := steps_half (Qabs r) eps) in *.
  pose proof (Qabs_nonneg r) as Ha.
  assert (qpow (Qabs r) N <= qpow (1 # 2) N) by (apply qpow_le_mono; assumption).
  nra.
Qed.

(** |r| < 1: explicit linear number of steps *)
Corollary exp_series_terminates_lt_1 :
  forall (no_scaling : bool) (r : Q) (fuel : nat),
    Qabs r < 1 ->
    (steps_geo (Qabs r) (Qabs r) eps <= fuel)%nat ->
    exp_series fuel no_scaling r <> None.
Proof.
  intros ns r fuel Hr Hf.
  apply exp_series_terminates with (N := steps_geo (Qabs r) (Qabs r) eps);
    try assumption; try apply steps_geo_ge_1.
  apply steps_geo_spec; try assumption; apply Qabs_nonneg.
Qed.

End Loops.

(** * Non-vacuity: concrete runs and concrete instances of the theorems *)

Definition thr_const : Q -> Q := fun _ => 1 # 1000.
(** a threshold that really depends on the sum (two "binades"), bounded below by 1/2000 *)
Definition thr_step : Q -> Q := fun s => if Qle_bool s (1 # 5) then 1 # 2000 else 1 # 1000.

Lemma thr_const_lb : forall s, 1 # 1000 <= thr_const s.
Proof. intros s. apply Qle_refl. Qed.

Lemma thr_step_lb : forall s, 1 # 2000 <= thr_step s.
Proof. intros s. unfold thr_step. destruct (Qle_bool s (1 # 5)); discriminate. Qed.

(** iacoth(6): 1/6 + 1/(3*6^3) = 109/648, the next term 1/(5*6^5) is below 1/1000 *)
Example iacoth_6_run : iacoth thr_const 2 6 = Some (654 # 3888).
Proof. vm_compute. reflexivity. Qed.
Example iacoth_6_value : 654 # 3888 == 1 / 6 + 1 / (3 * 216).
Proof. vm_compute. reflexivity. Qed.
Example iacoth_6_run_step : iacoth thr_step 3 6 = Some (654 # 3888).
Proof. vm_compute. reflexivity. Qed.
Example iacoth_9_run : iacoth thr_const 1 9 = Some (1 # 9).
Proof. vm_compute. reflexivity. Qed.
Example iacoth_99_run : iacoth thr_const 1 99 = Some (1 # 99).
Proof. vm_compute. reflexivity. Qed.
(** the fuel is real *)
Example iacoth_6_out_of_fuel : iacoth thr_const 1 6 = None.
Proof. vm_compute. reflexivity. Qed.
(** a finer threshold needs more steps *)
Example iacoth_6_fine_out_of_fuel : iacoth (fun _ => 1 # 1000000000000) 6 6 = None.
Proof. vm_compute. reflexivity. Qed.
Example iacoth_6_fine_run : iacoth (fun _ => 1 # 1000000000000) 7 6 <> None.
Proof. vm_compute. discriminate. Qed.

Example ln_series_run : ln_series thr_const 2 (1 # 4) = Some (196 # 768).
Proof. vm_compute. reflexivity. Qed.
Example ln_series_run_neg : ln_series thr_const 2 (-1 # 4) = Some (-196 # 768).
Proof. vm_compute. reflexivity. Qed.
Example ln_series_out_of_fuel : ln_series thr_const 1 (1 # 4) = None.
Proof. vm_compute. reflexivity. Qed.
Example ln_series_slow_out_of_fuel : ln_series thr_const 5 (9 # 10) = None.
Proof. vm_compute. reflexivity. Qed.
Example ln_series_slow_run : ln_series thr_const 20 (9 # 10) <> None.
Proof. vm_compute. discriminate. Qed.

Example exp_series_run : exp_series thr_const 4 false (1 # 2) = Some (486144 # 294912).
Proof. vm_compute. reflexivity. Qed.
Example exp_series_value : 486144 # 294912 == 1 + (1 # 2) + (1 # 8) + (1 # 48) + (1 # 384).
Proof. vm_compute. reflexivity. Qed.
Example exp_series_run_neg : exp_series thr_const 4 true (-1 # 2) = Some (-115968 # 294912).
Proof. vm_compute. reflexivity. Qed.
Example exp_series_out_of_fuel : exp_series thr_const 3 false (1 # 2) = None.
Proof. vm_compute. reflexivity. Qed.

(** the explicit step counts are small concrete numbers *)
Example steps_half_values :
  (steps_half (1 # 6) (1 # 1000), steps_half (1 # 4) (1 # 1000), steps_half (1 # 2) (1 # 1000))
  = (9%nat, 9%nat, 10%nat).
Proof. vm_compute. reflexivity. Qed.
Example steps_geo_value : steps_geo (9 # 10) (81 # 100) (1 # 1000) = 4738%nat.
Proof. vm_compute. reflexivity. Qed.

(** the theorems instantiated: hypotheses are satisfiable *)
Example iacoth_6_by_theorem : forall fuel, (9 <= fuel)%nat -> iacoth thr_const fuel 6 <> None.
Proof.
  intros fuel H.
  apply (iacoth_terminates_explicit (1 # 1000) thr_const); try reflexivity.
  - exact thr_const_lb.
  - discriminate.
  - exact H.
Qed.

Example iacoth_99_step_by_theorem : forall fuel, (6 <= fuel)%nat -> iacoth thr_step fuel 99 <> None.
Proof.
  intros fuel H.
  apply (iacoth_terminates_explicit (1 # 2000) thr_step); try reflexivity.
  - exact thr_step_lb.
  - discriminate.
  - exact H.
Qed.

Example ln_series_by_theorem :
  forall fuel, (9 <= fuel)%nat -> ln_series thr_const fuel (-1 # 4) <> None.
Proof.
  intros fuel H.
  apply (ln_series_terminates_explicit (1 # 1000) thr_const); try reflexivity.
  - exact thr_const_lb.
  - discriminate.
  - exact H.
Qed.

Example ln_series_slow_by_theorem :
  forall fuel, (4738 <= fuel)%nat -> ln_series thr_const fuel (9 # 10) <> None.
Proof.
  intros fuel H.
  apply (ln_series_terminates_lt_1 (1 # 1000) thr_const); try reflexivity.
  - exact thr_const_lb.
  - exact H.
Qed.

Example exp_series_by_theorem :
  forall ns fuel, (10 <= fuel)%nat -> exp_series thr_const fuel ns (-1 # 2) <> None.
Proof.
  intros ns fuel H.
  apply (exp_series_terminates_explicit (1 # 1000) thr_const); try reflexivity.
  - exact thr_const_lb.
  - discriminate.
  - exact H.
Qed.

