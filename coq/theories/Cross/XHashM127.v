(** C14: NumHash of rationals whose denominator is a multiple of the hash modulus 2^127 - 1 (the case excluded from
    XHashProofs.v).  Such a number has no inverse denominator in the field: the library hashes it like an infinity
    (num-order maps +-(2^127-1) to 0), after dividing out a factor 2^127-1 common to numerator and denominator
    (possible in a Relaxed).  Stated against the same executable specification [spec_hash_fin]. *)
From Dashu Require Import Base.Prelude Cross.XVal Cross.XOrdModel Cross.XDispatch Cross.XOrdProofs Cross.XHashProofs.
Open Scope Z_scope.

Lemma minv_none x : x mod M127 = 0 -> minv_euclid x = None.
Proof. intros H. unfold minv_euclid. rewrite H. vm_compute. reflexivity. Qed.

Lemma rem_zero_divide n : Z.rem n M127 = 0 -> (M127 | n).
Proof. intros H. pose proof M127_pos. apply Z.rem_divide; [lia | exact H]. Qed.

(** RBig (lowest terms): the hash is 0, and so is the specification *)
Theorem qrepr_hash_m127_reduced n d : 0 < d -> Z.gcd n d = 1 -> d mod M127 = 0 ->
  qrepr_hash n d = Some 0 /\ spec_hash_fin n d = 0.
Proof.
  intros Hd G Hm. pose proof M127_pos as MP.
  assert (Dd : (M127 | d)) by (apply Z.mod_divide; [lia | exact Hm]).
  assert (NR : n = 0 \/ Z.rem n M127 <> 0).
  { right. intros R. apply rem_zero_divide in R. pose proof (Z.gcd_greatest n d M127 R Dd) as [q Hq]. rewrite G in Hq.
    assert (0 < q) by nia. nia. }
  split.
  - unfold qrepr_hash. destruct (Z.to_nat (Z.log2 d)) as [ | f]; cbn [qrepr_hash_f]; rewrite Hm; cbn [Z.eqb]; [reflexivity | ].
    destruct NR as [-> | NR]; [reflexivity | ].
    destruct (Z.eqb_spec n 0); [reflexivity | ]. destruct (Z.eqb_spec (Z.rem n M127) 0); [contradiction | reflexivity].
  - unfold spec_hash_fin. rewrite G, !Z.div_1_r. rewrite (minv_none d Hm). reflexivity.
Qed.

(** one step of the loop: a common factor 2^127-1 is divided out, the value stays *)
Lemma qrepr_hash_strip f n d : d mod M127 = 0 -> n <> 0 -> Z.rem n M127 = 0 ->
  qrepr_hash_f (S f) n d = qrepr_hash_f f (Z.quot n M127) (d / M127).
Proof.
  intros Hm Nn R. cbn [qrepr_hash_f]. rewrite Hm. cbn [Z.eqb].
  destruct (Z.eqb_spec n 0); [contradiction | ]. rewrite R. cbn [Z.eqb negb andb]. reflexivity.
Qed.

(** Relaxed (any stored form): the result is the hash of the number with the common factors 2^127-1 removed,
    or 0 when the denominator keeps such a factor that the numerator does not have *)
Theorem qrepr_hash_general : forall fuel n d h, 0 < d -> Z.log2 d <= Z.of_nat fuel ->
  qrepr_hash_f fuel n d = Some h ->
  exists n' d', 0 < d' /\ n * d' = n' * d /\
    ((d' mod M127 <> 0 /\ hash_of n' d' h) \/ (d' mod M127 = 0 /\ (n' = 0 \/ Z.rem n' M127 <> 0) /\ h = 0)).
Proof.
  pose proof M127_pos as MP. pose proof M127_val as MV.
  induction fuel as [ | f IH]; intros n d h Hd Hf H.
  - (* no fuel: d < 2, hence d = 1, not a multiple *)
    assert (D1 : d = 1).
    { destruct (Z.eq_dec d 1); [assumption | ]. assert (1 <= Z.log2 d) by (apply Z.log2_le_pow2; lia). lia. }
    subst d. exists n, 1. split; [lia | ]. split; [ring | ]. left.
    assert (N1 : 1 mod M127 <> 0) by (rewrite Z.mod_small by lia; lia). split; [exact N1 | ].
    apply qrepr_hash_of; [exact N1 | ]. unfold qrepr_hash. cbn [Z.log2 Z.to_nat]. exact H.
  - destruct (Z.eq_dec (d mod M127) 0) as [Hm | Hm].
    + destruct (Z.eq_dec n 0) as [-> | Nn].
      { cbn [qrepr_hash_f] in H. rewrite Hm in H. cbn in H. injection H as <-.
        exists 0, d. split; [lia | ]. split; [ring | ]. right. auto. }
      destruct (Z.eq_dec (Z.rem n M127) 0) as [R | R].
      * rewrite (qrepr_hash_strip f n d Hm Nn R) in H.
        assert (Dd : (M127 | d)) by (apply Z.mod_divide; [lia | exact Hm]). destruct Dd as [qd Ed].
        assert (Qd : d / M127 = qd) by (rewrite Ed; apply Z.div_mul; lia).
        apply rem_zero_divide in R. destruct R as [qn En].
        assert (Qn : Z.quot n M127 = qn) by (rewrite En; apply Z.quot_mul; lia).
        assert (Pq : 0 < qd) by nia.
        assert (Lq : Z.log2 qd <= Z.of_nat f).
        { assert (2 * qd <= d) by nia. assert (Z.log2 (2 * qd) <= Z.log2 d) by (apply Z.log2_le_mono; lia).
          rewrite Z.log2_double in H1 by lia. lia. }
        rewrite Qd, Qn in H. destruct (IH qn qd h Pq Lq H) as (n' & d' & Pd' & EQ & Cases).
        exists n', d'. split; [exact Pd' | ]. split; [ | exact Cases]. rewrite En, Ed. nia.
      * cbn [qrepr_hash_f] in H. rewrite Hm in H. cbn [Z.eqb] in H.
        destruct (Z.eqb_spec n 0); [contradiction | ]. destruct (Z.eqb_spec (Z.rem n M127) 0); [contradiction | ].
        cbn [negb andb] in H. injection H as <-.
        exists n, d. split; [lia | ]. split; [ring | ]. right. auto.
    + exists n, d. split; [lia | ]. split; [ring | ]. left. split; [exact Hm | ].
      cbn [qrepr_hash_f] in H. destruct (Z.eqb_spec (d mod M127) 0); [contradiction | ].
      destruct (minv_euclid (d mod M127)) as [binv | ] eqn:MI; [ | discriminate]. injection H as <-.
      apply (ratio_hash_core n d binv); [apply minv_sound; exact MI | reflexivity].
Qed.

Corollary qrepr_hash_any n d h : 0 < d -> qrepr_hash n d = Some h ->
  exists n' d', 0 < d' /\ n * d' = n' * d /\
    ((d' mod M127 <> 0 /\ hash_of n' d' h) \/ (d' mod M127 = 0 /\ (n' = 0 \/ Z.rem n' M127 <> 0) /\ h = 0)).
Proof.
  intros Hd H. apply (qrepr_hash_general (Z.to_nat (Z.log2 d)) n d h Hd); [ | exact H].
  rewrite Z2Nat.id by apply Z.log2_nonneg. lia.
Qed.

(** non-vacuity: (2^127-1) / (3 (2^127-1)) is hashed as 1/3; 1 / (2^127-1) as 0 *)
Example qrepr_hash_m127_demo :
  qrepr_hash M127 (3 * M127) = qrepr_hash 1 3 /\ qrepr_hash 1 M127 = Some 0 /\ spec_hash_fin 1 M127 = 0 /\
  qrepr_hash (- 5) (2 * M127) = Some 0.
Proof. vm_compute. repeat split. Qed.
