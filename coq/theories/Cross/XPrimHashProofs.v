(** C14: num-order's hashing of primitive integers and floats (XPrimHashModel.v) agrees with the hashing of the
    big numbers (XDispatch.v): a primitive and a UBig / IBig / FBig / RBig of the same value feed the hasher the same i128. *)
From Dashu Require Import Base.Prelude Cross.XVal Cross.XOrdModel Cross.XDispatch Cross.XOrdProofs Cross.XPrimProofs Cross.XHashProofs
  Cross.XPrimHashModel.
Open Scope Z_scope.

Lemma rem_small x : Z.abs x < M127 -> Z.rem x M127 = x.
Proof. intros H. apply Z.rem_small_iff; [rewrite M127_val; lia | ]. destruct (Z.abs_spec x) as [[? E] | [? E]]; rewrite E in H; lia. Qed.

(** primitive integers: the range of the type is the only hypothesis *)
Theorem prim_int_hash_eq bits (signed : bool) x : (bits = 8 \/ bits = 16 \/ bits = 32 \/ bits = 64 \/ bits = 128) ->
  (if signed then - 2 ^ (bits - 1) <= x < 2 ^ (bits - 1) else 0 <= x < 2 ^ bits) ->
  prim_int_hash bits signed x = int_hash x.
Proof.
  intros Hb Hx. unfold prim_int_hash, int_hash. pose proof M127_val as MV.
  destruct (Z.eqb_spec bits 128) as [-> | N].
  - destruct signed.
    + unfold nh_i128.
      destruct (Z.eqb_spec x (2 ^ 127 - 1)) as [-> | N1]; cbn [orb]; [vm_compute; reflexivity | ].
      destruct (Z.eqb_spec x (- 2 ^ 127 + 1)) as [-> | N2]; [vm_compute; reflexivity | ].
      destruct (Z.eqb_spec x (- 2 ^ 127)) as [-> | N3]; [vm_compute; reflexivity | ].
      symmetry. apply rem_small. change (2 ^ (128 - 1)) with (M127 + 1) in Hx. change (2 ^ 127) with (M127 + 1) in *. lia.
    + unfold nh_u128.
      destruct (Z.eqb_spec x (2 ^ 128 - 1)) as [-> | N1]; [vm_compute; reflexivity | ].
      destruct (Z.eqb_spec x (M127 + M127)) as [-> | N2]; [vm_compute; reflexivity | ].
      change (2 ^ 128) with (2 * M127 + 2) in *.
      destruct (Z.geb_spec x M127) as [G | L].
      * apply Z.rem_unique with (q := 1); [lia | lia | ring].
      * symmetry. apply Z.rem_small. lia.
  - symmetry. apply rem_small.
    assert (B : 2 ^ bits <= 2 ^ 64) by (apply Z.pow_le_mono_r; lia).
    assert (B' : 2 ^ (bits - 1) <= 2 ^ 64) by (apply Z.pow_le_mono_r; lia).
    change (2 ^ 64) with 18446744073709551616 in *. destruct signed; lia.
Qed.

(* ---------------------------------------------------------------- floats *)
Lemma half_shift m e : fnum 2 (2 * m) (e - 1) * fden 2 e = fnum 2 m e * fden 2 (e - 1).
Proof.
  unfold fnum, fden. destruct (Z.leb_spec 0 (e - 1)) as [A | A], (Z.leb_spec 0 e) as [B | B]; try lia.
  - replace (2 ^ e) with (2 * 2 ^ (e - 1)) by (rewrite <- Z.pow_succ_r by lia; f_equal; lia). ring.
  - assert (e = 0) by lia. subst e. change (- (0 - 1)) with 1. rewrite Z.pow_0_r, Z.pow_1_r. ring.
  - replace (- (e - 1)) with (Z.succ (- e)) by lia. rewrite Z.pow_succ_r by lia. ring.
Qed.

Section Float.
Variables mb eb bits : Z.
Hypothesis Hmb : 0 <= mb.
Hypothesis Hmb2 : mb + 1 < 127.
Hypothesis Heb : 1 <= eb.
Hypothesis Hbits : 0 <= bits < 2 ^ (mb + eb + 1).

Let sign_bit := Z.shiftr bits (mb + eb).
Let mant := Z.land bits (2 ^ mb - 1).
Let expo := Z.land (Z.shiftr bits mb) (2 ^ eb - 1).

Lemma mant_range : 0 <= mant < 2 ^ mb.
Proof.
  unfold mant. apply land_ones_bound. lia.
Qed.
Lemma sign_range : 0 <= sign_bit <= 1.
Proof.
  unfold sign_bit. rewrite Z.shiftr_div_pow2 by lia. assert (0 < 2 ^ (mb + eb)) by (apply Z.pow_pos_nonneg; lia).
  split; [apply Z.div_pos; lia | ]. assert (bits / 2 ^ (mb + eb) < 2); [ | lia].
  apply Z.div_lt_upper_bound; [lia | ]. replace (2 ^ (mb + eb) * 2) with (2 ^ (mb + eb + 1)) by (rewrite Z.pow_add_r by lia; ring). lia.
Qed.
Lemma lor_implicit : Z.lor mant (2 ^ mb) = mant + 2 ^ mb.
Proof.
  pose proof mant_range.
  assert (L : Z.land mant (2 ^ mb) = 0).
  { apply Z.bits_inj'; intros n Hn. rewrite Z.land_spec, Z.bits_0, Z.pow2_bits_eqb by lia.
    destruct (Z.eqb_spec mb n) as [<- | ]; [ | apply andb_false_r].
    rewrite andb_true_r. unfold mant. replace (2 ^ mb - 1) with (Z.ones mb) by (rewrite Z.ones_equiv; lia).
    rewrite Z.land_spec, Z.ones_spec_high by lia. apply andb_false_r. }
  rewrite <- (Z.lxor_lor _ _ L). symmetry. apply Z.add_nocarry_lxor. exact L.
Qed.

(** the (significand, exponent) pair fhash works with is a float of the same value as the decoded primitive *)
Lemma fhash_value man ex : decode mb eb bits = DFin man ex ->
  let '(sb, m, e) := fhash_parts mb eb bits in
  let s := if sb =? 0 then m else - m in
  fnum 2 s e * fden 2 ex = fnum 2 man ex * fden 2 e /\ 0 <= m < 2 ^ (mb + 1) /\ (sb = 0 \/ sb = 1).
Proof.
  unfold decode, fhash_parts. fold sign_bit mant expo. pose proof mant_range as MR. pose proof sign_range as SR.
  assert (P : 0 < 2 ^ mb) by (apply Z.pow_pos_nonneg; lia).
  assert (P1 : 2 ^ (mb + 1) = 2 * 2 ^ mb) by (rewrite Z.pow_add_r by lia; ring).
  destruct (Z.eqb_spec expo (2 ^ eb - 1)) as [ | NE]; [destruct (mant =? 0); discriminate | ].
  set (bias := 2 ^ (eb - 1) - 1).
  destruct (Z.eqb_spec expo 0) as [E0 | N0].
  - intros H. assert (He : ex = 1 - bias - mb) by congruence.
    assert (Hm : man = if sign_bit =? 0 then mant else - mant) by congruence. subst man ex. clear H.
    rewrite Z.shiftl_mul_pow2 by lia. rewrite Z.pow_1_r.
    split; [ | split; [lia | lia]].
    replace (expo - (bias + mb)) with ((1 - bias - mb) - 1) by lia.
    replace (if sign_bit =? 0 then mant * 2 else - (mant * 2)) with (2 * (if sign_bit =? 0 then mant else - mant))
      by (destruct (sign_bit =? 0); ring).
    apply half_shift.
  - intros H. assert (He : ex = expo - (bias + mb)) by congruence.
    assert (Hm : man = if sign_bit =? 0 then Z.lor mant (2 ^ mb) else - Z.lor mant (2 ^ mb)) by congruence. subst man ex. clear H.
    rewrite lor_implicit. split; [ | split; [lia | lia]]. ring.
Qed.

Lemma nh_i128_small x : Z.abs x < M127 -> nh_i128 x = x.
Proof.
  intros H. unfold nh_i128. pose proof M127_val. change (2 ^ 127) with (M127 + 1).
  destruct (Z.eqb_spec x (M127 + 1 - 1)); [lia | ]. destruct (Z.eqb_spec x (- (M127 + 1) + 1)); [lia | ].
  destruct (Z.eqb_spec x (- (M127 + 1))); [lia | ]. reflexivity.
Qed.

(** THE statement for floats: a finite f32 / f64 and any big number of the same value hash equally *)
Theorem prim_float_hash_equal man ex t n d hb : decode mb eb bits = DFin man ex ->
  match t with TF B _ _ => 2 <= B | TQ _ d => 0 < d | _ => True end ->
  frac_of t = Some (n, d) -> hash_asis t = Some hb ->
  n * fden 2 ex = fnum 2 man ex * d ->
  prim_float_hash mb eb bits = hb.
Proof.
  intros D W Fr Hb EQ. destruct (hash_asis_of t n d hb W Fr Hb) as [Dpos Ht].
  pose proof (fhash_value man ex D) as V. unfold prim_float_hash, fhash.
  unfold decode in D. fold sign_bit mant expo in D.
  destruct (fhash_parts mb eb bits) as [[sb m] e] eqn:FP.
  fold mant expo. destruct (Z.eqb_spec expo (2 ^ eb - 1)) as [ | NE]; [destruct (mant =? 0); discriminate | ].
  destruct V as (VE & MR & SB). pose proof M127_pos as MP. pose proof M127_val as MV.
  assert (MM : m < M127).
  { assert (2 ^ (mb + 1) <= 2 ^ 126) by (apply Z.pow_le_mono_r; lia). change (2 ^ 126) with 85070591730234615865843651857942052864 in H. lia. }
  set (v := m mod M127 * (2 ^ absm e 127 mod M127) mod M127).
  assert (VR : 0 <= v < M127) by (apply Z.mod_pos_bound; lia).
  rewrite nh_i128_small by (destruct (sb =? 0); lia).
  (* the same number through the float body *)
  set (s := if sb =? 0 then m else - m) in *.
  assert (FH : frepr_hash 2 s e = Some (v * (if sb =? 0 then 1 else -1))).
  { unfold frepr_hash. rewrite Z.eqb_refl. rewrite rem_small by (unfold s; destruct (sb =? 0); lia).
    assert (AS : Z.abs s = m) by (unfold s; destruct (sb =? 0); lia). rewrite AS.
    fold (absm e 127). replace (m * (2 ^ absm e 127 mod M127) mod M127) with v
      by (unfold v; rewrite Z.mul_mod_idemp_l by lia; reflexivity).
    f_equal. unfold s. destruct (Z.eqb_spec sb 0) as [-> | NS]; cbv iota.
    - destruct (Z.ltb_spec m 0); lia.
    - destruct (Z.ltb_spec (- m) 0) as [L | G]; [lia | ]. assert (M0 : m = 0) by lia.
      assert (V0 : v = 0) by (unfold v; rewrite M0; reflexivity).
      rewrite V0. reflexivity. }
  pose proof (frepr_hash_of 2 s e _ ltac:(lia) FH) as Hs.
  apply (hash_of_consistent (fnum 2 s e) (fden 2 e) _ n d hb); try assumption.
  - apply fden_pos; lia.
  - (* s/2^e = man/2^ex = n/d *)
    assert (Pex : 0 < fden 2 ex) by (apply fden_pos; lia).
    apply (Z.mul_cancel_r _ _ (fden 2 ex)); [lia | ].
    replace (fnum 2 s e * d * fden 2 ex) with (fnum 2 s e * fden 2 ex * d) by ring. rewrite VE.
    replace (n * fden 2 e * fden 2 ex) with (n * fden 2 ex * fden 2 e) by ring. rewrite EQ. ring.
Qed.
End Float.

(** non-vacuity: 1.5f32 (0x3fc00000) against the rational 3/2 and the binary float 3 * 2^-1 *)
Example prim_float_hash_demo :
  prim_float_hash 23 8 1069547520 = 85070591730234615865843651857942052865 /\
  hash_asis (TQ 3 2) = Some 85070591730234615865843651857942052865 /\
  hash_asis (TF 2 3 (-1)) = Some 85070591730234615865843651857942052865 /\
  prim_int_hash 128 false (2 ^ 128 - 1) = 1 /\ int_hash (2 ^ 128 - 1) = 1.
Proof. vm_compute. repeat split. Qed.
