(** C16 - the documented panic sets of the public operations: SPECIFICATION (definitions only).

    A [call] is a public operation reduced to the arguments its panic behaviour may depend on;
    the dictionary "Rust operation -> call" is oracle/driver_c16.ml.  [documented c] lists every
    documented precondition that [c] violates (transcribed from the `# Panics` sections and the
    three error.rs files): the operation must panic with one of these reasons when the list is
    not empty and must not panic when it is empty ([may c] lists reasons that are allowed but not
    required: operations on an infinity "will lead to panic" (float/src/repr.rs) without saying which).
    Parsers and fallible conversions are [KTotal]: they return Ok or Err.                       *)
From Dashu Require Import Base.Prelude.
Open Scope Z_scope.

(** the documented reasons of error.rs plus the two documented panics that have no helper there *)
Scheme Equality for reason.
Inductive preason :=
| Doc (r : reason)
| ChunkBitsZero      (* to_chunks / from_chunks: "Panics if chunk_bits is zero" (an assert!) *)
| PrimOverflow.      (* MIN / -1 of a signed primitive: the primitive operator's own panic *)
Definition preason_beq (a b : preason) : bool :=
  match a, b with
  | Doc x, Doc y => reason_beq x y
  | ChunkBitsZero, ChunkBitsZero | PrimOverflow, PrimOverflow => true
  | _, _ => false
  end.

Inductive fval := Fin (sig exp : Z) | Inf.

Inductive fop :=
| FoFinite   (* add sub mul sqr cubic sum product shifts rounding-to-integer ops digits: assert_finite only *)
| FoDiv      (* x / y; inv is 1 / y *)
| FoRem      (* % div_euclid rem_euclid div_rem_euclid *)
| FoSqrt | FoExp | FoLn | FoLn1p
| FoPowi     (* x ^ n, n the integer argument *)
| FoPowf     (* x ^ y *)
| FoTotal.   (* neg abs comparisons formatting fallible conversions: infinities accepted or refused *)

Inductive call :=
| KTotal
| KDiv (b : Z)                        (* every quotient / remainder / reduction form: divisor b *)
| KUSub (a b : Z)                     (* unsigned a - b *)
| KGcd (a b : Z)
| KRoot (x n : Z)                     (* n-th root of the signed x *)
| KIlog (x b : Z)
| KRadix (r : Z)                      (* in_radix *)
| KChunks (bits : Z)                  (* to_chunks / from_chunks *)
| KPrimRem (lo hi a b : Z)            (* IBig a % / div_rem / div_rem_assign by a primitive b of range [lo, hi] *)
| KPrimDiv (lo hi a b : Z)            (* primitive a of range [lo, hi] divided by IBig b, result of the primitive type *)
| KPrimStd (lo a b : Z)               (* DivRem / DivRemEuclid of dashu-base on signed primitives of minimum lo *)
| KRing (m1 m2 : Z) (same isdiv : bool) (b : Z)   (* operation between residues of the rings m1, m2 (same: one ring object); division by residue b of m2 *)
| KToPrim (B : Z) (x : fval)          (* FBig::to_f32 / to_f64 *)
| KFloat (B : Z) (o : fop) (prec : Z) (x y : fval) (n : Z)
| KFloatOpDiv (B prec : Z) (x y : fval)  (* the operator forms x / y (FBig / FBig, FBig / integer, integer / FBig): repr_div at the precision
                                            prec = Context::max of the two operand contexts, operands not shrunk first *)
| KWithBase (B NB tprec : Z) (x : fval)      (* with_base_and_precision::<NB>(tprec) of a base-B float *)
| KToFloat (prec : Z)                 (* RBig::to_float(prec) *)
| KFarey (kind xn xd limit : Z).      (* next_up (0) / next_down (1) / nearest (2) of xn/xd with denominator limit *)

Definition finf (x : fval) : bool := match x with Inf => true | Fin _ _ => false end.
Definition fsig (x : fval) : Z := match x with Inf => 1 | Fin s _ => s end.
Definition fexp (x : fval) : Z := match x with Inf => 0 | Fin _ e => e end.
Definition fzero (x : fval) : bool := match x with Inf => false | Fin s _ => s =? 0 end.
Definition fneg (x : fval) : bool := match x with Inf => false | Fin s _ => s <? 0 end.
(** the value 1 = 1 * B^0 (values are normalised by Repr::new: no trailing zero digits) *)
Definition fone (x : fval) : bool := match x with Inf => false | Fin s e => (s =? 1) && (e =? 0) end.

(** s * B^e <= -1 for B >= 2, without materialising B^(-e) when it certainly exceeds |s| *)
Definition le_minus_one (B s e : Z) : bool :=
  (s <? 0) && ((0 <=? e) || (if Z.log2 (- s) + 1 <? - e then false else B ^ (- e) <=? - s)).

Definition when (b : bool) (r : reason) : list preason := if b then [Doc r] else [].
Definition whenp (b : bool) (r : preason) : list preason := if b then [r] else [].

(** is one base a power (exponent >= 2) of the other, for the bases the library is used with *)
Fixpoint is_pow_fuel (f : nat) (b x : Z) : bool :=
  match f with
  | O => false
  | S k => if x =? b then true else if (x mod b =? 0) && (b <? x) then is_pow_fuel k b (x / b) else false
  end.
Definition is_pow (b x : Z) : bool := (2 <=? b) && is_pow_fuel 64 b x.
Definition pow_related (B NB : Z) : bool := (B =? NB) || is_pow B NB || is_pow NB B.

Definition float_documented (B : Z) (o : fop) (prec : Z) (x y : fval) (n : Z) : list preason :=
  let inf2 := when (finf x || finf y) OperateWithInf in
  let inf1 := when (finf x) OperateWithInf in
  let unl := when (prec =? 0) UnlimitedPrecision in
  match o with
  | FoFinite => inf2
  | FoDiv => inf2 ++ unl ++ when (fzero y) DivideBy0
  | FoRem => inf2 ++ when (fzero y) DivideBy0
  | FoSqrt => inf1 ++ unl ++ when (fneg x) RootNegative
  | FoExp => inf1 ++ unl
  | FoLn => inf1 ++ unl ++ when (negb (finf x) && (fsig x <=? 0)) LogOperand
  | FoLn1p => inf1 ++ unl ++ when (negb (finf x) && le_minus_one B (fsig x) (fexp x)) LogOperand
  | FoPowi => inf1 ++ when ((n <? 0) && (prec =? 0)) UnlimitedPrecision ++ when ((n <? 0) && fzero x) DivideBy0
  | FoPowf => inf1 ++ unl ++ when (fneg x && negb (fzero y) && negb (fone y)) PowerNegativeBase
  | FoTotal => []
  end.

Definition documented (c : call) : list preason :=
  match c with
  | KTotal => []
  | KDiv b => when (b =? 0) DivideBy0
  | KUSub a b => when (a <? b) NegativeUBig
  | KGcd a b => when ((a =? 0) && (b =? 0)) GcdZeroZero
  | KRoot x n => when (n =? 0) RootZeroth ++ when ((x <? 0) && Z.even n) RootNegative
  | KIlog x b => when ((x =? 0) || (b <? 2)) LogOperand
  | KRadix r => when ((r <? 2) || (36 <? r)) InvalidRadix
  | KChunks bits => whenp (bits =? 0) ChunkBitsZero
  | KPrimRem lo hi a b => when (b =? 0) DivideBy0
  | KPrimDiv lo hi a b => when (b =? 0) DivideBy0
  | KPrimStd lo a b => when (b =? 0) DivideBy0
  | KRing m1 m2 same isdiv b =>
      when ((m1 =? 0) || (m2 =? 0)) DivideBy0 ++ when (negb same) DifferentRings
      ++ when (isdiv && negb (m2 =? 0) && negb (Z.gcd (b mod m2) m2 =? 1)) NonInvertible
  | KToPrim B x => []
  | KFloat B o prec x y n => float_documented B o prec x y n
  | KFloatOpDiv B prec x y => float_documented B FoDiv prec x y 0
  | KWithBase B NB tprec x => when ((tprec =? 0) && negb (finf x) && negb (pow_related B NB)) UnlimitedPrecision
  | KToFloat prec => when (prec =? 0) UnlimitedPrecision
  | KFarey kind xn xd limit => when (limit =? 0) DivideBy0
  end.

(** reasons that are allowed although no documented precondition requires a panic *)
Definition may (c : call) : list preason :=
  match c with
  | KFloat B FoTotal prec x y n => when (finf x || finf y) OperateWithInf
  | KFloat B FoPowf prec x y n => when (finf y) OperateWithInf
  | KPrimStd lo a b => whenp ((a =? lo) && (b =? -1)) PrimOverflow
  | _ => []
  end.

(** the either-way band of the exponent range: an isize exponent computation may overflow *)
Definition big (v : Z) : bool := 2 ^ 61 <=? Z.abs v.
Definition exp_band (c : call) : bool :=
  match c with
  | KFloat B o prec x y n =>
      big (fexp x) || big (fexp y) ||
      match o with
      | FoPowi => big ((Z.abs (fexp x) + 1) * n) || big n
      | FoFinite => big n
      | _ => false
      end
  | KWithBase B NB tprec x => big (fexp x)
  | KFloatOpDiv B prec x y => big (fexp x) || big (fexp y)
  | _ => false
  end.

(** the judgement the oracle applies to an observed outcome *)
Inductive outcome := ORet | OPanic (r : preason) | OOverflow | OHang.

Definition mem_reason (r : preason) (l : list preason) : bool := existsb (preason_beq r) l.

Definition accepts (c : call) (o : outcome) : bool :=
  match o with
  | ORet => match documented c with [] => true | _ => false end
  | OPanic r => mem_reason r (documented c) || mem_reason r (may c)
  | OOverflow => exp_band c
  | OHang => false
  end.
