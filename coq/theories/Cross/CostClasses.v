(** C16 round 4 - cost classes of the public operations (definitions + the theorems that tie them to the proved result sizes).

    A [cost_op] is a public operation reduced to what its running time may depend on: the bit lengths of the operands
    AND the numeric parameters (shift count, exponent, precision, denominator limit).  [cost_units] is the bound the
    thorough tier of the run compares the measured time with (time < c * cost_units, c loose: support only, the wall
    clock is not a proof object).  Two families:
      LENGTH-polynomial  add sub cmp bit-ops shr (linear), mul sqr div rem gcd radix conversion (quadratic bound),
                         float arithmetic at precision p (quadratic in p log B), exp / ln (one more factor p log B: the
                         series needs fuel_prec B m = 1 + m log2_up B steps, Cross/SeriesRounded.v);
      VALUE-sized        shl / set_bit (k), pow (e), to_int / RBig of a float with a large exponent (e), Farey stepping
                         (limit): the VALUE of a numeric parameter enters, because the result itself has that size
                         (Cross/AllocBounds.v) or the loop really runs that often (C16_farey_walk_linear).
    All quantities are non-negative integers; lb = log2_up of the float base. *)
From Coq Require Import ZArith Lia.
From Dashu Require Import Cross.AllocBounds.
Open Scope Z_scope.

Inductive cost_op :=
| CoLinear (n : Z)              (* add sub neg abs cmp and or xor not shr bit count_ones trailing_zeros: total operand bits n *)
| CoMul (n m : Z)               (* mul sqr cubic: operand bits *)
| CoDiv (n m : Z)               (* div rem div_rem gcd gcd_ext is_multiple_of sqrt nth_root: operand bits *)
| CoRadix (n : Z)               (* in_radix / Display / from_str: bits (or 8 * text length) *)
| CoShl (n k : Z)               (* a << k, set_bit k, ones k: bits of a, the shift count *)
| CoPow (n e : Z)               (* a ^ e *)
| CoFloatArith (lb p : Z)       (* + - * / sqrt with_precision at precision p, operands respecting it *)
| CoFloatSeries (lb p : Z)      (* exp exp_m1 ln ln_1p powf at precision p, argument exponent small *)
| CoToInt (n lb e : Z)          (* to_int / trunc / RBig::try_from of s * B^e, e >= 0: bits of s *)
| CoFarey (n limit : Z).        (* next_up / next_down / nearest with a denominator limit *)

Definition slack : Z := 64.     (* one word: constant overheads *)

Definition cost_units (o : cost_op) : Z :=
  match o with
  | CoLinear n => n + slack
  | CoMul n m => (n + slack) * (m + slack)
  | CoDiv n m => (n + slack) * (n + slack)
  | CoRadix n => (n + slack) * (n + slack)
  | CoShl n k => n + k + slack
  | CoPow n e => (e * n + slack) * (e * n + slack)
  | CoFloatArith lb p => (p * lb + slack) * (p * lb + slack)
  | CoFloatSeries lb p => (p * lb + slack) * ((p * lb + slack) * (p * lb + slack))
  | CoToInt n lb e => (n + e * lb + slack) * (n + e * lb + slack)
  | CoFarey n limit => (limit + 1) * (n + slack)
  end.

(** is the VALUE of a numeric parameter part of the bound? *)
Definition value_sized (o : cost_op) : bool :=
  match o with CoShl _ _ | CoPow _ _ | CoToInt _ _ _ | CoFarey _ _ => true | _ => false end.

(** the size of the INPUT as the caller writes it down: operand bits + the bit length of every numeric parameter *)
Definition input_len (o : cost_op) : Z :=
  match o with
  | CoLinear n | CoRadix n => n
  | CoMul n m | CoDiv n m => n + m
  | CoShl n k => n + bits k
  | CoPow n e => n + bits e
  | CoFloatArith lb p | CoFloatSeries lb p => p * lb        (* operands of p digits *)
  | CoToInt n lb e => n + bits e
  | CoFarey n limit => n + bits limit
  end.

Definition nonneg_op (o : cost_op) : Prop :=
  match o with
  | CoLinear n | CoRadix n => 0 <= n
  | CoMul n m | CoDiv n m | CoShl n m | CoPow n m | CoFloatArith n m | CoFloatSeries n m | CoFarey n m => 0 <= n /\ 0 <= m
  | CoToInt n lb e => 0 <= n /\ 0 <= lb /\ 0 <= e
  end.

(** * every bound is positive, and at least the size of the result the operation has to write (Cross/AllocBounds.v) *)
Theorem cost_units_pos o : nonneg_op o -> 0 < cost_units o.
Proof. unfold slack. destruct o; cbn [nonneg_op cost_units]; intros H; unfold slack; nia. Qed.

Theorem cost_covers_shl a k : 0 < a -> 0 <= k -> bits (a * 2 ^ k) <= cost_units (CoShl (bits a) k).
Proof. intros Ha Hk. rewrite shl_bits by assumption. cbn [cost_units]. unfold slack. lia. Qed.

Theorem cost_covers_mul a b : 0 < a -> 0 < b -> bits (a * b) <= cost_units (CoMul (bits a) (bits b)).
Proof.
  intros Ha Hb. pose proof (mul_bits a b Ha Hb). pose proof (bits_nonneg a). pose proof (bits_nonneg b).
  cbn [cost_units]. unfold slack. nia.
Qed.

Theorem cost_covers_pow a e : 0 < a -> 0 <= e -> bits (a ^ e) <= cost_units (CoPow (bits a) e).
Proof.
  intros Ha He. pose proof (pow_bits_upper a e Ha He). pose proof (bits_nonneg a).
  cbn [cost_units]. unfold slack. assert (0 <= e * bits a) by nia. nia.
Qed.

Theorem cost_covers_to_int s B e : 0 < s -> 2 <= B -> 0 <= e -> bits (s * B ^ e) <= cost_units (CoToInt (bits s) (bits B) e).
Proof.
  intros Hs HB He. pose proof (to_int_bits s B e Hs HB He). pose proof (bits_nonneg s). pose proof (bits_nonneg B).
  cbn [cost_units]. unfold slack. assert (0 <= e * bits B) by nia. nia.
Qed.

(** * LENGTH-polynomial operations: the bound is a cubic polynomial of the input length, whatever the operands *)
Theorem length_polynomial o : nonneg_op o -> value_sized o = false ->
  cost_units o <= (input_len o + slack) * ((input_len o + slack) * (input_len o + slack)).
Proof.
  unfold slack. destruct o; cbn [nonneg_op value_sized cost_units input_len]; intros H V; try discriminate; unfold slack.
  - nia.
  - destruct H. assert (0 <= n * m) by nia. nia.
  - destruct H. nia.
  - nia.
  - destruct H. assert (0 <= p * lb) by nia. nia.
  - destruct H. assert (0 <= p * lb) by nia. nia.
Qed.

(** * VALUE-sized operations: no polynomial of the input length bounds the result size of shl (AllocBounds.shl_not_linear
      gives the linear case; here every degree).  The caller's parameter VALUE is the size. *)
Theorem shl_not_length_polynomial : forall c d, 0 < c -> 0 <= d ->
  exists a k, 0 < a /\ 0 <= k /\ c * (bits a + bits k + 1) ^ d < bits (a * 2 ^ k).
Proof.
  intros c d Hc Hd.
  assert (P : forall x, 0 <= x -> x + 1 <= 2 ^ x).
  { intros x Hx. pattern x. apply natlike_ind; [reflexivity | | exact Hx].
    intros y Hy IH. rewrite Z.pow_succ_r by exact Hy. lia. }
  pose proof (bits_nonneg c) as Bc.
  remember (2 * d + bits c + 2) as s eqn:Es.
  assert (Hs : 2 <= s) by lia.
  (* t = 2 s:  t d + bits c + 2 <= s^2 <= (s + 1)^2 <= 2^t *)
  assert (T : (s + s) * d + bits c + 2 <= 2 ^ (s + s)).
  { rewrite Z.pow_add_r by lia. pose proof (P s ltac:(lia)) as Ps.
    assert (Q : (s + 1) * (s + 1) <= 2 ^ s * 2 ^ s) by (apply Z.mul_le_mono_nonneg; lia).
    assert (E1 : s * s = 2 * d * s + bits c * s + 2 * s) by (rewrite Es at 1; ring).
    assert (E2 : bits c <= bits c * s) by nia.
    clear - Q E1 E2 Hs Hd Bc. nia. }
  remember (s + s) as t eqn:Et.
  assert (Ht : 4 <= t) by lia.
  pose proof (P t ltac:(lia)) as Pt.
  remember (2 ^ t - 2) as j eqn:Ej.
  assert (Hj : 3 <= j) by lia.
  assert (J2 : 2 ^ j = 2 * 2 ^ (j - 1)) by (rewrite <- Z.pow_succ_r by lia; f_equal; lia).
  assert (J1 : 0 < 2 ^ (j - 1)) by (apply Z.pow_pos_nonneg; lia).
  exists 1, (2 ^ j - 1). split; [lia|]. split; [lia|].
  assert (Bk : bits (2 ^ j - 1) = j) by (apply bits_unique; lia).
  rewrite shl_bits by lia. rewrite Bk. change (bits 1) with 1.
  replace (1 + j + 1) with (2 ^ t) by lia. replace (1 + (2 ^ j - 1)) with (2 ^ j) by lia.
  rewrite <- Z.pow_mul_r by lia.
  assert (C : c < 2 ^ bits c) by (apply (bits_pos_spec c Hc)).
  assert (M : 0 < 2 ^ (t * d)) by (apply Z.pow_pos_nonneg; nia).
  assert (L1 : c * 2 ^ (t * d) < 2 ^ bits c * 2 ^ (t * d)) by (apply Z.mul_lt_mono_pos_r; assumption).
  rewrite <- Z.pow_add_r in L1 by nia.
  assert (L2 : 2 ^ (bits c + t * d) <= 2 ^ j) by (apply Z.pow_le_mono_r; lia).
  lia.
Qed.

(** non-vacuity / what the run evaluates *)
Example cost_units_ex : cost_units (CoShl 3 1000) = 1067 /\ cost_units (CoMul 64 64) = 16384 /\ value_sized (CoPow 8 9) = true /\
  nonneg_op (CoFloatSeries 4 100) /\ value_sized (CoFloatSeries 4 100) = false.
Proof. repeat split; vm_compute; try reflexivity; discriminate. Qed.

(** outcome for the run: the bound of a measured case *)
Definition cost_code (k a b c : Z) : Z :=
  cost_units (if k =? 0 then CoLinear a else if k =? 1 then CoMul a b else if k =? 2 then CoDiv a b else if k =? 3 then CoRadix a
              else if k =? 4 then CoShl a b else if k =? 5 then CoPow a b else if k =? 6 then CoFloatArith a b
              else if k =? 7 then CoFloatSeries a b else if k =? 8 then CoToInt a b c else CoFarey a b).
