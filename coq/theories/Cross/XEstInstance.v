(** C14: an estimator that satisfies the contract of XOrdProofs.v: integer floor / ceiling logarithms
    (XOrdModel.zib / zfb / zqb, the estimator the oracle runs), and Contract.dlen as digits_ub.
    Consequences: the contract is satisfiable by a filter that really decides, and the executable
    [ord_run] / [abs_run] ARE the specification (used by the oracle where the exact value cannot be written down). *)
From Dashu Require Import Base.Prelude Cross.XVal Cross.XOrdModel Cross.XDispatch
  Cross.XOrdProofs Cross.XPrimProofs Cross.XRatioProofs Cross.XDispatchProofs.
From Dashu Require Float.Contract Float.ModelProof.
Open Scope Z_scope.

Definition le_pow2 (x : Z * Z) (k : Z) : Prop := fst x * 2 ^ Z.max (- k) 0 <= snd x * 2 ^ Z.max k 0.

Lemma le_pow2_intro n d k p q : 0 <= p -> 0 <= q -> k = p - q -> n * 2 ^ q <= d * 2 ^ p -> le_pow2 (n, d) k.
Proof.
  intros Hp Hq -> H. unfold le_pow2; cbn [fst snd].
  set (t := Z.min p q).
  replace (2 ^ p) with (2 ^ Z.max (p - q) 0 * 2 ^ t) in H by (rewrite <- Z.pow_add_r by lia; f_equal; lia).
  replace (2 ^ q) with (2 ^ Z.max (- (p - q)) 0 * 2 ^ t) in H by (rewrite <- Z.pow_add_r by lia; f_equal; lia).
  assert (0 < 2 ^ t) by (apply pow2_pos; lia).
  apply (Z.mul_le_mono_pos_r _ _ (2 ^ t)); [assumption | ]. rewrite <- !Z.mul_assoc. exact H.
Qed.

(** y <= 2^k2 < 2^k1 <= x *)
Lemma pow2_sep_le x y k1 k2 : 0 < snd x -> 0 < snd y -> 0 <= fst y -> ge_pow2 x k1 -> le_pow2 y k2 -> k2 < k1 -> mlt y x.
Proof.
  destruct x as [nx dx], y as [ny dy]. unfold ge_pow2, le_pow2, mlt; cbn [fst snd]. intros Hdx Hdy Hny G L Hk.
  set (p1 := 2 ^ Z.max k1 0) in *. set (q1 := 2 ^ Z.max (- k1) 0) in *.
  set (p2 := 2 ^ Z.max k2 0) in *. set (q2 := 2 ^ Z.max (- k2) 0) in *.
  assert (0 < p1) by (apply pow2_pos; lia). assert (0 < q1) by (apply pow2_pos; lia).
  assert (0 < p2) by (apply pow2_pos; lia). assert (0 < q2) by (apply pow2_pos; lia).
  assert (M : p2 * q1 < p1 * q2).
  { unfold p1, p2, q1, q2. rewrite <- !Z.pow_add_r by lia. apply Z.pow_lt_mono_r; lia. }
  assert (0 < nx * q1) by nia.
  assert (S1 : (ny * q2) * (dx * p1) <= (ny * q2) * (nx * q1)) by (apply Z.mul_le_mono_nonneg_l; nia).
  assert (S2 : (ny * q2) * (nx * q1) <= (dy * p2) * (nx * q1)) by (apply Z.mul_le_mono_nonneg_r; nia).
  assert (S3 : (ny * dx) * (p1 * q2) <= (nx * dy) * (p2 * q1)) by nia.
  assert (S4 : (nx * dy) * (p2 * q1) < (nx * dy) * (p1 * q2)).
  { apply Z.mul_lt_mono_pos_l; [ | exact M]. nia. }
  assert (0 < p1 * q2) by nia. nia.
Qed.

Definition zlo_ok (a : ZE) (x : Z * Z) : Prop :=
  match a with None => True | Some k => 0 < snd x /\ ge_pow2 x k end.
Definition zhi_ok (a : ZE) (x : Z * Z) : Prop :=
  0 < snd x /\ 0 <= fst x /\ match a with None => fst x = 0 | Some k => le_pow2 x k end.

Lemma zegt_sound a b x y : zlo_ok a x -> zhi_ok b y -> zegt a b = true -> mlt y x.
Proof.
  destruct a as [ka | ], b as [kb | ]; cbn [zlo_ok zhi_ok zegt]; intros L (Dy & Ny & H) G; try discriminate.
  - destruct L as [Dx Gx]. apply (pow2_sep_le x y ka kb); auto. apply Z.gtb_lt in G. lia.
  - destruct L as [Dx Gx]. destruct x as [nx dx], y as [ny dy]. unfold mlt, ge_pow2 in *; cbn [fst snd] in *. subst ny.
    assert (0 < 2 ^ Z.max ka 0) by (apply pow2_pos; lia). assert (0 < 2 ^ Z.max (- ka) 0) by (apply pow2_pos; lia). nia.
Qed.

(* ---------------------------------------------------------------- floor / ceiling logarithms *)
Lemma log2_lo a : 0 < a -> 2 ^ Z.log2 a <= a.
Proof. intros H. apply Z.log2_spec; exact H. Qed.
Lemma clog2_hi a : 0 < a -> a <= 2 ^ clog2 a /\ 0 <= clog2 a.
Proof.
  intros H. unfold clog2. destruct (Z.leb_spec a 1); [cbn; lia | ].
  pose proof (Z.log2_spec (a - 1) ltac:(lia)) as [_ U]. pose proof (Z.log2_nonneg (a - 1)).
  replace (Z.succ (Z.log2 (a - 1))) with (Z.log2 (a - 1) + 1) in U by lia. lia.
Qed.

Lemma zib_ok z : zlo_ok (fst (zib z)) (Z.abs z, 1) /\ zhi_ok (snd (zib z)) (Z.abs z, 1).
Proof.
  unfold zib. destruct (Z.eqb_spec z 0) as [-> | N]; cbn [fst snd zlo_ok zhi_ok].
  - repeat split; cbn; lia.
  - pose proof (log2_lo (Z.abs z) ltac:(lia)). destruct (clog2_hi (Z.abs z) ltac:(lia)) as [U P].
    pose proof (Z.log2_nonneg (Z.abs z)).
    repeat split; cbn [fst snd]; try lia.
    + apply ge_pow2_intro with (p := Z.log2 (Z.abs z)) (q := 0); lia.
    + apply le_pow2_intro with (p := clog2 (Z.abs z)) (q := 0); lia.
Qed.

Lemma zqb_ok n d : 0 < d -> zlo_ok (fst (zqb n d)) (Z.abs n, d) /\ zhi_ok (snd (zqb n d)) (Z.abs n, d).
Proof.
  intros Hd. unfold zqb. destruct (Z.eqb_spec n 0) as [-> | N]; cbn [fst snd zlo_ok zhi_ok].
  - repeat split; cbn; lia.
  - pose proof (log2_lo (Z.abs n) ltac:(lia)). destruct (clog2_hi (Z.abs n) ltac:(lia)) as [U P].
    pose proof (log2_lo d Hd). destruct (clog2_hi d Hd) as [Ud Pd].
    pose proof (Z.log2_nonneg (Z.abs n)). pose proof (Z.log2_nonneg d).
    assert (0 < 2 ^ Z.log2 (Z.abs n)) by (apply pow2_pos; lia). assert (0 < 2 ^ Z.log2 d) by (apply pow2_pos; lia).
    repeat split; cbn [fst snd]; try lia.
    + apply ge_pow2_intro with (p := Z.log2 (Z.abs n)) (q := clog2 d); try lia. nia.
    + apply le_pow2_intro with (p := clog2 (Z.abs n)) (q := Z.log2 d); try lia. nia.
Qed.

Lemma pow_between_log B t : 2 <= B -> 0 <= t -> 2 ^ (t * Z.log2 B) <= B ^ t <= 2 ^ (t * clog2 B).
Proof.
  intros HB Ht. pose proof (log2_lo B ltac:(lia)). destruct (clog2_hi B ltac:(lia)) as [U P]. pose proof (Z.log2_nonneg B).
  rewrite !(Z.mul_comm t). rewrite !Z.pow_mul_r by lia.
  assert (0 <= 2 ^ Z.log2 B) by (apply Z.pow_nonneg; lia).
  split; apply Z.pow_le_mono_l; lia.
Qed.

Lemma zfb_ok B s e : 2 <= B -> f_is_inf s e = false ->
  zlo_ok (fst (zfb B s e)) (fmag B s e) /\ zhi_ok (snd (zfb B s e)) (fmag B s e).
Proof.
  intros HB _. unfold zfb, fmag. rewrite fnum_abs by lia.
  assert (Qd : 0 < fden B e) by (apply fden_pos; lia).
  destruct (Z.eqb_spec s 0) as [-> | N]; cbn [fst snd zlo_ok zhi_ok].
  - cbn [Z.abs]. rewrite (proj2 (fnum_zero B 0 e ltac:(lia)) eq_refl). repeat split; cbn [fst snd]; lia.
  - pose proof (log2_lo (Z.abs s) ltac:(lia)) as Ls. destruct (clog2_hi (Z.abs s) ltac:(lia)) as [Us Ps].
    pose proof (Z.log2_nonneg (Z.abs s)). pose proof (Z.log2_nonneg B). destruct (clog2_hi B ltac:(lia)) as [_ PB].
    assert (0 < 2 ^ Z.log2 (Z.abs s)) by (apply pow2_pos; lia).
    unfold fnum, fden in *. destruct (Z.leb_spec 0 e); cbn [fst snd zlo_ok zhi_ok].
    + destruct (pow_between_log B e HB ltac:(lia)) as [Bl Bu].
      assert (0 < 2 ^ (e * Z.log2 B)) by (apply pow2_pos; nia). assert (0 < B ^ e) by (apply Z.pow_pos_nonneg; lia).
      repeat split; cbn [fst snd]; try nia.
      * apply ge_pow2_intro with (p := Z.log2 (Z.abs s) + e * Z.log2 B) (q := 0); try nia. rewrite Z.pow_add_r by nia. nia.
      * apply le_pow2_intro with (p := clog2 (Z.abs s) + e * clog2 B) (q := 0); try nia. rewrite Z.pow_add_r by nia. nia.
    + destruct (pow_between_log B (- e) HB ltac:(lia)) as [Bl Bu].
      assert (0 < 2 ^ (- e * Z.log2 B)) by (apply pow2_pos; nia). assert (0 < B ^ (- e)) by (apply Z.pow_pos_nonneg; lia).
      repeat split; cbn [fst snd]; try nia.
      * apply ge_pow2_intro with (p := Z.log2 (Z.abs s)) (q := - e * clog2 B); try nia.
      * apply le_pow2_intro with (p := clog2 (Z.abs s)) (q := - e * Z.log2 B); try nia.
Qed.

Lemma dlen_ok B s : 2 <= B -> s <> 0 -> Z.abs s < B ^ Contract.dlen B s.
Proof. intros HB N. apply (ModelProof.dlen_spec B HB s N). Qed.

(** the executable bodies run with the integer-logarithm estimator ARE the specification *)
Theorem ord_run_is_spec a b r : wf a -> wf b -> ord_run a b = Some r -> r = spec_cmp (val a) (val b).
Proof. apply (ord_asis_correct ZE zegt zib zfb zqb zlo_ok zhi_ok zegt_sound zib_ok zfb_ok zqb_ok). Qed.
Theorem abs_run_is_spec a b c : wf a -> wf b -> abs_run a b = Some c -> Some c = spec_abs_cmp (val a) (val b).
Proof. apply (abs_asis_correct ZE zegt zib zfb zqb Contract.dlen zlo_ok zhi_ok zegt_sound zib_ok zfb_ok zqb_ok dlen_ok). Qed.
Theorem fsame_run_is_spec B s1 e1 s2 e2 : 2 <= B -> fwf s1 e1 -> fwf s2 e2 ->
  Some (fsame_run B s1 e1 s2 e2) = spec_cmp (fval B s1 e1) (fval B s2 e2).
Proof. apply (fsame_ord_correct Contract.dlen dlen_ok). Qed.

(** non-vacuity: the filter decides without touching the exact path *)
Example est_filter_decides :
  est_filter ZE zegt (zfb 10 1 1000000) (zib 5) Positive (fun _ => Eq) = Gt.
Proof. vm_compute. reflexivity. Qed.
