(** C16 round 4 - Repr::new / Repr::normalize / Repr::try_normalize (float/src/repr.rs) with the isize exponent:
    definitions only.  The three branches that strip the trailing zero digits (base 2: trailing_zeros; other
    powers of two: trailing_zeros / bits; generic: UBig::remove) are C05's transcription FloatOrdModel.normalize;
    here the last step is added: the number of stripped digits is ADDED TO THE EXPONENT, an isize.
      before 064626d:  exponent += shift as isize          (panic 'attempt to add with overflow' in builds with overflow
                                                            checks, two's complement wrap otherwise)
      since  064626d:  isize::try_from(shift).ok().and_then(|s| exponent.checked_add(s))?   in try_normalize;
                       normalize = try_normalize or panic_exponent_overflow (float/src/error.rs) *)
From Dashu Require Float.Model.
From Dashu Require Import Base.Prelude Float.FloatOrdModel Float.TextIoSpec.
Open Scope Z_scope.

Inductive rn_out :=
| RnOk (s e : Z)          (* the normalised representation *)
| RnOverflow              (* the documented panic "the exponent of the result is too large!" / None of try_normalize *)
| RnArith.                (* 'attempt to add with overflow': the panic of the old code in checked builds *)

(** the number of stripped digits: run the source's normalisation on exponent 0 *)
Definition strip_count (B s : Z) : result (Z * Z) :=
  match FloatOrdModel.normalize B (FR s 0) with
  | Ok r => Ok (fsig r, fexp r)
  | Panic p => Panic p | Err x => Err x | OutOfFuel => OutOfFuel
  end.

(** two's complement wrap of an isize sum *)
Definition wrap_isize (v : Z) : Z := (v - isize_min) mod 2 ^ 64 + isize_min.

(** Repr::try_normalize as it is since 064626d; [None] is RnOverflow *)
Definition try_normalize_asis (B s e : Z) : result rn_out :=
  if s =? 0 then Ok (RnOk 0 0)
  else rbind (strip_count B s) (fun '(s', shift) =>
    if in_isize shift && in_isize (e + shift) then Ok (RnOk s' (e + shift)) else Ok RnOverflow).

(** Repr::new = Repr { significand, exponent }.normalize() *)
Definition repr_new_asis (B s e : Z) : result rn_out := try_normalize_asis B s e.

(** the code before the repair; [checked] = the build has overflow checks *)
Definition repr_new_old (checked : bool) (B s e : Z) : result rn_out :=
  if s =? 0 then Ok (RnOk 0 0)
  else rbind (strip_count B s) (fun '(s', shift) =>
    if in_isize (e + shift) then Ok (RnOk s' (e + shift))
    else if checked then Ok RnArith else Ok (RnOk s' (wrap_isize (e + shift)))).

(** SPECIFICATION: the normal form of s * B^e (C03's Model.normalize, value level) when its exponent is an isize,
    else the documented overflow panic ("If an operation result is too large ... the operation will panic") *)
Definition repr_new_spec (B s e : Z) : rn_out :=
  let '(s', e') := Model.normalize B s e in
  if in_isize e' then RnOk s' e' else RnOverflow.

(** float/src/third_party/serde.rs repr_from_fields (struct form of the deserialisers): Ok (s, e) | Err *)
Definition repr_from_fields_asis (B s e : Z) : result (Z * Z) :=
  if s =? 0 then
    (if e =? 0 then Ok (0, 0) else if e =? 1 then Ok (0, 1) else if e =? -1 then Ok (0, -1) else Err 1)
  else rbind (try_normalize_asis B s e) (fun o =>
    match o with RnOk s' e' => Ok (s', e') | _ => Err 1 end).

(** before the repair: Repr::new inside the deserialiser *)
Definition repr_from_fields_old (checked : bool) (B s e : Z) : result (Z * Z) :=
  if s =? 0 then
    (if e =? 0 then Ok (0, 0) else if e =? 1 then Ok (0, 1) else if e =? -1 then Ok (0, -1) else Err 1)
  else rbind (repr_new_old checked B s e) (fun o =>
    match o with RnOk s' e' => Ok (s', e') | RnOverflow => Panic Undocumented | RnArith => Panic Undocumented end).

(** fbig_from_fields: the significand must fit the precision (0 = unlimited) *)
Definition fbig_from_fields_asis (B s e p : Z) : result (Z * Z * Z) :=
  rbind (repr_from_fields_asis B s e) (fun '(s', e') =>
    if negb (p =? 0) && negb ((s' =? 0) && negb (e' =? 0)) && (p <? ndigits B s') then Err 1
    else Ok (s', e', p)).

(** outcome code for the correspondence run: 0 = returns, 1 = documented overflow panic, 2 = arithmetic overflow panic *)
Definition repr_new_code (B s e : Z) : Z :=
  match repr_new_asis B s e with Ok (RnOk _ _) => 0 | Ok RnOverflow => 1 | Ok RnArith => 2 | _ => -1 end.
Definition repr_new_spec_code (B s e : Z) : Z :=
  match repr_new_spec B s e with RnOk _ _ => 0 | RnOverflow => 1 | RnArith => 2 end.
