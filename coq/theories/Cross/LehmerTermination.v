(** C16 (termination): the Lehmer gcd loops of integer/src/gcd/lehmer.rs over the as-is model Int/GrlLehmer.v (C12).

    - [lehmer_guess_loop] (lehmer_guess / lehmer_guess_dword, `while ybar != 0`): b + d at least doubles in every full
      iteration and both stay below COEFF_LIMIT, so the fuel w + 1 of the model is never exhausted; the cofactors stay in
      0 ..= COEFF_LIMIT (the `as Word` casts of the double word variant do not truncate); the quotient of the second half
      is never a division by zero.
    - the cofactors describe a sequence of Euclidean steps with quotients >= 1: whenever the combinations
      a x - b y and d y - c x are both non-negative (the only case in which lehmer_step does not trip its carry
      assertions) their sum is strictly below x + y unless no step was guessed (b = 0).
    - [lehmer_loop] (gcd_in_place, `while y.len() > 2`): x + y strictly decreases in every iteration - Euclidean step
      (b = 0) or Lehmer step - hence the loop never runs out of a fuel above x + y, for every word size w >= 2 and every
      switch-over length to the double word guess.
    No hypothesis that the guess is "right" is needed: a wrong guess would make a combination negative, which the model
    (like the debug assertions of lehmer_step) reports as a panic, not as a loop. *)
From Dashu Require Import Base.Prelude Int.GrlSpec Int.GrlModel Int.GrlLehmer.
Open Scope Z_scope.

(** * one half-step *)
Lemma half_inv B L u0 u1 v0 v1 num den sub r s t :
  lehmer_half B L u0 u1 v0 v1 num den sub = HStep r s t ->
  den <> 0 /\ r = u0 + num / den * v0 /\ s = u1 + num / den * v1 /\ t = num - num / den * den /\
  r <= L /\ s <= L /\ s <= t.
Proof.
  unfold lehmer_half. destruct (den =? 0) eqn:E0; [discriminate|]. apply Z.eqb_neq in E0.
  destruct (L <? num / den); [discriminate|].
  destruct (negb _); [discriminate|].
  destruct ((L <? u0 + num / den * v0) || (L <? u1 + num / den * v1)) eqn:E1; [discriminate|].
  apply orb_false_iff in E1. destruct E1 as [E1 E2]. apply Z.ltb_ge in E1. apply Z.ltb_ge in E2.
  destruct (num - num / den * den <? u1 + num / den * v1) eqn:E3; [discriminate|]. apply Z.ltb_ge in E3.
  destruct (negb _); [discriminate|].
  destruct (den - sub <? _); [discriminate|].
  intros H. injection H as <- <- <-. repeat split; assumption.
Qed.

(** quotient and remainder facts used below *)
Lemma quot_facts num den : 0 <= num -> 0 < den ->
  0 <= num / den /\ 0 <= num - num / den * den < den /\ (den <= num -> 1 <= num / den).
Proof.
  intros Hn Hd. pose proof (Z.div_mod num den ltac:(lia)) as E. pose proof (Z.mod_pos_bound num den Hd) as M.
  assert (0 <= num / den) by (apply Z.div_pos; lia).
  repeat split; try lia; try (intros Hle; apply Z.div_le_lower_bound; lia).
Qed.

(** * the cofactors as a decreasing transformation *)
Definition Dec (a b c d : Z) : Prop :=
  forall x y, 0 <= x -> 0 < y -> 0 <= a * x - b * y -> 0 <= d * y - c * x -> (a * x - b * y) + (d * y - c * x) < x + y.

Definition InitOrDec (a b c d : Z) : Prop := (a = 1 /\ b = 0 /\ c = 0 /\ d = 1) \/ Dec a b c d.

Lemma dec_first a b c d q : 1 <= q -> InitOrDec a b c d -> Dec (a + q * c) (b + q * d) c d.
Proof.
  intros Hq [(-> & -> & -> & ->)|HD]; unfold Dec; intros x y Hx Hy HX HY.
  - clear - Hq Hx Hy. nia.
  - assert (E : (a + q * c) * x - (b + q * d) * y = (a * x - b * y) - q * (d * y - c * x)) by ring.
    rewrite E in HX |- *.
    set (X := a * x - b * y) in *. set (Y := d * y - c * x) in *.
    assert (HX0 : 0 <= X) by (clear - HX HY Hq; nia).
    pose proof (HD x y Hx Hy HX0 HY) as HDxy. fold X Y in HDxy.
    clear - HDxy HY Hq. nia.
Qed.

Lemma dec_second a b c d q : 0 <= q -> Dec a b c d -> Dec a b (c + q * a) (d + q * b).
Proof.
  intros Hq HD. unfold Dec. intros x y Hx Hy HX HY.
  assert (E : (d + q * b) * y - (c + q * a) * x = (d * y - c * x) - q * (a * x - b * y)) by ring.
  rewrite E in HY |- *.
  set (X := a * x - b * y) in *. set (Y := d * y - c * x) in *.
  assert (HY0 : 0 <= Y) by (clear - HX HY Hq; nia).
  pose proof (HD x y Hx Hy HX HY0) as HDxy. fold X Y in HDxy.
  clear - HDxy HX Hq. nia.
Qed.

(** * the guess loop *)
Definition guess_post (L : Z) (r : result (Z * Z * Z * Z)) : Prop :=
  match r with
  | Ok (a, b, c, d) => 0 <= a <= L /\ 0 <= b <= L /\ 0 <= c <= L /\ 0 <= d <= L /\ (b = 0 \/ Dec a b c d)
  | Panic _ => True
  | _ => False
  end.

Lemma guess_loop_ok : forall fuel B L a b c d xbar ybar,
  1 <= L -> 1 <= a <= L -> 0 <= b <= L -> 0 <= c <= L -> 1 <= d <= L -> 0 <= ybar <= xbar ->
  InitOrDec a b c d -> 2 * L < (b + d) * 2 ^ Z.of_nat fuel ->
  guess_post L (lehmer_guess_loop fuel B L a b c d xbar ybar).
Proof.
  induction fuel as [|k IH]; intros B L a b c d xbar ybar HL Ha Hb Hc Hd Hxy HI HF.
  - exfalso. change (Z.of_nat 0) with 0 in HF. rewrite Z.pow_0_r in HF. lia.
  - assert (Hcur : guess_post L (Ok (a, b, c, d))).
    { cbn. repeat split; try lia. destruct HI as [(_ & -> & _)|HD]; [left; reflexivity | right; exact HD]. }
    cbn [lehmer_guess_loop]. destruct (ybar =? 0) eqn:Ey; [exact Hcur|]. apply Z.eqb_neq in Ey.
    destruct (lehmer_half B L a b c d xbar ybar c) as [| |r s t] eqn:H1; [exact Hcur | exact I |].
    apply half_inv in H1. destruct H1 as (_ & Er & Es & Et & Hr & Hs & Hst).
    destruct (quot_facts xbar ybar ltac:(lia) ltac:(lia)) as (Q0 & QR & Q1). specialize (Q1 ltac:(lia)).
    set (q := xbar / ybar) in *.
    assert (Hqc : 0 <= q * c) by (clear - Q0 Hc; nia).
    assert (Hqd : d <= q * d) by (clear - Q1 Hd; nia).
    assert (HD1 : Dec r s c d) by (subst r s; apply dec_first; assumption).
    assert (Hcur1 : guess_post L (Ok (r, s, c, d))).
    { cbn. repeat split; try lia. right. exact HD1. }
    cbv zeta. destruct (t =? s); [exact Hcur1|].
    destruct (lehmer_half B L d c s r ybar t c) as [| |r2 s2 t2] eqn:H2; [exact Hcur1 | exact I |].
    apply half_inv in H2. destruct H2 as (Ht0 & Er2 & Es2 & Et2 & Hr2 & Hs2 & Hst2).
    destruct (quot_facts ybar t ltac:(lia) ltac:(lia)) as (P0 & PR & P1). specialize (P1 ltac:(lia)).
    set (q2 := ybar / t) in *.
    assert (Hq2s : s <= q2 * s) by (clear - P1 Hb Es Hqd Hd; nia).
    assert (Hq2r : 0 <= q2 * r) by (clear - P0 Er Ha Hqc; nia).
    assert (HD2 : Dec r s s2 r2) by (subst r2 s2; apply dec_second; [lia | exact HD1]).
    destruct (t2 =? s2).
    + cbn. repeat split; try lia. right. exact HD2.
    + apply IH; try lia.
      * right. exact HD2.
      * rewrite Nat2Z.inj_succ, Z.pow_succ_r in HF by lia.
        assert (0 < 2 ^ Z.of_nat k) by (apply Z.pow_pos_nonneg; lia).
        assert (2 * (b + d) <= s + r2) by lia.
        clear - HF H H0. nia.
Qed.

Lemma coeff_limit_ge_1 w : 2 <= w -> 1 <= coeff_limit w /\ 2 * coeff_limit w < 2 ^ w.
Proof.
  intros Hw. unfold coeff_limit.
  assert (E : 2 ^ w = 2 * 2 ^ (w - 1)) by (rewrite <- Z.pow_succ_r by lia; f_equal; lia).
  assert (2 <= 2 ^ (w - 1)) by (change 2 with (2 ^ 1) at 1; apply Z.pow_le_mono_r; lia). lia.
Qed.

Lemma guess_fuel_enough w : 2 <= w -> 2 * coeff_limit w < (0 + 1) * 2 ^ Z.of_nat (guess_fuel w).
Proof.
  intros Hw. unfold guess_fuel. rewrite Nat2Z.inj_succ, Z2Nat.id, Z.pow_succ_r by lia.
  destruct (coeff_limit_ge_1 w Hw) as [_ H]. assert (0 < 2 ^ w) by (apply Z.pow_pos_nonneg; lia). lia.
Qed.

Theorem lehmer_guess_total w xbar ybar : 2 <= w -> 0 <= ybar -> guess_post (coeff_limit w) (lehmer_guess w xbar ybar).
Proof.
  intros Hw Hy. unfold lehmer_guess. destruct (xbar <? ybar) eqn:E; [exact I|]. apply Z.ltb_ge in E.
  destruct (coeff_limit_ge_1 w Hw) as [HL _].
  apply guess_loop_ok; try lia.
  - left. repeat split.
  - apply guess_fuel_enough. exact Hw.
Qed.

Theorem lehmer_guess_dword_total w xbar ybar : 2 <= w -> 0 <= ybar -> guess_post (coeff_limit w) (lehmer_guess_dword w xbar ybar).
Proof.
  intros Hw Hy. unfold lehmer_guess_dword. destruct (xbar <? ybar) eqn:E; [exact I|]. apply Z.ltb_ge in E.
  destruct (coeff_limit_ge_1 w Hw) as [HL HL2].
  pose proof (guess_loop_ok (guess_fuel w) (2 ^ (2 * w)) (coeff_limit w) 1 0 0 1 xbar ybar HL ltac:(lia) ltac:(lia) ltac:(lia) ltac:(lia)
                ltac:(lia) (or_introl (conj eq_refl (conj eq_refl (conj eq_refl eq_refl)))) (guess_fuel_enough w Hw)) as H.
  destruct (lehmer_guess_loop _ _ _ 1 0 0 1 xbar ybar) as [[[[a b] c] d]| | |]; cbn [rbind]; try exact H.
  cbn in H. destruct H as (Ha & Hb & Hc & Hd & HD).
  rewrite !Z.mod_small by lia. cbn. repeat split; try lia. exact HD.
Qed.

Lemma lehmer_guess_for_total mdl w x y : 2 <= w -> 0 <= y -> guess_post (coeff_limit w) (lehmer_guess_for mdl w x y).
Proof.
  intros Hw Hy. unfold lehmer_guess_for.
  assert (P2 : 0 < 2 ^ (2 * w)) by (apply Z.pow_pos_nonneg; lia).
  assert (P1 : 0 < 2 ^ w) by (apply Z.pow_pos_nonneg; lia).
  assert (D : forall u k, 0 <= u -> 0 <= u / 2 ^ k).
  { intros u k Hu. destruct (Z_lt_le_dec k 0).
    - rewrite Z.pow_neg_r by lia. rewrite Zdiv_0_r. lia.
    - apply Z.div_pos; [exact Hu | apply Z.pow_pos_nonneg; lia]. }
  destruct (wlen w x <? mdl).
  - destruct (highest_word_normalized w x y) as [xh yh] eqn:E. unfold highest_word_normalized in E.
    injection E as <- <-. apply lehmer_guess_total; [exact Hw|].
    apply Z.div_pos; [|exact P1]. apply Z.mod_pos_bound. exact P2.
  - destruct (highest_dword_normalized w x y) as [xh yh] eqn:E. unfold highest_dword_normalized in E.
    match type of E with (let '(y0, y12) := ?p in _) = _ => destruct p as [y0 y12] eqn:EY end.
    injection E as <- <-. apply lehmer_guess_dword_total; [exact Hw|].
    assert (Hy12 : 0 <= y12).
    { unfold slice_dword, highest_dword, top_word in EY.
      destruct (wlen w x - wlen w y =? 0); [injection EY as <- <-; apply Z.mod_pos_bound; exact P2|].
      destruct (wlen w x - wlen w y =? 1); [injection EY as <- <-; apply D; exact Hy|].
      destruct (wlen w x - wlen w y =? 2); injection EY as <- <-; [apply D; exact Hy | lia]. }
    apply Z.lor_nonneg. split.
    + apply Z.mod_pos_bound. exact P2.
    + apply Z.shiftr_nonneg. exact Hy12.
Qed.

(** * the outer loop of gcd_in_place *)
Lemma wlen_pos w ml y : 0 <= ml -> 0 <= y -> (wlen w y <=? ml) = false -> 0 < y.
Proof.
  unfold wlen. intros Hml Hy H. apply Z.leb_gt in H.
  destruct (y =? 0) eqn:E; [lia|]. apply Z.eqb_neq in E. lia.
Qed.

Lemma lehmer_iter_decreases mdl w x y : 2 <= w -> 0 < y <= x ->
  match lehmer_iter mdl w x y with
  | Ok (StEuclid q r) => 0 <= r < y
  | Ok (StLehmer a b c d x' y') => 0 <= x' /\ 0 <= y' /\ x' + y' < x + y
  | Panic _ => True
  | _ => False
  end.
Proof.
  intros Hw Hxy. unfold lehmer_iter.
  pose proof (lehmer_guess_for_total mdl w x y Hw ltac:(lia)) as G.
  destruct (lehmer_guess_for mdl w x y) as [[[[a b] c] d]| | |]; cbn [rbind]; try exact G.
  cbn in G. destruct G as (_ & _ & _ & _ & HD).
  destruct (b =? 0) eqn:Eb.
  - apply Z.mod_pos_bound. lia.
  - apply Z.eqb_neq in Eb. destruct HD as [HD|HD]; [contradiction|].
    destruct ((a * x - b * y <? 0) || (d * y - c * x <? 0)) eqn:E; [exact I|].
    apply orb_false_iff in E. destruct E as [E1 E2]. apply Z.ltb_ge in E1. apply Z.ltb_ge in E2.
    repeat split; try assumption. apply HD; lia.
Qed.

(** the loop returns (or panics) within any fuel above x + y, and what it returns is an ordered pair not above the input *)
Theorem lehmer_loop_terminates : forall fuel mdl w ml x y sw, 2 <= w -> 0 <= ml -> 0 <= y <= x -> x + y < Z.of_nat fuel ->
  match lehmer_loop fuel mdl w ml x y sw with
  | Ok (x', y', _) => 0 <= y' <= x' /\ x' + y' <= x + y
  | Panic _ => True
  | _ => False
  end.
Proof.
  induction fuel as [|k IH]; intros mdl w ml x y sw Hw Hml Hxy Hf; [lia|].
  cbn [lehmer_loop]. destruct (wlen w y <=? ml) eqn:E; [lia|].
  pose proof (wlen_pos w ml y Hml ltac:(lia) E) as Hy0.
  pose proof (lehmer_iter_decreases mdl w x y Hw ltac:(lia)) as HI.
  destruct (lehmer_iter mdl w x y) as [[q r|a b c d x' y']| | |]; try exact I; try contradiction.
  - specialize (IH mdl w ml y r (negb sw) Hw Hml ltac:(lia) ltac:(lia)).
    destruct (lehmer_loop k mdl w ml y r (negb sw)) as [[[x2 y2] s2]| | |]; try exact IH. lia.
  - destruct HI as (Hx' & Hy' & Hs). destruct (x' <=? y') eqn:El.
    + apply Z.leb_le in El. specialize (IH mdl w ml y' x' (negb sw) Hw Hml ltac:(lia) ltac:(lia)).
      destruct (lehmer_loop k mdl w ml y' x' (negb sw)) as [[[x2 y2] s2]| | |]; try exact IH. lia.
    + apply Z.leb_gt in El. specialize (IH mdl w ml x' y' sw Hw Hml ltac:(lia) ltac:(lia)).
      destruct (lehmer_loop k mdl w ml x' y' sw) as [[[x2 y2] s2]| | |]; try exact IH. lia.
Qed.

Corollary lehmer_loop_never_out_of_fuel fuel mdl w ml x y sw : 2 <= w -> 0 <= ml -> 0 <= y <= x -> x + y < Z.of_nat fuel ->
  lehmer_loop fuel mdl w ml x y sw <> OutOfFuel.
Proof.
  intros Hw Hml Hxy Hf H. pose proof (lehmer_loop_terminates fuel mdl w ml x y sw Hw Hml Hxy Hf) as T.
  rewrite H in T. exact T.
Qed.

(** gcd_large (UBig / IBig gcd of two multi-word values): Lehmer loop, then the primitive gcd of at most two words *)
From Dashu Require Import Int.GrlGcdProof.

Theorem lehmer_gcd_asis_terminates fuel w x y : 2 <= w -> 0 <= x -> 0 <= y -> x + y < Z.of_nat fuel ->
  lehmer_gcd_asis fuel w x y <> OutOfFuel.
Proof.
  intros Hw Hx Hy Hf. unfold lehmer_gcd_asis, lehmer_gcd_gen.
  destruct (x =? y); [discriminate|].
  assert (G : forall lhs rhs, 0 <= rhs <= lhs -> lhs + rhs < Z.of_nat fuel ->
              rbind (gcd_in_place_gen fuel fuel MIN_DWORD_GUESS_LEN w lhs rhs) (fun r => Ok (fst r)) <> OutOfFuel).
  { intros lhs rhs Ho Hs. unfold gcd_in_place_gen. destruct (lhs <? rhs); [discriminate|].
    pose proof (lehmer_loop_terminates fuel MIN_DWORD_GUESS_LEN w 2 lhs rhs false Hw ltac:(lia) Ho Hs) as T.
    destruct (lehmer_loop fuel MIN_DWORD_GUESS_LEN w 2 lhs rhs false) as [[[x' y'] s']| | |]; cbn [rbind]; try discriminate; try contradiction.
    destruct T as (T1 & T2).
    destruct (y' =? 0) eqn:E0; [discriminate|]. apply Z.eqb_neq in E0.
    pose proof (Z.mod_pos_bound x' y' ltac:(lia)) as M.
    assert (P : forall bits, prim_gcd_asis fuel bits (x' mod y') y' <> OutOfFuel).
    { intros bits. apply prim_gcd_asis_terminates; lia. }
    destruct ((y' / 2 ^ w) mod 2 ^ w =? 0).
    - specialize (P w). destruct (prim_gcd_asis fuel w (x' mod y') y'); cbn [rbind]; try discriminate. contradiction.
    - specialize (P (2 * w)). destruct (prim_gcd_asis fuel (2 * w) (x' mod y') y'); cbn [rbind]; try discriminate. contradiction. }
  destruct (y <? x) eqn:E; [apply Z.ltb_lt in E | apply Z.ltb_ge in E]; apply G; lia.
Qed.

(** non-vacuity: two 3-word values (w = 8 so that the example stays small), and with the real word size *)
Example lehmer_gcd_run : lehmer_gcd_asis 100 8 (3 * 5 * 7 * 65537 * 11) (3 * 7 * 65539 * 13) = Ok 21.
Proof. vm_compute. reflexivity. Qed.
Example lehmer_guess_run : lehmer_guess 64 (2 ^ 63 + 12345) (2 ^ 62 + 999) = Ok (1, 2, 0, 1).
Proof. vm_compute. reflexivity. Qed.
