(** C16 round 4 - proofs about Repr::new / try_normalize with the isize exponent (Cross/ReprNew.v). *)
From Coq Require Import ZArith Lia List Bool.
From Dashu Require Float.Model Float.ModelProof Float.ParseProof Float.FloatOrdProducers.
From Dashu Require Import Base.Prelude Float.FloatOrdModel Float.TextIoSpec Cross.ReprNew Cross.ParseIdxProofs.
Open Scope Z_scope.

Section ReprNew.
Variable B : Z.
Hypothesis B_ge_2 : 2 <= B.

(** the three source branches strip exactly the trailing zero digits (C05 / C14: normalize_models_agree) *)
Lemma strip_count_eq s : strip_count B s = Ok (Model.normalize B s 0).
Proof.
  unfold strip_count. rewrite (FloatOrdProducers.normalize_models_agree B B_ge_2 s 0).
  unfold FloatOrdProducers.fr. cbn [fsig fexp]. destruct (Model.normalize B s 0); reflexivity.
Qed.

(** the number of stripped digits is at most the bit length of the significand *)
Lemma strip_count_bound s : s <> 0 ->
  let '(s', k) := Model.normalize B s 0 in
  s' <> 0 /\ s' mod B <> 0 /\ 0 <= k <= Z.log2 (Z.abs s) /\ s = s' * B ^ k.
Proof.
  intros Hs. pose proof (ModelProof.normalize_spec B B_ge_2 s 0) as N.
  destruct (Model.normalize B s 0) as [s' k]. destruct N as [_ N].
  destruct (N Hs) as (N1 & N2 & j & Hj & Ek & V). replace k with j by lia.
  repeat split; try assumption; try lia.
  assert (P : 2 ^ j <= B ^ j) by (apply Z.pow_le_mono_l; lia).
  assert (A : 2 ^ j <= Z.abs s).
  { rewrite V, Z.abs_mul. assert (0 < B ^ j) by (apply Z.pow_pos_nonneg; lia).
    rewrite (Z.abs_eq (B ^ j)) by lia. assert (1 <= Z.abs s') by lia.
    assert (1 * B ^ j <= Z.abs s' * B ^ j) by (apply Z.mul_le_mono_nonneg_r; lia). lia. }
  apply Z.log2_le_pow2; lia.
Qed.

(** AS-IS = SPEC: Repr::new returns the normal form of s * B^e, or the documented overflow exactly when the
    exponent of the normal form is not an isize.  The side condition says that the significand has fewer than
    2^63 bits (any value that fits the address space). *)
Theorem repr_new_asis_eq_spec s e : in_isize e = true -> Z.log2 (Z.abs s) <= isize_max ->
  repr_new_asis B s e = Ok (repr_new_spec B s e).
Proof.
  intros He Hl. unfold repr_new_asis, try_normalize_asis, repr_new_spec.
  destruct (Z.eqb_spec s 0) as [->|Hs].
  - rewrite (ParseProof.normalize_zero B). reflexivity.
  - rewrite strip_count_eq. cbn [rbind].
    rewrite (ParseProof.normalize_shift B B_ge_2 s e Hs).
    pose proof (strip_count_bound s Hs) as Hb.
    destruct (Model.normalize B s 0) as [s' k]. cbn [fst snd].
    destruct Hb as (_ & _ & Hk & _).
    assert (in_isize k = true) as ->.
    { unfold in_isize, isize_min in *. apply andb_true_iff. split; apply Z.leb_le; lia. }
    cbn [andb]. destruct (in_isize (e + k)); reflexivity.
Qed.

(** the overflow outcome characterised: a non-zero significand whose stripped digits push the exponent above isize::MAX *)
Theorem repr_new_overflow_iff s e : in_isize e = true -> Z.log2 (Z.abs s) <= isize_max ->
  (repr_new_asis B s e = Ok RnOverflow <-> s <> 0 /\ isize_max < e + snd (Model.normalize B s 0)).
Proof.
  intros He Hl. rewrite (repr_new_asis_eq_spec s e He Hl). unfold repr_new_spec.
  destruct (Z.eq_dec s 0) as [->|Hs].
  - rewrite (ParseProof.normalize_zero B). cbn. split; [discriminate | intros [H _]; contradiction].
  - rewrite (ParseProof.normalize_shift B B_ge_2 s e Hs).
    pose proof (strip_count_bound s Hs) as Hb. destruct (Model.normalize B s 0) as [s' k]. cbn [fst snd].
    destruct Hb as (_ & _ & Hk & _).
    assert (He' : isize_min <= e <= isize_max).
    { unfold in_isize in He. apply andb_true_iff in He. destruct He as [H1 H2]. apply Z.leb_le in H1. apply Z.leb_le in H2. lia. }
    destruct (in_isize (e + k)) eqn:E; unfold in_isize in E.
    + apply andb_true_iff in E. destruct E as [_ E2]. apply Z.leb_le in E2.
      split; [discriminate | intros [_ H]; lia].
    + split; [intros _ | intros _; reflexivity]. split; [exact Hs|].
      apply andb_false_iff in E. destruct E as [E|E]; [apply Z.leb_gt in E | apply Z.leb_gt in E]; lia.
Qed.

(** what is returned is the same number, normalised, with an isize exponent *)
Theorem repr_new_ok_value s e s' e' : in_isize e = true -> Z.log2 (Z.abs s) <= isize_max ->
  repr_new_asis B s e = Ok (RnOk s' e') ->
  in_isize e' = true /\ (s = 0 -> s' = 0 /\ e' = 0) /\ (s <> 0 -> s' mod B <> 0 /\ e <= e' /\ s = s' * B ^ (e' - e)).
Proof.
  intros He Hl. rewrite (repr_new_asis_eq_spec s e He Hl). unfold repr_new_spec.
  pose proof (ModelProof.normalize_spec B B_ge_2 s e) as N.
  destruct (Model.normalize B s e) as [a ea]. destruct (in_isize ea) eqn:E; [|discriminate].
  intros H. injection H as <- <-. split; [exact E|]. destruct N as [N0 N1]. split; [exact N0|].
  intros Hs. destruct (N1 Hs) as (_ & M & k & Hk & Ek & V). split; [exact M|]. split; [lia|].
  replace (ea - e) with k by lia. exact V.
Qed.

(** Repr::new never ends in the arithmetic-overflow panic and never runs out of fuel *)
Theorem repr_new_asis_clean s e : exists o, repr_new_asis B s e = Ok o /\ o <> RnArith.
Proof.
  unfold repr_new_asis, try_normalize_asis. destruct (s =? 0); [eexists; split; [reflexivity | discriminate]|].
  rewrite strip_count_eq. cbn [rbind]. destruct (Model.normalize B s 0) as [s' k].
  destruct (in_isize k && in_isize (e + k)); eexists; (split; [reflexivity | discriminate]).
Qed.

(** the struct form of the Repr / FBig deserialisers: Ok or Err on every pair / triple of fields *)
Theorem repr_from_fields_no_panic s e : no_panic (repr_from_fields_asis B s e).
Proof.
  unfold repr_from_fields_asis. destruct (s =? 0).
  - destruct (e =? 0); [exact I|]. destruct (e =? 1); [exact I|]. destruct (e =? -1); exact I.
  - destruct (repr_new_asis_clean s e) as (o & E & _). unfold repr_new_asis in E. rewrite E. cbn [rbind].
    destruct o; exact I.
Qed.

Theorem fbig_from_fields_no_panic s e p : no_panic (fbig_from_fields_asis B s e p).
Proof.
  unfold fbig_from_fields_asis. apply np_bind; [apply repr_from_fields_no_panic|].
  intros [s' e']. destruct (_ && _); exact I.
Qed.

(** an accepted float has an isize exponent and respects its precision *)
Theorem fbig_from_fields_ok s e p s' e' p' : in_isize e = true -> Z.log2 (Z.abs s) <= isize_max ->
  fbig_from_fields_asis B s e p = Ok (s', e', p') ->
  p' = p /\ in_isize e' = true /\ (p = 0 \/ (s' = 0 /\ e' <> 0) \/ ndigits B s' <= p).
Proof.
  intros He Hl. unfold fbig_from_fields_asis, repr_from_fields_asis.
  destruct (Z.eqb_spec s 0) as [->|Hs].
  - assert (X : forall (s1 e1 : Z), in_isize e1 = true -> (s1 = 0 /\ (e1 = 0 \/ e1 = 1 \/ e1 = -1)) ->
        rbind (Ok (s1, e1)) (fun '(s', e') => if negb (p =? 0) && negb ((s' =? 0) && negb (e' =? 0)) && (p <? ndigits B s') then Err 1
                                               else Ok (s', e', p)) = Ok (s', e', p') ->
        p' = p /\ in_isize e' = true /\ (p = 0 \/ (s' = 0 /\ e' <> 0) \/ ndigits B s' <= p)).
    { intros s1 e1 I1 [-> H1]. cbn [rbind]. destruct (_ && _) eqn:G; [discriminate|]. intros H. injection H as <- <- <-.
      split; [reflexivity|]. split; [exact I1|].
      destruct (Z.eqb_spec p 0) as [->|Hp]; [left; reflexivity|]. cbn [negb andb] in G.
      destruct (Z.eqb_spec e1 0) as [->|He1]; cbn [negb andb Z.eqb] in G.
      - right. right. apply Z.ltb_ge in G. exact G.
      - right. left. split; [reflexivity | exact He1]. }
    destruct (Z.eqb_spec e 0) as [->|]; [apply (X 0 0); [reflexivity | auto]|].
    destruct (Z.eqb_spec e 1) as [->|]; [apply (X 0 1); [reflexivity | auto]|].
    destruct (Z.eqb_spec e (-1)) as [->|]; [apply (X 0 (-1)); [reflexivity | auto] | discriminate].
  - pose proof (repr_new_asis_eq_spec s e He Hl) as Q. unfold repr_new_asis in Q. rewrite Q. cbn [rbind].
    pose proof (repr_new_ok_value s e) as V. unfold repr_new_asis in V. rewrite Q in V.
    destruct (repr_new_spec B s e) as [a ea| |]; cbn [rbind]; try discriminate.
    destruct (V a ea He Hl eq_refl) as (Ia & _ & Va). destruct (Va Hs) as (M & _ & _).
    destruct (_ && _) eqn:G; [discriminate|]. intros H. injection H as <- <- <-.
    split; [reflexivity|]. split; [exact Ia|].
    destruct (Z.eqb_spec p 0) as [->|Hp]; [left; reflexivity|]. cbn [negb andb] in G.
    assert (a <> 0) by (intros ->; rewrite Z.mod_0_l in M; lia).
    destruct (Z.eqb_spec a 0); [contradiction|]. cbn [negb andb] in G. right. right. apply Z.ltb_ge in G. exact G.
Qed.

End ReprNew.

(** * the code before the repair 064626d, refuted by the witness of the finding *)
Theorem repr_new_old_refuted :
  repr_new_spec 10 10 isize_max = RnOverflow /\
  repr_new_old true 10 10 isize_max = Ok RnArith /\
  repr_new_old false 10 10 isize_max = Ok (RnOk 1 isize_min) /\
  repr_new_asis 10 10 isize_max = Ok RnOverflow.
Proof. repeat split; vm_compute; reflexivity. Qed.

(** 02 0a 00 | zigzag(isize::MAX) | 00 in postcard: the deserialiser of DBig panicked / returned 10^isize::MIN *)
Theorem repr_from_fields_old_refuted :
  repr_from_fields_old true 10 10 isize_max = Panic Undocumented /\
  repr_from_fields_old false 10 10 isize_max = Ok (1, isize_min) /\
  repr_from_fields_asis 10 10 isize_max = Err 1.
Proof. repeat split; vm_compute; reflexivity. Qed.

(** non-vacuity *)
Example repr_new_ex : repr_new_asis 10 400 (-2) = Ok (RnOk 4 0) /\ repr_new_asis 2 400 (-2) = Ok (RnOk 25 2) /\
  repr_new_asis 16 (-4096) isize_max = Ok RnOverflow /\ repr_new_asis 16 (-4095) isize_max = Ok (RnOk (-4095) isize_max) /\
  repr_new_asis 3 9 (isize_max - 2) = Ok (RnOk 1 isize_max) /\ in_isize (-2) = true /\ Z.log2 (Z.abs 400) <= isize_max.
Proof. repeat split; vm_compute; try reflexivity; discriminate. Qed.
Example fbig_from_fields_ex : fbig_from_fields_asis 10 1230 0 3 = Ok (123, 1, 3) /\ fbig_from_fields_asis 10 1234 0 3 = Err 1 /\
  fbig_from_fields_asis 10 0 1 3 = Ok (0, 1, 3) /\ fbig_from_fields_asis 10 0 2 3 = Err 1.
Proof. repeat split; vm_compute; reflexivity. Qed.
