(** C16 - AS-IS models of the panic mechanisms the property anchors (definitions only).

    * [conv_unwrap]: the `try_into().unwrap()` that closes every primitive-operand form
      (integer/src/helper_macros.rs impl_binop_with_primitive, div_ops.rs impl_divrem_with_primitive,
      impl_div_by_primitive);
    * [float_asis]: the guard sequences at the head of the float operations, in source order
      (assert_finite / assert_finite_operands, assert_limited_precision, sign and zero tests);
    * [farey_walk]: the mediant loop of RBig::farey_neighbors (rational/src/simplify.rs), with fuel;
    * [with_base_asis]: FBig::with_base = with_base_and_precision of the derived precision.
    [asis c] is the set of outcomes the code can produce for [c] (more than one only where the
    build profile decides: a debug assertion / an overflow check / neither).                     *)
From Dashu Require Import Base.Prelude Cross.PanicSpec.
Open Scope Z_scope.

Definition guard (b : bool) (r : reason) (k : outcome) : outcome := if b then OPanic (Doc r) else k.

(** * primitive operand forms *)
Definition conv_unwrap (lo hi v : Z) : outcome :=
  if (lo <=? v) && (v <=? hi) then ORet else OPanic (Doc Undocumented).

(** IBig a (%, div_rem, div_rem_assign) primitive b: the remainder of the truncating division is
    converted to the primitive type *)
Definition prim_rem_asis (lo hi a b : Z) : outcome :=
  guard (b =? 0) DivideBy0 (conv_unwrap lo hi (Z.rem a b)).
(** primitive a / IBig b: the quotient is converted to the primitive type *)
Definition prim_div_asis (lo hi a b : Z) : outcome :=
  guard (b =? 0) DivideBy0 (conv_unwrap lo hi (Z.quot a b)).
(** DivRem of dashu-base on a signed primitive: the primitive operators themselves *)
Definition prim_std_asis (lo a b : Z) : outcome :=
  guard (b =? 0) DivideBy0 (if (a =? lo) && (b =? -1) then OPanic PrimOverflow else ORet).

(** * float guard sequences (float/src/{add,mul,div,root,exp,log}.rs) *)
Definition float_asis (B : Z) (o : fop) (prec : Z) (x y : fval) (n : Z) : list outcome :=
  let inf2 := finf x || finf y in
  let p0 := prec =? 0 in
  match o with
  | FoFinite => [guard inf2 OperateWithInf ORet]
  | FoDiv => [guard inf2 OperateWithInf (guard p0 UnlimitedPrecision (guard (fzero y) DivideBy0 ORet))]
  | FoRem => [guard inf2 OperateWithInf (guard (fzero y) DivideBy0 ORet)]
  | FoSqrt => [guard (finf x) OperateWithInf (guard p0 UnlimitedPrecision (guard (fneg x) RootNegative ORet))]
  | FoExp => [guard (finf x) OperateWithInf (guard p0 UnlimitedPrecision ORet)]
  | FoLn =>       (* ln_internal since 60b59c4: the domain check follows the shortcut for 1 *)
      [guard (finf x) OperateWithInf (guard p0 UnlimitedPrecision
         (if fone x then ORet else guard (fsig x <=? 0) LogOperand ORet))]
  | FoLn1p =>
      [guard (finf x) OperateWithInf (guard p0 UnlimitedPrecision
         (if fzero x then ORet else guard (le_minus_one B (fsig x) (fexp x)) LogOperand ORet))]
  | FoPowi =>
      [guard (finf x) OperateWithInf
         (if n <? 0 then guard p0 UnlimitedPrecision (guard (fzero x) DivideBy0 ORet) else ORet)]
  | FoPowf =>
      [guard (finf x) OperateWithInf (guard p0 UnlimitedPrecision
         (if fzero y || fone y || fzero x then ORet
          else guard (fneg x) PowerNegativeBase (guard (finf y) OperateWithInf ORet)))]
  | FoTotal => if finf x || finf y then [ORet; OPanic (Doc OperateWithInf)] else [ORet]
  end.

(** ln / ln_1p before the repair 60b59c4 (finding ln_nonpositive, fixed): no domain check, the
    series loop never met its stopping test for a non-positive argument (release builds), a debug
    assertion / an isize overflow fired first in checked builds *)
Definition ln_asis_before_60b59c4 (B : Z) (one_plus : bool) (prec : Z) (x : fval) : list outcome :=
  if finf x then [OPanic (Doc OperateWithInf)] else if prec =? 0 then [OPanic (Doc UnlimitedPrecision)]
  else if (if one_plus then fzero x else fone x) then [ORet]
  else if (if one_plus then le_minus_one B (fsig x) (fexp x) else fsig x <=? 0)
       then [OHang; OPanic (Doc Undocumented); OOverflow]
  else [ORet].

(** * operator-form division: repr_div (float/src/div.rs) is entered with the operands as they are.
    Its debug assertion `lhs.digits() <= precision + rhs.digits()` fails when the dividend has more
    digits than that - possible only when the dividend's own precision is unlimited and the other
    operand's is not (Context::max picks the limited one); release builds go on and return a
    quotient with too many digits.  Digits are those of the normalised significand (Repr::new strips
    trailing zeros). *)
Fixpoint strip_fuel (f : nat) (B v : Z) : Z :=
  match f with
  | O => v
  | S k => if (v =? 0) || negb (v mod B =? 0) then v else strip_fuel k B (v / B)
  end.
Fixpoint ndig_fuel (f : nat) (B v : Z) : Z :=
  match f with
  | O => 0
  | S k => if v <=? 0 then 0 else 1 + ndig_fuel k B (v / B)
  end.
Definition ndig (B s : Z) : Z :=
  let f := Z.to_nat (Z.log2 (Z.abs s) + 1) in
  if B <? 2 then 0 else ndig_fuel f B (strip_fuel f B (Z.abs s)).
Definition opdiv_long (B prec : Z) (x y : fval) : bool :=
  match x, y with
  | Fin xs _, Fin ys _ => negb (prec =? 0) && (prec + ndig B ys <? ndig B xs)
  | _, _ => false
  end.
Definition opdiv_asis (B prec : Z) (x y : fval) : list outcome :=
  if finf x || finf y then [OPanic (Doc OperateWithInf)]
  else if prec =? 0 then [OPanic (Doc UnlimitedPrecision)]
  else if opdiv_long B prec x y then [OPanic (Doc Undocumented); guard (fzero y) DivideBy0 ORet]
  else [guard (fzero y) DivideBy0 ORet].

(** * base conversion *)
Definition with_base_asis (B NB tprec : Z) (x : fval) : outcome :=
  if (B =? NB) || finf x || pow_related B NB then ORet
  else guard (tprec =? 0) UnlimitedPrecision ORet.
(** FBig::with_base derives the target precision max p with NB^p <= B^prec: it is 0 - which means
    "unlimited" - as soon as B^prec < NB *)
Definition auto_prec_zero (B NB prec : Z) : bool := B ^ prec <? NB.

(** to_f32 / to_f64 of a non-binary float go through convert_base at 24 / 53 bits.  Until 344196e its division route
    (-THRESHOLD_SMALL_EXP <= exponent < 0) called repr_div, which may return one digit more than the precision, and
    into_f32_internal / into_f64_internal rejected that with a debug assertion (finding F06, DESIGN 5.1 #14, owned by C06).
    Since 344196e the route pads a short dividend, divides exactly and rounds once (Conv/ConvModel.v div_round_once,
    Conv/ConvDivRoute.v div_round_once_fits: the result always fits the precision): the conversion always returns. *)
Definition to_prim_asis (B : Z) (x : fval) : list outcome := [ORet].

(** * Farey stepping: farey_neighbors(x, limit) for 0 < x < 1, one mediant per iteration *)
Definition frac := (Z * Z)%type.
Definition flt (a b : frac) : bool := fst a * snd b <? fst b * snd a.
Definition fred (a : frac) : frac := let g := Z.gcd (fst a) (snd a) in (fst a / g, snd a / g).
Fixpoint farey_walk (fuel : nat) (l r x : frac) (limit : Z) : result (frac * frac) :=
  match fuel with
  | O => OutOfFuel
  | S k =>
      let next := (fst l + fst r, snd l + snd r) in
      let next' := if limit <? snd next then fred next else next in
      if limit <? snd next' then Ok (l, r)
      else if flt x next' then farey_walk k l next' x limit else farey_walk k next' r x limit
  end.
(** the target next_up walks to for a value whose denominator fits: fract + 1/(limit^2+1) *)
Definition up_target (fa fb limit : Z) : frac := fred (fa * (limit * limit + 1) + fb, fb * (limit * limit + 1)).
(** next_up of xn/xd (reduced, xd > 0) terminates within [fuel] iterations? *)
Definition farey_up_asis (fuel : nat) (xn xd limit : Z) : outcome :=
  if limit =? 0 then OPanic (Doc DivideBy0)
  else
    let fa := xn mod xd in
    let t := if xd <=? limit then up_target fa xd limit else (fa, xd) in
    match farey_walk fuel (0, 1) (1, 1) t limit with
    | OutOfFuel => OHang
    | _ => ORet
    end.

(** next_down mirrors next_up (the walk is symmetric under x -> -x); nearest returns at once when
    the denominator fits and walks towards the fractional part itself otherwise *)
Definition farey_asis (fuel : nat) (kind xn xd limit : Z) : outcome :=
  if kind =? 0 then farey_up_asis fuel xn xd limit
  else if kind =? 1 then farey_up_asis fuel (- xn) xd limit
  else if limit =? 0 then OPanic (Doc DivideBy0)
  else if xd <=? limit then ORet
  else match farey_walk fuel (0, 1) (1, 1) (xn mod xd, xd) limit with OutOfFuel => OHang | _ => ORet end.

(** * the as-is outcome sets *)
Definition asis (c : call) : list outcome :=
  match c with
  | KPrimRem lo hi a b => [prim_rem_asis lo hi a b]
  | KPrimDiv lo hi a b => [prim_div_asis lo hi a b]
  | KPrimStd lo a b => [prim_std_asis lo a b]
  | KFloat B o prec x y n => float_asis B o prec x y n
  | KFloatOpDiv B prec x y => opdiv_asis B prec x y
  | KWithBase B NB tprec x => [with_base_asis B NB tprec x]
  | KToPrim B x => to_prim_asis B x
  | _ => match documented c with [] => [ORet] | l => map OPanic l end
  end.

(** * the open finding classes (tags of findings/C16.json) *)
Inductive tag := TPrimRemNegative | TPrimDivUnfit | TFareyLinear | TWithBasePrecisionZero | TFloatOperandExceedsPrecision.
Definition known (c : call) : option tag :=
  match c with
  | KPrimRem lo hi a b =>
      if negb (b =? 0) && negb ((lo <=? Z.rem a b) && (Z.rem a b <=? hi)) then Some TPrimRemNegative else None
  | KPrimDiv lo hi a b =>
      if negb (b =? 0) && negb ((lo <=? Z.quot a b) && (Z.quot a b <=? hi)) then Some TPrimDivUnfit else None
  | KFloatOpDiv B prec x y => if opdiv_long B prec x y then Some TFloatOperandExceedsPrecision else None
  | _ => None
  end.

Definition outcome_beq (a b : outcome) : bool :=
  match a, b with
  | ORet, ORet | OOverflow, OOverflow | OHang, OHang => true
  | OPanic r, OPanic s => preason_beq r s
  | _, _ => false
  end.
Definition asis_predicts (c : call) (o : outcome) : bool := existsb (outcome_beq o) (asis c).
