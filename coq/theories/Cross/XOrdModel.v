(** C14: as-is models of every cross-type NumOrd / AbsOrd body
      integer/src/third_party/num_order.rs, integer/src/cmp.rs (AbsOrd),
      float/src/third_party/num_order.rs, float/src/cmp.rs (repr_cmp_ubig / repr_cmp_ibig),
      rational/src/third_party/num_order.rs, rational/src/cmp.rs (repr_cmp, repr_cmp_ubig/ibig/fbig).
    Same steps in the same order: NaN / zero, sign filter, infinities, size filter (f32 log2 bounds or
    bit lengths), exact comparison after scaling.  The f32 estimates (EstimatedLog2::log2_bounds) are
    parameters: [E] with its strict order [egt]; the theorems (XOrdProofs.v) hold for every sound choice.
    IBig/UBig are Z (C01/C02/C09).  Definitions only. *)
From Dashu Require Import Base.Prelude Cross.XVal.
Open Scope Z_scope.

Definition bit_len (a : Z) : Z := if a =? 0 then 0 else Z.log2 (Z.abs a) + 1.

(** Sign * Ordering (base/src/sign.rs) *)
Definition smul (s : sign) (c : comparison) : comparison :=
  match s with Positive => c | Negative => CompOpp c end.

(** shl_digits::<B>(x, n) = x * B^n *)
Definition shl_digits (B x n : Z) : Z := x * B ^ n.

(** the common sign filter: both positive / both negative continue with that sign *)
Definition sign_filter (a b : sign) (k : sign -> comparison) : comparison :=
  match a, b with
  | Positive, Positive => k Positive
  | Positive, Negative => Gt
  | Negative, Positive => Lt
  | Negative, Negative => k Negative
  end.
Definition sign_filter_o (a b : sign) (k : sign -> option comparison) : option comparison :=
  match a, b with
  | Positive, Positive => k Positive
  | Positive, Negative => Some Gt
  | Negative, Positive => Some Lt
  | Negative, Negative => k Negative
  end.

(* ================================================================================================
   integer crate
   ================================================================================================ *)
(** impl NumOrd<IBig> for UBig / NumOrd<UBig> for IBig / Ord for IBig (integer/src/cmp.rs) *)
Definition ubig_cmp_ibig (u i : Z) : comparison :=
  match sign_of i with Positive => u ?= Z.abs i | Negative => Gt end.
Definition ibig_cmp_ubig (i u : Z) : comparison :=
  match sign_of i with Positive => Z.abs i ?= u | Negative => Lt end.
Definition ibig_cmp (a b : Z) : comparison :=
  match sign_of a, sign_of b with
  | Positive, Positive => Z.abs a ?= Z.abs b
  | Positive, Negative => Gt
  | Negative, Positive => Lt
  | Negative, Negative => Z.abs b ?= Z.abs a
  end.
(** AbsOrd between UBig and IBig: magnitudes *)
Definition int_abs_cmp (a b : Z) : comparison := Z.abs a ?= Z.abs b.

(** primitive floats after decode *)
Definition d_is_zero (d : fdec) : bool := match d with DFin m _ => m =? 0 | _ => false end.
Definition d_sign (d : fdec) : sign :=
  match d with DInf s => s | DFin m _ => sign_of m | DNaN => Positive end.
Definition mant_digits (mb : Z) : Z := mb + 1.
Definition max_exp (eb : Z) : Z := 2 ^ (eb - 1).

(** impl_num_ord_ubig_with_float: UBig::num_partial_cmp(&f32/f64) *)
Definition ubig_cmp_prim (x mb eb bits : Z) : option comparison :=
  let d := decode mb eb bits in
  match d with
  | DNaN => None
  | _ =>
    (* step0: nan and 0 *)
    if d_is_zero d then Some (if x =? 0 then Eq else Gt)
    else if x =? 0 then Some (smul (d_sign d) Lt)
    (* step1: sign *)
    else match d_sign d with
    | Negative => Some Gt
    | Positive =>
      match d with
      | DInf _ => Some Lt                                   (* step2 *)
      | DFin man exp =>
        let self_bits := bit_len x in
        if self_bits >? mant_digits mb + max_exp eb then Some Gt      (* step3 *)
        else
          let other_bits := bit_len man + exp in            (* step4 *)
          if other_bits <? 0 then Some Gt
          else if self_bits >? other_bits then Some Gt
          else if self_bits <? other_bits then Some Lt
          else if 0 <=? exp then Some (x ?= Z.abs man * 2 ^ exp)      (* step5 *)
          else Some (x * 2 ^ (- exp) ?= Z.abs man)
      | DNaN => None
      end
    end
  end.

(** impl_num_ord_ibig_with_float: IBig::num_partial_cmp(&f32/f64) *)
Definition ibig_cmp_prim (x mb eb bits : Z) : option comparison :=
  let d := decode mb eb bits in
  match d with
  | DNaN => None
  | _ =>
    if d_is_zero d then Some (if x =? 0 then Eq else smul (sign_of x) Gt)
    else if x =? 0 then Some (smul (d_sign d) Lt)
    else sign_filter_o (sign_of x) (d_sign d) (fun sign =>
      match d with
      | DInf _ => Some (smul sign Lt)
      | DFin man exp =>
        let self_bits := bit_len x in
        if self_bits >? mant_digits mb + max_exp eb then Some (smul sign Gt)
        else
          let other_bits := bit_len man + exp in
          if other_bits <? 0 then Some (smul sign Gt)
          else if self_bits >? other_bits then Some (smul sign Gt)
          else if self_bits <? other_bits then Some (smul sign Lt)
          else if 0 <=? exp then Some (x ?= man * 2 ^ exp)
          else Some (x * 2 ^ (- exp) ?= man)
      | DNaN => None
      end)
  end.

Section Estimates.
(** f32 estimates: EstimatedLog2::log2_bounds of the three kinds of numbers *)
Variable E : Type.
Variable egt : E -> E -> bool.                 (* a > b on f32 *)
Variable ib : Z -> E * E.                      (* UBig / IBig (bounds of the magnitude) *)
Variable fb : Z -> Z -> Z -> E * E.            (* float Repr<B>: base, significand, exponent *)
Variable qb : Z -> Z -> E * E.                 (* rational Repr: numerator, denominator *)

(** the filter shared by all bodies: lhs_lo > rhs_hi => Greater; lhs_hi < rhs_lo => Less; else exact *)
Definition est_filter (l r : E * E) (sign : sign) (exact : unit -> comparison) : comparison :=
  if egt (fst l) (snd r) then smul sign Gt
  else if egt (fst r) (snd l) then smul sign Lt
  else exact tt.

(* ================================================================================================
   float crate
   ================================================================================================ *)
(** impl NumOrd<Repr<B2>> for Repr<B1> (and FBig/FBig) *)
Definition repr_num_cmp (B1 s1 e1 B2 s2 e2 : Z) : comparison :=
  match f_is_inf s1 e1, f_is_inf s2 e2 with
  | true, true => e1 ?= e2
  | false, true => if 0 <=? e2 then Lt else Gt
  | true, false => if 0 <=? e1 then Gt else Lt
  | false, false =>
    sign_filter (sign_of s1) (sign_of s2) (fun sign =>
      est_filter (fb B1 s1 e1) (fb B2 s2 e2) sign
        (fun _ => let '(lhs, rhs) := if e1 <? 0 then (s1, shl_digits B1 s2 (- e1)) else (shl_digits B1 s1 e1, s2) in
         let '(lhs, rhs) := if e2 <? 0 then (shl_digits B2 lhs (- e2), rhs) else (lhs, shl_digits B2 rhs e2) in
         lhs ?= rhs))
  end.

(** float/src/cmp.rs repr_cmp_ubig::<B, ABS> *)
Definition frepr_cmp_ubig (abs : bool) (B s e u : Z) : comparison :=
  if f_is_inf s e then (if (0 <? e) || abs then Gt else Lt)
  else if negb abs && (match sign_of s with Negative => true | Positive => false end) then Lt
  else
    est_filter (fb B s e) (ib u) Positive
      (fun _ => if e <? 0 then
         let rhs := shl_digits B u (- e) in
         if abs then Z.abs s ?= Z.abs rhs else s ?= rhs
       else
         let l := shl_digits B s e in
         if abs then Z.abs l ?= Z.abs u else l ?= u).

(** float/src/cmp.rs repr_cmp_ibig::<B, ABS> *)
Definition frepr_cmp_ibig (abs : bool) (B s e i : Z) : comparison :=
  if f_is_inf s e then (if (0 <? e) || abs then Gt else Lt)
  else
    let k := fun sign =>
      est_filter (fb B s e) (ib i) sign
        (fun _ => if e <? 0 then
           let rhs := shl_digits B i (- e) in
           if abs then Z.abs s ?= Z.abs rhs else s ?= rhs
         else
           let l := shl_digits B s e in
           if abs then Z.abs l ?= Z.abs i else l ?= i) in
    if abs then k Positive else sign_filter (sign_of s) (sign_of i) k.

(** impl_num_ord_with_float: Repr<B>::num_partial_cmp(&f32/f64) *)
Definition frepr_cmp_prim (B s e mb eb bits : Z) : option comparison :=
  let d := decode mb eb bits in
  match d with
  | DNaN => None
  | _ =>
    if d_is_zero d then Some (if f_is_zero s e then Eq else smul (repr_sign s e) Gt)
    else if f_is_zero s e then Some (smul (d_sign d) Lt)
    else sign_filter_o (repr_sign s e) (d_sign d) (fun sign =>
      match f_is_inf s e, d with
      | _, DNaN => None
      | true, DInf _ => Some Eq
      | false, DInf _ => Some (smul sign Lt)
      | true, DFin _ _ => Some (smul sign Gt)
      | false, DFin man oexp =>
        let self_signif_log2 := bit_len s in
        let self_log2 := self_signif_log2 + bit_len B * e in
        let '(lb, ub) := if 0 <=? e then (self_log2 - e, self_log2) else (self_log2, self_log2 - e) in
        if lb >? mant_digits mb + max_exp eb then Some (smul sign Gt)
        else
          let other_log2 := bit_len man + oexp in
          if lb >? other_log2 then Some (smul sign Gt)
          else if ub <? other_log2 then Some (smul sign Lt)
          else
            let '(lhs, rhs) := if e <? 0 then (s, shl_digits B man (- e)) else (shl_digits B s e, man) in
            let '(lhs, rhs) := if oexp <? 0 then (lhs * 2 ^ (- oexp), rhs) else (lhs, rhs * 2 ^ oexp) in
            Some (lhs ?= rhs)
      end)
  end.

(* ================================================================================================
   rational crate
   ================================================================================================ *)
(** rational/src/cmp.rs repr_cmp::<ABS> (RBig <-> Relaxed NumOrd, all four AbsOrd forms).
    The second bit-size test is transcribed as written: it repeats the first condition. *)
Definition qrepr_cmp (abs : bool) (n1 d1 n2 d2 : Z) : comparison :=
  let k := fun (negative : bool) =>
    if (d1 =? 1) && (d2 =? 1) then (if abs then Z.abs n1 ?= Z.abs n2 else n1 ?= n2)
    else match n1 =? 0, n2 =? 0 with
    | true, true => Eq
    | true, false => Lt
    | false, true => Gt
    | false, false =>
      let lhs_bits := bit_len n1 - bit_len d1 in
      let rhs_bits := bit_len n2 - bit_len d2 in
      if lhs_bits >? rhs_bits + 1 then (if negative then Lt else Gt)
      else if rhs_bits <? lhs_bits - 1 then (if negative then Gt else Lt)
      else
        let n1d2 := n1 * d2 in let n2d1 := n2 * d1 in
        if abs then Z.abs n1d2 ?= Z.abs n2d1 else n1d2 ?= n2d1
    end in
  if abs then k false
  else match sign_of n1, sign_of n2 with
       | Positive, Positive => k false
       | Positive, Negative => Gt
       | Negative, Positive => Lt
       | Negative, Negative => k true
       end.

(** repr_eq::<false>: the num_eq override between RBig and Relaxed *)
Definition qrepr_eq (n1 d1 n2 d2 : Z) : bool :=
  if negb (match sign_of n1, sign_of n2 with Positive, Positive | Negative, Negative => true | _, _ => false end) then false
  else if n1 =? 0 then n2 =? 0
  else
    let a := bit_len n1 + bit_len d2 in
    let b := bit_len n2 + bit_len d1 in
    if Z.abs (a - b) >? 1 then false
    else Z.abs (n1 * d2) =? Z.abs (n2 * d1).

(** rational/src/cmp.rs repr_cmp_ubig::<ABS> *)
Definition qrepr_cmp_ubig (abs : bool) (n d u : Z) : comparison :=
  if negb abs && (match sign_of n with Negative => true | Positive => false end) then Lt
  else est_filter (qb n d) (ib u) Positive (fun _ => Z.abs n ?= Z.abs (u * d)).

(** rational/src/cmp.rs repr_cmp_ibig::<ABS> *)
Definition qrepr_cmp_ibig (abs : bool) (n d i : Z) : comparison :=
  let k := fun sign =>
    est_filter (qb n d) (ib i) sign
      (fun _ => if abs then Z.abs n ?= Z.abs (i * d) else n ?= i * d) in
  if abs then k Positive else sign_filter (sign_of n) (sign_of i) k.

(** rational/src/cmp.rs with_float::repr_cmp_fbig::<B, ABS> (rational on the left) *)
Definition qrepr_cmp_fbig (abs : bool) (n d B s e : Z) : comparison :=
  if f_is_inf s e then (if abs || (0 <? e) then Lt else Gt)
  else
    let k := fun sign =>
      est_filter (qb n d) (fb B s e) sign
        (fun _ => let lhs := n in let rhs := s * d in
         let '(lhs, rhs) := if e <? 0 then (lhs * B ^ (- e), rhs) else (lhs, rhs * B ^ e) in
         if abs then Z.abs lhs ?= Z.abs rhs else lhs ?= rhs) in
    if abs then k Positive else sign_filter (sign_of n) (sign_of s) k.

End Estimates.

(** float/src/cmp.rs repr_cmp_same_base::<B, ABS> (PartialOrd/Ord of Repr and FBig of one base; AbsOrd of FBig).
    [dub] is Repr::digits_ub (an f32 over-estimate of the number of digits of the significand). *)
Section SameBase.
Variable dub : Z -> Z -> Z.                    (* base, significand *)
Definition fsame_cmp (abs : bool) (B s1 e1 s2 e2 : Z) : comparison :=
  match f_is_inf s1 e1, f_is_inf s2 e2 with
  | true, true => if abs then Eq else e1 ?= e2
  | false, true => if abs || (0 <=? e2) then Lt else Gt
  | true, false => if abs || (0 <=? e1) then Gt else Lt
  | false, false =>
    let k := fun sign =>
      match s1 =? 0, s2 =? 0 with
      | true, true => Eq
      | true, false => Lt
      | false, true => Gt
      | false, false =>
        if e1 >? e2 + dub B s2 then smul sign Gt
        else if e2 >? e1 + dub B s1 then smul sign Lt
        else match e1 ?= e2 with
             | Eq => if abs then Z.abs s1 ?= Z.abs s2 else s1 ?= s2
             | Gt => let l := shl_digits B s1 (e1 - e2) in if abs then Z.abs l ?= Z.abs s2 else l ?= s2
             | Lt => let r := shl_digits B s2 (e2 - e1) in if abs then Z.abs s1 ?= Z.abs r else s1 ?= r
             end
      end in
    if abs then k Positive else sign_filter (sign_of s1) (sign_of s2) k
  end.
End SameBase.

(** impl_num_ord_with_float for the rational Repr: num_partial_cmp(&f32/f64) *)
Definition qrepr_cmp_prim (n d mb eb bits : Z) : option comparison :=
  let dd := decode mb eb bits in
  match dd with
  | DNaN => None
  | DInf Positive => Some Lt
  | DInf Negative => Some Gt
  | DFin man oexp =>
    if man =? 0 then Some (if n =? 0 then Eq else smul (sign_of n) Gt)
    else if n =? 0 then Some (smul (sign_of man) Lt)
    else sign_filter_o (sign_of n) (sign_of man) (fun sign =>
      let self_log2 := bit_len n - bit_len d in
      let lb := self_log2 - 1 in let ub := self_log2 + 1 in
      if lb >? mant_digits mb + max_exp eb then Some (smul sign Gt)
      else
        let other_log2 := bit_len man + oexp - 1 in
        if lb >? other_log2 then Some (smul sign Gt)
        else if ub <? other_log2 then Some (smul sign Lt)
        else
          let lhs := n in let rhs := man * d in
          let '(lhs, rhs) := if oexp <? 0 then (lhs * 2 ^ (- oexp), rhs) else (lhs, rhs * 2 ^ oexp) in
          Some (lhs ?= rhs))
  end.

(* ================================================================================================
   an admissible instance of the estimates (used for execution): integer floor/ceiling bounds.
   None = -infinity (log2 of zero).
   ================================================================================================ *)
Definition ZE := option Z.
Definition zegt (a b : ZE) : bool :=
  match a, b with
  | Some x, Some y => x >? y
  | Some _, None => true
  | None, _ => false
  end.
Definition clog2 (a : Z) : Z := if a <=? 1 then 0 else Z.log2 (a - 1) + 1.   (* ceiling log2, a >= 1 *)
Definition zib (z : Z) : ZE * ZE :=
  if z =? 0 then (None, None) else (Some (Z.log2 (Z.abs z)), Some (clog2 (Z.abs z))).
Definition zfb (B s e : Z) : ZE * ZE :=
  if s =? 0 then (None, None)
  else
    let lo := Z.log2 (Z.abs s) in let hi := clog2 (Z.abs s) in
    if 0 <=? e then (Some (lo + e * Z.log2 B), Some (hi + e * clog2 B))
    else (Some (lo + e * clog2 B), Some (hi + e * Z.log2 B)).
Definition zqb (n d : Z) : ZE * ZE :=
  if n =? 0 then (None, None)
  else (Some (Z.log2 (Z.abs n) - clog2 d), Some (clog2 (Z.abs n) - Z.log2 d)).
