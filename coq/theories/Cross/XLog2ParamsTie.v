(** C14: the constants and table-like fragments of the f32 estimators, REGENERATED from the Rust sources on every run
    (coq/gen/XLog2Params.v, tools/translate_c14_r3.py), are the ones the hand-written model XLog2Model.v uses: the
    estimators rebuilt over the generated values are equal to the model's.  An edit of `nbits <= 24`, of ADJUST, of the
    bound selection / the outward steps of the float estimator, of the arms of digits_ub or of the hash modulus changes
    the generated file and breaks these proofs. *)
From Coq Require Import ZArith Bool List.
From Flocq Require Import Core IEEE754.BinarySingleNaN.
From Dashu Require Import Base.Prelude Cross.XVal Cross.XLog2Model.
From DashuGen Require Import XLog2Params.
Import ListNotations.
Open Scope Z_scope.

Section Tie.
Variable lg : f32 -> f32.

Definition u_log2_bounds_p (x : Z) : f32 * f32 :=
  if x =? 0 then (f_ninf, f_ninf)
  else if is_pow2 x then let log := f_of_Z (Z.log2 x) in (log, log)
  else
    let nbits := Z.log2 x + 1 in
    if nbits <=? uint_exact_bits then
      let log := lg (f_of_Z x) in
      (next_down log, next_up log)
    else
      let shifted := f_of_Z (Z.shiftr x (nbits - uint_keep_bits)) in
      let est_lb := lg shifted in
      let est_ub := lg (f_add shifted f_one) in
      let shift := f_of_Z (nbits - uint_shift_sub) in
      (next_down (f_add est_lb shift), next_up (f_add est_ub shift)).

Theorem tie_uint x : u_log2_bounds_p x = u_log2_bounds lg x.
Proof. reflexivity. Qed.

(** 1 -/+ ADJUST with ADJUST = large_adjust_eps * 2^-23 *)
Theorem tie_large :
  f_to_bits (f_dyadic (2 ^ 23 - large_adjust_eps) (-23)) = f_to_bits c_adj_lo /\
  f_to_bits (f_dyadic (2 ^ 23 + large_adjust_eps) (-23)) = f_to_bits c_adj_hi.
Proof. vm_compute. split; reflexivity. Qed.

Definition pick (use_ub : bool) (lb ub : f32) : f32 := if use_ub then ub else lb.

Definition f_log2_bounds_p (w B s e : Z) : f32 * f32 :=
  if s =? 0 then (f_ninf, f_ninf)
  else
    let '(logs_lb, logs_ub) := ibig_log2_bounds lg w s in
    let '(logb_lb, logb_ub) := base_log2_bounds lg B in
    let ef := f_of_Z e in
    let '((pl, pu), (nl, nu)) := float_base_bound_table in
    if float_outward_steps =? 3 then
      let e_lb := next_down ef in let e_ub := next_up ef in
      let '(lb, ub) :=
        if 0 <=? e then (f_add logs_lb (next_down (f_mul e_lb (pick pl logb_lb logb_ub))), f_add logs_ub (next_up (f_mul e_ub (pick pu logb_lb logb_ub))))
        else (f_add logs_lb (next_down (f_mul e_lb (pick nl logb_lb logb_ub))), f_add logs_ub (next_up (f_mul e_ub (pick nu logb_lb logb_ub)))) in
      (next_down lb, next_up ub)
    else
      let '(lb, ub) :=
        if 0 <=? e then (f_add logs_lb (f_mul ef (pick pl logb_lb logb_ub)), f_add logs_ub (f_mul ef (pick pu logb_lb logb_ub)))
        else (f_add logs_lb (f_mul ef (pick nl logb_lb logb_ub)), f_add logs_ub (f_mul ef (pick nu logb_lb logb_ub))) in
      (next_down lb, next_up ub).

Theorem tie_float w B s e : f_log2_bounds_p w B s e = f_log2_bounds lg w B s e.
Proof.
  unfold f_log2_bounds_p, f_log2_bounds, f_log2_bounds_gen. destruct (s =? 0); [reflexivity | ].
  destruct (ibig_log2_bounds lg w s) as [a b]. destruct (base_log2_bounds lg B) as [c d]. reflexivity.
Qed.

Fixpoint arm_of (B : Z) (arms : list (Z * dub_arm)) : dub_arm :=
  match arms with
  | [] => ArmDivBaseLb
  | (b, k) :: t => if (b =? 0) || (B =? b) then k else arm_of B t
  end.
Definition digits_ub_p (usize_bits w B s : Z) : Z :=
  if s =? 0 then 0
  else
    let ub := snd (ibig_log2_bounds lg w s) in
    let log := match arm_of B digits_ub_arms with
               | ArmId => ub
               | ArmMulLog10_2 => f_mul ub c_log10_2
               | ArmDivBaseLb => f_div ub (fst (u_log2_bounds lg B))
               end in
    f_to_usize usize_bits log + digits_ub_plus.

Theorem tie_digits ub w B s : digits_ub_p ub w B s = digits_ub32 lg ub w B s.
Proof.
  unfold digits_ub_p, digits_ub32. destruct (s =? 0); [reflexivity | ]. cbn [arm_of digits_ub_arms Z.eqb orb].
  destruct (B =? 2); [reflexivity | ]. destruct (B =? 10); reflexivity.
Qed.
End Tie.

Theorem tie_hash : 2 ^ fst hash_mersenne - snd hash_mersenne = M127.
Proof. reflexivity. Qed.
