(** C16 round 4 - termination of the EXTENDED Lehmer gcd (integer/src/gcd/lehmer.rs gcd_ext_in_place,
    integer/src/gcd_ops.rs gcd_ext_large) over C12's as-is model Int/GrlLehmer.v.
    C12 round 3 (GrlLehmerProof.lehmer_ext_loop_total, cited as C16_lehmer_ext_loop_total) shows that the outer loop is
    never out of fuel above x + y.  Here: what the loop hands over (an ordered pair not above the input, the smaller
    one of at most one word), the primitive extended Euclid that follows it, and the whole of gcd_ext_large:
    never OutOfFuel for any fuel above x + y, every word size w >= 2. *)
From Coq Require Import ZArith Lia List Bool.
From Dashu Require Import Base.Prelude Int.GrlSpec Int.GrlModel Int.GrlLehmer Int.GrlGcdProof Int.GrlLehmerProof
  Cross.LehmerTermination.
Open Scope Z_scope.

(** the loop returns (or panics) within any fuel above x + y; what it returns is an ordered pair not above the input whose
    smaller member has left the multi-word range *)
Theorem lehmer_ext_loop_terminates : forall fuel mdl w cap x y t0 t1 sw, 2 <= w -> 0 <= y <= x -> x + y < Z.of_nat fuel ->
  match lehmer_ext_loop fuel mdl w cap x y t0 t1 sw with
  | Ok (x', y', _, _, _) => 0 <= y' <= x' /\ x' + y' <= x + y /\ wlen w y' <= 1
  | Panic _ => True
  | _ => False
  end.
Proof.
  induction fuel as [|k IH]; intros mdl w cap x y t0 t1 sw Hw Hxy Hf; [lia|].
  cbn [lehmer_ext_loop]. destruct (wlen w y <=? 1) eqn:E; [apply Z.leb_le in E; lia|].
  pose proof (wlen_pos w 1 y ltac:(lia) ltac:(lia) E) as Hy0.
  pose proof (lehmer_iter_decreases mdl w x y Hw ltac:(lia)) as HI.
  destruct (lehmer_iter mdl w x y) as [[q r|a b c d x' y']| | |]; try exact I; try contradiction.
  - destruct (_ <? _); [exact I|].
    specialize (IH mdl w cap y r t1 (t0 + q * t1) (negb sw) Hw ltac:(lia) ltac:(lia)).
    destruct (lehmer_ext_loop k mdl w cap y r t1 (t0 + q * t1) (negb sw)) as [[[[[x2 y2] u0] u1] s2]| | |]; try exact IH. lia.
  - destruct HI as (Hx' & Hy' & Hs). destruct (_ || _); [exact I|]. destruct (x' <=? y') eqn:El.
    + apply Z.leb_le in El.
      specialize (IH mdl w cap y' x' (c * t0 + d * t1) (a * t0 + b * t1) (negb sw) Hw ltac:(lia) ltac:(lia)).
      destruct (lehmer_ext_loop k mdl w cap y' x' _ _ (negb sw)) as [[[[[x2 y2] u0] u1] s2]| | |]; try exact IH. lia.
    + apply Z.leb_gt in El.
      specialize (IH mdl w cap x' y' (a * t0 + b * t1) (c * t0 + d * t1) sw Hw ltac:(lia) ltac:(lia)).
      destruct (lehmer_ext_loop k mdl w cap x' y' _ _ sw) as [[[[[x2 y2] u0] u1] s2]| | |]; try exact IH. lia.
Qed.

(** ExtendedGcd::gcd_ext of two words (the ending of gcd_ext_in_place): never out of fuel above the second operand *)
Theorem prim_gcd_ext_asis_terminates : forall fuel a b, 0 <= a -> 0 <= b -> a < Z.of_nat fuel -> b < Z.of_nat fuel ->
  prim_gcd_ext_asis fuel a b <> OutOfFuel.
Proof.
  intros fuel a b Ha Hb Fa Fb. unfold prim_gcd_ext_asis.
  destruct (Z.eqb_spec a 0) as [A0|A0]; destruct (Z.eqb_spec b 0) as [B0|B0]; cbn [andb]; try discriminate.
  assert (0 < a) as Pa by lia. assert (0 < b) as Pb by lia.
  pose proof (tz_lor a b Pa Pb) as TL. destruct (strip2_spec a Pa) as [_ [_ [_ Ta]]]. destruct (strip2_spec b Pb) as [_ [_ [_ Tb]]].
  set (sh := tz (Z.lor a b)) in *.
  destruct (pow2_tz_divides a sh Pa ltac:(lia)) as [Ea Pa1]. destruct (pow2_tz_divides b sh Pb ltac:(lia)) as [Eb Pb1].
  assert (P2 : 0 < 2 ^ sh) by (apply Z.pow_pos_nonneg; lia).
  assert (La : a / 2 ^ sh <= a) by (apply Z.div_le_upper_bound; [exact P2 | nia]).
  assert (Lb : b / 2 ^ sh <= b) by (apply Z.div_le_upper_bound; [exact P2 | nia]).
  destruct (_ <=? _).
  - destruct (_ =? 1); [discriminate|].
    destruct (euclid_ext_terminates fuel (a / 2 ^ sh) (b / 2 ^ sh) 1 0 0 1 Pb1 ltac:(lia)) as [[[g ca] cb] ->]. discriminate.
  - destruct (_ =? 1); [discriminate|].
    destruct (euclid_ext_terminates fuel (b / 2 ^ sh) (a / 2 ^ sh) 1 0 0 1 Pa1 ltac:(lia)) as [[[g cb] ca] ->]. discriminate.
Qed.

(** gcd_ext_in_place: Lehmer loop, one Euclidean step, the primitive extended gcd *)
Theorem gcd_ext_in_place_terminates full fuel mdl w lhs rhs : 2 <= w -> 0 <= rhs <= lhs -> lhs + rhs < Z.of_nat fuel ->
  gcd_ext_in_place_gen full fuel fuel mdl w lhs rhs <> OutOfFuel.
Proof.
  intros Hw Ho Hs. unfold gcd_ext_in_place_gen. destruct (lhs <? rhs); [discriminate|].
  pose proof (lehmer_ext_loop_terminates fuel mdl w (wlen w lhs + 1) lhs rhs 0 1 false Hw Ho Hs) as T.
  destruct (lehmer_ext_loop fuel mdl w (wlen w lhs + 1) lhs rhs 0 1 false) as [[[[[x y] t0] t1] sw]| | |];
    cbn [rbind]; try discriminate; try contradiction.
  destruct T as (T1 & T2 & _).
  destruct (Z.eqb_spec y 0) as [Y0|Y0]; [destruct (_ <? _); discriminate|].
  destruct (_ <? _); [discriminate|]. destruct (_ <=? _); [discriminate|].
  pose proof (Z.mod_pos_bound x y ltac:(lia)) as M.
  pose proof (prim_gcd_ext_asis_terminates fuel (x mod y) y ltac:(lia) ltac:(lia) ltac:(lia) ltac:(lia)) as P.
  destruct (prim_gcd_ext_asis fuel (x mod y) y) as [[[g cx] cy]| | |]; cbn [rbind]; try discriminate; [|contradiction].
  destruct (_ <=? _); discriminate.
Qed.

(** gcd_ext_large = UBig / IBig gcd_ext of two multi-word values *)
Theorem lehmer_gcd_ext_asis_terminates fuel w x y : 2 <= w -> 0 <= x -> 0 <= y -> x + y < Z.of_nat fuel ->
  lehmer_gcd_ext_asis fuel w x y <> OutOfFuel.
Proof.
  intros Hw Hx Hy Hf. unfold lehmer_gcd_ext_asis, lehmer_gcd_ext_gen.
  destruct (x =? y); [discriminate|].
  assert (G : forall lhs rhs, 0 <= rhs <= lhs -> lhs + rhs < Z.of_nat fuel ->
     forall {T} (f : Z * Z * sign -> result T), (forall r, f r <> OutOfFuel) ->
     rbind (gcd_ext_in_place_gen true fuel fuel MIN_DWORD_GUESS_LEN w lhs rhs) f <> OutOfFuel).
  { intros lhs rhs Ho Hs T f Hfn. pose proof (gcd_ext_in_place_terminates true fuel MIN_DWORD_GUESS_LEN w lhs rhs Hw Ho Hs) as T'.
    destruct (gcd_ext_in_place_gen true fuel fuel MIN_DWORD_GUESS_LEN w lhs rhs); cbn [rbind]; try discriminate; [apply Hfn | contradiction]. }
  destruct (x <? y) eqn:E; [apply Z.ltb_lt in E | apply Z.ltb_ge in E]; (apply G; [lia | lia |]);
    intros [[g bm] bs]; cbv zeta; (destruct (_ <? 0); [discriminate|]);
    (destruct (_ <? wlen w _);
      [destruct (_ =? 0); cbn [rbind]; discriminate | destruct (negb _); cbn [rbind]; discriminate]).
Qed.

(** non-vacuity: two 3-word values at w = 8, with cofactors *)
Example lehmer_gcd_ext_run : lehmer_gcd_ext_asis 100 8 (3 * 5 * 7 * 65537 * 11) (3 * 7 * 65539 * 13) =
  Ok (21, 184105, -778882) /\ 184105 * (3 * 5 * 7 * 65537 * 11) - 778882 * (3 * 7 * 65539 * 13) = 21.
Proof. split; vm_compute; reflexivity. Qed.
