(** C14 (shared): the multi-word estimator integer/src/log.rs log2_bounds_large on Flocq's binary32 (XLog2Model.v):
    finite bounds that enclose log2 x, for every x of more than two words (word size 32..64 bits, bit length below
    2^62).  The error analysis of the two ADJUST products is C12's (Int/GrlLog2StdProof.v large_lower / large_upper, on
    real numbers); here it is carried over to the IEEE operations (finiteness, no overflow, the constants 1 -+ 2^-22),
    which lifts the f32-estimator theorems of XLog2Flocq.v to integers of any size. *)
From Coq Require Import ZArith Reals Lia Lra Bool Psatz.
From Flocq Require Import Core IEEE754.BinarySingleNaN.
From Dashu Require Import Base.Prelude Cross.XLog2Model Cross.XLog2Flocq.
From Dashu Require Int.GrlLog2Real Int.GrlLog2Std Int.GrlLog2StdProof.
Open Scope R_scope.

Module G := Int.GrlLog2Std.
Module GP := Int.GrlLog2StdProof.

Lemma c_adj_lo_R : b2r c_adj_lo = 1 - / 4194304 /\ fin c_adj_lo = true.
Proof.
  assert (E : F2R (Float radix2 (2 ^ 22 - 1) (-22)) = 1 - / 4194304) by (unfold F2R; cbn [Fnum Fexp]; simpl; lra).
  unfold c_adj_lo. rewrite <- E. apply f_dyadic_R.
  - apply F32_dyadic; [simpl; lia | lia].
  - rewrite E. rewrite Rabs_pos_eq by lra. apply Rlt_trans with (IZR 1); [lra | apply small_lt_max; lia].
Qed.
Lemma c_adj_hi_R : b2r c_adj_hi = 1 + / 4194304 /\ fin c_adj_hi = true.
Proof.
  assert (E : F2R (Float radix2 (2 ^ 22 + 1) (-22)) = 1 + / 4194304) by (unfold F2R; cbn [Fnum Fexp]; simpl; lra).
  unfold c_adj_hi. rewrite <- E. apply f_dyadic_R.
  - apply F32_dyadic; [simpl; lia | lia].
  - rewrite E. rewrite Rabs_pos_eq by lra. apply Rlt_trans with (IZR 2); [lra | apply small_lt_max; lia].
Qed.

(** ln 2 >= 1/2 (from exp 1 <= 3) and log2 (x + 1) - log2 x <= 2 / x, without interval arithmetic *)
Lemma ln2_ge_half : / 2 <= ln 2.
Proof.
  rewrite <- (ln_exp (/ 2)). left. apply ln_increasing; [apply exp_pos | ].
  assert (H : exp (/ 2) * exp (/ 2) = exp 1) by (rewrite <- exp_plus; f_equal; lra).
  pose proof exp_le_3 as E3. pose proof (exp_pos (/ 2)) as P.
  destruct (Rlt_or_le (exp (/ 2)) 2) as [ | C]; [assumption | exfalso].
  assert (2 * 2 <= exp (/ 2) * exp (/ 2)) by (apply Rmult_le_compat; lra). lra.
Qed.
Lemma log2R_succ x : 0 < x -> log2R (x + 1) <= log2R x + 2 / x.
Proof.
  intros Hx. assert (Hi : 0 < / x) by (apply Rinv_0_lt_compat; exact Hx).
  replace (x + 1) with (x * (1 + / x)) by (field; lra).
  rewrite log2R_mult by lra. apply Rplus_le_compat_l. unfold log2R.
  assert (H1 : ln (1 + / x) <= / x).
  { left. rewrite <- (ln_exp (/ x)) at 2. apply ln_increasing; [lra | ]. apply exp_ineq1. lra. }
  pose proof ln2_ge_half as H2.
  assert (H0 : 0 <= ln (1 + / x)) by (rewrite <- ln_1; left; apply ln_increasing; lra).
  unfold Rdiv. apply Rle_trans with (/ x * / ln 2).
  - apply Rmult_le_compat_r; [left; apply Rinv_0_lt_compat; lra | exact H1].
  - assert (H3 : / ln 2 <= / / 2) by (apply Rinv_le_contravar; lra).
    assert (H4 : / / 2 = 2) by field. rewrite H4 in H3. rewrite (Rmult_comm 2). apply Rmult_le_compat_l; lra.
Qed.

Section Large.
Variable lg : f32 -> f32.
Hypothesis lg_ok : lg_contract lg.
Variable w : Z.
Hypothesis Hw : (32 <= w <= 64)%Z.

Lemma large_shape x : (2 ^ (2 * w) <= x)%Z ->
  let len := ((Z.log2 x + 1 + w - 1) / w)%Z in let rem := ((len - 2) * w)%Z in let hi := Z.shiftr x rem in
  (32 <= rem <= Z.log2 x /\ 2 ^ w <= hi < 2 ^ (2 * w) /\ hi * 2 ^ rem <= x < (hi + 1) * 2 ^ rem)%Z.
Proof.
  intros Hx len rem hi. assert (X0 : (0 < x)%Z) by (assert (0 < 2 ^ (2 * w))%Z by (apply Z.pow_pos_nonneg; lia); lia).
  pose proof (Z.log2_spec x X0) as [L1 L2]. assert (HL : (2 * w <= Z.log2 x)%Z) by (apply Z.log2_le_pow2; lia).
  set (q := (Z.log2 x / w)%Z). pose proof (Z.div_mod (Z.log2 x) w ltac:(lia)) as Hdm. pose proof (Z.mod_pos_bound (Z.log2 x) w ltac:(lia)) as Hmb.
  fold q in Hdm. assert (Hq : (2 <= q)%Z) by (apply Z.div_le_lower_bound; lia).
  assert (El : len = (q + 1)%Z).
  { unfold len. replace (Z.log2 x + 1 + w - 1)%Z with (Z.log2 x + 1 * w)%Z by ring. rewrite Z.div_add by lia. reflexivity. }
  assert (B : (2 ^ ((len - 1) * w) <= x < 2 ^ (len * w))%Z).
  { rewrite El. replace (q + 1 - 1)%Z with q by ring. split.
    - apply Z.le_trans with (2 ^ Z.log2 x)%Z; [apply Z.pow_le_mono_r; nia | exact L1].
    - apply Z.lt_le_trans with (2 ^ Z.succ (Z.log2 x))%Z; [exact L2 | apply Z.pow_le_mono_r; nia]. }
  destruct (GP.large_split w x len ltac:(lia) ltac:(lia) B) as (R1 & R2 & R3).
  fold rem in R1, R2, R3. unfold hi. rewrite Z.shiftr_div_pow2 by lia.
  split; [split; [exact R1 | unfold rem; rewrite El; nia] | split; assumption].
Qed.

Theorem large_log2_sound x : (2 ^ (2 * w) <= x)%Z -> (Z.log2 x < 2 ^ 62)%Z ->
  let b := large_log2_bounds lg w x in
  bd 64 (fst b) /\ bd 64 (snd b) /\ b2r (fst b) <= log2R (IZR x) <= b2r (snd b) /\ 0 <= b2r (fst b).
Proof.
  intros Hx HL. destruct (large_shape x Hx) as ((R1 & R1') & (H1 & H2) & (S1 & S2)).
  unfold large_log2_bounds.
  set (rem := (((Z.log2 x + 1 + w - 1) / w - 2) * w)%Z) in *. set (hi := Z.shiftr x rem) in *.
  assert (P128 : (2 ^ (2 * w) <= 2 ^ 128)%Z) by (apply Z.pow_le_mono_r; lia).
  assert (P32 : (2 ^ 32 <= 2 ^ w)%Z) by (apply Z.pow_le_mono_r; lia).
  destruct (u_log2_sound lg lg_ok hi ltac:(lia)) as [Eh _]. pose proof (u_log2_lb_half lg lg_ok hi ltac:(lia)) as Hh.
  destruct (u_log2_bounds lg hi) as [hi_lb hi_ub]. cbn [fst snd] in *.
  destruct (encl_bd _ 8 _ _ _ Eh p2_8) as [Bl Bu]. destruct Eh as (_ & _ & (Ll & Lu) & _).
  set (Lh := log2R (IZR hi)) in *.
  assert (HLh : 32 <= Lh).
  { unfold Lh. change 32 with (IZR 32). rewrite <- (log2R_bpow 32). apply log2R_le; [apply bpow_gt_0 | ].
    rewrite <- IZR_pow2 by lia. apply IZR_le. lia. }
  assert (Phi : 0 < IZR hi) by (apply IZR_lt; lia).
  assert (Prem : (0 < 2 ^ rem)%Z) by (apply Z.pow_pos_nonneg; lia).
  (* rem_bits as f32 *)
  destruct (conv_gen rem 62) as (Fr & Vr & Ar); [rewrite Z.abs_eq by lia; lia | lia | ].
  assert (Br : bd 62 (f_of_Z rem)) by (split; [exact Fr | rewrite Vr; apply bnd_rnd; [lia | exact Ar]]).
  apply (bd_mono 8 62) in Bl, Bu; try lia.
  destruct (add_gen hi_lb (f_of_Z rem) 62 Bl Br ltac:(lia)) as (F1 & V1 & A1).
  destruct (add_gen hi_ub (f_of_Z rem) 62 Bu Br ltac:(lia)) as (F2 & V2 & A2).
  assert (B1 : bd 63 (f_add hi_lb (f_of_Z rem))) by (split; [exact F1 | rewrite V1; apply bnd_rnd; [lia | exact A1]]).
  assert (B2 : bd 63 (f_add hi_ub (f_of_Z rem))) by (split; [exact F2 | rewrite V2; apply bnd_rnd; [lia | exact A2]]).
  destruct c_adj_lo_R as [Vlo Flo]. destruct c_adj_hi_R as [Vhi Fhi].
  assert (Blo : bd 1 c_adj_lo) by (split; [exact Flo | rewrite Vlo, Rabs_pos_eq by lra; change (p2 1) with 2; lra]).
  assert (Bhi : bd 1 c_adj_hi) by (split; [exact Fhi | rewrite Vhi, Rabs_pos_eq by lra; change (p2 1) with 2; lra]).
  destruct (mul_gen _ c_adj_lo 63 1 B1 Blo ltac:(lia)) as (F3 & V3 & A3).
  destruct (mul_gen _ c_adj_hi 63 1 B2 Bhi ltac:(lia)) as (F4 & V4 & A4).
  (* the values are C12's real-number expressions *)
  assert (E3 : b2r (f_mul (f_add hi_lb (f_of_Z rem)) c_adj_lo) = G.fmul (G.fadd (b2r hi_lb) (G.of_int rem)) (G.fsub 1 G.adjust32)).
  { rewrite V3, V1, Vr, Vlo, GP.one_minus_adjust. reflexivity. }
  assert (E4 : b2r (f_mul (f_add hi_ub (f_of_Z rem)) c_adj_hi) = G.fmul (G.fadd (b2r hi_ub) (G.of_int rem)) (G.fadd 1 G.adjust32)).
  { rewrite V4, V2, Vr, Vhi, GP.one_plus_adjust. reflexivity. }
  pose proof (GP.large_lower (b2r hi_lb) Lh rem Ll HLh R1) as LL.
  pose proof (GP.large_upper (b2r hi_ub) Lh rem Lu HLh R1) as LU.
  cbn [fst snd]. repeat split; try assumption.
  - rewrite V3. apply Rle_trans with (p2 64); [apply bnd_rnd; [lia | exact A3] | lra].
  - rewrite V4. apply Rle_trans with (p2 64); [apply bnd_rnd; [lia | exact A4] | lra].
  - rewrite E3. apply Rle_trans with (1 := LL). unfold Lh. rewrite <- log2R_scaled by lia.
    apply log2R_le; [apply IZR_lt; nia | apply IZR_le; lia].
  - rewrite E4. apply Rle_trans with (2 := LU).
    apply Rle_trans with (log2R (IZR (hi + 1)) + IZR rem).
    + rewrite <- log2R_scaled by lia. apply log2R_le; [apply IZR_lt; lia | apply IZR_le; lia].
    + rewrite plus_IZR. pose proof (log2R_succ (IZR hi) Phi) as HS. fold Lh in HS.
      assert (HQ : 2 / IZR hi <= / 2147483648).
      { assert (Hge : IZR (2 ^ 32) <= IZR hi) by (apply IZR_le; lia).
        replace (IZR (2 ^ 32)) with 4294967296 in Hge by (simpl; lra).
        unfold Rdiv. replace (/ 2147483648) with (2 * / 4294967296) by lra.
        apply Rmult_le_compat_l; [lra | ]. apply Rinv_le_contravar; lra. }
      lra.
  - (* the lower bound is not negative: it is a rounding of a non-negative product *)
    rewrite V3. rewrite <- (rnd32_id 0) by apply F32_0. apply rnd32_le. rewrite Vlo.
    apply Rmult_le_pos; [ | lra]. rewrite V1. rewrite <- (rnd32_id 0) by apply F32_0. apply rnd32_le.
    rewrite Vr. assert (0 <= rnd32 (IZR rem)) by (rewrite <- (rnd32_id 0) by apply F32_0; apply rnd32_le; apply IZR_le; lia). lra.
Qed.

(** UBig / IBig of ANY size (bit length below 2^62): TypedReprRef::log2_bounds encloses log2 |z| *)
Theorem ibig_log2_sound z : z <> 0%Z -> (Z.log2 (Z.abs z) < 2 ^ 62)%Z ->
  let b := ibig_log2_bounds lg w z in
  bd 64 (fst b) /\ bd 64 (snd b) /\ b2r (fst b) <= log2R (IZR (Z.abs z)) <= b2r (snd b).
Proof.
  intros Nz HL. unfold ibig_log2_bounds, ubig_log2_bounds.
  destruct (Z.ltb_spec (Z.abs z) (2 ^ (2 * w))) as [S | L].
  - assert (P128 : (2 ^ (2 * w) <= 2 ^ 128)%Z) by (apply Z.pow_le_mono_r; lia).
    destruct (u_log2_sound lg lg_ok (Z.abs z) ltac:(lia)) as [E _].
    destruct (encl_bd _ 8 _ _ _ E p2_8) as [Bl Bu]. destruct E as (_ & _ & LU & _).
    split; [apply (bd_mono 8 64); [lia | exact Bl] | ]. split; [apply (bd_mono 8 64); [lia | exact Bu] | exact LU].
  - destruct (large_log2_sound (Z.abs z) L HL) as (B1 & B2 & LU & _). auto.
Qed.

(** rational and float estimators for integer parts of ANY size *)
Theorem q_log2_sound_any n d : n <> 0%Z -> (0 < d)%Z -> (Z.log2 (Z.abs n) < 2 ^ 62)%Z -> (Z.log2 d < 2 ^ 62)%Z ->
  let b := q_log2_bounds lg w n d in
  fin (fst b) = true /\ fin (snd b) = true /\ b2r (fst b) <= log2R (IZR (Z.abs n) / IZR d) <= b2r (snd b).
Proof.
  intros Nn Hd Hn Hd2. unfold q_log2_bounds. destruct (Z.eqb_spec n 0) as [ | _]; [contradiction | ].
  pose proof (ibig_log2_sound n Nn Hn) as En.
  pose proof (ibig_log2_sound d ltac:(lia) ltac:(rewrite Z.abs_eq by lia; exact Hd2)) as Ed.
  cbv zeta in Ed. unfold ibig_log2_bounds in Ed. rewrite (Z.abs_eq d) in Ed by lia.
  destruct (ibig_log2_bounds lg w n) as [n_lb n_ub]. destruct (ubig_log2_bounds lg w d) as [d_lb d_ub]. cbn [fst snd] in *.
  destruct En as (Bnl & Bnu & Ln & Un). destruct Ed as (Bdl & Bdu & Ld & Ud).
  rewrite log2R_div by (apply IZR_lt; lia).
  destruct (sub_gen n_lb d_ub 64 Bnl Bdu ltac:(lia)) as (F1 & V1 & A1).
  destruct (sub_gen n_ub d_lb 64 Bnu Bdl ltac:(lia)) as (F2 & V2 & A2).
  destruct (step_dn _ _ 65 F1 V1 A1 ltac:(lia)) as [[Fd _] Ld'].
  destruct (step_up _ _ 65 F2 V2 A2 ltac:(lia)) as [[Fu _] Uu'].
  repeat split; try assumption; lra.
Qed.

Theorem f_log2_sound_any B s e : (2 <= B < 2 ^ 128)%Z -> s <> 0%Z -> (Z.log2 (Z.abs s) < 2 ^ 62)%Z -> (Z.abs e <= 2 ^ 63)%Z ->
  let b := f_log2_bounds lg w B s e in
  fin (fst b) = true /\ fin (snd b) = true /\
  b2r (fst b) <= log2R (IZR (Z.abs s)) + IZR e * log2R (IZR B) <= b2r (snd b).
Proof.
  intros HB Ns Hs He. unfold f_log2_bounds, f_log2_bounds_gen. destruct (Z.eqb_spec s 0) as [ | _]; [contradiction | ].
  pose proof (ibig_log2_sound s Ns Hs) as Es. rewrite base_bounds_eq by lia.
  destruct (u_log2_sound lg lg_ok B ltac:(lia)) as [Eb _]. pose proof (u_log2_lb_half lg lg_ok B HB) as Hh.
  destruct (ibig_log2_bounds lg w s) as [logs_lb logs_ub]. destruct (u_log2_bounds lg B) as [logb_lb logb_ub]. cbn [fst snd] in *.
  destruct Es as (Bsl & Bsu & Ls & Us). destruct (encl_bd _ 8 _ _ _ Eb p2_8) as [Bbl Bbu].
  destruct Eb as (_ & _ & (Lb & Ub) & _).
  set (LS := log2R (IZR (Z.abs s))) in *. set (LB := log2R (IZR B)) in *. set (E := IZR e).
  destruct (conv_gen e 63 He ltac:(lia)) as (Fe & Ve & Ae). fold E in Ve, Ae.
  destruct (step_dn _ _ 63 Fe Ve Ae ltac:(lia)) as [Bel Lel]. destruct (step_up _ _ 63 Fe Ve Ae ltac:(lia)) as [Beu Leu].
  set (e_lb := next_down (f_of_Z e)) in *. set (e_ub := next_up (f_of_Z e)) in *.
  apply (bd_mono 64 73) in Bsl, Bsu; try lia.
  destruct (Z.leb_spec 0 e) as [Pos | Neg].
  - assert (0 <= E) by (apply IZR_le; exact Pos).
    destruct (mul_gen e_lb logb_lb 64 8 Bel Bbl ltac:(lia)) as (F1 & V1 & A1).
    destruct (mul_gen e_ub logb_ub 64 8 Beu Bbu ltac:(lia)) as (F2 & V2 & A2).
    destruct (step_dn _ _ 72 F1 V1 A1 ltac:(lia)) as [Bp1 Lp1]. destruct (step_up _ _ 72 F2 V2 A2 ltac:(lia)) as [Bp2 Lp2].
    destruct (add_gen logs_lb _ 73 Bsl Bp1 ltac:(lia)) as (F3 & V3 & A3).
    destruct (add_gen logs_ub _ 73 Bsu Bp2 ltac:(lia)) as (F4 & V4 & A4).
    destruct (step_dn _ _ 74 F3 V3 A3 ltac:(lia)) as [[Fd _] Ld]. destruct (step_up _ _ 74 F4 V4 A4 ltac:(lia)) as [[Fu _] Lu].
    cbn [fst snd]. repeat split; try assumption.
    + apply Rle_trans with (1 := Ld). apply Rplus_le_compat; [exact Ls | ]. apply Rle_trans with (1 := Lp1).
      assert (0 <= (E - b2r e_lb) * b2r logb_lb) by (apply Rmult_le_pos; lra).
      assert (0 <= E * (LB - b2r logb_lb)) by (apply Rmult_le_pos; lra). lra.
    + apply Rle_trans with (2 := Lu). apply Rplus_le_compat; [exact Us | ]. apply Rle_trans with (2 := Lp2).
      assert (0 <= (b2r e_ub - E) * b2r logb_ub) by (apply Rmult_le_pos; lra).
      assert (0 <= E * (b2r logb_ub - LB)) by (apply Rmult_le_pos; lra). lra.
  - assert (E < 0) by (apply IZR_lt; exact Neg).
    destruct (mul_gen e_lb logb_ub 64 8 Bel Bbu ltac:(lia)) as (F1 & V1 & A1).
    destruct (mul_gen e_ub logb_lb 64 8 Beu Bbl ltac:(lia)) as (F2 & V2 & A2).
    destruct (step_dn _ _ 72 F1 V1 A1 ltac:(lia)) as [Bp1 Lp1]. destruct (step_up _ _ 72 F2 V2 A2 ltac:(lia)) as [Bp2 Lp2].
    destruct (add_gen logs_lb _ 73 Bsl Bp1 ltac:(lia)) as (F3 & V3 & A3).
    destruct (add_gen logs_ub _ 73 Bsu Bp2 ltac:(lia)) as (F4 & V4 & A4).
    destruct (step_dn _ _ 74 F3 V3 A3 ltac:(lia)) as [[Fd _] Ld]. destruct (step_up _ _ 74 F4 V4 A4 ltac:(lia)) as [[Fu _] Lu].
    cbn [fst snd]. repeat split; try assumption.
    + apply Rle_trans with (1 := Ld). apply Rplus_le_compat; [exact Ls | ]. apply Rle_trans with (1 := Lp1).
      assert (0 <= (E - b2r e_lb) * b2r logb_ub) by (apply Rmult_le_pos; lra).
      assert (0 <= (- E) * (b2r logb_ub - LB)) by (apply Rmult_le_pos; lra). lra.
    + apply Rle_trans with (2 := Lu). apply Rplus_le_compat; [exact Us | ]. apply Rle_trans with (2 := Lp2).
      assert (0 <= (b2r e_ub - E) * b2r logb_lb) by (apply Rmult_le_pos; lra).
      assert (0 <= (- E) * (LB - b2r logb_lb)) by (apply Rmult_le_pos; lra). lra.
Qed.
End Large.
