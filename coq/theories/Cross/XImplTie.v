(** C14 (round 4): the regenerated impl tables (coq/gen/XImplTable.v) against the model.
    (1) the NumOrd / NumHash / AbsOrd tables of the three crates have EXACTLY the expected pairs (finite universe of 21
        types: UBig, IBig, u8..u128/usize, i8..i128/isize, f32, f64, float Repr, FBig, rational Repr, RBig, Relaxed);
    (2) the expected pairs are the support of ord_asis / abs_asis at the level of operand classes;
    (3) every one-call route of the tables, interpreted over the transcribed bodies, IS the entry of ord_asis / abs_asis
        for its classes (for every estimator): a redirected impl breaks this.
    (1) and the enumeration of (3) are computations over the finite generated tables; the equalities of (3) hold for all
    operands. *)
From Coq Require Import ZArith List Bool Lia.
From Dashu Require Import Base.Prelude Cross.XVal Cross.XOrdModel Cross.XDispatch Cross.XDispatchProofs Cross.XImplModel Cross.XImplPairs.
From DashuGen Require Import XImplTable.
Import ListNotations.
Open Scope Z_scope.

(* ---------------------------------------------------------------- (1) which impls exist *)

Theorem numord_table_exact : pairs_exact numord_pairs expected_numord = true.
Proof. vm_compute. reflexivity. Qed.
Theorem absord_table_exact : pairs_exact absord_pairs expected_absord = true.
Proof. vm_compute. reflexivity. Qed.
Theorem numhash_table_exact : types_exact numhash_types expected_numhash = true.
Proof. vm_compute. reflexivity. Qed.
(** which NumOrd impls carry a body of their own (all others are one call) *)
Theorem numord_bodies_exact : bodies_exact numord_rows expected_body_numord = true.
Proof. vm_compute. reflexivity. Qed.
(** num_eq is overridden only between RBig and Relaxed (XOrdModel.qrepr_eq) *)
Theorem numord_eq_overrides : map (fun r => (snd (fst r), snd r)) numord_eq_rows = [(XRBig, XRelaxed); (XRelaxed, XRBig)].
Proof. vm_compute. reflexivity. Qed.
(** the wrappers forward their hash to the inner representation, the representations hash themselves *)
Theorem numhash_routes : forallb (fun r => match snd (fst r), snd r with
                                           | (XFBig | XRBig | XRelaxed), HFwd => true
                                           | (XUBig | XIBig | XFRepr | XQRepr), HBody => true
                                           | _, _ => false end) numhash_rows = true.
Proof. vm_compute. reflexivity. Qed.

(* ---------------------------------------------------------------- (2) the expected pairs and the model *)
Section Model.
Variable E : Type.
Variable egt : E -> E -> bool.
Variable ib : Z -> E * E.
Variable fb : Z -> Z -> Z -> E * E.
Variable qb : Z -> Z -> E * E.
Variable dub : Z -> Z -> Z.

Definition ord_class_ok (a b : cls) : bool := negb (cls_eqb a KlP && cls_eqb b KlP).
Lemma ord_support a b : ord_asis E egt ib fb qb a b <> None <-> ord_class_ok (cls_tag a) (cls_tag b) = true.
Proof. destruct a, b; cbn; split; intros H; try discriminate; try reflexivity; try (exfalso; apply H; reflexivity). Qed.

(** every impl of the table has a body in the model, and every class pair of the model is served by some impl *)
Theorem numord_model_covers : forall s r, In s all_xty -> In r all_xty -> expected_numord s r = true ->
  ord_class_ok (cls_of s) (cls_of r) = true.
Proof.
  assert (H : forallb (fun s => forallb (fun r => implb (expected_numord s r) (ord_class_ok (cls_of s) (cls_of r))) all_xty) all_xty = true)
    by (vm_compute; reflexivity).
  intros s r Hs Hr He. rewrite forallb_forall in H. specialize (H s Hs). rewrite forallb_forall in H. specialize (H r Hr).
  rewrite He in H. exact H.
Qed.
Theorem numord_model_served : forall c1 c2, ord_class_ok c1 c2 = true ->
  existsb (fun s => existsb (fun r => expected_numord s r && cls_eqb (cls_of s) c1 && cls_eqb (cls_of r) c2) all_xty) all_xty = true.
Proof. intros [ | | | | ] [ | | | | ] H; try discriminate H; vm_compute; reflexivity. Qed.

Definition abs_class_ok (a b : cls) : bool :=
  match a, b with
  | (KlU | KlI), (KlU | KlI) | KlF, KlF | KlF, (KlU | KlI) | (KlU | KlI), KlF | KlQ, (KlQ | KlU | KlI | KlF) | (KlU | KlI | KlF), KlQ => true
  | _, _ => false
  end.
Lemma abs_support a b : abs_asis E egt ib fb qb dub a b <> None -> abs_class_ok (cls_tag a) (cls_tag b) = true.
Proof. destruct a, b; cbn; intros H; try reflexivity; exfalso; apply H; reflexivity. Qed.
Theorem absord_model_covers : forall s r, In s all_xty -> In r all_xty -> expected_absord s r = true ->
  abs_class_ok (cls_of s) (cls_of r) = true.
Proof.
  assert (H : forallb (fun s => forallb (fun r => implb (expected_absord s r) (abs_class_ok (cls_of s) (cls_of r))) all_xty) all_xty = true)
    by (vm_compute; reflexivity).
  intros s r Hs Hr He. rewrite forallb_forall in H. specialize (H s Hs). rewrite forallb_forall in H. specialize (H r Hr).
  rewrite He in H. exact H.
Qed.
Theorem absord_model_served : forall c1 c2, abs_class_ok c1 c2 = true ->
  existsb (fun s => existsb (fun r => expected_absord s r && cls_eqb (cls_of s) c1 && cls_eqb (cls_of r) c2) all_xty) all_xty = true.
Proof. intros [ | | | | ] [ | | | | ] H; try discriminate H; vm_compute; reflexivity. Qed.

(* ---------------------------------------------------------------- (3) the routes *)
Lemma sign_nonneg x : 0 <= x -> sign_of x = Positive.
Proof. intros H. unfold sign_of. destruct (Z.ltb_spec x 0); [lia | reflexivity]. Qed.
Lemma ibig_cmp_u_l x y : 0 <= x -> ibig_cmp x y = ubig_cmp_ibig x y.
Proof. intros H. unfold ibig_cmp, ubig_cmp_ibig. rewrite (sign_nonneg x H), (Z.abs_eq x H). reflexivity. Qed.
Lemma ibig_cmp_u_r x y : 0 <= y -> ibig_cmp x y = ibig_cmp_ubig x y.
Proof.
  intros H. unfold ibig_cmp, ibig_cmp_ubig. rewrite (sign_nonneg y H), (Z.abs_eq y H). destruct (sign_of x); reflexivity.
Qed.
Lemma ibig_cmp_u_both x y : 0 <= x -> 0 <= y -> ibig_cmp x y = (x ?= y).
Proof. intros Hx Hy. unfold ibig_cmp. rewrite (sign_nonneg x Hx), (sign_nonneg y Hy), (Z.abs_eq x Hx), (Z.abs_eq y Hy). reflexivity. Qed.

Definition ord_row_sound (c : crow) : Prop :=
  forall a b, wf a -> wf b -> cls_tag a = fst (fst c) -> cls_tag b = snd (fst c) ->
    ord_route_sem E egt ib fb qb (snd c) a b = ord_asis E egt ib fb qb a b.
Definition abs_row_sound (c : crow) : Prop :=
  forall a b, wf a -> wf b -> cls_tag a = fst (fst c) -> cls_tag b = snd (fst c) ->
    abs_route_sem E egt ib fb qb dub (snd c) a b = abs_asis E egt ib fb qb dub a b.

Ltac row :=
  intros a b Wa Wb Ca Cb; destruct a, b; cbn in Ca, Cb; try discriminate Ca; try discriminate Cb;
  cbn [ord_route_sem abs_route_sem ord_callee_sem abs_callee_sem conv_sem snd fst option_map orev ord_asis abs_asis wf] in *;
  first
    [ reflexivity
    | rewrite ibig_cmp_u_both by assumption; reflexivity
    | rewrite ibig_cmp_u_l by assumption; reflexivity
    | rewrite ibig_cmp_u_r by assumption; reflexivity
    | match goal with |- context [?x =? ?x] => rewrite (Z.eqb_refl x); reflexivity end
    | match goal with |- context [?x =? ?y] => destruct (Z.eqb_spec x y); [subst; rewrite ?Z.eqb_refl; reflexivity | try reflexivity] end ].
Ltac rows := repeat (apply Forall_cons; [row | ]); apply Forall_nil.

Theorem numord_routes_sound : Forall ord_row_sound (class_rows numord_rows).
Proof.
  let l := eval vm_compute in (class_rows numord_rows) in change (class_rows numord_rows) with l.
  rows.
Qed.
Theorem absord_routes_sound : Forall abs_row_sound (class_rows absord_rows).
Proof.
  let l := eval vm_compute in (class_rows absord_rows) in change (class_rows absord_rows) with l.
  rows.
Qed.
End Model.

(** every row of the generated tables: the route of the impl, interpreted over the transcribed bodies, is the entry of the
    model for the classes of its two types - for every estimator and all operands *)
Theorem numord_rows_sound E egt ib fb qb : forall c s r rt, In (c, s, r, rt) numord_rows ->
  forall a b, wf a -> wf b -> cls_tag a = cls_of s -> cls_tag b = cls_of r ->
  ord_route_sem E egt ib fb qb rt a b = ord_asis E egt ib fb qb a b.
Proof.
  intros c s r rt Hin. pose proof (numord_routes_sound E egt ib fb qb) as F. rewrite Forall_forall in F.
  apply (F (cls_of s, cls_of r, rt)). unfold class_rows. apply nodup_In. apply (in_map to_crow) in Hin. exact Hin.
Qed.
Theorem absord_rows_sound E egt ib fb qb dub : forall c s r rt, In (c, s, r, rt) absord_rows ->
  forall a b, wf a -> wf b -> cls_tag a = cls_of s -> cls_tag b = cls_of r ->
  abs_route_sem E egt ib fb qb dub rt a b = abs_asis E egt ib fb qb dub a b.
Proof.
  intros c s r rt Hin. pose proof (absord_routes_sound E egt ib fb qb dub) as F. rewrite Forall_forall in F.
  apply (F (cls_of s, cls_of r, rt)). unfold class_rows. apply nodup_In. apply (in_map to_crow) in Hin. exact Hin.
Qed.

(** non-vacuity: the tables are not empty and contain one-call routes that the theorem really interprets *)
Example impl_rows_inhabited :
  In (CrInt, XUBig, XPu 128, RCall KOrd false true CId CToU false) numord_rows /\
  In (CrFloat, XPi 64, XFBig, RCall KFloatIbig false false CRepr CToI true) numord_rows /\
  In (CrRatio, XFBig, XRBig, RCall KRatFbig true false CRepr CRepr true) absord_rows /\
  wf (TU 5) /\ wf (TF 10 7 (-1)) /\ cls_tag (TU 5) = cls_of (XPu 128).
Proof.
  split; [vm_compute; tauto | ]. split; [vm_compute; tauto | ]. split; [vm_compute; tauto | ].
  cbn. unfold XOrdProofs.fwf. repeat split; try lia; intros; discriminate.
Qed.
