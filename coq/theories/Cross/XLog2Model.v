(** C14 (shared with C05/C03/C12): as-is model of the std build of EstimatedLog2::log2_bounds and of
    Repr::digits_ub - the f32 arithmetic that the comparison bodies filter with.
      base/src/math/log.rs   impl_log2_bounds_for_uint (std), next_up, next_down
      integer/src/log.rs     repr::TypedReprRef::log2_bounds, log2_bounds_large
      float/src/log.rs       impl EstimatedLog2 for Repr<B>
      float/src/repr.rs      Repr::digits_ub
      rational/src/repr.rs   impl EstimatedLog2 for Repr
    f32 is Flocq's binary32 (IEEE754.BinarySingleNaN, prec 24, emax 128); every `+ - * /` and `as f32`
    is the correctly rounded (nearest-even) IEEE operation.  f32::log2 is libm: it is the parameter [lg].
    Definitions only (proofs: XLog2Flocq.v). *)
From Coq Require Import ZArith Bool.
From Flocq Require Import Core IEEE754.BinarySingleNaN.
From Dashu Require Import Base.Prelude.
Open Scope Z_scope.

Definition f32 := binary_float 24 128.
Global Instance Hprec32 : FLX.Prec_gt_0 24 := eq_refl.
Global Instance Hmax32 : Prec_lt_emax 24 128 := eq_refl.

(** `x as f32` for an integer: round to nearest even (overflow to infinity) *)
Definition f_of_Z (z : Z) : f32 := binary_normalize 24 128 Hprec32 Hmax32 mode_NE z 0 false.
(** the dyadic constant m * 2^e (used for literals that are exactly representable) *)
Definition f_dyadic (m e : Z) : f32 := binary_normalize 24 128 Hprec32 Hmax32 mode_NE m e false.
Definition f_add (a b : f32) : f32 := Bplus mode_NE a b.
Definition f_sub (a b : f32) : f32 := Bminus mode_NE a b.
Definition f_mul (a b : f32) : f32 := Bmult mode_NE a b.
Definition f_div (a b : f32) : f32 := Bdiv mode_NE a b.
Definition f_ninf : f32 := B754_infinity true.
Definition f_pinf : f32 := B754_infinity false.
Definition f_one : f32 := f_of_Z 1.
(** `a > b` on f32 (false when either is NaN) *)
Definition f_gt (a b : f32) : bool := match Bcompare a b with Some Gt => true | _ => false end.
(** dashu_base::utils::next_up / next_down: the neighbouring f32 (the bit trick `bits +- 1` is the IEEE
    successor / predecessor; the arguments are finite wherever the library calls them) *)
Definition next_up (a : f32) : f32 := Bsucc a.
Definition next_down (a : f32) : f32 := Bpred a.
(** `x as usize` for an f32: truncation toward zero, saturating, NaN -> 0 *)
Definition f_to_usize (usize_bits : Z) (a : f32) : Z :=
  match a with
  | B754_nan => 0
  | B754_infinity s => if s then 0 else 2 ^ usize_bits - 1
  | _ => Z.max 0 (Z.min (2 ^ usize_bits - 1) (Btrunc a))
  end.

(** bit patterns (f32::from_bits / to_bits; every NaN is read as the quiet NaN) *)
Definition f_of_bits (bits : Z) : f32 :=
  let s := Z.testbit bits 31 in
  let e := Z.land (Z.shiftr bits 23) 255 in
  let m := Z.land bits (2 ^ 23 - 1) in
  if e =? 255 then (if m =? 0 then B754_infinity s else B754_nan)
  else
    let '(mm, ex) := if e =? 0 then (m, -149) else (m + 2 ^ 23, e - 150) in
    binary_normalize 24 128 Hprec32 Hmax32 mode_NE (if s then - mm else mm) ex s.
Definition f_to_bits (a : f32) : Z :=
  let sb (s : bool) := if s then 2 ^ 31 else 0 in
  match a with
  | B754_zero s => sb s
  | B754_infinity s => sb s + 255 * 2 ^ 23
  | B754_nan => 255 * 2 ^ 23 + 2 ^ 22
  | B754_finite s m e _ =>
      if Zpos m <? 2 ^ 23 then sb s + Zpos m else sb s + (e + 150) * 2 ^ 23 + (Zpos m - 2 ^ 23)
  end.

Definition is_pow2 (x : Z) : bool := x =? 2 ^ Z.log2 x.

Section Libm.
(** f32::log2 (libm log2f) *)
Variable lg : f32 -> f32.

(** impl_log2_bounds_for_uint (feature std), every unsigned width: Self::BITS only enters through
    leading_zeros, so one function serves u8 .. u128 *)
Definition u_log2_bounds (x : Z) : f32 * f32 :=
  if x =? 0 then (f_ninf, f_ninf)
  else if is_pow2 x then let log := f_of_Z (Z.log2 x) in (log, log)
  else
    let nbits := Z.log2 x + 1 in
    if nbits <=? 24 then
      let log := lg (f_of_Z x) in
      (next_down log, next_up log)
    else
      let shifted := f_of_Z (Z.shiftr x (nbits - 24)) in
      let est_lb := lg shifted in
      let est_ub := lg (f_add shifted f_one) in
      let shift := f_of_Z (nbits - 24) in
      (next_down (f_add est_lb shift), next_up (f_add est_ub shift)).

(** 1. - ADJUST and 1. + ADJUST with ADJUST = 2. * f32::EPSILON = 2^-22 (both exactly representable) *)
Definition c_adj_lo : f32 := f_dyadic (2 ^ 22 - 1) (-22).
Definition c_adj_hi : f32 := f_dyadic (2 ^ 22 + 1) (-22).

(** integer/src/log.rs log2_bounds_large: [w] = Word::BITS, the value has more than 2 words *)
Definition large_log2_bounds (w x : Z) : f32 * f32 :=
  let len := (Z.log2 x + 1 + w - 1) / w in
  let rem_bits := (len - 2) * w in
  let hi := Z.shiftr x rem_bits in
  let '(hi_lb, hi_ub) := u_log2_bounds hi in
  let r := f_of_Z rem_bits in
  (f_mul (f_add hi_lb r) c_adj_lo, f_mul (f_add hi_ub r) c_adj_hi).

(** TypedReprRef::log2_bounds: RefSmall(dword) / RefLarge(words); UBig directly, IBig on the magnitude *)
Definition ubig_log2_bounds (w x : Z) : f32 * f32 :=
  if x <? 2 ^ (2 * w) then u_log2_bounds x else large_log2_bounds w x.
Definition ibig_log2_bounds (w z : Z) : f32 * f32 := ubig_log2_bounds w (Z.abs z).

(** rational/src/repr.rs: impl EstimatedLog2 for Repr *)
Definition q_log2_bounds (w n d : Z) : f32 * f32 :=
  if n =? 0 then (f_ninf, f_ninf)
  else
    let '(n_lb, n_ub) := ibig_log2_bounds w n in
    let '(d_lb, d_ub) := ubig_log2_bounds w d in
    (next_down (f_sub n_lb d_ub), next_up (f_sub n_ub d_lb)).

(** float/src/log.rs: impl EstimatedLog2 for Repr<B>.  The exponent is an isize.
    [widen] = false is the code before the repair (one outward step at the end, for three roundings),
    [widen] = true the repaired code (an outward step after each rounding). *)
Definition base_log2_bounds (B : Z) : f32 * f32 :=
  if is_pow2 B then let log := f_of_Z (Z.log2 B) in (log, log) else u_log2_bounds B.

Definition f_log2_bounds_gen (widen : bool) (w B s e : Z) : f32 * f32 :=
  if s =? 0 then (f_ninf, f_ninf)
  else
    let '(logs_lb, logs_ub) := ibig_log2_bounds w s in
    let '(logb_lb, logb_ub) := base_log2_bounds B in
    let ef := f_of_Z e in
    if widen then
      let e_lb := next_down ef in let e_ub := next_up ef in
      let '(lb, ub) :=
        if 0 <=? e then (f_add logs_lb (next_down (f_mul e_lb logb_lb)), f_add logs_ub (next_up (f_mul e_ub logb_ub)))
        else (f_add logs_lb (next_down (f_mul e_lb logb_ub)), f_add logs_ub (next_up (f_mul e_ub logb_lb))) in
      (next_down lb, next_up ub)
    else
      let '(lb, ub) :=
        if 0 <=? e then (f_add logs_lb (f_mul ef logb_lb), f_add logs_ub (f_mul ef logb_ub))
        else (f_add logs_lb (f_mul ef logb_ub), f_add logs_ub (f_mul ef logb_lb)) in
      (next_down lb, next_up ub).
Definition f_log2_bounds := f_log2_bounds_gen true.
Definition f_log2_bounds_pinned := f_log2_bounds_gen false.

(** core::f32::consts::LOG10_2 = 0.30103 = 0x3e9a209b *)
Definition c_log10_2 : f32 := f_dyadic 10100891 (-25).

(** float/src/repr.rs Repr::digits_ub (the significand is not zero, the number finite) *)
Definition digits_ub32 (usize_bits w B s : Z) : Z :=
  if s =? 0 then 0
  else
    let ub := snd (ibig_log2_bounds w s) in
    let log :=
      if B =? 2 then ub
      else if B =? 10 then f_mul ub c_log10_2
      else f_div ub (fst (u_log2_bounds B)) in
    f_to_usize usize_bits log + 1.
End Libm.
