(** C14 (round 4): Repr::digits_ub on the f32 estimators for significands of ANY size (multi-word significands go
    through log2_bounds_large, XLog2Large.v), and with it AbsOrd / same-base PartialOrd / Ord run with the library's
    raw digits_ub for operands beyond a double word.
    Domain: word size 32..64, bit length of every integer part below 2^62, and for bases other than 2 a significand of
    at most 2^24 digits (the product `ub * LOG10_2` / the quotient `ub / log2(B).lb` is rounded to 24 bits: up to 2^24
    every digit count is an f32 and the rounding is monotone; beyond it the argument needs the slack left by ADJUST in
    log2_bounds_large, which is not analysed here).  Base 2 has no such bound (the upper estimate is used as it is). *)
From Coq Require Import ZArith Reals Lia Lra Bool.
From Flocq Require Import Core IEEE754.BinarySingleNaN.
From Dashu Require Import Base.Prelude Cross.XVal Cross.XOrdModel Cross.XDispatch
  Cross.XOrdProofs Cross.XPrimProofs Cross.XRatioProofs Cross.XDispatchProofs Cross.XEstInstance
  Cross.XLog2Model Cross.XLog2Flocq Cross.XLog2Large Cross.XEstF32Model Cross.XEstF32 Cross.XEstF32Any.
From Dashu Require Float.Contract.
Open Scope Z_scope.

(** the largest digit count for which the non-binary arms of digits_ub are proved here (a name, so that lia does not
    try to expand B ^ 16777216) *)
Definition dub_max : Z := 2 ^ 24.
Lemma dub_max_eq : dub_max = 2 ^ 24.
Proof. reflexivity. Qed.

Lemma p2_65 : (bpow radix2 65 = bpow radix2 64 * 2)%R.
Proof. change 65 with (64 + 1). rewrite bpow_plus. reflexivity. Qed.

Section DubAny.
Variable lg : f32 -> f32.
Hypothesis lg_ok : lg_contract lg.
Variable w : Z.
Hypothesis Hw : 32 <= w <= 64.

Theorem digits_ub_sound_any B s : 2 <= B < 2 ^ w -> s <> 0 -> Z.log2 (Z.abs s) < 2 ^ 62 ->
  (B = 2 \/ Z.abs s < B ^ dub_max) -> Z.abs s < B ^ digits_ub32 lg 64 w B s.
Proof.
  intros HB Ns Hs Hd. assert (PW : 2 ^ w <= 2 ^ 64) by (apply Z.pow_le_mono_r; lia).
  unfold digits_ub32. destruct (Z.eqb_spec s 0) as [ | _]; [contradiction | ].
  pose proof (ibig_log2_sound lg lg_ok w Hw s Ns Hs) as Es. cbv zeta in Es.
  destruct (u_log2_sound lg lg_ok B ltac:(lia)) as [Eb _]. pose proof (u_log2_lb_half lg lg_ok B ltac:(lia)) as Hh.
  destruct (encl_bd _ 8 _ _ _ Eb p2_8) as [Bbl _].
  destruct Es as (_ & Bsu & (_ & Us)). destruct Eb as (Fbl & _ & (Lb & _) & _).
  set (ub := snd (ibig_log2_bounds lg w s)) in *. set (lbB := fst (u_log2_bounds lg B)) in *.
  set (LS := log2R (IZR (Z.abs s))) in *. set (LB := log2R (IZR B)) in *.
  assert (Fub : is_finite ub = true) by (destruct Bsu; assumption).
  assert (LS0 : (0 <= LS)%R) by (unfold LS; rewrite <- log2R_1; apply log2R_le; [lra | apply IZR_le; lia]).
  set (log := if (B =? 2)%Z then ub else if (B =? 10)%Z then f_mul ub c_log10_2 else f_div ub lbB).
  assert (K : is_finite log = true /\ forall D, 0 <= D -> (B = 2 \/ D <= 2 ^ 24) -> (IZR D * LB <= LS)%R -> (IZR D <= B2R log)%R).
  { unfold log. destruct (Z.eqb_spec B 2) as [E2 | N2]; [ | destruct (Z.eqb_spec B 10) as [E10 | N10]].
    - split; [exact Fub | ]. intros D HD _ H. assert (HL : LB = 1%R).
      { unfold LB. rewrite E2. change 2%R with (bpow radix2 1). rewrite log2R_bpow. reflexivity. }
      rewrite HL in H. lra.
    - destruct c_log10_2_R as [Vc Fc].
      assert (Bc : bd 0 c_log10_2) by (split; [exact Fc | rewrite Vc, Rabs_pos_eq by lra; simpl; lra]).
      destruct (mul_gen ub c_log10_2 64 0 Bsu Bc ltac:(lia)) as (Fm & Vm & _). split; [exact Fm | ].
      intros D HD [HB2 | HD24] H; [lia | ]. rewrite Vm, Vc. rewrite <- (rnd32_id (IZR D)) by (apply F32_int; lia). apply rnd32_le.
      assert (HLB : LB = (ln 10 / ln 2)%R) by (unfold LB, log2R; rewrite E10; reflexivity).
      pose proof log10_2_const as C. rewrite <- HLB in C. assert (0 <= IZR D)%R by (apply IZR_le; lia).
      assert (H2 : (IZR D <= IZR D * LB * (10100891 / 33554432))%R).
      { replace (IZR D * LB * (10100891 / 33554432))%R with (IZR D * (10100891 / 33554432 * LB))%R by ring.
        rewrite <- (Rmult_1_r (IZR D)) at 1. apply Rmult_le_compat_l; assumption. }
      apply Rle_trans with (1 := H2). apply Rmult_le_compat_r; lra.
    - assert (Nz : B2R lbB <> 0%R) by lra.
      assert (A : (Rabs (B2R ub / B2R lbB) <= bpow radix2 65)%R).
      { unfold Rdiv. rewrite Rabs_mult. rewrite p2_65. destruct Bsu as [_ Bsu].
        apply Rmult_le_compat; try apply Rabs_pos; [exact Bsu | ]. rewrite Rabs_inv. rewrite Rabs_pos_eq by lra.
        replace 2%R with (/ / 2)%R by field. apply Rinv_le_contravar; lra. }
      destruct (f_div_R ub lbB Fub Nz) as [Vd Fd].
      { apply Rle_lt_trans with (bpow radix2 65); [apply bnd_rnd; [lia | exact A] | apply p2_lt_max; lia]. }
      split; [exact Fd | ]. intros D HD [HB2 | HD24] H; [lia | ].
      rewrite Vd. rewrite <- (rnd32_id (IZR D)) by (apply F32_int; lia). apply rnd32_le.
      assert (0 <= IZR D)%R by (apply IZR_le; lia).
      apply Rmult_le_reg_r with (B2R lbB); [lra | ]. unfold Rdiv. rewrite Rmult_assoc, Rinv_l, Rmult_1_r by exact Nz.
      apply Rle_trans with (IZR D * LB)%R; [apply Rmult_le_compat_l; lra | lra]. }
  destruct K as [Fl K]. fold log. set (D := f_to_usize 64 log + 1).
  destruct (Z.lt_ge_cases (Z.abs s) (B ^ D)) as [ | C]; [assumption | exfalso].
  assert (D0 : 0 <= f_to_usize 64 log) by (unfold f_to_usize; destruct log as [ | [ | ] | | ]; lia).
  assert (DB : (B = 2 \/ D <= 2 ^ 24) /\ D < 2 ^ 64).
  { destruct Hd as [E2 | Hd].
    - split; [left; exact E2 | ]. rewrite E2 in C. assert (D <= Z.log2 (Z.abs s)) by (apply Z.log2_le_pow2; lia). lia.
    - assert (D < dub_max).
      { apply (Z.pow_lt_mono_r_iff B); [lia | rewrite dub_max_eq; lia | ]. lia. }
      rewrite dub_max_eq in H. split; [right; lia | lia]. }
  destruct DB as [DB D64].
  assert (H : (IZR D * LB <= LS)%R).
  { unfold LB, LS. rewrite <- log2R_Zpow by lia. apply log2R_le; [apply IZR_lt; apply Z.pow_pos_nonneg; lia | apply IZR_le; exact C]. }
  pose proof (K D ltac:(lia) DB H) as G.
  pose proof (to_usize_ge log D Fl ltac:(lia) G). lia.
Qed.

(** the library's digits_ub, guarded by the domain on which it is proved *)
Definition dub_dom (B s : Z) : Prop := B = 2 \/ Z.abs s < B ^ dub_max.
Definition dub_domb (B s : Z) : bool := (B =? 2) || (Z.abs s <? B ^ dub_max).
Definition dubA (B s : Z) : Z :=
  if (B <? 2 ^ w) && okz s && dub_domb B s then digits_ub32 lg 64 w B s else Contract.dlen B s.

Lemma dubA_ok B s : 2 <= B -> s <> 0 -> Z.abs s < B ^ dubA B s.
Proof.
  intros HB Ns. unfold dubA, okz, dub_domb.
  destruct (Z.ltb_spec B (2 ^ w)) as [SB | _]; [ | apply dlen_ok; assumption].
  destruct (Z.ltb_spec (Z.log2 (Z.abs s)) (2 ^ 62)) as [Ss | _]; [ | apply dlen_ok; assumption]. cbn [andb].
  destruct (Z.eqb_spec B 2) as [E2 | N2]; cbn [orb].
  - apply digits_ub_sound_any; try assumption; [lia | left; exact E2].
  - destruct (Z.ltb_spec (Z.abs s) (B ^ dub_max)) as [Sd | _]; [ | apply dlen_ok; assumption].
    apply digits_ub_sound_any; try assumption; [lia | right; exact Sd].
Qed.

Lemma dubA_dom B s : B < 2 ^ w -> Z.log2 (Z.abs s) < 2 ^ 62 -> dub_dom B s -> dubA B s = digits_ub32 lg 64 w B s.
Proof.
  intros H1 H2 H3. unfold dubA, okz, dub_domb. destruct (Z.ltb_spec B (2 ^ w)); [ | lia].
  destruct (Z.ltb_spec (Z.log2 (Z.abs s)) (2 ^ 62)); [ | lia]. cbn [andb].
  destruct (Z.eqb_spec B 2) as [E2 | N2]; cbn [orb]; [reflexivity | ].
  destruct H3 as [ | H3]; [contradiction | ]. destruct (Z.ltb_spec (Z.abs s) (B ^ dub_max)); [reflexivity | lia].
Qed.

Theorem abs_f32_any_correct a b c : wf a -> wf b ->
  abs_asis f32 f_gt (ibA lg w) (fbA lg w) (qbA lg w) dubA a b = Some c -> Some c = spec_abs_cmp (val a) (val b).
Proof.
  apply (abs_asis_correct f32 f_gt (ibA lg w) (fbA lg w) (qbA lg w) dubA lo32 hi32 f_gt_sound
           (ibA_ok lg lg_ok w Hw) (fbA_ok lg lg_ok w Hw) (qbA_ok lg lg_ok w Hw) dubA_ok).
Qed.
Theorem fsame_f32_any_correct B s1 e1 s2 e2 : 2 <= B -> fwf s1 e1 -> fwf s2 e2 ->
  Some (fsame_ord dubA B s1 e1 s2 e2) = spec_cmp (fval B s1 e1) (fval B s2 e2).
Proof. apply (fsame_ord_correct dubA dubA_ok). Qed.

(** operands a machine can hold, floats with at most 2^24 digits unless binary *)
Definition dom_dub (t : tagged) : Prop := match t with TF B s _ => dub_dom B s | _ => True end.

Lemma abs_raw_any_eq a b : dom_any w a -> dom_any w b -> dom_dub a -> dom_dub b ->
  abs_raw lg w a b = abs_asis f32 f_gt (ibA lg w) (fbA lg w) (qbA lg w) dubA a b.
Proof.
  unfold abs_raw. destruct a as [x | x | B1 s1 e1 | n1 d1 | mb1 eb1 w1], b as [y | y | B2 s2 e2 | n2 d2 | mb2 eb2 w2].
  all: cbn [dom_any dom_dub].
  all: intros Da Db Ua Ub.
  all: repeat match goal with
    | H : _ /\ _ |- _ => lazymatch H with Hw => fail | _ => destruct H end
    end.
  all: unfold abs_asis.
  all: unfold fsame_cmp, frepr_cmp_ubig, frepr_cmp_ibig, qrepr_cmp_ubig, qrepr_cmp_ibig, qrepr_cmp_fbig.
  all: try (destruct (Z.eqb_spec B1 B2) as [<- | ]).
  all: rewrite ?(ibA_dom lg w) by assumption.
  all: rewrite ?(fbA_dom lg w) by assumption.
  all: rewrite ?(qbA_dom lg w) by assumption.
  all: rewrite ?dubA_dom by assumption.
  all: match goal with |- ?x = ?y => constr_eq x y; reflexivity end.
Qed.

(** AbsOrd with the library's f32 estimates and its raw digits_ub, operands of any size *)
Theorem abs_raw_any_correct a b c : wf a -> wf b -> dom_any w a -> dom_any w b -> dom_dub a -> dom_dub b ->
  abs_raw lg w a b = Some c -> Some c = spec_abs_cmp (val a) (val b).
Proof. intros Wa Wb Da Db Ua Ub H. rewrite (abs_raw_any_eq a b Da Db Ua Ub) in H. exact (abs_f32_any_correct a b c Wa Wb H). Qed.

(** PartialOrd / Ord of two floats of one base (repr_cmp_same_base) with the raw digits_ub, significands of any size *)
Theorem fsame_raw_any_correct B s1 e1 s2 e2 : 2 <= B < 2 ^ w -> fwf s1 e1 -> fwf s2 e2 ->
  Z.log2 (Z.abs s1) < 2 ^ 62 -> Z.log2 (Z.abs s2) < 2 ^ 62 -> dub_dom B s1 -> dub_dom B s2 ->
  Some (fsame_raw lg w B s1 e1 s2 e2) = spec_cmp (fval B s1 e1) (fval B s2 e2).
Proof.
  intros HB W1 W2 S1 S2 U1 U2. rewrite <- (fsame_f32_any_correct B s1 e1 s2 e2 ltac:(lia) W1 W2). f_equal.
  unfold fsame_raw, fsame_ord, fsame_cmp. rewrite (dubA_dom B s1), (dubA_dom B s2) by (assumption || lia). reflexivity.
Qed.
End DubAny.

(** non-vacuity: a 300-bit decimal significand (five 64-bit words) and a 5000-bit binary one *)
Example dub_any_inhabited :
  (2 <= 10 < 2 ^ 64 /\ (2 ^ 300 + 1 <> 0) /\ Z.log2 (Z.abs (2 ^ 300 + 1)) < 2 ^ 62 /\ dub_dom 10 (2 ^ 300 + 1)) /\
  dub_dom 2 (2 ^ 5000 + 1) /\ dom_dub (TF 10 (2 ^ 300 + 1) (-7)).
Proof.
  assert (L1 : Z.log2 (Z.abs (2 ^ 300 + 1)) < 2 ^ 62) by (vm_compute; reflexivity).
  assert (P : 2 ^ 300 + 1 < 10 ^ dub_max).
  { apply Z.lt_le_trans with (10 ^ 100); [vm_compute; reflexivity | apply Z.pow_le_mono_r; [lia | vm_compute; discriminate]]. }
  assert (A : Z.abs (2 ^ 300 + 1) = 2 ^ 300 + 1) by (apply Z.abs_eq; vm_compute; discriminate).
  unfold dom_dub, dub_dom. rewrite A.
  split; [split; [lia | split; [vm_compute; discriminate | split; [exact L1 | right; exact P]]] | ].
  split; [left; reflexivity | right; exact P].
Qed.
