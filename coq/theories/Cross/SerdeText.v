(** C16 round 4 - the serde deserialisers (integer|float|rational/src/third_party/serde.rs): definitions only.

    serde's data model: a Deserializer answers `deserialize_X(visitor)` by calling ONE visit_* method of the visitor
    (or by returning its own error).  A Visitor overrides the methods it supports; every other visit_* method is
    serde's default `Err(Error::invalid_type(..))`.  Which methods each of the five visitors overrides, which
    Deserializer method each `impl Deserialize` calls on the human-readable branch, which parser each visit_str hands
    its text to, the infinity texts and the zero-significand exponent table are REGENERATED from the sources
    (coq/gen/SerdeSites.v); the model below runs the generated tables.

    [sevent] is what the Deserializer hands over.  Sequence / map elements are already typed: `next_element::<T>()`
    is `Some v` (a value of the field's type) or `None` (the element's own deserialisation failed: `?` returns the
    error); the end of the list is the end of the sequence.  Text = list of byte values. *)
From Coq Require Import ZArith List Bool String.
From Dashu Require Import Base.Prelude Int.IoSpec Float.TextIoSpec Float.TextIoModel Float.FloatOrdModel Cross.Utf8 Cross.ParseIdx Cross.ReprNew.
From DashuGen Require SerdeSites.
Import ListNotations.
Open Scope Z_scope.

Inductive dtype := DUBig | DIBig | DRepr (B : Z) | DFBig (B : Z) | DRBig | DRelaxed.

Inductive sevent :=
| EvStr (s : list Z)                           (* visit_str / visit_borrowed_str / visit_string (defaults forward to visit_str) *)
| EvBytes (b : list Z)                         (* visit_bytes / visit_borrowed_bytes / visit_byte_buf *)
| EvSeq (items : list (option Z))              (* visit_seq *)
| EvMap (entries : list (option Z * option Z)) (* visit_map: key = index of a known field, any other number = unknown field, None = next_key fails *)
| EvOther.                                     (* every other visit_* method (bool, integers, floats, char, unit, none, some, newtype, enum) *)

Definition visitor_of (t : dtype) : string :=
  match t with
  | DUBig => "int:UBigVisitor" | DIBig => "int:IBigVisitor"
  | DRepr _ => "float:ReprVisitor" | DFBig _ => "float:FBigVisitor"
  | DRBig | DRelaxed => "ratio:ReprVisitor"
  end.

(** does the visitor override the method?  (regenerated table) *)
Definition implements (v m : string) : bool :=
  existsb (fun vm => String.eqb (fst vm) v && existsb (String.eqb m) (snd vm)) SerdeSites.gen_visitors.

Fixpoint list_eqb (a b : list Z) : bool :=
  match a, b with
  | [], [] => true
  | x :: a', y :: b' => (x =? y) && list_eqb a' b'
  | _, _ => false
  end.

(** infinity_from_str (regenerated table): Some sign *)
Definition infinity_from_str (s : list Z) : option Z :=
  match find (fun p => list_eqb (fst p) s) SerdeSites.gen_infinity_strs with Some p => Some (snd p) | None => None end.

(** a deserialised value as a triple: (v, 0, 0) integer; (significand, exponent, precision) float; (numerator, denominator, 0) *)
Definition dval := (Z * Z * Z)%type.
Definition E_de : Z := 1.       (* every serde error is one class for the run: `err Deserialize` *)

Definition as_de {A} (x : result A) : result A := match x with Err _ => Err E_de | y => y end.

(** * visit_str: the text goes to the FromStr machinery of the type *)
Definition visit_str (t : dtype) (s : list Z) : result dval :=
  match t with
  | DUBig => as_de (rbind (from_str_prefix_spec false 10 s) (fun '(v, _) => Ok (v, 0, 0)))   (* UBig::from_str_with_radix_prefix *)
  | DIBig => as_de (rbind (from_str_prefix_spec true 10 s) (fun '(v, _) => Ok (v, 0, 0)))
  | DRepr B =>
      match infinity_from_str s with
      | Some sg => Ok (0, sg, 0)
      | None => as_de (rbind (parse_idx B s) (fun '(sig, e, _) => Ok (sig, e, 0)))                 (* Repr::<B>::from_str_native *)
      end
  | DFBig B =>
      match infinity_from_str s with
      | Some sg => Ok (0, sg, 0)                                                                  (* Context::new(0) *)
      | None => as_de (rbind (parse_idx B s) (fun '(sig, e, nd) => Ok (sig, e, nd)))               (* FBig::from_str_native *)
      end
  | DRBig | DRelaxed => as_de (rbind (ratio_prefix_idx s) (fun '(n, d, _) => Ok (n, d, 0)))       (* Repr::from_str_with_radix_prefix *)
  end.

(** * visit_bytes (UBig, IBig): little-endian bytes, the sign of an IBig in the parity of the length *)
Fixpoint le_value (b : list Z) : Z := match b with [] => 0 | x :: t => x + 256 * le_value t end.
Definition visit_bytes (t : dtype) (b : list Z) : result dval :=
  match t with
  | DUBig => Ok (le_value b, 0, 0)
  | DIBig => Ok ((if Z.odd (Z.of_nat (length b)) then - le_value b else le_value b), 0, 0)
  | _ => Err E_de
  end.

(** * visit_seq: `let f = seq.next_element()?.ok_or_else(err_report)?;` per field, then
      `if seq.next_element::<IgnoredAny>()?.is_some() { Err(..) }` *)
Fixpoint take_fields (n : nat) (items : list (option Z)) : result (list Z * list (option Z)) :=
  match n with
  | O => Ok ([], items)
  | S k =>
      match items with
      | [] => Err E_de                                  (* invalid_length *)
      | None :: _ => Err E_de                           (* the element's error, by `?` *)
      | Some v :: rest => rbind (take_fields k rest) (fun '(vs, r) => Ok (v :: vs, r))
      end
  end.
Definition seq_fields (n : nat) (items : list (option Z)) : result (list Z) :=
  rbind (take_fields n items) (fun '(vs, rest) =>
    match rest with [] => Ok vs | _ :: _ => Err E_de end).   (* a further element, or the error of reading it *)

(** * visit_map: `while let Some(key) = map.next_key()? { match key { KEY_x => { if x.is_some() { duplicate } x = Some(map.next_value()?) } .. _ => unknown } }`,
      then `ok_or_else(missing_field)` per field *)
Fixpoint map_loop (nf : Z) (entries : list (option Z * option Z)) (acc : list (Z * Z)) : result (list (Z * Z)) :=
  match entries with
  | [] => Ok acc
  | (None, _) :: _ => Err E_de
  | (Some k, v) :: rest =>
      if (0 <=? k) && (k <? nf) then
        if existsb (fun kv => fst kv =? k) acc then Err E_de            (* duplicate_field *)
        else match v with None => Err E_de | Some x => map_loop nf rest ((k, x) :: acc) end
      else Err E_de                                                    (* unknown_field *)
  end.
Fixpoint collect_fields (n : nat) (k : Z) (acc : list (Z * Z)) : result (list Z) :=
  match n with
  | O => Ok []
  | S m =>
      match find (fun kv => fst kv =? k) acc with
      | None => Err E_de                                                (* missing_field *)
      | Some kv => rbind (collect_fields m (k + 1) acc) (fun vs => Ok (snd kv :: vs))
      end
  end.
Definition map_fields (n : nat) (entries : list (option Z * option Z)) : result (list Z) :=
  rbind (map_loop (Z.of_nat n) entries []) (collect_fields n 0).

Definition nfields (t : dtype) : nat := match t with DFBig _ => 3%nat | DUBig | DIBig => 0%nat | _ => 2%nat end.

(** repr_from_fields / fbig_from_fields / `Ok(Repr { numerator, denominator })` *)
Definition from_fields (t : dtype) (vs : list Z) : result dval :=
  match t, vs with
  | DRepr B, [s; e] => rbind (as_de (repr_from_fields_asis B s e)) (fun '(s', e') => Ok (s', e', 0))
  | DFBig B, [s; e; p] => as_de (fbig_from_fields_asis B s e p)
  | DRBig, [n; d] | DRelaxed, [n; d] => Ok (n, d, 0)
  | _, _ => Err E_de
  end.

(** * the visitor as a whole: one method per event; a method the visitor does not override is serde's default error *)
Definition visit (t : dtype) (ev : sevent) : result dval :=
  let v := visitor_of t in
  match ev with
  | EvStr s => if implements v "visit_str" then visit_str t s else Err E_de
  | EvBytes b => if implements v "visit_bytes" then visit_bytes t b else Err E_de
  | EvSeq items => if implements v "visit_seq" then rbind (seq_fields (nfields t) items) (from_fields t) else Err E_de
  | EvMap entries => if implements v "visit_map" then rbind (map_fields (nfields t) entries) (from_fields t) else Err E_de
  | EvOther => Err E_de
  end.

(** rational/src/repr.rs reduce / reduce2 *)
Definition reduce_asis (n d : Z) : result (Z * Z) :=
  if n =? 0 then Ok (0, 1) else let g := Z.gcd n d in Ok (n / g, d / g).
Definition reduce2_asis (n d : Z) : result (Z * Z) :=
  if n =? 0 then Ok (0, 1)
  else if d =? 0 then Panic Undocumented                       (* self.denominator.trailing_zeros().unwrap() *)
  else let z := Z.min (tz n) (tz d) in Ok (n / 2 ^ z, d / 2 ^ z).

(** `impl Deserialize`: the visitor's answer, and for the rationals deserialize_repr's zero-denominator test + reduce *)
Definition deserialize (t : dtype) (ev : sevent) : result dval :=
  rbind (visit t ev) (fun '(a, b, c) =>
    match t with
    | DRBig => if b =? 0 then Err E_de else rbind (reduce_asis a b) (fun '(n, d) => Ok (n, d, 0))
    | DRelaxed => if b =? 0 then Err E_de else rbind (reduce2_asis a b) (fun '(n, d) => Ok (n, d, 0))
    | _ => Ok (a, b, c)
    end).

(** * the JSON route (serde_json 1.0.151, a third-party crate: this part is a model of ITS text layer, used to predict the
      outcome of `serde_json::from_slice::<T>` in the run; de.rs deserialize_str, read.rs parse_str_bytes / parse_escape /
      parse_unicode_escape with validate = true, de.rs end) *)
Definition is_ws (c : Z) : bool := (c =? 32) || (c =? 9) || (c =? 10) || (c =? 13).
Fixpoint skip_ws (s : list Z) : list Z := match s with c :: t => if is_ws c then skip_ws t else s | [] => [] end.

Definition hexval (c : Z) : option Z :=
  if (48 <=? c) && (c <=? 57) then Some (c - 48)
  else if (97 <=? c) && (c <=? 102) then Some (c - 87)
  else if (65 <=? c) && (c <=? 70) then Some (c - 55)
  else None.
Definition hex4 (s : list Z) : option (Z * list Z) :=
  match s with
  | a :: b :: c :: d :: t =>
      match hexval a, hexval b, hexval c, hexval d with
      | Some x, Some y, Some z, Some u => Some (((x * 16 + y) * 16 + z) * 16 + u, t)
      | _, _, _, _ => None
      end
  | _ => None
  end.
(** push_wtf8_codepoint for a scalar value *)
Definition utf8_enc (n : Z) : list Z :=
  if n <? 128 then [n]
  else if n <? 2048 then [192 + n / 64; 128 + n mod 64]
  else if n <? 65536 then [224 + n / 4096; 128 + (n / 64) mod 64; 128 + n mod 64]
  else [240 + n / 262144; 128 + (n / 4096) mod 64; 128 + (n / 64) mod 64; 128 + n mod 64].

(** behind the opening quote: Ok (decoded bytes, text behind the closing quote) | Err *)
Fixpoint json_str (fuel : nat) (s acc : list Z) : result (list Z * list Z) :=
  match fuel with
  | O => OutOfFuel
  | S k =>
      match s with
      | [] => Err E_de                                                       (* EofWhileParsingString *)
      | c :: t =>
          if c =? 34 then Ok (rev acc, t)
          else if c =? 92 then
            match t with
            | [] => Err E_de
            | e :: t2 =>
                if e =? 34 then json_str k t2 (34 :: acc)
                else if e =? 92 then json_str k t2 (92 :: acc)
                else if e =? 47 then json_str k t2 (47 :: acc)
                else if e =? 98 then json_str k t2 (8 :: acc)
                else if e =? 102 then json_str k t2 (12 :: acc)
                else if e =? 110 then json_str k t2 (10 :: acc)
                else if e =? 114 then json_str k t2 (13 :: acc)
                else if e =? 116 then json_str k t2 (9 :: acc)
                else if e =? 117 then
                  match hex4 t2 with
                  | None => Err E_de
                  | Some (n, t3) =>
                      if (56320 <=? n) && (n <=? 57343) then Err E_de          (* lone trailing surrogate *)
                      else if (n <? 55296) || (56319 <? n) then json_str k t3 (rev (utf8_enc n) ++ acc)
                      else
                        match t3 with
                        | 92 :: 117 :: t4 =>
                            match hex4 t4 with
                            | None => Err E_de
                            | Some (n2, t5) =>
                                if (n2 <? 56320) || (57343 <? n2) then Err E_de
                                else json_str k t5 (rev (utf8_enc ((n - 55296) * 1024 + (n2 - 56320) + 65536)) ++ acc)
                            end
                        | _ => Err E_de
                        end
                  end
                else Err E_de                                                (* InvalidEscape *)
            end
          else if c <? 32 then Err E_de                                      (* ControlCharacterWhileParsingString *)
          else json_str k t (c :: acc)
      end
  end.

(** serde_json::from_slice::<T>(text) for the seven types: all of them call deserialize_str on this (human-readable) format *)
Definition serde_json_de (t : dtype) (text : list Z) : result dval :=
  match skip_ws text with
  | 34 :: rest =>
      rbind (json_str (S (length rest)) rest []) (fun '(str, after) =>
        if utf8_from 0 str then                                              (* str::from_utf8 in as_str *)
          rbind (deserialize t (EvStr str)) (fun v =>
            match skip_ws after with [] => Ok v | _ :: _ => Err E_de end)    (* Deserializer::end: trailing characters *)
        else Err E_de)
  | _ => Err E_de                                                            (* EOF, or peek_invalid_type: not a string *)
  end.

(** outcome code for the correspondence run: 0 ok, 1 err, -1 panic / out of fuel *)
Definition de_code (x : result dval) : Z := match x with Ok _ => 0 | Err _ => 1 | _ => -1 end.
Definition dtype_of (k B : Z) : dtype :=
  if k =? 0 then DUBig else if k =? 1 then DIBig else if k =? 2 then DRepr B else if k =? 3 then DFBig B
  else if k =? 4 then DRBig else DRelaxed.
Definition serde_json_code (k B : Z) (text : list Z) : Z := de_code (serde_json_de (dtype_of k B) text).
(** the struct form (what a non-human-readable format such as postcard hands over) *)
Definition struct_code (k B : Z) (fields : list Z) : Z := de_code (deserialize (dtype_of k B) (EvSeq (map Some fields))).
