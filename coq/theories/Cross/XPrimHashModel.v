(** C14: as-is model of num-order 1.2.0 src/hash.rs - NumHash of the primitive integers and floats
    (what is fed to Hash::hash as an i128).  Definitions only. *)
From Dashu Require Import Base.Prelude Cross.XVal Cross.XDispatch.
Open Scope Z_scope.

(** impl NumHash for i128 *)
Definition nh_i128 (x : Z) : Z :=
  if (x =? 2 ^ 127 - 1) || (x =? - 2 ^ 127 + 1) then 0      (* i128::MAX | MINP1 => 0 *)
  else if x =? - 2 ^ 127 then -1                             (* i128::MIN => -1 *)
  else x.
(** impl NumHash for u128 *)
Definition nh_u128 (x : Z) : Z :=
  if x =? 2 ^ 128 - 1 then 1                                 (* u128::MAX => 1 *)
  else if x =? M127 + M127 then 0                            (* M127D => 0 *)
  else if x >=? M127 then x - M127                           (* u if u >= M127U => u - M127U *)
  else x.
(** impl_hash_for_small_int (i8 .. i64, u8 .. u64; usize / isize through u64 / i64): (x as i128).hash *)
Definition prim_int_hash (bits : Z) (signed : bool) (x : Z) : Z :=
  if bits =? 128 then (if signed then nh_i128 x else nh_u128 x) else x.

(** FloatHash::fhash for f32 (mb = 23, eb = 8) and f64 (52, 11) *)
Definition HASH_NAN : Z := - 2 ^ 127.
Definition fhash_parts (mb eb bits : Z) : Z * Z * Z :=
  let sign_bit := Z.shiftr bits (mb + eb) in
  let mantissa_bits := Z.land bits (2 ^ mb - 1) in
  let exponent := Z.land (Z.shiftr bits mb) (2 ^ eb - 1) in
  let mantissa := if exponent =? 0 then Z.shiftl mantissa_bits 1 else Z.lor mantissa_bits (2 ^ mb) in
  (sign_bit, mantissa, exponent - (2 ^ (eb - 1) - 1 + mb)).
Definition fhash (mb eb bits : Z) : Z :=
  let mantissa_bits := Z.land bits (2 ^ mb - 1) in
  let exponent := Z.land (Z.shiftr bits mb) (2 ^ eb - 1) in
  let '(sign_bit, mantissa, ex) := fhash_parts mb eb bits in
  if exponent =? 2 ^ eb - 1 then
    (if negb (mantissa_bits =? 0) then HASH_NAN else if sign_bit >? 0 then - M127 else M127)
  else
    let m := mantissa mod M127 in                     (* MInt::new(mantissa, &M127U) *)
    let pow := 2 ^ absm ex 127 mod M127 in            (* mantissa.convert(1 << exponent.absm(&127)) *)
    let v := m * pow mod M127 in                      (* (mantissa * pow).residue() *)
    v * (if sign_bit =? 0 then 1 else -1).
(** impl NumHash for f32 / f64: self.fhash().num_hash(state) *)
Definition prim_float_hash (mb eb bits : Z) : Z := nh_i128 (fhash mb eb bits).
