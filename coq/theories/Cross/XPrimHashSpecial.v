(** C14 (round 4): the conventions of num-order 1.2.0 for the special primitive floats (src/hash.rs FloatHash::fhash +
    impl NumHash for i128), transcribed in XPrimHashModel.v, against dashu's hashing of its own special values:
      +-inf : fhash gives HASH_INF = i128::MAX / HASH_NEGINF = i128::MIN + 1, which `impl NumHash for i128` maps to 0;
              dashu's infinite Repr<B> (significand 0, exponent +-1) hashes to 0 as well - equal;
      NaN   : fhash gives HASH_NAN = i128::MIN, mapped to -1 (no dashu number is a NaN);
      -0.0  : hashes like +0.0, namely to 0 = the hash of the integer / float / rational zero.
    Every statement is for an arbitrary IEEE interchange format (mb mantissa bits, eb exponent bits), hence f32 and f64. *)
From Coq Require Import ZArith Lia Bool.
From Dashu Require Import Base.Prelude Cross.XVal Cross.XOrdModel Cross.XDispatch Cross.XOrdProofs Cross.XPrimProofs Cross.XHashProofs
  Cross.XPrimHashModel Cross.XPrimHashProofs.
Open Scope Z_scope.

Lemma nh_i128_pinf : nh_i128 M127 = 0.
Proof. vm_compute. reflexivity. Qed.
Lemma nh_i128_ninf : nh_i128 (- M127) = 0.
Proof. vm_compute. reflexivity. Qed.
Lemma nh_i128_nan : nh_i128 HASH_NAN = -1.
Proof. vm_compute. reflexivity. Qed.

(** an infinite primitive float (either sign) feeds the hasher 0 *)
Theorem prim_float_hash_inf mb eb bits s : decode mb eb bits = DInf s -> prim_float_hash mb eb bits = 0.
Proof.
  unfold decode, prim_float_hash, fhash, fhash_parts.
  destruct (Z.eqb_spec (Z.land (Z.shiftr bits mb) (2 ^ eb - 1)) (2 ^ eb - 1)) as [E | N].
  - destruct (Z.eqb_spec (Z.land bits (2 ^ mb - 1)) 0) as [M0 | M1]; [ | discriminate]. intros _. cbn [negb].
    destruct (Z.shiftr bits (mb + eb) >? 0); [apply nh_i128_ninf | apply nh_i128_pinf].
  - destruct (Z.land (Z.shiftr bits mb) (2 ^ eb - 1) =? 0); discriminate.
Qed.

(** a NaN of any payload and sign feeds the hasher -1 *)
Theorem prim_float_hash_nan mb eb bits : decode mb eb bits = DNaN -> prim_float_hash mb eb bits = -1.
Proof.
  unfold decode, prim_float_hash, fhash, fhash_parts.
  destruct (Z.eqb_spec (Z.land (Z.shiftr bits mb) (2 ^ eb - 1)) (2 ^ eb - 1)) as [E | N].
  - destruct (Z.eqb_spec (Z.land bits (2 ^ mb - 1)) 0) as [M0 | M1]; [discriminate | ]. intros _. cbn [negb]. apply nh_i128_nan.
  - destruct (Z.land (Z.shiftr bits mb) (2 ^ eb - 1) =? 0); discriminate.
Qed.

(** dashu's infinite floats (Repr<B> with significand 0; exponent +1 / -1) feed the hasher 0 whenever the body returns *)
Theorem frepr_hash_zero_sig B e h : frepr_hash B 0 e = Some h -> h = 0.
Proof.
  unfold frepr_hash. change (Z.rem 0 M127) with 0. cbn [Z.abs Z.ltb Z.compare].
  destruct (if B =? 2 then Some (2 ^ absm e 127 mod M127) else if e <? 0 then minv_euclid (mpow (B mod M127) (- e)) else Some (mpow (B mod M127) e)) as [eh | ];
    [ | discriminate].
  rewrite Z.mul_0_l, Z.mod_0_l by (rewrite M127_val; lia). intros H. injection H as <-. reflexivity.
Qed.

(** equal across the types: +inf / -inf as f32 or f64 and as a float of base 2, 3, 10, 16 *)
Theorem inf_hash_agree mb eb bits s B e h : decode mb eb bits = DInf s ->
  hash_asis (TF B 0 e) = Some h -> prim_float_hash mb eb bits = h.
Proof. intros D H. cbn [hash_asis] in H. rewrite (frepr_hash_zero_sig B e h H). exact (prim_float_hash_inf mb eb bits s D). Qed.

Example inf_hash_agree_ex :
  decode 23 8 (255 * 2 ^ 23) = DInf Positive /\ decode 52 11 (2 ^ 63 + 2047 * 2 ^ 52) = DInf Negative /\
  hash_asis (TF 10 0 1) = Some 0 /\ hash_asis (TF 10 0 (-1)) = Some 0 /\ hash_asis (TF 2 0 (-1)) = Some 0 /\ hash_asis (TF 16 0 1) = Some 0 /\
  prim_float_hash 23 8 (255 * 2 ^ 23) = 0 /\ prim_float_hash 52 11 (2 ^ 63 + 2047 * 2 ^ 52) = 0 /\
  decode 23 8 (255 * 2 ^ 23 + 2 ^ 22) = DNaN /\ prim_float_hash 23 8 (255 * 2 ^ 23 + 2 ^ 22) = -1.
Proof. vm_compute. repeat split; reflexivity. Qed.

(** zeros: a primitive float that decodes to the mantissa 0 (+0.0 and -0.0) feeds the hasher 0, the hash of the
    integer zero, of the zero float of any base and of the zero rational *)
Theorem prim_float_hash_zero mb eb bits ex : 0 <= mb -> mb + 1 < 127 -> 1 <= eb -> 0 <= bits < 2 ^ (mb + eb + 1) ->
  decode mb eb bits = DFin 0 ex -> prim_float_hash mb eb bits = 0.
Proof.
  intros H1 H2 H3 H4 D.
  apply (prim_float_hash_equal mb eb bits H1 H2 H3 H4 0 ex (TU 0) 0 1 0 D I); [reflexivity | reflexivity | ].
  unfold fnum. destruct (0 <=? ex); lia.
Qed.

Example zero_hash_agree_ex :
  decode 23 8 (2 ^ 31) = DFin 0 (-149) /\ decode 23 8 0 = DFin 0 (-149) /\
  decode 52 11 (2 ^ 63) = DFin 0 (-1074) /\
  prim_float_hash 23 8 (2 ^ 31) = 0 /\ prim_float_hash 23 8 0 = 0 /\ prim_float_hash 52 11 (2 ^ 63) = 0 /\ prim_float_hash 52 11 0 = 0 /\
  hash_asis (TU 0) = Some 0 /\ hash_asis (TF 10 0 0) = Some 0 /\ hash_asis (TQ 0 1) = Some 0.
Proof. vm_compute. repeat split; reflexivity. Qed.
