(** C16 round 4 - the serde deserialisers return Ok or Err on every event a Deserializer can hand over (proofs). *)
From Coq Require Import ZArith Lia List Bool String.
From Dashu Require Import Base.Prelude Int.IoSpec Float.TextIoSpec Float.TextIoModel Float.FloatOrdModel Cross.Utf8 Cross.ParseIdx
  Cross.ParseIdxProofs Cross.ReprNew Cross.ReprNewProofs Cross.SerdeText.
From DashuGen Require SerdeSites.
Import ListNotations.
Open Scope Z_scope.

(** * the regenerated tables are the ones the model was written against *)
Theorem serde_sites_modelled :
  SerdeSites.gen_visitors =
    [("int:UBigVisitor", ["visit_str"; "visit_bytes"]); ("int:IBigVisitor", ["visit_str"; "visit_bytes"]);
     ("float:ReprVisitor", ["visit_str"; "visit_seq"; "visit_map"]); ("float:FBigVisitor", ["visit_str"; "visit_seq"; "visit_map"]);
     ("ratio:ReprVisitor", ["visit_str"; "visit_seq"; "visit_map"])]%string /\
  SerdeSites.gen_visit_str_calls =
    [("int:UBigVisitor", "UBig::from_str_with_radix_prefix"); ("int:IBigVisitor", "IBig::from_str_with_radix_prefix");
     ("float:ReprVisitor", "infinity_from_str;Repr::<B>::from_str_native"); ("float:FBigVisitor", "infinity_from_str;FBig::from_str_native");
     ("ratio:ReprVisitor", "Repr::from_str_with_radix_prefix")]%string /\
  SerdeSites.gen_infinity_strs = [([105; 110; 102], 1); ([45; 105; 110; 102], -1)] /\
  SerdeSites.gen_zero_sig_exps = [(0, 0); (1, 1); (-1, -1)] /\
  SerdeSites.gen_repr_from_fields_ctor = "Repr{significand,exponent}.try_normalize()"%string /\
  SerdeSites.gen_exponent_step = "isize::try_from(shift).ok().and_then(|shift|exponent.checked_add(shift))?"%string.
Proof. repeat split; reflexivity. Qed.

(** on the human-readable branch every type asks for a string (so a JSON number, array, object, bool or null never reaches
    a visitor method: serde_json answers deserialize_str on anything else with its own invalid_type error) *)
Definition asks_for_str (h : string) : bool := String.prefix "deserialize_str(" h || String.eqb h "via:deserialize_repr".
Theorem serde_human_route_is_str : forallb (fun e => asks_for_str (snd (fst e))) SerdeSites.gen_entry_points = true.
Proof. vm_compute. reflexivity. Qed.

(** * visitors *)
Definition base_ok (t : dtype) : Prop := match t with DRepr B | DFBig B => 2 <= B | _ => True end.
Definition event_wf (ev : sevent) : Prop := match ev with EvStr s => utf8 s | _ => True end.

Lemma np_as_de {A} (x : result A) : no_panic x -> no_panic (as_de x).
Proof. destruct x; intros H; exact H. Qed.

Theorem visit_str_no_panic t s : utf8 s -> no_panic (visit_str t s).
Proof.
  intros U. destruct t; cbn [visit_str].
  - apply np_as_de, np_bind; [apply from_str_prefix_spec_np | intros [v r]; exact I].
  - apply np_as_de, np_bind; [apply from_str_prefix_spec_np | intros [v r]; exact I].
  - destruct (infinity_from_str s); [exact I|].
    apply np_as_de, np_bind; [apply parse_idx_no_panic; exact U | intros [[a b] c]; exact I].
  - destruct (infinity_from_str s); [exact I|].
    apply np_as_de, np_bind; [apply parse_idx_no_panic; exact U | intros [[a b] c]; exact I].
  - apply np_as_de, np_bind; [apply ratio_prefix_idx_no_panic; exact U | intros [[a b] c]; exact I].
  - apply np_as_de, np_bind; [apply ratio_prefix_idx_no_panic; exact U | intros [[a b] c]; exact I].
Qed.

Lemma visit_bytes_no_panic t b : no_panic (visit_bytes t b).
Proof. destruct t; exact I. Qed.

Lemma take_fields_np n : forall items, no_panic (take_fields n items).
Proof.
  induction n as [|k IH]; intros items; cbn [take_fields]; [exact I|].
  destruct items as [|[v|] rest]; try exact I. apply np_bind; [apply IH | intros [vs r]; exact I].
Qed.
Lemma seq_fields_np n items : no_panic (seq_fields n items).
Proof. unfold seq_fields. apply np_bind; [apply take_fields_np | intros [vs [|x r]]; exact I]. Qed.

Lemma map_loop_np nf : forall entries acc, no_panic (map_loop nf entries acc).
Proof.
  induction entries as [|[[k|] v] rest IH]; intros acc; cbn [map_loop]; try exact I.
  destruct (_ && _); [|exact I]. destruct (existsb _ acc); [exact I|]. destruct v; [apply IH | exact I].
Qed.
Lemma collect_fields_np acc : forall n k, no_panic (collect_fields n k acc).
Proof.
  induction n as [|m IH]; intros k; cbn [collect_fields]; [exact I|].
  destruct (find _ acc); [|exact I]. apply np_bind; [apply IH | intros vs; exact I].
Qed.
Lemma map_fields_np n entries : no_panic (map_fields n entries).
Proof. unfold map_fields. apply np_bind; [apply map_loop_np | intros acc; apply collect_fields_np]. Qed.

Lemma from_fields_np t vs : base_ok t -> no_panic (from_fields t vs).
Proof.
  intros HB. destruct t; cbn [from_fields]; try exact I.
  - destruct vs as [|s [|e [|x r]]]; try exact I.
    apply np_bind; [apply np_as_de, repr_from_fields_no_panic; exact HB | intros [a b]; exact I].
  - destruct vs as [|s [|e [|p [|x r]]]]; try exact I. apply np_as_de, fbig_from_fields_no_panic; exact HB.
  - destruct vs as [|n [|d [|x r]]]; exact I.
  - destruct vs as [|n [|d [|x r]]]; exact I.
Qed.

(** every visit_* method of every visitor, on every event: Ok or Err *)
Theorem visit_no_panic t ev : base_ok t -> event_wf ev -> no_panic (visit t ev).
Proof.
  intros HB HW. destruct ev as [s|b|items|entries|]; cbn [visit]; try exact I.
  - destruct (implements _ _); [apply visit_str_no_panic; exact HW | exact I].
  - destruct (implements _ _); [apply visit_bytes_no_panic | exact I].
  - destruct (implements _ _); [|exact I]. apply np_bind; [apply seq_fields_np | intros vs; apply from_fields_np; exact HB].
  - destruct (implements _ _); [|exact I]. apply np_bind; [apply map_fields_np | intros vs; apply from_fields_np; exact HB].
Qed.

(** `impl Deserialize for T`: the zero-denominator test of deserialize_repr is what keeps reduce2's unwrap from firing *)
Theorem deserialize_no_panic t ev : base_ok t -> event_wf ev -> no_panic (deserialize t ev).
Proof.
  intros HB HW. unfold deserialize. apply np_bind; [apply visit_no_panic; assumption|].
  intros [[a b] c]. destruct t; try exact I.
  - destruct (b =? 0); [exact I|]. unfold reduce_asis. destruct (a =? 0); exact I.
  - destruct (b =? 0) eqn:E; [exact I|]. unfold reduce2_asis. destruct (a =? 0); [exact I|]. rewrite E. exact I.
Qed.

(** without that test the struct form (numerator 1, denominator 0) reaches the unwrap *)
Example reduce2_needs_the_test : reduce2_asis 1 0 = Panic Undocumented /\ deserialize DRelaxed (EvSeq [Some 1; Some 0]) = Err E_de.
Proof. split; vm_compute; reflexivity. Qed.

(** * the routes *)
(** a string event is answered by the FromStr machinery of the type, for all six types *)
Theorem visit_str_route t s : visit t (EvStr s) = visit_str t s.
Proof. destruct t; reflexivity. Qed.

(** what is not a string, bytes (integers) or a struct (floats, rationals) is refused *)
Theorem visit_refuses (t : dtype) : visit t EvOther = Err E_de /\
  (forall items : list (option Z), t = DUBig \/ t = DIBig -> visit t (EvSeq items) = Err E_de) /\
  (forall entries : list (option Z * option Z), t = DUBig \/ t = DIBig -> visit t (EvMap entries) = Err E_de) /\
  (forall b : list Z, t <> DUBig -> t <> DIBig -> visit t (EvBytes b) = Err E_de).
Proof.
  split; [reflexivity|]. split; [|split].
  - intros items [-> | ->]; reflexivity.
  - intros entries [-> | ->]; reflexivity.
  - intros b H1 H2. destruct t; try reflexivity; contradiction.
Qed.

(** JSON route, integers: Ok exactly on the texts IBig / UBig::from_str_with_radix_prefix accept, with that value *)
Theorem json_int_route (sg : bool) s v : deserialize (if sg then DIBig else DUBig) (EvStr s) = Ok (v, 0, 0) <->
  exists r, from_str_prefix_spec sg 10 s = Ok (v, r).
Proof.
  destruct sg; unfold deserialize; rewrite visit_str_route; cbn [visit_str];
    destruct (from_str_prefix_spec _ 10 s) as [[v' r]| | |]; cbn [rbind as_de];
    (split; [intros H; try discriminate; injection H as <-; eexists; reflexivity
            | intros [r' H]; try discriminate; injection H as <- <-; reflexivity]).
Qed.

(** JSON route, floats: the two infinity texts of the serialiser, else exactly Repr::from_str_native (= the C08 grammar, by
    C16_float_parse_grammar) *)
Theorem json_float_route B s : deserialize (DRepr B) (EvStr s) =
  match infinity_from_str s with
  | Some sg => Ok (0, sg, 0)
  | None => as_de (rbind (parse_idx B s) (fun '(sig, e, _) => Ok (sig, e, 0)))
  end.
Proof.
  unfold deserialize. rewrite visit_str_route. cbn [visit_str].
  destruct (infinity_from_str s); [reflexivity|].
  destruct (parse_idx B s) as [[[a b] c]| | |]; reflexivity.
Qed.

Lemma infinity_from_str_char s sg : infinity_from_str s = Some sg <->
  (s = [105; 110; 102] /\ sg = 1) \/ (s = [45; 105; 110; 102] /\ sg = -1).
Proof.
  assert (L : forall a b, list_eqb a b = true <-> a = b).
  { induction a as [|x a IH]; destruct b as [|y b]; cbn [list_eqb]; split; try discriminate; try reflexivity.
    - intros H. apply andb_true_iff in H. destruct H as [H1 H2]. apply Z.eqb_eq in H1. apply IH in H2. congruence.
    - intros H. injection H as -> ->. rewrite Z.eqb_refl. apply IH. reflexivity. }
  unfold infinity_from_str. change SerdeSites.gen_infinity_strs with [([105; 110; 102], 1); ([45; 105; 110; 102], -1)].
  cbn [find fst snd].
  destruct (list_eqb [105; 110; 102] s) eqn:E1.
  - apply L in E1. subst s. split; [intros H; injection H as <-; left; auto | intros [[_ ->]|[H _]]; [reflexivity | discriminate]].
  - destruct (list_eqb [45; 105; 110; 102] s) eqn:E2.
    + apply L in E2. subst s. split; [intros H; injection H as <-; right; auto | intros [[H _]|[_ ->]]; [discriminate | reflexivity]].
    + split; [discriminate|]. intros [[-> _]|[-> _]]; [rewrite (proj2 (L _ _) eq_refl) in E1 | rewrite (proj2 (L _ _) eq_refl) in E2]; discriminate.
Qed.

(** JSON route, rationals: an accepted text gives a positive denominator and a fraction in lowest terms (RBig) *)
Lemma ratio_prefix_idx_den_pos src n d r : ratio_prefix_idx src = Ok (n, d, r) -> 0 < d.
Proof.
  unfold ratio_prefix_idx. destruct (lfind is_slash src) as [slash|].
  - destruct (str_to src slash); cbn [rbind]; try discriminate.
    destruct (ibig_default 10 a) as [[num nr]| | |]; cbn [rbind]; try discriminate.
    destruct (str_from src (S slash)); cbn [rbind]; try discriminate.
    destruct (ibig_default nr a0) as [[den dr]| | |]; cbn [rbind]; try discriminate.
    destruct (negb _); [discriminate|]. destruct (den =? 0) eqn:E; [discriminate|]. apply Z.eqb_neq in E.
    intros H. injection H as _ <- _. lia.
  - destruct (ibig_default 10 src) as [[n0 r0]| | |]; cbn [rbind]; try discriminate. intros H. injection H as _ <- _. lia.
Qed.

Theorem json_rbig_route s n d c : deserialize DRBig (EvStr s) = Ok (n, d, c) -> 0 < d /\ Z.gcd n d = 1.
Proof.
  unfold deserialize. rewrite visit_str_route. cbn [visit_str].
  destruct (ratio_prefix_idx s) as [[[n0 d0] r0]| | |] eqn:E; cbn [rbind as_de]; try discriminate.
  apply ratio_prefix_idx_den_pos in E.
  destruct (d0 =? 0); [discriminate|]. unfold reduce_asis.
  destruct (Z.eqb_spec n0 0) as [->|Hn]; cbn [rbind].
  - intros H. injection H as <- <- _. split; [lia | reflexivity].
  - intros H. injection H as <- <- _.
    pose proof (Z.gcd_nonneg n0 d0) as G0.
    assert (G : Z.gcd n0 d0 <> 0) by (intros G; apply Z.gcd_eq_0 in G; lia).
    split; [|apply Z.gcd_div_gcd; [exact G | reflexivity]].
    destruct (Z.gcd_divide_r n0 d0) as [q Hq]. rewrite Hq at 1. rewrite Z.div_mul by exact G. nia.
Qed.

(** * the JSON text layer never runs out of fuel *)
Lemma hex4_length s n t : hex4 s = Some (n, t) -> (length t + 4 = length s)%nat.
Proof.
  destruct s as [|a [|b [|c [|d r]]]]; cbn [hex4]; try discriminate.
  destruct (hexval a), (hexval b), (hexval c), (hexval d); try discriminate. intros H. injection H as _ <-. cbn [length]. lia.
Qed.

Lemma json_str_total : forall fuel s acc, (length s < fuel)%nat -> no_panic (json_str fuel s acc).
Proof.
  induction fuel as [|k IH]; intros s acc Hl; [lia|]. cbn [json_str].
  destruct s as [|c t]; [exact I|]. cbn [length] in Hl.
  destruct (c =? 34); [exact I|]. destruct (c =? 92).
  - destruct t as [|e t2]; [exact I|]. cbn [length] in Hl.
    repeat match goal with |- no_panic (if ?b then json_str k t2 _ else _) => destruct b; [apply IH; lia|] end.
    destruct (e =? 117); [|exact I].
    destruct (hex4 t2) as [[n t3]|] eqn:H4; [|exact I]. apply hex4_length in H4.
    destruct (_ && _); [exact I|]. destruct (_ || _); [apply IH; lia|].
    destruct t3 as [|x [|y t4]]; try exact I.
    { destruct x; try exact I. do 7 (destruct p; try exact I). }
    destruct x; try exact I. do 7 (destruct p; try exact I).
    destruct y; try exact I. do 7 (destruct p; try exact I).
    destruct (hex4 t4) as [[n2 t5]|] eqn:H5; [|exact I]. apply hex4_length in H5. cbn [length] in H4.
    destruct (_ || _); [exact I|]. apply IH. lia.
  - destruct (c <? 32); [exact I|]. apply IH. lia.
Qed.

(** serde_json::from_slice::<T> on ANY byte string: Ok or Err, for all six types *)
Theorem serde_json_de_no_panic t text : base_ok t -> no_panic (serde_json_de t text).
Proof.
  intros HB. unfold serde_json_de. destruct (skip_ws text) as [|c rest]; [exact I|].
  destruct c; try exact I. do 6 (destruct p; try exact I).
  apply np_bind; [apply json_str_total; lia|]. intros [str after].
  destruct (utf8_from 0 str) eqn:U; [|exact I].
  apply np_bind; [apply deserialize_no_panic; [exact HB | exact U]|].
  intros v. destruct (skip_ws after); exact I.
Qed.

(** non-vacuity: "0x1f" (JSON string), a number, an escape, a lone surrogate; the struct form with an exponent at the end of the range *)
Example serde_json_ex :
  serde_json_de DIBig [32; 34; 45; 48; 120; 49; 102; 34; 10] = Ok (-31, 0, 0) /\
  serde_json_de DIBig [49; 50] = Err E_de /\
  serde_json_de DUBig [34; 92; 117; 48; 48; 51; 55; 34] = Ok (7, 0, 0) /\
  serde_json_de DUBig [34; 92; 117; 100; 56; 48; 48; 34] = Err E_de /\
  serde_json_de (DFBig 10) [34; 105; 110; 102; 34] = Ok (0, 1, 0) /\
  serde_json_de (DFBig 10) [34; 49; 46; 53; 101; 51; 34] = Ok (15, 2, 2) /\
  serde_json_de DRBig [34; 52; 47; 54; 34] = Ok (2, 3, 0) /\
  serde_json_de DRBig [34; 52; 47; 48; 34] = Err E_de /\
  deserialize (DFBig 10) (EvSeq [Some 10; Some isize_max; Some 0]) = Err E_de /\
  deserialize (DFBig 10) (EvSeq [Some 70; Some (isize_max - 1); Some 0]) = Ok (7, isize_max, 0) /\
  deserialize (DRepr 10) (EvMap [(Some 1, Some 5); (Some 0, Some 1200)]) = Ok (12, 7, 0) /\
  deserialize (DRepr 10) (EvMap [(Some 1, Some 5); (Some 1, Some 6)]) = Err E_de.
Proof. repeat split; vm_compute; reflexivity. Qed.
