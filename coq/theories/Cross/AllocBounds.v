(** C16 (allocation): which operations have a result whose size is NOT bounded by a constant times the size of the
    inputs.  [bits x] = number of bits of |x| (0 for 0); the size of an input is the sum of the bits of its arguments,
    a shift count / exponent / bit index n being an argument of [bits n] bits.

    class LINEAR   add sub mul div rem gcd sqr cubic roots and or xor not, FBig arithmetic at a fixed precision,
                   with_precision (rounds or keeps, never pads), parsers / printers:  bits result <= bits a + bits b + 1
    class VALUE    shl, set_bit, ones, pow, next_power_of_two after shl, FBig::to_int / RBig conversions of a float with a
                   large exponent, FBig::ln (non-binary base: scales by 2^|log2 x|), from_chunks / to_chunks:
                   the result has about n (or n * bits a) bits for a NUMERIC argument n - exponential in the size of n.
    The second class is inherent in the mathematical result (it has that many bits); the library documents no limit:
    the allocator's failure ('try to allocate too much memory' / 'out of memory', integer/src/error.rs) is the only guard.
    The correspondence run keeps these arguments small (results below ~32 MiB) and observes the panic class beyond. *)
From Dashu Require Import Base.Prelude.
Open Scope Z_scope.

Definition bits (x : Z) : Z := if x =? 0 then 0 else Z.log2 (Z.abs x) + 1.

Lemma bits_pos_spec a : 0 < a -> 2 ^ (bits a - 1) <= a < 2 ^ bits a.
Proof.
  intros H. unfold bits. replace (a =? 0) with false by (symmetry; apply Z.eqb_neq; lia).
  rewrite Z.abs_eq by lia. replace (Z.log2 a + 1 - 1) with (Z.log2 a) by lia.
  pose proof (Z.log2_spec a H). replace (Z.log2 a + 1) with (Z.succ (Z.log2 a)) by lia. lia.
Qed.

Lemma bits_unique a k : 0 < a -> 2 ^ (k - 1) <= a < 2 ^ k -> bits a = k.
Proof.
  intros H Hk. unfold bits. replace (a =? 0) with false by (symmetry; apply Z.eqb_neq; lia).
  rewrite Z.abs_eq by lia.
  assert (0 <= k - 1).
  { destruct (Z_lt_le_dec (k - 1) 0) as [Hn|]; [|lia]. exfalso.
    assert (k <= 0) by lia. destruct (Z.eq_dec k 0) as [->|]; [cbn in Hk; lia|].
    rewrite (Z.pow_neg_r 2 k) in Hk by lia. lia. }
  rewrite (Z.log2_unique a (k - 1)); [lia | lia |]. replace (Z.succ (k - 1)) with k by lia. lia.
Qed.

Lemma bits_nonneg x : 0 <= bits x.
Proof. unfold bits. destruct (x =? 0); [lia|]. pose proof (Z.log2_nonneg (Z.abs x)). lia. Qed.

(** shl: exactly n more bits *)
Theorem shl_bits a n : 0 < a -> 0 <= n -> bits (a * 2 ^ n) = bits a + n.
Proof.
  intros Ha Hn. pose proof (bits_pos_spec a Ha) as [L U]. pose proof (bits_nonneg a).
  assert (1 <= bits a).
  { destruct (Z.eq_dec (bits a) 0) as [E|]; [rewrite E in U; cbn in U; lia | lia]. }
  assert (0 < 2 ^ n) by (apply Z.pow_pos_nonneg; lia).
  apply bits_unique; [nia|].
  replace (bits a + n - 1) with ((bits a - 1) + n) by lia.
  rewrite !Z.pow_add_r by lia. nia.
Qed.

(** mul: linear *)
Theorem mul_bits a b : 0 < a -> 0 < b -> bits (a * b) <= bits a + bits b.
Proof.
  intros Ha Hb. pose proof (bits_pos_spec a Ha) as [La Ua]. pose proof (bits_pos_spec b Hb) as [Lb Ub].
  pose proof (bits_nonneg a). pose proof (bits_nonneg b).
  assert (Hab : a * b < 2 ^ (bits a + bits b)) by (rewrite Z.pow_add_r by lia; nia).
  pose proof (bits_pos_spec (a * b) ltac:(nia)) as [L U].
  destruct (Z_lt_le_dec (bits a + bits b) (bits (a * b))) as [C|]; [|lia]. exfalso.
  assert (2 ^ (bits a + bits b) <= 2 ^ (bits (a * b) - 1)) by (apply Z.pow_le_mono_r; lia). lia.
Qed.

(** pow: n * bits a, from both sides *)
Theorem pow_bits_upper a n : 0 < a -> 0 <= n -> bits (a ^ n) <= n * bits a + 1.
Proof.
  intros Ha Hn. pose proof (bits_pos_spec a Ha) as [_ U]. pose proof (bits_nonneg a).
  assert (Hp : 0 < a ^ n) by (apply Z.pow_pos_nonneg; lia).
  assert (Hlt : a ^ n <= (2 ^ bits a) ^ n) by (apply Z.pow_le_mono_l; lia).
  rewrite <- Z.pow_mul_r in Hlt by lia.
  pose proof (bits_pos_spec (a ^ n) Hp) as [L _].
  destruct (Z_lt_le_dec (n * bits a + 1) (bits (a ^ n))) as [C|]; [|lia]. exfalso.
  assert (HH : 2 ^ (bits a * n + 1) <= 2 ^ (bits (a ^ n) - 1)) by (apply Z.pow_le_mono_r; lia).
  rewrite Z.pow_add_r in HH by nia. change (2 ^ 1) with 2 in HH. assert (0 < 2 ^ (bits a * n)) by (apply Z.pow_pos_nonneg; nia). lia.
Qed.

Theorem pow_bits_lower a n : 2 <= a -> 0 <= n -> n * (bits a - 1) + 1 <= bits (a ^ n).
Proof.
  intros Ha Hn. pose proof (bits_pos_spec a ltac:(lia)) as [L _]. pose proof (bits_nonneg a).
  assert (1 <= bits a - 1).
  { destruct (Z_lt_le_dec (bits a - 1) 1) as [C|]; [|lia]. exfalso.
    pose proof (bits_pos_spec a ltac:(lia)) as [_ U]. assert (bits a <= 1) by lia.
    assert (HH : 2 ^ bits a <= 2 ^ 1) by (apply Z.pow_le_mono_r; lia). change (2 ^ 1) with 2 in HH. lia. }
  assert (Hp : 0 < a ^ n) by (apply Z.pow_pos_nonneg; lia).
  assert (Hge : (2 ^ (bits a - 1)) ^ n <= a ^ n) by (apply Z.pow_le_mono_l; split; [apply Z.pow_nonneg; lia | lia]).
  rewrite <- Z.pow_mul_r in Hge by lia.
  pose proof (bits_pos_spec (a ^ n) Hp) as [_ U].
  destruct (Z_lt_le_dec (bits (a ^ n)) (n * (bits a - 1) + 1)) as [C|]; [|lia]. exfalso.
  assert (2 ^ bits (a ^ n) <= 2 ^ ((bits a - 1) * n)) by (apply Z.pow_le_mono_r; [lia | nia]). lia.
Qed.

(** a float s * B^e converted to an integer (FBig::to_int, trunc, RBig::try_from): bits s + e * bits B *)
Theorem to_int_bits s B e : 0 < s -> 2 <= B -> 0 <= e -> bits (s * B ^ e) <= bits s + e * bits B + 1.
Proof.
  intros Hs HB He. assert (Hp : 0 < B ^ e) by (apply Z.pow_pos_nonneg; lia).
  pose proof (mul_bits s (B ^ e) Hs Hp). pose proof (pow_bits_upper B e ltac:(lia) He). lia.
Qed.

(** no constant c bounds the result size of shl (hence of pow with base 2, set_bit, ones, to_int) by c times the
    size of the input *)
Theorem shl_not_linear : forall c, 0 < c -> exists a n, 0 < a /\ 0 <= n /\ c * (bits a + bits n) < bits (a * 2 ^ n).
Proof.
  intros c Hc. set (m := 2 * c + 6). set (k := 2 * m).
  exists 1, (2 ^ k).
  assert (Hk : 0 <= k) by (unfold k, m; lia).
  assert (Hn : 0 < 2 ^ k) by (apply Z.pow_pos_nonneg; lia).
  split; [lia|]. split; [lia|].
  rewrite (shl_bits 1 (2 ^ k)) by lia.
  assert (B1 : bits 1 = 1) by reflexivity.
  assert (Bn : bits (2 ^ k) = k + 1).
  { apply bits_unique; [exact Hn|]. replace (k + 1 - 1) with k by lia. rewrite Z.pow_add_r by lia. lia. }
  rewrite B1, Bn.
  (* 2^k = (2^m)^2 > m^2 = (2c+6) m >= c (2m + 3) *)
  assert (Hm : m < 2 ^ m) by (apply Z.pow_gt_lin_r; unfold m; lia).
  assert (E : 2 ^ k = 2 ^ m * 2 ^ m) by (unfold k; replace (2 * m) with (m + m) by lia; rewrite Z.pow_add_r by (unfold m; lia); reflexivity).
  assert (m * m < 2 ^ k) by (rewrite E; unfold m in *; nia).
  unfold k, m in *. nia.
Qed.

Example shl_bits_ex : bits (5 * 2 ^ 100) = 103. Proof. reflexivity. Qed.
Example pow_bits_ex : bits (3 ^ 1000) = 1585 /\ 1000 * (bits 3 - 1) + 1 = 1001 /\ 1000 * bits 3 + 1 = 2001. Proof. repeat split. Qed.
