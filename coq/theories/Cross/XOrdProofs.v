(** C14: proofs.  The transcribed bodies of XOrdModel.v against the exact-value specification of XVal.v.
    Part 1: the bodies that filter with EstimatedLog2::log2_bounds.  The estimator is abstract: any type of
    estimates with any interpretation [lo_ok]/[hi_ok] for which "lower estimate of x > upper estimate of y"
    implies y < x. *)
From Dashu Require Import Base.Prelude Cross.XVal Cross.XOrdModel.
Open Scope Z_scope.

(** NaN is incomparable with everything *)
Lemma spec_cmp_nan_l : forall b, spec_cmp XNaN b = None.
Proof. intros b; reflexivity. Qed.
Lemma spec_cmp_nan_r : forall a, spec_cmp a XNaN = None.
Proof. intros [ | [ | ] | n d]; reflexivity. Qed.

(* ---------------------------------------------------------------- small facts *)
Lemma cmp_lt a b : a < b -> (a ?= b) = Lt.
Proof. apply Z.compare_lt_iff. Qed.
Lemma cmp_gt a b : b < a -> (a ?= b) = Gt.
Proof. apply Z.compare_gt_iff. Qed.
Lemma cmp_ext a b c d : a = c -> b = d -> (a ?= b) = (c ?= d).
Proof. intros -> ->; reflexivity. Qed.
Lemma cmp_scale a b k : 0 < k -> (a * k ?= b * k) = (a ?= b).
Proof. intros H. rewrite !(Z.mul_comm _ k). apply Zcompare_mult_compat with (p := Z.to_pos k) (n := a) (m := b) || idtac.
  destruct k; try lia. apply Zcompare_mult_compat. Qed.

Lemma sign_of_pos x : sign_of x = Positive <-> 0 <= x.
Proof. unfold sign_of. destruct (Z.ltb_spec x 0); split; intros; try lia; try discriminate; reflexivity. Qed.
Lemma sign_of_neg x : sign_of x = Negative <-> x < 0.
Proof. unfold sign_of. destruct (Z.ltb_spec x 0); split; intros; try lia; try discriminate; reflexivity. Qed.
Lemma sign_of_mul_pos x k : 0 < k -> sign_of (x * k) = sign_of x.
Proof. intros H. unfold sign_of. destruct (Z.ltb_spec x 0), (Z.ltb_spec (x * k) 0); try reflexivity; nia. Qed.

(** numerator and denominator of m * B^e *)
Definition fnum (B m e : Z) : Z := if 0 <=? e then m * B ^ e else m.
Definition fden (B e : Z) : Z := if 0 <=? e then 1 else B ^ (- e).
Lemma scale_val_fin m B e : scale_val m B e = XFin (fnum B m e) (fden B e).
Proof. unfold scale_val, fnum, fden. destruct (0 <=? e); reflexivity. Qed.
Lemma fden_pos B e : 0 < B -> 0 < fden B e.
Proof. intros H. unfold fden. destruct (Z.leb_spec 0 e); [lia | apply Z.pow_pos_nonneg; lia]. Qed.
Lemma fnum_sign B m e : 0 < B -> sign_of (fnum B m e) = sign_of m.
Proof. intros H. unfold fnum. destruct (Z.leb_spec 0 e); [ | reflexivity].
  apply sign_of_mul_pos. apply Z.pow_pos_nonneg; lia. Qed.
Lemma fnum_abs B m e : 0 < B -> Z.abs (fnum B m e) = fnum B (Z.abs m) e.
Proof. intros H. unfold fnum. destruct (Z.leb_spec 0 e); [ | reflexivity].
  rewrite Z.abs_mul. f_equal. apply Z.abs_eq. apply Z.pow_nonneg; lia. Qed.
Lemma fnum_zero B m e : 0 < B -> fnum B m e = 0 <-> m = 0.
Proof. intros H. unfold fnum. destruct (Z.leb_spec 0 e); [ | tauto].
  assert (0 < B ^ e) by (apply Z.pow_pos_nonneg; lia). nia. Qed.

Lemma fval_fin B s e : f_is_inf s e = false -> fval B s e = XFin (fnum B s e) (fden B e).
Proof. intros H. unfold fval. rewrite H. apply scale_val_fin. Qed.
Lemma fval_inf B s e : f_is_inf s e = true -> fval B s e = XInf (if 0 <? e then Positive else Negative).
Proof. intros H. unfold fval. rewrite H. reflexivity. Qed.
Lemma f_is_inf_true s e : f_is_inf s e = true -> s = 0 /\ e <> 0.
Proof. unfold f_is_inf. destruct (Z.eqb_spec s 0), (Z.eqb_spec e 0); cbn; intros; try discriminate; lia. Qed.

(** magnitudes are fractions n/d with n >= 0, d > 0 *)
Definition mlt (a b : Z * Z) : Prop := fst a * snd b < fst b * snd a.

(** the order of two fractions of one sign from the order of their magnitudes *)
Lemma order_from_mag_gt sg n1 d1 n2 d2 : sign_of n1 = sg -> sign_of n2 = sg ->
  mlt (Z.abs n2, d2) (Z.abs n1, d1) -> (n1 * d2 ?= n2 * d1) = smul sg Gt.
Proof.
  unfold mlt; cbn [fst snd]. intros H1 H2 H. destruct sg; cbn [smul CompOpp].
  - apply sign_of_pos in H1, H2. rewrite !Z.abs_eq in H by lia. apply cmp_gt. lia.
  - apply sign_of_neg in H1, H2. rewrite !Z.abs_neq in H by lia. apply cmp_lt. lia.
Qed.
Lemma order_from_mag_lt sg n1 d1 n2 d2 : sign_of n1 = sg -> sign_of n2 = sg ->
  mlt (Z.abs n1, d1) (Z.abs n2, d2) -> (n1 * d2 ?= n2 * d1) = smul sg Lt.
Proof.
  unfold mlt; cbn [fst snd]. intros H1 H2 H. destruct sg; cbn [smul CompOpp].
  - apply sign_of_pos in H1, H2. rewrite !Z.abs_eq in H by lia. apply cmp_lt. lia.
  - apply sign_of_neg in H1, H2. rewrite !Z.abs_neq in H by lia. apply cmp_gt. lia.
Qed.
Lemma order_mixed_gt n1 d1 n2 d2 : 0 < d1 -> 0 < d2 -> sign_of n1 = Positive -> sign_of n2 = Negative ->
  (n1 * d2 ?= n2 * d1) = Gt.
Proof. intros ? ? H1 H2. apply sign_of_pos in H1. apply sign_of_neg in H2. apply cmp_gt. nia. Qed.
Lemma order_mixed_lt n1 d1 n2 d2 : 0 < d1 -> 0 < d2 -> sign_of n1 = Negative -> sign_of n2 = Positive ->
  (n1 * d2 ?= n2 * d1) = Lt.
Proof. intros ? ? H1 H2. apply sign_of_neg in H1. apply sign_of_pos in H2. apply cmp_lt. nia. Qed.

(* ================================================================================================
   the estimator contract and the bodies that use it
   ================================================================================================ *)
Definition fmag (B s e : Z) : Z * Z := (Z.abs (fnum B s e), fden B e).

Section Contract.
Variable E : Type.
Variable egt : E -> E -> bool.
Variable ib : Z -> E * E.
Variable fb : Z -> Z -> Z -> E * E.
Variable qb : Z -> Z -> E * E.
(** interpretation of an estimate: "a is a lower (upper) estimate of the magnitude n/d" *)
Variable lo_ok hi_ok : E -> Z * Z -> Prop.
Hypothesis egt_sound : forall a b x y, lo_ok a x -> hi_ok b y -> egt a b = true -> mlt y x.
Hypothesis ib_ok : forall z, lo_ok (fst (ib z)) (Z.abs z, 1) /\ hi_ok (snd (ib z)) (Z.abs z, 1).
Hypothesis fb_ok : forall B s e, 2 <= B -> f_is_inf s e = false ->
  lo_ok (fst (fb B s e)) (fmag B s e) /\ hi_ok (snd (fb B s e)) (fmag B s e).
Hypothesis qb_ok : forall n d, 0 < d -> lo_ok (fst (qb n d)) (Z.abs n, d) /\ hi_ok (snd (qb n d)) (Z.abs n, d).

Notation est_filter := (est_filter E egt).

(** the filter never changes the answer of the exact path *)
Lemma est_filter_spec l r sg exact n1 d1 n2 d2 :
  sign_of n1 = sg -> sign_of n2 = sg ->
  lo_ok (fst l) (Z.abs n1, d1) /\ hi_ok (snd l) (Z.abs n1, d1) ->
  lo_ok (fst r) (Z.abs n2, d2) /\ hi_ok (snd r) (Z.abs n2, d2) ->
  exact tt = (n1 * d2 ?= n2 * d1) ->
  est_filter l r sg exact = (n1 * d2 ?= n2 * d1).
Proof.
  intros H1 H2 [Ll Lh] [Rl Rh] Hx. unfold XOrdModel.est_filter.
  destruct (egt (fst l) (snd r)) eqn:G1.
  - symmetry. apply order_from_mag_gt; auto. eapply egt_sound; eauto.
  - destruct (egt (fst r) (snd l)) eqn:G2; [ | exact Hx].
    symmetry. apply order_from_mag_lt; auto. eapply egt_sound; eauto.
Qed.

(** magnitude version (ABS = true): the filter runs with Sign::Positive on the magnitudes *)
Lemma est_filter_abs l r exact n1 d1 n2 d2 :
  lo_ok (fst l) (Z.abs n1, d1) /\ hi_ok (snd l) (Z.abs n1, d1) ->
  lo_ok (fst r) (Z.abs n2, d2) /\ hi_ok (snd r) (Z.abs n2, d2) ->
  exact tt = (Z.abs n1 * d2 ?= Z.abs n2 * d1) ->
  est_filter l r Positive exact = (Z.abs n1 * d2 ?= Z.abs n2 * d1).
Proof.
  intros L R Hx. apply est_filter_spec; auto.
  - apply sign_of_pos; lia.
  - apply sign_of_pos; lia.
  - rewrite Z.abs_involutive; exact L.
  - rewrite Z.abs_involutive; exact R.
Qed.

Ltac cmp_ring := apply cmp_ext; unfold shl_digits, fnum, fden; ring.

(** exact paths of the float bodies: the scaled comparison is the cross-multiplied comparison *)
Lemma float_int_exact B s e u :
  (if e <? 0 then s ?= shl_digits B u (- e) else shl_digits B s e ?= u) = (fnum B s e * 1 ?= u * fden B e).
Proof.
  unfold fnum, fden, shl_digits. destruct (Z.ltb_spec e 0), (Z.leb_spec 0 e); try lia; apply cmp_ext; ring.
Qed.
Lemma float_int_exact_abs B s e u : 0 < B ->
  (if e <? 0 then Z.abs s ?= Z.abs (shl_digits B u (- e)) else Z.abs (shl_digits B s e) ?= Z.abs u)
  = (Z.abs (fnum B s e) * 1 ?= Z.abs u * fden B e).
Proof.
  intros HB. unfold fnum, fden, shl_digits. destruct (Z.ltb_spec e 0), (Z.leb_spec 0 e); try lia.
  - assert (0 < B ^ (- e)) by (apply Z.pow_pos_nonneg; lia).
    rewrite Z.abs_mul, (Z.abs_eq (B ^ (- e))) by lia. apply cmp_ext; ring.
  - assert (0 < B ^ e) by (apply Z.pow_pos_nonneg; lia).
    rewrite !Z.abs_mul, (Z.abs_eq (B ^ e)) by lia. apply cmp_ext; ring.
Qed.

(** float/src/cmp.rs repr_cmp_ubig::<B, false>: NumOrd between Repr/FBig and UBig (and the unsigned primitives) *)
Theorem frepr_cmp_ubig_ord B s e u : 2 <= B -> 0 <= u ->
  Some (frepr_cmp_ubig E egt ib fb false B s e u) = spec_cmp (fval B s e) (XFin u 1).
Proof.
  intros HB Hu. unfold frepr_cmp_ubig. destruct (f_is_inf s e) eqn:Hi.
  - rewrite fval_inf by exact Hi. rewrite orb_false_r. destruct (0 <? e); reflexivity.
  - rewrite fval_fin by exact Hi. cbn [spec_cmp negb andb].
    assert (Hd : 0 < fden B e) by (apply fden_pos; lia).
    destruct (sign_of s) eqn:Hs.
    + f_equal. apply est_filter_spec.
      * rewrite fnum_sign by lia. exact Hs.
      * apply sign_of_pos; lia.
      * apply (fb_ok B s e HB Hi).
      * apply ib_ok.
      * apply float_int_exact.
    + f_equal. symmetry. apply order_mixed_lt; try lia.
      * rewrite fnum_sign by lia. exact Hs.
      * apply sign_of_pos; lia.
Qed.

(** ... ::<B, true>: AbsOrd between Repr/FBig and UBig *)
Theorem frepr_cmp_ubig_abs B s e u : 2 <= B -> 0 <= u ->
  Some (frepr_cmp_ubig E egt ib fb true B s e u) = spec_abs_cmp (fval B s e) (XFin u 1).
Proof.
  intros HB Hu. unfold frepr_cmp_ubig, spec_abs_cmp. destruct (f_is_inf s e) eqn:Hi.
  - rewrite fval_inf by exact Hi. rewrite orb_true_r. reflexivity.
  - rewrite fval_fin by exact Hi. cbn [spec_cmp negb andb xabs]. f_equal.
    apply est_filter_abs.
    + apply (fb_ok B s e HB Hi).
    + apply ib_ok.
    + apply float_int_exact_abs; lia.
Qed.

(** repr_cmp_ibig::<B, false> *)
Theorem frepr_cmp_ibig_ord B s e i : 2 <= B ->
  Some (frepr_cmp_ibig E egt ib fb false B s e i) = spec_cmp (fval B s e) (XFin i 1).
Proof.
  intros HB. unfold frepr_cmp_ibig. destruct (f_is_inf s e) eqn:Hi.
  - rewrite fval_inf by exact Hi. rewrite orb_false_r. destruct (0 <? e); reflexivity.
  - rewrite fval_fin by exact Hi. cbn [spec_cmp].
    assert (Hd : 0 < fden B e) by (apply fden_pos; lia).
    assert (Hn : sign_of (fnum B s e) = sign_of s) by (apply fnum_sign; lia).
    unfold sign_filter. destruct (sign_of s) eqn:Hs, (sign_of i) eqn:Hsi; f_equal.
    + apply est_filter_spec; auto. apply (fb_ok B s e HB Hi). apply float_int_exact.
    + symmetry. apply order_mixed_gt; auto; lia.
    + symmetry. apply order_mixed_lt; auto; lia.
    + apply est_filter_spec; auto. apply (fb_ok B s e HB Hi). apply float_int_exact.
Qed.

Theorem frepr_cmp_ibig_abs B s e i : 2 <= B ->
  Some (frepr_cmp_ibig E egt ib fb true B s e i) = spec_abs_cmp (fval B s e) (XFin i 1).
Proof.
  intros HB. unfold frepr_cmp_ibig, spec_abs_cmp. destruct (f_is_inf s e) eqn:Hi.
  - rewrite fval_inf by exact Hi. rewrite orb_true_r. reflexivity.
  - rewrite fval_fin by exact Hi. cbn [spec_cmp xabs]. f_equal.
    apply est_filter_abs.
    + apply (fb_ok B s e HB Hi).
    + apply ib_ok.
    + apply float_int_exact_abs; lia.
Qed.

(** impl NumOrd<Repr<B2>> for Repr<B1> (any two bases) *)
Lemma float_float_exact B1 s1 e1 B2 s2 e2 :
  (let '(lhs, rhs) := if e1 <? 0 then (s1, shl_digits B1 s2 (- e1)) else (shl_digits B1 s1 e1, s2) in
   let '(lhs, rhs) := if e2 <? 0 then (shl_digits B2 lhs (- e2), rhs) else (lhs, shl_digits B2 rhs e2) in
   lhs ?= rhs) = (fnum B1 s1 e1 * fden B2 e2 ?= fnum B2 s2 e2 * fden B1 e1).
Proof.
  unfold fnum, fden, shl_digits.
  destruct (Z.ltb_spec e1 0), (Z.leb_spec 0 e1), (Z.ltb_spec e2 0), (Z.leb_spec 0 e2); try lia; apply cmp_ext; ring.
Qed.

(** the constructors of Repr store a zero significand only with exponent 0 (zero), +1 (+inf) or -1 (-inf) *)
Definition fwf (s e : Z) : Prop := s = 0 -> -1 <= e <= 1.

Theorem repr_num_cmp_ord B1 s1 e1 B2 s2 e2 : 2 <= B1 -> 2 <= B2 -> fwf s1 e1 -> fwf s2 e2 ->
  Some (repr_num_cmp E egt fb B1 s1 e1 B2 s2 e2) = spec_cmp (fval B1 s1 e1) (fval B2 s2 e2).
Proof.
  intros HB1 HB2 W1 W2. unfold repr_num_cmp.
  destruct (f_is_inf s1 e1) eqn:Hi1, (f_is_inf s2 e2) eqn:Hi2.
  - rewrite !fval_inf by assumption.
    apply f_is_inf_true in Hi1, Hi2. specialize (W1 (proj1 Hi1)). specialize (W2 (proj1 Hi2)).
    destruct (Z.ltb_spec 0 e1), (Z.ltb_spec 0 e2); cbn [spec_cmp]; f_equal;
      [apply Z.compare_eq_iff | apply cmp_gt | apply cmp_lt | apply Z.compare_eq_iff]; lia.
  - rewrite (fval_inf B1) by assumption. rewrite (fval_fin B2) by assumption.
    apply f_is_inf_true in Hi1. destruct (Z.leb_spec 0 e1), (Z.ltb_spec 0 e1); try lia; reflexivity.
  - rewrite (fval_inf B2) by assumption. rewrite (fval_fin B1) by assumption.
    apply f_is_inf_true in Hi2. destruct (Z.leb_spec 0 e2), (Z.ltb_spec 0 e2); try lia; reflexivity.
  - rewrite !fval_fin by assumption. cbn [spec_cmp].
    assert (0 < fden B1 e1) by (apply fden_pos; lia). assert (0 < fden B2 e2) by (apply fden_pos; lia).
    assert (Hn1 : sign_of (fnum B1 s1 e1) = sign_of s1) by (apply fnum_sign; lia).
    assert (Hn2 : sign_of (fnum B2 s2 e2) = sign_of s2) by (apply fnum_sign; lia).
    unfold sign_filter. destruct (sign_of s1) eqn:Hs1, (sign_of s2) eqn:Hs2; f_equal.
    + apply est_filter_spec; auto. apply (fb_ok B1 s1 e1 HB1 Hi1). apply (fb_ok B2 s2 e2 HB2 Hi2). apply float_float_exact.
    + symmetry. apply order_mixed_gt; auto.
    + symmetry. apply order_mixed_lt; auto.
    + apply est_filter_spec; auto. apply (fb_ok B1 s1 e1 HB1 Hi1). apply (fb_ok B2 s2 e2 HB2 Hi2). apply float_float_exact.
Qed.

(* ---------------------------------------------------------------- rational crate *)
(** rational/src/cmp.rs repr_cmp_ubig *)
Theorem qrepr_cmp_ubig_ord n d u : 0 < d -> 0 <= u ->
  Some (qrepr_cmp_ubig E egt ib qb false n d u) = spec_cmp (XFin n d) (XFin u 1).
Proof.
  intros Hd Hu. unfold qrepr_cmp_ubig. cbn [spec_cmp negb andb]. f_equal.
  destruct (sign_of n) eqn:Hs.
  - apply est_filter_spec; [exact Hs | apply sign_of_pos; lia | apply qb_ok; exact Hd | apply ib_ok | ].
    apply sign_of_pos in Hs. rewrite !Z.abs_eq by nia. apply cmp_ext; ring.
  - symmetry. apply order_mixed_lt; auto; try lia. apply sign_of_pos; lia.
Qed.
Theorem qrepr_cmp_ubig_abs n d u : 0 < d -> 0 <= u ->
  Some (qrepr_cmp_ubig E egt ib qb true n d u) = spec_abs_cmp (XFin n d) (XFin u 1).
Proof.
  intros Hd Hu. unfold qrepr_cmp_ubig, spec_abs_cmp. cbn [spec_cmp negb andb xabs]. f_equal.
  apply est_filter_abs; [apply qb_ok; exact Hd | apply ib_ok | ].
  rewrite Z.abs_mul, (Z.abs_eq d) by lia. apply cmp_ext; ring.
Qed.

(** repr_cmp_ibig *)
Theorem qrepr_cmp_ibig_ord n d i : 0 < d ->
  Some (qrepr_cmp_ibig E egt ib qb false n d i) = spec_cmp (XFin n d) (XFin i 1).
Proof.
  intros Hd. unfold qrepr_cmp_ibig. cbn [spec_cmp]. f_equal.
  unfold sign_filter. destruct (sign_of n) eqn:Hs, (sign_of i) eqn:Hsi.
  - apply est_filter_spec; [assumption | assumption | apply qb_ok; exact Hd | apply ib_ok | apply cmp_ext; ring].
  - symmetry. apply order_mixed_gt; auto; lia.
  - symmetry. apply order_mixed_lt; auto; lia.
  - apply est_filter_spec; [assumption | assumption | apply qb_ok; exact Hd | apply ib_ok | apply cmp_ext; ring].
Qed.
Theorem qrepr_cmp_ibig_abs n d i : 0 < d ->
  Some (qrepr_cmp_ibig E egt ib qb true n d i) = spec_abs_cmp (XFin n d) (XFin i 1).
Proof.
  intros Hd. unfold qrepr_cmp_ibig, spec_abs_cmp. cbn [spec_cmp xabs]. f_equal.
  apply est_filter_abs; [apply qb_ok; exact Hd | apply ib_ok | ].
  rewrite Z.abs_mul, (Z.abs_eq d) by lia. apply cmp_ext; ring.
Qed.

(** with_float::repr_cmp_fbig (rational on the left, float on the right) *)
Lemma ratio_float_exact n d B s e :
  (let lhs := n in let rhs := s * d in
   let '(lhs, rhs) := if e <? 0 then (lhs * B ^ (- e), rhs) else (lhs, rhs * B ^ e) in lhs ?= rhs)
  = (n * fden B e ?= fnum B s e * d).
Proof.
  unfold fnum, fden. destruct (Z.ltb_spec e 0), (Z.leb_spec 0 e); try lia; apply cmp_ext; ring.
Qed.
Lemma ratio_float_exact_abs n d B s e : 0 < B -> 0 < d ->
  (let lhs := n in let rhs := s * d in
   let '(lhs, rhs) := if e <? 0 then (lhs * B ^ (- e), rhs) else (lhs, rhs * B ^ e) in Z.abs lhs ?= Z.abs rhs)
  = (Z.abs n * fden B e ?= Z.abs (fnum B s e) * d).
Proof.
  intros HB Hd. unfold fnum, fden. destruct (Z.ltb_spec e 0), (Z.leb_spec 0 e); try lia.
  - assert (0 < B ^ (- e)) by (apply Z.pow_pos_nonneg; lia).
    rewrite !Z.abs_mul, (Z.abs_eq (B ^ (- e))), (Z.abs_eq d) by lia. apply cmp_ext; ring.
  - assert (0 < B ^ e) by (apply Z.pow_pos_nonneg; lia).
    rewrite !Z.abs_mul, (Z.abs_eq (B ^ e)), (Z.abs_eq d) by lia. apply cmp_ext; ring.
Qed.

Theorem qrepr_cmp_fbig_ord n d B s e : 0 < d -> 2 <= B ->
  Some (qrepr_cmp_fbig E egt fb qb false n d B s e) = spec_cmp (XFin n d) (fval B s e).
Proof.
  intros Hd HB. unfold qrepr_cmp_fbig. destruct (f_is_inf s e) eqn:Hi.
  - rewrite fval_inf by exact Hi. cbn [orb]. destruct (0 <? e); reflexivity.
  - rewrite fval_fin by exact Hi. cbn [spec_cmp]. f_equal.
    assert (0 < fden B e) by (apply fden_pos; lia).
    assert (Hn : sign_of (fnum B s e) = sign_of s) by (apply fnum_sign; lia).
    unfold sign_filter. destruct (sign_of n) eqn:Hs, (sign_of s) eqn:Hss.
    + apply est_filter_spec; [assumption | congruence | apply qb_ok; exact Hd | apply (fb_ok B s e HB Hi) | apply ratio_float_exact].
    + symmetry. apply order_mixed_gt; auto.
    + symmetry. apply order_mixed_lt; auto.
    + apply est_filter_spec; [assumption | congruence | apply qb_ok; exact Hd | apply (fb_ok B s e HB Hi) | apply ratio_float_exact].
Qed.
Theorem qrepr_cmp_fbig_abs n d B s e : 0 < d -> 2 <= B ->
  Some (qrepr_cmp_fbig E egt fb qb true n d B s e) = spec_abs_cmp (XFin n d) (fval B s e).
Proof.
  intros Hd HB. unfold qrepr_cmp_fbig, spec_abs_cmp. destruct (f_is_inf s e) eqn:Hi.
  - rewrite fval_inf by exact Hi. reflexivity.
  - rewrite fval_fin by exact Hi. cbn [spec_cmp xabs]. f_equal.
    apply est_filter_abs; [apply qb_ok; exact Hd | apply (fb_ok B s e HB Hi) | apply ratio_float_exact_abs; lia].
Qed.
End Contract.
