(** C14: the property-level statements.  Whatever pair of types is compared through NumOrd or AbsOrd, the impl
    that serves the pair returns the order of the exact values (for every sound estimator). *)
From Dashu Require Import Base.Prelude Cross.XVal Cross.XOrdModel Cross.XDispatch
  Cross.XOrdProofs Cross.XPrimProofs Cross.XRatioProofs.
Open Scope Z_scope.

(** what the constructors of the library guarantee about stored operands *)
Definition wf (t : tagged) : Prop :=
  match t with
  | TU z => 0 <= z
  | TI _ => True
  | TF B s e => 2 <= B /\ fwf s e
  | TQ n d => 0 < d
  | TP mb eb _ => 0 <= mb /\ 1 <= eb
  end.

Definition val (t : tagged) : xval := value_of (untag t).

Lemma spec_cmp_swap a b : spec_cmp b a = orev (spec_cmp a b).
Proof.
  destruct a as [ | [ | ] | n1 d1], b as [ | [ | ] | n2 d2]; try reflexivity.
  cbn [spec_cmp orev option_map]. f_equal. apply Z.compare_antisym.
Qed.
Lemma spec_abs_cmp_swap a b : spec_abs_cmp b a = orev (spec_abs_cmp a b).
Proof. unfold spec_abs_cmp. apply spec_cmp_swap. Qed.
Lemma swap_some c v : Some c = v -> Some (CompOpp c) = orev v.
Proof. intros <-. reflexivity. Qed.

Section Main.
Variable E : Type.
Variable egt : E -> E -> bool.
Variable ib : Z -> E * E.
Variable fb : Z -> Z -> Z -> E * E.
Variable qb : Z -> Z -> E * E.
Variable dub : Z -> Z -> Z.
Variable lo_ok hi_ok : E -> Z * Z -> Prop.
Hypothesis egt_sound : forall a b x y, lo_ok a x -> hi_ok b y -> egt a b = true -> mlt y x.
Hypothesis ib_ok : forall z, lo_ok (fst (ib z)) (Z.abs z, 1) /\ hi_ok (snd (ib z)) (Z.abs z, 1).
Hypothesis fb_ok : forall B s e, 2 <= B -> f_is_inf s e = false ->
  lo_ok (fst (fb B s e)) (fmag B s e) /\ hi_ok (snd (fb B s e)) (fmag B s e).
Hypothesis qb_ok : forall n d, 0 < d -> lo_ok (fst (qb n d)) (Z.abs n, d) /\ hi_ok (snd (qb n d)) (Z.abs n, d).
Hypothesis dub_ok : forall B s, 2 <= B -> s <> 0 -> Z.abs s < B ^ dub B s.

(** NumOrd: every implemented pair of types *)
Theorem ord_asis_correct a b r : wf a -> wf b ->
  ord_asis E egt ib fb qb a b = Some r -> r = spec_cmp (val a) (val b).
Proof.
  unfold val.
  destruct a as [x | x | B1 s1 e1 | n1 d1 | mb1 eb1 w1], b as [y | y | B2 s2 e2 | n2 d2 | mb2 eb2 w2];
    cbn [wf ord_asis untag]; intros Wa Wb H; try discriminate H; injection H as <-;
    cbn [value_of].
  - cbn [spec_cmp]. f_equal. apply cmp_ext; ring.
  - apply ubig_cmp_ibig_ord; assumption.
  - rewrite (spec_cmp_swap (fval B2 s2 e2)). apply swap_some.
    apply (frepr_cmp_ubig_ord E egt ib fb lo_ok hi_ok egt_sound ib_ok fb_ok); tauto.
  - rewrite (spec_cmp_swap (XFin n2 d2)). apply swap_some.
    apply (qrepr_cmp_ubig_ord E egt ib qb lo_ok hi_ok egt_sound ib_ok qb_ok); assumption.
  - apply ubig_cmp_prim_ord; tauto.
  - apply ibig_cmp_ubig_ord; assumption.
  - apply ibig_cmp_ord.
  - rewrite (spec_cmp_swap (fval B2 s2 e2)). apply swap_some.
    apply (frepr_cmp_ibig_ord E egt ib fb lo_ok hi_ok egt_sound ib_ok fb_ok); tauto.
  - rewrite (spec_cmp_swap (XFin n2 d2)). apply swap_some.
    apply (qrepr_cmp_ibig_ord E egt ib qb lo_ok hi_ok egt_sound ib_ok qb_ok); assumption.
  - apply ibig_cmp_prim_ord; tauto.
  - apply (frepr_cmp_ubig_ord E egt ib fb lo_ok hi_ok egt_sound ib_ok fb_ok); tauto.
  - apply (frepr_cmp_ibig_ord E egt ib fb lo_ok hi_ok egt_sound ib_ok fb_ok); tauto.
  - apply (repr_num_cmp_ord E egt fb lo_ok hi_ok egt_sound fb_ok); tauto.
  - rewrite (spec_cmp_swap (XFin n2 d2)). apply swap_some.
    apply (qrepr_cmp_fbig_ord E egt fb qb lo_ok hi_ok egt_sound fb_ok qb_ok); tauto.
  - apply frepr_cmp_prim_ord; tauto.
  - apply (qrepr_cmp_ubig_ord E egt ib qb lo_ok hi_ok egt_sound ib_ok qb_ok); assumption.
  - apply (qrepr_cmp_ibig_ord E egt ib qb lo_ok hi_ok egt_sound ib_ok qb_ok); assumption.
  - apply (qrepr_cmp_fbig_ord E egt fb qb lo_ok hi_ok egt_sound fb_ok qb_ok); tauto.
  - apply qrepr_cmp_ord; assumption.
  - apply qrepr_cmp_prim_ord; tauto.
  - rewrite (spec_cmp_swap (XFin y 1)). f_equal. apply ubig_cmp_prim_ord; tauto.
  - rewrite (spec_cmp_swap (XFin y 1)). f_equal. apply ibig_cmp_prim_ord; tauto.
  - rewrite (spec_cmp_swap (fval B2 s2 e2)). f_equal. apply frepr_cmp_prim_ord; tauto.
  - rewrite (spec_cmp_swap (XFin n2 d2)). f_equal. apply qrepr_cmp_prim_ord; tauto.
Qed.

(** NaN on either side is incomparable, through every impl *)
Corollary ord_asis_nan a b r : wf a -> wf b -> ord_asis E egt ib fb qb a b = Some r ->
  val a = XNaN \/ val b = XNaN -> r = None.
Proof.
  intros Wa Wb H N. rewrite (ord_asis_correct a b r Wa Wb H).
  destruct N as [-> | ->]; [apply spec_cmp_nan_l | apply spec_cmp_nan_r].
Qed.

(** AbsOrd: every implemented pair of types *)
Theorem abs_asis_correct a b c : wf a -> wf b ->
  abs_asis E egt ib fb qb dub a b = Some c -> Some c = spec_abs_cmp (val a) (val b).
Proof.
  unfold val.
  destruct a as [x | x | B1 s1 e1 | n1 d1 | mb1 eb1 w1], b as [y | y | B2 s2 e2 | n2 d2 | mb2 eb2 w2];
    cbn [wf abs_asis untag]; intros Wa Wb H; try discriminate H; cbn [value_of].
  1-2, 5-6: injection H as <-; apply int_abs_cmp_abs.
  - injection H as <-. rewrite (spec_abs_cmp_swap (fval B2 s2 e2)). apply swap_some.
    apply (frepr_cmp_ubig_abs E egt ib fb lo_ok hi_ok egt_sound ib_ok fb_ok); tauto.
  - injection H as <-. rewrite (spec_abs_cmp_swap (XFin n2 d2)). apply swap_some.
    apply (qrepr_cmp_ubig_abs E egt ib qb lo_ok hi_ok egt_sound ib_ok qb_ok); assumption.
  - injection H as <-. rewrite (spec_abs_cmp_swap (fval B2 s2 e2)). apply swap_some.
    apply (frepr_cmp_ibig_abs E egt ib fb lo_ok hi_ok egt_sound ib_ok fb_ok); tauto.
  - injection H as <-. rewrite (spec_abs_cmp_swap (XFin n2 d2)). apply swap_some.
    apply (qrepr_cmp_ibig_abs E egt ib qb lo_ok hi_ok egt_sound ib_ok qb_ok); assumption.
  - injection H as <-. apply (frepr_cmp_ubig_abs E egt ib fb lo_ok hi_ok egt_sound ib_ok fb_ok); tauto.
  - injection H as <-. apply (frepr_cmp_ibig_abs E egt ib fb lo_ok hi_ok egt_sound ib_ok fb_ok); tauto.
  - destruct (Z.eqb_spec B1 B2) as [<- | ]; [ | discriminate H]. injection H as <-.
    apply (fsame_cmp_abs dub dub_ok); tauto.
  - injection H as <-. rewrite (spec_abs_cmp_swap (XFin n2 d2)). apply swap_some.
    apply (qrepr_cmp_fbig_abs E egt fb qb lo_ok hi_ok egt_sound fb_ok qb_ok); tauto.
  - injection H as <-. apply (qrepr_cmp_ubig_abs E egt ib qb lo_ok hi_ok egt_sound ib_ok qb_ok); assumption.
  - injection H as <-. apply (qrepr_cmp_ibig_abs E egt ib qb lo_ok hi_ok egt_sound ib_ok qb_ok); assumption.
  - injection H as <-. apply (qrepr_cmp_fbig_abs E egt fb qb lo_ok hi_ok egt_sound fb_ok qb_ok); tauto.
  - injection H as <-. apply qrepr_cmp_abs; assumption.
Qed.

(** PartialOrd / Ord of two floats of one base *)
Theorem fsame_ord_correct B s1 e1 s2 e2 : 2 <= B -> fwf s1 e1 -> fwf s2 e2 ->
  Some (fsame_ord dub B s1 e1 s2 e2) = spec_cmp (fval B s1 e1) (fval B s2 e2).
Proof. intros. apply (fsame_cmp_ord dub dub_ok); assumption. Qed.
End Main.

(** the contract is satisfiable (non-vacuity): the estimator that never decides *)
Example contract_trivial_instance :
  let egt := fun (_ _ : unit) => false in
  let b1 := fun (_ : Z) => (tt, tt) in let b2 := fun (_ _ : Z) => (tt, tt) in let b3 := fun (_ _ _ : Z) => (tt, tt) in
  let ok := fun (_ : unit) (_ : Z * Z) => True in
  (forall a b x y, ok a x -> ok b y -> egt a b = true -> mlt y x) /\
  (forall z, ok (fst (b1 z)) (Z.abs z, 1) /\ ok (snd (b1 z)) (Z.abs z, 1)) /\
  ord_asis unit egt b1 b3 b2 (TF 10 1 (-1)) (TQ 1 10) = Some (Some Eq).
Proof. cbn zeta. split; [intros; discriminate | split; [intros; split; exact I | reflexivity]]. Qed.
