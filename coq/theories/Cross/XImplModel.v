(** C14 (round 4): the vocabulary of the REGENERATED impl tables (coq/gen/XImplTable.v, tools/translate_c14_r4.py) and
    their meaning over the transcribed bodies.  Definitions only.
      xty     the types that carry NumOrd / NumHash / AbsOrd impls in the integer, float and rational crates
      route   what the body of an impl does when it is ONE call: the callee, its const argument ABS (for the methods: false
              for cmp / num_cmp, true for abs_cmp), which operand comes first, the conversion
              applied to each operand (UBig::from.., IBig::from.., a field projection), and a final `.reverse()`;
              RBody stands for a longer body (transcribed in XOrdModel.v, tied by the correspondence run)
      *_sem   the interpretation of a route over the bodies of XOrdModel.v / XDispatch.v *)
From Coq Require Import ZArith List Bool.
From Dashu Require Import Base.Prelude Cross.XVal Cross.XOrdModel Cross.XDispatch.
Import ListNotations.
Open Scope Z_scope.

Inductive crate := CrInt | CrFloat | CrRatio.
(** XPu / XPi: the primitive integers by width, 0 = usize / isize *)
Inductive xty := XUBig | XIBig | XPu (bits : Z) | XPi (bits : Z) | XF32 | XF64 | XFRepr | XFBig | XQRepr | XRBig | XRelaxed.
Inductive conv := CId | CRepr | CToU | CToI.
Inductive callee := KOrd | KNum | KAbs | KFloatUbig | KFloatIbig | KFloatSame | KRatUbig | KRatIbig | KRatFbig | KRatRat.
Inductive route := RBody | RCall (k : callee) (abs : bool) (first_is_self : bool) (c1 c2 : conv) (reversed : bool).
Inductive hroute := HBody | HFwd.

Definition xty_eqb (a b : xty) : bool :=
  match a, b with
  | XUBig, XUBig | XIBig, XIBig | XF32, XF32 | XF64, XF64 | XFRepr, XFRepr | XFBig, XFBig
  | XQRepr, XQRepr | XRBig, XRBig | XRelaxed, XRelaxed => true
  | XPu x, XPu y | XPi x, XPi y => x =? y
  | _, _ => false
  end.

(** the class of operands of the model (tagged) a type belongs to *)
Inductive cls := KlU | KlI | KlF | KlQ | KlP.
Definition cls_of (t : xty) : cls :=
  match t with
  | XUBig | XPu _ => KlU
  | XIBig | XPi _ => KlI
  | XF32 | XF64 => KlP
  | XFRepr | XFBig => KlF
  | XQRepr | XRBig | XRelaxed => KlQ
  end.
Definition cls_tag (t : tagged) : cls :=
  match t with TU _ => KlU | TI _ => KlI | TF _ _ _ => KlF | TQ _ _ => KlQ | TP _ _ _ => KlP end.
Definition cls_eqb (a b : cls) : bool :=
  match a, b with KlU, KlU | KlI, KlI | KlF, KlF | KlQ, KlQ | KlP, KlP => true | _, _ => false end.

(** every type of the universe (the six widths of the primitive integers) *)
Definition widths : list Z := [8; 16; 32; 64; 128; 0].
Definition all_xty : list xty :=
  [XUBig; XIBig] ++ map XPu widths ++ map XPi widths ++ [XF32; XF64; XFRepr; XFBig; XQRepr; XRBig; XRelaxed].
Definition is_prim_int (t : xty) : bool := match t with XPu _ | XPi _ => true | _ => false end.
Definition is_prim (t : xty) : bool := match t with XPu _ | XPi _ | XF32 | XF64 => true | _ => false end.
Definition is_big_int (t : xty) : bool := match t with XUBig | XIBig => true | _ => false end.

(** THE EXPECTED TABLES (what the model ord_asis / abs_asis / hash_asis and the harness dispatch assume).
    integer crate: UBig, IBig between themselves and with every primitive, both directions.
    float crate:   Repr<B1> with Repr<B2>, FBig with FBig (never mixed); either of them with UBig, IBig and every primitive,
                   both directions.
    rational:      RBig with Relaxed (both directions; NOT with themselves - Ord serves there); RBig / Relaxed with UBig, IBig,
                   every primitive and FBig, both directions; the inner Repr with UBig, IBig, the primitives and the float
                   Repr<B>, on the left only. *)
Definition is_float (t : xty) : bool := match t with XFRepr | XFBig => true | _ => false end.
Definition is_ratio (t : xty) : bool := match t with XRBig | XRelaxed => true | _ => false end.
Definition expected_numord (s r : xty) : bool :=
  (is_big_int s && (is_big_int r || is_prim r)) || (is_prim s && is_big_int r)
  || (xty_eqb s XFRepr && xty_eqb r XFRepr) || (xty_eqb s XFBig && xty_eqb r XFBig)
  || (is_float s && (is_big_int r || is_prim r)) || ((is_big_int s || is_prim s) && is_float r)
  || (xty_eqb s XRBig && xty_eqb r XRelaxed) || (xty_eqb s XRelaxed && xty_eqb r XRBig)
  || (is_ratio s && (is_big_int r || is_prim r || xty_eqb r XFBig)) || ((is_big_int s || is_prim s || xty_eqb s XFBig) && is_ratio r)
  || (xty_eqb s XQRepr && (is_big_int r || is_prim r || xty_eqb r XFRepr)).

Definition expected_numhash (t : xty) : bool :=
  match t with XUBig | XIBig | XFRepr | XFBig | XQRepr | XRBig | XRelaxed => true | _ => false end.

(** AbsOrd: UBig / IBig between themselves; FBig with itself (same type); Repr<B> / FBig with UBig / IBig both directions;
    the rationals between themselves (any mix of RBig and Relaxed, the inner Repr with itself), RBig / Relaxed with UBig / IBig
    and FBig both directions, the inner Repr with UBig / IBig on the left *)
Definition expected_absord (s r : xty) : bool :=
  (is_big_int s && is_big_int r) || (xty_eqb s XFBig && xty_eqb r XFBig)
  || (is_float s && is_big_int r) || (is_big_int s && is_float r)
  || (is_ratio s && is_ratio r) || (xty_eqb s XQRepr && xty_eqb r XQRepr)
  || (is_ratio s && (is_big_int r || xty_eqb r XFBig)) || ((is_big_int s || xty_eqb s XFBig) && is_ratio r)
  || (xty_eqb s XQRepr && is_big_int r).

(** the impls whose body is NOT one call (the transcribed bodies of XOrdModel.v): UBig <-> IBig, UBig / IBig / float Repr /
    rational Repr against f32 / f64 (on the left), float Repr against float Repr.  A forwarding impl that is turned into an inline
    body, or the other way round, changes this set. *)
Definition is_pfloat (t : xty) : bool := match t with XF32 | XF64 => true | _ => false end.
Definition expected_body_numord (s r : xty) : bool :=
  (xty_eqb s XUBig && xty_eqb r XIBig) || (xty_eqb s XIBig && xty_eqb r XUBig)
  || ((is_big_int s || xty_eqb s XFRepr || xty_eqb s XQRepr) && is_pfloat r)
  || (xty_eqb s XFRepr && xty_eqb r XFRepr).
Definition is_body (r : route) : bool := match r with RBody => true | _ => false end.
Definition bodies_exact (l : list (crate * xty * xty * route)) (expected : xty -> xty -> bool) : bool :=
  forallb (fun r => Bool.eqb (is_body (snd r)) (expected (snd (fst (fst r))) (snd (fst r)))) l.

(** the pairs of a table and the test "the table has exactly the expected pairs over the universe" *)
Definition has_pair (l : list (xty * xty)) (s r : xty) : bool := existsb (fun p => xty_eqb (fst p) s && xty_eqb (snd p) r) l.
Definition in_universe (t : xty) : bool := existsb (xty_eqb t) all_xty.
Definition pairs_exact (l : list (xty * xty)) (expected : xty -> xty -> bool) : bool :=
  forallb (fun p => in_universe (fst p) && in_universe (snd p)) l &&
  forallb (fun s => forallb (fun r => Bool.eqb (has_pair l s r) (expected s r)) all_xty) all_xty.
Definition types_exact (l : list xty) (expected : xty -> bool) : bool :=
  forallb in_universe l && forallb (fun t => Bool.eqb (existsb (xty_eqb t) l) (expected t)) all_xty.

(** conversions are value preserving: on the model they only move an operand between the classes U and I *)
Definition conv_sem (c : conv) (t : tagged) : tagged :=
  match c, t with
  | CToU, (TU z | TI z) => TU z
  | CToI, (TU z | TI z) => TI z
  | _, _ => t
  end.

Section Sem.
Variable E : Type.
Variable egt : E -> E -> bool.
Variable ib : Z -> E * E.
Variable fb : Z -> Z -> Z -> E * E.
Variable qb : Z -> Z -> E * E.
Variable dub : Z -> Z -> Z.

(** NumOrd: what the callee returns on two (converted) operands; None = the call would not type-check *)
Definition ord_callee_sem (k : callee) (abs : bool) (x y : tagged) : option (option comparison) :=
  match k, x, y with
  | KOrd, TU a, TU b => Some (Some (a ?= b))
  | KOrd, TI a, TI b => Some (Some (ibig_cmp a b))
  | KOrd, TQ n1 d1, TQ n2 d2 => Some (Some (qrepr_cmp abs n1 d1 n2 d2))
  | KNum, _, _ => if abs then None else ord_asis E egt ib fb qb x y
  | KFloatUbig, TF B s e, TU u => Some (Some (frepr_cmp_ubig E egt ib fb abs B s e u))
  | KFloatIbig, TF B s e, TI i => Some (Some (frepr_cmp_ibig E egt ib fb abs B s e i))
  | KRatUbig, TQ n d, TU u => Some (Some (qrepr_cmp_ubig E egt ib qb abs n d u))
  | KRatIbig, TQ n d, TI i => Some (Some (qrepr_cmp_ibig E egt ib qb abs n d i))
  | KRatFbig, TQ n d, TF B s e => Some (Some (qrepr_cmp_fbig E egt fb qb abs n d B s e))
  | KRatRat, TQ n1 d1, TQ n2 d2 => Some (Some (qrepr_cmp abs n1 d1 n2 d2))
  | _, _, _ => None
  end.
Definition ord_route_sem (r : route) (a b : tagged) : option (option comparison) :=
  match r with
  | RBody => ord_asis E egt ib fb qb a b
  | RCall k abs fs c1 c2 rev =>
      let x := conv_sem c1 (if fs then a else b) in
      let y := conv_sem c2 (if fs then b else a) in
      let res := ord_callee_sem k abs x y in
      if rev then option_map orev res else res
  end.

(** AbsOrd *)
Definition abs_callee_sem (k : callee) (abs : bool) (x y : tagged) : option comparison :=
  match k, x, y with
  | KAbs, _, _ => if abs then abs_asis E egt ib fb qb dub x y else None
  | KFloatUbig, TF B s e, TU u => Some (frepr_cmp_ubig E egt ib fb abs B s e u)
  | KFloatIbig, TF B s e, TI i => Some (frepr_cmp_ibig E egt ib fb abs B s e i)
  | KFloatSame, TF B1 s1 e1, TF B2 s2 e2 => if B1 =? B2 then Some (fsame_cmp dub abs B1 s1 e1 s2 e2) else None
  | KRatUbig, TQ n d, TU u => Some (qrepr_cmp_ubig E egt ib qb abs n d u)
  | KRatIbig, TQ n d, TI i => Some (qrepr_cmp_ibig E egt ib qb abs n d i)
  | KRatFbig, TQ n d, TF B s e => Some (qrepr_cmp_fbig E egt fb qb abs n d B s e)
  | KRatRat, TQ n1 d1, TQ n2 d2 => Some (qrepr_cmp abs n1 d1 n2 d2)
  | _, _, _ => None
  end.
Definition abs_route_sem (r : route) (a b : tagged) : option comparison :=
  match r with
  | RBody => abs_asis E egt ib fb qb dub a b
  | RCall k abs fs c1 c2 rev =>
      let x := conv_sem c1 (if fs then a else b) in
      let y := conv_sem c2 (if fs then b else a) in
      let res := abs_callee_sem k abs x y in
      if rev then option_map CompOpp res else res
  end.
End Sem.

(** the rows of a table at the level of operand classes, without repetitions *)
Definition crow := (cls * cls * route)%type.
Definition crow_dec : forall a b : crow, {a = b} + {a <> b}.
Proof. repeat decide equality. Defined.
Definition to_crow (r : crate * xty * xty * route) : crow := (cls_of (snd (fst (fst r))), cls_of (snd (fst r)), snd r).
Definition class_rows (l : list (crate * xty * xty * route)) : list crow := nodup crow_dec (map to_crow l).
