(** C14: the comparison bodies (XOrdModel / XDispatch) run with the transcribed f32 estimators of the library
    (XLog2Model).  Definitions only; [lg] is f32::log2, [w] the word size. *)
From Coq Require Import ZArith.
From Dashu Require Import Base.Prelude Cross.XVal Cross.XOrdModel Cross.XDispatch Cross.XLog2Model.
Open Scope Z_scope.

Definition ord_raw (lg : f32 -> f32) (w : Z) :=
  ord_asis f32 f_gt (ibig_log2_bounds lg w) (f_log2_bounds lg w) (q_log2_bounds lg w).
Definition abs_raw (lg : f32 -> f32) (w : Z) :=
  abs_asis f32 f_gt (ibig_log2_bounds lg w) (f_log2_bounds lg w) (q_log2_bounds lg w) (digits_ub32 lg 64 w).
Definition fsame_raw (lg : f32 -> f32) (w : Z) := fsame_ord (digits_ub32 lg 64 w).
