(** Common vocabulary of the dashu models: signs, panics, results. Definitions only. *)
From Coq Require Export ZArith List Bool Lia.
Export ListNotations.
Open Scope Z_scope.

Inductive sign := Positive | Negative.

Definition sgnz (s : sign) : Z := match s with Positive => 1 | Negative => -1 end.
Definition signed (s : sign) (m : Z) : Z := sgnz s * m.
Definition sign_of (x : Z) : sign := if x <? 0 then Negative else Positive.
Definition sign_mul (a b : sign) : sign :=
  match a, b with Positive, Positive | Negative, Negative => Positive | _, _ => Negative end.
Definition sign_neg (a : sign) : sign := match a with Positive => Negative | Negative => Positive end.

(** documented panic classes (integer/float/rational error.rs) *)
Inductive reason :=
| DivideBy0 | NegativeUBig | RootZeroth | RootNegative | LogOperand | DifferentRings
| NonInvertible | InvalidRadix | OperateWithInf | UnlimitedPrecision | PowerNegativeBase
| AllocateTooMuch | GcdZeroZero | Undocumented.

Inductive result (A : Type) :=
| Ok (a : A) | Panic (r : reason) | Err (e : Z) | OutOfFuel.
Arguments Ok {A} a.
Arguments Panic {A} r.
Arguments Err {A} e.
Arguments OutOfFuel {A}.

Definition rbind {A B} (x : result A) (f : A -> result B) : result B :=
  match x with Ok a => f a | Panic r => Panic r | Err e => Err e | OutOfFuel => OutOfFuel end.

Definition len {A} (l : list A) : Z := Z.of_nat (length l).
