(** Little-endian word lists over an arbitrary word size [w] (bits).  Every theorem that is stated
    over this section holds for 16-, 32- and 64-bit words alike (C19). *)
From Dashu Require Import Base.Prelude.
Open Scope Z_scope.

Section Words.
Variable w : Z.
Hypothesis w_pos : 0 < w.

Definition B : Z := 2 ^ w.

Lemma B_pos : 0 < B.
Proof. unfold B. apply Z.pow_pos_nonneg; lia. Qed.

Lemma B_ge_2 : 2 <= B.
Proof. unfold B. replace 2 with (2 ^ 1) at 1 by reflexivity. apply Z.pow_le_mono_r; lia. Qed.

Fixpoint value (ws : list Z) : Z :=
  match ws with [] => 0 | x :: r => x + B * value r end.

Definition wf (ws : list Z) : Prop := Forall (fun x => 0 <= x < B) ws.
Definition wfb (ws : list Z) : bool := forallb (fun x => (0 <=? x) && (x <? B)) ws.

(** no leading (most significant) zero word: the canonical form of a magnitude *)
Definition normalized (ws : list Z) : Prop := wf ws /\ (ws = [] \/ last ws 0 <> 0).

Lemma wf_nil : wf []. Proof. constructor. Qed.
Lemma wf_cons x r : wf (x :: r) <-> 0 <= x < B /\ wf r.
Proof. unfold wf. split; [intros H; inversion H; auto | intros [H1 H2]; constructor; auto]. Qed.

Lemma wf_app a b : wf (a ++ b) <-> wf a /\ wf b.
Proof. unfold wf. apply Forall_app. Qed.

Lemma wfb_wf ws : wfb ws = true <-> wf ws.
Proof.
  unfold wfb, wf. rewrite forallb_forall, Forall_forall. split; intros H x Hx; specialize (H x Hx).
  - apply andb_prop in H. destruct H as [H1 H2]. apply Z.leb_le in H1. apply Z.ltb_lt in H2. lia.
  - apply andb_true_intro. split; [apply Z.leb_le | apply Z.ltb_lt]; lia.
Qed.

Lemma value_bounds ws : wf ws -> 0 <= value ws < B ^ len ws.
Proof.
  pose proof B_pos as HB. induction ws as [|x r IH]; intros H.
  - cbn [value]. unfold len. cbn [length Z.of_nat]. rewrite Z.pow_0_r. lia.
  - apply wf_cons in H. destruct H as [Hx Hr]. specialize (IH Hr). cbn [value].
    unfold len in *. cbn [length]. rewrite Nat2Z.inj_succ, Z.pow_succ_r by lia. nia.
Qed.

Lemma value_nonneg ws : wf ws -> 0 <= value ws.
Proof. intros H. apply value_bounds in H. lia. Qed.

Lemma value_app a b : value (a ++ b) = value a + B ^ len a * value b.
Proof.
  induction a as [|x r IH]; cbn [app value].
  - unfold len. cbn [length Z.of_nat]. rewrite Z.pow_0_r. lia.
  - rewrite IH. unfold len. cbn [length]. rewrite Nat2Z.inj_succ, Z.pow_succ_r by lia. ring.
Qed.

Lemma value_repeat_zero n : value (repeat 0 n) = 0.
Proof. induction n as [|n IH]; cbn [repeat value]; [reflexivity | rewrite IH; lia]. Qed.

Lemma wf_repeat_zero n : wf (repeat 0 n).
Proof. pose proof B_pos. induction n; cbn [repeat]; [apply wf_nil | apply wf_cons; split; [lia | assumption]]. Qed.

Lemma value_zero_iff ws : wf ws -> (value ws = 0 <-> Forall (fun x => x = 0) ws).
Proof.
  pose proof B_pos as HB. induction ws as [|x r IH]; intros H; cbn [value].
  - split; [constructor | reflexivity].
  - apply wf_cons in H. destruct H as [Hx Hr]. pose proof (value_nonneg r Hr) as Hv. specialize (IH Hr). split.
    + intros E. assert (x = 0 /\ value r = 0) as [E1 E2] by nia. constructor; [exact E1 | apply IH; exact E2].
    + intros F. inversion F; subst. rewrite (proj2 IH) by assumption. lia.
Qed.

(** two well-formed lists of the same length with the same value are equal: the value function is
    injective on representations of a given length *)
Lemma value_inj a : forall b, wf a -> wf b -> length a = length b -> value a = value b -> a = b.
Proof.
  pose proof B_pos as HB. induction a as [|x r IH]; intros [|y s] Ha Hb Hl Hv; try discriminate; [reflexivity|].
  apply wf_cons in Ha. apply wf_cons in Hb. destruct Ha as [Hx Hr], Hb as [Hy Hs].
  cbn [value] in Hv. cbn [length] in Hl.
  assert (x = y /\ value r = value s) as [E1 E2].
  { assert (x mod B = y mod B) as Hm.
    { rewrite <- (Z.mod_add x (value r) B), <- (Z.mod_add y (value s) B) by lia.
      f_equal. lia. }
    rewrite !Z.mod_small in Hm by lia. split; [exact Hm | nia]. }
  subst y. f_equal. apply IH; auto.
Qed.

(** bit i of the number is bit (i mod w) of word (i / w) *)
Lemma value_testbit ws i : wf ws -> 0 <= i ->
  Z.testbit (value ws) i = Z.testbit (nth (Z.to_nat (i / w)) ws 0) (i mod w).
Proof.
  revert i. induction ws as [|x r IH]; intros i H Hi.
  - cbn [value]. destruct (Z.to_nat (i / w)); cbn [nth]; now rewrite !Z.bits_0.
  - apply wf_cons in H. destruct H as [Hx Hr]. cbn [value]. unfold B in *.
    destruct (Z.ltb_spec i w) as [Hlt|Hge].
    + rewrite Z.div_small, Z.mod_small by lia. cbn [Z.to_nat nth].
      rewrite Z.add_comm, Z.mul_comm. rewrite Z.add_nocarry_lxor.
      * rewrite Z.lxor_spec, Z.mul_pow2_bits_low by lia. now rewrite xorb_false_l.
      * apply Z.bits_inj'. intros j Hj. rewrite Z.land_spec, Z.bits_0.
        destruct (Z.ltb_spec j w); [rewrite Z.mul_pow2_bits_low by lia; reflexivity|].
        rewrite (Z.bits_above_log2 x j); [apply andb_false_r | lia |].
        destruct (Z.eq_dec x 0) as [->|Hne]; [cbn; lia|].
        apply Z.log2_lt_pow2; [lia|]. apply Z.lt_le_trans with (2 ^ w); [lia|]. apply Z.pow_le_mono_r; lia.
    + replace i with ((i - w) + 1 * w) at 2 3 by lia.
      rewrite Z.div_add, Z.mod_add by lia.
      replace (Z.to_nat ((i - w) / w + 1)) with (S (Z.to_nat ((i - w) / w))).
      2:{ rewrite Z2Nat.inj_add; [rewrite Nat.add_1_r; reflexivity | apply Z.div_pos; lia | lia]. }
      cbn [nth]. rewrite <- IH by (auto; lia).
      rewrite Z.add_comm, Z.mul_comm. rewrite Z.add_nocarry_lxor.
      * rewrite Z.lxor_spec, Z.mul_pow2_bits by lia.
        rewrite (Z.bits_above_log2 x i); [now rewrite xorb_false_r | lia |].
        destruct (Z.eq_dec x 0) as [->|Hne]; [cbn; lia|].
        apply Z.log2_lt_pow2; [lia|]. apply Z.lt_le_trans with (2 ^ w); [lia|]. apply Z.pow_le_mono_r; lia.
      * apply Z.bits_inj'. intros j Hj. rewrite Z.land_spec, Z.bits_0.
        destruct (Z.ltb_spec j w); [rewrite Z.mul_pow2_bits_low by lia; reflexivity|].
        rewrite (Z.bits_above_log2 x j); [apply andb_false_r | lia |].
        destruct (Z.eq_dec x 0) as [->|Hne]; [cbn; lia|].
        apply Z.log2_lt_pow2; [lia|]. apply Z.lt_le_trans with (2 ^ w); [lia|]. apply Z.pow_le_mono_r; lia.
Qed.

(** splitting a number into words: the inverse of [value] (used by oracles and specs) *)
Fixpoint to_words (n : nat) (v : Z) : list Z :=
  match n with O => [] | S k => v mod B :: to_words k (v / B) end.

Lemma to_words_length n v : length (to_words n v) = n.
Proof. revert v; induction n; intros v; cbn [to_words length]; [reflexivity | now rewrite IHn]. Qed.

Lemma to_words_wf n v : wf (to_words n v).
Proof.
  pose proof B_pos. revert v; induction n; intros v; cbn [to_words]; [apply wf_nil|].
  apply wf_cons. split; [apply Z.mod_pos_bound; lia | apply IHn].
Qed.

Lemma value_to_words n v : 0 <= v < B ^ Z.of_nat n -> value (to_words n v) = v.
Proof.
  pose proof B_pos as HB. revert v; induction n as [|n IH]; intros v Hv; cbn [to_words value].
  - cbn [Z.of_nat] in Hv. rewrite Z.pow_0_r in Hv. lia.
  - rewrite Nat2Z.inj_succ, Z.pow_succ_r in Hv by lia. rewrite IH.
    + pose proof (Z.div_mod v B ltac:(lia)). lia.
    + split; [apply Z.div_pos; lia | apply Z.div_lt_upper_bound; lia].
Qed.

End Words.
