(** C06: the fallible / lossless conversions between FBig / Repr (float crate), RBig (rational
    crate) and the integers: as-is models transcribed from float/src/convert.rs,
    float/src/utils.rs (shl_digits), rational/src/convert.rs, and their proofs. *)
From Dashu Require Import Base.Prelude Float.RoundSpec Float.Contract Float.Model Float.ModelProof
  Conv.ConvSpec Conv.ConvModel Conv.ConvPrimProofs.
Open Scope Z_scope.

(* ================================================================= as-is models *)

(** float/src/utils.rs shl_digits / shl_digits_in_place: value * B^exp, by cases on the base *)
Definition shl_digits_cases (B v e : Z) : Z :=
  if e =? 0 then v
  else if B =? 2 then v * 2 ^ e
  else if B =? 10 then v * 5 ^ e * 2 ^ e
  else if B =? 2 ^ Z.log2 B then v * 2 ^ (e * Z.log2 B)
  else v * B ^ e.

(** TryFrom<FBig<R,B>> for IBig; [inf] = the representation is an infinity *)
Definition fbig_try_to_ibig (B : Z) (inf : bool) (s e : Z) : conv Z :=
  if inf then COutOfBounds
  else if e <? 0 then CLossOfPrecision
  else COk (shl_digits_cases B s e).

(** TryFrom<IBig> for UBig (integer/src/convert.rs) *)
Definition ibig_try_to_ubig (v : Z) : conv Z := if v <? 0 then COutOfBounds else COk v.

(** TryFrom<FBig<R,B>> for UBig: [let int: IBig = value.try_into()?; int.try_into()] *)
Definition fbig_try_to_ubig (B : Z) (inf : bool) (s e : Z) : conv Z :=
  cbind (fbig_try_to_ibig B inf s e) ibig_try_to_ubig.

(** From<UBig> / From<IBig> for Repr<B> and FBig<R,B>: Repr::new(n, 0) *)
Definition int_to_repr (B v : Z) : Z * Z := normalize B v 0.

(** rational/src/convert.rs: TryFrom<Repr> for UBig / IBig (after repair 8076d3b), From<_> for Repr *)
Definition rat_try_to_ubig (N D : Z) : conv Z :=
  if N <? 0 then COutOfBounds else if D =? 1 then COk N else CLossOfPrecision.
Definition rat_try_to_ibig (N D : Z) : conv Z :=
  if D =? 1 then COk N else CLossOfPrecision.
Definition int_to_rat (v : Z) : Z * Z := (v, 1).

(** rational/src/repr.rs Repr::reduce, and rational/src/third_party/dashu_float.rs
    TryFrom<FBigRepr<B>> / TryFrom<FBig<R,B>> for RBig *)
Definition conv_rat_reduce (N D : Z) : Z * Z :=
  if N =? 0 then (0, 1) else let g := Z.gcd N D in (N / g, D / g).
Definition fbig_try_to_rbig (B : Z) (inf : bool) (s e : Z) : conv (Z * Z) :=
  if inf then COutOfBounds
  else
    let '(n, d) := if 0 <=? e then (s * B ^ e, 1) else (s, B ^ (- e)) in
    COk (conv_rat_reduce n d).

(** TryFrom<Repr<B>> / TryFrom<FBig<R,B>> for the primitive integers.  The f32 lower bound of
    log2|value| (EstimatedLog2::log2_bounds) enters only through the test [log2_lb >= BITS]; the
    model takes the integer part [lb] of that estimate as a parameter (zero has the estimate
    -infinity: the test is false). *)
Section PrimModels.
Variable lb : Z -> Z -> Z.

Definition est_ge (TW s e : Z) : bool := if s =? 0 then false else TW <=? lb s e.

(** fbig_unsigned_conversions: TryFrom<Repr<B>> for u8 .. u128, usize (w = word bits) *)
Definition repr_try_to_unsigned (w B TW : Z) (inf : bool) (s e : Z) : conv Z :=
  if (s <? 0) || inf then COutOfBounds
  else if est_ge TW s e then COutOfBounds
  else if e <? 0 then CLossOfPrecision
  else ibig_to_prim w false TW (shl_digits_cases B s e).

(** fbig_signed_conversions: TryFrom<FBig<R,B>> for i8 .. i128, isize *)
Definition fbig_try_to_signed (w B TW : Z) (inf : bool) (s e : Z) : conv Z :=
  if inf then COutOfBounds
  else if est_ge TW s e then COutOfBounds
  else if e <? 0 then CLossOfPrecision
  else ibig_to_prim w true TW (shl_digits_cases B s e).

Definition fbig_try_to_prim (w B : Z) (sg : bool) (TW : Z) (inf : bool) (s e : Z) : conv Z :=
  if sg then fbig_try_to_signed w B TW inf s e else repr_try_to_unsigned w B TW inf s e.
End PrimModels.

(* ================================================================= proofs *)

Lemma shl_digits_cases_value B v e : 0 < B -> 0 <= e -> shl_digits_cases B v e = v * B ^ e.
Proof.
  intros HB He. unfold shl_digits_cases.
  destruct (Z.eqb_spec e 0) as [->|Hne]; [rewrite Z.pow_0_r; lia|].
  destruct (Z.eqb_spec B 2) as [->|H2]; [reflexivity|].
  destruct (Z.eqb_spec B 10) as [->|H10].
  - change 10 with (5 * 2). rewrite Z.pow_mul_l. ring.
  - destruct (Z.eqb_spec B (2 ^ Z.log2 B)) as [E|E]; [|reflexivity].
    rewrite E at 2. rewrite <- Z.pow_mul_r by (try lia; apply Z.log2_nonneg).
    do 2 f_equal. lia.
Qed.

Example shl_digits_cases_examples :
  shl_digits_cases 2 (-3) 4 = -48 /\ shl_digits_cases 10 7 3 = 7000 /\ shl_digits_cases 16 5 2 = 1280 /\
  shl_digits_cases 7 (-2) 2 = -98 /\ shl_digits_cases 10 9 0 = 9.
Proof. repeat split. Qed.

(** ---- FBig -> IBig / UBig ---- *)

(** accepted values are exact *)
Theorem fbig_try_to_ibig_ok B inf s e v : 0 < B ->
  fbig_try_to_ibig B inf s e = COk v -> inf = false /\ 0 <= e /\ v = s * B ^ e.
Proof.
  intros HB. unfold fbig_try_to_ibig. destruct inf; [discriminate|].
  destruct (Z.ltb_spec e 0) as [He|He]; [discriminate|].
  intros H. inversion H. rewrite shl_digits_cases_value by lia. auto.
Qed.

(** refused exactly for infinities and negative exponents *)
Theorem fbig_try_to_ibig_refused B inf s e :
  (forall v, fbig_try_to_ibig B inf s e <> COk v) <-> (inf = true \/ e < 0).
Proof.
  unfold fbig_try_to_ibig. destruct inf.
  - split; [auto | intros _ v; discriminate].
  - destruct (Z.ltb_spec e 0) as [He|He].
    + split; [auto | intros _ v; discriminate].
    + split; [intros H; exfalso; apply (H (shl_digits_cases B s e)); reflexivity | intros [H|H]; [discriminate | lia]].
Qed.

(** a negative exponent of a normalised representation (last digit non-zero: the Repr invariant)
    means the value s / B^(-e) is not an integer: the refusal loses nothing *)
Theorem fbig_negative_exp_not_integer B s e : 2 <= B -> s mod B <> 0 -> e < 0 ->
  s mod B ^ (- e) <> 0 /\ forall v, v * B ^ (- e) <> s.
Proof.
  intros HB Hs He.
  assert (HP : B ^ (- e) = B * B ^ (- e - 1)).
  { replace (- e) with (Z.succ (- e - 1)) at 1 by lia. rewrite Z.pow_succ_r by lia. reflexivity. }
  assert (Hv : forall v, v * B ^ (- e) <> s).
  { intros v E. apply Hs. rewrite <- E, HP.
    replace (v * (B * B ^ (- e - 1))) with (v * B ^ (- e - 1) * B) by ring. apply Z.mod_mul. lia. }
  split; [|exact Hv].
  intros Hm. apply (Hv (s / B ^ (- e))).
  pose proof (Z.div_mod s (B ^ (- e)) ltac:(pose proof (Z.pow_pos_nonneg B (- e) ltac:(lia) ltac:(lia)); lia)) as E.
  rewrite Hm in E. lia.
Qed.

(** the whole conversion against the specification on the fraction s*B^e: for a normalised finite
    representation the answer is the integer test of rat_to_int_spec *)
Definition repr_frac (B s e : Z) : Z * Z := if 0 <=? e then (s * B ^ e, 1) else (s, B ^ (- e)).

Theorem fbig_try_to_ibig_correct B s e : 2 <= B -> (s mod B <> 0 \/ (s = 0 /\ e = 0)) ->
  fbig_try_to_ibig B false s e = rat_to_int_spec false (fst (repr_frac B s e)) (snd (repr_frac B s e)).
Proof.
  intros HB Hn. unfold fbig_try_to_ibig, repr_frac, rat_to_int_spec.
  destruct (Z.ltb_spec e 0) as [He|He].
  - destruct (Z.leb_spec 0 e); [lia|]. cbn [fst snd andb].
    destruct Hn as [Hn|[_ ->]]; [|lia].
    destruct (fbig_negative_exp_not_integer B s e HB Hn He) as [Hm _].
    destruct (Z.eqb_spec (s mod B ^ (- e)) 0); [contradiction | reflexivity].
  - destruct (Z.leb_spec 0 e); [|lia]. cbn [fst snd andb].
    rewrite Z.mod_1_r, Z.div_1_r. cbn. rewrite shl_digits_cases_value by lia. reflexivity.
Qed.

Theorem fbig_try_to_ubig_ok B inf s e v : 0 < B ->
  fbig_try_to_ubig B inf s e = COk v -> inf = false /\ 0 <= e /\ v = s * B ^ e /\ 0 <= v.
Proof.
  intros HB. unfold fbig_try_to_ubig.
  destruct (fbig_try_to_ibig B inf s e) as [a| |] eqn:E; cbn [cbind]; try discriminate.
  destruct (fbig_try_to_ibig_ok B inf s e a HB E) as (H1 & H2 & H3).
  unfold ibig_try_to_ubig. destruct (Z.ltb_spec a 0) as [Ha|Ha]; [discriminate|].
  intros Hq; inversion Hq; subst v. auto.
Qed.

Theorem fbig_try_to_ubig_refused B inf s e : 0 < B ->
  (forall v, fbig_try_to_ubig B inf s e <> COk v) <-> (inf = true \/ e < 0 \/ s < 0).
Proof.
  intros HB. unfold fbig_try_to_ubig, fbig_try_to_ibig. destruct inf.
  - split; [auto | intros _ v; discriminate].
  - destruct (Z.ltb_spec e 0) as [He|He]; cbn [cbind].
    + split; [auto | intros _ v; discriminate].
    + rewrite shl_digits_cases_value by lia. unfold ibig_try_to_ubig.
      pose proof (Z.pow_pos_nonneg B e HB He) as Hp.
      destruct (Z.ltb_spec (s * B ^ e) 0) as [Hv|Hv].
      * split; [intros _; right; right; nia | intros _ v; discriminate].
      * split; [intros H; exfalso; apply (H (s * B ^ e)); reflexivity|].
        intros [H|[H|H]]; [discriminate | lia | nia].
Qed.

(** against the specification: same verdict (accept / refuse) as rat_to_int_spec for an unsigned
    target, and the same value; only the *kind* of refusal differs for negative non-integers
    (the float crate tests the exponent first and answers LossOfPrecision where the rational
    crate answers OutOfBounds) *)
Theorem fbig_try_to_ubig_correct B s e : 2 <= B -> (s mod B <> 0 \/ (s = 0 /\ e = 0)) ->
  let spec := rat_to_int_spec true (fst (repr_frac B s e)) (snd (repr_frac B s e)) in
  match fbig_try_to_ubig B false s e, spec with
  | COk a, COk b => a = b
  | COk _, _ | _, COk _ => False
  | CLossOfPrecision, COutOfBounds => e < 0 /\ s < 0
  | a, b => a = b
  end.
Proof.
  intros HB Hn. cbv zeta. unfold fbig_try_to_ubig.
  pose proof (fbig_try_to_ibig_correct B s e HB Hn) as E. rewrite E. clear E.
  unfold rat_to_int_spec, repr_frac.
  destruct (Z.leb_spec 0 e) as [He|He]; cbn [fst snd andb cbind].
  - rewrite Z.mod_1_r, Z.div_1_r. cbn [Z.eqb cbind]. unfold ibig_try_to_ubig.
    destruct (s * B ^ e <? 0); reflexivity.
  - destruct Hn as [Hn|[_ ->]]; [|lia].
    destruct (fbig_negative_exp_not_integer B s e HB Hn He) as [Hm _].
    destruct (Z.eqb_spec (s mod B ^ (- e)) 0); [contradiction|]. cbn [cbind].
    destruct (Z.ltb_spec s 0); [split; lia | reflexivity].
Qed.

Example fbig_try_examples :
  fbig_try_to_ibig 10 false (-12) 2 = COk (-1200) /\
  fbig_try_to_ibig 10 false 125 (-2) = CLossOfPrecision /\
  fbig_try_to_ibig 2 true 1 0 = COutOfBounds /\
  fbig_try_to_ubig 10 false (-12) 2 = COutOfBounds /\
  fbig_try_to_ubig 16 false 3 1 = COk 48 /\
  fbig_try_to_ubig 10 false (-125) (-2) = CLossOfPrecision /\
  rat_to_int_spec true (fst (repr_frac 10 (-125) (-2))) (snd (repr_frac 10 (-125) (-2))) = COutOfBounds.
Proof. repeat split. Qed.

Example fbig_try_to_ibig_ok_nonvacuous :
  fbig_try_to_ibig 10 false 7 3 = COk 7000 /\ 7000 = 7 * 10 ^ 3.
Proof. split; reflexivity. Qed.
Example fbig_negative_exp_nonvacuous : 125 mod 10 <> 0 /\ -2 < 0 /\ 125 mod 10 ^ (- -2) <> 0.
Proof. cbn. repeat split; discriminate. Qed.

(** ---- UBig / IBig -> Repr<B> / FBig<R,B> ---- *)

Theorem int_to_repr_value B v : 2 <= B ->
  let '(s, e) := int_to_repr B v in 0 <= e /\ s * B ^ e = v /\ (v <> 0 -> s mod B <> 0) /\ (v = 0 -> s = 0 /\ e = 0).
Proof.
  intros HB. unfold int_to_repr. pose proof (normalize_spec B HB v 0) as H.
  destruct (normalize B v 0) as [s e]. destruct H as [H0 H1].
  destruct (Z.eq_dec v 0) as [->|Hv].
  - destruct (H0 eq_refl) as [-> ->]. repeat split; intros; lia.
  - destruct (H1 Hv) as (Hs & Hm & k & Hk & He & Hval). subst e.
    repeat split; try lia. rewrite Z.add_0_l. lia.
Qed.

(** the round trip integer -> float -> integer is the identity *)
Theorem int_repr_roundtrip B v : 2 <= B ->
  fbig_try_to_ibig B false (fst (int_to_repr B v)) (snd (int_to_repr B v)) = COk v.
Proof.
  intros HB. pose proof (int_to_repr_value B v HB) as H.
  destruct (int_to_repr B v) as [s e]. cbn [fst snd]. destruct H as (He & Hv & _).
  unfold fbig_try_to_ibig. destruct (Z.ltb_spec e 0); [lia|].
  rewrite shl_digits_cases_value by lia. rewrite Hv. reflexivity.
Qed.

Theorem uint_repr_roundtrip B v : 2 <= B -> 0 <= v ->
  fbig_try_to_ubig B false (fst (int_to_repr B v)) (snd (int_to_repr B v)) = COk v.
Proof.
  intros HB Hv. unfold fbig_try_to_ubig. rewrite int_repr_roundtrip by assumption.
  cbn [cbind]. unfold ibig_try_to_ubig. destruct (Z.ltb_spec v 0); [lia | reflexivity].
Qed.

Example int_to_repr_examples :
  int_to_repr 10 (-1200) = (-12, 2) /\ int_to_repr 2 96 = (3, 5) /\ int_to_repr 10 0 = (0, 0) /\
  fbig_try_to_ibig 10 false (fst (int_to_repr 10 (-1200))) (snd (int_to_repr 10 (-1200))) = COk (-1200).
Proof. repeat split. Qed.

(** ---- rational -> UBig / IBig, and back ---- *)

Lemma reduced_den_divides N D : 0 < D -> Z.gcd N D = 1 -> N mod D = 0 -> D = 1.
Proof.
  intros HD Hg Hm.
  assert (Hdiv : (D | Z.gcd N D)).
  { apply Z.gcd_greatest; [apply Z.mod_divide; [lia | exact Hm] | apply Z.divide_refl]. }
  rewrite Hg in Hdiv. apply Z.divide_1_r in Hdiv. lia.
Qed.

Theorem rat_try_to_ubig_correct N D : 0 < D -> Z.gcd N D = 1 ->
  rat_try_to_ubig N D = rat_to_int_spec true N D.
Proof.
  intros HD Hg. unfold rat_try_to_ubig, rat_to_int_spec. cbn [andb].
  destruct (Z.eqb_spec D 1) as [->|H1].
  - rewrite Z.mod_1_r, Z.div_1_r. cbn [Z.eqb]. destruct (N <? 0); reflexivity.
  - destruct (Z.eqb_spec (N mod D) 0) as [Hm|Hm].
    + exfalso. apply H1. apply (reduced_den_divides N D); assumption.
    + destruct (N <? 0); reflexivity.
Qed.

Theorem rat_try_to_ibig_correct N D : 0 < D -> Z.gcd N D = 1 ->
  rat_try_to_ibig N D = rat_to_int_spec false N D.
Proof.
  intros HD Hg. unfold rat_try_to_ibig, rat_to_int_spec. cbn [andb].
  destruct (Z.eqb_spec D 1) as [->|H1].
  - rewrite Z.mod_1_r, Z.div_1_r. reflexivity.
  - destruct (Z.eqb_spec (N mod D) 0) as [Hm|Hm]; [|reflexivity].
    exfalso. apply H1. apply (reduced_den_divides N D); assumption.
Qed.

(** the specification itself: an accepted value is the exact quotient *)
Theorem rat_to_int_spec_ok uns N D v : 0 < D ->
  rat_to_int_spec uns N D = COk v -> v * D = N /\ (uns = true -> 0 <= v).
Proof.
  intros HD. unfold rat_to_int_spec.
  destruct (Z.eqb_spec (N mod D) 0) as [Hm|Hm].
  - destruct uns; cbn [andb].
    + destruct (Z.ltb_spec (N / D) 0) as [Hq|Hq]; [discriminate|]. intros Hr; inversion Hr; subst v.
      pose proof (Z.div_mod N D ltac:(lia)) as Hdm. split; [lia | auto].
    + intros Hr; inversion Hr; subst v. pose proof (Z.div_mod N D ltac:(lia)) as Hdm. split; [lia | discriminate].
  - destruct (uns && (N <? 0)); discriminate.
Qed.

Theorem int_rat_roundtrip v :
  rat_try_to_ibig (fst (int_to_rat v)) (snd (int_to_rat v)) = COk v /\
  (0 <= v -> rat_try_to_ubig (fst (int_to_rat v)) (snd (int_to_rat v)) = COk v) /\
  Z.gcd (fst (int_to_rat v)) (snd (int_to_rat v)) = 1.
Proof.
  unfold int_to_rat, rat_try_to_ibig, rat_try_to_ubig. cbn [fst snd Z.eqb].
  split; [reflexivity|]. split; [|apply Z.gcd_1_r].
  intros Hv. destruct (Z.ltb_spec v 0); [lia | reflexivity].
Qed.

Example rat_try_examples :
  rat_try_to_ubig 7 1 = COk 7 /\ rat_try_to_ubig (-7) 1 = COutOfBounds /\ rat_try_to_ubig (-7) 2 = COutOfBounds /\
  rat_try_to_ubig 7 2 = CLossOfPrecision /\ rat_try_to_ibig (-7) 1 = COk (-7) /\ rat_try_to_ibig (-7) 2 = CLossOfPrecision /\
  rat_to_int_spec true 7 2 = CLossOfPrecision /\ Z.gcd 7 2 = 1.
Proof. repeat split. Qed.

(** ---- Repr<B> / FBig<R,B> -> primitive integers ---- *)
Section PrimProofs.
Variable B : Z.
Hypothesis B_ge_2 : 2 <= B.
Variable lb : Z -> Z -> Z.
(** the estimate is a lower bound of log2 |s * B^e| (needed for integers only: e >= 0) *)
Hypothesis lb_sound : forall s e, s <> 0 -> 0 <= e -> 0 <= lb s e -> 2 ^ lb s e <= Z.abs s * B ^ e.

Lemma est_ge_large TW s e : 0 <= TW -> 0 <= e -> est_ge lb TW s e = true -> 2 ^ TW <= Z.abs (s * B ^ e).
Proof.
  intros HT He. unfold est_ge. destruct (Z.eqb_spec s 0) as [|Hs]; [discriminate|].
  destruct (Z.leb_spec TW (lb s e)) as [Hl|Hl]; [|discriminate]. intros _.
  pose proof (lb_sound s e Hs He ltac:(lia)) as Hb.
  pose proof (Z.pow_pos_nonneg B e ltac:(lia) He) as Hp.
  rewrite Z.abs_mul, (Z.abs_eq (B ^ e)) by lia.
  assert (2 ^ TW <= 2 ^ lb s e) by (apply Z.pow_le_mono_r; lia). lia.
Qed.

Lemma pow2_half_pos TW : 0 < TW -> 2 ^ TW = 2 * 2 ^ (TW - 1) /\ 0 < 2 ^ (TW - 1).
Proof.
  intros HT. split; [|apply Z.pow_pos_nonneg; lia].
  replace TW with (Z.succ (TW - 1)) at 1 by lia. rewrite Z.pow_succ_r by lia. reflexivity.
Qed.

(** integers (e >= 0): the conversion is the range test of the target type, whatever the estimate *)
Theorem fbig_try_to_prim_correct w sg TW s e : widths_ok w TW -> 0 <= e ->
  fbig_try_to_prim lb w B sg TW false s e = to_prim_spec sg TW (s * B ^ e).
Proof.
  intros Hw He. pose proof Hw as (_ & _ & HT & _ & _).
  destruct (pow2_half_pos TW HT) as [H2 Hh].
  pose proof (Z.pow_pos_nonneg B e ltac:(clear - B_ge_2; lia) He) as Hp.
  unfold fbig_try_to_prim, fbig_try_to_signed, repr_try_to_unsigned. rewrite orb_false_r.
  destruct sg.
  - destruct (est_ge lb TW s e) eqn:Eg.
    + pose proof (est_ge_large TW s e ltac:(lia) He Eg) as Hbig.
      unfold to_prim_spec, prim_fits.
      destruct (Z.leb_spec (- 2 ^ (TW - 1)) (s * B ^ e)); destruct (Z.ltb_spec (s * B ^ e) (2 ^ (TW - 1)));
        cbn [andb]; try reflexivity. exfalso. clear - H2 Hh Hbig H H0. lia.
    + destruct (Z.ltb_spec e 0); [lia|]. rewrite shl_digits_cases_value by lia.
      apply ibig_to_prim_correct; assumption.
  - destruct (Z.ltb_spec s 0) as [Hs|Hs].
    + unfold to_prim_spec, prim_fits. destruct (Z.leb_spec 0 (s * B ^ e)); [exfalso; clear - Hs Hp H; nia | reflexivity].
    + destruct (est_ge lb TW s e) eqn:Eg.
      * pose proof (est_ge_large TW s e ltac:(lia) He Eg) as Hbig.
        unfold to_prim_spec, prim_fits. destruct (Z.ltb_spec (s * B ^ e) (2 ^ TW)); [exfalso; clear - Hbig Hs Hp H; nia|].
        rewrite andb_false_r. reflexivity.
      * destruct (Z.ltb_spec e 0); [lia|]. rewrite shl_digits_cases_value by lia.
        apply ibig_to_prim_correct; assumption.
Qed.

(** non-integers and infinities are refused *)
Theorem fbig_try_to_prim_refused w sg TW inf s e : inf = true \/ e < 0 ->
  fbig_try_to_prim lb w B sg TW inf s e = COutOfBounds \/ fbig_try_to_prim lb w B sg TW inf s e = CLossOfPrecision.
Proof.
  intros H. unfold fbig_try_to_prim, fbig_try_to_signed, repr_try_to_unsigned.
  destruct sg.
  - destruct inf; [auto|]. destruct (est_ge lb TW s e); [auto|].
    destruct (Z.ltb_spec e 0); [auto|]. destruct H; [discriminate | lia].
  - destruct ((s <? 0) || inf) eqn:E; [auto|]. destruct (est_ge lb TW s e); [auto|].
    destruct (Z.ltb_spec e 0); [auto|]. destruct H as [->|H]; [rewrite orb_true_r in E; discriminate | lia].
Qed.

(** accepted values are exact and fit the type *)
Corollary fbig_try_to_prim_ok w sg TW inf s e v : widths_ok w TW ->
  fbig_try_to_prim lb w B sg TW inf s e = COk v ->
  inf = false /\ 0 <= e /\ v = s * B ^ e /\ prim_fits sg TW v = true.
Proof.
  intros Hw H.
  assert (Hi : inf = false).
  { destruct inf; [|reflexivity]. destruct (fbig_try_to_prim_refused w sg TW true s e (or_introl eq_refl)) as [E|E];
      rewrite E in H; discriminate. }
  subst inf.
  assert (He : 0 <= e).
  { destruct (Z.le_gt_cases 0 e) as [Hge|Hlt]; [assumption|].
    destruct (fbig_try_to_prim_refused w sg TW false s e (or_intror Hlt)) as [E|E]; rewrite E in H; discriminate. }
  rewrite fbig_try_to_prim_correct in H by assumption.
  destruct (to_prim_spec_sound _ _ _ _ H) as [-> Hf]. auto.
Qed.

End PrimProofs.

(** non-vacuity: the exact floor of log2 is an admissible estimate, and so is "no information" *)
Definition lb_exact (B s e : Z) : Z := Z.log2 (Z.abs s * B ^ e).
Lemma lb_exact_sound B : 2 <= B ->
  forall s e, s <> 0 -> 0 <= e -> 0 <= lb_exact B s e -> 2 ^ lb_exact B s e <= Z.abs s * B ^ e.
Proof.
  intros HB s e Hs He _. unfold lb_exact.
  pose proof (Z.pow_pos_nonneg B e ltac:(lia) He) as Hp.
  assert (Ha : 0 < Z.abs s) by lia.
  apply Z.log2_spec. apply Z.mul_pos_pos; assumption.
Qed.

Example fbig_try_to_prim_examples :
  fbig_try_to_prim (lb_exact 10) 64 10 false 8 false 25 1 = COk 250 /\
  fbig_try_to_prim (lb_exact 10) 64 10 false 8 false 26 1 = COutOfBounds /\
  fbig_try_to_prim (lb_exact 10) 64 10 true 8 false (-128) 0 = COk (-128) /\
  fbig_try_to_prim (lb_exact 10) 64 10 true 8 false (-129) 0 = COutOfBounds /\
  fbig_try_to_prim (lb_exact 10) 64 10 true 8 false 25 (-1) = CLossOfPrecision /\
  fbig_try_to_prim (lb_exact 10) 64 10 false 8 false (-25) (-1) = COutOfBounds /\
  fbig_try_to_prim (fun _ _ => -1) 64 10 false 8 false 26 1 = COutOfBounds /\
  fbig_try_to_prim (lb_exact 10) 64 10 true 16 true 1 0 = COutOfBounds /\
  to_prim_spec false 8 (25 * 10 ^ 1) = COk 250.
Proof. repeat split. Qed.

Example fbig_try_to_prim_u8_instance s e : 0 <= e ->
  fbig_try_to_prim (lb_exact 10) 64 10 false 8 false s e = to_prim_spec false 8 (s * 10 ^ e).
Proof.
  intros He. apply fbig_try_to_prim_correct; [lia | apply lb_exact_sound; lia | | exact He].
  unfold widths_ok. cbn. lia.
Qed.

(** ---- FBig<R,B> / Repr<B> -> RBig (rational/src/third_party/dashu_float.rs) ---- *)

Lemma conv_rat_reduce_spec N D : 0 < D ->
  let '(n, d) := conv_rat_reduce N D in 0 < d /\ Z.gcd n d = 1 /\ n * D = N * d.
Proof.
  intros HD. unfold conv_rat_reduce. destruct (Z.eqb_spec N 0) as [->|HN].
  - repeat split; lia.
  - cbv zeta. set (g := Z.gcd N D).
    assert (Hg : 0 < g).
    { pose proof (Z.gcd_nonneg N D) as Hnn. fold g in Hnn.
      destruct (Z.eq_dec g 0) as [E|E]; [|lia]. apply Z.gcd_eq_0_r in E. lia. }
    assert (EN : N = g * (N / g)).
    { apply Z_div_exact_full_2; [lia|]. apply Z.mod_divide; [lia | apply Z.gcd_divide_l]. }
    assert (ED : D = g * (D / g)).
    { apply Z_div_exact_full_2; [lia|]. apply Z.mod_divide; [lia | apply Z.gcd_divide_r]. }
    split; [|split].
    + clear - Hg HD ED. nia.
    + apply Z.gcd_div_gcd; [lia | reflexivity].
    + rewrite ED at 1. rewrite EN at 2. ring.
Qed.

(** every finite float converts, to the reduced fraction of the same value *)
Theorem fbig_try_to_rbig_correct B s e : 2 <= B ->
  exists n d, fbig_try_to_rbig B false s e = COk (n, d) /\ 0 < d /\ Z.gcd n d = 1 /\
              n * snd (repr_frac B s e) = fst (repr_frac B s e) * d.
Proof.
  intros HB. unfold fbig_try_to_rbig, repr_frac.
  destruct (Z.leb_spec 0 e) as [He|He]; cbn [fst snd].
  - pose proof (conv_rat_reduce_spec (s * B ^ e) 1 ltac:(lia)) as H.
    destruct (conv_rat_reduce (s * B ^ e) 1) as [n d]. exists n, d. split; [reflexivity | exact H].
  - pose proof (Z.pow_pos_nonneg B (- e) ltac:(lia) ltac:(lia)) as Hp.
    pose proof (conv_rat_reduce_spec s (B ^ (- e)) Hp) as H.
    destruct (conv_rat_reduce s (B ^ (- e))) as [n d]. exists n, d. split; [reflexivity | exact H].
Qed.

Theorem fbig_try_to_rbig_infinite B s e : fbig_try_to_rbig B true s e = COutOfBounds.
Proof. reflexivity. Qed.

Example fbig_try_to_rbig_examples :
  fbig_try_to_rbig 10 false 125 (-2) = COk (5, 4) /\ fbig_try_to_rbig 10 false (-12) 2 = COk (-1200, 1) /\
  fbig_try_to_rbig 2 false 0 0 = COk (0, 1) /\ fbig_try_to_rbig 10 false (-15) (-1) = COk (-3, 2).
Proof. repeat split. Qed.
