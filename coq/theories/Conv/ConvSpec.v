(** C06: what the property demands of conversions, as Z / rational mathematics.  Definitions only.

    IEEE targets: a binary format is (prec, emin, ebits): prec significant bits, 2^emin the smallest
    subnormal, ebits exponent bits.  The finite non-negative values are m * 2^u with 0 <= m < 2^prec,
    u >= emin, and their bit patterns (without the sign bit) are monotone in the value:
        pattern (m, u) = (u - emin) * 2^(prec-1) + m       (m >= 2^(prec-1) unless u = emin).
    The exact source value is a rational N / D (D > 0). *)
From Dashu Require Import Base.Prelude Float.RoundSpec Float.Contract.
From DashuGen Require Import RoundTables.
Open Scope Z_scope.

Record fmt := { prec : Z; emin : Z; ebits : Z }.
Definition F32 := {| prec := 24; emin := -149; ebits := 8 |}.
Definition F64 := {| prec := 53; emin := -1074; ebits := 11 |}.

(** bit length of a non-negative integer *)
Definition blen (a : Z) : Z := if a <=? 0 then 0 else Z.log2 a + 1.

(** for a, D > 0: the e with 2^(e-1) <= a/D < 2^e *)
Definition mag2 (a D : Z) : Z :=
  let e0 := blen a - blen D in
  let ge := if 0 <=? e0 then D * 2 ^ e0 <=? a else D <=? a * 2 ^ (- e0) in
  if ge then e0 + 1 else e0.

(** exponent of the unit in the last place the format offers at the magnitude of a/D *)
Definition ulp_exp (f : fmt) (a D : Z) : Z := Z.max (mag2 a D - prec f) (emin f).

Definition sign_bit (f : fmt) : Z := 2 ^ (ebits f + prec f - 1).
Definition inf_mag (f : fmt) : Z := (2 ^ ebits f - 1) * 2 ^ (prec f - 1).

(** N/D rounded into the format under a dashu rounding mode: (bit pattern, result ?= exact).
    A rounded magnitude of 2^emax or more is infinity. *)
Definition ieee_round (f : fmt) (m : mode) (N D : Z) : Z * comparison :=
  if N =? 0 then (0, Eq) else
  let u := ulp_exp f (Z.abs N) D in
  let M := round_rat_at 2 m N D u in
  let mg := (u - emin f) * 2 ^ (prec f - 1) + Z.abs M in
  let sb := if N <? 0 then sign_bit f else 0 in
  if inf_mag f <=? mg then (sb + inf_mag f, if N <? 0 then Lt else Gt)
  else (sb + mg, cmp_kx 2 1 (XRat N D) M u).

Definition ieee_rne (f : fmt) (N D : Z) := ieee_round f MHalfEven N D.

(** decoding a bit pattern: the value is man * 2^exp *)
Inductive decoded := DFin (man exp : Z) | DInf (neg : bool) | DNan.

Definition decode_spec (f : fmt) (bits : Z) : decoded :=
  let p1 := prec f - 1 in
  let neg := 2 ^ (ebits f + p1) <=? bits in
  let E := (bits / 2 ^ p1) mod 2 ^ ebits f in
  let F := bits mod 2 ^ p1 in
  if E =? 2 ^ ebits f - 1 then (if F =? 0 then DInf neg else DNan)
  else
    let m := if E =? 0 then F else F + 2 ^ p1 in
    let e := if E =? 0 then emin f else E - 1 + emin f in
    DFin (if neg then - m else m) e.

(** the value of a finite pattern as a fraction (num, den) *)
Definition frac_of (man exp : Z) : Z * Z :=
  if 0 <=? exp then (man * 2 ^ exp, 1) else (man, 2 ^ (- exp)).

(** primitive integer types: signedness and width *)
Definition prim_fits (sg : bool) (w v : Z) : bool :=
  if sg then (- 2 ^ (w - 1) <=? v) && (v <? 2 ^ (w - 1)) else (0 <=? v) && (v <? 2 ^ w).

(** outcome of a fallible conversion: the target value, or a refusal *)
Inductive conv (A : Type) := COk (a : A) | COutOfBounds | CLossOfPrecision.
Arguments COk {A} a.
Arguments COutOfBounds {A}.
Arguments CLossOfPrecision {A}.

(** integer -> primitive *)
Definition to_prim_spec (sg : bool) (w v : Z) : conv Z :=
  if prim_fits sg w v then COk v else COutOfBounds.

(** float pattern -> integer (unsigned target when [uns]) : only integers convert *)
Definition float_to_int_spec (f : fmt) (uns : bool) (bits : Z) : conv Z :=
  match decode_spec f bits with
  | DFin man exp =>
      let '(n, d) := frac_of man exp in
      if n mod d =? 0 then
        let v := n / d in
        if uns && (v <? 0) then COutOfBounds else COk v
      else if uns && (n <? 0) then COutOfBounds else CLossOfPrecision
  | _ => COutOfBounds
  end.

(** a lossless conversion to a float pattern exists iff rounding is exact *)
Definition exact_to_float (f : fmt) (N D : Z) : option Z :=
  match ieee_rne f N D with (b, Eq) => Some b | _ => None end.

(** rational -> integer: only if the (reduced or not) fraction is an integer *)
Definition rat_to_int_spec (uns : bool) (N D : Z) : conv Z :=
  if N mod D =? 0 then
    let v := N / D in if uns && (v <? 0) then COutOfBounds else COk v
  else if uns && (N <? 0) then COutOfBounds else CLossOfPrecision.

(** to_int of a rational: truncation and the fractional part that was dropped *)
Definition rat_trunc_spec (N D : Z) : Z * (Z * Z) :=
  let t := Z.quot N D in (t, (N - t * D, D)).

(** Rounding flags of the float crate (NoOp / AddOne / SubOne) as a statement about the error:
    NoOp = the result lies between zero and the exact value, AddOne = above it, SubOne = below. *)
Definition flag_of_error (xsign : Z) (c : comparison) : option rounding :=
  match c with
  | Eq => None
  | Gt => Some (if 0 <? xsign then AddOne else NoOp)
  | Lt => Some (if xsign <? 0 then SubOne else NoOp)
  end.

(** N/D rounded to an integer under a mode, with its flag (to_int family) *)
Definition int_round_spec (m : mode) (N D : Z) : Z * option rounding :=
  let r := spec_round m N D in
  (r, flag_of_error (Z.sgn N) (r * D ?= N)).
