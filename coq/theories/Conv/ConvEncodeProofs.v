(** C06: the as-is model of FloatEncoding::encode (base/src/bit.rs, one text for f32 and f64)
    returns the round-to-nearest-even pattern of mantissa * 2^exponent and the true error sign,
    for every mantissa of the signed W-bit type and every exponent. *)
From Dashu Require Import Base.Prelude Float.RoundSpec Float.Contract Float.Model
  Conv.ConvSpec Conv.ConvModel Conv.ConvArith Conv.ConvIeee.
Open Scope Z_scope.

Lemma round_bits_of_eq x j : 0 <= x -> 1 <= j ->
  round_bits_of x j =
    ((x / 2 ^ (j + 1)) mod 2) * 4 + ((x / 2 ^ j) mod 2) * 2 + (if x mod 2 ^ j =? 0 then 0 else 1).
Proof.
  intros Hx Hj. unfold round_bits_of. f_equal.
  assert (E1 : x / 2 ^ j = x / 2 ^ (j - 1) / 2).
  { rewrite Z.div_div by (try apply pow2_pos; lia). f_equal.
    replace j with (Z.succ (j - 1)) at 1 by lia. rewrite Z.pow_succ_r by lia. ring. }
  assert (E2 : x / 2 ^ (j + 1) = x / 2 ^ (j - 1) / 4).
  { rewrite Z.div_div by (try apply pow2_pos; lia). f_equal.
    replace (j + 1) with (2 + (j - 1)) by lia. rewrite pow2_split by lia. change (2 ^ 2) with 4. ring. }
  rewrite E1, E2. set (y := x / 2 ^ (j - 1)).
  pose proof (Z.div_mod y 8 ltac:(lia)). pose proof (Z.mod_pos_bound y 8 ltac:(lia)).
  pose proof (Z.div_mod (y mod 8) 2 ltac:(lia)). pose proof (Z.mod_pos_bound (y mod 8) 2 ltac:(lia)).
  pose proof (Z.div_mod (y / 4) 2 ltac:(lia)). pose proof (Z.mod_pos_bound (y / 4) 2 ltac:(lia)).
  pose proof (Z.div_mod (y / 2) 2 ltac:(lia)). pose proof (Z.mod_pos_bound (y / 2) 2 ltac:(lia)).
  pose proof (Z.div_mod y 4 ltac:(lia)). pose proof (Z.mod_pos_bound y 4 ltac:(lia)).
  pose proof (Z.div_mod y 2 ltac:(lia)). pose proof (Z.mod_pos_bound y 2 ltac:(lia)).
  lia.
Qed.

(** x = t * 2^c: the bits of x at and above c are the bits of t *)
Lemma div_scaled t c j : 0 <= c <= j -> (t * 2 ^ c) / 2 ^ j = t / 2 ^ (j - c).
Proof.
  intros H. replace (2 ^ j) with (2 ^ (j - c) * 2 ^ c).
  - apply Z.div_mul_cancel_r; apply Z.neq_sym, Z.lt_neq, pow2_pos; lia.
  - rewrite <- pow2_split by lia. f_equal. lia.
Qed.

Lemma mod_scaled t c j : 0 <= c <= j -> (t * 2 ^ c) mod 2 ^ j = (t mod 2 ^ (j - c)) * 2 ^ c.
Proof.
  intros H. replace (2 ^ j) with (2 ^ (j - c) * 2 ^ c).
  - apply Z.mul_mod_distr_r; apply Z.neq_sym, Z.lt_neq, pow2_pos; lia.
  - rewrite <- pow2_split by lia. f_equal. lia.
Qed.

(** a = 2^(L-1) + t: below the top bit, the round bits of a are those of t *)
Lemma round_bits_top a k : 0 < a -> 1 <= k -> k + 2 <= blen a ->
  round_bits (a - 2 ^ (blen a - 1)) k = round_bits a k /\
  a / 2 ^ k = 2 ^ (blen a - 1 - k) + (a - 2 ^ (blen a - 1)) / 2 ^ k.
Proof.
  intros Ha Hk HL. set (L := blen a) in *. set (t := a - 2 ^ (L - 1)).
  assert (Ea : a = t + 2 ^ (L - 1)) by (unfold t; lia).
  assert (P1 : 2 ^ (L - 1) = 2 ^ (L - 1 - k) * 2 ^ k) by (rewrite <- pow2_split by lia; f_equal; lia).
  assert (P2 : 2 ^ (L - 1) = 2 ^ (L - k) * 2 ^ (k - 1)) by (rewrite <- pow2_split by lia; f_equal; lia).
  assert (P3 : 2 ^ (L - 1 - k) = 2 * 2 ^ (L - 2 - k)).
  { replace (L - 1 - k) with (Z.succ (L - 2 - k)) by lia. rewrite Z.pow_succ_r by lia. reflexivity. }
  assert (P4 : 2 ^ (L - k) = 2 * 2 ^ (L - 1 - k)).
  { replace (L - k) with (Z.succ (L - 1 - k)) by lia. rewrite Z.pow_succ_r by lia. reflexivity. }
  pose proof (pow2_pos k ltac:(lia)). pose proof (pow2_pos (k - 1) ltac:(lia)).
  assert (D1 : a / 2 ^ k = 2 ^ (L - 1 - k) + t / 2 ^ k).
  { rewrite Ea at 1. rewrite P1 at 1. rewrite Z.div_add by lia. lia. }
  assert (D2 : a / 2 ^ (k - 1) = 2 ^ (L - k) + t / 2 ^ (k - 1)).
  { rewrite Ea at 1. rewrite P2 at 1. rewrite Z.div_add by lia. lia. }
  assert (D3 : a mod 2 ^ (k - 1) = t mod 2 ^ (k - 1)).
  { rewrite Ea at 1. rewrite P2 at 1. rewrite Z.mod_add by lia. reflexivity. }
  split; [|exact D1].
  unfold round_bits. rewrite D1, D2, D3. fold t.
  rewrite P3 at 1. rewrite (Z.add_comm (2 * _)), (Z.mul_comm 2), Z.mod_add by lia.
  rewrite P4 at 1. rewrite (Z.add_comm (2 * _)), (Z.mul_comm 2), Z.mod_add by lia.
  reflexivity.
Qed.

Lemma round_bits_range a k : 0 <= round_bits a k < 8.
Proof.
  unfold round_bits.
  pose proof (Z.mod_pos_bound (a / 2 ^ k) 2 ltac:(lia)).
  pose proof (Z.mod_pos_bound (a / 2 ^ (k - 1)) 2 ltac:(lia)).
  destruct (a mod 2 ^ (k - 1) =? 0); lia.
Qed.

Lemma blen_le_iff' a k : a <> 0 -> 0 <= k -> Z.abs a <= 2 ^ k -> blen (Z.abs a) <= k + 1.
Proof.
  intros Ha Hk H. destruct (blen_bounds (Z.abs a) ltac:(lia)) as [[H1 _] H3].
  destruct (Z.le_gt_cases (blen (Z.abs a)) (k + 1)) as [|G]; [assumption|].
  assert (2 ^ (k + 1) <= 2 ^ (blen (Z.abs a) - 1)) by (apply Z.pow_le_mono_r; lia).
  rewrite Z.pow_add_r in H0 by lia. pose proof (pow2_pos k Hk). lia.
Qed.

Section Encode.
Variable P : enc_params.
Hypothesis HMB : 1 <= MB P.
Hypothesis HW : MB P + 3 <= W P.
Hypothesis HB : 2 * BIAS P + 2 = 2 ^ (W P - 1 - MB P).
Hypothesis HBp : 1 <= BIAS P.
Hypothesis HT : TOP_MAX P = BIAS P + 1.
Hypothesis HU : UNDER P = 1 - BIAS P - MB P.
Hypothesis HN : NORM_LIM P = 1 - BIAS P \/ NORM_LIM P = 2 - BIAS P.

Let f := fmt_of P.

Lemma f_prec : prec f = MB P + 1.
Proof. reflexivity. Qed.
Lemma f_emin : emin f = 1 - BIAS P - MB P.
Proof. unfold f, fmt_of; cbn [emin]. lia. Qed.
Lemma f_inf : inf_mag f = (2 * BIAS P + 1) * 2 ^ MB P.
Proof.
  unfold inf_mag, f, fmt_of; cbn [ebits prec].
  replace (MB P + 1 - 1) with (MB P) by lia. rewrite <- HB. f_equal. lia.
Qed.

(** the positive case, branch by branch *)
Theorem encode_pos a exp : 0 < a -> blen a <= W P ->
  encode_asis P a exp = ieee_rne f (fst (frac_of a exp)) (snd (frac_of a exp)).
Proof.
  intros Ha HL.
  pose proof (ieee_rne_dyadic f a exp Ha) as Hs. cbv zeta in Hs. rewrite Hs. clear Hs.
  rewrite f_prec, f_emin, f_inf.
  destruct (blen_bounds a Ha) as [[Hlo Hhi] HL1].
  set (L := blen a) in *. set (top := L + exp).
  replace (MB P + 1 - 1) with (MB P) by lia.
  pose proof (pow2_pos (MB P) ltac:(lia)) as HpMB.
  unfold encode_asis.
  destruct (Z.eqb_spec a 0); [lia|]. destruct (Z.ltb_spec a 0); [lia|].
  rewrite (Z.abs_eq a) by lia. fold L. cbv zeta.
  replace (W P - (W P - L) + exp) with top by (unfold top; lia).
  rewrite HT, HU.
  destruct (Z.gtb_spec top (BIAS P + 1)) as [Hov|Hov].
  { (* overflow *)
    rewrite Z.max_l by lia.
    replace (top - (MB P + 1) - exp) with (L - (MB P + 1)) by (unfold top; lia).
    set (k := L - (MB P + 1)).
    assert (HM : 2 ^ MB P <= (if k <=? 0 then a * 2 ^ (- k) else rne a k)).
    { destruct (Z.leb_spec k 0).
      - assert (2 ^ MB P = 2 ^ (L - 1) * 2 ^ (- k)) by (rewrite <- pow2_split by lia; f_equal; lia).
        pose proof (pow2_pos (- k) ltac:(lia)). nia.
      - destruct (rne_round_bits a k ltac:(lia) ltac:(lia)) as [E _]. rewrite E.
        assert (2 ^ MB P <= a / 2 ^ k).
        { apply Z.div_le_lower_bound; [apply pow2_pos; lia|].
          rewrite Z.mul_comm, <- pow2_split by lia. replace (MB P + k) with (L - 1) by lia. lia. }
        destruct ((6 <=? round_bits a k) || (round_bits a k =? 3)); lia. }
    destruct (Z.leb_spec ((2 * BIAS P + 1) * 2 ^ MB P)
      ((top - (MB P + 1) - (1 - BIAS P - MB P)) * 2 ^ MB P + (if k <=? 0 then a * 2 ^ (- k) else rne a k))) as [G|G].
    - rewrite Z.add_0_l. reflexivity.
    - exfalso. nia. }
  destruct (Z.ltb_spec top (1 - BIAS P - MB P)) as [Hun|Hun].
  { (* underflow: the value is below half of the smallest subnormal *)
    rewrite Z.max_r by lia.
    set (k := 1 - BIAS P - MB P - exp).
    assert (Hk : L + 1 <= k) by (unfold k, top in *; lia).
    destruct (Z.leb_spec k 0); [lia|].
    destruct (rne_round_bits a k ltac:(lia) ltac:(lia)) as [E1 [_ E3]].
    assert (Hq : a / 2 ^ k = 0).
    { apply Z.div_small. split; [lia|]. eapply Z.lt_le_trans; [exact Hhi|]. apply Z.pow_le_mono_r; lia. }
    assert (Hh : a / 2 ^ (k - 1) = 0).
    { apply Z.div_small. split; [lia|]. eapply Z.lt_le_trans; [exact Hhi|]. apply Z.pow_le_mono_r; lia. }
    assert (Hl : a mod 2 ^ (k - 1) = a).
    { apply Z.mod_small. split; [lia|]. eapply Z.lt_le_trans; [exact Hhi|]. apply Z.pow_le_mono_r; lia. }
    assert (Hrb : round_bits a k = 1).
    { unfold round_bits. rewrite Hq, Hh, Hl. destruct (Z.eqb_spec a 0); [lia|]. reflexivity. }
    rewrite Hrb in E1, E3. change ((6 <=? 1) || (1 =? 3)) with false in E1, E3. cbv iota in E1, E3.
    rewrite Z.add_0_r, Hq in E1.
    assert (E3' : 1 mod 4 <> 0) by (vm_compute; discriminate).
    rewrite (E3 E3'), E1.
    replace (1 - BIAS P - MB P - (1 - BIAS P - MB P)) with 0 by lia. rewrite Z.mul_0_l, Z.add_0_l.
    destruct (Z.leb_spec ((2 * BIAS P + 1) * 2 ^ MB P) 0); [nia|]. reflexivity. }
  destruct (Z.leb_spec top (NORM_LIM P)) as [Hsub|Hnorm].
  { (* subnormal results (for f32 also the lowest normal binade) *)
    rewrite Z.max_r by lia.
    replace (1 - BIAS P - MB P - (1 - BIAS P - MB P)) with 0 by lia. rewrite !Z.mul_0_l, !Z.add_0_l.
    replace (exp + (BIAS P - 1) + MB P) with (- (1 - BIAS P - MB P - exp)) by lia.
    set (k := 1 - BIAS P - MB P - exp).
    assert (Hk : L - k <= MB P + 1) by (unfold k, top in *; lia).
    assert (Hinf : 2 * 2 ^ MB P < (2 * BIAS P + 1) * 2 ^ MB P) by nia.
    destruct (Z.leb_spec 0 (- k)) as [Hs|Hs].
    - destruct (Z.leb_spec k 0); [|lia].
      assert (Hb : a * 2 ^ (- k) < 2 * 2 ^ MB P).
      { assert (2 ^ L * 2 ^ (- k) <= 2 ^ (MB P + 1)) by (rewrite <- pow2_split by lia; apply Z.pow_le_mono_r; lia).
        replace (2 * 2 ^ MB P) with (2 ^ (MB P + 1)) by (rewrite Z.pow_add_r by lia; ring).
        pose proof (pow2_pos (- k) ltac:(lia)). nia. }
      rewrite (Z.mod_small (a * 2 ^ (- k))).
      2:{ split; [pose proof (pow2_pos (- k) ltac:(lia)); nia|].
          assert (2 ^ (MB P + 1) <= 2 ^ W P) by (apply Z.pow_le_mono_r; lia).
          replace (2 * 2 ^ MB P) with (2 ^ (MB P + 1)) in Hb by (rewrite Z.pow_add_r by lia; ring). lia. }
      change (0 mod 4 =? 0) with true. cbv iota.
      destruct (Z.leb_spec ((2 * BIAS P + 1) * 2 ^ MB P) (a * 2 ^ (- k))); [lia|]. reflexivity.
    - destruct (Z.leb_spec k 0); [lia|]. rewrite Z.opp_involutive.
      destruct (rne_round_bits a k ltac:(lia) ltac:(lia)) as [E1 [E2 E3]].
      change ((a / 2 ^ k) mod 2 * 4 + (a / 2 ^ (k - 1)) mod 2 * 2 + (if a mod 2 ^ (k - 1) =? 0 then 0 else 1))
        with (round_bits a k).
      pose proof (round_bits_range a k) as Hr.
      assert (Hq : a / 2 ^ k < 2 * 2 ^ MB P).
      { apply Z.div_lt_upper_bound; [apply pow2_pos; lia|].
        assert (2 ^ L <= 2 ^ k * (2 * 2 ^ MB P)).
        { replace (2 * 2 ^ MB P) with (2 ^ (MB P + 1)) by (rewrite Z.pow_add_r by lia; ring).
          rewrite <- pow2_split by lia. apply Z.pow_le_mono_r; lia. }
        lia. }
      rewrite E1.
      destruct (Z.eqb_spec (round_bits a k mod 4) 0) as [Hz|Hz].
      + assert (Hadj : (6 <=? round_bits a k) || (round_bits a k =? 3) = false).
        { pose proof (Z.div_mod (round_bits a k) 4 ltac:(lia)).
          destruct (Z.leb_spec 6 (round_bits a k)); destruct (Z.eqb_spec (round_bits a k) 3); cbn; lia. }
        rewrite Hadj, Z.add_0_r.
        symmetry in E2. apply Z.eqb_eq in E2.
        assert (Hex0 : a / 2 ^ k * 2 ^ k = a).
        { pose proof (Z.div_mod a (2 ^ k) ltac:(pose proof (pow2_pos k); lia)). lia. }
        rewrite Hex0, Z.compare_refl.
        destruct (Z.leb_spec ((2 * BIAS P + 1) * 2 ^ MB P) (a / 2 ^ k)); [lia|]. reflexivity.
      + rewrite E1 in E3. rewrite (E3 Hz). unfold round_to_even_adjustment.
        destruct ((6 <=? round_bits a k) || (round_bits a k =? 3)).
        * destruct (Z.leb_spec ((2 * BIAS P + 1) * 2 ^ MB P) (a / 2 ^ k + 1)); [lia|]. reflexivity.
        * rewrite Z.add_0_r.
          destruct (Z.leb_spec ((2 * BIAS P + 1) * 2 ^ MB P) (a / 2 ^ k)); [lia|]. reflexivity. }
  (* normal results *)
  rewrite Z.max_l by lia.
  replace (top - (MB P + 1) - exp) with (L - (MB P + 1)) by (unfold top; lia).
  set (k := L - (MB P + 1)).
  replace (top - (MB P + 1) - (1 - BIAS P - MB P)) with (top + BIAS P - 2) by lia.
  replace (exp + BIAS P + W P - (W P - L) - 1) with (top + BIAS P - 1) by (unfold top; lia).
  set (t := a - 2 ^ (L - 1)).
  set (j := W P - MB P - 1).
  assert (Ht : 0 <= t < 2 ^ (L - 1)).
  { unfold t. assert (2 ^ L = 2 * 2 ^ (L - 1)).
    { replace L with (Z.succ (L - 1)) at 1 by lia. rewrite Z.pow_succ_r by lia. reflexivity. }
    lia. }
  assert (Hman : (if a =? 1 then 0 else (a * 2 ^ (W P - L + 1)) mod 2 ^ W P) = t * 2 ^ (j + 1 - k)).
  { replace (j + 1 - k) with (W P - L + 1) by (unfold j, k; lia).
    destruct (Z.eqb_spec a 1) as [E|E].
    - assert (HLe : L = 1) by (unfold L; rewrite E; reflexivity). unfold t. rewrite E, HLe. reflexivity.
    - pose proof (pow2_pos (W P - L + 1) ltac:(lia)) as Hpw.
      assert (EW : 2 ^ W P = 2 ^ (L - 1) * 2 ^ (W P - L + 1)) by (rewrite <- pow2_split by lia; f_equal; lia).
      assert (Ea : a * 2 ^ (W P - L + 1) = t * 2 ^ (W P - L + 1) + 1 * 2 ^ W P).
      { unfold t. rewrite Z.mul_sub_distr_r, EW. ring. }
      rewrite Ea, Z.mod_add by (pose proof (pow2_pos (W P)); lia).
      apply Z.mod_small. split; [nia|]. rewrite EW. nia. }
  rewrite Hman.
  replace (W P - MB P) with (j + 1) by (unfold j; lia).
  assert (Hjk : 0 <= j + 1 - k) by (unfold j, k; lia).
  assert (Hx : 0 <= t * 2 ^ (j + 1 - k)) by (pose proof (pow2_pos (j + 1 - k)); nia).
  rewrite round_bits_of_eq by (unfold j; lia).
  assert (HE : (top + BIAS P - 2) * 2 ^ MB P + 2 ^ MB P = (top + BIAS P - 1) * 2 ^ MB P) by ring.
  destruct (Z.leb_spec k 0) as [Hk|Hk].
  - (* the mantissa fits: exact *)
    assert (Ek : j + 1 - k = - k + (j + 1)) by lia.
    assert (Hd1 : t * 2 ^ (j + 1 - k) / 2 ^ (j + 1) = t * 2 ^ (- k)).
    { rewrite Ek, pow2_split, Z.mul_assoc, Z.div_mul by (try (pose proof (pow2_pos (j + 1)); lia); lia). reflexivity. }
    assert (Hd2 : (t * 2 ^ (j + 1 - k) / 2 ^ j) mod 2 = 0).
    { replace (j + 1 - k) with (- k + 1 + j) by lia.
      rewrite pow2_split, Z.mul_assoc, Z.div_mul by (try (pose proof (pow2_pos j); lia); unfold j; lia).
      rewrite pow2_split, Z.mul_assoc by lia. apply Z.mod_mul. lia. }
    assert (Hd3 : (t * 2 ^ (j + 1 - k)) mod 2 ^ j = 0).
    { replace (j + 1 - k) with (- k + 1 + j) by lia.
      rewrite pow2_split, Z.mul_assoc by (unfold j; lia). apply Z.mod_mul. pose proof (pow2_pos j); unfold j in *; lia. }
    rewrite Hd1, Hd2, Hd3. change (0 =? 0) with true. cbv iota.
    assert (Hm4 : ((t * 2 ^ (- k)) mod 2 * 4 + 0 * 2 + 0) mod 4 = 0).
    { rewrite Z.mul_0_l, !Z.add_0_r. apply Z.mod_mul. lia. }
    rewrite Hm4. change (0 =? 0) with true. cbv iota.
    assert (Ea : a * 2 ^ (- k) = 2 ^ MB P + t * 2 ^ (- k)).
    { unfold t. rewrite Z.mul_sub_distr_r, <- pow2_split by lia. replace (L - 1 + - k) with (MB P) by (unfold k; lia). lia. }
    rewrite Ea.
    assert (Hb : t * 2 ^ (- k) < 2 ^ MB P).
    { assert (2 ^ (L - 1) * 2 ^ (- k) = 2 ^ MB P) by (rewrite <- pow2_split by lia; f_equal; unfold k; lia).
      pose proof (pow2_pos (- k) ltac:(lia)). nia. }
    rewrite Z.add_assoc, HE.
    destruct (Z.leb_spec ((2 * BIAS P + 1) * 2 ^ MB P) ((top + BIAS P - 1) * 2 ^ MB P + t * 2 ^ (- k))) as [G|G]; [exfalso; nia|].
    rewrite Z.add_0_l. reflexivity.
  - (* k >= 1 low bits are rounded away *)
    assert (HkL : k + 2 <= L) by (unfold k; lia).
    destruct (round_bits_top a k Ha ltac:(lia) HkL) as [Hrt Hdiv]. fold L in Hrt, Hdiv. fold t in Hrt, Hdiv.
    assert (Hd1 : t * 2 ^ (j + 1 - k) / 2 ^ (j + 1) = t / 2 ^ k).
    { rewrite div_scaled by lia. f_equal. f_equal. lia. }
    assert (Hd2 : t * 2 ^ (j + 1 - k) / 2 ^ j = t / 2 ^ (k - 1)).
    { rewrite div_scaled by lia. f_equal. f_equal. lia. }
    assert (Hd3 : ((t * 2 ^ (j + 1 - k)) mod 2 ^ j =? 0) = (t mod 2 ^ (k - 1) =? 0)).
    { rewrite mod_scaled by lia. replace (j - (j + 1 - k)) with (k - 1) by lia.
      pose proof (pow2_pos (j + 1 - k) ltac:(lia)).
      destruct (Z.eqb_spec (t mod 2 ^ (k - 1)) 0) as [->|]; [reflexivity|].
      apply Z.eqb_neq. nia. }
    rewrite Hd1, Hd2, Hd3.
    change ((t / 2 ^ k) mod 2 * 4 + (t / 2 ^ (k - 1)) mod 2 * 2 + (if t mod 2 ^ (k - 1) =? 0 then 0 else 1))
      with (round_bits t k).
    rewrite Hrt.
    destruct (rne_round_bits a k ltac:(lia) ltac:(lia)) as [E1 [E2 E3]].
    pose proof (round_bits_range a k) as Hr.
    rewrite E1, Hdiv. replace (L - 1 - k) with (MB P) by (unfold k; lia).
    assert (Hb : t / 2 ^ k < 2 ^ MB P).
    { apply Z.div_lt_upper_bound; [apply pow2_pos; lia|].
      rewrite <- pow2_split by lia. replace (k + MB P) with (L - 1) by (unfold k; lia). lia. }
    assert (Hb0 : 0 <= t / 2 ^ k) by (apply Z.div_pos; [lia | apply pow2_pos; lia]).
    rewrite <- !Z.add_assoc, (Z.add_assoc _ (2 ^ MB P)), HE, Z.add_0_l.
    destruct (Z.eqb_spec (round_bits a k mod 4) 0) as [Hz|Hz].
    + assert (Hadj : (6 <=? round_bits a k) || (round_bits a k =? 3) = false).
      { pose proof (Z.div_mod (round_bits a k) 4 ltac:(lia)).
        destruct (Z.leb_spec 6 (round_bits a k)); destruct (Z.eqb_spec (round_bits a k) 3); cbn; lia. }
      rewrite Hadj, !Z.add_0_r.
      symmetry in E2. apply Z.eqb_eq in E2.
      assert (Hex : (2 ^ MB P + t / 2 ^ k) * 2 ^ k = a).
      { replace (L - 1 - k) with (MB P) in Hdiv by (unfold k; lia). rewrite <- Hdiv. pose proof (Z.div_mod a (2 ^ k) ltac:(pose proof (pow2_pos k); lia)). lia. }
      rewrite Hex, Z.compare_refl.
      destruct (Z.leb_spec ((2 * BIAS P + 1) * 2 ^ MB P) ((top + BIAS P - 1) * 2 ^ MB P + t / 2 ^ k)); [exfalso; nia|].
      reflexivity.
    + rewrite E1, Hdiv in E3. replace (L - 1 - k) with (MB P) in E3 by (unfold k; lia).
      rewrite <- Z.add_assoc in E3.
      rewrite (E3 Hz). unfold round_to_even_adjustment.
      destruct ((6 <=? round_bits a k) || (round_bits a k =? 3)).
      * destruct (Z.leb_spec ((2 * BIAS P + 1) * 2 ^ MB P) ((top + BIAS P - 1) * 2 ^ MB P + (t / 2 ^ k + 1))) as [G|G].
        -- f_equal; nia.
        -- f_equal; lia.
      * rewrite !Z.add_0_r.
        destruct (Z.leb_spec ((2 * BIAS P + 1) * 2 ^ MB P) ((top + BIAS P - 1) * 2 ^ MB P + t / 2 ^ k)); [exfalso; nia|].
        reflexivity.
Qed.

(** a negative mantissa: same magnitude pattern, sign bit set, error sign mirrored *)
Lemma encode_neg a exp : 0 < a ->
  encode_asis P (- a) exp =
    (fst (encode_asis P a exp) + 2 ^ (W P - 1), CompOpp (snd (encode_asis P a exp))).
Proof.
  intros Ha. unfold encode_asis.
  destruct (Z.eqb_spec (- a) 0); [lia|]. destruct (Z.eqb_spec a 0); [lia|].
  destruct (Z.ltb_spec (- a) 0); [|lia]. destruct (Z.ltb_spec a 0); [lia|].
  rewrite Z.abs_opp. cbv zeta.
  repeat match goal with
  | |- context [if ?b then _ else _] => destruct b; cbn [fst snd CompOpp]
  | |- context [let '(_, _) := ?x in _] => destruct x; cbn [fst snd CompOpp]
  end; f_equal; lia.
Qed.

Lemma frac_of_opp a exp : frac_of (- a) exp = (- fst (frac_of a exp), snd (frac_of a exp)).
Proof. unfold frac_of. destruct (0 <=? exp); cbn [fst snd]; f_equal; ring. Qed.

Lemma frac_of_pos a exp : 0 < a -> 0 < fst (frac_of a exp) /\ 0 < snd (frac_of a exp).
Proof.
  intros. unfold frac_of. destruct (Z.leb_spec 0 exp); cbn [fst snd].
  - pose proof (pow2_pos exp ltac:(lia)). split; nia.
  - pose proof (pow2_pos (- exp) ltac:(lia)). lia.
Qed.

Lemma f_sign : sign_bit f = 2 ^ (W P - 1).
Proof. unfold sign_bit, f, fmt_of; cbn [ebits prec]. f_equal. lia. Qed.

(** FloatEncoding::encode is round-to-nearest-even with the true error sign, for every mantissa
    of the signed W-bit type (|mantissa| <= 2^(W-1)) and every exponent *)
Theorem encode_correct m exp : blen (Z.abs m) <= W P ->
  encode_asis P m exp = ieee_rne f (fst (frac_of m exp)) (snd (frac_of m exp)).
Proof.
  intros Hm. destruct (Z.lt_trichotomy m 0) as [Hneg|[->|Hpos]].
  - replace m with (- (- m)) by lia. rewrite encode_neg by lia.
    rewrite frac_of_opp. cbn [fst snd].
    destruct (frac_of_pos (- m) exp ltac:(lia)) as [H1 H2].
    rewrite ieee_rne_opp by assumption. rewrite f_sign.
    rewrite (Z.abs_neq m) in Hm by lia. rewrite encode_pos by (try assumption; lia). reflexivity.
  - unfold encode_asis, ieee_rne, ieee_round, frac_of. destruct (0 <=? exp); reflexivity.
  - rewrite (Z.abs_eq m) in Hm by lia. apply encode_pos; assumption.
Qed.

End Encode.

(** the two instances of base/src/bit.rs *)
Theorem encode_f32_correct m exp : - 2 ^ 31 <= m < 2 ^ 31 ->
  encode_asis P32 m exp = ieee_rne F32 (fst (frac_of m exp)) (snd (frac_of m exp)).
Proof.
  intros Hm. change F32 with (fmt_of P32).
  apply encode_correct; [cbn; lia | cbn; lia | reflexivity | cbn; lia | reflexivity | reflexivity | right; reflexivity | ].
  destruct (Z.eq_dec m 0) as [->|]; [cbn; lia|].
  change (W P32) with (31 + 1). apply blen_le_iff'; lia.
Qed.

Theorem encode_f64_correct m exp : - 2 ^ 63 <= m < 2 ^ 63 ->
  encode_asis P64 m exp = ieee_rne F64 (fst (frac_of m exp)) (snd (frac_of m exp)).
Proof.
  intros Hm. change F64 with (fmt_of P64).
  apply encode_correct; [cbn; lia | cbn; lia | reflexivity | cbn; lia | reflexivity | reflexivity | left; reflexivity | ].
  destruct (Z.eq_dec m 0) as [->|]; [cbn; lia|].
  change (W P64) with (63 + 1). apply blen_le_iff'; lia.
Qed.

Example encode_f64_quarter_bit : encode_asis P64 (2 ^ 54 + 3) 0 = (4850376798678024193, Gt).
Proof. reflexivity. Qed.
Example encode_f32_min_subnormal : encode_asis P32 3 (-151) = (1, Gt).
Proof. reflexivity. Qed.
