(** C06: the in-house IEEE round-to-nearest-even specification [ieee_rne] equals Flocq's reference
    [binary_normalize .. mode_NE] followed by [bits_of_b32] / [bits_of_b64]: bit patterns for every
    m * 2^e (both signs, subnormals, underflow to zero, overflow to infinity, zero) and the sign of
    the rounding error.  Print Assumptions: only the four of the standard real-number library
    (sig_not_dec, sig_forall_dec, functional_extensionality_dep, classic). *)
From Coq Require Import ZArith Reals Lia Lra Bool.
From Dashu Require Import Base.Prelude Float.RoundSpec Float.Contract Conv.ConvSpec Conv.ConvArith Conv.ConvIeee.
From Flocq Require Import Core IEEE754.BinarySingleNaN IEEE754.Binary IEEE754.Bits.
Open Scope Z_scope.

(** ** integer facts *)

Lemma Zdigits_blen a : 0 < a -> Zdigits radix2 a = blen a.
Proof.
  intros Ha. symmetry. pose proof (Zdigits_correct radix2 a) as H.
  rewrite Z.abs_eq in H by lia.
  assert (0 < Zdigits radix2 a) by (apply Zdigits_gt_0; lia).
  apply blen_unique; [lia|]. exact H.
Qed.

(** nearest-even on a quotient of integers, in Flocq's and in the specification's terms *)
Lemma ZnearestE_div a d : 0 < d ->
  ZnearestE (IZR a / IZR d) = spec_round MHalfEven a d.
Proof.
  intros Hd. unfold ZnearestE, Znearest, spec_round.
  assert (Hd' : (0 < IZR d)%R) by (apply IZR_lt; lia).
  rewrite Zfloor_div by lia.
  pose proof (Z.div_mod a d ltac:(lia)) as Hdm.
  pose proof (Z.mod_pos_bound a d Hd) as Hb.
  set (q := a / d) in *. set (r := a mod d) in *.
  assert (E : (IZR a / IZR d - IZR q = IZR r / IZR d)%R).
  { rewrite Hdm, plus_IZR, mult_IZR. field. lra. }
  rewrite E.
  assert (C : Rcompare (IZR r / IZR d) (/ 2) = (2 * r ?= d)).
  { rewrite <- (Rcompare_mult_r (IZR d)) by assumption.
    replace (IZR r / IZR d * IZR d)%R with (IZR r) by (field; lra).
    rewrite <- (Rcompare_mult_l 2) by lra.
    replace (2 * (/ 2 * IZR d))%R with (IZR d) by field.
    rewrite <- mult_IZR. apply Rcompare_IZR. }
  rewrite C.
  assert (Hc : r <> 0 -> Zceil (IZR a / IZR d) = q + 1).
  { intros Hr. rewrite Zceil_floor_neq.
    - rewrite Zfloor_div by lia. reflexivity.
    - rewrite Zfloor_div by lia. fold q. intros Heq.
      assert (IZR r / IZR d = 0)%R as Hz by lra.
      apply Rmult_eq_compat_r with (r := IZR d) in Hz.
      replace (IZR r / IZR d * IZR d)%R with (IZR r) in Hz by (field; lra).
      rewrite Rmult_0_l in Hz. apply eq_IZR in Hz. lia. }
  destruct (Z.compare_spec (2 * r) d) as [H|H|H].
  - rewrite Hc by lia. destruct (Z.even q); reflexivity.
  - reflexivity.
  - apply Hc. lia.
Qed.

Lemma rne_ge a k n : 0 <= k -> n * 2 ^ k <= a -> n <= rne a k.
Proof.
  intros Hk H. pose proof (pow2_pos k Hk) as Hp. unfold rne, spec_round.
  pose proof (Z.div_mod a (2 ^ k) ltac:(lia)) as Hdm.
  pose proof (Z.mod_pos_bound a (2 ^ k) Hp) as Hb.
  assert (n <= a / 2 ^ k) by nia.
  destruct (2 * (a mod 2 ^ k) ?= 2 ^ k); [destruct (Z.even (a / 2 ^ k))| |]; lia.
Qed.

Lemma rne_le a k n : 0 <= k -> a <= n * 2 ^ k -> rne a k <= n.
Proof.
  intros Hk H. pose proof (pow2_pos k Hk) as Hp. unfold rne, spec_round.
  pose proof (Z.div_mod a (2 ^ k) ltac:(lia)) as Hdm.
  pose proof (Z.mod_pos_bound a (2 ^ k) Hp) as Hb.
  destruct (Z.eq_dec (a mod 2 ^ k) 0) as [Hz|Hnz].
  - rewrite Hz. assert (a / 2 ^ k <= n) by nia.
    destruct (Z.compare_spec (2 * 0) (2 ^ k)); lia.
  - assert (a / 2 ^ k + 1 <= n) by nia.
    destruct (2 * (a mod 2 ^ k) ?= 2 ^ k); [destruct (Z.even (a / 2 ^ k))| |]; lia.
Qed.

(** the canonical float (mx, ex) of a value M * 2^u, where M may be one carry above the format *)
Lemma canon_pattern p emn mx ex M u d : 1 <= p ->
  2 ^ (d - 1) <= mx < 2 ^ d -> 1 <= d -> Z.max (d + ex - p) emn = ex ->
  0 <= M <= 2 ^ p -> emn <= u -> (emn < u -> 2 ^ (p - 1) <= M) ->
  (u <= ex /\ mx * 2 ^ (ex - u) = M) \/ (ex < u /\ M * 2 ^ (u - ex) = mx) ->
  (ex - emn) * 2 ^ (p - 1) + mx = (u - emn) * 2 ^ (p - 1) + M /\
  (mx < 2 ^ (p - 1) -> ex = emn) /\ mx < 2 ^ p.
Proof.
  intros Hp [Hm1 Hm2] Hd Hmax HM Hu HMn Hrel.
  assert (Hpp : 2 ^ p = 2 * 2 ^ (p - 1)).
  { replace p with (Z.succ (p - 1)) at 1 by lia. rewrite Z.pow_succ_r by lia. reflexivity. }
  pose proof (pow2_pos (p - 1) ltac:(lia)) as HP.
  assert (Hdp : d <= p) by lia.
  assert (Hmp : mx < 2 ^ p).
  { pose proof (Z.pow_le_mono_r 2 d p ltac:(lia) Hdp). lia. }
  assert (Hsub : mx < 2 ^ (p - 1) -> ex = emn).
  { intros Hlt. destruct (Z.le_gt_cases p d) as [G|G]; [|lia].
    pose proof (Z.pow_le_mono_r 2 (p - 1) (d - 1) ltac:(lia) ltac:(lia)). lia. }
  split; [|split; assumption].
  destruct Hrel as [[Hle E]|[Hlt E]].
  - destruct (Z.eq_dec ex u) as [->|Hne].
    + rewrite Z.sub_diag, Z.pow_0_r in E. lia.
    + assert (d = p) by lia. subst d.
      assert (Hj : 2 ^ (ex - u) = 2 * 2 ^ (ex - u - 1)).
      { replace (ex - u) with (Z.succ (ex - u - 1)) at 1 by lia. rewrite Z.pow_succ_r by lia. reflexivity. }
      pose proof (pow2_pos (ex - u - 1) ltac:(lia)) as Hj0.
      destruct (Z.eq_dec (ex - u) 1) as [H1|H1].
      * rewrite H1 in E. change (2 ^ 1) with 2 in E. nia.
      * assert (Hj2 : 2 ^ (ex - u - 1) = 2 * 2 ^ (ex - u - 2)).
        { replace (ex - u - 1) with (Z.succ (ex - u - 2)) at 1 by lia. rewrite Z.pow_succ_r by lia. reflexivity. }
        pose proof (pow2_pos (ex - u - 2) ltac:(lia)). nia.
  - assert (Hj : 2 ^ (u - ex) = 2 * 2 ^ (u - ex - 1)).
    { replace (u - ex) with (Z.succ (u - ex - 1)) at 1 by lia. rewrite Z.pow_succ_r by lia. reflexivity. }
    pose proof (pow2_pos (u - ex - 1) ltac:(lia)) as Hj0.
    specialize (HMn ltac:(lia)). nia.
Qed.

Lemma frac_of_opp a e : frac_of (- a) e = (- fst (frac_of a e), snd (frac_of a e)).
Proof. unfold frac_of. destruct (0 <=? e); cbn [fst snd]; f_equal; ring. Qed.

Lemma frac_of_pos a e : 0 < a -> 0 < fst (frac_of a e) /\ 0 < snd (frac_of a e).
Proof.
  intros Ha. unfold frac_of. destruct (Z.leb_spec 0 e) as [He|He]; cbn [fst snd].
  - pose proof (pow2_pos e He). split; [nia|lia].
  - pose proof (pow2_pos (- e) ltac:(lia)). lia.
Qed.

Section Generic.

Variables mw ew : Z.
Hypothesis Hmw : 0 < mw.
Hypothesis Hew : 0 < ew.
Let prec := mw + 1.
Let emax := 2 ^ (ew - 1).
Hypothesis Hprec : FLX.Prec_gt_0 prec.
Hypothesis Hmax : Prec_lt_emax prec emax.
Let emin := SpecFloat.emin prec emax.
Let fexp := SpecFloat.fexp prec emax.
Let f := {| ConvSpec.prec := mw + 1; ConvSpec.emin := 3 - 2 ^ (ew - 1) - (mw + 1); ebits := ew |}.

Local Instance fexp_valid : Valid_exp fexp := fexp_correct prec emax Hprec.

(** (i) Flocq's rounding of a positive dyadic is the M * 2^u of [ieee_rne_dyadic] *)
Lemma round_dyadic a exp : 0 < a ->
  let top := blen a + exp in
  let u := Z.max (top - prec) emin in
  let k := u - exp in
  let M := if k <=? 0 then a * 2 ^ (- k) else rne a k in
  round radix2 fexp ZnearestE (F2R (Float radix2 a exp)) = F2R (Float radix2 M u).
Proof.
  intros Ha top u k M.
  assert (Hc : cexp radix2 fexp (F2R (Float radix2 a exp)) = u).
  { unfold cexp. rewrite mag_F2R_Zdigits by lia. rewrite Zdigits_blen by assumption. reflexivity. }
  unfold round, scaled_mantissa. rewrite Hc.
  assert (HM : ZnearestE (F2R (Float radix2 a exp) * bpow radix2 (- u)) = M).
  { unfold F2R; cbn [Fnum Fexp]. rewrite Rmult_assoc, <- bpow_plus.
    replace (exp + - u) with (- k) by (unfold k; lia). unfold M.
    destruct (Z.leb_spec k 0) as [Hk|Hk].
    - rewrite <- IZR_Zpower by lia. rewrite <- mult_IZR. apply (@Zrnd_IZR _ (valid_rnd_N _)).
    - rewrite bpow_opp. rewrite <- IZR_Zpower by lia.
      change (IZR a * / IZR (radix2 ^ k))%R with (IZR a / IZR (2 ^ k))%R.
      apply ZnearestE_div. apply pow2_pos. lia. }
  rewrite HM. reflexivity.
Qed.

Lemma M_bounds a exp : 0 < a ->
  let top := blen a + exp in
  let u := Z.max (top - prec) emin in
  let k := u - exp in
  let M := if k <=? 0 then a * 2 ^ (- k) else rne a k in
  0 <= M <= 2 ^ prec /\ (emin < u -> 2 ^ mw <= M).
Proof.
  intros Ha top u k M.
  destruct (blen_bounds a Ha) as [[H1 H2] H3].
  assert (Hp0 : 0 <= mw) by lia.
  unfold M. destruct (Z.leb_spec k 0) as [Hk|Hk].
  - pose proof (pow2_pos (- k) ltac:(lia)) as Hpk.
    assert (Hle : blen a + - k <= prec) by (unfold k, u, top; lia).
    pose proof (Z.pow_le_mono_r 2 _ _ ltac:(lia) Hle) as Hmono.
    rewrite pow2_split in Hmono by lia.
    split; [nia|]. intros Hu.
    assert (E : mw = blen a - 1 + - k) by (unfold k, u, top, prec in *; lia).
    rewrite E, pow2_split by lia. nia.
  - assert (Hle : blen a <= prec + k) by (unfold k, u, top; lia).
    pose proof (Z.pow_le_mono_r 2 _ _ ltac:(lia) Hle) as Hmono.
    rewrite pow2_split in Hmono by (unfold prec; lia).
    split; [split|].
    + apply rne_nonneg; lia.
    + apply rne_le; lia.
    + intros Hu. apply rne_ge; [lia|].
      assert (E : blen a - 1 = mw + k) by (unfold k, u, top, prec in *; lia).
      rewrite <- pow2_split, <- E by lia. lia.
Qed.

Lemma emax_facts : 2 ^ ew = 2 * emax /\ 2 ^ prec = 2 * 2 ^ mw /\ 0 < 2 ^ mw /\ prec < emax /\ emin = 3 - emax - prec.
Proof.
  repeat split.
  - unfold emax. replace ew with (Z.succ (ew - 1)) at 1 by lia. rewrite Z.pow_succ_r by lia. reflexivity.
  - unfold prec. replace (mw + 1) with (Z.succ mw) by lia. rewrite Z.pow_succ_r by lia. reflexivity.
  - apply pow2_pos. lia.
  - exact Hmax.
Qed.

(** (ii) the bit pattern of a finite Flocq float with value (-1)^s * M * 2^u *)
Lemma bits_finite (b : binary_float prec emax) s M u :
  is_finite prec emax b = true -> Bsign prec emax b = s ->
  B2R prec emax b = F2R (Float radix2 (cond_Zopp s M) u) ->
  0 <= M <= 2 ^ prec -> emin <= u -> (emin < u -> 2 ^ mw <= M) ->
  let mg := (u - emin) * 2 ^ mw + M in
  bits_of_binary_float mw ew b = (if s then 2 ^ (ew + mw) else 0) + mg /\
  mg < (2 ^ ew - 1) * 2 ^ mw.
Proof.
  intros Hfin Hs HR HM Hu HMn mg.
  destruct emax_facts as (Eew & Eprec & HP & Hpe & Eemin).
  assert (Esb : 2 ^ (ew + mw) = 2 ^ ew * 2 ^ mw) by (apply pow2_split; lia).
  destruct b as [sb|sb|sb pl Hpl|sb mx ex Hb]; cbn [is_finite] in Hfin; try discriminate.
  - cbn [Bsign] in Hs. subst sb. cbn [B2R] in HR. symmetry in HR.
    apply eq_0_F2R in HR.
    assert (M = 0) by (destruct s; cbn [cond_Zopp] in HR; lia). subst M.
    assert (u = emin) by (destruct (Z.eq_dec u emin); [assumption|specialize (HMn ltac:(lia)); lia]).
    unfold mg. subst u. unfold bits_of_binary_float, join_bits.
    rewrite Z.shiftl_mul_pow2 by lia. split; [destruct s; lia|nia].
  - cbn [Bsign] in Hs. subst sb. cbn [B2R] in HR.
    rewrite !F2R_cond_Zopp in HR.
    assert (HR' : F2R (Float radix2 (Zpos mx) ex) = F2R (Float radix2 M u)).
    { destruct s; cbn [cond_Ropp] in HR; lra. }
    clear HR.
    pose proof Hb as Hb'. unfold SpecFloat.bounded in Hb'. apply andb_prop in Hb'. destruct Hb' as [Hc He].
    unfold SpecFloat.canonical_mantissa in Hc. apply Zeq_bool_eq in Hc.
    apply Z.leb_le in He.
    rewrite Zpos_digits2_pos, Zdigits_blen in Hc by lia.
    destruct (blen_bounds (Zpos mx) ltac:(lia)) as [Hbl Hbl1].
    assert (Hrel : (u <= ex /\ Zpos mx * 2 ^ (ex - u) = M) \/ (ex < u /\ M * 2 ^ (u - ex) = Zpos mx)).
    { destruct (Z.le_gt_cases u ex) as [G|G]; [left|right]; (split; [lia|]).
      - rewrite (F2R_change_exp radix2 u (Zpos mx) ex G) in HR'. apply eq_F2R in HR'. exact HR'.
      - rewrite (F2R_change_exp radix2 ex M u ltac:(lia)) in HR'. apply eq_F2R in HR'. symmetry. exact HR'. }
    unfold SpecFloat.fexp in Hc. fold emin in Hc.
    destruct (canon_pattern prec emin (Zpos mx) ex M u (blen (Zpos mx)) ltac:(unfold prec; lia) Hbl Hbl1 Hc HM Hu) as (Ebits & Hsub & Hlt).
    { replace (prec - 1) with mw by (unfold prec; lia). exact HMn. }
    { exact Hrel. }
    replace (prec - 1) with mw in * by (unfold prec; lia).
    assert (Hmg : mg < (2 ^ ew - 1) * 2 ^ mw).
    { unfold mg. rewrite <- Ebits.
      assert ((ex - emin) * 2 ^ mw <= (2 * emax - 3) * 2 ^ mw) by (apply Z.mul_le_mono_nonneg_r; lia).
      lia. }
    split; [|exact Hmg].
    unfold bits_of_binary_float, join_bits. change (SpecFloat.emin (mw + 1) (2 ^ (ew - 1))) with emin.
    rewrite !Z.shiftl_mul_pow2 by lia. unfold mg. rewrite <- Ebits.
    destruct (Z.leb_spec 0 (Zpos mx - 2 ^ mw)) as [Hn|Hn].
    + destruct s; lia.
    + rewrite (Hsub ltac:(lia)). destruct s; lia.
Qed.

(** a rounded magnitude of 2^emax or more has a pattern at or above infinity's *)
Lemma overflow_mg M u : 0 <= M <= 2 ^ prec -> emin <= u -> (emin < u -> 2 ^ mw <= M) ->
  (bpow radix2 emax <= F2R (Float radix2 M u))%R ->
  (2 ^ ew - 1) * 2 ^ mw <= (u - emin) * 2 ^ mw + M.
Proof.
  intros HM Hu HMn Hov.
  destruct emax_facts as (Eew & Eprec & HP & Hpe & Eemin).
  assert (Hpw : F2R (Float radix2 (2 ^ prec) u) = bpow radix2 (prec + u)).
  { unfold F2R; cbn [Fnum Fexp]. change (2 ^ prec) with (radix2 ^ prec).
    rewrite IZR_Zpower by (unfold prec; lia). symmetry. apply bpow_plus. }
  destruct (Z.eq_dec M (2 ^ prec)) as [->|Hne].
  - rewrite Hpw in Hov. apply le_bpow in Hov.
    assert ((emax - prec - emin) * 2 ^ mw <= (u - emin) * 2 ^ mw) by (apply Z.mul_le_mono_nonneg_r; lia).
    nia.
  - assert (Hlt : (F2R (Float radix2 M u) < bpow radix2 (prec + u))%R).
    { rewrite <- Hpw. apply F2R_lt. lia. }
    assert (Hlt' : (bpow radix2 emax < bpow radix2 (prec + u))%R) by lra.
    apply lt_bpow in Hlt'. specialize (HMn ltac:(lia)).
    assert ((emax - prec + 1 - emin) * 2 ^ mw <= (u - emin) * 2 ^ mw) by (apply Z.mul_le_mono_nonneg_r; lia).
    nia.
Qed.

(** both sides on (-1)^s * a * 2^e, a > 0, stated against the specification's value on a * 2^e *)
Lemma flocq_signed s a e : 0 < a ->
  let m := cond_Zopp s a in
  let b := binary_normalize prec emax Hprec Hmax mode_NE m e false in
  let r := ieee_rne f (fst (frac_of a e)) (snd (frac_of a e)) in
  bits_of_binary_float mw ew b = (if s then sign_bit f else 0) + fst r /\
  (is_finite prec emax b = true ->
     Rcompare (B2R prec emax b) (F2R (Float radix2 m e)) = if s then CompOpp (snd r) else snd r) /\
  (is_finite prec emax b = false -> snd r = Gt).
Proof.
  intros Ha m b r.
  destruct emax_facts as (Eew & Eprec & HP & Hpe & Eemin).
  pose proof (ieee_rne_dyadic f a e Ha) as HD. fold r in HD.
  unfold f in HD. cbn [ConvSpec.prec ConvSpec.emin ebits] in HD. unfold inf_mag in HD.
  cbn [ConvSpec.prec ConvSpec.emin ebits] in HD.
  replace (mw + 1 - 1) with mw in HD by lia.
  change (3 - 2 ^ (ew - 1) - (mw + 1)) with emin in HD. change (mw + 1) with prec in HD.
  pose proof (round_dyadic a e Ha) as HRD. cbv zeta in HRD.
  pose proof (M_bounds a e Ha) as HMB. cbv zeta in HMB. destruct HMB as [HM HMn].
  assert (Esign : sign_bit f = 2 ^ (ew + mw)).
  { unfold sign_bit, f. cbn [ConvSpec.prec ebits]. f_equal. lia. }
  rewrite Esign.
  set (u := Z.max (blen a + e - prec) emin) in *.
  set (k := u - e) in *.
  set (M := if k <=? 0 then a * 2 ^ (- k) else rne a k) in *.
  set (mg := (u - emin) * 2 ^ mw + M) in *.
  assert (Hu : emin <= u) by (unfold u; lia).
  set (x := F2R (Float radix2 m e)).
  assert (Hx : x = cond_Ropp s (F2R (Float radix2 a e))) by (apply F2R_cond_Zopp).
  assert (Hxpos : (0 < F2R (Float radix2 a e))%R) by (apply F2R_gt_0; exact Ha).
  assert (Hrx : round radix2 fexp ZnearestE x = F2R (Float radix2 (cond_Zopp s M) u)).
  { rewrite Hx, F2R_cond_Zopp, <- HRD. destruct s; cbn [cond_Ropp]; [apply round_NE_opp | reflexivity]. }
  assert (Habs : Rabs (round radix2 fexp ZnearestE x) = F2R (Float radix2 M u)).
  { rewrite Hrx, F2R_cond_Zopp, abs_cond_Ropp. apply Rabs_pos_eq. apply F2R_ge_0. cbn [Fnum]. lia. }
  pose proof (binary_normalize_correct prec emax Hprec Hmax mode_NE m e false) as HC.
  cbn [round_mode] in HC. fold b x in HC. change (SpecFloat.fexp prec emax) with fexp in HC.
  rewrite Habs in HC.
  destruct (Rlt_bool_spec (F2R (Float radix2 M u)) (bpow radix2 emax)) as [Hlt|Hge].
  - destruct HC as (HB & Hfin & Hsg).
    assert (Hs : Bsign prec emax b = s).
    { rewrite Hsg, Hx. destruct s; cbn [cond_Ropp].
      - rewrite Rcompare_Lt by lra. reflexivity.
      - rewrite Rcompare_Gt by lra. reflexivity. }
    rewrite Hrx in HB.
    destruct (bits_finite b s M u Hfin Hs HB HM Hu HMn) as [Hbits Hmg]. fold mg in Hbits, Hmg.
    destruct (Z.leb_spec ((2 ^ ew - 1) * 2 ^ mw) mg) as [G|G]; [lia|].
    rewrite HD. cbn [fst snd]. split; [lia|]. split; [|rewrite Hfin; discriminate].
    intros _. rewrite HB, F2R_cond_Zopp. fold x. rewrite Hx.
    assert (Hcmp : Rcompare (F2R (Float radix2 M u)) (F2R (Float radix2 a e)) =
                   if k <=? 0 then Eq else (M * 2 ^ k ?= a)).
    { unfold M. destruct (Z.leb_spec k 0) as [Hk|Hk].
      - apply Rcompare_Eq. rewrite (F2R_change_exp radix2 u a e ltac:(unfold k in Hk; lia)).
        replace (e - u) with (- k) by (unfold k; lia). reflexivity.
      - rewrite (F2R_change_exp radix2 e (rne a k) u ltac:(unfold k in Hk; lia)).
        fold k. rewrite Rcompare_F2R. reflexivity. }
    destruct s; cbn [cond_Ropp]; [rewrite Rcompare_opp, <- Hcmp; apply Rcompare_sym | exact Hcmp].
  - assert (Hinf : (2 ^ ew - 1) * 2 ^ mw <= mg) by (apply overflow_mg; assumption).
    destruct (Z.leb_spec ((2 ^ ew - 1) * 2 ^ mw) mg) as [G|G]; [|lia].
    rewrite HD. cbn [fst snd].
    assert (Hsx : Rlt_bool x 0 = s).
    { rewrite Hx. destruct s; cbn [cond_Ropp]; [apply Rlt_bool_true | apply Rlt_bool_false]; lra. }
    rewrite Hsx in HC. unfold binary_overflow, BinarySingleNaN.binary_overflow in HC.
    cbn [overflow_to_inf SF2FF] in HC.
    destruct b as [sb|sb|sb pl Hpl|sb mx ex Hb]; cbn [B2FF] in HC; try discriminate.
    injection HC as ->.
    split; [|split; [cbn [is_finite]; discriminate | reflexivity]].
    unfold bits_of_binary_float, join_bits. rewrite Z.shiftl_mul_pow2 by lia.
    assert (Esb : 2 ^ (ew + mw) = 2 ^ ew * 2 ^ mw) by (apply pow2_split; lia).
    destruct s; lia.
Qed.

Lemma signed_cases m : m <> 0 -> exists s a, 0 < a /\ m = cond_Zopp s a /\ (m <? 0) = s.
Proof.
  intros Hm. destruct (Z.ltb_spec m 0) as [H|H].
  - exists true, (- m). cbn [cond_Zopp]. repeat split; lia.
  - exists false, m. cbn [cond_Zopp]. repeat split; lia.
Qed.

Lemma spec_signed s a e : 0 < a ->
  ieee_rne f (fst (frac_of (cond_Zopp s a) e)) (snd (frac_of (cond_Zopp s a) e)) =
  let r := ieee_rne f (fst (frac_of a e)) (snd (frac_of a e)) in
  ((if s then sign_bit f else 0) + fst r, if s then CompOpp (snd r) else snd r).
Proof.
  intros Ha. cbv zeta. destruct s; cbn [cond_Zopp].
  - rewrite frac_of_opp. cbn [fst snd]. destruct (frac_of_pos a e Ha) as [HN HD].
    rewrite ieee_rne_opp by assumption. f_equal. lia.
  - rewrite Z.add_0_l. apply surjective_pairing.
Qed.

Theorem flocq_bits m e : m <> 0 ->
  fst (ieee_rne f (fst (frac_of m e)) (snd (frac_of m e))) =
  bits_of_binary_float mw ew (binary_normalize prec emax Hprec Hmax mode_NE m e false).
Proof.
  intros Hm. destruct (signed_cases m Hm) as (s & a & Ha & -> & _).
  rewrite spec_signed by assumption. cbv zeta. cbn [fst].
  symmetry. apply (flocq_signed s a e Ha).
Qed.

Theorem flocq_sign m e : m <> 0 ->
  let b := binary_normalize prec emax Hprec Hmax mode_NE m e false in
  snd (ieee_rne f (fst (frac_of m e)) (snd (frac_of m e))) =
  if is_finite prec emax b then Rcompare (B2R prec emax b) (F2R (Float radix2 m e))
  else if m <? 0 then Lt else Gt.
Proof.
  intros Hm b. destruct (signed_cases m Hm) as (s & a & Ha & E & Es).
  rewrite Es. subst m.
  rewrite spec_signed by assumption. cbv zeta. cbn [snd].
  destruct (flocq_signed s a e Ha) as (_ & Hf & Hi). fold b in Hf, Hi.
  destruct (is_finite prec emax b).
  - symmetry. apply Hf. reflexivity.
  - rewrite (Hi eq_refl). destruct s; reflexivity.
Qed.

(** zero: pattern 0, exact *)
Theorem flocq_zero e :
  let b := binary_normalize prec emax Hprec Hmax mode_NE 0 e false in
  ieee_rne f (fst (frac_of 0 e)) (snd (frac_of 0 e)) = (0, Eq) /\
  bits_of_binary_float mw ew b = 0 /\ is_finite prec emax b = true /\
  Rcompare (B2R prec emax b) (F2R (Float radix2 0 e)) = Eq.
Proof.
  intros b. split.
  { unfold frac_of. destruct (0 <=? e); cbn [fst snd]; rewrite ?Z.mul_0_l; reflexivity. }
  pose proof (binary_normalize_correct prec emax Hprec Hmax mode_NE 0 e false) as HC.
  cbn [round_mode] in HC. fold b in HC. rewrite F2R_0 in HC.
  rewrite round_0 in HC by apply valid_rnd_N. rewrite Rabs_R0 in HC.
  rewrite Rlt_bool_true in HC by apply bpow_gt_0.
  destruct HC as (HB & Hfin & Hsg). rewrite Rcompare_Eq in Hsg by reflexivity.
  rewrite F2R_0, HB. split; [|split; [exact Hfin | apply Rcompare_Eq; reflexivity]].
  destruct b as [sb|sb|sb pl Hpl|sb mx ex Hb]; cbn [is_finite] in Hfin; try discriminate.
  - cbn [Bsign] in Hsg. subst sb. unfold bits_of_binary_float, join_bits.
    rewrite Z.shiftl_mul_pow2 by lia. lia.
  - cbn [B2R] in HB. apply eq_0_F2R in HB. destruct sb; cbn [cond_Zopp] in HB; lia.
Qed.

End Generic.

(** ** the two concrete formats *)

Theorem ieee_rne_flocq_f64 : forall m e : Z, m <> 0 ->
  let b := binary_normalize 53 1024 (eq_refl) (eq_refl) mode_NE m e false in
  fst (ieee_rne F64 (fst (frac_of m e)) (snd (frac_of m e))) = bits_of_b64 b.
Proof. intros m e Hm. exact (flocq_bits 52 11 eq_refl eq_refl eq_refl eq_refl m e Hm). Qed.

Theorem ieee_rne_flocq_f64_sign : forall m e : Z, m <> 0 ->
  let b := binary_normalize 53 1024 (eq_refl) (eq_refl) mode_NE m e false in
  snd (ieee_rne F64 (fst (frac_of m e)) (snd (frac_of m e))) =
  if is_finite 53 1024 b then Rcompare (B2R 53 1024 b) (F2R (Float radix2 m e))
  else if m <? 0 then Lt else Gt.
Proof. intros m e Hm. exact (flocq_sign 52 11 eq_refl eq_refl eq_refl eq_refl m e Hm). Qed.

Theorem ieee_rne_flocq_f64_zero : forall e : Z,
  let b := binary_normalize 53 1024 (eq_refl) (eq_refl) mode_NE 0 e false in
  ieee_rne F64 (fst (frac_of 0 e)) (snd (frac_of 0 e)) = (0, Eq) /\
  bits_of_b64 b = 0 /\ is_finite 53 1024 b = true /\
  Rcompare (B2R 53 1024 b) (F2R (Float radix2 0 e)) = Eq.
Proof. intros e. exact (flocq_zero 52 11 eq_refl eq_refl eq_refl eq_refl e). Qed.

Theorem ieee_rne_flocq_f32 : forall m e : Z, m <> 0 ->
  let b := binary_normalize 24 128 (eq_refl) (eq_refl) mode_NE m e false in
  fst (ieee_rne F32 (fst (frac_of m e)) (snd (frac_of m e))) = bits_of_b32 b.
Proof. intros m e Hm. exact (flocq_bits 23 8 eq_refl eq_refl eq_refl eq_refl m e Hm). Qed.

Theorem ieee_rne_flocq_f32_sign : forall m e : Z, m <> 0 ->
  let b := binary_normalize 24 128 (eq_refl) (eq_refl) mode_NE m e false in
  snd (ieee_rne F32 (fst (frac_of m e)) (snd (frac_of m e))) =
  if is_finite 24 128 b then Rcompare (B2R 24 128 b) (F2R (Float radix2 m e))
  else if m <? 0 then Lt else Gt.
Proof. intros m e Hm. exact (flocq_sign 23 8 eq_refl eq_refl eq_refl eq_refl m e Hm). Qed.

Theorem ieee_rne_flocq_f32_zero : forall e : Z,
  let b := binary_normalize 24 128 (eq_refl) (eq_refl) mode_NE 0 e false in
  ieee_rne F32 (fst (frac_of 0 e)) (snd (frac_of 0 e)) = (0, Eq) /\
  bits_of_b32 b = 0 /\ is_finite 24 128 b = true /\
  Rcompare (B2R 24 128 b) (F2R (Float radix2 0 e)) = Eq.
Proof. intros e. exact (flocq_zero 23 8 eq_refl eq_refl eq_refl eq_refl e). Qed.

(** ** non-vacuity: both sides computed independently *)

Definition spec64 (m e : Z) := ieee_rne F64 (fst (frac_of m e)) (snd (frac_of m e)).
Definition flocq64 (m e : Z) := bits_of_b64 (binary_normalize 53 1024 (eq_refl) (eq_refl) mode_NE m e false).
Definition spec32 (m e : Z) := ieee_rne F32 (fst (frac_of m e)) (snd (frac_of m e)).
Definition flocq32 (m e : Z) := bits_of_b32 (binary_normalize 24 128 (eq_refl) (eq_refl) mode_NE m e false).

(** 2^54 + 3 rounds up to 2^54 + 4 = 0x4350000000000001 *)
Example flocq64_round_up :
  spec64 (2 ^ 54 + 3) 0 = (4850376798678024193, Gt) /\ flocq64 (2 ^ 54 + 3) 0 = 4850376798678024193.
Proof. split; vm_compute; reflexivity. Qed.

(** a tie to even (2^53 + 1), a carry into the next binade (2^54 - 1), negative, subnormal,
    underflow to zero, overflow to infinity *)
Example flocq64_cases :
  spec64 (2 ^ 53 + 1) 0 = (flocq64 (2 ^ 53 + 1) 0, Lt) /\ flocq64 (2 ^ 53 + 1) 0 = 4845873199050653696 /\
  spec64 (2 ^ 54 - 1) 0 = (flocq64 (2 ^ 54 - 1) 0, Gt) /\ flocq64 (2 ^ 54 - 1) 0 = 4850376798678024192 /\
  spec64 (- (2 ^ 54 + 3)) 7 = (flocq64 (- (2 ^ 54 + 3)) 7, Lt) /\
  spec64 5 (-1076) = (flocq64 5 (-1076), Lt) /\ flocq64 5 (-1076) = 1 /\
  spec64 1 (-1075) = (flocq64 1 (-1075), Lt) /\ flocq64 1 (-1075) = 0 /\
  spec64 (2 ^ 53 - 1) 971 = (flocq64 (2 ^ 53 - 1) 971, Eq) /\ flocq64 (2 ^ 53 - 1) 971 = 9218868437227405311 /\
  spec64 (2 ^ 54 - 1) 970 = (flocq64 (2 ^ 54 - 1) 970, Gt) /\ flocq64 (2 ^ 54 - 1) 970 = 9218868437227405312 /\
  spec64 (- 1) 1024 = (flocq64 (- 1) 1024, Lt) /\ flocq64 (- 1) 1024 = 18442240474082181120.
Proof. repeat split; vm_compute; reflexivity. Qed.

Example flocq32_cases :
  spec32 (2 ^ 25 + 3) 0 = (flocq32 (2 ^ 25 + 3) 0, Gt) /\ flocq32 (2 ^ 25 + 3) 0 = 1275068417 /\
  spec32 (- 3) (-150) = (flocq32 (- 3) (-150), Lt) /\ flocq32 (- 3) (-150) = 2147483650 /\
  spec32 1 128 = (flocq32 1 128, Gt) /\ flocq32 1 128 = 2139095040.
Proof. repeat split; vm_compute; reflexivity. Qed.
