(** C06 (fourth round): the literals of Repr::binary_to_f32 / binary_to_f64 / round_to_subnormal and the shape of
    the repaired division route of Context::convert_base, regenerated from float/src/convert.rs on every run
    (coq/gen/ConvParams4.v, tools/translate_c06_r4.py), are the constants of the as-is models
    ConvModel.fbig2_to_float / round_to_subnormal / div_round_once.  An edit of one of these literals in the source
    breaks this proof. *)
From Dashu Require Import Base.Prelude Float.RoundSpec Float.Contract Float.Model Conv.ConvSpec Conv.ConvModel.
From DashuGen Require Import RoundTables ConvParams4.
From Coq Require Import List.
Import ListNotations.
Open Scope Z_scope.

(** round_to_subnormal with its two literals as parameters: the offset g of the tiny-value guard and the number d of digits of
    the representative fraction sign / B^d *)
Definition round_to_subnormal_lit (g d : Z) (m : mode) (me s e : Z) : Z * option rounding :=
  if me <=? e then (s * 2 ^ (e - me), None)
  else
    let shift := me - e in
    if shift >? dlen 2 s + g then
      let a := round_fract 2 m 0 (Z.sgn s * 1) d in (0 + adj a, Some a)
    else
      let '(hi, lo) := split_digits 2 s shift in
      if lo =? 0 then (hi, None)
      else let a := round_fract 2 m hi lo shift in (hi + adj a, Some a).

(** what the thresholds of binary_to_f32 / binary_to_f64 are in terms of the format parameters of the model *)
Definition binary_to_lits (P : enc_params) : list Z :=
  [2; TOP_MAX P; 1; - (BIAS P - 1); MB P + 1; - (BIAS P - 1) - MB P; - (BIAS P - 1) - MB P].

Theorem conv_params4_tie :
  binary_to_f32_gen = binary_to_lits P32 /\
  binary_to_f64_gen = binary_to_lits P64 /\
  (forall m me s e, round_to_subnormal m me s e =
     round_to_subnormal_lit (nth 0 round_to_subnormal_gen 0) (nth 1 round_to_subnormal_gen 0) m me s e) /\
  div_route_shape_gen = [1].
Proof. repeat split; reflexivity. Qed.
