(** C06 (third round): FBig::to_int / Repr::to_int.  The as-is models and their proofs are C10's
    (Float/RoundOpsModel.v, RoundOpsProof.v: split_at_point_internal, round_fract, the shortcut of
    Repr::to_int); here their specification [to_int_spec] is shown to be C06's statement of the
    to_int family: the value s * B^e rounded to an integer under the mode, Exact only when nothing
    was lost, the flag telling the true side of the error ([int_round_spec]). *)
From Dashu Require Import Base.Prelude Float.RoundSpec Float.RoundSpecProof Float.Contract Float.Model
  Float.ModelProof Float.RoundOpsModel Float.RoundOpsProof Conv.ConvSpec Conv.ConvModel Conv.ConvFloatProofs Conv.ConvTryProofs.
From DashuGen Require Import RoundTables.
Open Scope Z_scope.

Definition iapprox_of (r : Z * option rounding) : iapprox :=
  match r with (v, None) => IExact v | (v, Some f) => IInexact v f end.

Lemma range_aux x D : 0 < D -> -2 * D < x * D < 2 * D -> -1 <= x <= 1.
Proof. intros; nia. Qed.

Theorem to_int_spec_int_round B m s e : 2 <= B ->
  to_int_spec B m s e = iapprox_of (int_round_spec m (fst (repr_frac B s e)) (snd (repr_frac B s e))).
Proof.
  intros HB. unfold to_int_spec, repr_frac, int_round_spec, is_int, int_spec.
  destruct (Z.leb_spec 0 e) as [He|He]; cbn [orb fst snd].
  - assert (E : spec_round m (s * B ^ e) 1 = s * B ^ e).
    { replace (s * B ^ e) with (s * B ^ e * 1) at 1 by ring. apply spec_round_int. lia. }
    rewrite E, Z.mul_1_r, Z.compare_refl. reflexivity.
  - pose proof (Bpow_pos B HB (- e) ltac:(lia)) as HD. set (D := B ^ (- e)) in *.
    destruct (Z.eqb_spec (s mod D) 0) as [Hz|Hz].
    + pose proof (spec_round_exact m s D HD Hz) as E1. pose proof (spec_round_exact MZero s D HD Hz) as E2.
      assert (E : spec_round m s D = spec_round MZero s D) by nia.
      rewrite E, E2, Z.compare_refl. reflexivity.
    + set (r := spec_round m s D). cbn [spec_round]. set (t := Z.quot s D).
      pose proof (spec_round_error m s D HD) as [Er _]. cbv zeta in Er. fold r in Er.
      pose proof (Z.quot_rem' s D) as Eqr. fold t in Eqr.
      pose proof (Z.rem_bound_abs s D ltac:(lia)) as Hb. rewrite (Z.abs_eq D) in Hb by lia.
      assert (Hlo : Z.rem s D <> 0).
      { intros H0. apply Hz. apply Z.mod_divide; [lia|]. apply Z.rem_divide; [lia | exact H0]. }
      assert (Hsign : (0 <= s -> 0 <= Z.rem s D) /\ (s <= 0 -> Z.rem s D <= 0)).
      { split; intros; [apply Z.rem_nonneg; lia | apply Z.rem_nonpos; lia]. }
      set (lo := Z.rem s D) in *. destruct Hsign as [S1 S2].
      assert (Ed : r * D - s = (r - t) * D - lo) by lia.
      assert (H2 : -2 * D < (r - t) * D < 2 * D) by lia.
      pose proof (range_aux (r - t) D HD H2) as Hrange.
      assert (Hx : r - t = -1 \/ r - t = 0 \/ r - t = 1) by lia.
      unfold flag_of_error, flag_of_adj, iapprox_of.
      remember (r - t) as x eqn:Ex. clear Ex H2 Hrange.
      destruct Hx as [Hx|[Hx|Hx]]; subst x; cbn [Z.eqb Z.ltb Z.compare];
        destruct (Z.compare_spec (r * D) s) as [C|C|C];
        destruct (Z.ltb_spec (Z.sgn s) 0); destruct (Z.ltb_spec 0 (Z.sgn s));
        try reflexivity; exfalso; lia.
Qed.

(** FBig::to_int (mode R) and Repr::to_int (always towards zero), for every sound upper estimate
    of the digit count used by the smaller_than_one shortcut *)
Theorem fbig_to_int_correct B : 2 <= B -> forall digits_ub, (forall s, dlen B s <= digits_ub s) ->
  forall m p s e, (e < 0 -> s mod B <> 0) ->
  to_int_asis B digits_ub false m p s e =
    Ok (iapprox_of (int_round_spec m (fst (repr_frac B s e)) (snd (repr_frac B s e)))).
Proof.
  intros HB dub Hdub m p s e Hn. rewrite (to_int_asis_spec B HB dub Hdub m p s e Hn).
  rewrite to_int_spec_int_round by exact HB. reflexivity.
Qed.

Theorem repr_to_int_correct B : 2 <= B -> forall digits_ub, (forall s, dlen B s <= digits_ub s) ->
  forall s e, (e < 0 -> s mod B <> 0) ->
  repr_to_int_asis B digits_ub s e =
    iapprox_of (int_round_spec MZero (fst (repr_frac B s e)) (snd (repr_frac B s e))).
Proof.
  intros HB dub Hdub s e Hn. rewrite (repr_to_int_asis_spec B HB dub Hdub s e Hn).
  apply to_int_spec_int_round. exact HB.
Qed.

Example fbig_to_int_examples :
  to_int_asis 10 (dub_exact 10) false MHalfEven 4 1235 (-1) = Ok (IInexact 124 AddOne) /\
  int_round_spec MHalfEven 1235 10 = (124, Some AddOne) /\
  to_int_asis 10 (dub_exact 10) false MDown 4 (-1235) (-1) = Ok (IInexact (-124) SubOne) /\
  repr_to_int_asis 2 (dub_exact 2) (-5) (-1) = IInexact (-2) NoOp /\
  to_int_asis 3 (dub_exact 3) false MUp 2 7 2 = Ok (IExact 63).
Proof. vm_compute. repeat split; reflexivity. Qed.
