(** C06: FBig<R,2>::to_f32 / to_f64 (and Repr<2>::to_f32 / to_f64) are the IEEE rounding of the
    exact value under the mode of the number, with a truthful flag, whenever the value is not below
    the smallest normal number of the target (below it the code rounds twice: open finding class
    fbig_to_float_subnormal). *)
From Dashu Require Import Base.Prelude Float.RoundSpec Float.RoundSpecProof Float.Contract Float.Model
  Float.ModelProof Conv.ConvSpec Conv.ConvModel Conv.ConvArith Conv.ConvIeee Conv.ConvEncodeProofs.
From Dashu Require Float.AddModelProof.
From DashuGen Require Import RoundTables.
Open Scope Z_scope.

(* ------------------------------------------------------------------ the specification on dyadics *)

Lemma spec_round_int m n d : 0 < d -> spec_round m (n * d) d = n.
Proof.
  intros Hd. pose proof (spec_round_exact m (n * d) d Hd (Z.mod_mul n d ltac:(lia))) as H.
  apply (Z.mul_cancel_r _ _ d); [lia | exact H].
Qed.

Lemma frac_of_abs s e :
  Z.abs (fst (frac_of s e)) = fst (frac_of (Z.abs s) e) /\ snd (frac_of s e) = snd (frac_of (Z.abs s) e).
Proof.
  unfold frac_of. destruct (Z.leb_spec 0 e) as [He|He]; cbn [fst snd]; [|auto].
  pose proof (pow2_pos e He). rewrite Z.abs_mul, (Z.abs_eq (2 ^ e)) by lia. auto.
Qed.

Lemma frac_of_sign s e : (fst (frac_of s e) <? 0) = (s <? 0) /\ ((fst (frac_of s e) =? 0) = (s =? 0)).
Proof.
  unfold frac_of. destruct (Z.leb_spec 0 e) as [He|He]; cbn [fst snd]; [|auto].
  pose proof (pow2_pos e He).
  split; [destruct (Z.ltb_spec (s * 2 ^ e) 0); destruct (Z.ltb_spec s 0); try reflexivity; nia
         | destruct (Z.eqb_spec (s * 2 ^ e) 0); destruct (Z.eqb_spec s 0); try reflexivity; nia].
Qed.

(** ieee_round of s * 2^e under any mode, in canonical form *)
Lemma ieee_round_dyadic f m s e : s <> 0 ->
  let top := blen (Z.abs s) + e in
  let u := Z.max (top - prec f) (emin f) in
  let k := u - e in
  let M := if k <=? 0 then s * 2 ^ (- k) else spec_round m s (2 ^ k) in
  let mg := (u - emin f) * 2 ^ (prec f - 1) + Z.abs M in
  let sb := if s <? 0 then sign_bit f else 0 in
  ieee_round f m (fst (frac_of s e)) (snd (frac_of s e)) =
    if inf_mag f <=? mg then (sb + inf_mag f, if s <? 0 then Lt else Gt)
    else (sb + mg, if k <=? 0 then Eq else (M * 2 ^ k ?= s)).
Proof.
  intros Hs top u k M mg sb.
  unfold ieee_round, ulp_exp.
  destruct (frac_of_sign s e) as [Hlt Heq]. rewrite Hlt, Heq.
  destruct (Z.eqb_spec s 0) as [|_]; [contradiction|].
  destruct (frac_of_abs s e) as [Ha1 Ha2].
  replace (mag2 (Z.abs (fst (frac_of s e))) (snd (frac_of s e))) with (blen (Z.abs s) + e)
    by (rewrite Ha1, Ha2; symmetry; apply mag2_dyadic; lia). fold top. fold u.
  assert (HM : round_rat_at 2 m (fst (frac_of s e)) (snd (frac_of s e)) u = M /\
               cmp_kx 2 1 (XRat (fst (frac_of s e)) (snd (frac_of s e))) M u =
                 if k <=? 0 then Eq else (M * 2 ^ k ?= s)).
  { unfold round_rat_at, cmp_kx, frac_of, M.
    destruct (Z.leb_spec 0 e) as [He|He]; cbn [fst snd];
    destruct (Z.leb_spec 0 u) as [Hu|Hu]; destruct (Z.leb_spec k 0) as [Hk|Hk]; try lia.
    - assert (E : s * 2 ^ e = s * 2 ^ (- k) * 2 ^ u).
      { rewrite <- Z.mul_assoc, <- pow2_split by lia. do 2 f_equal. lia. }
      rewrite E, Z.mul_1_l, spec_round_int by (apply pow2_pos; lia).
      split; [reflexivity|]. apply Z.compare_eq_iff. lia.
    - assert (E : 1 * 2 ^ u = 2 ^ k * 2 ^ e).
      { rewrite <- pow2_split by lia. rewrite Z.mul_1_l. f_equal. lia. }
      rewrite E, AddModelProof.spec_round_scale by (apply pow2_pos; lia).
      split; [reflexivity|].
      replace (spec_round m s (2 ^ k) * 2 ^ u * 1) with (spec_round m s (2 ^ k) * 2 ^ k * 2 ^ e)
        by (rewrite Z.mul_1_l in E; rewrite E; ring).
      rewrite Z.mul_1_l. apply compare_scale. apply pow2_pos; lia.
    - assert (E : s * 2 ^ e * 2 ^ (- u) = s * 2 ^ (- k)).
      { rewrite <- Z.mul_assoc, <- pow2_split by lia. do 2 f_equal. lia. }
      rewrite E. replace (s * 2 ^ (- k)) with (s * 2 ^ (- k) * 1) at 1 by lia.
      rewrite spec_round_int by lia. split; [reflexivity|]. apply Z.compare_eq_iff. lia.
    - assert (E : 2 ^ (- e) * 2 ^ u = 2 ^ k).
      { rewrite <- pow2_split by lia. f_equal. lia. }
      rewrite E. split; [reflexivity|]. rewrite Z.mul_1_l, <- Z.mul_assoc.
      rewrite (Z.mul_comm (2 ^ u)), E. reflexivity.
    - assert (E : s * 2 ^ (- u) = s * 2 ^ (- k) * 2 ^ (- e)).
      { rewrite <- Z.mul_assoc, <- pow2_split by lia. do 2 f_equal. lia. }
      rewrite E, spec_round_int by (apply pow2_pos; lia).
      split; [reflexivity|]. apply Z.compare_eq_iff. lia.
    - assert (E : 2 ^ (- e) = 2 ^ k * 2 ^ (- u)).
      { rewrite <- pow2_split by lia. f_equal. lia. }
      rewrite E, AddModelProof.spec_round_scale by (apply pow2_pos; lia).
      split; [reflexivity|]. rewrite Z.mul_assoc, Z.mul_1_l.
      apply compare_scale. apply pow2_pos; lia. }
  destruct HM as [HM1 HM2]. rewrite HM1, HM2. fold mg. fold sb. reflexivity.
Qed.

(** the specification depends on the value only: s0 * 2^j at exponent e is s0 at exponent e + j *)
Lemma ieee_round_dyadic_shift f m s0 j e : s0 <> 0 -> 0 <= j ->
  ieee_round f m (fst (frac_of (s0 * 2 ^ j) e)) (snd (frac_of (s0 * 2 ^ j) e)) =
  ieee_round f m (fst (frac_of s0 (e + j))) (snd (frac_of s0 (e + j))).
Proof.
  intros Hs Hj. pose proof (pow2_pos j Hj) as Hpj.
  assert (Hs' : s0 * 2 ^ j <> 0) by nia.
  rewrite (ieee_round_dyadic f m (s0 * 2 ^ j) e Hs'), (ieee_round_dyadic f m s0 (e + j) Hs). cbv zeta.
  rewrite Z.abs_mul, (Z.abs_eq (2 ^ j)) by lia. rewrite blen_shift by lia.
  replace (blen (Z.abs s0) + j + e) with (blen (Z.abs s0) + (e + j)) by lia.
  set (u := Z.max (blen (Z.abs s0) + (e + j) - prec f) (emin f)).
  assert (Hsg : (s0 * 2 ^ j <? 0) = (s0 <? 0)).
  { destruct (Z.ltb_spec (s0 * 2 ^ j) 0); destruct (Z.ltb_spec s0 0); try reflexivity; nia. }
  rewrite Hsg.
  set (k0 := u - (e + j)). replace (u - e) with (k0 + j) by (unfold k0; lia).
  assert (HM : (if k0 + j <=? 0 then s0 * 2 ^ j * 2 ^ (- (k0 + j)) else spec_round m (s0 * 2 ^ j) (2 ^ (k0 + j))) =
               (if k0 <=? 0 then s0 * 2 ^ (- k0) else spec_round m s0 (2 ^ k0)) /\
               (if k0 + j <=? 0 then Eq
                else ((if k0 + j <=? 0 then s0 * 2 ^ j * 2 ^ (- (k0 + j)) else spec_round m (s0 * 2 ^ j) (2 ^ (k0 + j)))
                        * 2 ^ (k0 + j) ?= s0 * 2 ^ j)) =
               (if k0 <=? 0 then Eq
                else ((if k0 <=? 0 then s0 * 2 ^ (- k0) else spec_round m s0 (2 ^ k0)) * 2 ^ k0 ?= s0))).
  { destruct (Z.leb_spec (k0 + j) 0) as [Hk|Hk]; destruct (Z.leb_spec k0 0) as [Hk0|Hk0]; try lia.
    - split; [|reflexivity]. rewrite <- Z.mul_assoc, <- pow2_split by lia. do 2 f_equal. lia.
    - assert (E : s0 * 2 ^ j = s0 * 2 ^ (- k0) * 2 ^ (k0 + j)).
      { rewrite <- Z.mul_assoc, <- pow2_split by lia. do 2 f_equal. lia. }
      assert (Hr : spec_round m (s0 * 2 ^ j) (2 ^ (k0 + j)) = s0 * 2 ^ (- k0)).
      { rewrite E. apply spec_round_int. apply pow2_pos; lia. }
      rewrite Hr. split; [reflexivity|]. apply Z.compare_eq_iff. lia.
    - rewrite (pow2_split k0 j) by lia. rewrite AddModelProof.spec_round_scale by (try apply pow2_pos; lia).
      split; [reflexivity|]. rewrite Z.mul_assoc. apply compare_scale. lia. }
  destruct HM as [HM1 HM2]. rewrite HM2, HM1. reflexivity.
Qed.

(* ------------------------------------------------------------------ digits, normalisation *)

Lemma dlen2_blen s : dlen 2 s = blen (Z.abs s).
Proof.
  destruct (Z.eq_dec s 0) as [->|Hs]; [reflexivity|].
  destruct (blen_bounds (Z.abs s) ltac:(lia)) as [[H1 H2] H3].
  apply (dlen_unique 2 ltac:(lia)); [lia | split; assumption].
Qed.

Lemma normalize_id B s e : 2 <= B -> s mod B <> 0 -> normalize B s e = (s, e).
Proof.
  intros HB Hm. assert (Hs : s <> 0) by (intros ->; apply Hm; apply Z.mod_0_l; lia).
  unfold normalize. destruct (Z.eqb_spec s 0) as [|_]; [contradiction|].
  pose proof (Z.log2_nonneg (Z.abs s)) as Hl.
  destruct (Z.to_nat (Z.log2 (Z.abs s) + 1)) as [|n] eqn:En; [lia|].
  cbn [strip_aux]. destruct (Z.eqb_spec (s mod B) 0); [contradiction | reflexivity].
Qed.

Lemma pow2_succ n : 0 <= n -> 2 ^ (n + 1) = 2 * 2 ^ n.
Proof. intros. rewrite Z.pow_add_r, Z.pow_1_r by lia. ring. Qed.

(** the flag of repr_round says on which side of the exact value the rounded one lies *)
Lemma round_flag m s k : s mod 2 <> 0 -> 1 <= k ->
  Some (round_fract 2 m (Z.quot s (2 ^ k)) (Z.rem s (2 ^ k)) k) =
    flag_of_error (Z.sgn s) (spec_round m s (2 ^ k) * 2 ^ k ?= s).
Proof.
  intros Hodd Hk. pose proof (pow2_pos k ltac:(lia)) as HK.
  pose proof (normalized_low_nonzero 2 ltac:(lia) s k Hodd Hk) as Hlo.
  pose proof (Z.quot_rem' s (2 ^ k)) as Eqr.
  pose proof (Z.rem_bound_abs s (2 ^ k) ltac:(lia)) as Hb. rewrite (Z.abs_eq (2 ^ k)) in Hb by lia.
  pose proof (round_fract_spec 2 ltac:(lia) m (Z.quot s (2 ^ k)) (Z.rem s (2 ^ k)) k ltac:(lia) Hb) as Hr.
  replace (Z.quot s (2 ^ k) * 2 ^ k + Z.rem s (2 ^ k)) with s in Hr by lia.
  pose proof (spec_round_error m s (2 ^ k) HK) as [E1 _]. cbv zeta in E1.
  rewrite <- Hr in *.
  set (a := round_fract 2 m (Z.quot s (2 ^ k)) (Z.rem s (2 ^ k)) k) in *.
  assert (Hsign : (0 <= s -> 0 <= Z.rem s (2 ^ k)) /\ (s <= 0 -> Z.rem s (2 ^ k) <= 0)).
  { split; intros; [apply Z.rem_nonneg; lia | apply Z.rem_nonpos; lia]. }
  set (hi := Z.quot s (2 ^ k)) in *. set (lo := Z.rem s (2 ^ k)) in *. set (K := 2 ^ k) in *.
  clearbody a hi lo K. destruct Hsign as [Hs1 Hs2].
  assert (Ed : (hi + adj a) * K - s = adj a * K - lo) by lia.
  unfold flag_of_error.
  destruct (Z.compare_spec ((hi + adj a) * K) s) as [C|C|C];
    destruct (Z.ltb_spec (Z.sgn s) 0); destruct (Z.ltb_spec 0 (Z.sgn s));
    destruct a; cbn [adj] in *; try reflexivity; exfalso; lia.
Qed.

(** the bit pattern (without sign) of the normal number |s| * 2^e, blen |s| <= MB + 1 *)
Definition normal_pattern (P : enc_params) (s e : Z) : Z :=
  (blen (Z.abs s) + e + BIAS P - 2) * 2 ^ MB P + Z.abs s * 2 ^ (MB P + 1 - blen (Z.abs s)).

Section ToFloat.
Variable P : enc_params.
Hypothesis HMB : 1 <= MB P.
Hypothesis HW : MB P + 3 <= W P.
Hypothesis HB : 2 * BIAS P + 2 = 2 ^ (W P - 1 - MB P).
Hypothesis HBp : 1 <= BIAS P.
Hypothesis HT : TOP_MAX P = BIAS P + 1.
Hypothesis HU : UNDER P = 1 - BIAS P - MB P.
Hypothesis HN : NORM_LIM P = 1 - BIAS P \/ NORM_LIM P = 2 - BIAS P.

Lemma tf_emin : emin (fmt_of P) = 1 - BIAS P - MB P.
Proof. unfold fmt_of; cbn [emin]. lia. Qed.
Lemma tf_inf : inf_mag (fmt_of P) = inf_bits P.
Proof.
  unfold inf_mag, inf_bits, fmt_of; cbn [ebits prec].
  replace (MB P + 1 - 1) with (MB P) by lia. rewrite <- HB. f_equal. lia.
Qed.
Lemma tf_sign : sign_bit (fmt_of P) = 2 ^ (W P - 1).
Proof. unfold sign_bit, fmt_of; cbn [ebits prec]. f_equal. lia. Qed.

(** the specification in the normal range: ulp exponent = top - (MB+1) *)
Lemma ieee_round_normal m s e : s <> 0 -> 1 - BIAS P < blen (Z.abs s) + e ->
  let top := blen (Z.abs s) + e in
  let k := blen (Z.abs s) - (MB P + 1) in
  let M := if k <=? 0 then s * 2 ^ (- k) else spec_round m s (2 ^ k) in
  let mg := (top + BIAS P - 2) * 2 ^ MB P + Z.abs M in
  let sb := if s <? 0 then 2 ^ (W P - 1) else 0 in
  ieee_round (fmt_of P) m (fst (frac_of s e)) (snd (frac_of s e)) =
    if inf_bits P <=? mg then (sb + inf_bits P, if s <? 0 then Lt else Gt)
    else (sb + mg, if k <=? 0 then Eq else (M * 2 ^ k ?= s)).
Proof.
  intros Hs Hn. cbv zeta. rewrite (ieee_round_dyadic (fmt_of P) m s e Hs). cbv zeta.
  rewrite tf_emin, tf_inf, tf_sign. change (prec (fmt_of P)) with (MB P + 1).
  rewrite Z.max_l by lia.
  replace (blen (Z.abs s) + e - (MB P + 1) - e) with (blen (Z.abs s) - (MB P + 1)) by lia.
  replace (blen (Z.abs s) + e - (MB P + 1) - (1 - BIAS P - MB P)) with (blen (Z.abs s) + e + BIAS P - 2) by lia.
  replace (MB P + 1 - 1) with (MB P) by lia. reflexivity.
Qed.

Lemma inf_threshold t A : 2 ^ MB P <= A < 2 * 2 ^ MB P ->
  (inf_bits P <=? (t + BIAS P - 2) * 2 ^ MB P + A) = (t >? BIAS P + 1).
Proof.
  intros HA. unfold inf_bits. pose proof (pow2_pos (MB P) ltac:(lia)) as HX.
  set (X := 2 ^ MB P) in *.
  destruct (Z.gtb_spec t (BIAS P + 1)) as [G|G].
  - assert (2 * BIAS P * X <= (t + BIAS P - 2) * X) by (apply Z.mul_le_mono_nonneg_r; lia).
    destruct (Z.leb_spec ((2 * BIAS P + 1) * X) ((t + BIAS P - 2) * X + A)); [reflexivity | lia].
  - assert ((t + BIAS P - 2) * X <= (2 * BIAS P - 1) * X) by (apply Z.mul_le_mono_nonneg_r; lia).
    destruct (Z.leb_spec ((2 * BIAS P + 1) * X) ((t + BIAS P - 2) * X + A)); [lia | reflexivity].
Qed.


(** |s| * 2^(MB+1-blen|s|) is a full (MB+1)-bit significand *)
Lemma full_significand a : 0 < a -> blen a <= MB P + 1 ->
  2 ^ MB P <= a * 2 ^ (MB P + 1 - blen a) < 2 * 2 ^ MB P.
Proof.
  intros Ha Hb. destruct (blen_bounds a Ha) as [[H1 H2] H3].
  pose proof (pow2_pos (MB P + 1 - blen a) ltac:(lia)) as Hq.
  assert (E1 : 2 ^ MB P = 2 ^ (blen a - 1) * 2 ^ (MB P + 1 - blen a)).
  { rewrite <- pow2_split by lia. f_equal. lia. }
  assert (E2 : 2 * 2 ^ MB P = 2 ^ blen a * 2 ^ (MB P + 1 - blen a)).
  { rewrite <- pow2_split by lia. rewrite <- pow2_succ by lia. f_equal. lia. }
  rewrite E1 at 1. rewrite E2. split; nia.
Qed.

(** into_f32_internal / into_f64_internal on a significand of at most MB+1 bits, value in the normal
    range or above: exact, or overflow with the flag pointing away from zero *)
Lemma into_float_normal s e : s <> 0 -> blen (Z.abs s) <= MB P + 1 -> 1 - BIAS P < blen (Z.abs s) + e ->
  into_float_internal P s e =
    if blen (Z.abs s) + e >? TOP_MAX P then
      (if s <? 0 then FR (2 ^ (W P - 1) + inf_bits P) (Some SubOne) else FR (inf_bits P) (Some AddOne))
    else FR ((if s <? 0 then 2 ^ (W P - 1) else 0) + normal_pattern P s e) None.
Proof.
  intros Hs Hb Hn. unfold into_float_internal.
  replace (e + blen (Z.abs s)) with (blen (Z.abs s) + e) by lia.
  destruct (Z.gtb_spec (blen (Z.abs s) + e) (TOP_MAX P)) as [Ht|Ht]; [reflexivity|].
  destruct (Z.ltb_spec e (- (BIAS P - 1) - MB P - (MB P + 1))) as [He|He]; [lia|].
  rewrite (encode_correct P HMB HW HB HBp HT HU HN s e) by lia.
  unfold ieee_rne. rewrite (ieee_round_normal MHalfEven s e Hs Hn). cbv zeta.
  destruct (Z.leb_spec (blen (Z.abs s) - (MB P + 1)) 0) as [Hk|Hk]; [|lia].
  replace (- (blen (Z.abs s) - (MB P + 1))) with (MB P + 1 - blen (Z.abs s)) by lia.
  pose proof (pow2_pos (MB P + 1 - blen (Z.abs s)) ltac:(lia)) as Hq.
  rewrite Z.abs_mul, (Z.abs_eq (2 ^ (MB P + 1 - blen (Z.abs s)))) by lia.
  rewrite inf_threshold by (apply full_significand; lia).
  destruct (Z.gtb_spec (blen (Z.abs s) + e) (BIAS P + 1)) as [G|G]; [lia|].
  reflexivity.
Qed.

(** the specification on the same inputs *)
Lemma ieee_round_normal_exact m s e : s <> 0 -> blen (Z.abs s) <= MB P + 1 -> 1 - BIAS P < blen (Z.abs s) + e ->
  ieee_round (fmt_of P) m (fst (frac_of s e)) (snd (frac_of s e)) =
    if blen (Z.abs s) + e >? TOP_MAX P then
      ((if s <? 0 then 2 ^ (W P - 1) else 0) + inf_bits P, if s <? 0 then Lt else Gt)
    else ((if s <? 0 then 2 ^ (W P - 1) else 0) + normal_pattern P s e, Eq).
Proof.
  intros Hs Hb Hn. rewrite (ieee_round_normal m s e Hs Hn). cbv zeta.
  destruct (Z.leb_spec (blen (Z.abs s) - (MB P + 1)) 0) as [Hk|Hk]; [|lia].
  replace (- (blen (Z.abs s) - (MB P + 1))) with (MB P + 1 - blen (Z.abs s)) by lia.
  pose proof (pow2_pos (MB P + 1 - blen (Z.abs s)) ltac:(lia)) as Hq.
  rewrite Z.abs_mul, (Z.abs_eq (2 ^ (MB P + 1 - blen (Z.abs s)))) by lia.
  rewrite inf_threshold by (apply full_significand; lia). rewrite HT. reflexivity.
Qed.


(** the rounded significand of a too-long s: MB+1 bits or the carry 2^(MB+1), sign of s, error
    below one unit *)
Lemma round_facts m s : s <> 0 -> 0 < blen (Z.abs s) - (MB P + 1) ->
  let k := blen (Z.abs s) - (MB P + 1) in
  let M := spec_round m s (2 ^ k) in
  2 ^ MB P <= Z.abs M <= 2 * 2 ^ MB P /\ (M <? 0) = (s <? 0) /\ Z.abs (M * 2 ^ k - s) < 2 ^ k.
Proof.
  intros Hs Hk k M.
  pose proof (pow2_pos k ltac:(unfold k; lia)) as HK.
  pose proof (spec_round_error m s (2 ^ k) HK) as [E1 _]. cbv zeta in E1. fold M in E1.
  destruct (blen_bounds (Z.abs s) ltac:(lia)) as [[H1 H2] H3].
  replace (blen (Z.abs s) - 1) with (MB P + k) in H1 by (unfold k; lia).
  replace (blen (Z.abs s)) with (MB P + 1 + k) in H2 by (unfold k; lia).
  rewrite pow2_split in H1 by lia. rewrite pow2_split, pow2_succ in H2 by lia.
  pose proof (pow2_pos (MB P) ltac:(lia)) as HX.
  assert (HX2 : 2 <= 2 ^ MB P).
  { replace (MB P) with (MB P - 1 + 1) by lia. rewrite pow2_succ by lia. pose proof (pow2_pos (MB P - 1) ltac:(lia)). lia. }
  set (X := 2 ^ MB P) in *. set (K := 2 ^ k) in *. clearbody X K M. clear k Hk H3.
  split; [|split; [|exact E1]].
  - split.
    + destruct (Z.le_gt_cases X (Z.abs M)) as [G|G]; [exact G|]. exfalso.
      assert (Z.abs M * K <= (X - 1) * K) by (apply Z.mul_le_mono_nonneg_r; lia).
      assert (Z.abs (M * K) = Z.abs M * K) by (rewrite Z.abs_mul, (Z.abs_eq K); lia). lia.
    + destruct (Z.le_gt_cases (Z.abs M) (2 * X)) as [G|G]; [exact G|]. exfalso.
      assert ((2 * X + 1) * K <= Z.abs M * K) by (apply Z.mul_le_mono_nonneg_r; lia).
      assert (Z.abs (M * K) = Z.abs M * K) by (rewrite Z.abs_mul, (Z.abs_eq K); lia). lia.
  - assert (2 * K <= X * K) by (apply Z.mul_le_mono_nonneg_r; lia).
    destruct (Z.ltb_spec M 0) as [HM|HM]; destruct (Z.ltb_spec s 0) as [Hs0|Hs0]; try reflexivity; exfalso.
    + assert (M * K <= 0) by nia. lia.
    + assert (0 <= M * K) by nia. lia.
Qed.


(** Repr::new after a carry: the normalised significand fits MB+1 bits and encodes the same
    pattern *)
Lemma carry_pattern M s2 j : s2 mod 2 <> 0 -> 0 <= j -> M = s2 * 2 ^ j ->
  2 ^ MB P <= Z.abs M <= 2 * 2 ^ MB P ->
  blen (Z.abs s2) <= MB P + 1 /\
  (Z.abs M < 2 * 2 ^ MB P -> blen (Z.abs s2) + j = MB P + 1 /\ Z.abs s2 * 2 ^ (MB P + 1 - blen (Z.abs s2)) = Z.abs M) /\
  (Z.abs M = 2 * 2 ^ MB P -> blen (Z.abs s2) + j = MB P + 2 /\ Z.abs s2 * 2 ^ (MB P + 1 - blen (Z.abs s2)) = 2 ^ MB P).
Proof.
  intros Hodd Hj EM HMr. pose proof (pow2_pos j Hj) as HJ. pose proof (pow2_pos (MB P) ltac:(lia)) as HX.
  assert (Hs2 : s2 <> 0) by (intros ->; apply Hodd; reflexivity).
  assert (EA : Z.abs M = Z.abs s2 * 2 ^ j) by (rewrite EM, Z.abs_mul, (Z.abs_eq (2 ^ j)); lia).
  assert (Hbl : blen (Z.abs M) = blen (Z.abs s2) + j) by (rewrite EA; apply blen_shift; lia).
  assert (C1 : Z.abs M < 2 * 2 ^ MB P -> blen (Z.abs M) = MB P + 1).
  { intros Hlt. apply blen_unique; [lia|]. replace (MB P + 1 - 1) with (MB P) by lia. rewrite pow2_succ by lia. lia. }
  assert (C2 : Z.abs M = 2 * 2 ^ MB P -> blen (Z.abs M) = MB P + 2).
  { intros ->. rewrite <- pow2_succ by lia. rewrite blen_pow2 by lia. lia. }
  assert (Hj1 : Z.abs M = 2 * 2 ^ MB P -> 1 <= j).
  { intros E. destruct (Z.eq_dec j 0) as [->|]; [|lia]. exfalso. apply Hodd.
    rewrite Z.pow_0_r, Z.mul_1_r in EA.
    assert (Ea : Z.abs s2 mod 2 = 0).
    { rewrite <- EA, E, Z.mul_comm. apply Z.mod_mul. lia. }
    apply Z.mod_divide in Ea; [|lia]. apply Z.mod_divide; [lia|]. apply (proj1 (Z.divide_abs_r 2 s2)). exact Ea. }
  split; [|split].
  - destruct (Z.eq_dec (Z.abs M) (2 * 2 ^ MB P)) as [E|E].
    + pose proof (C2 E). pose proof (Hj1 E). lia.
    + pose proof (C1 ltac:(lia)). lia.
  - intros Hlt. pose proof (C1 Hlt) as Eb. split; [lia|].
    rewrite EA. do 2 f_equal. lia.
  - intros E. pose proof (C2 E) as Eb. pose proof (Hj1 E) as Hj1'. split; [lia|].
    replace (MB P + 1 - blen (Z.abs s2)) with (j - 1) by lia.
    assert (E2 : 2 ^ j = 2 * 2 ^ (j - 1)) by (rewrite <- pow2_succ by lia; f_equal; lia).
    rewrite E2 in EA. lia.
Qed.


Definition to_float_spec (f : fmt) (m : mode) (s e : Z) : frounded :=
  let r := ieee_round f m (fst (frac_of s e)) (snd (frac_of s e)) in
  FR (fst r) (flag_of_error (Z.sgn s) (snd r)).

(** a normalised representation (odd significand) whose value is at least the smallest normal *)
Theorem fbig2_to_float_normalized m s e :
  s mod 2 <> 0 -> 1 - BIAS P < blen (Z.abs s) + e ->
  fbig2_to_float_old P m s e = to_float_spec (fmt_of P) m s e.
Proof.
  intros Hodd Hn. assert (Hs : s <> 0) by (intros ->; apply Hodd; reflexivity).
  assert (Hsgn : ((Z.sgn s <? 0) = (s <? 0)) /\ ((0 <? Z.sgn s) = negb (s <? 0))).
  { destruct (Z.ltb_spec (Z.sgn s) 0); destruct (Z.ltb_spec 0 (Z.sgn s)); destruct (Z.ltb_spec s 0);
      cbn [negb]; split; try reflexivity; lia. }
  destruct Hsgn as [Hsg1 Hsg2].
  unfold fbig2_to_float_old, to_float_spec. cbv zeta. rewrite normalize_id by (assumption || lia).
  destruct (Z.le_gt_cases (blen (Z.abs s)) (MB P + 1)) as [Hd|Hd].
  - rewrite repr_round_exact by (rewrite dlen2_blen; exact Hd).
    rewrite into_float_normal, (ieee_round_normal_exact m) by assumption.
    destruct (blen (Z.abs s) + e >? TOP_MAX P); cbn [fst snd flag_of_error]; [|reflexivity].
    destruct (s <? 0) eqn:Es; rewrite ?Es in Hsg1, Hsg2; cbn [fst snd flag_of_error negb] in *;
      rewrite ?Hsg1, ?Hsg2; reflexivity.
  - destruct (repr_round_spec 2 ltac:(lia) (MB P + 1) m s e ltac:(lia) ltac:(rewrite dlen2_blen; lia)) as (a & E & Ea).
    rewrite E. clear E. rewrite dlen2_blen in *.
    pose proof (round_facts m s Hs ltac:(lia)) as HF. cbv zeta in HF.
    set (k := blen (Z.abs s) - (MB P + 1)) in *.
    pose proof (round_flag m s k Hodd ltac:(lia)) as Hfl. rewrite <- Ea in Hfl. clear Ea.
    set (M := spec_round m s (2 ^ k)) in *.
    destruct HF as (HMr & HMs & HMe).
    pose proof (pow2_pos (MB P) ltac:(lia)) as HX.
    assert (HM0 : M <> 0) by lia.
    pose proof (normalize_spec 2 ltac:(lia) M (e + k)) as Hnz.
    destruct (normalize 2 M (e + k)) as [s2 e2]. destruct Hnz as [_ Hnz].
    destruct (Hnz HM0) as (Hs2 & Hodd2 & j & Hj & He2 & EM). subst e2. clear Hnz.
    destruct (carry_pattern M s2 j Hodd2 Hj EM HMr) as (Hb2 & Cl & Cc).
    assert (Hsg3 : (s2 <? 0) = (s <? 0)).
    { rewrite <- HMs. pose proof (pow2_pos j Hj).
      destruct (Z.ltb_spec s2 0); destruct (Z.ltb_spec M 0); try reflexivity; nia. }
    rewrite (ieee_round_normal m s e Hs Hn). cbv zeta. fold k.
    destruct (Z.leb_spec k 0) as [Hk0|Hk0]; [lia|]. fold M.
    destruct (Z.eq_dec (Z.abs M) (2 * 2 ^ MB P)) as [Ec|Ec].
    + destruct (Cc Ec) as [Cb Cp].
      rewrite into_float_normal by (try assumption; lia).
      unfold normal_pattern. rewrite Cp, Hsg3, Ec.
      replace (blen (Z.abs s2) + (e + k + j)) with (blen (Z.abs s) + e + 1) by (unfold k; lia).
      replace ((blen (Z.abs s) + e + BIAS P - 2) * 2 ^ MB P + 2 * 2 ^ MB P)
        with ((blen (Z.abs s) + e + 1 + BIAS P - 2) * 2 ^ MB P + 2 ^ MB P) by ring.
      rewrite inf_threshold by lia. rewrite HT.
      destruct (blen (Z.abs s) + e + 1 >? BIAS P + 1); cbn [fst snd flag_of_error].
      * destruct (s <? 0) eqn:Es; rewrite ?Es in Hsg1, Hsg2; cbn [fst snd flag_of_error negb fr_and_then] in *;
          rewrite ?Hsg1, ?Hsg2; reflexivity.
      * cbn [fr_and_then]. rewrite Hfl. reflexivity.
    + destruct (Cl ltac:(lia)) as [Cb Cp].
      rewrite into_float_normal by (try assumption; lia).
      unfold normal_pattern. rewrite Cp, Hsg3.
      replace (blen (Z.abs s2) + (e + k + j)) with (blen (Z.abs s) + e) by (unfold k; lia).
      rewrite inf_threshold by lia. rewrite HT.
      destruct (blen (Z.abs s) + e >? BIAS P + 1); cbn [fst snd flag_of_error].
      * destruct (s <? 0) eqn:Es; rewrite ?Es in Hsg1, Hsg2; cbn [fst snd flag_of_error negb fr_and_then] in *;
          rewrite ?Hsg1, ?Hsg2; reflexivity.
      * cbn [fr_and_then]. rewrite Hfl. reflexivity.
Qed.


(** any finite non-zero representation (the model normalises first) *)
Theorem fbig2_to_float_correct m s e :
  s <> 0 -> 1 - BIAS P < blen (Z.abs s) + e ->
  fbig2_to_float_old P m s e = to_float_spec (fmt_of P) m s e.
Proof.
  intros Hs Hn.
  pose proof (normalize_spec 2 ltac:(lia) s e) as Hnz.
  assert (E0 : fbig2_to_float_old P m s e = fbig2_to_float_old P m (fst (normalize 2 s e)) (snd (normalize 2 s e))).
  { unfold fbig2_to_float_old. destruct (normalize 2 s e) as [s0 e0]. cbn [fst snd].
    destruct Hnz as [_ Hnz]. destruct (Hnz Hs) as (_ & Hodd & _).
    rewrite (normalize_id 2 s0 e0) by (assumption || lia). reflexivity. }
  rewrite E0. clear E0. destruct (normalize 2 s e) as [s0 e0]. cbn [fst snd].
  destruct Hnz as [_ Hnz]. destruct (Hnz Hs) as (Hs0 & Hodd & j & Hj & He0 & Es). subst e0.
  pose proof (pow2_pos j Hj) as HJ.
  assert (Hbl : blen (Z.abs s) = blen (Z.abs s0) + j).
  { rewrite Es, Z.abs_mul, (Z.abs_eq (2 ^ j)) by lia. apply blen_shift; lia. }
  rewrite fbig2_to_float_normalized by (try assumption; lia).
  clear Hbl Hn Hs Hnz. subst s.
  unfold to_float_spec. cbv zeta.
  rewrite (ieee_round_dyadic_shift (fmt_of P) m s0 j e Hs0 Hj).
  replace (Z.sgn (s0 * 2 ^ j)) with (Z.sgn s0); [reflexivity|].
  rewrite Z.sgn_mul. rewrite (Z.sgn_pos (2 ^ j)) by lia. lia.
Qed.

(** significands of at most MB+1 bits, over the WHOLE range (subnormal results and underflow
    included): no first rounding happens, FloatEncoding::encode rounds once, to nearest even whatever
    the mode of the number, and the result is flagged exact only if it is.  (Under a mode other than
    HalfEven, or for the direction of the flag, subnormal results remain in the finding class.) *)
Definition short_flag (P : enc_params) (s e : Z) (c : comparison) : option rounding :=
  match c with
  | Eq => None
  | _ => if blen (Z.abs s) + e >? TOP_MAX P then Some (if s <? 0 then SubOne else AddOne) else Some NoOp
  end.

Theorem fbig2_to_float_short_normalized m s e :
  s mod 2 <> 0 -> blen (Z.abs s) <= MB P + 1 ->
  fbig2_to_float_old P m s e =
    FR (fst (ieee_rne (fmt_of P) (fst (frac_of s e)) (snd (frac_of s e))))
       (short_flag P s e (snd (ieee_rne (fmt_of P) (fst (frac_of s e)) (snd (frac_of s e))))).
Proof.
  intros Hodd Hb. assert (Hs : s <> 0) by (intros ->; apply Hodd; reflexivity).
  unfold fbig2_to_float_old. rewrite normalize_id by (assumption || lia).
  rewrite repr_round_exact by (rewrite dlen2_blen; exact Hb).
  unfold into_float_internal, short_flag.
  replace (e + blen (Z.abs s)) with (blen (Z.abs s) + e) by lia.
  destruct (Z.gtb_spec (blen (Z.abs s) + e) (TOP_MAX P)) as [Ht|Ht].
  - unfold ieee_rne. rewrite (ieee_round_normal_exact MHalfEven s e Hs Hb) by lia.
    destruct (Z.gtb_spec (blen (Z.abs s) + e) (TOP_MAX P)) as [_|G]; [|lia].
    destruct (s <? 0); reflexivity.
  - rewrite <- (encode_correct P HMB HW HB HBp HT HU HN s e) by lia.
    destruct (Z.ltb_spec e (- (BIAS P - 1) - MB P - (MB P + 1))) as [He|He].
    + unfold encode_asis. destruct (Z.eqb_spec s 0) as [|_]; [contradiction|].
      replace (W P - (W P - blen (Z.abs s)) + e) with (blen (Z.abs s) + e) by lia.
      destruct (Z.gtb_spec (blen (Z.abs s) + e) (TOP_MAX P)) as [G|_]; [lia|].
      destruct (Z.ltb_spec (blen (Z.abs s) + e) (UNDER P)) as [_|G]; [|lia].
      destruct (s <? 0); reflexivity.
    + destruct (encode_asis P s e) as [b c]. destruct c; reflexivity.
Qed.

Theorem fbig2_to_float_short m s e :
  s <> 0 -> blen (Z.abs s) <= MB P + 1 ->
  fbig2_to_float_old P m s e =
    FR (fst (ieee_rne (fmt_of P) (fst (frac_of s e)) (snd (frac_of s e))))
       (short_flag P s e (snd (ieee_rne (fmt_of P) (fst (frac_of s e)) (snd (frac_of s e))))).
Proof.
  intros Hs Hb.
  pose proof (normalize_spec 2 ltac:(lia) s e) as Hnz.
  assert (E0 : fbig2_to_float_old P m s e = fbig2_to_float_old P m (fst (normalize 2 s e)) (snd (normalize 2 s e))).
  { unfold fbig2_to_float_old. destruct (normalize 2 s e) as [s0 e0]. cbn [fst snd].
    destruct Hnz as [_ Hnz]. destruct (Hnz Hs) as (_ & Hodd & _).
    rewrite (normalize_id 2 s0 e0) by (assumption || lia). reflexivity. }
  rewrite E0. clear E0. destruct (normalize 2 s e) as [s0 e0]. cbn [fst snd].
  destruct Hnz as [_ Hnz]. destruct (Hnz Hs) as (Hs0 & Hodd & j & Hj & He0 & Es). subst e0.
  pose proof (pow2_pos j Hj) as HJ.
  assert (Hbl : blen (Z.abs s) = blen (Z.abs s0) + j).
  { rewrite Es, Z.abs_mul, (Z.abs_eq (2 ^ j)) by lia. apply blen_shift; lia. }
  rewrite fbig2_to_float_short_normalized by (try assumption; lia).
  assert (Hsg : (s <? 0) = (s0 <? 0)).
  { rewrite Es. destruct (Z.ltb_spec (s0 * 2 ^ j) 0); destruct (Z.ltb_spec s0 0); try reflexivity; nia. }
  unfold short_flag. rewrite Hbl, Hsg.
  replace (blen (Z.abs s0) + j + e) with (blen (Z.abs s0) + (e + j)) by lia.
  clear Hbl Hsg Hb Hs Hnz. subst s. unfold ieee_rne.
  rewrite (ieee_round_dyadic_shift (fmt_of P) MHalfEven s0 j e Hs0 Hj). reflexivity.
Qed.

End ToFloat.

(* ------------------------------------------------------------------ the two instances *)

(** Repr<2>::into_f64_internal / into_f32_internal on at most 53 / 24 bits, normal range or above:
    exact, or overflow flagged away from zero *)
Theorem into_f64_internal_normal s e : s <> 0 -> blen (Z.abs s) <= 53 -> -1022 < blen (Z.abs s) + e ->
  into_float_internal P64 s e =
    if blen (Z.abs s) + e >? 1024 then
      (if s <? 0 then FR (2 ^ 63 + inf_bits P64) (Some SubOne) else FR (inf_bits P64) (Some AddOne))
    else FR ((if s <? 0 then 2 ^ 63 else 0) + normal_pattern P64 s e) None.
Proof.
  intros Hs Hb Hn.
  apply (into_float_normal P64); [cbn; lia | cbn; lia | reflexivity | cbn; lia | reflexivity | reflexivity | left; reflexivity
                                 | assumption | exact Hb | exact Hn].
Qed.

Theorem into_f32_internal_normal s e : s <> 0 -> blen (Z.abs s) <= 24 -> -126 < blen (Z.abs s) + e ->
  into_float_internal P32 s e =
    if blen (Z.abs s) + e >? 128 then
      (if s <? 0 then FR (2 ^ 31 + inf_bits P32) (Some SubOne) else FR (inf_bits P32) (Some AddOne))
    else FR ((if s <? 0 then 2 ^ 31 else 0) + normal_pattern P32 s e) None.
Proof.
  intros Hs Hb Hn.
  apply (into_float_normal P32); [cbn; lia | cbn; lia | reflexivity | cbn; lia | reflexivity | reflexivity | right; reflexivity
                                 | assumption | exact Hb | exact Hn].
Qed.

(** FBig<R,2>::to_f64 / Repr<2>::to_f64 (the library always passes HalfEven; proved for every mode)
    for |s| * 2^e >= 2^-1022: the IEEE rounding of the exact value with the truthful flag *)
Theorem fbig2_to_f64_correct m s e :
  s <> 0 -> emin F64 + prec F64 - 1 < blen (Z.abs s) + e ->
  fbig2_to_float_old P64 m s e =
    FR (fst (ieee_round F64 m (fst (frac_of s e)) (snd (frac_of s e))))
       (flag_of_error (Z.sgn s) (snd (ieee_round F64 m (fst (frac_of s e)) (snd (frac_of s e))))).
Proof.
  intros Hs Hn. change F64 with (fmt_of P64).
  apply (fbig2_to_float_correct P64); [cbn; lia | cbn; lia | reflexivity | cbn; lia | reflexivity | reflexivity | left; reflexivity
                                      | assumption | exact Hn].
Qed.

(** FBig<R,2>::to_f32 (mode R) / Repr<2>::to_f32 for |s| * 2^e >= 2^-126 *)
Theorem fbig2_to_f32_correct m s e :
  s <> 0 -> emin F32 + prec F32 - 1 < blen (Z.abs s) + e ->
  fbig2_to_float_old P32 m s e =
    FR (fst (ieee_round F32 m (fst (frac_of s e)) (snd (frac_of s e))))
       (flag_of_error (Z.sgn s) (snd (ieee_round F32 m (fst (frac_of s e)) (snd (frac_of s e))))).
Proof.
  intros Hs Hn. change F32 with (fmt_of P32).
  apply (fbig2_to_float_correct P32); [cbn; lia | cbn; lia | reflexivity | cbn; lia | reflexivity | reflexivity | right; reflexivity
                                      | assumption | exact Hn].
Qed.

(** through the base dispatch of FBig::to_f32 / to_f64 *)
Corollary fbig_to_f64_base2_correct m s e :
  s <> 0 -> emin F64 + prec F64 - 1 < blen (Z.abs s) + e ->
  fbig_to_float_old P64 2 m s e = Ok (to_float_spec F64 m s e).
Proof. intros Hs Hn. unfold fbig_to_float_old. cbn [Z.eqb Pos.eqb]. rewrite fbig2_to_f64_correct by assumption. reflexivity. Qed.

Corollary fbig_to_f32_base2_correct m s e :
  s <> 0 -> emin F32 + prec F32 - 1 < blen (Z.abs s) + e ->
  fbig_to_float_old P32 2 m s e = Ok (to_float_spec F32 m s e).
Proof. intros Hs Hn. unfold fbig_to_float_old. cbn [Z.eqb Pos.eqb]. rewrite fbig2_to_f32_correct by assumption. reflexivity. Qed.

(** non-vacuity: a tie, a carry into overflow at 2^1024, a directed mode that stays finite, a
    negative value, an unnormalised input *)
Example fbig2_to_f64_examples :
  fbig2_to_float_old P64 MHalfEven (2 ^ 53 + 1) 0 = FR 4845873199050653696 (Some NoOp) /\
  fbig2_to_float_old P64 MHalfEven (2 ^ 53 + 3) 0 = FR 4845873199050653698 (Some AddOne) /\
  fbig2_to_float_old P64 MHalfEven (2 ^ 54 - 1) 970 = FR 9218868437227405312 (Some AddOne) /\
  fbig2_to_float_old P64 MZero (2 ^ 54 - 1) 970 = FR 9218868437227405311 (Some NoOp) /\
  fbig2_to_float_old P64 MDown (- (2 ^ 54 - 1)) 970 = FR (2 ^ 63 + 9218868437227405312) (Some SubOne) /\
  fbig2_to_float_old P64 MHalfEven 1 1024 = FR 9218868437227405312 (Some AddOne) /\
  fbig2_to_float_old P64 MHalfEven 12 5 = FR 4645463015632666624 None /\
  emin F64 + prec F64 - 1 < blen (Z.abs (2 ^ 53 + 1)) + 0.
Proof. vm_compute. repeat split; reflexivity. Qed.

Example fbig2_to_f32_examples :
  fbig2_to_float_old P32 MUp (2 ^ 24 + 1) 0 = FR 1266679809 (Some AddOne) /\
  fbig2_to_float_old P32 MDown (2 ^ 24 + 1) 0 = FR 1266679808 (Some NoOp) /\
  fbig2_to_float_old P32 MAway (- (2 ^ 24 + 1)) 0 = FR (2 ^ 31 + 1266679809) (Some SubOne) /\
  fbig2_to_float_old P32 MHalfAway (2 ^ 25 - 1) 103 = FR 2139095040 (Some AddOne) /\
  emin F32 + prec F32 - 1 < blen (Z.abs (2 ^ 24 + 1)) + 0.
Proof. vm_compute. repeat split; reflexivity. Qed.

(** the range hypothesis is needed: just below the smallest normal number the code rounds to 53
    bits first (finding class fbig_to_float_subnormal) *)
Example fbig2_to_f64_below_normal_differs :
  blen (Z.abs (2 ^ 54 + 5)) + (-1077) = emin F64 + prec F64 - 1 /\
  fbig2_to_float_old P64 MHalfEven (2 ^ 54 + 5) (-1077) <> to_float_spec F64 MHalfEven (2 ^ 54 + 5) (-1077).
Proof. vm_compute. split; [reflexivity | discriminate]. Qed.

(** short significands over the whole range, instances *)
Theorem fbig2_to_f64_short m s e : s <> 0 -> blen (Z.abs s) <= 53 ->
  fbig2_to_float_old P64 m s e =
    FR (fst (ieee_rne F64 (fst (frac_of s e)) (snd (frac_of s e))))
       (short_flag P64 s e (snd (ieee_rne F64 (fst (frac_of s e)) (snd (frac_of s e))))).
Proof.
  intros Hs Hb. change F64 with (fmt_of P64).
  apply (fbig2_to_float_short P64); [cbn; lia | cbn; lia | reflexivity | cbn; lia | reflexivity | reflexivity | left; reflexivity
                                    | assumption | exact Hb].
Qed.

Theorem fbig2_to_f32_short m s e : s <> 0 -> blen (Z.abs s) <= 24 ->
  fbig2_to_float_old P32 m s e =
    FR (fst (ieee_rne F32 (fst (frac_of s e)) (snd (frac_of s e))))
       (short_flag P32 s e (snd (ieee_rne F32 (fst (frac_of s e)) (snd (frac_of s e))))).
Proof.
  intros Hs Hb. change F32 with (fmt_of P32).
  apply (fbig2_to_float_short P32); [cbn; lia | cbn; lia | reflexivity | cbn; lia | reflexivity | reflexivity | right; reflexivity
                                    | assumption | exact Hb].
Qed.

Example fbig2_to_f32_short_examples :
  fbig2_to_float_old P32 MHalfEven 3 (-151) = FR 1 (Some NoOp) /\
  fbig2_to_float_old P32 MZero 3 (-151) = FR 1 (Some NoOp) /\
  fbig2_to_float_old P32 MHalfEven 5 (-149) = FR 5 None /\
  fbig2_to_float_old P32 MHalfEven (-1) (-151) = FR (2 ^ 31) (Some NoOp) /\
  fst (ieee_rne F32 (fst (frac_of 3 (-151))) (snd (frac_of 3 (-151)))) = 1.
Proof. vm_compute. repeat split; reflexivity. Qed.
