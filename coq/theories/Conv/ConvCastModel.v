(** C06 (fourth round): Rust's numeric `as` casts between integers and f32/f64, stated over Flocq.
    Definitions only (extracted into the oracle and compared with the real casts on every run).

    The Rust Reference, "Type cast expressions", numeric casts:
    * integer -> float: "will produce the closest possible float; if necessary, rounding is
      according to roundTiesToEven mode; on overflow, infinity (of the same sign as the input) is
      produced" = Flocq's [binary_normalize mode_NE v 0] (which overflows to the infinity of the
      sign), bit pattern by [bits_of_b32/b64];
    * float -> integer: "will round the float towards zero; NaN will return 0; values larger than
      the maximum integer value, including INFINITY, will saturate to the maximum value of the
      integer type; values smaller than the minimum integer value, including NEG_INFINITY, will
      saturate to the minimum value" = Flocq's [Btrunc] (round radix2 (FIX_exp 0) Ztrunc of the
      real value, theorem Btrunc_correct), clamped to the range of the type. *)
From Coq Require Import ZArith.
From Flocq Require Import Core IEEE754.BinarySingleNaN IEEE754.Binary IEEE754.Bits.
Open Scope Z_scope.

Definition int_to_f64_ref (v : Z) : Z :=
  bits_of_b64 (binary_normalize 53 1024 (eq_refl) (eq_refl) mode_NE v 0 false).
Definition int_to_f32_ref (v : Z) : Z :=
  bits_of_b32 (binary_normalize 24 128 (eq_refl) (eq_refl) mode_NE v 0 false).

(** range of a TW-bit integer type *)
Definition int_lo (sg : bool) (TW : Z) : Z := if sg then - 2 ^ (TW - 1) else 0.
Definition int_hi (sg : bool) (TW : Z) : Z := if sg then 2 ^ (TW - 1) - 1 else 2 ^ TW - 1.
Definition saturate (sg : bool) (TW v : Z) : Z := Z.max (int_lo sg TW) (Z.min (int_hi sg TW) v).

Definition float_to_int_ref {prec emax} (sg : bool) (TW : Z) (f : Binary.binary_float prec emax) : Z :=
  match f with
  | Binary.B754_nan _ _ _ _ _ => 0
  | Binary.B754_infinity _ _ s => if s then int_lo sg TW else int_hi sg TW
  | _ => saturate sg TW (Binary.Btrunc prec emax f)
  end.
Definition f64_to_int_ref (sg : bool) (TW bits : Z) : Z := float_to_int_ref sg TW (b64_of_bits bits).
Definition f32_to_int_ref (sg : bool) (TW bits : Z) : Z := float_to_int_ref sg TW (b32_of_bits bits).
