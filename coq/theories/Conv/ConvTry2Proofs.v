(** C06 (third round): the remaining TryFrom glue is exact-or-refused.
    - TryFrom<RBig/Relaxed> for f32/f64 succeeds exactly when N/D is a value of the format, with
      its pattern (power-of-two test of the denominator, the top-bit window, trailing-zero
      stripping, MANTISSA_DIGITS test, encode);
    - TryFrom<FBig<R,2>/Repr<2>> for f32/f64 likewise, over the WHOLE exponent range (the open
      class fbig_to_float_subnormal concerns the direction of the flag only, never Exact-ness);
    - TryFrom<f32/f64> for RBig/Relaxed and for FBig/Repr<2> give the decoded value;
    - TryFrom<RBig> for primitive integers; RBig::to_int. *)
From Dashu Require Import Base.Prelude Float.RoundSpec Float.RoundSpecProof Float.Contract Float.Model
  Float.ModelProof Conv.ConvSpec Conv.ConvModel Conv.ConvModel2 Conv.ConvArith Conv.ConvIeee
  Conv.ConvEncodeProofs Conv.ConvPrimProofs Conv.ConvDecodeProofs Conv.ConvFloatProofs Conv.ConvTryProofs.
From DashuGen Require Import RoundTables.
From Coq Require Import Znumtheory Zpow_facts.
Open Scope Z_scope.

(* ------------------------------------------------------------------ arithmetic *)

Lemma odd_divisor_of_pow2 d j : 0 < d -> 0 <= j -> d mod 2 <> 0 -> (d | 2 ^ j) -> d = 1.
Proof.
  intros Hd Hj Hodd Hdiv.
  assert (R : rel_prime d 2).
  { apply rel_prime_sym. apply prime_rel_prime; [exact prime_2|].
    intros [c Hc]. apply Hodd. rewrite Hc. apply Z.mod_mul. lia. }
  assert (R2 : rel_prime d (2 ^ j)) by (apply rel_prime_Zpower_r; [lia | exact R]).
  assert (D1 : (d | 1)).
  { destruct Hdiv as [c Hc]. apply (Gauss d (2 ^ j) 1); [exists c; lia | exact R2]. }
  apply Z.divide_1_r_nonneg in D1; lia.
Qed.

Lemma pow2_even k : 1 <= k -> 2 ^ k = 2 * 2 ^ (k - 1).
Proof. intros. replace k with (k - 1 + 1) at 1 by lia. apply pow2_succ. lia. Qed.

(** a dyadic value with an odd significand that has bits below the last place of the format is
    never exact *)
Lemma dyadic_inexact f m s e : s mod 2 <> 0 ->
  0 < Z.max (blen (Z.abs s) + e - prec f) (emin f) - e ->
  snd (ieee_round f m (fst (frac_of s e)) (snd (frac_of s e))) <> Eq.
Proof.
  intros Hodd Hk. assert (Hs : s <> 0) by (intros ->; apply Hodd; reflexivity).
  rewrite (ieee_round_dyadic f m s e Hs). cbv zeta.
  set (k := Z.max (blen (Z.abs s) + e - prec f) (emin f) - e) in *.
  destruct (inf_mag f <=? _).
  - cbn [snd]. destruct (s <? 0); discriminate.
  - cbn [snd]. destruct (Z.leb_spec k 0) as [|_]; [lia|].
    intros C. apply Z.compare_eq_iff in C. apply Hodd. rewrite <- C.
    rewrite (pow2_even k) by lia. rewrite Z.mul_assoc, (Z.mul_comm _ 2), <- Z.mul_assoc, Z.mul_comm.
    apply Z.mod_mul. lia.
Qed.

(** an exactly converted rational has a denominator dividing a power of two *)
Lemma exact_den_divides f m N D : 0 < D -> N <> 0 -> snd (ieee_round f m N D) = Eq ->
  exists j, 0 <= j /\ (D | N * 2 ^ j).
Proof.
  intros HD HN. unfold ieee_round. destruct (Z.eqb_spec N 0) as [|_]; [contradiction|].
  set (u := ulp_exp f (Z.abs N) D). set (M := round_rat_at 2 m N D u).
  destruct (inf_mag f <=? _); cbn [snd].
  - destruct (N <? 0); discriminate.
  - unfold cmp_kx. destruct (Z.leb_spec 0 u) as [Hu|Hu]; intros C; apply Z.compare_eq_iff in C.
    + exists 0. split; [lia|]. exists (M * 2 ^ u). rewrite Z.pow_0_r. lia.
    + exists (- u). split; [lia|]. exists M. lia.
Qed.

Lemma reduced_pow2_den N D d0 k : 0 < D -> Z.gcd N D = 1 -> d0 mod 2 <> 0 -> 0 <= k -> D = d0 * 2 ^ k ->
  (exists j, 0 <= j /\ (D | N * 2 ^ j)) -> d0 = 1.
Proof.
  intros HD Hg Hodd Hk ED [j [Hj Hdiv]].
  pose proof (pow2_pos k Hk) as Pk. assert (Hd0 : 0 < d0) by nia.
  assert (R : rel_prime D N) by (apply Zgcd_1_rel_prime; rewrite Z.gcd_comm; exact Hg).
  assert (D2 : (D | 2 ^ j)).
  { apply (Gauss D N (2 ^ j)); [exact Hdiv | exact R]. }
  apply (odd_divisor_of_pow2 d0 j Hd0 Hj Hodd).
  destruct D2 as [c Hc]. exists (c * 2 ^ k). rewrite Hc, ED. ring.
Qed.

Section Try2.
Variable P : enc_params.
Hypothesis HMB : 1 <= MB P.
Hypothesis HW : MB P + 3 <= W P.
Hypothesis HB : 2 * BIAS P + 2 = 2 ^ (W P - 1 - MB P).
Hypothesis HBp : 1 <= BIAS P.
Hypothesis HT : TOP_MAX P = BIAS P + 1.
Hypothesis HU : UNDER P = 1 - BIAS P - MB P.
Hypothesis HN : NORM_LIM P = 1 - BIAS P \/ NORM_LIM P = 2 - BIAS P.
Let f := fmt_of P.

Lemma f_prec : prec f = MB P + 1. Proof. reflexivity. Qed.
Lemma f_emin : emin f = 1 - BIAS P - MB P. Proof. unfold f, fmt_of; cbn [emin]. lia. Qed.

(** the value man * 2^e with man odd: exact conversion exists iff encode says so, and the three
    refusal tests of the code are sound *)
Lemma odd_dyadic_cases man e :
  man mod 2 <> 0 ->
  let top := blen (Z.abs man) + e in
  (blen (Z.abs man) > MB P + 1 -> exact_to_float f (fst (frac_of man e)) (snd (frac_of man e)) = None) /\
  (top < emin f -> exact_to_float f (fst (frac_of man e)) (snd (frac_of man e)) = None) /\
  (blen (Z.abs man) <= MB P + 1 -> top > TOP_MAX P ->
     exact_to_float f (fst (frac_of man e)) (snd (frac_of man e)) = None) /\
  (blen (Z.abs man) <= MB P + 1 ->
     exact_to_float f (fst (frac_of man e)) (snd (frac_of man e)) =
     match encode_asis P man e with (b, Eq) => Some b | _ => None end).
Proof.
  intros Hodd top. assert (Hs : man <> 0) by (intros ->; apply Hodd; reflexivity).
  assert (Hb1 : 1 <= blen (Z.abs man)) by (destruct (blen_bounds (Z.abs man) ltac:(lia)); lia).
  assert (Hne : forall r : Z * comparison, snd r <> Eq -> match r with (b, Eq) => Some b | _ => None end = None).
  { intros [b c] H. cbn [snd] in H. destruct c; [contradiction | reflexivity | reflexivity]. }
  repeat split.
  - intros Hlong. unfold exact_to_float, ieee_rne. apply Hne. apply dyadic_inexact; [exact Hodd|].
    rewrite f_prec. lia.
  - intros Hlow. unfold exact_to_float, ieee_rne. apply Hne. apply dyadic_inexact; [exact Hodd|].
    unfold top in Hlow. lia.
  - intros Hshort Hbig. unfold exact_to_float, ieee_rne, f.
    rewrite (ieee_round_normal_exact P HMB HW HB HT MHalfEven man e Hs Hshort) by (unfold top in Hbig; lia).
    destruct (Z.gtb_spec (blen (Z.abs man) + e) (TOP_MAX P)) as [_|G]; [|unfold top in Hbig; lia].
    destruct (man <? 0); reflexivity.
  - intros Hshort. unfold exact_to_float.
    rewrite (encode_correct P HMB HW HB HBp HT HU HN man e) by lia. reflexivity.
Qed.

(** TryFrom<RBig> for f32 / f64: for every reduced fraction, Ok(pattern) exactly when the value is
    representable, refused otherwise *)
Theorem rat_try_to_float_correct N D : 0 < D -> Z.gcd N D = 1 ->
  conv_ok (rat_try_to_float P N D) = exact_to_float f N D.
Proof.
  intros HD Hg. unfold rat_try_to_float, rat_try_to_float_gen.
  destruct (Z.eqb_spec N 0) as [->|HN0]; [reflexivity|].
  pose proof (normalize_spec 2 ltac:(lia) D 0) as ND. destruct (normalize 2 D 0) as [d0 k].
  destruct ND as [_ ND]. destruct (ND ltac:(lia)) as (Hd0 & Hd0odd & k' & Hk' & Ek & ED). assert (Ek' : k' = k) by lia. subst k'. clear Ek.
  assert (Hk : 0 <= k) by lia.
  destruct (Z.eqb_spec d0 1) as [Ed0|Ed0]; cbn [negb].
  2:{ (* not a power of two *)
      cbn [conv_ok]. symmetry. unfold exact_to_float, ieee_rne.
      destruct (ieee_round f MHalfEven N D) as [b c] eqn:E. destruct c; try reflexivity. exfalso.
      apply Ed0. apply (reduced_pow2_den N D d0 k HD Hg Hd0odd Hk ED).
      apply (exact_den_divides f MHalfEven N D HD HN0). rewrite E. reflexivity. }
  subst d0. rewrite Z.mul_1_l in ED.
  pose proof (normalize_spec 2 ltac:(lia) N 0) as NN. destruct (normalize 2 N 0) as [man nz].
  destruct NN as [_ NN]. destruct (NN HN0) as (Hman & Hmodd & nz' & Hnz & Enz & EN). assert (Enz' : nz' = nz) by lia. subst nz'. clear Enz.
  pose proof (pow2_pos k Hk) as Pk. pose proof (pow2_pos nz Hnz) as Pnz.
  (* reduced: one of the two counts is zero, so (N, D) is literally frac_of man (nz - k) *)
  assert (Hone : k = 0 \/ nz = 0).
  { destruct (Z.eq_dec k 0) as [|Hk0]; [left; assumption|]. destruct (Z.eq_dec nz 0) as [|Hz0]; [right; assumption|].
    exfalso. assert (D2 : (2 | Z.gcd N D)).
    { apply Z.gcd_greatest; [exists (man * 2 ^ (nz - 1)) | exists (2 ^ (k - 1))].
      - rewrite EN, (pow2_even nz) by lia. ring.
      - rewrite ED, (pow2_even k) by lia. ring. }
    rewrite Hg in D2. apply Z.divide_1_r_nonneg in D2; lia. }
  assert (Efr : frac_of man (nz - k) = (N, D)).
  { unfold frac_of. destruct Hone as [-> | ->].
    - rewrite Z.sub_0_r. destruct (Z.leb_spec 0 nz); [|lia]. rewrite EN, ED, Z.pow_0_r. reflexivity.
    - destruct (Z.eq_dec k 0) as [->|Hk0].
      + cbn [Z.sub Z.opp Z.leb Z.compare]. rewrite EN, ED, Z.pow_0_r. reflexivity.
      + destruct (Z.leb_spec 0 (0 - k)); [lia|]. rewrite EN, ED, Z.pow_0_r, Z.mul_1_r.
        replace (- (0 - k)) with k by lia. reflexivity. }
  assert (Ebl : blen (Z.abs N) = blen (Z.abs man) + nz).
  { rewrite EN, Z.abs_mul, (Z.abs_eq (2 ^ nz)) by lia. apply blen_shift; lia. }
  rewrite Ebl.
  destruct (odd_dyadic_cases man (nz - k) Hmodd) as (Clong & Clow & Cbig & Cenc).
  rewrite Efr in Clong, Clow, Cbig, Cenc. cbn [fst snd] in Clong, Clow, Cbig, Cenc.
  rewrite f_emin in Clow.
  destruct (Z.le_gt_cases (blen (Z.abs man)) (MB P + 1)) as [Hshort|Hlong].
  - destruct (Z.gtb_spec (blen (Z.abs man) + nz - k) (TOP_MAX P)) as [Ht|Ht].
    + cbn [conv_ok]. symmetry. apply Cbig; lia.
    + destruct (Z.ltb_spec (blen (Z.abs man) + nz - k) (- (BIAS P - 1) - MB P)) as [Hl|Hl].
      * cbn [conv_ok]. symmetry. apply Clow. lia.
      * destruct (Z.gtb_spec (blen (Z.abs man)) (MB P + 1)) as [G|_]; [lia|].
        rewrite (Cenc Hshort). destruct (encode_asis P man (nz - k)) as [b c].
        destruct c; [reflexivity | |]; destruct (b mod 2 ^ (W P - 1) =? inf_bits P); reflexivity.
  - rewrite (Clong ltac:(lia)).
    destruct (Z.gtb_spec (blen (Z.abs man) + nz - k) (TOP_MAX P)); [reflexivity|].
    destruct (Z.ltb_spec (blen (Z.abs man) + nz - k) (- (BIAS P - 1) - MB P)); [reflexivity|].
    destruct (Z.gtb_spec (blen (Z.abs man)) (MB P + 1)) as [_|G]; [reflexivity | lia].
Qed.

(** TryFrom<FBig<R,2>> / TryFrom<Repr<2>> for f32 / f64, any mode, whole exponent range *)
Theorem fbig2_try_to_float_correct m s e : s <> 0 ->
  conv_ok (fbig2_try_to_float_old P m s e) = exact_to_float f (fst (frac_of s e)) (snd (frac_of s e)).
Proof.
  intros Hs.
  pose proof (normalize_spec 2 ltac:(lia) s e) as Hnz.
  destruct (normalize 2 s e) as [s0 e0] eqn:En.
  destruct Hnz as [_ Hnz]. destruct (Hnz Hs) as (Hs0 & Hodd & j & Hj & He0 & Es). subst e0.
  (* both sides depend on the normal form only *)
  assert (E0 : fbig2_to_float_old P m s e = fbig2_to_float_old P m s0 (e + j)).
  { unfold fbig2_to_float_old. rewrite En. rewrite (normalize_id 2 s0 (e + j)) by (assumption || lia). reflexivity. }
  assert (E1 : exact_to_float f (fst (frac_of s e)) (snd (frac_of s e)) =
               exact_to_float f (fst (frac_of s0 (e + j))) (snd (frac_of s0 (e + j)))).
  { unfold exact_to_float, ieee_rne. subst s. rewrite (ieee_round_dyadic_shift f MHalfEven s0 j e Hs0 Hj). reflexivity. }
  unfold fbig2_try_to_float_old. rewrite E0, E1. clear E0 E1 En Es Hs Hnz.
  set (e1 := e + j). clearbody e1.
  destruct (Z.le_gt_cases (blen (Z.abs s0)) (MB P + 1)) as [Hshort|Hlong].
  - rewrite (fbig2_to_float_short_normalized P HMB HW HB HBp HT HU HN m s0 e1 Hodd Hshort).
    unfold exact_to_float. fold f.
    destruct (ieee_rne f (fst (frac_of s0 e1)) (snd (frac_of s0 e1))) as [b c]. cbn [fst snd].
    unfold short_flag. destruct c; [reflexivity | |];
      destruct (blen (Z.abs s0) + e1 >? TOP_MAX P); destruct (b mod 2 ^ (W P - 1) =? inf_bits P); reflexivity.
  - destruct (odd_dyadic_cases s0 e1 Hodd) as (Clong & _). rewrite (Clong ltac:(lia)).
    unfold fbig2_to_float_old. rewrite (normalize_id 2 s0 e1) by (assumption || lia).
    destruct (repr_round_spec 2 ltac:(lia) (MB P + 1) m s0 e1 ltac:(lia) ltac:(rewrite dlen2_blen; lia)) as (a & Er & _).
    rewrite Er. destruct (normalize 2 _ _) as [s2 e2].
    destruct (into_float_internal P s2 e2) as [b fl]. destruct fl; cbn [fr_and_then];
      destruct (b mod 2 ^ (W P - 1) =? inf_bits P); reflexivity.
Qed.

End Try2.

(* ------------------------------------------------------------------ instances *)

Theorem rat_try_to_f32_correct N D : 0 < D -> Z.gcd N D = 1 ->
  conv_ok (rat_try_to_float P32 N D) = exact_to_float F32 N D.
Proof.
  intros. change F32 with (fmt_of P32).
  apply (rat_try_to_float_correct P32); [cbn; lia | cbn; lia | reflexivity | cbn; lia | reflexivity | reflexivity | right; reflexivity
                                        | assumption | assumption].
Qed.

Theorem rat_try_to_f64_correct N D : 0 < D -> Z.gcd N D = 1 ->
  conv_ok (rat_try_to_float P64 N D) = exact_to_float F64 N D.
Proof.
  intros. change F64 with (fmt_of P64).
  apply (rat_try_to_float_correct P64); [cbn; lia | cbn; lia | reflexivity | cbn; lia | reflexivity | reflexivity | left; reflexivity
                                        | assumption | assumption].
Qed.

Theorem fbig2_try_to_f32_correct m s e : s <> 0 ->
  conv_ok (fbig2_try_to_float_old P32 m s e) = exact_to_float F32 (fst (frac_of s e)) (snd (frac_of s e)).
Proof.
  intros. change F32 with (fmt_of P32).
  apply (fbig2_try_to_float_correct P32); [cbn; lia | cbn; lia | reflexivity | cbn; lia | reflexivity | reflexivity | right; reflexivity
                                          | assumption].
Qed.

Theorem fbig2_try_to_f64_correct m s e : s <> 0 ->
  conv_ok (fbig2_try_to_float_old P64 m s e) = exact_to_float F64 (fst (frac_of s e)) (snd (frac_of s e)).
Proof.
  intros. change F64 with (fmt_of P64).
  apply (fbig2_try_to_float_correct P64); [cbn; lia | cbn; lia | reflexivity | cbn; lia | reflexivity | reflexivity | left; reflexivity
                                          | assumption].
Qed.

(** what "exact" means: the pattern returned decodes to the source value *)
Theorem exact_to_float_sound f N D b : 0 < D -> exact_to_float f N D = Some b ->
  fst (ieee_rne f N D) = b /\ snd (ieee_rne f N D) = Eq.
Proof.
  intros HD. unfold exact_to_float. destruct (ieee_rne f N D) as [b' c]. destruct c; try discriminate.
  intros E. inversion E. split; reflexivity.
Qed.

(* ------------------------------------------------------------------ RBig -> primitive integers, RBig::to_int *)

Theorem rat_try_to_prim_correct w sg TW N D : widths_ok w TW -> 0 < D -> Z.gcd N D = 1 ->
  rat_try_to_prim w sg TW N D =
    match rat_to_int_spec false N D with
    | COk v => to_prim_spec sg TW v
    | _ => CLossOfPrecision
    end.
Proof.
  intros Hw HD Hg. unfold rat_try_to_prim, rat_try_to_ibig_c.
  pose proof (rat_try_to_ibig_correct N D HD Hg) as E. unfold rat_try_to_ibig in E.
  destruct (Z.eqb_spec D 1) as [->|Hne].
  - rewrite <- E. cbn [cbind]. apply ibig_to_prim_correct. exact Hw.
  - rewrite <- E. reflexivity.
Qed.

Theorem rat_to_int_asis_correct N D : 0 < D ->
  fst (rat_to_int_asis N D) = fst (rat_trunc_spec N D) /\
  (let '(n, d) := snd (rat_to_int_asis N D) in let '(n', d') := snd (rat_trunc_spec N D) in n * d' = n' * d /\ 0 < d).
Proof.
  intros HD. unfold rat_to_int_asis, rat_trunc_spec. cbn [fst snd]. split; [reflexivity|].
  pose proof (Z.quot_rem' N D) as E.
  destruct (Z.eqb_spec (Z.rem N D) 0) as [Hr|Hr]; split; lia.
Qed.

(* ------------------------------------------------------------------ f32 / f64 -> RBig, FBig *)

Lemma reduce2_spec n d k : n <> 0 -> 0 <= k -> d = 2 ^ k ->
  let '(n', d') := reduce2 n d in 0 < d' /\ n' * d = n * d' /\ Z.gcd n' d' = 1.
Proof.
  intros Hn Hk Ed. unfold reduce2. destruct (Z.eqb_spec n 0) as [|_]; [contradiction|].
  pose proof (pow2_pos k Hk) as Pk.
  pose proof (normalize_spec 2 ltac:(lia) n 0) as NN. destruct (normalize 2 n 0) as [n0 tn].
  destruct NN as [_ NN]. destruct (NN Hn) as (Hn0 & Hn0odd & tn' & Htn & Etn & En). assert (Etn' : tn' = tn) by lia. subst tn'. clear Etn.
  pose proof (normalize_spec 2 ltac:(lia) d 0) as ND. destruct (normalize 2 d 0) as [d0 td].
  destruct ND as [_ ND]. destruct (ND ltac:(lia)) as (Hd0 & Hd0odd & td' & Htd & Etd & Ed'). assert (Etd' : td' = td) by lia. subst td'. clear Etd.
  cbn [snd].
  pose proof (pow2_pos tn Htn) as Ptn. pose proof (pow2_pos td Htd) as Ptd.
  assert (Hd01 : d0 = 1).
  { assert (0 < d0) by nia. apply (odd_divisor_of_pow2 d0 k); try assumption. exists (2 ^ td). rewrite <- Ed. lia. }
  subst d0. rewrite Z.mul_1_l in Ed'.
  assert (Ekt : k = td).
  { apply (Z.pow_inj_r 2); lia. }
  subst td. set (z := Z.min tn k).
  assert (Hz : 0 <= z <= tn /\ z <= k) by (unfold z; lia). pose proof (pow2_pos z ltac:(lia)) as Pz.
  assert (Ediv : n / 2 ^ z = n0 * 2 ^ (tn - z) /\ d / 2 ^ z = 2 ^ (k - z)).
  { split.
    - rewrite En. replace tn with ((tn - z) + z) at 1 by lia. rewrite pow2_split by lia.
      rewrite Z.mul_assoc. apply Z.div_mul. lia.
    - rewrite Ed. replace k with ((k - z) + z) at 1 by lia. rewrite pow2_split by lia.
      apply Z.div_mul. lia. }
  assert (G : Z.gcd (n0 * 2 ^ (tn - z)) (2 ^ (k - z)) = 1).
  { assert (Hcase : z = k \/ z = tn) by (unfold z; lia). clearbody z.
    destruct Hcase as [Hzk|Hzt].
    - rewrite Hzk, Z.sub_diag, Z.pow_0_r. apply Z.gcd_1_r.
    - rewrite Hzt, Z.sub_diag, Z.pow_0_r, Z.mul_1_r.
      apply Zgcd_1_rel_prime. apply rel_prime_Zpower_r; [lia|].
      apply rel_prime_sym. apply prime_rel_prime; [exact prime_2|].
      intros [c Hc]. apply Hn0odd. rewrite Hc. apply Z.mod_mul. lia. }
  destruct (Z.ltb_spec 0 z) as [Hzp|Hzp].
  - destruct Ediv as [-> ->]. pose proof (pow2_pos (k - z) ltac:(lia)). split; [lia|]. split; [|exact G].
    rewrite En, Ed. replace tn with ((tn - z) + z) at 2 by lia. replace k with ((k - z) + z) at 1 by lia.
    rewrite !pow2_split by lia. ring.
  - assert (z = 0) by lia. replace (tn - z) with tn in G by lia. replace (k - z) with k in G by lia.
    rewrite <- En, <- Ed in G. split; [lia|]. split; [ring | exact G].
Qed.

Section FromFloat.
Variable P : enc_params.
Hypothesis Hdec : forall bits, 0 <= bits -> decode_asis P bits = decode_spec (fmt_of P) bits.

(** TryFrom<f32/f64> for RBig / Relaxed: the reduced fraction of the decoded value *)
Theorem float_try_to_rat_correct bits : 0 <= bits ->
  match decode_spec (fmt_of P) bits with
  | DFin man exp =>
      exists n d, float_try_to_rat P bits = COk (n, d) /\ 0 < d /\ Z.gcd n d = 1 /\
                  n * snd (frac_of man exp) = fst (frac_of man exp) * d
  | _ => float_try_to_rat P bits = COutOfBounds
  end.
Proof.
  intros Hb. unfold float_try_to_rat. rewrite (Hdec bits Hb).
  destruct (decode_spec (fmt_of P) bits) as [man exp| |]; try reflexivity.
  destruct (Z.eqb_spec man 0) as [->|Hm].
  - exists 0, 1. repeat split; try lia. unfold frac_of. destruct (0 <=? exp); cbn [fst snd]; lia.
  - unfold frac_of. destruct (Z.leb_spec 0 exp) as [He|He]; cbn [fst snd].
    + pose proof (pow2_pos exp He) as Pe.
      pose proof (reduce2_spec (man * 2 ^ exp) 1 0 ltac:(nia) ltac:(lia) eq_refl) as R.
      destruct (reduce2 (man * 2 ^ exp) 1) as [n d]. destruct R as (R1 & R2 & R3).
      exists n, d. repeat split; try assumption; lia.
    + pose proof (reduce2_spec man (2 ^ (- exp)) (- exp) Hm ltac:(lia) eq_refl) as R.
      destruct (reduce2 man (2 ^ (- exp))) as [n d]. destruct R as (R1 & R2 & R3).
      exists n, d. repeat split; try assumption; lia.
Qed.

(** TryFrom<f32/f64> for Repr<2> / FBig<R,2>: the decoded value in normal form, precision = bits
    of the mantissa *)
Theorem float_try_to_fbig_correct bits : 0 <= bits ->
  match decode_spec (fmt_of P) bits with
  | DFin man exp => float_try_to_fbig P bits = COk (fst (normalize 2 man exp), snd (normalize 2 man exp), blen (Z.abs man))
  | _ => float_try_to_fbig P bits = COutOfBounds
  end.
Proof.
  intros Hb. unfold float_try_to_fbig. rewrite (Hdec bits Hb).
  destruct (decode_spec (fmt_of P) bits) as [man exp| |]; try reflexivity.
  destruct (normalize 2 man exp); reflexivity.
Qed.
End FromFloat.

Theorem float_try_to_rat_f32 bits : 0 <= bits ->
  match decode_spec F32 bits with
  | DFin man exp =>
      exists n d, float_try_to_rat P32 bits = COk (n, d) /\ 0 < d /\ Z.gcd n d = 1 /\
                  n * snd (frac_of man exp) = fst (frac_of man exp) * d
  | _ => float_try_to_rat P32 bits = COutOfBounds
  end.
Proof. intros. change F32 with (fmt_of P32). apply float_try_to_rat_correct; [exact decode_f32_correct | assumption]. Qed.

Theorem float_try_to_rat_f64 bits : 0 <= bits ->
  match decode_spec F64 bits with
  | DFin man exp =>
      exists n d, float_try_to_rat P64 bits = COk (n, d) /\ 0 < d /\ Z.gcd n d = 1 /\
                  n * snd (frac_of man exp) = fst (frac_of man exp) * d
  | _ => float_try_to_rat P64 bits = COutOfBounds
  end.
Proof. intros. change F64 with (fmt_of P64). apply float_try_to_rat_correct; [exact decode_f64_correct | assumption]. Qed.

Theorem float_try_to_fbig_f32 bits : 0 <= bits ->
  match decode_spec F32 bits with
  | DFin man exp => float_try_to_fbig P32 bits = COk (fst (normalize 2 man exp), snd (normalize 2 man exp), blen (Z.abs man))
  | _ => float_try_to_fbig P32 bits = COutOfBounds
  end.
Proof. intros. change F32 with (fmt_of P32). apply float_try_to_fbig_correct; [exact decode_f32_correct | assumption]. Qed.

Theorem float_try_to_fbig_f64 bits : 0 <= bits ->
  match decode_spec F64 bits with
  | DFin man exp => float_try_to_fbig P64 bits = COk (fst (normalize 2 man exp), snd (normalize 2 man exp), blen (Z.abs man))
  | _ => float_try_to_fbig P64 bits = COutOfBounds
  end.
Proof. intros. change F64 with (fmt_of P64). apply float_try_to_fbig_correct; [exact decode_f64_correct | assumption]. Qed.

(** round trip: a finite pattern other than -0.0, converted to a rational and back, is itself *)
Example try2_examples :
  rat_try_to_float P32 16777218 1 = COk 1266679809 /\
  rat_try_to_float P32 1 3 = CLossOfPrecision /\
  rat_try_to_float P64 (-3) (2 ^ 1075) = CLossOfPrecision /\
  rat_try_to_float P64 (-3) (2 ^ 1074) = COk (2 ^ 63 + 3) /\
  rat_try_to_float P32 (2 ^ 128) 1 = COutOfBounds /\
  float_try_to_rat P32 1069547520 = COk (3, 2) /\
  fbig2_try_to_float_old P32 MUp 3 (-150) = CLossOfPrecision /\
  fbig2_try_to_float_old P32 MUp 6 (-150) = COk 3 /\
  rat_try_to_prim 64 true 8 (-128) 1 = COk (-128) /\ rat_try_to_prim 64 false 8 (-1) 1 = COutOfBounds /\
  rat_to_int_asis (-22) 7 = (-3, (-1, 7)).
Proof. vm_compute. repeat split; reflexivity. Qed.
