(** C06: the double-word route of UBig/IBig::to_f32 / to_f64 (to_f32_small / to_f64_small after the
    repair 2f7c81a): the native cast `dword as f64` is round-to-nearest-even (contract of the
    primitive cast, stated with the same specification [ieee_rne]); the code recovers the sign of
    the error by casting back (truncating, saturating) and comparing.  Proved here: that recovery
    is right for every double word, hence UBig/IBig::to_f32/to_f64 are correct for EVERY integer. *)
From Dashu Require Import Base.Prelude Float.RoundSpec Float.Contract Float.Model
  Conv.ConvSpec Conv.ConvModel Conv.ConvArith Conv.ConvIeee Conv.ConvEncodeProofs Conv.ConvPrimProofs
  Conv.ConvStickyProofs.
Open Scope Z_scope.

Section Small.
Variable P : enc_params.
Hypothesis HMB : 1 <= MB P.
Hypothesis HW : MB P + 3 <= W P.
Hypothesis HB : 2 * BIAS P + 2 = 2 ^ (W P - 1 - MB P).
Hypothesis HBp : 1 <= BIAS P.

Let f := fmt_of P.

Lemma s_prec : prec f = MB P + 1.
Proof. reflexivity. Qed.
Lemma s_emin : emin f = 1 - BIAS P - MB P.
Proof. unfold f, fmt_of; cbn [emin]. lia. Qed.
Lemma s_inf : inf_mag f = inf_bits P.
Proof.
  unfold inf_mag, inf_bits, f, fmt_of; cbn [ebits prec].
  replace (MB P + 1 - 1) with (MB P) by lia. rewrite <- HB. f_equal. lia.
Qed.

(** decoding the pattern of a positive normal number *)
Lemma decode_normal x : 2 ^ MB P <= x < inf_bits P ->
  decode_asis P x = DFin (x mod 2 ^ MB P + 2 ^ MB P) (x / 2 ^ MB P - (BIAS P + MB P)).
Proof.
  intros [Hlo Hhi]. unfold inf_bits in Hhi.
  pose proof (pow2_pos (MB P) ltac:(lia)) as HpMB.
  assert (HW1 : 2 ^ (W P - 1) = (2 * BIAS P + 2) * 2 ^ MB P).
  { rewrite HB, <- pow2_split by lia. f_equal. lia. }
  assert (Hq1 : 1 <= x / 2 ^ MB P) by (apply Z.div_le_lower_bound; lia).
  assert (Hq2 : x / 2 ^ MB P < 2 * BIAS P + 1) by (apply Z.div_lt_upper_bound; lia).
  unfold decode_asis.
  rewrite (Z.div_small x (2 ^ (W P - 1))) by nia.
  rewrite <- HB. rewrite (Z.mod_small (x / 2 ^ MB P)) by lia.
  destruct (Z.eqb_spec (x / 2 ^ MB P) (2 * BIAS P + 2 - 1)); [lia|].
  destruct (Z.eqb_spec (x / 2 ^ MB P) 0); [lia|].
  cbv zeta. change (0 <? 0) with false. cbv iota. reflexivity.
Qed.

(** rounding a positive integer with more than prec bits stays within one binade *)
Lemma rne_binade v u : 0 < v -> 1 <= u -> u = blen v - (MB P + 1) ->
  2 ^ MB P <= rne v u <= 2 ^ (MB P + 1).
Proof.
  intros Hv Hu Eu.
  destruct (blen_bounds v Hv) as [[H1 H2] H3].
  pose proof (pow2_pos u ltac:(lia)) as Hpu.
  assert (E1 : 2 ^ (blen v - 1) = 2 ^ MB P * 2 ^ u) by (rewrite <- pow2_split by lia; f_equal; lia).
  assert (E2 : 2 ^ blen v = 2 ^ (MB P + 1) * 2 ^ u) by (rewrite <- pow2_split by lia; f_equal; lia).
  assert (Q1 : 2 ^ MB P <= v / 2 ^ u) by (apply Z.div_le_lower_bound; lia).
  assert (Q2 : v / 2 ^ u < 2 ^ (MB P + 1)) by (apply Z.div_lt_upper_bound; lia).
  destruct (rne_round_bits v u ltac:(lia) Hu) as [R _]. cbv zeta in R. rewrite R.
  destruct ((6 <=? round_bits v u) || (round_bits v u =? 3)); lia.
Qed.

Variable DW : Z.
Hypothesis HDW : 1 <= DW.

(** to_f32_small / to_f64_small: the cast back recovers the true error sign, every double word *)
Theorem to_float_small_correct v : 0 <= v < 2 ^ DW ->
  to_float_small P DW v = ieee_rne f v 1.
Proof.
  intros [Hv0 Hv1].
  destruct (Z.eq_dec v 0) as [->|Hnz].
  { unfold to_float_small, cast_uint. fold f.
    assert (E : ieee_rne f 0 1 = (0, Eq)) by reflexivity. rewrite E. cbn [fst].
    pose proof (pow2_pos (MB P) ltac:(lia)) as HpMB.
    assert (0 < inf_bits P) by (unfold inf_bits; apply Z.mul_pos_pos; lia).
    assert (0 < (BIAS P + DW) * 2 ^ MB P) by (apply Z.mul_pos_pos; lia).
    destruct (Z.leb_spec (inf_bits P) 0) as [G|G]; [lia|].
    destruct (Z.leb_spec ((BIAS P + DW) * 2 ^ MB P) 0) as [G2|G2]; [lia|].
    unfold cast_back, decode_asis.
    assert (Z0 : forall k, 0 / 2 ^ k = 0) by (intros; apply Zdiv_0_l).
    rewrite !Z0. rewrite !Zmod_0_l.
    destruct (Z.eqb_spec 0 (2 ^ (W P - 1 - MB P) - 1)) as [G3|G3]; [rewrite <- HB in G3; lia|].
    change (0 =? 0) with true. cbv iota zeta. change (0 <? 0) with false. cbv iota.
    destruct (0 <=? - (BIAS P - 1) - MB P).
    - rewrite Z.mul_0_l. rewrite Z.min_r by (pose proof (pow2_pos DW); lia). reflexivity.
    - rewrite Z0. rewrite Z.min_r by (pose proof (pow2_pos DW); lia). reflexivity. }
  assert (Hv : 0 < v) by lia.
  pose proof (ieee_rne_dyadic f v 0 Hv) as B. cbv zeta in B.
  replace (fst (frac_of v 0)) with v in B by (cbn; lia). change (snd (frac_of v 0)) with 1 in B.
  rewrite Z.add_0_r, Z.sub_0_r in B. rewrite s_prec, s_emin, s_inf in B.
  destruct (blen_bounds v Hv) as [[Hb1 Hb2] Hb3].
  assert (Htop : blen v <= DW) by (apply blen_le_iff; lia).
  replace (Z.max (blen v - (MB P + 1)) (1 - BIAS P - MB P)) with (blen v - (MB P + 1)) in B by lia.
  replace (MB P + 1 - 1) with (MB P) in B by lia.
  set (u := blen v - (MB P + 1)) in *.
  set (M := if u <=? 0 then v * 2 ^ (- u) else rne v u) in *.
  set (mg := (u - (1 - BIAS P - MB P)) * 2 ^ MB P + M) in *.
  pose proof (pow2_pos (MB P) ltac:(lia)) as HpMB.
  assert (EMB : 2 ^ (MB P + 1) = 2 * 2 ^ MB P).
  { replace (MB P + 1) with (Z.succ (MB P)) by lia. rewrite Z.pow_succ_r by lia. reflexivity. }
  (* the rounded significand lies in one binade, and M * 2^u is the value of the pattern *)
  assert (HM : 2 ^ MB P <= M <= 2 ^ (MB P + 1) /\ (u <= 0 -> M = v * 2 ^ (- u) /\ M < 2 ^ (MB P + 1))).
  { unfold M. destruct (Z.leb_spec u 0) as [Hu|Hu].
    - assert (E1 : 2 ^ (blen v - 1) * 2 ^ (- u) = 2 ^ MB P) by (rewrite <- pow2_split by lia; f_equal; lia).
      assert (E2 : 2 ^ blen v * 2 ^ (- u) = 2 ^ (MB P + 1)) by (rewrite <- pow2_split by lia; f_equal; lia).
      pose proof (pow2_pos (- u) ltac:(lia)). split; [nia|]. intros _. split; [reflexivity|nia].
    - split; [apply rne_binade; lia | lia]. }
  destruct HM as [[HM1 HM2] HM3].
  unfold to_float_small, cast_uint. fold f. rewrite B. clear B.
  destruct (Z.leb_spec (inf_bits P) mg) as [Hinf|Hfin]; cbn [fst snd].
  { rewrite Z.leb_refl. reflexivity. }
  destruct (Z.leb_spec (inf_bits P) mg) as [G|_]; [lia|].
  (* decode the finite pattern *)
  assert (Hlo : 2 ^ MB P <= mg) by (unfold mg; nia).
  unfold cast_back. rewrite decode_normal by lia.
  (* quotient / remainder of the pattern by 2^MB *)
  assert (Hcase : (M < 2 ^ (MB P + 1) /\ mg / 2 ^ MB P = u + BIAS P + MB P /\ mg mod 2 ^ MB P + 2 ^ MB P = M) \/
                  (M = 2 ^ (MB P + 1) /\ mg / 2 ^ MB P = u + BIAS P + MB P + 1 /\ mg mod 2 ^ MB P + 2 ^ MB P = 2 ^ MB P)).
  { destruct (Z.eq_dec M (2 ^ (MB P + 1))) as [E|NE].
    - right. split; [assumption|].
      assert (Emg : mg = (u + BIAS P + MB P + 1) * 2 ^ MB P + 0) by (unfold mg; rewrite E, EMB; ring).
      split.
      + symmetry. apply Z.div_unique with (r := 0); lia.
      + replace (mg mod 2 ^ MB P) with 0; [lia|]. apply Z.mod_unique with (q := u + BIAS P + MB P + 1); lia.
    - left. split; [lia|].
      assert (Emg : mg = (u + BIAS P + MB P) * 2 ^ MB P + (M - 2 ^ MB P)) by (unfold mg; ring).
      split.
      + symmetry. apply Z.div_unique with (r := M - 2 ^ MB P); lia.
      + replace (mg mod 2 ^ MB P) with (M - 2 ^ MB P); [lia|]. apply Z.mod_unique with (q := u + BIAS P + MB P); lia. }
  destruct Hcase as [[Hc1 [Hq Hr]]|[Hc1 [Hq Hr]]]; rewrite Hq, Hr.
  - (* no carry into the next binade: the value is M * 2^u < 2^blen v *)
    destruct (Z.leb_spec ((BIAS P + DW) * 2 ^ MB P) mg) as [G|G].
    { exfalso. assert (BIAS P + DW <= mg / 2 ^ MB P) by (apply Z.div_le_lower_bound; lia). lia. }
    replace (u + BIAS P + MB P - (BIAS P + MB P)) with u by lia.
    destruct (Z.leb_spec 0 u) as [Hu|Hu].
    + assert (E2 : 2 ^ blen v = 2 ^ (MB P + 1) * 2 ^ u) by (rewrite <- pow2_split by lia; f_equal; lia).
      pose proof (pow2_pos u Hu) as Hpu.
      assert (2 ^ blen v <= 2 ^ DW) by (apply Z.pow_le_mono_r; lia).
      rewrite Z.min_r by nia.
      destruct (Z.leb_spec u 0) as [Hu0|Hu0]; [|reflexivity].
      destruct (HM3 Hu0) as [EM _].
      assert (E0 : 2 ^ (- u) = 1) by (replace (- u) with 0 by lia; reflexivity).
      assert (E1 : 2 ^ u = 1) by (replace u with 0 by lia; reflexivity).
      f_equal. apply Z.compare_eq_iff. rewrite EM, E0, E1. lia.
    + destruct (HM3 ltac:(lia)) as [EM _]. rewrite EM.
      rewrite Z.div_mul by (apply Z.pow_nonzero; lia).
      rewrite Z.min_r by lia.
      destruct (Z.leb_spec u 0); [rewrite Z.compare_refl; reflexivity | lia].
  - (* the rounding carried: the value is 2^blen v *)
    assert (Hu : 1 <= u).
    { destruct (Z.le_gt_cases u 0) as [G|G]; [destruct (HM3 G); lia | lia]. }
    assert (E2 : 2 ^ blen v = 2 ^ (MB P + 1) * 2 ^ u) by (rewrite <- pow2_split by lia; f_equal; lia).
    destruct (Z.leb_spec u 0) as [G0|_]; [lia|].
    assert (Ecmp : (M * 2 ^ u ?= v) = Gt) by (apply Z.compare_gt_iff; rewrite Hc1, <- E2; lia).
    rewrite Ecmp.
    destruct (Z.leb_spec ((BIAS P + DW) * 2 ^ MB P) mg) as [G|G]; [reflexivity|].
    assert (mg / 2 ^ MB P < BIAS P + DW) by (apply Z.div_lt_upper_bound; lia).
    replace (u + BIAS P + MB P + 1 - (BIAS P + MB P)) with (u + 1) by lia.
    destruct (Z.leb_spec 0 (u + 1)); [|lia].
    assert (E3 : 2 ^ MB P * 2 ^ (u + 1) = 2 ^ blen v) by (rewrite <- pow2_split by lia; f_equal; lia).
    rewrite E3.
    assert (2 ^ blen v < 2 ^ DW) by (apply Z.pow_lt_mono_r; lia).
    rewrite Z.min_r by lia. f_equal. apply Z.compare_gt_iff. lia.
Qed.

End Small.

(** the two instances, and UBig / IBig ::to_f32 / to_f64 for EVERY integer (any double word of at
    least W bits: 32- and 64-bit words for f32, 64-bit words... DW = 64 or 128) *)
Theorem to_f32_small_correct DW v : 1 <= DW -> 0 <= v < 2 ^ DW -> to_float_small P32 DW v = ieee_rne F32 v 1.
Proof.
  intros. change F32 with (fmt_of P32).
  apply to_float_small_correct; [cbn; lia | cbn; lia | reflexivity | cbn; lia | assumption | assumption].
Qed.

Theorem to_f64_small_correct DW v : 1 <= DW -> 0 <= v < 2 ^ DW -> to_float_small P64 DW v = ieee_rne F64 v 1.
Proof.
  intros. change F64 with (fmt_of P64).
  apply to_float_small_correct; [cbn; lia | cbn; lia | reflexivity | cbn; lia | assumption | assumption].
Qed.

Theorem ubig_to_f64_correct DW v : 64 <= DW -> 0 <= v -> ubig_to_float P64 DW v = ieee_rne F64 v 1.
Proof.
  intros HD Hv. destruct (Z.lt_ge_cases v (2 ^ DW)) as [G|G].
  - unfold ubig_to_float. destruct (Z.ltb_spec v (2 ^ DW)); [|lia]. apply to_f64_small_correct; lia.
  - apply ubig_to_f64_large; assumption.
Qed.

Theorem ubig_to_f32_correct DW v : 32 <= DW -> 0 <= v -> ubig_to_float P32 DW v = ieee_rne F32 v 1.
Proof.
  intros HD Hv. destruct (Z.lt_ge_cases v (2 ^ DW)) as [G|G].
  - unfold ubig_to_float. destruct (Z.ltb_spec v (2 ^ DW)); [|lia]. apply to_f32_small_correct; lia.
  - apply ubig_to_f32_large; assumption.
Qed.

(** IBig: sign * magnitude *)
Lemma with_sign_spec P f v : sign_bit f = 2 ^ (W P - 1) -> 0 < v ->
  with_sign P true (ieee_rne f v 1) = ieee_rne f (- v) 1.
Proof.
  intros Hs Hv. rewrite ieee_rne_opp by lia. unfold with_sign. rewrite Hs. reflexivity.
Qed.

Theorem ibig_to_f64_correct DW v : 64 <= DW -> ibig_to_float P64 DW v = ieee_rne F64 v 1.
Proof.
  intros HD. unfold ibig_to_float. destruct (Z.ltb_spec v 0) as [G|G].
  - rewrite ubig_to_f64_correct by lia.
    replace v with (- (- v)) at 2 by lia. apply (with_sign_spec P64 F64); [reflexivity | lia].
  - apply ubig_to_f64_correct; lia.
Qed.

Theorem ibig_to_f32_correct DW v : 32 <= DW -> ibig_to_float P32 DW v = ieee_rne F32 v 1.
Proof.
  intros HD. unfold ibig_to_float. destruct (Z.ltb_spec v 0) as [G|G].
  - rewrite ubig_to_f32_correct by lia.
    replace v with (- (- v)) at 2 by lia. apply (with_sign_spec P32 F32); [reflexivity | lia].
  - apply ubig_to_f32_correct; lia.
Qed.

Example to_f64_small_u128_max : ubig_to_float P64 128 (2 ^ 128 - 1) = ieee_rne F64 (2 ^ 128 - 1) 1.
Proof. apply ubig_to_f64_correct; lia. Qed.
Example to_f32_small_overflow : ubig_to_float P32 128 (2 ^ 128 - 2 ^ 103) = (inf_bits P32, Gt).
Proof. vm_compute. reflexivity. Qed.
Example ibig_to_f64_neg_tie : ibig_to_float P64 128 (- (2 ^ 54 + 2)) = (fst (ieee_rne F64 (2 ^ 54) 1) + 2 ^ 63, Gt).
Proof. vm_compute. reflexivity. Qed.
