(** C06 (third round): tie of the new as-is models to the sources.  tools/translate_c06_r3.py
    re-reads, on every run, the literals of Repr::to_f32_fast / to_f64_fast, the two invocations of
    impl_conversion_to_float! (with the shape of the macro body), the rounding precisions of
    FBig/Repr::to_f32 / to_f64 and MAX_BIT_LEN of TryFrom<UBig/IBig> for f32/f64 into
    coq/gen/ConvParams2.v.  The theorems below are stated over the GENERATED numbers: the models
    instantiated with them are the models the other theorems speak about, and TryFrom<RBig> for
    f32/f64 with the generated window is exact-or-refused.  A changed literal breaks a proof. *)
From Coq Require Import ZArith List.
Import ListNotations.
From Dashu Require Import Base.Prelude Float.RoundSpec Float.Contract Float.Model Conv.ConvSpec Conv.ConvModel Conv.ConvModel2 Conv.ConvTry2Proofs
  Conv.ConvFloat2Proofs.
From DashuGen Require Import ConvParams2.
Open Scope Z_scope.

Definition g (l : list Z) (i : nat) : Z := nth i l 0.

(** to_f32_fast / to_f64_fast with the generated widths and bounds = the model *)
Theorem fast_f32_gen_tie N D :
  rat_to_float_fast_gen P32 (g rat_fast_f32_gen 0) (g rat_fast_f32_gen 1) (g rat_fast_f32_gen 2)
    (g rat_fast_f32_gen 3 - g rat_fast_f32_gen 4) N D = rat_to_float_fast P32 N D.
Proof. rewrite <- rat_to_float_fast_gen_eq. reflexivity. Qed.

Theorem fast_f64_gen_tie N D :
  rat_to_float_fast_gen P64 (g rat_fast_f64_gen 0) (g rat_fast_f64_gen 1) (g rat_fast_f64_gen 2)
    (g rat_fast_f64_gen 3 - g rat_fast_f64_gen 4) N D = rat_to_float_fast P64 N D.
Proof. rewrite <- rat_to_float_fast_gen_eq. reflexivity. Qed.

(** TryFrom<RBig> for f32 / f64 with the generated window [lb, ub]: exact or refused *)
Theorem rat_try_f32_gen_correct N D : 0 < D -> Z.gcd N D = 1 ->
  conv_ok (rat_try_to_float_gen P32 (g rat_try_f32_gen 0) (g rat_try_f32_gen 1) 24 N D) = exact_to_float F32 N D.
Proof. exact (rat_try_to_f32_correct N D). Qed.

Theorem rat_try_f64_gen_correct N D : 0 < D -> Z.gcd N D = 1 ->
  conv_ok (rat_try_to_float_gen P64 (g rat_try_f64_gen 0) (g rat_try_f64_gen 1) 53 N D) = exact_to_float F64 N D.
Proof. exact (rat_try_to_f64_correct N D). Qed.

(** remaining literals: the tail of the fast lists (half test factor, parity mask, increment), the
    precision FBig/Repr::to_f32/to_f64 round to and the base they test, MAX_BIT_LEN *)
Theorem conv_params2_tie :
  skipn 5 rat_fast_f32_gen = [2; 1; 1] /\ skipn 5 rat_fast_f64_gen = [2; 1; 1] /\
  fbig_to_f32_ctx_gen = [MB P32 + 1; 2; MB P32 + 1; 2] /\ fbig_to_f64_ctx_gen = [MB P64 + 1; 2; MB P64 + 1; 2] /\
  int_try_float_gen = [1; 1] /\
  (forall v, int_try_to_float P32 v =
     let a := Z.abs v in let mx := (MB P32 + 1) + g int_try_float_gen 0 in
     if (blen a >? mx) || ((blen a =? mx) && negb (is_pow2 a)) then CLossOfPrecision
     else COk ((if v <? 0 then 2 ^ (W P32 - 1) else 0) + cast_uint P32 a)).
Proof. repeat split. Qed.
