(** C06: primitive integers <-> UBig / IBig: the as-is range checks of integer/src/convert.rs and
    primitive.rs accept exactly the range of the target type, return the value unchanged, and the
    round trip through the big integer gives the original back.  For every word size w >= 8 that
    is a multiple of 8 and every type width TW in {8,16,32,64,128} (any multiple of 8 really). *)
From Dashu Require Import Base.Prelude Float.RoundSpec Float.Contract Float.Model Conv.ConvSpec Conv.ConvModel.
Open Scope Z_scope.

Lemma blen_pos a : 0 < a -> 2 ^ (blen a - 1) <= a < 2 ^ blen a.
Proof.
  intros H. unfold blen. destruct (Z.leb_spec a 0); [lia|].
  replace (Z.log2 a + 1 - 1) with (Z.log2 a) by lia.
  replace (Z.log2 a + 1) with (Z.succ (Z.log2 a)) by lia.
  apply Z.log2_spec; lia.
Qed.

Lemma blen_nonneg a : 0 <= blen a.
Proof. unfold blen. destruct (Z.leb_spec a 0); [lia|]. pose proof (Z.log2_nonneg a). lia. Qed.

Lemma blen_le_iff a k : 0 <= a -> 0 <= k -> (blen a <= k <-> a < 2 ^ k).
Proof.
  intros Ha Hk. destruct (Z.eq_dec a 0) as [->|Hn].
  - unfold blen; cbn. split; intros; [apply Z.pow_pos_nonneg; lia | lia].
  - pose proof (blen_pos a ltac:(lia)) as [H1 H2]. pose proof (blen_nonneg a) as Hbn. split; intros H.
    + eapply Z.lt_le_trans; [exact H2|]. apply Z.pow_le_mono_r; lia.
    + destruct (Z.le_gt_cases (blen a) k) as [|G]; [assumption|].
      assert (2 ^ k <= 2 ^ (blen a - 1)) by (apply Z.pow_le_mono_r; lia). lia.
Qed.

(** try_to_unsigned: the inline test and the word-count test both say  v < 2^TW *)
Lemma try_to_unsigned_spec w TW v :
  0 < w -> w mod 8 = 0 -> 0 < TW -> TW mod 8 = 0 -> (TW <= 2 * w \/ TW mod w = 0) -> 0 <= v ->
  try_to_unsigned w TW v = if v <? 2 ^ TW then COk v else COutOfBounds.
Proof.
  intros Hw Hw8 HT HT8 Hdiv Hv. unfold try_to_unsigned.
  destruct (Z.ltb_spec v (2 ^ (2 * w))) as [Hs|Hl]; [reflexivity|].
  assert (Ht : TW / 8 / (w / 8) = TW / w).
  { apply Z.div_exact in Hw8; [|lia]. assert (0 < w / 8) by lia.
    rewrite Z.div_div by lia. f_equal. lia. }
  rewrite Ht. unfold nwords.
  assert (Hb : 2 * w < blen v).
  { destruct (Z.le_gt_cases (blen v) (2 * w)) as [G|G]; [|lia].
    apply (blen_le_iff v (2 * w)) in G; lia. }
  destruct (Z.leb_spec (TW / w) 1) as [H1|H1]; cbn [orb].
  - (* the type has at most one word... or two: then 2^TW <= 2^(2w) <= v *)
    assert (TW <= 2 * w).
    { destruct Hdiv as [|Hd]; [assumption|]. apply Z.div_exact in Hd; [|lia]. nia. }
    destruct (Z.ltb_spec v (2 ^ TW)) as [G|G]; [|reflexivity].
    assert (2 ^ TW <= 2 ^ (2 * w)) by (apply Z.pow_le_mono_r; lia). lia.
  - assert (Hd : TW mod w = 0).
    { destruct Hdiv as [Hle|]; [|assumption].
      assert (TW / w <= 2) by (apply Z.div_le_upper_bound; lia).
      assert (TW / w = 2) by lia.
      pose proof (Z.div_mod TW w ltac:(lia)). pose proof (Z.mod_pos_bound TW w Hw). nia. }
    apply Z.div_exact in Hd; [|lia].
    set (k := TW / w) in *.
    destruct (Z.gtb_spec ((blen v + w - 1) / w) k) as [G|G]; cbn [orb].
    + (* more words than the type: blen v > TW *)
      destruct (Z.ltb_spec v (2 ^ TW)) as [G2|G2]; [|reflexivity].
      apply (blen_le_iff v TW) in G2; try lia.
      assert ((blen v + w - 1) / w < k + 1); [|lia].
      apply Z.div_lt_upper_bound; [lia|]. nia.
    + destruct (Z.ltb_spec v (2 ^ TW)) as [G2|G2]; [reflexivity|].
      exfalso. assert (~ blen v <= TW) as G3 by (rewrite blen_le_iff; lia).
      apply G3. pose proof (Z.mul_div_le (blen v + w - 1) w Hw).
      pose proof (Z.mod_pos_bound (blen v + w - 1) w Hw).
      pose proof (Z.div_mod (blen v + w - 1) w ltac:(lia)). nia.
Qed.

Lemma try_from_sign_magnitude_spec TW neg mag :
  0 < TW -> 0 <= mag < 2 ^ TW ->
  try_from_sign_magnitude TW neg mag =
    let v := if neg then - mag else mag in
    if prim_fits true TW v then COk v else COutOfBounds.
Proof.
  intros HT Hm. unfold try_from_sign_magnitude, prim_fits. cbv zeta.
  assert (H2 : 2 ^ TW = 2 * 2 ^ (TW - 1)).
  { replace TW with (Z.succ (TW - 1)) at 1 by lia. rewrite Z.pow_succ_r by lia. reflexivity. }
  assert (0 < 2 ^ (TW - 1)) by (apply Z.pow_pos_nonneg; lia).
  destruct neg; cbn [negb].
  - destruct (Z.eq_dec mag 0) as [->|Hn].
    + rewrite Z.sub_0_r, Z_mod_same_full.
      destruct (Z.ltb_spec 0 (2 ^ (TW - 1))); [|lia]. cbn.
      destruct (Z.leb_spec (- 2 ^ (TW - 1)) 0); [|lia]. cbn [andb]. destruct (Z.ltb_spec 0 (2 ^ (TW - 1))); [reflexivity|lia].
    + rewrite (Z.mod_small (2 ^ TW - mag)) by lia.
      destruct (Z.ltb_spec (2 ^ TW - mag) (2 ^ (TW - 1))) as [G|G].
      * (* wneg < half: positive as a signed value -> rejected; mag > half *)
        destruct (Z.leb_spec (2 ^ TW - mag) 0); [lia|].
        destruct (Z.leb_spec (- 2 ^ (TW - 1)) (- mag)); [lia|]. reflexivity.
      * destruct (Z.leb_spec (2 ^ TW - mag - 2 ^ TW) 0); [|lia].
        destruct (Z.leb_spec (- 2 ^ (TW - 1)) (- mag)); [|lia]. cbn [andb].
        destruct (Z.ltb_spec (- mag) (2 ^ (TW - 1))); [|lia]. f_equal. lia.
  - destruct (Z.ltb_spec mag (2 ^ (TW - 1))).
    + destruct (Z.leb_spec (- 2 ^ (TW - 1)) mag); [|lia]. reflexivity.
    + destruct (Z.leb_spec (- 2 ^ (TW - 1)) mag); cbn [andb]; reflexivity.
Qed.

Definition widths_ok (w TW : Z) : Prop :=
  0 < w /\ w mod 8 = 0 /\ 0 < TW /\ TW mod 8 = 0 /\ (TW <= 2 * w \/ TW mod w = 0).

(** TryFrom<UBig> / TryFrom<IBig> for every primitive type = the range test of the type *)
Theorem ubig_to_prim_correct w sg TW v :
  widths_ok w TW -> 0 <= v -> ubig_to_prim w sg TW v = to_prim_spec sg TW v.
Proof.
  intros (Hw & Hw8 & HT & HT8 & Hd) Hv. unfold ubig_to_prim, to_prim_spec.
  rewrite try_to_unsigned_spec by assumption.
  assert (H2 : 2 ^ TW = 2 * 2 ^ (TW - 1)).
  { replace TW with (Z.succ (TW - 1)) at 1 by lia. rewrite Z.pow_succ_r by lia. reflexivity. }
  assert (0 < 2 ^ (TW - 1)) by (apply Z.pow_pos_nonneg; lia).
  destruct sg.
  - destruct (Z.ltb_spec v (2 ^ TW)) as [G|G]; cbn [cbind].
    + rewrite try_from_sign_magnitude_spec by lia. reflexivity.
    + unfold prim_fits. destruct (Z.ltb_spec v (2 ^ (TW - 1))); [lia|]. rewrite andb_false_r. reflexivity.
  - unfold prim_fits. destruct (Z.leb_spec 0 v); [|lia]. reflexivity.
Qed.

Theorem ibig_to_prim_correct w sg TW v :
  widths_ok w TW -> ibig_to_prim w sg TW v = to_prim_spec sg TW v.
Proof.
  intros (Hw & Hw8 & HT & HT8 & Hd). unfold ibig_to_prim, to_prim_spec.
  assert (H2 : 2 ^ TW = 2 * 2 ^ (TW - 1)).
  { replace TW with (Z.succ (TW - 1)) at 1 by lia. rewrite Z.pow_succ_r by lia. reflexivity. }
  assert (0 < 2 ^ (TW - 1)) by (apply Z.pow_pos_nonneg; lia).
  destruct sg.
  - rewrite try_to_unsigned_spec by (try assumption; lia).
    destruct (Z.ltb_spec (Z.abs v) (2 ^ TW)) as [G|G]; cbn [cbind].
    + rewrite try_from_sign_magnitude_spec by lia. cbv zeta.
      destruct (Z.ltb_spec v 0); [replace (- Z.abs v) with v by lia | replace (Z.abs v) with v by lia]; reflexivity.
    + unfold prim_fits.
      destruct (Z.leb_spec (- 2 ^ (TW - 1)) v); cbn [andb]; [|reflexivity].
      destruct (Z.ltb_spec v (2 ^ (TW - 1))); [lia|reflexivity].
  - unfold prim_fits. destruct (Z.ltb_spec v 0).
    + destruct (Z.leb_spec 0 v); [lia|]. reflexivity.
    + rewrite try_to_unsigned_spec by assumption. destruct (Z.leb_spec 0 v); [|lia]. reflexivity.
Qed.

(** a successful conversion returns the source value, and only values of the type succeed *)
Theorem to_prim_spec_sound sg TW v r :
  to_prim_spec sg TW v = COk r -> r = v /\ prim_fits sg TW v = true.
Proof. unfold to_prim_spec. destruct (prim_fits sg TW v); intros H; inversion H; auto. Qed.

Theorem to_prim_spec_complete sg TW v :
  prim_fits sg TW v = true -> to_prim_spec sg TW v = COk v.
Proof. unfold to_prim_spec. intros ->. reflexivity. Qed.

(** From / TryFrom of primitives into IBig / UBig *)
Theorem prim_to_ibig_correct sg TW v :
  0 < TW -> prim_fits sg TW v = true -> prim_to_ibig sg TW v = v.
Proof.
  intros HT Hf. unfold prim_to_ibig, to_sign_magnitude. destruct sg; [|reflexivity].
  unfold prim_fits in Hf. apply andb_prop in Hf as [H1 H2]. apply Z.leb_le in H1. apply Z.ltb_lt in H2.
  assert (H3 : 2 ^ TW = 2 * 2 ^ (TW - 1)).
  { replace TW with (Z.succ (TW - 1)) at 1 by lia. rewrite Z.pow_succ_r by lia. reflexivity. }
  destruct (Z.leb_spec 0 v); [reflexivity|].
  assert (v mod 2 ^ TW = v + 2 ^ TW).
  { symmetry. apply Z.mod_unique with (q := -1); lia. }
  rewrite H0. replace (2 ^ TW - (v + 2 ^ TW)) with (- v) by lia. rewrite Z.mod_small by lia. lia.
Qed.

Theorem prim_to_ubig_correct sg TW v :
  0 < TW -> prim_fits sg TW v = true ->
  prim_to_ubig sg TW v = if v <? 0 then COutOfBounds else COk v.
Proof.
  intros HT Hf. unfold prim_to_ubig, to_sign_magnitude. destruct sg.
  - destruct (Z.leb_spec 0 v); destruct (Z.ltb_spec v 0); try lia; reflexivity.
  - unfold prim_fits in Hf. apply andb_prop in Hf as [H1 _]. apply Z.leb_le in H1.
    destruct (Z.ltb_spec v 0); [lia|reflexivity].
Qed.

(** round trip: primitive -> IBig -> the same primitive type gives the original *)
Theorem prim_ibig_roundtrip w sg TW v :
  widths_ok w TW -> prim_fits sg TW v = true ->
  ibig_to_prim w sg TW (prim_to_ibig sg TW v) = COk v.
Proof.
  intros Hw Hf. rewrite prim_to_ibig_correct by (try assumption; apply Hw).
  rewrite ibig_to_prim_correct by assumption. apply to_prim_spec_complete. assumption.
Qed.

Example prim_roundtrip_i8_min : ibig_to_prim 64 true 8 (prim_to_ibig true 8 (-128)) = COk (-128).
Proof. reflexivity. Qed.
Example prim_u128_max_plus1 : ubig_to_prim 64 false 128 (2 ^ 128) = COutOfBounds.
Proof. reflexivity. Qed.
Example prim_i128_from_3_words : ibig_to_prim 64 true 128 (- 2 ^ 127) = COk (- 2 ^ 127).
Proof. reflexivity. Qed.
