(** C06: arithmetic of round-to-nearest-even on dyadic numbers, used by the encode / to_f64 proofs. *)
From Dashu Require Import Base.Prelude Float.RoundSpec Float.Contract Conv.ConvSpec.
Open Scope Z_scope.

Lemma pow2_pos k : 0 <= k -> 0 < 2 ^ k.
Proof. intros. apply Z.pow_pos_nonneg; lia. Qed.

Lemma pow2_split a b : 0 <= a -> 0 <= b -> 2 ^ (a + b) = 2 ^ a * 2 ^ b.
Proof. intros. apply Z.pow_add_r; lia. Qed.

Lemma blen_bounds a : 0 < a -> 2 ^ (blen a - 1) <= a < 2 ^ blen a /\ 1 <= blen a.
Proof.
  intros H. unfold blen. destruct (Z.leb_spec a 0); [lia|].
  pose proof (Z.log2_nonneg a).
  replace (Z.log2 a + 1 - 1) with (Z.log2 a) by lia.
  replace (Z.log2 a + 1) with (Z.succ (Z.log2 a)) by lia.
  split; [apply Z.log2_spec; lia | lia].
Qed.

Lemma blen_unique a k : 1 <= k -> 2 ^ (k - 1) <= a < 2 ^ k -> blen a = k.
Proof.
  intros Hk [H1 H2]. assert (0 < a) by (pose proof (pow2_pos (k - 1)); lia).
  unfold blen. destruct (Z.leb_spec a 0); [lia|].
  assert (Z.log2 a = k - 1); [|lia].
  apply Z.log2_unique; [lia|]. replace (Z.succ (k - 1)) with k by lia. lia.
Qed.

Lemma blen_shift a k : 0 < a -> 0 <= k -> blen (a * 2 ^ k) = blen a + k.
Proof.
  intros Ha Hk. destruct (blen_bounds a Ha) as [[H1 H2] H3].
  apply blen_unique; [lia|].
  replace (blen a + k - 1) with (blen a - 1 + k) by lia.
  rewrite !pow2_split by lia. pose proof (pow2_pos k Hk). nia.
Qed.

Lemma blen_pow2 k : 0 <= k -> blen (2 ^ k) = k + 1.
Proof.
  intros. apply blen_unique; [lia|]. replace (k + 1 - 1) with k by lia.
  replace (k + 1) with (Z.succ k) by lia. rewrite Z.pow_succ_r by lia. pose proof (pow2_pos k). lia.
Qed.

(** the magnitude exponent of a * 2^exp *)
Lemma mag2_dyadic a exp : 0 < a ->
  mag2 (fst (frac_of a exp)) (snd (frac_of a exp)) = blen a + exp.
Proof.
  intros Ha. destruct (blen_bounds a Ha) as [[H1 H2] H3].
  unfold frac_of, mag2. destruct (Z.leb_spec 0 exp) as [He|He]; cbn [fst snd].
  - rewrite blen_shift by lia. change (blen 1) with 1.
    destruct (Z.leb_spec 0 (blen a + exp - 1)); [|lia].
    replace (blen a + exp - 1) with (blen a - 1 + exp) by lia. rewrite pow2_split by lia.
    pose proof (pow2_pos exp He).
    destruct (Z.leb_spec (1 * (2 ^ (blen a - 1) * 2 ^ exp)) (a * 2 ^ exp)); [lia|nia].
  - rewrite blen_pow2 by lia.
    destruct (Z.leb_spec 0 (blen a - (- exp + 1))) as [G|G].
    + replace (blen a - (- exp + 1)) with (blen a - 1 - (- exp)) by lia.
      assert (2 ^ (- exp) * 2 ^ (blen a - 1 - - exp) = 2 ^ (blen a - 1)).
      { rewrite <- pow2_split by lia. f_equal. lia. }
      destruct (Z.leb_spec (2 ^ (- exp) * 2 ^ (blen a - 1 - - exp)) a); lia.
    + assert (2 ^ (- exp) = 2 ^ (blen a - 1) * 2 ^ (- (blen a - (- exp + 1)))).
      { rewrite <- pow2_split by lia. f_equal. lia. }
      pose proof (pow2_pos (- (blen a - (- exp + 1))) ltac:(lia)).
      destruct (Z.leb_spec (2 ^ (- exp)) (a * 2 ^ (- (blen a - (- exp + 1))))); [lia|nia].
Qed.

(** round to nearest even of a / 2^k, a >= 0 *)
Definition rne (a k : Z) : Z := spec_round MHalfEven a (2 ^ k).

Lemma spec_round_even_scale N d c : 0 < d -> 0 < c ->
  spec_round MHalfEven (N * c) (d * c) = spec_round MHalfEven N d.
Proof.
  intros Hd Hc. unfold spec_round.
  rewrite Z.div_mul_cancel_r by lia. rewrite Z.mul_mod_distr_r by lia.
  replace (2 * (N mod d * c)) with (2 * (N mod d) * c) by ring.
  rewrite <- (Zmult_compare_compat_r (2 * (N mod d)) d c) by lia. reflexivity.
Qed.

Lemma spec_round_even_int n d : 0 < d -> spec_round MHalfEven (n * d) d = n.
Proof.
  intros Hd. unfold spec_round. rewrite Z.div_mul by lia. rewrite Z.mod_mul by lia.
  destruct (Z.compare_spec (2 * 0) d); try lia.
Qed.

Lemma spec_round_even_opp N d : 0 < d ->
  spec_round MHalfEven (- N) d = - spec_round MHalfEven N d.
Proof.
  intros Hd. unfold spec_round.
  destruct (Z.eq_dec (N mod d) 0) as [Hz|Hnz].
  - rewrite Z.div_opp_l_z by lia. rewrite Z.mod_opp_l_z by lia. rewrite Hz.
    destruct (Z.compare_spec (2 * 0) d); lia.
  - rewrite Z.div_opp_l_nz by lia. rewrite Z.mod_opp_l_nz by lia.
    pose proof (Z.mod_pos_bound N d Hd).
    destruct (Z.compare_spec (2 * (d - N mod d)) d); destruct (Z.compare_spec (2 * (N mod d)) d); try lia.
    rewrite Z.even_sub, Z.even_opp. change (Z.even 1) with false.
    destruct (Z.even (N / d)) eqn:E; cbn; lia.
Qed.

(** the three round bits of a at position k >= 1 decide rne *)
Definition round_bits (a k : Z) : Z :=
  ((a / 2 ^ k) mod 2) * 4 + ((a / 2 ^ (k - 1)) mod 2) * 2 + (if a mod 2 ^ (k - 1) =? 0 then 0 else 1).

Lemma low_split a k : 0 <= a -> 1 <= k ->
  a mod 2 ^ k = ((a / 2 ^ (k - 1)) mod 2) * 2 ^ (k - 1) + a mod 2 ^ (k - 1).
Proof.
  intros Ha Hk. assert (E : 2 ^ k = 2 ^ (k - 1) * 2).
  { replace k with (Z.succ (k - 1)) at 1 by lia. rewrite Z.pow_succ_r by lia. ring. }
  rewrite E. rewrite Z.rem_mul_r by (pose proof (pow2_pos (k - 1)); lia). ring.
Qed.

Lemma rne_round_bits a k : 0 <= a -> 1 <= k ->
  let rb := round_bits a k in
  rne a k = a / 2 ^ k + (if (6 <=? rb) || (rb =? 3) then 1 else 0) /\
  ((rb mod 4 =? 0) = (a mod 2 ^ k =? 0)) /\
  (rb mod 4 <> 0 -> (rne a k * 2 ^ k ?= a) = if (6 <=? rb) || (rb =? 3) then Gt else Lt).
Proof.
  intros Ha Hk rb. unfold rb, round_bits, rne, spec_round.
  pose proof (pow2_pos (k - 1) ltac:(lia)) as Hp.
  assert (E : 2 ^ k = 2 ^ (k - 1) * 2).
  { replace k with (Z.succ (k - 1)) at 1 by lia. rewrite Z.pow_succ_r by lia. ring. }
  pose proof (low_split a k Ha Hk) as Hl.
  pose proof (Z.mod_pos_bound (a / 2 ^ (k - 1)) 2 ltac:(lia)) as Hh.
  pose proof (Z.mod_pos_bound (a / 2 ^ k) 2 ltac:(lia)) as Hq.
  pose proof (Z.mod_pos_bound a (2 ^ (k - 1)) Hp) as Hs.
  pose proof (Z.div_mod a (2 ^ k) ltac:(lia)) as Hdm.
  set (q := a / 2 ^ k) in *. set (h := (a / 2 ^ (k - 1)) mod 2) in *. set (l := a mod 2 ^ (k - 1)) in *.
  set (r := a mod 2 ^ k) in *.
  pose proof (Zmod_even q) as Hev.
  assert (Hh' : h = 0 \/ h = 1) by lia.
  destruct (Z.even q); rewrite Hev; clear Hev Hq;
  (destruct (Z.eqb_spec l 0) as [Hl0|Hl0]);
  (destruct Hh' as [Hh0 | Hh0]; rewrite Hh0 in *);
  (match goal with |- context [?x * 4 + ?y * 2 + ?z] =>
     let v := eval vm_compute in (x * 4 + y * 2 + z) in change (x * 4 + y * 2 + z) with v end);
  (match goal with |- context [(6 <=? ?v) || (?v =? 3)] =>
     let b := eval vm_compute in ((6 <=? v) || (v =? 3)) in change ((6 <=? v) || (v =? 3)) with b end);
  (match goal with |- context [?v mod 4] =>
     let b := eval vm_compute in (v mod 4) in change (v mod 4) with b end);
  cbv iota;
  (destruct (Z.compare_spec (2 * r) (2 ^ k)); try lia);
  (repeat split; try (intros; first [lia | apply Z.compare_lt_iff; nia | apply Z.compare_gt_iff; nia]);
      try (destruct (Z.eqb_spec r 0); lia)).
Qed.
