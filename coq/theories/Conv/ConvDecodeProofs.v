(** C06: FloatEncoding::decode, the float -> integer conversions built on it, and the round trip
    encode (decode bits) = Exact bits for every finite bit pattern. *)
From Dashu Require Import Base.Prelude Float.RoundSpec Float.Contract Float.Model
  Conv.ConvSpec Conv.ConvModel Conv.ConvArith Conv.ConvIeee Conv.ConvEncodeProofs.
Open Scope Z_scope.

Lemma blen_le_iff_local a k : 0 <= a -> 0 <= k -> a < 2 ^ k -> blen a <= k.
Proof.
  intros Ha Hk H. destruct (Z.eq_dec a 0) as [->|]; [cbn; lia|].
  destruct (blen_bounds a ltac:(lia)) as [[H1 _] H3].
  destruct (Z.le_gt_cases (blen a) k) as [|G]; [assumption|].
  assert (2 ^ k <= 2 ^ (blen a - 1)) by (apply Z.pow_le_mono_r; lia). lia.
Qed.

Lemma frac_pos a exp : 0 < a -> 0 < fst (frac_of a exp) /\ 0 < snd (frac_of a exp).
Proof.
  intros. unfold frac_of. destruct (Z.leb_spec 0 exp); cbn [fst snd].
  - pose proof (pow2_pos exp ltac:(lia)). split; nia.
  - pose proof (pow2_pos (- exp) ltac:(lia)). lia.
Qed.

(** a successful conversion holds exactly the value of the float *)
Theorem float_to_int_only_if_exact f uns bits v :
  float_to_int_spec f uns bits = COk v ->
  exists man exp, decode_spec f bits = DFin man exp /\
    v * snd (frac_of man exp) = fst (frac_of man exp) /\ (uns = true -> 0 <= v).
Proof.
  unfold float_to_int_spec. destruct (decode_spec f bits) as [man exp| |]; try discriminate.
  intros H. exists man, exp. split; [reflexivity|].
  assert (Hd : 0 < snd (frac_of man exp)).
  { unfold frac_of. destruct (Z.leb_spec 0 exp); cbn [snd]; [lia | apply pow2_pos; lia]. }
  destruct (frac_of man exp) as [n d]; cbn [fst snd] in *.
  destruct (Z.eqb_spec (n mod d) 0) as [Hz|]; [|destruct (uns && (n <? 0)); discriminate].
  destruct (uns && (n / d <? 0)) eqn:E; [discriminate|]. inversion H; subst v.
  split.
  - pose proof (Z.div_mod n d ltac:(lia)). lia.
  - intros ->. cbn [andb] in E. apply Z.ltb_ge in E. assumption.
Qed.

Section Decode.
Variable P : enc_params.
Hypothesis HMB : 1 <= MB P.
Hypothesis HW : MB P + 3 <= W P.
Hypothesis HB : 2 * BIAS P + 2 = 2 ^ (W P - 1 - MB P).
Hypothesis HBp : 1 <= BIAS P.
Hypothesis HT : TOP_MAX P = BIAS P + 1.
Hypothesis HU : UNDER P = 1 - BIAS P - MB P.
Hypothesis HN : NORM_LIM P = 1 - BIAS P \/ NORM_LIM P = 2 - BIAS P.

(** decode, bit for bit *)
Theorem decode_correct bits : 0 <= bits ->
  decode_asis P bits = decode_spec (fmt_of P) bits.
Proof.
  intros Hb. unfold decode_asis, decode_spec, fmt_of; cbn [prec emin ebits].
  replace (MB P + 1 - 1) with (MB P) by lia.
  replace (W P - 1 - MB P + MB P) with (W P - 1) by lia.
  pose proof (pow2_pos (W P - 1) ltac:(lia)) as Hp.
  assert (Hs : (0 <? bits / 2 ^ (W P - 1)) = (2 ^ (W P - 1) <=? bits)).
  { destruct (Z.leb_spec (2 ^ (W P - 1)) bits) as [G|G].
    - apply Z.ltb_lt. apply Z.div_str_pos. lia.
    - apply Z.ltb_ge. rewrite Z.div_small by lia. lia. }
  rewrite Hs.
  destruct (Z.eqb_spec ((bits / 2 ^ MB P) mod 2 ^ (W P - 1 - MB P)) (2 ^ (W P - 1 - MB P) - 1)); [reflexivity|].
  destruct (Z.eqb_spec ((bits / 2 ^ MB P) mod 2 ^ (W P - 1 - MB P)) 0); cbv zeta; cbn [fst snd].
  - reflexivity.
  - f_equal. lia.
Qed.

(** TryFrom<f32/f64> for UBig / IBig (after the repair F33): succeeds exactly on the integers *)
Theorem float_try_to_int_correct uns bits : 0 <= bits ->
  float_try_to_int P uns bits = float_to_int_spec (fmt_of P) uns bits.
Proof.
  intros Hb. unfold float_try_to_int, float_to_int_spec. rewrite decode_correct by assumption.
  destruct (decode_spec (fmt_of P) bits) as [man exp| |]; try reflexivity.
  unfold frac_of. destruct (Z.leb_spec 0 exp) as [He|He].
  - pose proof (pow2_pos exp He). rewrite Z.mod_1_r, Z.div_1_r. cbn [Z.eqb].
    destruct uns; cbn [andb]; [|reflexivity].
    destruct (Z.ltb_spec man 0); destruct (Z.ltb_spec (man * 2 ^ exp) 0); try reflexivity; nia.
  - pose proof (pow2_pos (- exp) ltac:(lia)) as Hp.
    pose proof (Z.div_mod man (2 ^ (- exp)) ltac:(lia)) as Hdm.
    pose proof (Z.mod_pos_bound man (2 ^ (- exp)) Hp) as Hmb.
    destruct (Z.eqb_spec (man mod 2 ^ (- exp)) 0) as [Hz|Hnz].
    + rewrite andb_false_r.
      destruct uns; cbn [andb]; [|reflexivity].
      destruct (Z.ltb_spec man 0); destruct (Z.ltb_spec (man / 2 ^ (- exp)) 0); try reflexivity; nia.
    + destruct (Z.eqb_spec man 0) as [->|]; [rewrite Z.mod_0_l in Hnz by lia; lia|]. cbn [negb andb].
      destruct uns; cbn [andb]; [|reflexivity]. destruct (man <? 0); reflexivity.
Qed.

(** encode (decode bits) = Exact(bits) for every finite pattern except -0.0 (decode gives the
    integer 0, which encodes as +0.0: equal as numbers) *)
Theorem encode_decode_roundtrip bits man exp : 0 <= bits < 2 ^ W P ->
  decode_spec (fmt_of P) bits = DFin man exp -> bits <> 2 ^ (W P - 1) ->
  encode_asis P man exp = (bits, Eq).
Proof.
  intros Hb Hd Hnz. unfold decode_spec, fmt_of in Hd; cbn [prec emin ebits] in Hd.
  replace (MB P + 1 - 1) with (MB P) in Hd by lia.
  replace (W P - 1 - MB P + MB P) with (W P - 1) in Hd by lia.
  set (E := (bits / 2 ^ MB P) mod 2 ^ (W P - 1 - MB P)) in *. set (F := bits mod 2 ^ MB P) in *.
  pose proof (pow2_pos (MB P) ltac:(lia)) as HpM. pose proof (pow2_pos (W P - 1) ltac:(lia)) as HpW.
  pose proof (pow2_pos (W P - 1 - MB P) ltac:(lia)) as HpE.
  assert (HF : 0 <= F < 2 ^ MB P) by (apply Z.mod_pos_bound; lia).
  assert (HE : 0 <= E < 2 ^ (W P - 1 - MB P)) by (apply Z.mod_pos_bound; lia).
  assert (HW1 : 2 ^ W P = 2 * 2 ^ (W P - 1)).
  { replace (W P) with (Z.succ (W P - 1)) at 1 by lia. rewrite Z.pow_succ_r by lia. reflexivity. }
  assert (HW2 : 2 ^ (W P - 1) = 2 ^ (W P - 1 - MB P) * 2 ^ MB P) by (rewrite <- pow2_split by lia; f_equal; lia).
  (* bits = sign * 2^(W-1) + E * 2^MB + F *)
  assert (Hbits : bits = (bits / 2 ^ (W P - 1)) * 2 ^ (W P - 1) + E * 2 ^ MB P + F).
  { unfold E, F. pose proof (Z.div_mod bits (2 ^ MB P) ltac:(lia)).
    pose proof (Z.div_mod (bits / 2 ^ MB P) (2 ^ (W P - 1 - MB P)) ltac:(lia)).
    rewrite Z.div_div in H0 by lia. rewrite (Z.mul_comm (2 ^ MB P)), <- HW2 in H0. nia. }
  assert (Hsgn : bits / 2 ^ (W P - 1) = if 2 ^ (W P - 1) <=? bits then 1 else 0).
  { destruct (Z.leb_spec (2 ^ (W P - 1)) bits).
    - symmetry. apply Z.div_unique with (r := bits - 2 ^ (W P - 1)); lia.
    - apply Z.div_small. lia. }
  destruct (Z.eqb_spec E (2 ^ (W P - 1 - MB P) - 1)) as [|HEn]; [destruct (F =? 0); discriminate|].
  injection Hd as Hman Hexp.
  set (m := if E =? 0 then F else F + 2 ^ MB P) in *.
  set (e := if E =? 0 then - (BIAS P - 1) - MB P else E - 1 + (- (BIAS P - 1) - MB P)) in *.
  assert (Hm0 : 0 <= m) by (unfold m; destruct (E =? 0); lia).
  assert (Hblen : blen (Z.abs man) <= W P).
  { assert (Z.abs man = m) by (destruct (2 ^ (W P - 1) <=? bits); lia). rewrite H.
    apply (blen_le_iff_local m (W P)); [lia | lia |].
    assert (2 ^ (MB P + 1) <= 2 ^ W P) by (apply Z.pow_le_mono_r; lia).
    rewrite Z.pow_add_r in H0 by lia. unfold m. destruct (E =? 0); lia. }
  rewrite (encode_correct P HMB HW HB HBp HT HU HN man exp Hblen).
  (* the value of m * 2^e under the specification *)
  assert (Core : 0 < m -> ieee_rne (fmt_of P) (fst (frac_of m e)) (snd (frac_of m e)) = (E * 2 ^ MB P + F, Eq)).
  { intros Hmp. pose proof (ieee_rne_dyadic (fmt_of P) m e Hmp) as A. cbv zeta in A. rewrite A. clear A.
    rewrite (f_inf P HB). cbn [prec emin fmt_of]. replace (MB P + 1 - 1) with (MB P) by lia.
    assert (Hu : Z.max (blen m + e - (MB P + 1)) (- (BIAS P - 1) - MB P) = e).
    { unfold m, e. destruct (Z.eqb_spec E 0).
      - assert (blen F <= MB P) by (apply (blen_le_iff_local F (MB P)); lia). lia.
      - assert (blen (F + 2 ^ MB P) = MB P + 1).
        { apply blen_unique; [lia|]. replace (MB P + 1 - 1) with (MB P) by lia. rewrite Z.pow_add_r by lia. lia. }
        lia. }
    rewrite Hu. replace (e - e) with 0 by lia. change (0 <=? 0) with true. cbv iota.
    change (2 ^ (- 0)) with 1. rewrite Z.mul_1_r.
    assert (Hmg : (e - (- (BIAS P - 1) - MB P)) * 2 ^ MB P + m = E * 2 ^ MB P + F).
    { unfold m, e. destruct (Z.eqb_spec E 0) as [->|]; ring. }
    rewrite Hmg.
    destruct (Z.leb_spec ((2 * BIAS P + 1) * 2 ^ MB P) (E * 2 ^ MB P + F)); [exfalso; nia|]. reflexivity. }
  destruct (Z.leb_spec (2 ^ (W P - 1)) bits) as [Hneg|Hpos].
  - (* negative: the sign bit is set *)
    assert (Hmp : 0 < m) by (destruct (Z.eq_dec m 0); [exfalso; unfold m in *; destruct (Z.eqb_spec E 0); nia | lia]).
    subst man exp. rewrite frac_of_opp. cbn [fst snd].
    destruct (frac_pos m e Hmp) as [P1 P2].
    rewrite ieee_rne_opp by assumption. rewrite (Core Hmp). cbn [fst snd CompOpp].
    rewrite (f_sign P). f_equal. lia.
  - subst man exp. destruct (Z.eq_dec m 0) as [Hz|].
    + assert (E = 0 /\ F = 0) as [HE0 HF0] by (unfold m in Hz; destruct (Z.eqb_spec E 0); lia).
      rewrite Hz. unfold ieee_rne, ieee_round, frac_of. destruct (0 <=? e); cbn [fst snd Z.mul Z.eqb]; f_equal; nia.
    + rewrite (Core ltac:(lia)). f_equal. lia.
Qed.

End Decode.

Ltac inst32 := first [cbn; lia | reflexivity | right; reflexivity].
Ltac inst64 := first [cbn; lia | reflexivity | left; reflexivity].

Theorem decode_f32_correct bits : 0 <= bits -> decode_asis P32 bits = decode_spec F32 bits.
Proof. intros. change F32 with (fmt_of P32). apply decode_correct; try inst32; assumption. Qed.
Theorem decode_f64_correct bits : 0 <= bits -> decode_asis P64 bits = decode_spec F64 bits.
Proof. intros. change F64 with (fmt_of P64). apply decode_correct; try inst64; assumption. Qed.

Theorem float_try_to_int_f32 uns bits : 0 <= bits -> float_try_to_int P32 uns bits = float_to_int_spec F32 uns bits.
Proof. intros. change F32 with (fmt_of P32). apply float_try_to_int_correct; try inst32; assumption. Qed.
Theorem float_try_to_int_f64 uns bits : 0 <= bits -> float_try_to_int P64 uns bits = float_to_int_spec F64 uns bits.
Proof. intros. change F64 with (fmt_of P64). apply float_try_to_int_correct; try inst64; assumption. Qed.

Theorem encode_decode_f32 bits man exp : 0 <= bits < 2 ^ 32 -> decode_spec F32 bits = DFin man exp ->
  bits <> 2 ^ 31 -> encode_asis P32 man exp = (bits, Eq).
Proof.
  intros Hb Hd Hn. change F32 with (fmt_of P32) in Hd.
  apply (encode_decode_roundtrip P32); try assumption; inst32.
Qed.
Theorem encode_decode_f64 bits man exp : 0 <= bits < 2 ^ 64 -> decode_spec F64 bits = DFin man exp ->
  bits <> 2 ^ 63 -> encode_asis P64 man exp = (bits, Eq).
Proof.
  intros Hb Hd Hn. change F64 with (fmt_of P64) in Hd.
  apply (encode_decode_roundtrip P64); try assumption; inst64.
Qed.

Example decode_f32_one : decode_asis P32 1065353216 = DFin 8388608 (-23).
Proof. reflexivity. Qed.
Example float_to_int_refuses_half : float_try_to_int P64 false 13832806255468478464 = CLossOfPrecision.
Proof. reflexivity. Qed.
