(** C06: RBig / Relaxed ::to_float (rational/src/third_party/dashu_float.rs, after repair a0eda87),
    the whole function for every base, precision, mode, numerator and positive denominator:
    the result is the correctly rounded p-digit float of N/D (significand = N/D rounded under the
    mode at the exponent of its p-th digit, normal form of Repr::new) and the flag is the truthful
    one.  The as-is model [ConvModel.rat_to_fbig] follows the code: digit counts by ilog, the shift
    that makes the quotient at least p digits long, the quotient cut to exactly p digits, one
    rounding by round_ratio with the dropped digits and the remainder, convert_int (normal form +
    repr_round, which never rounds a second time), the exponent fix-up. *)
From Dashu Require Import Base.Prelude Float.RoundSpec Float.RoundSpecProof Float.Contract Float.Model
  Float.ModelProof Float.AddModelProof Float.ParseProof Float.RoundOpsLegal Conv.ConvSpec Conv.ConvModel.
From DashuGen Require Import RoundTables.
Open Scope Z_scope.

Lemma cmp_scale_r x y c : 0 < c -> (x * c ?= y * c) = (x ?= y).
Proof. intros. symmetry. apply Zmult_compare_compat_r. lia. Qed.

Section RatToFbig.
Variable B : Z.
Hypothesis B_ge_2 : 2 <= B.
Local Notation pw := (Bpow_pos B B_ge_2).

(** rounding N/D at B^(ex - sh) in terms of the operands scaled by B^sh and B^ex *)
Lemma round_at_scaled m N D sh ex M : 0 < D -> 0 <= sh -> 0 <= ex ->
  round_rat_at B m N D (ex - sh) = spec_round m (N * B ^ sh) (D * B ^ ex) /\
  cmp_kx B 1 (XRat N D) M (ex - sh) = (M * (D * B ^ ex) ?= N * B ^ sh).
Proof.
  intros HD Hs He. unfold round_rat_at, cmp_kx.
  pose proof (pw sh Hs) as Ps. pose proof (pw ex He) as Pe.
  destruct (Z.leb_spec 0 (ex - sh)) as [Hu|Hu].
  - set (u := ex - sh) in *. replace ex with (u + sh) by (unfold u; lia).
    rewrite Z.pow_add_r by lia. pose proof (pw u Hu) as Pu.
    rewrite Z.mul_assoc. rewrite spec_round_scale by nia. split; [reflexivity|].
    replace (M * (D * B ^ u * B ^ sh)) with (M * B ^ u * D * B ^ sh) by ring.
    rewrite cmp_scale_r by lia. f_equal. ring.
  - set (u := - (ex - sh)) in *. replace sh with (u + ex) by (unfold u; lia).
    rewrite Z.pow_add_r by lia. pose proof (pw u ltac:(lia)) as Pu.
    rewrite Z.mul_assoc. rewrite spec_round_scale by lia. split; [reflexivity|].
    replace (M * (D * B ^ ex)) with (M * D * B ^ ex) by ring.
    rewrite cmp_scale_r by lia. f_equal. ring.
Qed.

(** a >= D * B^e for an exponent of any sign *)
Definition geB (a D e : Z) : bool := if 0 <=? e then D * B ^ e <=? a else D <=? a * B ^ (- e).

Lemma geB_scaled a D e j : 0 < D -> 0 <= j -> 0 <= e + j ->
  geB a D e = (D * B ^ (e + j) <=? a * B ^ j).
Proof.
  intros HD Hj Hej. unfold geB. destruct (Z.leb_spec 0 e) as [He|He].
  - rewrite Z.pow_add_r by lia. pose proof (pw e He). pose proof (pw j Hj).
    destruct (Z.leb_spec (D * B ^ e) a); destruct (Z.leb_spec (D * (B ^ e * B ^ j)) (a * B ^ j)); try reflexivity; exfalso; nia.
  - assert (E : B ^ j = B ^ (e + j) * B ^ (- e)) by (rewrite <- Z.pow_add_r by lia; f_equal; lia).
    rewrite E. pose proof (pw (e + j) Hej). pose proof (pw (- e) ltac:(lia)).
    destruct (Z.leb_spec D (a * B ^ (- e))); destruct (Z.leb_spec (D * B ^ (e + j)) (a * (B ^ (e + j) * B ^ (- e)))); try reflexivity; exfalso; nia.
Qed.

Lemma rat_exp_geB N D : rat_exp B N D =
  if geB (Z.abs N) D (dlen B N - dlen B D) then dlen B N - dlen B D else dlen B N - dlen B D - 1.
Proof.
  unfold rat_exp, cmp_kx, geB. set (e0 := dlen B N - dlen B D).
  destruct (Z.leb_spec 0 e0).
  - rewrite !Z.mul_1_l. destruct (Z.compare_spec (B ^ e0 * D) (Z.abs N)); destruct (Z.leb_spec (D * B ^ e0) (Z.abs N)); try reflexivity; exfalso; lia.
  - rewrite !Z.mul_1_l. destruct (Z.compare_spec D (Z.abs N * B ^ (- e0))); destruct (Z.leb_spec D (Z.abs N * B ^ (- e0))); try reflexivity; exfalso; lia.
Qed.

(** the exponent of N/D is characterised by B^e <= |N|/D < B^(e+1) (scaled by any B^j) *)
Lemma rat_exp_unique N D e j : N <> 0 -> 0 < D -> 0 <= j -> 0 <= e + j ->
  D * B ^ (e + j) <= Z.abs N * B ^ j < D * B ^ (e + 1 + j) -> rat_exp B N D = e.
Proof.
  intros HN HD Hj Hej [H1 H2].
  destruct (dlen_spec B B_ge_2 N HN) as [[A1 A2] A3].
  destruct (dlen_spec B B_ge_2 D ltac:(lia)) as [[D1 D2] D3].
  rewrite (Z.abs_eq D) in D1, D2 by lia.
  set (a := Z.abs N) in *. set (la := dlen B N) in *. set (ld := dlen B D) in *. set (e0 := la - ld).
  set (t := Z.abs e0 + 2). set (j' := j + t).
  assert (Ht : 0 <= t) by (unfold t; lia).
  pose proof (pw t Ht) as Hpt.
  assert (H1' : D * B ^ (e + j') <= a * B ^ j').
  { unfold j'. replace (e + (j + t)) with (e + j + t) by lia.
    rewrite (Z.pow_add_r B (e + j) t), (Z.pow_add_r B j t) by lia.
    rewrite !Z.mul_assoc. apply Z.mul_le_mono_nonneg_r; lia. }
  assert (H2' : a * B ^ j' < D * B ^ (e + 1 + j')).
  { unfold j'. replace (e + 1 + (j + t)) with (e + 1 + j + t) by lia.
    rewrite (Z.pow_add_r B (e + 1 + j) t), (Z.pow_add_r B j t) by lia.
    rewrite !Z.mul_assoc. apply Z.mul_lt_mono_pos_r; lia. }
  assert (Hj' : 0 <= j') by (unfold j'; lia).
  assert (He0 : 0 <= e0 - 1 + j') by (unfold j', t; lia).
  pose proof (pw j' Hj') as Hpj.
  assert (B1 : D * B ^ (e0 - 1 + j') < a * B ^ j').
  { assert (E : B ^ ld * B ^ (e0 - 1 + j') = B ^ (la - 1) * B ^ j').
    { rewrite <- !Z.pow_add_r by lia. f_equal. unfold e0. lia. }
    pose proof (pw (e0 - 1 + j') He0) as PX.
    assert (D * B ^ (e0 - 1 + j') < B ^ ld * B ^ (e0 - 1 + j')) by (apply Z.mul_lt_mono_pos_r; lia).
    assert (B ^ (la - 1) * B ^ j' <= a * B ^ j') by (apply Z.mul_le_mono_nonneg_r; lia). lia. }
  assert (B2 : a * B ^ j' < D * B ^ (e0 + 1 + j')).
  { assert (E : B ^ (ld - 1) * B ^ (e0 + 1 + j') = B ^ la * B ^ j').
    { rewrite <- !Z.pow_add_r by lia. f_equal. unfold e0. lia. }
    pose proof (pw (e0 + 1 + j') ltac:(lia)) as PX.
    assert (a * B ^ j' < B ^ la * B ^ j') by (apply Z.mul_lt_mono_pos_r; lia).
    assert (B ^ (ld - 1) * B ^ (e0 + 1 + j') <= D * B ^ (e0 + 1 + j')) by (apply Z.mul_le_mono_nonneg_r; lia). lia. }
  assert (Hlow : e0 - 1 <= e).
  { destruct (Z.le_gt_cases (e0 - 1) e) as [|G]; [assumption|exfalso].
    assert (Hpw : B ^ (e + 1 + j') <= B ^ (e0 - 1 + j')) by (apply Z.pow_le_mono_r; lia).
    assert (D * B ^ (e + 1 + j') <= D * B ^ (e0 - 1 + j')) by (apply Z.mul_le_mono_nonneg_l; lia). lia. }
  assert (Hhigh : e <= e0).
  { destruct (Z.le_gt_cases e e0) as [|G]; [assumption|exfalso].
    assert (Hpw : B ^ (e0 + 1 + j') <= B ^ (e + j')) by (apply Z.pow_le_mono_r; lia).
    assert (D * B ^ (e0 + 1 + j') <= D * B ^ (e + j')) by (apply Z.mul_le_mono_nonneg_l; lia). lia. }
  rewrite rat_exp_geB. fold a la ld e0.
  rewrite (geB_scaled a D e0 j') by lia.
  destruct (Z.leb_spec (D * B ^ (e0 + j')) (a * B ^ j')) as [G|G].
  - destruct (Z.eq_dec e e0) as [E|]; [lia|].
    assert (E : e = e0 - 1) by lia. rewrite E in H2'.
    replace (e0 - 1 + 1 + j') with (e0 + j') in H2' by lia. lia.
  - destruct (Z.eq_dec e (e0 - 1)) as [E|]; [lia|].
    assert (E : e = e0) by lia. rewrite E in H1'. lia.
Qed.

(** truncated division by a positive number, by magnitudes *)
Lemma quot_rem_abs a b : 0 < b ->
  Z.quot a b = Z.sgn a * (Z.abs a / b) /\ Z.rem a b = Z.sgn a * (Z.abs a mod b).
Proof.
  intros Hb. split.
  - rewrite Z.quot_div by lia. rewrite (Z.sgn_pos b), (Z.abs_eq b) by lia. ring.
  - rewrite Z.rem_mod by lia. rewrite (Z.abs_eq b) by lia. reflexivity.
Qed.

Definition approx_of (se : Z * Z) (f : option rounding) : approx :=
  match f with None => AExact (fst se) (snd se) | Some r => AInexact (fst se) (snd se) r end.

(** the decomposition the code computes: n' = hi * den + rem, hi has exactly p digits *)
Lemma to_float_split p N D : 1 <= p -> 0 < D -> N <> 0 ->
  let num_digits := dlen B N - 1 in
  let den_digits := dlen B D - 1 in
  let shift := if num_digits >=? p + den_digits then 0 else (p + den_digits) - num_digits in
  let n' := N * B ^ shift in
  let q := Z.quot n' D in
  let r := Z.rem n' D in
  let extra := dlen B q - p in
  let hi := Z.quot q (B ^ extra) in
  let rem := Z.rem q (B ^ extra) * D + r in
  let den := D * B ^ extra in
  0 <= shift /\ 0 <= extra /\ n' = hi * den + rem /\ Z.abs rem < den /\
  (0 < N -> 0 <= rem) /\ (N < 0 -> rem <= 0) /\
  B ^ (p - 1) <= Z.abs hi < B ^ p /\
  rat_exp B N D = p - 1 + extra - shift.
Proof.
  intros Hp HD HN. cbv zeta.
  destruct (dlen_spec B B_ge_2 N HN) as [[A1 A2] A3].
  destruct (dlen_spec B B_ge_2 D ltac:(lia)) as [[D1 D2] D3].
  rewrite (Z.abs_eq D) in D1, D2 by lia.
  set (nd := dlen B N - 1) in *. set (dd := dlen B D - 1) in *.
  set (shift := if nd >=? p + dd then 0 else p + dd - nd).
  assert (Hsh : 0 <= shift /\ p + dd <= nd + shift) by (unfold shift; destruct (Z.geb_spec nd (p + dd)); lia).
  destruct Hsh as [Hsh Hsh2].
  pose proof (pw shift Hsh) as Psh.
  set (n' := N * B ^ shift).
  assert (Hn'abs : Z.abs n' = Z.abs N * B ^ shift) by (unfold n'; rewrite Z.abs_mul, (Z.abs_eq (B ^ shift)) by lia; reflexivity).
  destruct (quot_rem_abs n' D HD) as [Eq Er].
  set (q := Z.quot n' D) in *. set (r := Z.rem n' D) in *.
  set (aq := Z.abs n' / D) in *. set (ar := Z.abs n' mod D) in *.
  pose proof (Z.div_mod (Z.abs n') D ltac:(lia)) as Edm. fold aq ar in Edm.
  pose proof (Z.mod_pos_bound (Z.abs n') D HD) as Bar. fold ar in Bar.
  (* the quotient has at least p digits *)
  assert (Hq_lo : B ^ (p - 1) <= aq).
  { unfold aq. apply Z.div_le_lower_bound; [lia|].
    rewrite Hn'abs.
    assert (E1 : B ^ (nd + shift) <= Z.abs N * B ^ shift).
    { rewrite Z.pow_add_r by lia. apply Z.mul_le_mono_nonneg_r; lia. }
    assert (E2 : B ^ (p + dd) <= B ^ (nd + shift)) by (apply Z.pow_le_mono_r; lia).
    assert (E3 : B ^ (p + dd) = B ^ (p - 1) * B ^ (dd + 1)) by (rewrite <- Z.pow_add_r by lia; f_equal; lia).
    replace (dd + 1) with (dlen B D) in E3 by (unfold dd; lia).
    pose proof (pw (p - 1) ltac:(lia)).
    assert (D * B ^ (p - 1) <= B ^ dlen B D * B ^ (p - 1)) by (apply Z.mul_le_mono_nonneg_r; lia). lia. }
  assert (Hn'sgn : Z.sgn n' = Z.sgn N).
  { unfold n'. rewrite Z.sgn_mul, (Z.sgn_pos (B ^ shift)) by lia. ring. }
  assert (Hsg : Z.sgn N = 1 \/ Z.sgn N = -1) by (destruct (Z.sgn_spec N) as [[? E]|[[? E]|[? E]]]; lia).
  assert (Haq : Z.abs q = aq).
  { rewrite Eq, Z.abs_mul, Hn'sgn. assert (0 <= aq) by (pose proof (pw (p - 1) ltac:(lia)); lia).
    rewrite (Z.abs_eq aq) by lia. destruct Hsg as [-> | ->]; cbn [Z.abs]; lia. }
  assert (Hq0 : q <> 0) by (pose proof (pw (p - 1) ltac:(lia)); lia).
  destruct (dlen_spec B B_ge_2 q Hq0) as [[Q1 Q2] Q3]. rewrite Haq in Q1, Q2.
  set (extra := dlen B q - p) in *.
  assert (Hex : 0 <= extra).
  { unfold extra. destruct (Z.le_gt_cases p (dlen B q)) as [|G]; [lia|exfalso].
    assert (B ^ dlen B q <= B ^ (p - 1)) by (apply Z.pow_le_mono_r; lia). lia. }
  pose proof (pw extra Hex) as Pex.
  destruct (quot_rem_abs q (B ^ extra) Pex) as [Eh El].
  rewrite Haq in Eh, El.
  set (hi := Z.quot q (B ^ extra)) in *. set (lo := Z.rem q (B ^ extra)) in *.
  set (ah := aq / B ^ extra) in *. set (al := aq mod B ^ extra) in *.
  pose proof (Z.div_mod aq (B ^ extra) ltac:(lia)) as Edm2. fold ah al in Edm2.
  pose proof (Z.mod_pos_bound aq (B ^ extra) Pex) as Bal. fold al in Bal.
  assert (Hsq : Z.sgn q = Z.sgn N).
  { rewrite <- Hn'sgn. rewrite Eq. rewrite Z.sgn_mul, Z.sgn_sgn.
    assert (0 < aq) by (pose proof (pw (p - 1) ltac:(lia)); lia). rewrite (Z.sgn_pos aq) by lia. ring. }
  rewrite Hsq in Eh, El. rewrite Hn'sgn in Eq, Er.
  assert (Hah : B ^ (p - 1) <= ah < B ^ p).
  { unfold ah. split.
    - apply Z.div_le_lower_bound; [lia|]. rewrite <- Z.pow_add_r by lia.
      replace (extra + (p - 1)) with (dlen B q - 1) by (unfold extra; lia). lia.
    - apply Z.div_lt_upper_bound; [lia|]. rewrite <- Z.pow_add_r by lia.
      replace (extra + p) with (dlen B q) by (unfold extra; lia). lia. }
  assert (Hn'val : n' = Z.sgn N * Z.abs n').
  { rewrite <- Hn'sgn. rewrite Z.mul_comm. symmetry. apply Z.abs_sgn. }
  split; [exact Hsh|]. split; [exact Hex|].
  split.
  { rewrite Eh, El, Er, Hn'val. rewrite Edm, Edm2. ring. }
  split.
  { rewrite El, Er. replace (Z.sgn N * al * D + Z.sgn N * ar) with (Z.sgn N * (al * D + ar)) by ring.
    rewrite Z.abs_mul. assert (0 <= al * D) by (apply Z.mul_nonneg_nonneg; lia).
    rewrite (Z.abs_eq (al * D + ar)) by lia.
    assert (al * D <= (B ^ extra - 1) * D) by (apply Z.mul_le_mono_nonneg_r; lia).
    assert (al * D + ar < D * B ^ extra) by lia.
    destruct Hsg as [-> | ->]; cbn [Z.abs]; lia. }
  split.
  { intros HNp. rewrite El, Er, (Z.sgn_pos N) by lia.
    assert (0 <= al * D) by (apply Z.mul_nonneg_nonneg; lia). lia. }
  split.
  { intros HNn. rewrite El, Er, (Z.sgn_neg N) by lia.
    assert (0 <= al * D) by (apply Z.mul_nonneg_nonneg; lia). lia. }
  split.
  { rewrite Eh, Z.abs_mul. assert (0 <= ah) by (pose proof (pw (p - 1) ltac:(lia)); lia).
    rewrite (Z.abs_eq ah) by lia. destruct Hsg as [-> | ->]; cbn [Z.abs]; lia. }
  (* the exponent *)
  apply (rat_exp_unique N D (p - 1 + extra - shift) shift HN HD Hsh); [lia|].
  replace (p - 1 + extra - shift + shift) with (dlen B q - 1) by (unfold extra; lia).
  replace (p - 1 + extra - shift + 1 + shift) with (dlen B q) by (unfold extra; lia).
  rewrite <- Hn'abs. rewrite Edm.
  assert (D * B ^ (dlen B q - 1) <= D * aq) by (apply Z.mul_le_mono_nonneg_l; lia).
  assert (D * (aq + 1) <= D * B ^ dlen B q) by (apply Z.mul_le_mono_nonneg_l; lia).
  split; lia.
Qed.

Theorem rat_to_fbig_correct p m N D : 1 <= p -> 0 < D ->
  let '(M, u, c) := rat_to_fbig_spec B p m N D in
  rat_to_fbig B p m N D = approx_of (normalize B M u) (flag_of_error (Z.sgn N) c).
Proof.
  intros Hp HD. unfold rat_to_fbig_spec, rat_to_fbig.
  destruct (Z.eqb_spec N 0) as [->|HN]; [reflexivity|].
  pose proof (to_float_split p N D Hp HD HN) as S. cbv zeta in S.
  set (nd := dlen B N - 1) in *. set (dd := dlen B D - 1) in *.
  set (shift := if nd >=? p + dd then 0 else p + dd - nd) in *.
  set (n' := N * B ^ shift) in *. set (q := Z.quot n' D) in *. set (r := Z.rem n' D) in *.
  set (extra := dlen B q - p) in *.
  destruct S as (Hsh & Hex & Eval & Hrem & Hpos & Hneg & Hhi & Hexp).
  (* the extra = 0 shortcut is the general formula *)
  assert (Hbr : (if extra =? 0 then (q, r, D)
                 else (Z.quot q (B ^ extra), Z.rem q (B ^ extra) * D + r, D * B ^ extra)) =
                (Z.quot q (B ^ extra), Z.rem q (B ^ extra) * D + r, D * B ^ extra)).
  { destruct (Z.eqb_spec extra 0) as [E|E]; [|reflexivity].
    rewrite E, Z.pow_0_r, Z.quot_1_r, Z.rem_1_r. replace (0 * D + r) with r by ring. replace (D * 1) with D by ring. reflexivity. }
  rewrite Hbr. clear Hbr.
  set (hi := Z.quot q (B ^ extra)) in *. set (rem := Z.rem q (B ^ extra) * D + r) in *.
  set (den := D * B ^ extra) in *.
  pose proof (pw extra Hex) as Pex. assert (Hden : 0 < den) by (unfold den; nia).
  rewrite Hexp. replace (p - 1 + extra - shift - p + 1) with (extra - shift) by lia.
  set (M := round_rat_at B m N D (extra - shift)).
  destruct (round_at_scaled m N D shift extra M HD Hsh Hex) as [EM Ec].
  fold M n' den in EM, Ec. rewrite Ec. clear Ec.
  (* the single rounding *)
  pose proof (round_ratio_spec m hi rem den ltac:(lia) ltac:(lia)) as RR.
  rewrite (Z.sgn_pos den), (Z.abs_eq den), Z.mul_1_l, <- Eval, <- EM in RR by lia.
  pose proof (spec_round_error m n' den Hden) as [Eerr _]. cbv zeta in Eerr. rewrite <- EM in Eerr.
  assert (HM0 : M <> 0).
  { intros E0. rewrite E0 in Eerr. pose proof (pw (p - 1) ltac:(lia)).
    assert (den <= Z.abs n').
    { rewrite Eval. destruct (Z.lt_trichotomy N 0) as [L|[L|L]]; [|lia|].
      - specialize (Hneg L). assert (hi < 0 \/ 0 < hi) by lia.
        assert (hi <= 0).
        { destruct (Z.le_gt_cases hi 0); [assumption|]. exfalso.
          assert (0 < n') by (rewrite Eval; nia). unfold n' in *. nia. }
        nia.
      - specialize (Hpos L).
        assert (0 <= hi).
        { destruct (Z.le_gt_cases 0 hi); [assumption|]. exfalso.
          assert (n' < 0) by (rewrite Eval; nia). unfold n' in *. nia. }
        nia. }
    lia. }
  assert (HMle : Z.abs M <= B ^ p).
  { rewrite <- RR. destruct (round_ratio m hi rem den); cbn [adj]; lia. }
  (* convert_int: the normal form has at most p digits, repr_round keeps it *)
  pose proof (normalize_sig_bound B B_ge_2 M 0 p Hp HMle) as Hdl.
  rewrite (normalize_shift B B_ge_2 M (extra - shift) HM0).
  destruct (Z.eqb_spec rem 0) as [Hr0|Hr0].
  - (* exact *)
    assert (EMhi : M = hi).
    { rewrite <- RR. unfold round_ratio. rewrite Hr0. cbn. ring. }
    rewrite <- EMhi. destruct (normalize B M 0) as [s0 e0] eqn:En. cbn [fst snd] in *.
    rewrite (repr_round_exact B p m s0 e0 Hdl).
    assert (Ecmp : (M * den ?= n') = Eq) by (apply Z.compare_eq_iff; rewrite Eval, Hr0, EMhi; ring).
    rewrite Ecmp. cbn [flag_of_error approx_of fst snd]. f_equal. lia.
  - set (a := round_ratio m hi rem den) in *.
    rewrite RR. destruct (normalize B M 0) as [s0 e0] eqn:En. cbn [fst snd] in *.
    rewrite (repr_round_exact B p m s0 e0 Hdl).
    assert (Eflag : flag_of_error (Z.sgn N) (M * den ?= n') = Some a).
    { assert (Ed : M * den - n' = adj a * den - rem) by (rewrite <- RR, Eval; ring).
      destruct (Z.lt_trichotomy N 0) as [L|[L|L]]; [|lia|].
      - specialize (Hneg L). rewrite (Z.sgn_neg N L).
        destruct a; cbn [adj] in Ed.
        + assert (G : M * den > n') by lia. unfold Z.gt in G. rewrite G. reflexivity.
        + exfalso. lia.
        + assert (G : M * den < n') by lia. unfold Z.lt in G. rewrite G. reflexivity.
      - specialize (Hpos L). rewrite (Z.sgn_pos N L).
        destruct a; cbn [adj] in Ed.
        + assert (G : M * den < n') by lia. unfold Z.lt in G. rewrite G. reflexivity.
        + assert (G : M * den > n') by lia. unfold Z.gt in G. rewrite G. reflexivity.
        + exfalso. lia. }
    rewrite Eflag. cbn [approx_of fst snd]. f_equal. lia.
Qed.

(** the convert_int step never rounds a second time (the run-time cross-check of the oracle) *)
Theorem rat_to_fbig_never_twice p m N D : 1 <= p -> 0 < D -> rat_to_fbig_twice B p m N D = false.
Proof.
  intros Hp HD. unfold rat_to_fbig_twice.
  destruct (Z.eqb_spec N 0) as [|HN]; [reflexivity|].
  pose proof (to_float_split p N D Hp HD HN) as S. cbv zeta in S.
  set (nd := dlen B N - 1) in *. set (dd := dlen B D - 1) in *.
  set (shift := if nd >=? p + dd then 0 else p + dd - nd) in *.
  set (n' := N * B ^ shift) in *. set (q := Z.quot n' D) in *. set (r := Z.rem n' D) in *.
  set (extra := dlen B q - p) in *.
  destruct S as (Hsh & Hex & Eval & Hrem & Hpos & Hneg & Hhi & Hexp).
  assert (Hbr : (if extra =? 0 then (q, r, D)
                 else (Z.quot q (B ^ extra), Z.rem q (B ^ extra) * D + r, D * B ^ extra)) =
                (Z.quot q (B ^ extra), Z.rem q (B ^ extra) * D + r, D * B ^ extra)).
  { destruct (Z.eqb_spec extra 0) as [E|E]; [|reflexivity].
    rewrite E, Z.pow_0_r, Z.quot_1_r, Z.rem_1_r. replace (0 * D + r) with r by ring. replace (D * 1) with D by ring. reflexivity. }
  rewrite Hbr. clear Hbr.
  set (hi := Z.quot q (B ^ extra)) in *. set (rem := Z.rem q (B ^ extra) * D + r) in *.
  set (den := D * B ^ extra) in *.
  apply Bool.andb_false_iff. right.
  assert (HMle : Z.abs (hi + adj (round_ratio m hi rem den)) <= B ^ p).
  { destruct (round_ratio m hi rem den); cbn [adj]; lia. }
  pose proof (normalize_sig_bound B B_ge_2 _ 0 p Hp HMle) as Hdl.
  destruct (Z.gtb_spec (dlen B (fst (normalize B (hi + adj (round_ratio m hi rem den)) 0))) p); [lia|reflexivity].
Qed.

End RatToFbig.

Example rat_to_fbig_correct_ex :
  rat_to_fbig 10 4 MHalfEven 1000 6 = AInexact 1667 (-1) AddOne /\
  rat_to_fbig_spec 10 4 MHalfEven 1000 6 = (1667, -1, Gt) /\
  rat_to_fbig 10 2 MHalfAway (-9449) 1000 = AInexact (-94) (-1) NoOp /\
  rat_to_fbig 2 3 MUp 80 1 = AExact 5 4.
Proof. vm_compute. repeat split; reflexivity. Qed.
