(** C06 (fourth round): FBig<R,2>::to_f32 / to_f64 and Repr<2>::to_f32 / to_f64 after the repair of
    F38 for base 2 (Repr::binary_to_f32 / binary_to_f64 / round_to_subnormal): a number of at least the
    smallest normal magnitude is rounded to 24 / 53 bits as before, a smaller one is rounded ONCE, under
    the mode of the number, to a multiple of the smallest subnormal number.  Proved: over the WHOLE
    range (normal, subnormal, underflow to zero or to the smallest subnormal, overflow) the result is
    the IEEE rounding of the exact value under the mode with the truthful flag; hence TryFrom<FBig<R,2>>
    / TryFrom<Repr<2>> for f32 / f64 succeed exactly on the representable values. *)
From Dashu Require Import Base.Prelude Float.RoundSpec Float.RoundSpecProof Float.Contract Float.Model
  Float.ModelProof Conv.ConvSpec Conv.ConvModel Conv.ConvModel2 Conv.ConvArith Conv.ConvIeee Conv.ConvEncodeProofs
  Conv.ConvFloatProofs Conv.ConvRatToFbig.
From DashuGen Require Import RoundTables.
Open Scope Z_scope.

(** a fraction below a quarter is rounded like a quarter *)
Lemma round_fract_tiny m s k : s <> 0 -> 0 <= k -> 4 * Z.abs s < 2 ^ k ->
  Z.quot s (2 ^ k) = 0 /\ Z.rem s (2 ^ k) = s /\
  round_fract 2 m 0 (Z.sgn s * 1) 2 = round_fract 2 m 0 s k.
Proof.
  intros Hs Hk Hlt. pose proof (pow2_pos k Hk) as Pk.
  destruct (quot_rem_abs s (2 ^ k) Pk) as [Eq Er].
  rewrite (Z.div_small (Z.abs s) (2 ^ k)) in Eq by lia. rewrite (Z.mod_small (Z.abs s) (2 ^ k)) in Er by lia.
  split; [lia|]. split; [lia|].
  unfold round_fract.
  destruct (Z.eqb_spec (Z.sgn s * 1) 0) as [X|_]; [lia|]. destruct (Z.eqb_spec s 0) as [X|_]; [contradiction|].
  assert (Es : sign_of (Z.sgn s * 1) = sign_of s).
  { unfold sign_of. destruct (Z.ltb_spec (Z.sgn s * 1) 0); destruct (Z.ltb_spec s 0); try reflexivity; lia. }
  rewrite Es.
  assert (E1 : (2 * Z.abs (Z.sgn s * 1) ?= 2 ^ 2) = Lt) by (apply Z.compare_lt_iff; change (2 ^ 2) with 4; lia).
  assert (E2 : (2 * Z.abs s ?= 2 ^ k) = Lt) by (apply Z.compare_lt_iff; lia).
  rewrite E1, E2. reflexivity.
Qed.

Section Subnormal.
Variable P : enc_params.
Hypothesis HMB : 1 <= MB P.
Hypothesis HW : MB P + 3 <= W P.
Hypothesis HB : 2 * BIAS P + 2 = 2 ^ (W P - 1 - MB P).
Hypothesis HBp : 1 <= BIAS P.
Hypothesis HT : TOP_MAX P = BIAS P + 1.
Hypothesis HU : UNDER P = 1 - BIAS P - MB P.
Hypothesis HN : NORM_LIM P = 1 - BIAS P \/ NORM_LIM P = 2 - BIAS P.
Local Notation f := (fmt_of P).

Lemma inf_above_mant a : 0 <= a <= 2 ^ MB P -> a < inf_bits P.
Proof.
  intros Ha. unfold inf_bits. pose proof (pow2_pos (MB P) ltac:(lia)). nia.
Qed.

(** encode of a non-negative multiplier of the smallest subnormal, at most 2^MB: exact, the pattern
    is the multiplier *)
Lemma encode_subnormal_exact a : 0 <= a <= 2 ^ MB P -> encode_asis P a (- (BIAS P - 1) - MB P) = (a, Eq).
Proof.
  intros Ha. destruct (Z.eq_dec a 0) as [->|Ha0]; [reflexivity|].
  pose proof (pow2_pos (MB P) ltac:(lia)) as PX.
  assert (Hbl : blen (Z.abs a) <= MB P + 1).
  { rewrite Z.abs_eq by lia. destruct (blen_bounds a ltac:(lia)) as [[L _] _].
    destruct (Z.le_gt_cases (blen a) (MB P + 1)); [assumption|exfalso].
    assert (2 ^ (MB P + 1) <= 2 ^ (blen a - 1)) by (apply Z.pow_le_mono_r; lia).
    rewrite pow2_succ in * by lia. lia. }
  rewrite (encode_correct P HMB HW HB HBp HT HU HN) by lia.
  unfold ieee_rne. rewrite (ieee_round_dyadic f MHalfEven a _ Ha0). cbv zeta.
  rewrite tf_emin, (tf_inf P HB). unfold fmt_of; cbn [prec].
  replace (Z.max (blen (Z.abs a) + (- (BIAS P - 1) - MB P) - (MB P + 1)) (1 - BIAS P - MB P)) with (1 - BIAS P - MB P) by lia.
  replace (1 - BIAS P - MB P - (- (BIAS P - 1) - MB P)) with 0 by lia.
  cbn [Z.leb Z.compare Z.opp]. rewrite Z.pow_0_r, Z.mul_1_r, Z.sub_diag, Z.mul_0_l, Z.add_0_l, (Z.abs_eq a) by lia.
  destruct (Z.leb_spec (inf_bits P) a) as [G|_]; [pose proof (inf_above_mant a Ha); lia|].
  destruct (Z.ltb_spec a 0); [lia|]. reflexivity.
Qed.

(** the normal range: nothing changed *)
Theorem fbig2_to_float_normal m s e : s <> 0 -> 1 - BIAS P < blen (Z.abs s) + e ->
  fbig2_to_float P m s e = fbig2_to_float_old P m s e.
Proof.
  intros Hs Hn. unfold fbig2_to_float.
  pose proof (normalize_spec 2 ltac:(lia) s e) as Hnz.
  assert (Eold : fbig2_to_float_old P m s e = fbig2_to_float_old P m (fst (normalize 2 s e)) (snd (normalize 2 s e))).
  { unfold fbig2_to_float_old. destruct (normalize 2 s e) as [s0 e0]. cbn [fst snd].
    destruct Hnz as [_ Hnz]. destruct (Hnz Hs) as (_ & Hodd & _).
    rewrite (normalize_id 2 s0 e0) by (assumption || lia). reflexivity. }
  rewrite Eold. destruct (normalize 2 s e) as [s0 e0]. cbn [fst snd].
  destruct Hnz as [_ Hnz]. destruct (Hnz Hs) as (Hs0 & Hodd & j & Hj & -> & Es).
  pose proof (pow2_pos j Hj) as PJ.
  assert (Hbl : blen (Z.abs s) = blen (Z.abs s0) + j).
  { rewrite Es, Z.abs_mul, (Z.abs_eq (2 ^ j)) by lia. apply blen_shift; lia. }
  rewrite !dlen2_blen.
  destruct (Z.eqb_spec s0 0) as [|_]; [contradiction|]. cbn [orb negb andb].
  destruct (Z.gtb_spec (e + j + blen (Z.abs s0)) (TOP_MAX P + 1)) as [Hbig|_].
  - (* the early overflow answer is what rounding + into_f32/f64_internal give *)
    rewrite (fbig2_to_float_correct P HMB HW HB HBp HT HU HN m s0 (e + j) Hs0 ltac:(lia)).
    unfold to_float_spec. cbv zeta. rewrite (ieee_round_dyadic f m s0 (e + j) Hs0). cbv zeta.
    rewrite tf_emin, tf_sign, (tf_inf P HB). unfold fmt_of; cbn [prec].
    set (top := blen (Z.abs s0) + (e + j)).
    replace (Z.max (top - (MB P + 1)) (1 - BIAS P - MB P)) with (top - (MB P + 1)) by lia.
    replace (MB P + 1 - 1) with (MB P) by lia.
    pose proof (pow2_pos (MB P) ltac:(lia)) as PX.
    assert (Hinf : forall M, inf_bits P <= (top - (MB P + 1) - (1 - BIAS P - MB P)) * 2 ^ MB P + Z.abs M).
    { intros M. unfold inf_bits. assert (2 * BIAS P + 1 <= top - (MB P + 1) - (1 - BIAS P - MB P)) by (unfold top; lia).
      assert ((2 * BIAS P + 1) * 2 ^ MB P <= (top - (MB P + 1) - (1 - BIAS P - MB P)) * 2 ^ MB P) by (apply Z.mul_le_mono_nonneg_r; lia).
      lia. }
    match goal with |- context [inf_bits P <=? ?x * 2 ^ MB P + Z.abs ?M] => destruct (Z.leb_spec (inf_bits P) (x * 2 ^ MB P + Z.abs M)) as [_|G]; [|pose proof (Hinf M); lia] end.
    cbn [fst snd]. destruct (Z.ltb_spec s0 0) as [L|L]; cbn [flag_of_error].
    + rewrite (Z.sgn_neg s0 L). reflexivity.
    + rewrite (Z.sgn_pos s0) by lia. reflexivity.
  - destruct (Z.gtb_spec (e + j + blen (Z.abs s0)) (- (BIAS P - 1))) as [_|G]; [reflexivity | lia].
Qed.

(** below the smallest normal number: one rounding at the smallest subnormal *)
Theorem fbig2_to_float_subnormal m s e : s <> 0 -> blen (Z.abs s) + e <= 1 - BIAS P ->
  fbig2_to_float P m s e = to_float_spec f m s e.
Proof.
  intros Hs Hn. unfold fbig2_to_float, to_float_spec. cbv zeta.
  pose proof (normalize_spec 2 ltac:(lia) s e) as Hnz.
  destruct (normalize 2 s e) as [s0 e0]. destruct Hnz as [_ Hnz].
  destruct (Hnz Hs) as (Hs0 & Hodd & j & Hj & -> & Es). clear Hnz.
  pose proof (pow2_pos j Hj) as PJ. pose proof (pow2_pos (MB P) ltac:(lia)) as PX.
  assert (Hbl : blen (Z.abs s) = blen (Z.abs s0) + j).
  { rewrite Es, Z.abs_mul, (Z.abs_eq (2 ^ j)) by lia. apply blen_shift; lia. }
  assert (Hsg : Z.sgn s = Z.sgn s0) by (rewrite Es, Z.sgn_mul, (Z.sgn_pos (2 ^ j)) by lia; lia).
  rewrite Hsg. rewrite Es. rewrite (ieee_round_dyadic_shift f m s0 j e Hs0 Hj). clear Es Hsg.
  set (e0 := e + j) in *. assert (Hn0 : blen (Z.abs s0) + e0 <= 1 - BIAS P) by (unfold e0; lia). clearbody e0. clear Hn Hbl Hs.
  rewrite !dlen2_blen.
  destruct (Z.eqb_spec s0 0) as [|_]; [contradiction|]. cbn [orb negb andb].
  destruct (Z.gtb_spec (e0 + blen (Z.abs s0)) (TOP_MAX P + 1)) as [G|_]; [lia|].
  destruct (Z.gtb_spec (e0 + blen (Z.abs s0)) (- (BIAS P - 1))) as [G|_]; [lia|].
  set (me := - (BIAS P - 1) - MB P).
  (* the specification *)
  rewrite (ieee_round_dyadic f m s0 e0 Hs0). cbv zeta. rewrite tf_emin, tf_sign, (tf_inf P HB). unfold fmt_of; cbn [prec].
  replace (Z.max (blen (Z.abs s0) + e0 - (MB P + 1)) (1 - BIAS P - MB P)) with me by (unfold me; lia).
  replace (1 - BIAS P - MB P) with me by (unfold me; lia).
  rewrite Z.sub_diag, Z.mul_0_l, Z.add_0_l.
  set (k := me - e0).
  destruct (blen_bounds (Z.abs s0) ltac:(lia)) as [[BL BU] B1].
  unfold round_to_subnormal.
  destruct (Z.leb_spec me e0) as [Hk|Hk].
  - (* already a multiple of the smallest subnormal: exact *)
    destruct (Z.leb_spec k 0) as [_|G]; [|unfold k in G; lia].
    replace (- k) with (e0 - me) by (unfold k; lia).
    set (M := s0 * 2 ^ (e0 - me)).
    assert (HM : 0 <= Z.abs M <= 2 ^ MB P).
    { split; [lia|]. unfold M. pose proof (pow2_pos (e0 - me) ltac:(lia)) as PE.
      rewrite Z.abs_mul, (Z.abs_eq (2 ^ (e0 - me))) by lia.
      assert (2 ^ blen (Z.abs s0) * 2 ^ (e0 - me) <= 2 ^ MB P).
      { rewrite <- Z.pow_add_r by lia. apply Z.pow_le_mono_r; [lia|]. unfold me. lia. }
      assert (Z.abs s0 * 2 ^ (e0 - me) <= 2 ^ blen (Z.abs s0) * 2 ^ (e0 - me)) by (apply Z.mul_le_mono_nonneg_r; lia).
      lia. }
    pose proof (encode_subnormal_exact (Z.abs M) HM) as EE. fold me in EE. rewrite EE. clear EE. cbn [fst snd].
    destruct (Z.leb_spec (inf_bits P) (Z.abs M)) as [G|_]; [pose proof (inf_above_mant (Z.abs M) HM); lia|].
    cbn [fst snd flag_of_error]. reflexivity.
  - (* a genuine rounding at 2^me *)
    destruct (Z.leb_spec k 0) as [G|Hk0]; [unfold k in G; lia|].
    assert (Hk1 : 1 <= k) by lia.
    set (M := spec_round m s0 (2 ^ k)).
    pose proof (pow2_pos k ltac:(lia)) as PK.
    assert (Hlen : blen (Z.abs s0) <= MB P + k) by (unfold k, me; lia).
    assert (HM : 0 <= Z.abs M <= 2 ^ MB P).
    { split; [lia|]. pose proof (spec_round_error m s0 (2 ^ k) PK) as [Eerr _]. cbv zeta in Eerr. fold M in Eerr.
      assert (Hs0k : Z.abs s0 < 2 ^ MB P * 2 ^ k).
      { rewrite <- Z.pow_add_r by lia. assert (2 ^ blen (Z.abs s0) <= 2 ^ (MB P + k)) by (apply Z.pow_le_mono_r; lia). lia. }
      assert (Z.abs (M * 2 ^ k) = Z.abs M * 2 ^ k) by (rewrite Z.abs_mul, (Z.abs_eq (2 ^ k)); lia).
      destruct (Z.le_gt_cases (Z.abs M) (2 ^ MB P)) as [|G]; [assumption|exfalso].
      assert ((2 ^ MB P + 1) * 2 ^ k <= Z.abs M * 2 ^ k) by (apply Z.mul_le_mono_nonneg_r; lia). lia. }
    pose proof (round_flag m s0 k Hodd Hk1) as Hfl. fold M in Hfl.
    pose proof (normalized_low_nonzero 2 ltac:(lia) s0 k Hodd Hk1) as Hlo.
    assert (Eman : forall hi lo, hi = Z.quot s0 (2 ^ k) -> lo = Z.rem s0 (2 ^ k) ->
              hi + adj (round_fract 2 m hi lo k) = M).
    { intros hi lo -> ->.
      assert (Hrb : Z.abs (Z.rem s0 (2 ^ k)) < 2 ^ k).
      { pose proof (Z.rem_bound_abs s0 (2 ^ k) ltac:(lia)) as RB. rewrite (Z.abs_eq (2 ^ k)) in RB by lia. exact RB. }
      rewrite (round_fract_spec 2 ltac:(lia) m _ _ k ltac:(lia) Hrb).
      unfold M. f_equal. pose proof (Z.quot_rem' s0 (2 ^ k)). lia. }
    replace (me - e0) with k by reflexivity.
    rewrite ?dlen2_blen.
    assert (Eres : (if k >? blen (Z.abs s0) + 1
             then (0 + adj (round_fract 2 m 0 (Z.sgn s0 * 1) 2), Some (round_fract 2 m 0 (Z.sgn s0 * 1) 2))
             else let '(hi, lo) := split_digits 2 s0 k in
                  if lo =? 0 then (hi, None) else (hi + adj (round_fract 2 m hi lo k), Some (round_fract 2 m hi lo k))) =
            (M, flag_of_error (Z.sgn s0) (M * 2 ^ k ?= s0))).
    { destruct (Z.gtb_spec k (blen (Z.abs s0) + 1)) as [Ht|Ht].
      - assert (H4 : 4 * Z.abs s0 < 2 ^ k).
        { assert (2 ^ (blen (Z.abs s0) + 2) <= 2 ^ k) by (apply Z.pow_le_mono_r; lia).
          rewrite Z.pow_add_r in * by lia. change (2 ^ 2) with 4 in *. lia. }
        destruct (round_fract_tiny m s0 k Hs0 ltac:(lia) H4) as (Q0 & R0 & ET). rewrite ET.
        rewrite Q0, R0 in Hfl. rewrite <- Hfl. f_equal. apply Eman; symmetry; assumption.
      - unfold split_digits. destruct (Z.eqb_spec (Z.rem s0 (2 ^ k)) 0) as [X|_]; [contradiction|].
        rewrite <- Hfl. f_equal. apply Eman; reflexivity. }
    rewrite Eres. clear Eres.
    pose proof (encode_subnormal_exact (Z.abs M) HM) as EE. fold me in EE. rewrite EE. clear EE. cbn [fst snd].
    destruct (Z.leb_spec (inf_bits P) (Z.abs M)) as [G|_]; [pose proof (inf_above_mant (Z.abs M) HM); lia|].
    cbn [fst snd]. reflexivity.
Qed.

(** the whole range *)
Theorem fbig2_to_float_all m s e : s <> 0 -> fbig2_to_float P m s e = to_float_spec f m s e.
Proof.
  intros Hs. destruct (Z.le_gt_cases (blen (Z.abs s) + e) (1 - BIAS P)) as [H|H].
  - apply fbig2_to_float_subnormal; assumption.
  - rewrite fbig2_to_float_normal by (assumption || lia).
    apply (fbig2_to_float_correct P HMB HW HB HBp HT HU HN); [assumption | lia].
Qed.

(** TryFrom<FBig<R,2>> / TryFrom<Repr<2>> for f32 / f64 over the repaired conversion: Ok(pattern)
    exactly when the value is a value of the format, for every mode, over the whole range *)
Theorem fbig2_try_to_float_all m s e : s <> 0 ->
  conv_ok (fbig2_try_to_float P m s e) = exact_to_float f (fst (frac_of s e)) (snd (frac_of s e)).
Proof.
  intros Hs. unfold fbig2_try_to_float. rewrite (fbig2_to_float_all m s e Hs).
  unfold to_float_spec, exact_to_float, ieee_rne. cbv zeta.
  pose proof (normalize_spec 2 ltac:(lia) s e) as Hnz.
  destruct (normalize 2 s e) as [s0 e0]. destruct Hnz as [_ Hnz].
  destruct (Hnz Hs) as (Hs0 & Hodd & j & Hj & _ & Es). clear Hnz.
  pose proof (pow2_pos j Hj) as PJ.
  assert (Hsg : Z.sgn s = Z.sgn s0) by (rewrite Es, Z.sgn_mul, (Z.sgn_pos (2 ^ j)) by lia; lia).
  rewrite Hsg. rewrite Es. rewrite !(ieee_round_dyadic_shift f _ s0 j e Hs0 Hj).
  rewrite (ieee_round_dyadic f m s0 (e + j) Hs0), (ieee_round_dyadic f MHalfEven s0 (e + j) Hs0). cbv zeta.
  set (u := Z.max (blen (Z.abs s0) + (e + j) - prec f) (emin f)). set (k := u - (e + j)).
  destruct (Z.leb_spec k 0) as [Hk|Hk].
  - destruct (inf_mag f <=? _); cbn [fst snd flag_of_error conv_ok].
    + destruct (s0 <? 0); cbn [flag_of_error]; destruct (_ =? inf_bits P); reflexivity.
    + reflexivity.
  - assert (Hne : forall M, (M * 2 ^ k ?= s0) <> Eq).
    { intros M E. apply Z.compare_eq_iff in E. apply Hodd. rewrite <- E.
      replace k with (1 + (k - 1)) by lia. rewrite Z.pow_add_r, Z.pow_1_r by lia.
      replace (M * (2 * 2 ^ (k - 1))) with (M * 2 ^ (k - 1) * 2) by ring. apply Z.mod_mul. lia. }
    pose proof (Hne (spec_round m s0 (2 ^ k))) as N1. pose proof (Hne (spec_round MHalfEven s0 (2 ^ k))) as N2.
    destruct (inf_mag f <=? _); destruct (inf_mag f <=? _); cbn [fst snd];
      repeat match goal with
             | |- context [spec_round ?mm s0 (2 ^ k) * 2 ^ k ?= s0] => destruct (spec_round mm s0 (2 ^ k) * 2 ^ k ?= s0); try contradiction
             end;
      destruct (s0 <? 0); cbn [flag_of_error conv_ok]; try destruct (0 <? Z.sgn s0); try destruct (Z.sgn s0 <? 0);
      try destruct (_ =? inf_bits P); reflexivity.
Qed.

End Subnormal.

(* ------------------------------------------------------------------ the two formats *)

Theorem fbig2_to_f64_all m s e : s <> 0 -> fbig2_to_float P64 m s e = to_float_spec F64 m s e.
Proof.
  intros Hs. change F64 with (fmt_of P64).
  apply (fbig2_to_float_all P64); [cbn; lia | cbn; lia | reflexivity | cbn; lia | reflexivity | reflexivity | left; reflexivity | assumption].
Qed.

Theorem fbig2_to_f32_all m s e : s <> 0 -> fbig2_to_float P32 m s e = to_float_spec F32 m s e.
Proof.
  intros Hs. change F32 with (fmt_of P32).
  apply (fbig2_to_float_all P32); [cbn; lia | cbn; lia | reflexivity | cbn; lia | reflexivity | reflexivity | right; reflexivity | assumption].
Qed.

Theorem fbig2_try_to_f64_all m s e : s <> 0 ->
  conv_ok (fbig2_try_to_float P64 m s e) = exact_to_float F64 (fst (frac_of s e)) (snd (frac_of s e)).
Proof.
  intros Hs. change F64 with (fmt_of P64).
  apply (fbig2_try_to_float_all P64); [cbn; lia | cbn; lia | reflexivity | cbn; lia | reflexivity | reflexivity | left; reflexivity | assumption].
Qed.

Theorem fbig2_try_to_f32_all m s e : s <> 0 ->
  conv_ok (fbig2_try_to_float P32 m s e) = exact_to_float F32 (fst (frac_of s e)) (snd (frac_of s e)).
Proof.
  intros Hs. change F32 with (fmt_of P32).
  apply (fbig2_try_to_float_all P32); [cbn; lia | cbn; lia | reflexivity | cbn; lia | reflexivity | reflexivity | right; reflexivity | assumption].
Qed.

(** the statements of the earlier rounds over the normal range, for the repaired conversion *)
Theorem fbig2_to_f64_correct_r4 m s e :
  s <> 0 -> emin F64 + prec F64 - 1 < blen (Z.abs s) + e ->
  fbig2_to_float P64 m s e =
    FR (fst (ieee_round F64 m (fst (frac_of s e)) (snd (frac_of s e))))
       (flag_of_error (Z.sgn s) (snd (ieee_round F64 m (fst (frac_of s e)) (snd (frac_of s e))))).
Proof. intros Hs _. exact (fbig2_to_f64_all m s e Hs). Qed.

Theorem fbig2_to_f32_correct_r4 m s e :
  s <> 0 -> emin F32 + prec F32 - 1 < blen (Z.abs s) + e ->
  fbig2_to_float P32 m s e =
    FR (fst (ieee_round F32 m (fst (frac_of s e)) (snd (frac_of s e))))
       (flag_of_error (Z.sgn s) (snd (ieee_round F32 m (fst (frac_of s e)) (snd (frac_of s e))))).
Proof. intros Hs _. exact (fbig2_to_f32_all m s e Hs). Qed.

Theorem fbig_to_f64_base2 m s e : s <> 0 -> fbig_to_float P64 2 m s e = Ok (to_float_spec F64 m s e).
Proof. intros Hs. unfold fbig_to_float. cbn [Z.eqb Pos.eqb]. rewrite fbig2_to_f64_all by assumption. reflexivity. Qed.
Theorem fbig_to_f32_base2 m s e : s <> 0 -> fbig_to_float P32 2 m s e = Ok (to_float_spec F32 m s e).
Proof. intros Hs. unfold fbig_to_float. cbn [Z.eqb Pos.eqb]. rewrite fbig2_to_f32_all by assumption. reflexivity. Qed.

Example fbig2_subnormal_examples :
  fbig2_to_float P32 MHalfEven 3 (-151) = FR 1 (Some AddOne) /\
  fbig2_to_float P32 MHalfEven (2 ^ 25 + 23) (-153) = FR (2 ^ 21 + 1) (Some NoOp) /\
  fbig2_to_float P32 MUp 1 (-100000) = FR 1 (Some AddOne) /\
  fbig2_to_float P32 MDown (-1) (-100000) = FR (2 ^ 31 + 1) (Some SubOne) /\
  fbig2_to_float P32 MZero (-1) (-100000) = FR (2 ^ 31) (Some NoOp) /\
  fbig2_to_float P64 MHalfEven 1 (-1075) = FR 0 (Some NoOp) /\
  fbig2_to_float P64 MHalfEven 3 (-1076) = FR 1 (Some AddOne) /\
  fbig2_to_float P64 MHalfAway 1 (-1075) = FR 1 (Some AddOne) /\
  fbig2_to_float P32 MHalfEven (2 ^ 24 - 1) (-150) = FR (2 ^ 23) (Some AddOne) /\
  fbig2_to_float P32 MHalfEven 5 (-149) = FR 5 None.
Proof. vm_compute. repeat split; reflexivity. Qed.
