(** C06 (fourth round): TryFrom<Relaxed> for UBig / IBig (and through them the primitive integers) after
    the repair 4757027: the number is canonicalised (divided by the gcd of the stored pair) before the
    stored denominator is tested.  For EVERY stored pair (N, D), D > 0 - reduced or not - the conversion
    succeeds exactly on the integers. *)
From Dashu Require Import Base.Prelude Conv.ConvSpec Conv.ConvModel Conv.ConvTryProofs.
Open Scope Z_scope.

(** Relaxed::canonicalize = Repr::reduce: both parts divided by their gcd *)
Definition relaxed_try_to_ibig (N D : Z) : conv Z := let g := Z.gcd N D in rat_try_to_ibig (N / g) (D / g).
Definition relaxed_try_to_ubig (N D : Z) : conv Z := let g := Z.gcd N D in rat_try_to_ubig (N / g) (D / g).

Lemma reduce_facts N D : 0 < D ->
  let g := Z.gcd N D in
  0 < g /\ N = N / g * g /\ D = D / g * g /\ 0 < D / g /\ Z.gcd (N / g) (D / g) = 1.
Proof.
  intros HD g. assert (Hg : 0 < g).
  { pose proof (Z.gcd_nonneg N D). destruct (Z.eq_dec g 0) as [E|]; [|unfold g in *; lia].
    apply Z.gcd_eq_0_r in E. lia. }
  destruct (Z.gcd_divide_l N D) as [a Ha]. destruct (Z.gcd_divide_r N D) as [b Hb]. fold g in Ha, Hb.
  assert (EN : N / g = a) by (rewrite Ha at 1; apply Z.div_mul; lia).
  assert (ED : D / g = b) by (rewrite Hb at 1; apply Z.div_mul; lia).
  rewrite EN, ED. repeat split; try assumption.
  - nia.
  - rewrite <- EN, <- ED. apply Z.gcd_div_gcd; [unfold g in *; lia | reflexivity].
Qed.

Lemma rat_to_int_spec_scale uns N D g : 0 < D -> 0 < g ->
  rat_to_int_spec uns (N * g) (D * g) = rat_to_int_spec uns N D.
Proof.
  intros HD Hg. unfold rat_to_int_spec.
  rewrite Z.mul_mod_distr_r by lia. rewrite Z.div_mul_cancel_r by lia.
  assert (E1 : (N mod D * g =? 0) = (N mod D =? 0)).
  { destruct (Z.eqb_spec (N mod D) 0) as [->|H]; [reflexivity|]. apply Z.eqb_neq. nia. }
  assert (E2 : (N * g <? 0) = (N <? 0)).
  { destruct (Z.ltb_spec N 0); destruct (Z.ltb_spec (N * g) 0); try reflexivity; nia. }
  rewrite E1, E2. reflexivity.
Qed.

Theorem relaxed_try_to_ibig_correct N D : 0 < D -> relaxed_try_to_ibig N D = rat_to_int_spec false N D.
Proof.
  intros HD. unfold relaxed_try_to_ibig. destruct (reduce_facts N D HD) as (Hg & EN & ED & HD' & Hc). cbv zeta in *.
  rewrite (rat_try_to_ibig_correct _ _ HD' Hc).
  set (g := Z.gcd N D) in *. set (N' := N / g) in *. set (D' := D / g) in *.
  rewrite <- (rat_to_int_spec_scale false N' D' g HD' Hg). rewrite <- EN, <- ED. reflexivity.
Qed.

Theorem relaxed_try_to_ubig_correct N D : 0 < D -> relaxed_try_to_ubig N D = rat_to_int_spec true N D.
Proof.
  intros HD. unfold relaxed_try_to_ubig. destruct (reduce_facts N D HD) as (Hg & EN & ED & HD' & Hc). cbv zeta in *.
  rewrite (rat_try_to_ubig_correct _ _ HD' Hc).
  set (g := Z.gcd N D) in *. set (N' := N / g) in *. set (D' := D / g) in *.
  rewrite <- (rat_to_int_spec_scale true N' D' g HD' Hg). rewrite <- EN, <- ED. reflexivity.
Qed.

(** before the repair the stored denominator was tested: 6/3 was refused *)
Example relaxed_examples :
  relaxed_try_to_ibig 6 3 = COk 2 /\ rat_try_to_ibig 6 3 = CLossOfPrecision /\ rat_to_int_spec false 6 3 = COk 2 /\
  relaxed_try_to_ubig (-9) 3 = COutOfBounds /\ relaxed_try_to_ibig 7 3 = CLossOfPrecision.
Proof. vm_compute. repeat split; reflexivity. Qed.
