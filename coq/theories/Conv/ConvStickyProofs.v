(** C06: truncation to the top bits with a sticky bit, followed by encode, is a single correct
    rounding: UBig/IBig::to_f32/to_f64 on the multi-word route and RBig::to_f32/to_f64. *)
From Dashu Require Import Base.Prelude Float.RoundSpec Float.Contract Float.Model
  Conv.ConvSpec Conv.ConvModel Conv.ConvArith Conv.ConvIeee Conv.ConvEncodeProofs Conv.ConvPrimProofs.
Open Scope Z_scope.

Lemma lor_1 t : 0 <= t -> Z.lor t 1 = 2 * (t / 2) + 1.
Proof.
  intros Ht. apply Z.bits_inj'. intros n Hn. rewrite Z.lor_spec.
  destruct (Z.eq_dec n 0) as [->|Hn0].
  - rewrite Z.testbit_odd_0. change (Z.testbit 1 0) with true. apply orb_true_r.
  - replace n with (Z.succ (n - 1)) by lia.
    rewrite Z.testbit_odd_succ by lia.
    rewrite <- (Z.div2_bits t) by lia.
    rewrite (Z.bits_above_log2 1 (Z.succ (n - 1))) by (cbn; lia). apply orb_false_r.
Qed.

Definition sticky_of (v k : Z) : Z := Z.lor (v / 2 ^ k) (if v mod 2 ^ k =? 0 then 0 else 1).

Lemma sticky_cases v k : 0 <= v -> 0 <= k ->
  (v mod 2 ^ k = 0 /\ sticky_of v k = v / 2 ^ k) \/
  (v mod 2 ^ k <> 0 /\ sticky_of v k = 2 * (v / 2 ^ k / 2) + 1).
Proof.
  intros Hv Hk. unfold sticky_of. destruct (Z.eqb_spec (v mod 2 ^ k) 0).
  - left. split; [assumption|]. apply Z.lor_0_r.
  - right. split; [assumption|]. apply lor_1. apply Z.div_pos; [lia | apply pow2_pos; lia].
Qed.

(** the round bits at position k + c of v are the round bits at position c of the sticky
    truncation, as soon as two guard bits are kept (c >= 2) *)
Lemma round_bits_sticky v k c : 0 <= v -> 0 <= k -> 2 <= c ->
  round_bits v (k + c) = round_bits (sticky_of v k) c /\
  v / 2 ^ (k + c) = sticky_of v k / 2 ^ c.
Proof.
  intros Hv Hk Hc.
  pose proof (pow2_pos k Hk) as Hpk. pose proof (pow2_pos c ltac:(lia)) as Hpc.
  pose proof (pow2_pos (c - 1) ltac:(lia)) as Hpc1. pose proof (pow2_pos (c - 2) ltac:(lia)) as Hpc2.
  set (t := v / 2 ^ k).
  assert (Ht : 0 <= t) by (apply Z.div_pos; lia).
  assert (D1 : v / 2 ^ (k + c) = t / 2 ^ c).
  { rewrite pow2_split by lia. rewrite <- Z.div_div by lia. reflexivity. }
  assert (D2 : v / 2 ^ (k + c - 1) = t / 2 ^ (c - 1)).
  { replace (k + c - 1) with (k + (c - 1)) by lia. rewrite pow2_split by lia. rewrite <- Z.div_div by lia. reflexivity. }
  assert (D3 : v mod 2 ^ (k + c - 1) = (t mod 2 ^ (c - 1)) * 2 ^ k + v mod 2 ^ k).
  { replace (k + c - 1) with (k + (c - 1)) by lia. rewrite pow2_split by lia.
    rewrite Z.rem_mul_r by lia. fold t. ring. }
  assert (C1 : 2 ^ c = 2 * 2 ^ (c - 1)).
  { replace c with (Z.succ (c - 1)) at 1 by lia. rewrite Z.pow_succ_r by lia. reflexivity. }
  assert (C2 : 2 ^ (c - 1) = 2 * 2 ^ (c - 2)).
  { replace (c - 1) with (Z.succ (c - 2)) at 1 by lia. rewrite Z.pow_succ_r by lia. reflexivity. }
  destruct (sticky_cases v k Hv Hk) as [[Hz Hs]|[Hnz Hs]]; fold t in Hs.
  - (* nothing below: the truncation is the value *)
    rewrite Hs. split; [|exact D1]. unfold round_bits. rewrite D1, D2, D3, Hz, Z.add_0_r.
    do 2 f_equal.
    destruct (Z.eqb_spec (t mod 2 ^ (c - 1)) 0) as [->|Hne]; [reflexivity|].
    destruct (Z.eqb_spec (t mod 2 ^ (c - 1) * 2 ^ k) 0); [nia|reflexivity].
  - set (t2 := t / 2) in *.
    assert (Et : t = 2 * t2 + t mod 2) by (unfold t2; apply Z.div_mod; lia).
    pose proof (Z.mod_pos_bound t 2 ltac:(lia)) as Hb.
    (* dividing by at least 2 forgets bit 0 *)
    assert (Q1 : forall d, 0 <= d -> t / (2 * 2 ^ d) = (2 * t2 + 1) / (2 * 2 ^ d)).
    { intros d Hd. pose proof (pow2_pos d Hd).
      rewrite <- !Z.div_div by lia. f_equal. fold t2.
      rewrite (Z.mul_comm 2 t2), Z.div_add_l by lia. change (1 / 2) with 0. lia. }
    assert (E1 : t / 2 ^ c = (2 * t2 + 1) / 2 ^ c) by (rewrite C1; apply Q1; lia).
    assert (E2 : t / 2 ^ (c - 1) = (2 * t2 + 1) / 2 ^ (c - 1)) by (rewrite C2; apply Q1; lia).
    rewrite Hs. split; [|rewrite D1; exact E1].
    unfold round_bits. rewrite D1, D2, D3, E1, E2. do 2 f_equal.
    pose proof (Z.mod_pos_bound v (2 ^ k) Hpk).
    pose proof (Z.mod_pos_bound t (2 ^ (c - 1)) Hpc1).
    destruct (Z.eqb_spec (t mod 2 ^ (c - 1) * 2 ^ k + v mod 2 ^ k) 0); [nia|].
    destruct (Z.eqb_spec ((2 * t2 + 1) mod 2 ^ (c - 1)) 0) as [Hm|]; [|reflexivity].
    exfalso. (* an odd number is not a multiple of 2^(c-1), c - 1 >= 1 *)
    pose proof (Z.div_mod (2 * t2 + 1) (2 ^ (c - 1)) ltac:(lia)) as Hdm. rewrite Hm, C2 in Hdm. lia.
Qed.

(** rounding v at position k + c = rounding its sticky truncation at position c *)
Theorem rne_sticky v k c : 0 <= v -> 0 <= k -> 2 <= c ->
  rne v (k + c) = rne (sticky_of v k) c /\
  (rne v (k + c) * 2 ^ (k + c) ?= v) = (rne (sticky_of v k) c * 2 ^ c ?= sticky_of v k).
Proof.
  intros Hv Hk Hc.
  destruct (round_bits_sticky v k c Hv Hk Hc) as [Hrb Hq].
  assert (Hm : 0 <= sticky_of v k).
  { destruct (sticky_cases v k Hv Hk) as [[_ ->]|[_ ->]].
    - apply Z.div_pos; [lia | apply pow2_pos; lia].
    - assert (0 <= v / 2 ^ k / 2) by (apply Z.div_pos; [apply Z.div_pos; [lia | apply pow2_pos; lia] | lia]). lia. }
  destruct (rne_round_bits v (k + c) Hv ltac:(lia)) as [A1 [A2 A3]].
  destruct (rne_round_bits (sticky_of v k) c Hm ltac:(lia)) as [B1 [B2 B3]].
  rewrite <- Hrb in B1, B2, B3. rewrite <- Hq in B1.
  split; [congruence|].
  destruct (Z.eq_dec (round_bits v (k + c) mod 4) 0) as [Hz|Hz].
  - (* exact on both sides *)
    assert (Hadj : (6 <=? round_bits v (k + c)) || (round_bits v (k + c) =? 3) = false).
    { pose proof (round_bits_range v (k + c)). pose proof (Z.div_mod (round_bits v (k + c)) 4 ltac:(lia)).
      destruct (Z.leb_spec 6 (round_bits v (k + c))); destruct (Z.eqb_spec (round_bits v (k + c)) 3); cbn; lia. }
    rewrite Hadj, Z.add_0_r in A1, B1.
    rewrite Hz in A2, B2. symmetry in A2, B2. apply Z.eqb_eq in A2, B2.
    pose proof (Z.div_mod v (2 ^ (k + c)) ltac:(pose proof (pow2_pos (k + c)); lia)).
    pose proof (Z.div_mod (sticky_of v k) (2 ^ c) ltac:(pose proof (pow2_pos c); lia)).
    rewrite A1, B1. rewrite Hq in *.
    transitivity Eq; [|symmetry]; apply Z.compare_eq_iff; lia.
  - rewrite (A3 Hz), (B3 Hz). reflexivity.
Qed.

Lemma blen_pos_arg a : 1 <= blen a -> 0 < a.
Proof. unfold blen. destruct (Z.leb_spec a 0); lia. Qed.

Lemma blen_sticky v k : 0 < v -> 0 <= k -> k + 2 <= blen v -> blen (sticky_of v k) = blen v - k.
Proof.
  intros Hv Hk Hn. destruct (blen_bounds v Hv) as [[H1 H2] H3]. set (n := blen v) in *.
  pose proof (pow2_pos k Hk) as Hpk.
  assert (P1 : 2 ^ (n - 1) = 2 ^ (n - k - 1) * 2 ^ k) by (rewrite <- pow2_split by lia; f_equal; lia).
  assert (P2 : 2 ^ n = 2 ^ (n - k) * 2 ^ k) by (rewrite <- pow2_split by lia; f_equal; lia).
  assert (P3 : 2 ^ (n - k) = 2 * 2 ^ (n - k - 1)).
  { replace (n - k) with (Z.succ (n - k - 1)) at 1 by lia. rewrite Z.pow_succ_r by lia. reflexivity. }
  assert (P4 : 2 ^ (n - k - 1) = 2 * 2 ^ (n - k - 2)).
  { replace (n - k - 1) with (Z.succ (n - k - 2)) at 1 by lia. rewrite Z.pow_succ_r by lia. reflexivity. }
  pose proof (pow2_pos (n - k - 2) ltac:(lia)).
  assert (T1 : 2 ^ (n - k - 1) <= v / 2 ^ k) by (apply Z.div_le_lower_bound; lia).
  assert (T2 : v / 2 ^ k < 2 ^ (n - k)) by (apply Z.div_lt_upper_bound; lia).
  apply blen_unique; [lia|]. replace (n - k - 1) with (n - k - 1) by lia.
  destruct (sticky_cases v k ltac:(lia) Hk) as [[_ ->]|[_ ->]]; [lia|].
  pose proof (Z.div_mod (v / 2 ^ k) 2 ltac:(lia)). pose proof (Z.mod_pos_bound (v / 2 ^ k) 2 ltac:(lia)).
  lia.
Qed.

(** the specification does not see the difference between v and its sticky truncation *)
Theorem ieee_rne_sticky f v k : 0 < v -> 0 <= k -> prec f + 2 <= blen v - k -> 1 <= prec f ->
  ieee_rne f (fst (frac_of (sticky_of v k) k)) (snd (frac_of (sticky_of v k) k)) = ieee_rne f v 1.
Proof.
  intros Hv Hk Hp Hp1.
  assert (Hbl : blen (sticky_of v k) = blen v - k) by (apply blen_sticky; lia).
  assert (Hm : 0 < sticky_of v k) by (apply blen_pos_arg; lia).
  pose proof (ieee_rne_dyadic f (sticky_of v k) k Hm) as A. cbv zeta in A. rewrite A. clear A.
  pose proof (ieee_rne_dyadic f v 0 Hv) as B. cbv zeta in B.
  replace (fst (frac_of v 0)) with v in B by (cbn; lia). change (snd (frac_of v 0)) with 1 in B.
  rewrite B. clear B.
  rewrite Hbl. replace (blen v - k + k) with (blen v) by lia. rewrite Z.add_0_r, Z.sub_0_r.
  set (u := Z.max (blen v - prec f) (emin f)).
  assert (Hc : 2 <= u - k) by (unfold u; lia).
  destruct (Z.leb_spec (u - k) 0); [lia|]. destruct (Z.leb_spec u 0); [lia|].
  destruct (rne_sticky v k (u - k) ltac:(lia) Hk Hc) as [R1 R2].
  replace (k + (u - k)) with u in R1, R2 by lia.
  rewrite R2, R1. reflexivity.
Qed.

Section ToFloat.
Variable P : enc_params.
Hypothesis HMB : 1 <= MB P.
Hypothesis HW : MB P + 4 <= W P.
Hypothesis HB : 2 * BIAS P + 2 = 2 ^ (W P - 1 - MB P).
Hypothesis HBp : 1 <= BIAS P.
Hypothesis HT : TOP_MAX P = BIAS P + 1.
Hypothesis HU : UNDER P = 1 - BIAS P - MB P.
Hypothesis HN : NORM_LIM P = 1 - BIAS P \/ NORM_LIM P = 2 - BIAS P.

(** to_f32_nontrivial / to_f64_nontrivial: every integer of at least W bits *)
Theorem to_float_nontrivial_correct v : W P <= blen v ->
  to_float_nontrivial P v = ieee_rne (fmt_of P) v 1.
Proof.
  intros Hn. assert (Hv : 0 < v) by (apply blen_pos_arg; lia).
  set (k := blen v - (W P - 1)).
  assert (Hbl : blen (sticky_of v k) = W P - 1) by (unfold k; rewrite blen_sticky by lia; lia).
  assert (Hm : 0 < sticky_of v k) by (apply blen_pos_arg; lia).
  rewrite <- (ieee_rne_sticky (fmt_of P) v k) by (try assumption; unfold k; cbn [prec fmt_of]; lia).
  rewrite <- (encode_correct P) by (try assumption; try lia; rewrite Z.abs_eq by lia; lia).
  unfold to_float_nontrivial. fold k. fold (sticky_of v k).
  destruct (Z.gtb_spec (blen v) (TOP_MAX P)) as [Hov|]; [|reflexivity].
  (* the shortcut for more than TOP_MAX bits is the overflow branch of encode *)
  unfold encode_asis.
  destruct (Z.eqb_spec (sticky_of v k) 0); [lia|]. destruct (Z.ltb_spec (sticky_of v k) 0); [lia|].
  rewrite (Z.abs_eq (sticky_of v k)) by lia. rewrite Hbl. cbv zeta.
  replace (W P - (W P - (W P - 1)) + k) with (blen v) by (unfold k; lia).
  destruct (Z.gtb_spec (blen v) (TOP_MAX P)); [|lia]. unfold inf_bits. rewrite Z.add_0_l. reflexivity.
Qed.

End ToFloat.

Theorem to_f32_nontrivial_correct v : 32 <= blen v -> to_float_nontrivial P32 v = ieee_rne F32 v 1.
Proof.
  intros. change F32 with (fmt_of P32).
  apply to_float_nontrivial_correct; [cbn; lia | cbn; lia | reflexivity | cbn; lia | reflexivity | reflexivity | right; reflexivity | assumption].
Qed.

Theorem to_f64_nontrivial_correct v : 64 <= blen v -> to_float_nontrivial P64 v = ieee_rne F64 v 1.
Proof.
  intros. change F64 with (fmt_of P64).
  apply to_float_nontrivial_correct; [cbn; lia | cbn; lia | reflexivity | cbn; lia | reflexivity | reflexivity | left; reflexivity | assumption].
Qed.

(** UBig::to_f32 / to_f64 on values of more than two words (DW = double word bits >= W) *)
Corollary ubig_to_f64_large DW v : 64 <= DW -> 2 ^ DW <= v -> ubig_to_float P64 DW v = ieee_rne F64 v 1.
Proof.
  intros HD Hv. unfold ubig_to_float. destruct (Z.ltb_spec v (2 ^ DW)); [lia|].
  apply to_f64_nontrivial_correct.
  destruct (Z.le_gt_cases 64 (blen v)) as [|G]; [assumption|].
  assert (blen v <= DW) by lia. apply blen_le_iff in H0; [lia | | lia].
  pose proof (pow2_pos DW); lia.
Qed.

Corollary ubig_to_f32_large DW v : 32 <= DW -> 2 ^ DW <= v -> ubig_to_float P32 DW v = ieee_rne F32 v 1.
Proof.
  intros HD Hv. unfold ubig_to_float. destruct (Z.ltb_spec v (2 ^ DW)); [lia|].
  apply to_f32_nontrivial_correct.
  destruct (Z.le_gt_cases 32 (blen v)) as [|G]; [assumption|].
  assert (blen v <= DW) by lia. apply blen_le_iff in H0; [lia | | lia].
  pose proof (pow2_pos DW); lia.
Qed.

Example to_f64_quarter_bit :
  to_float_nontrivial P64 (2 ^ 128 + 2 ^ 75 + 2 ^ 74) = (fst (ieee_rne F64 (2 ^ 128 + 2 ^ 76) 1), Gt).
Proof. reflexivity. Qed.
