(** C06 (fourth round): the contract of Rust's `as` casts replaced by statements over Flocq.
    [cast_uint] (uN as f32/f64, used by to_f32_small/to_f64_small and TryFrom<UBig/IBig> for floats)
    is Flocq's binary_normalize mode_NE; [cast_back] (f as uN, used by to_f32/f64_small to recover
    the error sign) is Flocq's Btrunc clamped to the range of the type.  The reference functions
    [ConvCastModel.int_to_f*_ref / f*_to_int_ref] are the Rust Reference's wording over Flocq and are
    compared with the real casts on every run (harness ops cast_i2f / cast_f2i). *)
From Coq Require Import ZArith Reals Lia Lra.
From Flocq Require Import Core IEEE754.BinarySingleNaN IEEE754.Binary IEEE754.Bits.
From Dashu Require Import Base.Prelude Float.RoundSpec Float.Contract Conv.ConvSpec Conv.ConvModel Conv.ConvArith
  Conv.ConvFlocq Conv.ConvFlocqCor Conv.ConvCastModel Conv.ConvDecodeProofs.
Open Scope Z_scope.

(** ** integer -> float *)
Theorem cast_uint_f64_flocq v : cast_uint P64 v = int_to_f64_ref v.
Proof.
  unfold cast_uint, int_to_f64_ref. change (fmt_of P64) with F64.
  destruct (Z.eq_dec v 0) as [->|Hv].
  - destruct (ieee_rne_flocq_f64_zero 0) as (A & B & _). cbv zeta in B. rewrite B.
    rewrite frac_of_int in A. cbn [fst snd] in A. rewrite A. reflexivity.
  - pose proof (ieee_rne_flocq_f64 v 0 Hv) as A. cbv zeta in A. rewrite frac_of_int in A. exact A.
Qed.

Theorem cast_uint_f32_flocq v : cast_uint P32 v = int_to_f32_ref v.
Proof.
  unfold cast_uint, int_to_f32_ref. change (fmt_of P32) with F32.
  destruct (Z.eq_dec v 0) as [->|Hv].
  - destruct (ieee_rne_flocq_f32_zero 0) as (A & B & _). cbv zeta in B. rewrite B.
    rewrite frac_of_int in A. cbn [fst snd] in A. rewrite A. reflexivity.
  - pose proof (ieee_rne_flocq_f32 v 0 Hv) as A. cbv zeta in A. rewrite frac_of_int in A. exact A.
Qed.

(** ** float -> integer: Flocq's Btrunc on a finite float is truncation of m * 2^e *)
Definition trunc_mag (m e : Z) : Z := if 0 <=? e then m * 2 ^ e else m / 2 ^ (- e).

Lemma round_FIX0_Ztrunc x : round radix2 (FIX_exp 0) Ztrunc x = IZR (Ztrunc x).
Proof.
  unfold round, F2R, scaled_mantissa, cexp, FIX_exp. cbn [Fnum Fexp Z.opp bpow].
  rewrite !Rmult_1_r. reflexivity.
Qed.

Lemma Ztrunc_F2R_nonneg m e : 0 <= m -> Ztrunc (F2R (Float radix2 m e)) = trunc_mag m e.
Proof.
  intros Hm. unfold trunc_mag, F2R. cbn [Fnum Fexp].
  destruct (Z.leb_spec 0 e) as [He|He].
  - rewrite <- (IZR_Zpower radix2 e He), <- mult_IZR. rewrite Ztrunc_IZR. reflexivity.
  - replace e with (- (- e)) at 1 by lia. rewrite bpow_opp.
    rewrite <- (IZR_Zpower radix2 (- e)) by lia.
    assert (Hp : 0 < 2 ^ (- e)) by (apply pow2_pos; lia).
    change (Zpower radix2 (- e)) with (2 ^ (- e)).
    rewrite Ztrunc_floor.
    + apply Zfloor_div. lia.
    + apply Rmult_le_pos; [apply IZR_le; exact Hm|]. left. apply Rinv_0_lt_compat. apply IZR_lt. exact Hp.
Qed.

Lemma Btrunc_finite prec emax (Hmax : Prec_lt_emax prec emax) s m e H :
  Binary.Btrunc prec emax (Binary.B754_finite prec emax s m e H) = cond_Zopp s (trunc_mag (Zpos m) e).
Proof.
  apply eq_IZR. rewrite (Binary.Btrunc_correct prec emax Hmax), round_FIX0_Ztrunc. f_equal.
  cbn [Binary.B2R]. destruct s; cbn [cond_Zopp].
  - change (Z.neg m) with (- Z.pos m). rewrite F2R_Zopp, Ztrunc_opp, Ztrunc_F2R_nonneg by lia. reflexivity.
  - apply Ztrunc_F2R_nonneg. lia.
Qed.

(** the reference on Flocq's untyped floats (no dependent proofs) *)
Definition ff_to_int (sg : bool) (TW : Z) (x : full_float) : Z :=
  match x with
  | F754_nan _ _ => 0
  | F754_infinity s => if s then int_lo sg TW else int_hi sg TW
  | F754_zero _ => saturate sg TW 0
  | F754_finite s m e => saturate sg TW (cond_Zopp s (trunc_mag (Zpos m) e))
  end.

Lemma float_to_int_ref_ff prec emax (Hmax : Prec_lt_emax prec emax) sg TW (f : Binary.binary_float prec emax) :
  float_to_int_ref sg TW f = ff_to_int sg TW (B2FF prec emax f).
Proof.
  destruct f as [s|s|s pl H|s m e H]; cbn [float_to_int_ref B2FF ff_to_int]; try reflexivity.
  rewrite (Btrunc_finite prec emax Hmax). reflexivity.
Qed.

Lemma Zeq_bool_eqb x y : Zeq_bool x y = (x =? y).
Proof. unfold Zeq_bool. destruct (Z.eqb_spec x y) as [->|H]; [rewrite Z.compare_refl; reflexivity|]. destruct (Z.compare_spec x y); [contradiction|reflexivity|reflexivity]. Qed.

Lemma trunc_mag_nonneg m e : 0 <= m -> 0 <= trunc_mag m e.
Proof.
  intros Hm. unfold trunc_mag. destruct (Z.leb_spec 0 e).
  - pose proof (pow2_pos e ltac:(lia)). nia.
  - apply Z.div_pos; [lia | apply pow2_pos; lia].
Qed.

(** f as uN of a finite non-negative pattern, any format *)
Lemma cast_back_generic P mw ew : 0 < mw -> 0 < ew ->
  W P = mw + ew + 1 -> MB P = mw -> BIAS P = 2 ^ (ew - 1) - 1 ->
  forall DW bits, 0 <= DW -> 0 <= bits < (2 ^ ew - 1) * 2 ^ mw ->
  cast_back P DW bits = ff_to_int false DW (binary_float_of_bits_aux mw ew bits).
Proof.
  intros Hmw Hew EW EMB EBIAS DW bits HDW Hb.
  pose proof (pow2_pos mw ltac:(lia)) as Pm. pose proof (pow2_pos ew ltac:(lia)) as Pe.
  pose proof (pow2_pos DW HDW) as PD.
  assert (E2 : 2 ^ ew = 2 * 2 ^ (ew - 1)).
  { replace ew with (ew - 1 + 1) at 1 by lia. rewrite Z.pow_add_r by lia. lia. }
  assert (Hq : 0 <= bits / 2 ^ mw < 2 ^ ew - 1).
  { split; [apply Z.div_pos; lia|]. apply Z.div_lt_upper_bound; lia. }
  assert (Hsmall : bits < 2 ^ (mw + ew)).
  { rewrite Z.pow_add_r by lia. nia. }
  unfold cast_back, decode_asis, binary_float_of_bits_aux, split_bits.
  rewrite EW, EMB, EBIAS.
  replace (mw + ew + 1 - 1 - mw) with ew by lia.
  replace (mw + ew + 1 - 1) with (mw + ew) by lia.
  rewrite (Z.div_small bits (2 ^ (mw + ew))) by lia.
  rewrite !(Z.mod_small (bits / 2 ^ mw) (2 ^ ew)) by lia.
  change (0 <? 0) with false. cbv iota.
  rewrite !Zeq_bool_eqb.
  change (Zpower 2 ew) with (2 ^ ew). change (Zpower 2 mw) with (2 ^ mw).
  destruct (Z.eqb_spec (bits / 2 ^ mw) (2 ^ ew - 1)) as [X|_]; [lia|].
  pose proof (Z.mod_pos_bound bits (2 ^ mw) Pm) as HF.
  assert (Hle : Zle_bool (2 ^ mw * 2 ^ ew) bits = false) by (apply Z.leb_gt; rewrite <- Z.pow_add_r by lia; lia).
  rewrite ?Hle. unfold SpecFloat.emin.
  unfold saturate, int_lo, int_hi.
  destruct (Z.eqb_spec (bits / 2 ^ mw) 0) as [E0|E0].
  - destruct (bits mod 2 ^ mw) as [|px|px] eqn:EF; cbn [ff_to_int].
    + unfold saturate, int_lo, int_hi. assert (trunc_mag 0 (- (2 ^ (ew - 1) - 1 - 1) - mw) = 0).
      { unfold trunc_mag. destruct (0 <=? _); [lia | apply Z.div_0_l; pose proof (pow2_pos (- (- (2 ^ (ew - 1) - 1 - 1) - mw)) ltac:(lia)); lia]. }
      fold (trunc_mag 0 (- (2 ^ (ew - 1) - 1 - 1) - mw)). lia.
    + unfold saturate, int_lo, int_hi. cbn [cond_Zopp].
      replace (3 - 2 ^ (ew - 1) - (mw + 1)) with (- (2 ^ (ew - 1) - 1 - 1) - mw) by lia.
      fold (trunc_mag (Z.pos px) (- (2 ^ (ew - 1) - 1 - 1) - mw)).
      pose proof (trunc_mag_nonneg (Z.pos px) (- (2 ^ (ew - 1) - 1 - 1) - mw) ltac:(lia)). lia.
    + lia.
  - assert (HP : 0 < bits mod 2 ^ mw + 2 ^ mw) by lia.
    destruct (bits mod 2 ^ mw + 2 ^ mw) as [|px|px] eqn:EF; [lia| |lia]. cbn [ff_to_int cond_Zopp].
    unfold saturate, int_lo, int_hi.
    replace (bits / 2 ^ mw + (3 - 2 ^ (ew - 1) - (mw + 1)) - 1) with (bits / 2 ^ mw - (2 ^ (ew - 1) - 1 + mw)) by lia.
    fold (trunc_mag (Z.pos px) (bits / 2 ^ mw - (2 ^ (ew - 1) - 1 + mw))).
    pose proof (trunc_mag_nonneg (Z.pos px) (bits / 2 ^ mw - (2 ^ (ew - 1) - 1 + mw)) ltac:(lia)). lia.
Qed.

(** `f as uN` (N = DW bits) of every finite non-negative f64 / f32 pattern, as to_f64_small /
    to_f32_small use it, is the Rust Reference's float -> integer cast over Flocq *)
Theorem cast_back_f64_flocq DW bits : 0 <= DW -> 0 <= bits < inf_bits P64 ->
  cast_back P64 DW bits = f64_to_int_ref false DW bits.
Proof.
  intros HDW Hb. unfold f64_to_int_ref, b64_of_bits, binary_float_of_bits.
  rewrite (float_to_int_ref_ff 53 1024 eq_refl), B2FF_FF2B.
  apply (cast_back_generic P64 52 11); try reflexivity; try lia. exact Hb.
Qed.

Theorem cast_back_f32_flocq DW bits : 0 <= DW -> 0 <= bits < inf_bits P32 ->
  cast_back P32 DW bits = f32_to_int_ref false DW bits.
Proof.
  intros HDW Hb. unfold f32_to_int_ref, b32_of_bits, binary_float_of_bits.
  rewrite (float_to_int_ref_ff 24 128 eq_refl), B2FF_FF2B.
  apply (cast_back_generic P32 23 8); try reflexivity; try lia. exact Hb.
Qed.

(** the reference float -> integer cast in the words of the Rust Reference, for every pattern:
    NaN gives 0, the infinities saturate, a finite value is truncated towards zero
    (Flocq: IZR (Btrunc f) = round radix2 (FIX_exp 0) Ztrunc (B2R f)) and clamped to the type *)
Theorem f64_to_int_ref_spec sg TW bits :
  let f := b64_of_bits bits in
  (Binary.is_nan 53 1024 f = true -> f64_to_int_ref sg TW bits = 0) /\
  (Binary.is_finite 53 1024 f = true ->
     int_lo sg TW <= int_hi sg TW ->
     let t := Binary.Btrunc 53 1024 f in
     IZR t = round radix2 (FIX_exp 0) Ztrunc (Binary.B2R 53 1024 f) /\
     f64_to_int_ref sg TW bits = (if t <? int_lo sg TW then int_lo sg TW else if int_hi sg TW <? t then int_hi sg TW else t)) /\
  (f = Binary.B754_infinity 53 1024 false -> f64_to_int_ref sg TW bits = int_hi sg TW) /\
  (f = Binary.B754_infinity 53 1024 true -> f64_to_int_ref sg TW bits = int_lo sg TW).
Proof.
  intros f. unfold f64_to_int_ref. fold f. repeat split.
  - destruct f; cbn [Binary.is_nan float_to_int_ref]; intros; try discriminate; reflexivity.
  - apply (Binary.Btrunc_correct 53 1024 eq_refl).
  - assert (E : float_to_int_ref sg TW f = saturate sg TW (Binary.Btrunc 53 1024 f)).
    { destruct f; cbn [Binary.is_finite float_to_int_ref] in *; try discriminate; reflexivity. }
    rewrite E. unfold saturate. set (t := Binary.Btrunc 53 1024 f).
    destruct (Z.ltb_spec t (int_lo sg TW)); destruct (Z.ltb_spec (int_hi sg TW) t); lia.
  - intros ->. reflexivity.
  - intros ->. reflexivity.
Qed.

Example cast_examples :
  int_to_f64_ref (2 ^ 128 - 1) = 5183643171103440896 /\ int_to_f32_ref (2 ^ 128 - 1) = 2139095040 /\
  int_to_f32_ref (2 ^ 128 - 2 ^ 103 - 1) = 2139095039 /\ int_to_f32_ref 16777217 = 1266679808 /\
  int_to_f64_ref (-9007199254740993) = 14069245235905429504 /\
  f64_to_int_ref false 8 4643176031446892544 = 255 (* 256.0 as u8 *) /\
  f64_to_int_ref true 8 13830554455654793216 = -1 (* -1.5 as i8 *) /\
  f64_to_int_ref false 8 13830554455654793216 = 0 (* -1.5 as u8 *) /\
  f64_to_int_ref true 32 9221120237041090560 = 0 (* NaN as i32 *) /\
  f32_to_int_ref true 16 4286578688 = -32768 (* -inf as i16 *) /\
  f32_to_int_ref false 128 2139095039 = 2 ^ 128 - 2 ^ 104 (* f32::MAX as u128 *) /\
  cast_back P64 128 5183643171103440896 = 2 ^ 128 - 1 (* 2^128 as u128 saturates *).
Proof. repeat split; vm_compute; reflexivity. Qed.
