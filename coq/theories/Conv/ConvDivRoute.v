(** C06 (fourth round): the division route of Context::convert_base after the repair of F39
    (small negative exponent, bases that are not powers of one another).  The as-is model
    [ConvModel.div_round_once] follows the repaired code: pad a short dividend so that the quotient
    has at least p digits, divide exactly, cut the quotient to exactly p digits, round ONCE with
    the dropped digits and the remainder.  For EVERY target base, precision, mode, non-zero
    dividend and positive divisor the result is the correctly rounded p-digit float of the
    quotient (the specification [rat_to_fbig_spec] of RBig::to_float) with the truthful flag, its
    significand has at most p digits (B^p only after a carry), and an exact result is returned in
    normal form. *)
From Dashu Require Import Base.Prelude Float.RoundSpec Float.RoundSpecProof Float.Contract Float.Model
  Float.ModelProof Float.AddModelProof Float.ParseProof Float.RoundOpsLegal Conv.ConvSpec Conv.ConvModel
  Conv.ConvRatToFbig.
From DashuGen Require Import RoundTables.
Open Scope Z_scope.

Section DivRoute.
Variable B : Z.
Hypothesis B_ge_2 : 2 <= B.
Local Notation pw := (Bpow_pos B B_ge_2).

Theorem div_round_once_correct p m N D e1 e2 : 1 <= p -> 0 < D -> N <> 0 ->
  let u := rat_exp B N D - p + 1 in
  let M := round_rat_at B m N D u in
  let c := cmp_kx B 1 (XRat N D) M u in
  B ^ (p - 1) <= Z.abs M <= B ^ p /\ (0 < N -> 0 < M) /\ (N < 0 -> M < 0) /\
  div_round_once B p m N e1 D e2 =
    match flag_of_error (Z.sgn N) c with
    | None => (let '(h, x) := normalize B M (u + e1 - e2) in AExact h x)
    | Some a => AInexact M (u + e1 - e2) a
    end.
Proof.
  intros Hp HD HN. cbv zeta. unfold div_round_once.
  pose proof (to_float_split B B_ge_2 p N D Hp HD HN) as S. cbv zeta in S.
  set (nd := dlen B N - 1) in *. set (dd := dlen B D - 1) in *.
  set (shift := if nd >=? p + dd then 0 else p + dd - nd) in *.
  assert (Epad : (if dlen B N <? p + dlen B D then p + dlen B D - dlen B N else 0) = shift).
  { unfold shift, nd, dd. destruct (Z.ltb_spec (dlen B N) (p + dlen B D)); destruct (Z.geb_spec (dlen B N - 1) (p + (dlen B D - 1))); lia. }
  rewrite Epad. clear Epad.
  set (n' := N * B ^ shift) in *. set (q := Z.quot n' D) in *. set (r := Z.rem n' D) in *.
  set (extra := dlen B q - p) in *.
  destruct S as (Hsh & Hex & Eval & Hrem & Hpos & Hneg & Hhi & Hexp).
  unfold split_digits.
  set (hi := Z.quot q (B ^ extra)) in *. set (rem := Z.rem q (B ^ extra) * D + r) in *.
  set (den := D * B ^ extra) in *.
  pose proof (pw extra Hex) as Pex. assert (Hden : 0 < den) by (unfold den; nia).
  rewrite Hexp. replace (p - 1 + extra - shift - p + 1) with (extra - shift) by lia.
  replace (e1 - shift - e2 + extra) with (extra - shift + e1 - e2) by lia.
  set (M := round_rat_at B m N D (extra - shift)).
  destruct (round_at_scaled B B_ge_2 m N D shift extra M HD Hsh Hex) as [EM Ec].
  fold M n' den in EM, Ec. rewrite Ec. clear Ec.
  pose proof (round_ratio_spec m hi rem den ltac:(lia) ltac:(lia)) as RR.
  rewrite (Z.sgn_pos den), (Z.abs_eq den), Z.mul_1_l, <- Eval, <- EM in RR by lia.
  assert (HMle : Z.abs M <= B ^ p).
  { rewrite <- RR. destruct (round_ratio m hi rem den); cbn [adj]; lia. }
  (* sign of hi = sign of N *)
  assert (Hhs : (0 < N -> 0 < hi) /\ (N < 0 -> hi < 0)).
  { pose proof (pw (p - 1) ltac:(lia)) as Pp. pose proof (pw shift Hsh) as Psh. split; intros L.
    - specialize (Hpos L). destruct (Z.lt_trichotomy hi 0) as [G|[G|G]]; [|lia|exact G]. exfalso.
      assert (hi * den <= - den) by nia. assert (0 < n') by (unfold n'; nia). lia.
    - specialize (Hneg L). destruct (Z.lt_trichotomy hi 0) as [G|[G|G]]; [exact G|lia|]. exfalso.
      assert (den <= hi * den) by nia. assert (n' < 0) by (unfold n'; nia). lia. }
  destruct Hhs as [Hhp Hhn].
  destruct (Z.eqb_spec rem 0) as [Hr0|Hr0].
  - assert (EMhi : M = hi).
    { rewrite <- RR. unfold round_ratio. rewrite Hr0. cbn. ring. }
    assert (Ecmp : (M * den ?= n') = Eq) by (apply Z.compare_eq_iff; rewrite Eval, Hr0, EMhi; ring).
    rewrite Ecmp. cbn [flag_of_error]. rewrite <- EMhi.
    split; [rewrite EMhi; lia|]. split; [rewrite EMhi; exact Hhp|]. split; [rewrite EMhi; exact Hhn|]. reflexivity.
  - set (a := round_ratio m hi rem den) in *.
    assert (Ed : M * den - n' = adj a * den - rem) by (rewrite <- RR, Eval; ring).
    pose proof (spec_round_error m n' den Hden) as [Eerr _]. cbv zeta in Eerr. rewrite <- EM in Eerr.
    assert (HMs : (0 < N -> 0 < M) /\ (N < 0 -> M < 0)).
    { split; intros L.
      - specialize (Hpos L). specialize (Hhp L). destruct a; cbn [adj] in *; lia.
      - specialize (Hneg L). specialize (Hhn L). destruct a; cbn [adj] in *; lia. }
    assert (HMlo : B ^ (p - 1) <= Z.abs M).
    { destruct HMs as [HMp HMn]. destruct (Z.lt_trichotomy N 0) as [L|[L|L]]; [|lia|].
      - specialize (HMn L). specialize (Hhn L). specialize (Hneg L). destruct a; cbn [adj] in *; lia.
      - specialize (HMp L). specialize (Hhp L). specialize (Hpos L). destruct a; cbn [adj] in *; lia. }
    split; [lia|]. split; [apply HMs|]. split; [apply HMs|].
    assert (Eflag : flag_of_error (Z.sgn N) (M * den ?= n') = Some a).
    { destruct (Z.lt_trichotomy N 0) as [L|[L|L]]; [|lia|].
      - specialize (Hneg L). rewrite (Z.sgn_neg N L).
        destruct a; cbn [adj] in Ed.
        + assert (G : M * den > n') by lia. unfold Z.gt in G. rewrite G. reflexivity.
        + exfalso. lia.
        + assert (G : M * den < n') by lia. unfold Z.lt in G. rewrite G. reflexivity.
      - specialize (Hpos L). rewrite (Z.sgn_pos N L).
        destruct a; cbn [adj] in Ed.
        + assert (G : M * den < n') by lia. unfold Z.lt in G. rewrite G. reflexivity.
        + assert (G : M * den > n') by lia. unfold Z.gt in G. rewrite G. reflexivity.
        + exfalso. lia. }
    rewrite Eflag. rewrite RR. reflexivity.
Qed.

End DivRoute.

(** ---------------------------------------------------------------------------------------------
    FBig<R,B>::to_f32 / to_f64 and Repr<B>::to_f32 / to_f64 on the repaired division route
    (B not a power of two, negative exponent): convert_base::<B,2> + and_then(into_f32/f64_internal)
    is the correctly rounded IEEE value of s / B^-e under the mode, with the truthful flag, whenever
    the value is not below the smallest normal number; the debug assertion of into_f32/f64_internal
    cannot fire. *)
From Dashu Require Import Conv.ConvArith Conv.ConvIeee Conv.ConvEncodeProofs Conv.ConvFloatProofs Conv.ConvRatFull.

Lemma mag2_rat_exp N D : 0 < D -> mag2 (Z.abs N) D = rat_exp 2 N D + 1.
Proof.
  intros HD. rewrite mag2_ge2, rat_exp_geB. rewrite !dlen2_blen, (Z.abs_eq D) by lia.
  unfold ge2, geB. destruct (if 0 <=? blen (Z.abs N) - blen D then _ else _); lia.
Qed.

Lemma mag2_scaled a D x y : 0 < a -> 0 < D -> 0 <= x -> 0 <= y ->
  mag2 (a * 2 ^ x) (D * 2 ^ y) = mag2 a D + (x - y).
Proof.
  intros Ha HD Hx Hy. rewrite !mag2_ge2.
  pose proof (pow2_pos x Hx) as Px. pose proof (pow2_pos y Hy) as Py.
  rewrite !blen_shift by lia. set (d := blen a - blen D).
  replace (blen a + x - (blen D + y)) with (d + (x - y)) by (unfold d; lia).
  set (j := Z.abs d + x + y + 1).
  rewrite (ge2_scaled (a * 2 ^ x) (D * 2 ^ y) (d + (x - y)) j) by (unfold j; nia || lia).
  rewrite (ge2_scaled a D d (j + x)) by (unfold j; lia).
  replace (D * 2 ^ y * 2 ^ (d + (x - y) + j)) with (D * 2 ^ (d + (j + x))).
  2:{ rewrite <- Z.mul_assoc, <- Z.pow_add_r by (unfold j; lia). do 2 f_equal. lia. }
  replace (a * 2 ^ x * 2 ^ j) with (a * 2 ^ (j + x)).
  2:{ rewrite <- Z.mul_assoc, <- Z.pow_add_r by (unfold j; lia). do 2 f_equal. lia. }
  destruct (D * 2 ^ (d + (j + x)) <=? a * 2 ^ (j + x)); lia.
Qed.

(** rounding the scaled fraction (N 2^x) / (D 2^y) at u + (x - y) is rounding N / D at u *)
Lemma round_rat_at_scaled2 m N D x y u M : 0 < D -> 0 <= x -> 0 <= y ->
  round_rat_at 2 m (N * 2 ^ x) (D * 2 ^ y) (u + (x - y)) = round_rat_at 2 m N D u /\
  cmp_kx 2 1 (XRat (N * 2 ^ x) (D * 2 ^ y)) M (u + (x - y)) = cmp_kx 2 1 (XRat N D) M u.
Proof.
  intros HD Hx Hy. pose proof (pow2_pos y Hy) as Py.
  set (sh := Z.max 0 (- (u + (x - y)))). set (ex := u + (x - y) + sh).
  assert (Hsh : 0 <= sh) by (unfold sh; lia). assert (Hex : 0 <= ex) by (unfold ex, sh; lia).
  destruct (round_at_scaled 2 ltac:(lia) m (N * 2 ^ x) (D * 2 ^ y) sh ex M ltac:(nia) Hsh Hex) as [E1 C1].
  destruct (round_at_scaled 2 ltac:(lia) m N D (x + sh) (y + ex) M HD ltac:(lia) ltac:(lia)) as [E2 C2].
  replace (ex - sh) with (u + (x - y)) in E1, C1 by (unfold ex; lia).
  replace (y + ex - (x + sh)) with u in E2, C2 by (unfold ex; lia).
  assert (A1 : N * 2 ^ x * 2 ^ sh = N * 2 ^ (x + sh)) by (rewrite <- Z.mul_assoc, <- Z.pow_add_r by lia; reflexivity).
  assert (A2 : D * 2 ^ y * 2 ^ ex = D * 2 ^ (y + ex)) by (rewrite <- Z.mul_assoc, <- Z.pow_add_r by lia; reflexivity).
  rewrite E1, C1, E2, C2, A1, A2. split; reflexivity.
Qed.

Section ToFloatDiv.
Variable P : enc_params.
Hypothesis HMB : 1 <= MB P.
Hypothesis HW : MB P + 3 <= W P.
Hypothesis HB : 2 * BIAS P + 2 = 2 ^ (W P - 1 - MB P).
Hypothesis HBp : 1 <= BIAS P.
Hypothesis HT : TOP_MAX P = BIAS P + 1.
Hypothesis HU : UNDER P = 1 - BIAS P - MB P.
Hypothesis HN : NORM_LIM P = 1 - BIAS P \/ NORM_LIM P = 2 - BIAS P.

(** what into_f32/f64_internal makes of a significand M at exponent u that came out of ONE rounding
    to MB+1 bits (2^MB <= |M| <= 2^(MB+1), the upper end after a carry), flag [fl] of that rounding *)
Definition rounded_fr (M u : Z) (fl : option rounding) : frounded :=
  let mg := (u + BIAS P + MB P - 1) * 2 ^ MB P + Z.abs M in
  if inf_bits P <=? mg then
    (if M <? 0 then FR (2 ^ (W P - 1) + inf_bits P) (Some SubOne) else FR (inf_bits P) (Some AddOne))
  else FR ((if M <? 0 then 2 ^ (W P - 1) else 0) + mg) fl.

Lemma into_float_of_rounded M u : 2 ^ MB P <= Z.abs M <= 2 * 2 ^ MB P -> 1 - BIAS P < MB P + 1 + u ->
  let '(h, x) := normalize 2 M u in into_float_checked P h x = Ok (rounded_fr M u None).
Proof.
  intros HMr Hn. pose proof (pow2_pos (MB P) ltac:(lia)) as HX.
  assert (HM0 : M <> 0) by lia.
  pose proof (normalize_spec 2 ltac:(lia) M u) as Hnz.
  destruct (normalize 2 M u) as [s2 e2]. destruct Hnz as [_ Hnz].
  destruct (Hnz HM0) as (Hs2 & Hodd2 & j & Hj & He2 & EM). subst e2. clear Hnz.
  destruct (carry_pattern P HMB HW M s2 j Hodd2 Hj EM HMr) as (Hb2 & Cl & Cc).
  assert (Hsg : (s2 <? 0) = (M <? 0)).
  { pose proof (pow2_pos j Hj). destruct (Z.ltb_spec s2 0); destruct (Z.ltb_spec M 0); try reflexivity; nia. }
  unfold into_float_checked. rewrite dlen2_blen.
  destruct (Z.gtb_spec (blen (Z.abs s2)) (MB P + 1)) as [G|_]; [lia|]. f_equal.
  unfold rounded_fr.
  destruct (Z.eq_dec (Z.abs M) (2 * 2 ^ MB P)) as [Ec|Ec].
  - destruct (Cc Ec) as [Cb Cp].
    rewrite (into_float_normal P HMB HW HB HBp HT HU HN) by (try assumption; lia).
    unfold normal_pattern. rewrite Cp, Hsg, Ec.
    replace (blen (Z.abs s2) + (u + j)) with (MB P + 2 + u) by lia.
    replace ((u + BIAS P + MB P - 1) * 2 ^ MB P + 2 * 2 ^ MB P)
      with ((MB P + 2 + u + BIAS P - 2) * 2 ^ MB P + 2 ^ MB P) by ring.
    rewrite (inf_threshold P HMB HW) by lia. rewrite HT. reflexivity.
  - destruct (Cl ltac:(lia)) as [Cb Cp].
    rewrite (into_float_normal P HMB HW HB HBp HT HU HN) by (try assumption; lia).
    unfold normal_pattern. rewrite Cp, Hsg.
    replace (blen (Z.abs s2) + (u + j)) with (MB P + 1 + u) by lia.
    replace ((u + BIAS P + MB P - 1) * 2 ^ MB P + Z.abs M)
      with ((MB P + 1 + u + BIAS P - 2) * 2 ^ MB P + Z.abs M) by ring.
    rewrite (inf_threshold P HMB HW) by lia. rewrite HT. reflexivity.
Qed.

Lemma and_then_rounded_exact M u : 2 ^ MB P <= Z.abs M <= 2 * 2 ^ MB P -> 1 - BIAS P < MB P + 1 + u ->
  (let '(h, x) := normalize 2 M u in and_then_checked P (AExact h x)) = Ok (rounded_fr M u None).
Proof.
  intros H1 H2. pose proof (into_float_of_rounded M u H1 H2) as H.
  destruct (normalize 2 M u) as [h x]. exact H.
Qed.

Lemma and_then_rounded_inexact M u a : 2 ^ MB P <= Z.abs M <= 2 * 2 ^ MB P -> 1 - BIAS P < MB P + 1 + u ->
  and_then_checked P (AInexact M u a) = Ok (rounded_fr M u (Some a)).
Proof.
  intros H1 H2. pose proof (into_float_of_rounded M u H1 H2) as H. cbn [and_then_checked].
  destruct (normalize 2 M u) as [h x]. rewrite H. f_equal. unfold rounded_fr.
  destruct (inf_bits P <=? _); [destruct (M <? 0)|]; reflexivity.
Qed.

(** the specification side: N/D scaled by 2^(x-y), at least the smallest normal number *)
Lemma ieee_round_scaled_normal m N D x y : N <> 0 -> 0 < D -> 0 <= x -> 0 <= y ->
  1 - BIAS P <= rat_exp 2 N D + (x - y) ->
  let u := rat_exp 2 N D - MB P in
  let M := round_rat_at 2 m N D u in
  let mg := (u + (x - y) + BIAS P + MB P - 1) * 2 ^ MB P + Z.abs M in
  let sb := if N <? 0 then 2 ^ (W P - 1) else 0 in
  ieee_round (fmt_of P) m (N * 2 ^ x) (D * 2 ^ y) =
    if inf_bits P <=? mg then (sb + inf_bits P, if N <? 0 then Lt else Gt)
    else (sb + mg, cmp_kx 2 1 (XRat N D) M u).
Proof.
  intros HN0 HD Hx Hy Hnorm. cbv zeta. unfold ieee_round.
  pose proof (pow2_pos x Hx) as Px. pose proof (pow2_pos y Hy) as Py.
  destruct (Z.eqb_spec (N * 2 ^ x) 0) as [E|_]; [exfalso; nia|].
  assert (Habs : Z.abs (N * 2 ^ x) = Z.abs N * 2 ^ x) by (rewrite Z.abs_mul, (Z.abs_eq (2 ^ x)) by lia; reflexivity).
  assert (Hu : ulp_exp (fmt_of P) (Z.abs (N * 2 ^ x)) (D * 2 ^ y) = rat_exp 2 N D - MB P + (x - y)).
  { unfold ulp_exp. rewrite Habs, mag2_scaled by lia. rewrite mag2_rat_exp by lia.
    rewrite tf_emin. unfold fmt_of; cbn [prec]. lia. }
  rewrite Hu.
  destruct (round_rat_at_scaled2 m N D x y (rat_exp 2 N D - MB P)
              (round_rat_at 2 m (N * 2 ^ x) (D * 2 ^ y) (rat_exp 2 N D - MB P + (x - y))) HD Hx Hy) as [E1 C1].
  rewrite C1, E1. rewrite tf_sign, (tf_inf P HB), tf_emin.
  assert (Hs : (N * 2 ^ x <? 0) = (N <? 0)).
  { destruct (Z.ltb_spec (N * 2 ^ x) 0); destruct (Z.ltb_spec N 0); try reflexivity; nia. }
  rewrite Hs. unfold fmt_of; cbn [prec].
  replace (MB P + 1 - 1) with (MB P) by lia.
  replace (rat_exp 2 N D - MB P + (x - y) - (1 - BIAS P - MB P))
    with (rat_exp 2 N D - MB P + (x - y) + BIAS P + MB P - 1) by lia.
  reflexivity.
Qed.

Theorem fbig_to_float_div_route B m s e : 2 < B -> ilog_exact2 B <= 1 -> e < 0 -> s <> 0 ->
  emin (fmt_of P) + prec (fmt_of P) - 1 < mag2 (Z.abs s) (B ^ (- e)) ->
  fbig_to_float P B m s e =
    Ok (let r := ieee_round (fmt_of P) m s (B ^ (- e)) in FR (fst r) (flag_of_error (Z.sgn s) (snd r))).
Proof.
  intros HB2 Hlog He Hs Hnorm. unfold fbig_to_float.
  destruct (Z.eqb_spec B 2) as [|_]; [lia|].
  unfold convert_base_to2. destruct (Z.ltb_spec 1 (ilog_exact2 B)) as [|_]; [lia|].
  destruct (Z.leb_spec 0 e) as [|_]; [lia|].
  pose proof (Z.pow_pos_nonneg B (- e) ltac:(lia) ltac:(lia)) as HBk.
  pose proof (normalize_spec 2 ltac:(lia) s 0) as N1. pose proof (normalize_spec 2 ltac:(lia) (B ^ (- e)) 0) as N2.
  destruct (normalize 2 s 0) as [s1 e1]. destruct (normalize 2 (B ^ (- e)) 0) as [s2 e2].
  destruct N1 as [_ N1]. destruct (N1 Hs) as (Hs1 & _ & x & Hx & -> & Es). clear N1.
  destruct N2 as [_ N2]. destruct (N2 ltac:(lia)) as (Hs2 & _ & y & Hy & -> & Ed). clear N2.
  pose proof (pow2_pos x Hx) as Px. pose proof (pow2_pos y Hy) as Py.
  assert (Hs2p : 0 < s2) by nia.
  cbn [rbind]. rewrite !Z.add_0_l.
  (* the code side *)
  pose proof (div_round_once_correct 2 ltac:(lia) (MB P + 1) m s1 s2 x y ltac:(lia) Hs2p Hs1) as DR. cbv zeta in DR.
  replace (rat_exp 2 s1 s2 - (MB P + 1) + 1) with (rat_exp 2 s1 s2 - MB P) in DR by lia.
  set (u := rat_exp 2 s1 s2 - MB P) in *. set (M := round_rat_at 2 m s1 s2 u) in *.
  destruct DR as (HMr & HMp & HMn & DR). rewrite DR. clear DR.
  replace (MB P + 1 - 1) with (MB P) in HMr by lia. rewrite pow2_succ in HMr by lia.
  (* normal range in terms of the normal forms *)
  assert (Hn1 : 1 - BIAS P <= rat_exp 2 s1 s2 + (x - y)).
  { rewrite Es, Ed in Hnorm. rewrite Z.abs_mul, (Z.abs_eq (2 ^ x)) in Hnorm by lia.
    rewrite mag2_scaled, mag2_rat_exp in Hnorm by lia. rewrite tf_emin in Hnorm. unfold fmt_of in Hnorm; cbn [prec] in Hnorm. lia. }
  (* the specification side *)
  pose proof (ieee_round_scaled_normal m s1 s2 x y Hs1 Hs2p Hx Hy Hn1) as SP. cbv zeta in SP.
  fold u M in SP. rewrite <- Es, <- Ed in SP. rewrite SP. clear SP.
  assert (Hsg : Z.sgn s = Z.sgn s1) by (rewrite Es, Z.sgn_mul, (Z.sgn_pos (2 ^ x)) by lia; lia).
  assert (HsM : (M <? 0) = (s1 <? 0)).
  { destruct (Z.ltb_spec M 0); destruct (Z.ltb_spec s1 0); try reflexivity; lia. }
  assert (Hrange : 1 - BIAS P < MB P + 1 + (u + x - y)) by (unfold u; lia).
  replace (u + (x - y) + BIAS P + MB P - 1) with (u + x - y + BIAS P + MB P - 1) by lia.
  rewrite Hsg.
  destruct (flag_of_error (Z.sgn s1) (cmp_kx 2 1 (XRat s1 s2) M u)) as [a|] eqn:Efl.
  - rewrite (and_then_rounded_inexact M (u + x - y) a HMr Hrange). f_equal. unfold rounded_fr. rewrite HsM.
    destruct (inf_bits P <=? _); cbn [fst snd].
    + destruct (Z.ltb_spec s1 0) as [L|L]; cbn [flag_of_error].
      * rewrite (Z.sgn_neg s1 L). reflexivity.
      * rewrite (Z.sgn_pos s1) by lia. reflexivity.
    + rewrite Efl. reflexivity.
  - pose proof (and_then_rounded_exact M (u + x - y) HMr Hrange) as AE.
    destruct (normalize 2 M (u + x - y)) as [h0 x0]. rewrite AE. clear AE. f_equal. unfold rounded_fr. rewrite HsM.
    destruct (inf_bits P <=? _); cbn [fst snd].
    + destruct (Z.ltb_spec s1 0) as [L|L]; cbn [flag_of_error].
      * rewrite (Z.sgn_neg s1 L). reflexivity.
      * rewrite (Z.sgn_pos s1) by lia. reflexivity.
    + rewrite Efl. reflexivity.
Qed.

End ToFloatDiv.

From DashuGen Require Import ConvParams2.

(** the two formats; the exponent range is the one on which the code takes this route (the
    regenerated THRESHOLD_SMALL_EXP) *)
Theorem fbig_to_f64_div_route B m s e : 2 < B -> ilog_exact2 B <= 1 -> s <> 0 ->
  - nth 0 convert_small_exp_gen 0 <= e < 0 ->
  emin F64 + prec F64 - 1 < mag2 (Z.abs s) (B ^ (- e)) ->
  fbig_to_float P64 B m s e =
    Ok (let r := ieee_round F64 m s (B ^ (- e)) in FR (fst r) (flag_of_error (Z.sgn s) (snd r))).
Proof.
  intros HB Hl Hs He Hn. change F64 with (fmt_of P64).
  apply (fbig_to_float_div_route P64); [cbn; lia | cbn; lia | reflexivity | cbn; lia | reflexivity | reflexivity | left; reflexivity
                                       | assumption | assumption | lia | assumption | exact Hn].
Qed.

Theorem fbig_to_f32_div_route B m s e : 2 < B -> ilog_exact2 B <= 1 -> s <> 0 ->
  - nth 0 convert_small_exp_gen 0 <= e < 0 ->
  emin F32 + prec F32 - 1 < mag2 (Z.abs s) (B ^ (- e)) ->
  fbig_to_float P32 B m s e =
    Ok (let r := ieee_round F32 m s (B ^ (- e)) in FR (fst r) (flag_of_error (Z.sgn s) (snd r))).
Proof.
  intros HB Hl Hs He Hn. change F32 with (fmt_of P32).
  apply (fbig_to_float_div_route P32); [cbn; lia | cbn; lia | reflexivity | cbn; lia | reflexivity | reflexivity | right; reflexivity
                                       | assumption | assumption | lia | assumption | exact Hn].
Qed.

(** the result of the repaired route always fits the precision: what C16 / C19 listed as the panic
    class (debug assertion of into_f32/f64_internal) cannot occur, for any target base *)
Theorem div_round_once_fits B p m N D e1 e2 : 2 <= B -> 1 <= p -> 0 < D -> N <> 0 ->
  let a := div_round_once B p m N e1 D e2 in
  dlen B (fst (normalize B (approx_sig a) (approx_exp a))) <= p.
Proof.
  intros HB Hp HD HN. cbv zeta.
  destruct (div_round_once_correct B HB p m N D e1 e2 Hp HD HN) as (HMr & _ & _ & E). cbv zeta in E. rewrite E. clear E.
  set (u := rat_exp B N D - p + 1) in *. set (M := round_rat_at B m N D u) in *.
  destruct (flag_of_error _ _).
  - cbn [approx_sig approx_exp]. apply (normalize_sig_bound B HB); lia.
  - pose proof (normalize_sig_bound B HB M (u + e1 - e2) p Hp ltac:(lia)) as H1.
    pose proof (normalize_spec B HB M (u + e1 - e2)) as NS.
    destruct (normalize B M (u + e1 - e2)) as [h x]. cbn [approx_sig approx_exp fst] in *.
    destruct (Z.eq_dec h 0) as [->|Hh].
    + replace (normalize B 0 x) with (0, 0); [cbn [fst]; rewrite (dlen_zero B); lia|].
      unfold normalize. reflexivity.
    + destruct NS as [_ NS]. assert (HM0 : M <> 0).
      { intros E0. pose proof (Bpow_pos B HB (p - 1) ltac:(lia)). rewrite E0 in HMr. cbn in HMr. lia. }
      destruct (NS HM0) as (_ & Hm & _). rewrite (normalize_id B h x HB Hm). exact H1.
Qed.

Example fbig_div_route_examples :
  fbig_to_float P64 10 MHalfEven 4899 (-7) = Ok (FR 4557657753232426611 (Some AddOne)) /\
  ieee_round F64 MHalfEven 4899 (10 ^ 7) = (4557657753232426611, Gt) /\
  fbig_to_float P32 10 MUp 1 (-1) = Ok (FR 1036831949 (Some AddOne)) /\
  fbig_to_float P32 10 MDown (-1) (-1) = Ok (FR (2 ^ 31 + 1036831949) (Some SubOne)) /\
  fbig_to_float P64 10 MHalfEven 5 (-1) = Ok (FR 4602678819172646912 None) /\
  (emin F64 + prec F64 - 1 < mag2 4899 (10 ^ 7)) /\ ilog_exact2 10 = 0 /\
  div_round_once 10 3 MHalfEven 2 0 3 0 = AInexact 667 (-3) AddOne /\
  div_round_once 10 3 MHalfEven 999 0 1000 0 = AExact 999 (-3) /\
  div_round_once 2 3 MHalfEven 9 0 5 0 = AInexact 7 (-2) NoOp.
Proof. vm_compute. repeat split; reflexivity. Qed.
