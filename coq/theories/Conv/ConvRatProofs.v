(** C06: RBig/Relaxed::to_f32 / to_f64 (after repair F35): quotient with two guard bits, sticky bit
    of the remainder, one rounding in encode = the correctly rounded value of N/D. *)
From Dashu Require Import Base.Prelude Float.RoundSpec Float.Contract Float.Model
  Conv.ConvSpec Conv.ConvModel Conv.ConvArith Conv.ConvIeee Conv.ConvEncodeProofs Conv.ConvStickyProofs.
Open Scope Z_scope.

(** rounding num/den at 2^c sees only floor(num/den) and whether there is a remainder *)
Lemma rne_rat_half num den c : 0 <= num -> 0 < den -> 1 <= c ->
  let v := 2 * (num / den) + (if num mod den =? 0 then 0 else 1) in
  spec_round MHalfEven num (den * 2 ^ c) = rne v (c + 1) /\
  (spec_round MHalfEven num (den * 2 ^ c) * (den * 2 ^ c) ?= num) = (rne v (c + 1) * 2 ^ (c + 1) ?= v).
Proof.
  intros Hn Hd Hc v.
  pose proof (pow2_pos (c - 1) ltac:(lia)) as HpT'.
  assert (ET : 2 ^ c = 2 * 2 ^ (c - 1)).
  { replace c with (Z.succ (c - 1)) at 1 by lia. rewrite Z.pow_succ_r by lia. reflexivity. }
  assert (ET2 : 2 ^ (c + 1) = 2 * 2 ^ c).
  { replace (c + 1) with (Z.succ c) by lia. rewrite Z.pow_succ_r by lia. reflexivity. }
  set (T' := 2 ^ (c - 1)) in *. set (T := 2 ^ c) in *.
  set (q := num / den) in *. set (r := num mod den) in *.
  pose proof (Z.div_mod num den ltac:(lia)) as Hnum. fold q r in Hnum.
  pose proof (Z.mod_pos_bound num den Hd) as Hr. fold r in Hr.
  assert (Hq : 0 <= q) by (apply Z.div_pos; lia).
  set (Q := q / T). set (h := q mod T).
  pose proof (Z.div_mod q T ltac:(lia)) as Hqd. fold Q h in Hqd.
  pose proof (Z.mod_pos_bound q T ltac:(lia)) as Hh. fold h in Hh.
  assert (D1 : num / (den * T) = Q) by (rewrite <- Z.div_div by lia; reflexivity).
  assert (M1 : num mod (den * T) = den * h + r).
  { rewrite Z.rem_mul_r by lia. fold q r h. ring. }
  set (b := if r =? 0 then 0 else 1) in *.
  assert (Hb : (b = 0 /\ r = 0) \/ (b = 1 /\ 0 < r)) by (unfold b; destruct (Z.eqb_spec r 0); lia).
  assert (Hv : v = 2 * T * Q + (2 * h + b)) by (unfold v; lia).
  assert (D2 : v / (2 * T) = Q) by (symmetry; apply Z.div_unique with (r := 2 * h + b); lia).
  assert (M2 : v mod (2 * T) = 2 * h + b) by (symmetry; apply Z.mod_unique with (q := Q); lia).
  unfold rne, spec_round. rewrite ET2, D1, M1, D2, M2.
  destruct (Z.lt_trichotomy h T') as [Hlt|[Heq|Hgt]].
  - assert (C1 : (2 * (den * h + r) ?= den * T) = Lt) by (apply Z.compare_lt_iff; nia).
    assert (C2 : (2 * (2 * h + b) ?= 2 * T) = Lt) by (apply Z.compare_lt_iff; lia).
    rewrite C1, C2. split; [reflexivity|].
    destruct (Z.compare_spec (Q * (den * T)) num); destruct (Z.compare_spec (Q * (2 * T)) v); try reflexivity; exfalso; nia.
  - destruct Hb as [[Hb0 Hr0]|[Hb1 Hr1]].
    + assert (C1 : (2 * (den * h + r) ?= den * T) = Eq) by (apply Z.compare_eq_iff; nia).
      assert (C2 : (2 * (2 * h + b) ?= 2 * T) = Eq) by (apply Z.compare_eq_iff; lia).
      rewrite C1, C2. split; [reflexivity|].
      destruct (Z.even Q).
      * destruct (Z.compare_spec (Q * (den * T)) num); destruct (Z.compare_spec (Q * (2 * T)) v); try reflexivity; exfalso; nia.
      * destruct (Z.compare_spec ((Q + 1) * (den * T)) num); destruct (Z.compare_spec ((Q + 1) * (2 * T)) v); try reflexivity; exfalso; nia.
    + assert (C1 : (2 * (den * h + r) ?= den * T) = Gt) by (apply Z.compare_gt_iff; nia).
      assert (C2 : (2 * (2 * h + b) ?= 2 * T) = Gt) by (apply Z.compare_gt_iff; lia).
      rewrite C1, C2. split; [reflexivity|].
      destruct (Z.compare_spec ((Q + 1) * (den * T)) num); destruct (Z.compare_spec ((Q + 1) * (2 * T)) v); try reflexivity; exfalso; nia.
  - assert (C1 : (2 * (den * h + r) ?= den * T) = Gt) by (apply Z.compare_gt_iff; nia).
    assert (C2 : (2 * (2 * h + b) ?= 2 * T) = Gt) by (apply Z.compare_gt_iff; lia).
    rewrite C1, C2. split; [reflexivity|].
    destruct (Z.compare_spec ((Q + 1) * (den * T)) num); destruct (Z.compare_spec ((Q + 1) * (2 * T)) v); try reflexivity; exfalso; nia.
Qed.

(** ... hence rounding num/den at 2^c (c >= 2) = rounding the quotient with a sticky bit *)
Theorem rne_rat_sticky num den c : 0 <= num -> 0 < den -> 2 <= c ->
  let m := Z.lor (num / den) (if num mod den =? 0 then 0 else 1) in
  spec_round MHalfEven num (den * 2 ^ c) = rne m c /\
  (spec_round MHalfEven num (den * 2 ^ c) * (den * 2 ^ c) ?= num) = (rne m c * 2 ^ c ?= m).
Proof.
  intros Hn Hd Hc m.
  destruct (rne_rat_half num den c Hn Hd ltac:(lia)) as [A1 A2]. cbv zeta in A1, A2.
  set (q := num / den) in *. set (b := if num mod den =? 0 then 0 else 1) in *.
  assert (Hq : 0 <= q) by (apply Z.div_pos; lia).
  assert (Hb : b = 0 \/ b = 1) by (unfold b; destruct (num mod den =? 0); lia).
  set (v := 2 * q + b) in *.
  assert (Hs : sticky_of v 1 = m).
  { unfold sticky_of, m. change (2 ^ 1) with 2.
    assert (v / 2 = q) by (symmetry; apply Z.div_unique with (r := b); lia).
    assert (v mod 2 = b) by (symmetry; apply Z.mod_unique with (q := q); lia).
    rewrite H, H0. fold q. fold b. destruct Hb as [-> | ->]; reflexivity. }
  destruct (rne_sticky v 1 c ltac:(lia) ltac:(lia) Hc) as [B1 B2].
  rewrite Hs in B1, B2. replace (1 + c) with (c + 1) in B1, B2 by lia.
  split; congruence.
Qed.

(** RBig::to_f32/to_f64, main branch (no shortcut taken), positive numerator: the result is the
    correctly rounded value of (sticky quotient) * 2^shift.  PARTIAL: together with
    [rne_rat_sticky] (rounding N/D at any position at least two bits below the quotient's last bit
    only sees the sticky quotient) this is the whole argument; what is not formalised is the
    bookkeeping that mag2 N D = blen (sticky quotient) + shift and the two shortcut branches
    (shift >= TOP_MAX - K + 1 gives infinity, shift < emin - K - 2 gives zero). *)
Definition rat_quot_sticky (P : enc_params) (a D : Z) : Z * Z :=
  let K := MB P + 3 in
  let shift := blen a - blen D - K in
  let '(num, den) := if 0 <=? shift then (a, D * 2 ^ shift) else (a * 2 ^ (- shift), D) in
  (Z.lor (num / den) (if num mod den =? 0 then 0 else 1), shift).

Theorem rat_to_float_main_partial P a D :
  1 <= MB P -> MB P + 3 <= W P -> 2 * BIAS P + 2 = 2 ^ (W P - 1 - MB P) -> 1 <= BIAS P ->
  TOP_MAX P = BIAS P + 1 -> UNDER P = 1 - BIAS P - MB P ->
  (NORM_LIM P = 1 - BIAS P \/ NORM_LIM P = 2 - BIAS P) ->
  0 < a ->
  let m := fst (rat_quot_sticky P a D) in
  let shift := snd (rat_quot_sticky P a D) in
  blen (Z.abs m) <= W P ->
  (shift >=? TOP_MAX P - (MB P + 3 - 1)) = false ->
  (shift <? - (BIAS P - 1) - MB P - 1 - (MB P + 3 + 1)) = false ->
  rat_to_float P a D = ieee_rne (fmt_of P) (fst (frac_of m shift)) (snd (frac_of m shift)).
Proof.
  intros H1 H2 H3 H4 H5 H6 H7 Ha m shift Hm Hs1 Hs2.
  rewrite <- (encode_correct P H1 H2 H3 H4 H5 H6 H7 m shift Hm).
  unfold rat_to_float. destruct (Z.eqb_spec a 0); [lia|]. destruct (Z.ltb_spec a 0); [lia|].
  rewrite (Z.abs_eq a) by lia. cbv zeta.
  unfold m, shift, rat_quot_sticky in *. cbv zeta in *.
  set (sh := blen a - blen D - (MB P + 3)) in *.
  destruct (if 0 <=? sh then (a, D * 2 ^ sh) else (a * 2 ^ (- sh), D)) as [num den]. cbn [fst snd] in *.
  rewrite Hs1, Hs2. reflexivity.
Qed.

Example rat_to_float_main_nonvacuous :
  rat_to_float P32 1677721749 100 = ieee_rne F32 1677721749 100.
Proof. vm_compute. reflexivity. Qed.
