(** C06: the open findings, refuted on their witnesses by the as-is models (computation on closed
    terms), and what the as-is models do on the witnesses of the repaired ones. *)
From Dashu Require Import Base.Prelude Float.RoundSpec Float.Contract Float.Model
  Conv.ConvSpec Conv.ConvModel.
From DashuGen Require Import RoundTables.
Open Scope Z_scope.

(** F37 RBig::to_float rounds twice: 9449/1000 at 2 decimal digits, HalfAway *)
(** F37 (repaired): RBig::to_float keeps exactly p digits of the quotient and rounds once; the
    former witnesses 9.449 -> 2 digits and 12.346 -> 3 digits under HalfAway *)
Theorem rat_to_fbig_repaired_witness :
  rat_to_fbig 10 2 MHalfAway 9449 1000 = AInexact 94 (-1) NoOp /\
  rat_to_fbig_spec 10 2 MHalfAway 9449 1000 = (94, -1, Lt) /\
  flag_of_error 1 Lt = Some NoOp /\
  rat_to_fbig_twice 10 2 MHalfAway 9449 1000 = false /\
  rat_to_fbig 10 3 MHalfAway 12346 1000 = AInexact 123 (-1) NoOp.
Proof. vm_compute. repeat split; reflexivity. Qed.

(** F38 FBig -> f32 in the subnormal range (code before the fourth round; since then repaired for base 2):
    3 * 2^-151 is 0.75 of the smallest subnormal; the value was right but the flag said NoOp (towards
    zero) although it was rounded up *)
Theorem fbig_to_float_subnormal_refuted :
  fbig_to_float_old P32 2 MHalfEven 3 (-151) = Ok (FR 1 (Some NoOp)) /\
  ieee_round F32 MHalfEven 3 (2 ^ 151) = (1, Gt) /\
  flag_of_error 1 Gt = Some AddOne.
Proof. vm_compute. repeat split; reflexivity. Qed.

(** ... and a value that was rounded twice: (2^25 + 23) * 2^-153, i.e. (2^21 + 1 + 7/16) ulps *)
Theorem fbig_to_float_subnormal_value_refuted :
  fbig_to_float_old P32 2 MHalfEven (2 ^ 25 + 23) (-153) = Ok (FR (2 ^ 21 + 2) (Some NoOp)) /\
  fst (ieee_round F32 MHalfEven (2 ^ 25 + 23) (2 ^ 153)) = 2 ^ 21 + 1.
Proof. vm_compute. repeat split; reflexivity. Qed.

(** the repaired base-2 conversion on the same witnesses, and on a base the repair does not cover
    (16: exact convert_base, 24 bits, then encode): the class stays open for bases other than 2 *)
Theorem fbig_to_float_subnormal_repaired_witness :
  fbig_to_float P32 2 MHalfEven 3 (-151) = Ok (FR 1 (Some AddOne)) /\
  fbig_to_float P32 2 MHalfEven (2 ^ 25 + 23) (-153) = Ok (FR (2 ^ 21 + 1) (Some NoOp)) /\
  fbig_to_float P32 2 MUp 1 (-200) = Ok (FR 1 (Some AddOne)) /\
  fbig_to_float P32 2 MUp (-1) (-200) = Ok (FR (2 ^ 31) (Some NoOp)) /\
  fbig_to_float P32 16 MHalfEven 6 (-38) = Ok (FR 1 (Some NoOp)) /\
  ieee_round F32 MHalfEven 6 (2 ^ 152) = (1, Gt).
Proof. vm_compute. repeat split; reflexivity. Qed.

(** F39 (repaired in the fourth round) non-binary FBig -> f64 through repr_div: before the repair
    4899e-7 reached into_f64_internal with 54 bits *)
Theorem fbig_to_float_division_refuted :
  fbig_to_float_old P64 10 MHalfEven 4899 (-7) = Panic Undocumented /\
  ieee_round F64 MHalfEven 4899 (10 ^ 7) = (4557657753232426611, Gt).
Proof. vm_compute. repeat split; reflexivity. Qed.

(** ... and the repaired route on the same witness: the correctly rounded double, flag AddOne *)
Theorem fbig_to_float_division_repaired_witness :
  fbig_to_float P64 10 MHalfEven 4899 (-7) = Ok (FR 4557657753232426611 (Some AddOne)) /\
  flag_of_error 1 Gt = Some AddOne.
Proof. vm_compute. repeat split; reflexivity. Qed.

(** F40 TryFrom<UBig> for f32 refuses 16777218 = 2^24 + 2, which is an f32 *)
Theorem int_try_to_float_refuted :
  int_try_to_float P32 16777218 = CLossOfPrecision /\ exact_to_float F32 16777218 1 = Some 1266679809.
Proof. vm_compute. repeat split; reflexivity. Qed.

(** F42 to_f32_fast is two units in the last place away from the correctly rounded value *)
Theorem rat_to_float_fast_refuted :
  rat_to_float_fast P32 (-4486) 73509287 = fst (ieee_rne F32 (-4486) 73509287) + 2.
Proof. vm_compute. reflexivity. Qed.

(** repaired defects: the models (of the repaired code) on the old witnesses *)
Example F30_quarter_bit : encode_asis P64 (2 ^ 54 + 3) 0 = (4850376798678024193, Gt).
Proof. reflexivity. Qed.
Example F31_f32_underflow : encode_asis P32 3 (-151) = (1, Gt).
Proof. reflexivity. Qed.
Example F32_u128_max : ubig_to_float P64 128 (2 ^ 128 - 1) = (5183643171103440896, Gt).
Proof. vm_compute. reflexivity. Qed.
Example F33_one_and_a_half : float_try_to_int P32 true 1069547520 = CLossOfPrecision.
Proof. reflexivity. Qed.
Example F35_double_rounding : rat_to_float P32 1677721749 100 = (1266679809, Gt).
Proof. vm_compute. reflexivity. Qed.
Example F41_overflow_flag : fbig_to_float P64 2 MDown (2 ^ 53 - 1) 972 = Ok (FR 9218868437227405312 (Some AddOne)).
Proof. vm_compute. reflexivity. Qed.
