(** C06: the IEEE rounding specification on dyadic inputs a * 2^exp (a > 0), in canonical form;
    sign symmetry of the specification. *)
From Dashu Require Import Base.Prelude Float.RoundSpec Float.Contract Conv.ConvSpec Conv.ConvArith.
Open Scope Z_scope.

Lemma rne_nonneg a k : 0 <= a -> 0 <= k -> 0 <= rne a k.
Proof.
  intros Ha Hk. destruct (Z.eq_dec k 0) as [->|].
  - unfold rne. change (2 ^ 0) with 1. replace a with (a * 1) at 1 by lia.
    rewrite spec_round_even_int by lia. lia.
  - destruct (rne_round_bits a k Ha ltac:(lia)) as [H _]. rewrite H.
    pose proof (Z.div_pos a (2 ^ k) Ha (pow2_pos k Hk)).
    destruct ((6 <=? round_bits a k) || (round_bits a k =? 3)); lia.
Qed.

Lemma compare_scale x y c : 0 < c -> (x * c ?= y * c) = (x ?= y).
Proof. intros. symmetry. apply Zmult_compare_compat_r. lia. Qed.

Lemma ieee_rne_dyadic f a exp : 0 < a ->
  let top := blen a + exp in
  let u := Z.max (top - prec f) (emin f) in
  let k := u - exp in
  let M := if k <=? 0 then a * 2 ^ (- k) else rne a k in
  let mg := (u - emin f) * 2 ^ (prec f - 1) + M in
  ieee_rne f (fst (frac_of a exp)) (snd (frac_of a exp)) =
    if inf_mag f <=? mg then (inf_mag f, Gt)
    else (mg, if k <=? 0 then Eq else (M * 2 ^ k ?= a)).
Proof.
  intros Ha top u k M mg.
  unfold ieee_rne, ieee_round, ulp_exp.
  assert (HN : 0 < fst (frac_of a exp)).
  { unfold frac_of. destruct (0 <=? exp) eqn:E; cbn [fst]; [|lia].
    apply Z.leb_le in E. pose proof (pow2_pos exp E). nia. }
  destruct (Z.eqb_spec (fst (frac_of a exp)) 0); [lia|].
  destruct (Z.ltb_spec (fst (frac_of a exp)) 0); [lia|].
  rewrite (Z.abs_eq (fst (frac_of a exp))) by lia.
  rewrite mag2_dyadic by assumption. fold top. fold u.
  assert (HM : round_rat_at 2 MHalfEven (fst (frac_of a exp)) (snd (frac_of a exp)) u = M /\
               cmp_kx 2 1 (XRat (fst (frac_of a exp)) (snd (frac_of a exp))) M u =
                 if k <=? 0 then Eq else (M * 2 ^ k ?= a)).
  { unfold round_rat_at, cmp_kx, frac_of, M.
    destruct (Z.leb_spec 0 exp) as [He|He]; cbn [fst snd];
    destruct (Z.leb_spec 0 u) as [Hu|Hu]; destruct (Z.leb_spec k 0) as [Hk|Hk]; try lia.
    - (* exp >= 0, u >= 0, u <= exp *)
      assert (E : a * 2 ^ exp = a * 2 ^ (- k) * 2 ^ u).
      { rewrite <- Z.mul_assoc, <- pow2_split by lia. do 2 f_equal. lia. }
      rewrite E, Z.mul_1_l, spec_round_even_int by (apply pow2_pos; lia).
      split; [reflexivity|]. apply Z.compare_eq_iff. lia.
    - assert (E : 1 * 2 ^ u = 2 ^ k * 2 ^ exp).
      { rewrite <- pow2_split by lia. rewrite Z.mul_1_l. f_equal. lia. }
      rewrite E, spec_round_even_scale by (apply pow2_pos; lia).
      split; [reflexivity|]. fold (rne a k).
      replace (rne a k * 2 ^ u * 1) with (rne a k * 2 ^ k * 2 ^ exp) by (rewrite Z.mul_1_l in E; rewrite E; ring).
      rewrite Z.mul_1_l. apply compare_scale. apply pow2_pos; lia.
    - (* exp >= 0 > u *)
      assert (E : a * 2 ^ exp * 2 ^ (- u) = a * 2 ^ (- k)).
      { rewrite <- Z.mul_assoc, <- pow2_split by lia. do 2 f_equal. lia. }
      rewrite E. replace (a * 2 ^ (- k)) with (a * 2 ^ (- k) * 1) at 1 by lia.
      rewrite spec_round_even_int by lia. split; [reflexivity|]. apply Z.compare_eq_iff. lia.
    - (* exp < 0 <= u *)
      assert (E : 2 ^ (- exp) * 2 ^ u = 2 ^ k).
      { rewrite <- pow2_split by lia. f_equal. lia. }
      rewrite E. split; [reflexivity|]. fold (rne a k). rewrite Z.mul_1_l, <- Z.mul_assoc.
      rewrite (Z.mul_comm (2 ^ u)), E. reflexivity.
    - (* exp < 0, u < 0, u <= exp *)
      assert (E : a * 2 ^ (- u) = a * 2 ^ (- k) * 2 ^ (- exp)).
      { rewrite <- Z.mul_assoc, <- pow2_split by lia. do 2 f_equal. lia. }
      rewrite E, spec_round_even_int by (apply pow2_pos; lia).
      split; [reflexivity|]. apply Z.compare_eq_iff. lia.
    - assert (E : 2 ^ (- exp) = 2 ^ k * 2 ^ (- u)).
      { rewrite <- pow2_split by lia. f_equal. lia. }
      rewrite E, spec_round_even_scale by (apply pow2_pos; lia).
      split; [reflexivity|]. fold (rne a k). rewrite Z.mul_assoc, Z.mul_1_l.
      apply compare_scale. apply pow2_pos; lia. }
  destruct HM as [HM1 HM2]. rewrite HM1, HM2.
  assert (0 <= M).
  { unfold M. destruct (Z.leb_spec k 0); [pose proof (pow2_pos (- k)); nia | apply rne_nonneg; lia]. }
  rewrite (Z.abs_eq M) by lia. fold mg. rewrite !Z.add_0_l. reflexivity.
Qed.

(** the specification is odd: negating the source flips the sign bit and the error sign *)
Lemma ieee_rne_opp f N D : 0 < N -> 0 < D ->
  ieee_rne f (- N) D =
    (fst (ieee_rne f N D) + sign_bit f, CompOpp (snd (ieee_rne f N D))).
Proof.
  intros HN HD. unfold ieee_rne, ieee_round.
  destruct (Z.eqb_spec (- N) 0); [lia|]. destruct (Z.eqb_spec N 0); [lia|].
  rewrite Z.abs_opp. destruct (Z.ltb_spec (- N) 0); [|lia]. destruct (Z.ltb_spec N 0); [lia|].
  set (u := ulp_exp f (Z.abs N) D).
  assert (HR : round_rat_at 2 MHalfEven (- N) D u = - round_rat_at 2 MHalfEven N D u).
  { unfold round_rat_at. destruct (0 <=? u) eqn:E.
    - apply spec_round_even_opp. apply Z.leb_le in E. pose proof (pow2_pos u E). nia.
    - rewrite Z.mul_opp_l. apply spec_round_even_opp. lia. }
  rewrite HR, Z.abs_opp.
  set (M := round_rat_at 2 MHalfEven N D u).
  destruct (inf_mag f <=? (u - emin f) * 2 ^ (prec f - 1) + Z.abs M); cbn [fst snd CompOpp].
  - f_equal. lia.
  - f_equal; [lia|]. unfold cmp_kx.
    destruct (0 <=? u).
    + replace (- M * 2 ^ u * D) with (- (M * 2 ^ u * D)) by ring.
      replace (1 * - N) with (- (1 * N)) by ring.
      rewrite Z.compare_opp. apply Z.compare_antisym.
    + replace (- M * D) with (- (M * D)) by ring.
      replace (1 * - N * 2 ^ (- u)) with (- (1 * N * 2 ^ (- u))) by ring.
      rewrite Z.compare_opp. apply Z.compare_antisym.
Qed.
