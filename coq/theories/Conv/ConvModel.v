(** C06: as-is models of the conversion code (after the repairs recorded in findings/C06.json).
    Definitions only.  Machine integers are Z with the wrap-around / truncation written out:
    [x << k] in a W-bit type is [(x * 2^k) mod 2^W], [x >> k] is [x / 2^k], [x & (2^k-1)] is
    [x mod 2^k], [x & 0b110] is [(x mod 8) / 2 * 2], and [|] of disjoint bit ranges is [+]. *)
From Dashu Require Import Base.Prelude Float.RoundSpec Float.Contract Float.Model Conv.ConvSpec.
From DashuGen Require Import RoundTables.
Open Scope Z_scope.

(** ---- base/src/bit.rs: impl FloatEncoding for f32 / f64 (one text, two sets of constants) ---- *)
Record enc_params := { W : Z; MB : Z; BIAS : Z; NORM_LIM : Z; UNDER : Z; TOP_MAX : Z }.
Definition P32 := {| W := 32; MB := 23; BIAS := 127; NORM_LIM := -125; UNDER := -125 - 23 - 1; TOP_MAX := 128 |}.
Definition P64 := {| W := 64; MB := 52; BIAS := 1023; NORM_LIM := -1022; UNDER := -1022 - 52; TOP_MAX := 1024 |}.
Definition fmt_of (P : enc_params) : fmt :=
  {| prec := MB P + 1; emin := - (BIAS P - 1) - MB P; ebits := W P - 1 - MB P |}.

Definition decode_asis (P : enc_params) (bits : Z) : decoded :=
  let sign_bit := bits / 2 ^ (W P - 1) in
  let mantissa_bits := bits mod 2 ^ MB P in
  let exponent := (bits / 2 ^ MB P) mod 2 ^ (W P - 1 - MB P) in
  if exponent =? 2 ^ (W P - 1 - MB P) - 1 then
    (if mantissa_bits =? 0 then DInf (0 <? sign_bit) else DNan)
  else
    let '(m, e) :=
      if exponent =? 0 then (mantissa_bits, - (BIAS P - 1) - MB P)
      else (mantissa_bits + 2 ^ MB P, exponent - (BIAS P + MB P)) in
    DFin (if 0 <? sign_bit then - m else m) e.

Definition round_to_even_adjustment (bits : Z) : bool := (6 <=? bits) || (bits =? 3).

(** the three round bits: lowest kept bit, half bit, sticky; [x] holds them at positions k+1, k
    and below k *)
Definition round_bits_of (x k : Z) : Z :=
  ((x / 2 ^ (k - 1)) mod 8) / 2 * 2 + (if x mod 2 ^ k =? 0 then 0 else 1).

Definition encode_asis (P : enc_params) (mantissa exponent : Z) : Z * comparison :=
  if mantissa =? 0 then (0, Eq) else
  let neg := mantissa <? 0 in
  let sbit := if neg then 2 ^ (W P - 1) else 0 in
  let man := Z.abs mantissa in
  let zeros := W P - blen man in
  let top_bit := (W P - zeros) + exponent in
  if top_bit >? TOP_MAX P then (sbit + (2 * BIAS P + 1) * 2 ^ MB P, if neg then Lt else Gt)
  else if top_bit <? UNDER P then (sbit, if neg then Gt else Lt)
  else
    let '(bits, rb) :=
      if top_bit <=? NORM_LIM P then
        let shift := exponent + (BIAS P - 1) + MB P in
        if 0 <=? shift then (sbit + (man * 2 ^ shift) mod 2 ^ W P, 0)
        else
          (* 1 <= s <= W: lowest kept bit, half bit, sticky of everything below *)
          let s := - shift in
          let kept := man / 2 ^ s in
          let half := (man / 2 ^ (s - 1)) mod 2 in
          let sticky := if man mod 2 ^ (s - 1) =? 0 then 0 else 1 in
          (sbit + kept, (kept mod 2) * 4 + half * 2 + sticky)
      else
        let man' := if man =? 1 then 0 else (man * 2 ^ (zeros + 1)) mod 2 ^ W P in
        let e' := (exponent + BIAS P + W P) - zeros - 1 in
        (sbit + e' * 2 ^ MB P + man' / 2 ^ (W P - MB P), round_bits_of man' (W P - MB P - 1)) in
    if rb mod 4 =? 0 then (bits, Eq)
    else if round_to_even_adjustment rb then (bits + 1, if neg then Lt else Gt)
    else (bits, if neg then Gt else Lt).

(** apply a sign to a magnitude result (Sign * f32, Sign * Sign) *)
Definition with_sign (P : enc_params) (neg : bool) (r : Z * comparison) : Z * comparison :=
  if neg then (fst r + 2 ^ (W P - 1), CompOpp (snd r)) else r.

Definition inf_bits (P : enc_params) : Z := (2 * BIAS P + 1) * 2 ^ MB P.

(** ---- integer/src/convert.rs ---- *)

(** `x as f32/f64` of an unsigned integer: core's cast is round-to-nearest-even, overflow to inf
    (contract of the primitive, not dashu code) *)
Definition cast_uint (P : enc_params) (v : Z) : Z := fst (ieee_rne (fmt_of P) v 1).
(** `f as uN` of a non-negative finite float: truncation, saturating *)
Definition cast_back (P : enc_params) (DW bits : Z) : Z :=
  match decode_asis P bits with
  | DFin man exp => Z.min (2 ^ DW - 1) (if 0 <=? exp then man * 2 ^ exp else man / 2 ^ (- exp))
  | _ => 2 ^ DW - 1
  end.

(** to_f32_small / to_f64_small on a double word of DW bits *)
Definition to_float_small (P : enc_params) (DW v : Z) : Z * comparison :=
  let f := cast_uint P v in
  if inf_bits P <=? f then (f, Gt)
  else if (BIAS P + DW) * 2 ^ MB P <=? f then (f, Gt)
  else (f, cast_back P DW f ?= v).

(** to_f32_nontrivial / to_f64_nontrivial: top W-1 bits, sticky bit, encode *)
Definition to_float_nontrivial (P : enc_params) (v : Z) : Z * comparison :=
  let n := blen v in
  if n >? TOP_MAX P then (inf_bits P, Gt)
  else
    let k := n - (W P - 1) in
    let top := v / 2 ^ k in
    let extra := if v mod 2 ^ k =? 0 then 0 else 1 in
    encode_asis P (Z.lor top extra) k.

(** UBig::to_f32/to_f64 (magnitude) and IBig (sign * ...) *)
Definition ubig_to_float (P : enc_params) (DW v : Z) : Z * comparison :=
  if v <? 2 ^ DW then to_float_small P DW v else to_float_nontrivial P v.
Definition ibig_to_float (P : enc_params) (DW v : Z) : Z * comparison :=
  if v <? 0 then with_sign P true (ubig_to_float P DW (- v)) else ubig_to_float P DW v.

(** TryFrom<UBig/IBig> for f32/f64: the MAX_BIT_LEN rule *)
Definition is_pow2 (v : Z) : bool := (0 <? v) && (v =? 2 ^ Z.log2 v).
Definition int_try_to_float (P : enc_params) (v : Z) : conv Z :=
  let a := Z.abs v in
  let max_bit_len := MB P + 2 in
  if (blen a >? max_bit_len) || ((blen a =? max_bit_len) && negb (is_pow2 a)) then CLossOfPrecision
  else COk ((if v <? 0 then 2 ^ (W P - 1) else 0) + cast_uint P a).

(** TryFrom<f32/f64> for UBig / IBig *)
Definition float_try_to_int (P : enc_params) (uns : bool) (bits : Z) : conv Z :=
  match decode_asis P bits with
  | DFin man exp =>
      if uns && (man <? 0) then COutOfBounds
      else if 0 <=? exp then COk (man * 2 ^ exp)
      else if negb (man =? 0) && negb (man mod 2 ^ (- exp) =? 0) then CLossOfPrecision
      else COk (man / 2 ^ (- exp))
  | _ => COutOfBounds
  end.

(** primitive <-> big integers.  try_to_unsigned for a target of TW bits; w = word bits.
    A value below 2^(2w) is stored inline (RefSmall), otherwise as ceil(bits/w) >= 3 words. *)
Definition nwords (w v : Z) : Z := (blen v + w - 1) / w.
Definition try_to_unsigned (w TW v : Z) : conv Z :=
  if v <? 2 ^ (2 * w) then (if v <? 2 ^ TW then COk v else COutOfBounds)
  else
    let t_words := (TW / 8) / (w / 8) in
    if (t_words <=? 1) || (nwords w v >? t_words) then COutOfBounds else COk v.

(** PrimitiveSigned::try_from_sign_magnitude on a TW-bit type *)
Definition try_from_sign_magnitude (TW : Z) (neg : bool) (mag : Z) : conv Z :=
  if negb neg then (if mag <? 2 ^ (TW - 1) then COk mag else COutOfBounds)
  else
    let wneg := (2 ^ TW - mag) mod 2 ^ TW in
    let x := if wneg <? 2 ^ (TW - 1) then wneg else wneg - 2 ^ TW in
    if x <=? 0 then COk x else COutOfBounds.

(** to_sign_magnitude of a TW-bit signed value *)
Definition to_sign_magnitude (TW v : Z) : bool * Z :=
  if 0 <=? v then (false, v)
  else (true, (2 ^ TW - (v mod 2 ^ TW)) mod 2 ^ TW).

Definition cbind {A B} (x : conv A) (f : A -> conv B) : conv B :=
  match x with COk a => f a | COutOfBounds => COutOfBounds | CLossOfPrecision => CLossOfPrecision end.

(** TryFrom<UBig/IBig> for the primitive types *)
Definition ubig_to_prim (w : Z) (sg : bool) (TW v : Z) : conv Z :=
  if sg then cbind (try_to_unsigned w TW v) (try_from_sign_magnitude TW false)
  else try_to_unsigned w TW v.
Definition ibig_to_prim (w : Z) (sg : bool) (TW v : Z) : conv Z :=
  if sg then cbind (try_to_unsigned w TW (Z.abs v)) (try_from_sign_magnitude TW (v <? 0))
  else if v <? 0 then COutOfBounds else try_to_unsigned w TW v.
(** From / TryFrom of primitives into UBig / IBig *)
Definition prim_to_ubig (sg : bool) (TW v : Z) : conv Z :=
  if sg then (let '(neg, mag) := to_sign_magnitude TW v in if neg then COutOfBounds else COk mag)
  else COk v.
Definition prim_to_ibig (sg : bool) (TW v : Z) : Z :=
  if sg then (let '(neg, mag) := to_sign_magnitude TW v in if neg then - mag else mag) else v.

(** ---- rational/src/convert.rs: Repr::to_f32 / to_f64 ---- *)
Definition rat_to_float (P : enc_params) (N D : Z) : Z * comparison :=
  if N =? 0 then (0, Eq) else
  let neg := N <? 0 in
  let K := MB P + 3 in
  let shift := blen (Z.abs N) - blen D - K in
  if shift >=? TOP_MAX P - (K - 1) then with_sign P neg (inf_bits P, Gt)
  else if shift <? (- (BIAS P - 1) - MB P - 1) - (K + 1) then with_sign P neg (0, Lt)
  else
    let '(num, den) := if 0 <=? shift then (Z.abs N, D * 2 ^ shift) else (Z.abs N * 2 ^ (- shift), D) in
    let man := num / den in
    let r := num mod den in
    let man := Z.lor man (if r =? 0 then 0 else 1) in
    encode_asis P (if neg then - man else man) shift.

(** Repr::to_f32_fast / to_f64_fast: 2K-bit numerator by K-bit denominator (K = 24 / 53), both
    shifted (floor), quotient rounded to nearest even, then encode (a second rounding) *)
Definition rat_to_float_fast (P : enc_params) (N D : Z) : Z :=
  if N =? 0 then 0 else
  let neg := N <? 0 in
  let K := MB P + 1 in
  let num_shift := blen (Z.abs N) - 2 * K in
  (* IBig >> rounds towards minus infinity, the magnitude is taken afterwards: a negative numerator
     with dropped bits is rounded away from zero *)
  let numK := if 0 <=? num_shift then Z.abs (N / 2 ^ num_shift) else Z.abs N * 2 ^ (- num_shift) in
  let den_shift := blen D - K in
  let denK := if 0 <=? den_shift then D / 2 ^ den_shift else D * 2 ^ (- den_shift) in
  let exponent := num_shift - den_shift in
  if exponent >=? TOP_MAX P then (if neg then 2 ^ (W P - 1) else 0) + inf_bits P
  else if exponent <? (- (BIAS P - 1) - MB P) - (K + 1) then (if neg then 2 ^ (W P - 1) else 0)
  else
    let man := numK / denK in
    let r := numK mod denK in
    let man := if (2 * r >? denK) || ((2 * r =? denK) && Z.odd man) then man + 1 else man in
    fst (encode_asis P (if neg then - man else man) exponent).

(** ---- float/src/convert.rs ---- *)
Inductive frounded := FR (bits : Z) (flag : option rounding).

(** Rounded::and_then *)
Definition fr_and_then (first : option rounding) (second : frounded) : frounded :=
  match second with
  | FR b None => FR b first
  | FR b (Some r) => FR b (Some r)
  end.

(** Repr::<2>::into_f32_internal / into_f64_internal *)
Definition into_float_internal (P : enc_params) (s e : Z) : frounded :=
  if e + blen (Z.abs s) >? TOP_MAX P then
    (if s <? 0 then FR (2 ^ (W P - 1) + inf_bits P) (Some SubOne) else FR (inf_bits P) (Some AddOne))
  else if e <? (- (BIAS P - 1) - MB P) - (MB P + 1) then
    FR (if s <? 0 then 2 ^ (W P - 1) else 0) (Some NoOp)
  else
    match encode_asis P s e with
    | (b, Eq) => FR b None
    | (b, _) => FR b (Some NoOp)
    end.

(** FBig<R,2>::to_f32 / to_f64 and Repr<2>::to_f32/to_f64 BEFORE the repair of F38 for base 2 (and still the
    shape of the route of every other base after convert_base): round to MB+1 bits under the mode,
    then into_f32/f64_internal (whose encode rounds a subnormal result a second time) *)
Definition fbig2_to_float_old (P : enc_params) (m : mode) (s e : Z) : frounded :=
  let '(s, e) := normalize 2 s e in
  match repr_round 2 (MB P + 1) m s e with
  | AExact s' e' => into_float_internal P s' e'
  | AInexact s' e' r =>
      (* repr_round builds its result with Repr::new, which strips trailing zeros (a carry) *)
      let '(s'', e'') := normalize 2 s' e' in
      fr_and_then (Some r) (into_float_internal P s'' e'')
  end.

(** Repr::<2>::round_to_subnormal::<R>(min_exponent) (fourth round, repair of F38 for base 2): a finite
    non-zero s * 2^e below the smallest normal number is rounded ONCE to a multiple of 2^me; a
    magnitude below a quarter of 2^me is rounded like a quarter (the power 2^shift is not evaluated) *)
Definition round_to_subnormal (m : mode) (me s e : Z) : Z * option rounding :=
  if me <=? e then (s * 2 ^ (e - me), None)
  else
    let shift := me - e in
    if shift >? dlen 2 s + 1 then
      let a := round_fract 2 m 0 (Z.sgn s * 1) 2 in (0 + adj a, Some a)
    else
      let '(hi, lo) := split_digits 2 s shift in
      if lo =? 0 then (hi, None)
      else let a := round_fract 2 m hi lo shift in (hi + adj a, Some a).

(** Repr::<2>::binary_to_f32::<R> / binary_to_f64::<R> = FBig<R,2>::to_f32 (mode R) / to_f64 (HalfEven) and
    Repr<2>::to_f32/to_f64 (HalfEven), finite: MB+1 bits from the smallest normal number 2^-(BIAS-1) on,
    one rounding at the smallest subnormal 2^(-(BIAS-1)-MB) below it; `sign * encode(|man|, me)` *)
Definition fbig2_to_float (P : enc_params) (m : mode) (s e : Z) : frounded :=
  let '(s, e) := normalize 2 s e in
  (* fe9a9a4: a top bit beyond TOP_MAX + 1 is an overflow whatever the rounding does; answered before the rounding
     (next to isize::MAX the exponent of the rounded number is not representable) *)
  if negb (s =? 0) && (e + dlen 2 s >? TOP_MAX P + 1) then
    (if s <? 0 then FR (2 ^ (W P - 1) + inf_bits P) (Some SubOne) else FR (inf_bits P) (Some AddOne))
  else
  if (s =? 0) || (e + dlen 2 s >? - (BIAS P - 1)) then fbig2_to_float_old P m s e
  else
    let me := - (BIAS P - 1) - MB P in
    let '(man, fl) := round_to_subnormal m me s e in
    FR ((if s <? 0 then 2 ^ (W P - 1) else 0) + fst (encode_asis P (Z.abs man) me)) fl.

(** into_f32_internal / into_f64_internal with their debug assertion (the harness profile keeps
    debug assertions on): a significand of more than MB+1 bits panics *)
Definition into_float_checked (P : enc_params) (s e : Z) : result frounded :=
  if dlen 2 s >? MB P + 1 then Panic Undocumented else Ok (into_float_internal P s e).

Definition and_then_checked (P : enc_params) (a : approx) : result frounded :=
  match a with
  | AExact s e => into_float_checked P s e
  | AInexact s e r =>
      let '(s, e) := normalize 2 s e in
      match into_float_checked P s e with Ok fr => Ok (fr_and_then (Some r) fr) | o => o end
  end.

(** the division route of Context::convert_base after the repair of F39 (fourth round), generic in
    the target base NB: a dividend with fewer than p + digits(divisor) digits is padded, then the
    exact quotient is cut to exactly p digits and rounded ONCE by round_ratio with the dropped
    digits and the remainder (repr_div, whose quotient can have p + 1 digits, is no longer called).
    Operands: normal forms s1 * NB^e1 (s1 <> 0: a finite Repr with a non-zero exponent has a
    non-zero significand) and s2 * NB^e2 (s2 > 0).  Repr::new of an exact result strips zeros. *)
Definition div_round_once (NB p : Z) (m : mode) (s1 e1 s2 e2 : Z) : approx :=
  let min_digits := p + dlen NB s2 in
  let pad := if dlen NB s1 <? min_digits then min_digits - dlen NB s1 else 0 in
  let n := s1 * NB ^ pad in
  let ne := e1 - pad in
  let q := Z.quot n s2 in
  let r := Z.rem n s2 in
  let shift := dlen NB q - p in
  let exponent := ne - e2 + shift in
  let '(hi, lo) := split_digits NB q shift in
  let rem := lo * s2 + r in
  if rem =? 0 then (let '(h, x) := normalize NB hi exponent in AExact h x)
  else let a := round_ratio m hi rem (s2 * NB ^ shift) in AInexact (hi + adj a) exponent a.

(** Context::convert_base::<B, 2> on the routes that need no logarithm: B a power of two (the
    exponent is multiplied), or |exponent| <= THRESHOLD_SMALL_EXP (exact power, or the division by
    the power rounded once).  Every route ends in one rounding to the context precision. *)
Definition ilog_exact2 (B : Z) : Z := if B =? 2 ^ Z.log2 B then Z.log2 B else 0.
Definition convert_base_to2 (B p : Z) (m : mode) (s e : Z) : result approx :=
  let n := ilog_exact2 B in
  if 1 <? n then (let '(s0, e0) := normalize 2 s (e * n) in Ok (repr_round 2 p m s0 e0))
  else if 0 <=? e then (let '(s0, e0) := normalize 2 (s * B ^ e) 0 in Ok (repr_round 2 p m s0 e0))
  else
    let '(s1, e1) := normalize 2 s 0 in
    let '(s2, e2) := normalize 2 (B ^ (- e)) 0 in
    Ok (div_round_once 2 p m s1 e1 s2 e2).

(** the division route BEFORE the repair (finding F39, kept for its refutation): a short dividend
    went through repr_div, which returns up to p + 1 digits *)
Definition convert_base_to2_old (B p : Z) (m : mode) (s e : Z) : result approx :=
  let n := ilog_exact2 B in
  if 1 <? n then (let '(s0, e0) := normalize 2 s (e * n) in Ok (repr_round 2 p m s0 e0))
  else if 0 <=? e then (let '(s0, e0) := normalize 2 (s * B ^ e) 0 in Ok (repr_round 2 p m s0 e0))
  else
    let '(s1, e1) := normalize 2 s 0 in
    let '(s2, e2) := normalize 2 (B ^ (- e)) 0 in
    if dlen 2 s1 <=? p + dlen 2 s2 then repr_div 2 p m s1 e1 s2 e2
    else
      let q := Z.quot s1 s2 in
      let r := Z.rem s1 s2 in
      let shift := dlen 2 q - p in
      let exponent := e1 - e2 + shift in
      let '(hi, lo) := split_digits 2 q shift in
      let rem := lo * s2 + r in
      if rem =? 0 then Ok (AExact hi exponent)
      else let a := round_ratio m hi rem (s2 * 2 ^ shift) in Ok (AInexact (hi + adj a) exponent a).

(** FBig<R,B>::to_f32 (mode R) / to_f64 (HalfEven) and Repr<B>::to_f32/to_f64, finite, any base *)
Definition fbig_to_float (P : enc_params) (B : Z) (m : mode) (s e : Z) : result frounded :=
  if B =? 2 then Ok (fbig2_to_float P m s e)
  else rbind (convert_base_to2 B (MB P + 1) m s e) (and_then_checked P).
Definition fbig_to_float_old (P : enc_params) (B : Z) (m : mode) (s e : Z) : result frounded :=
  if B =? 2 then Ok (fbig2_to_float_old P m s e)
  else rbind (convert_base_to2_old B (MB P + 1) m s e) (and_then_checked P).

(** ---- rational/src/third_party/dashu_float.rs: Repr::to_float (after the repair of F37: the
    quotient has at least p digits; exactly p are kept, the digits below them and the remainder of
    the division are rounded in one step; convert_int then only strips trailing zeros) ---- *)
Definition rat_to_fbig (B p : Z) (m : mode) (N D : Z) : approx :=
  if N =? 0 then AExact 0 0 else
  let num_digits := dlen B N - 1 in
  let den_digits := dlen B D - 1 in
  let shift := if num_digits >=? p + den_digits then 0 else (p + den_digits) - num_digits in
  let n' := N * B ^ shift in
  let q := Z.quot n' D in
  let r := Z.rem n' D in
  let extra := dlen B q - p in
  let '(hi, rem, den) :=
    if extra =? 0 then (q, r, D)
    else (Z.quot q (B ^ extra), Z.rem q (B ^ extra) * D + r, D * B ^ extra) in
  let first := if rem =? 0 then None else Some (round_ratio m hi rem den) in
  let n := match first with None => hi | Some a => hi + adj a end in
  let '(s0, e0) := normalize B n 0 in
  match repr_round B p m s0 e0, first with
  | AExact s e, None => AExact s (e - (shift - extra))
  | AExact s e, Some a => AInexact s (e - (shift - extra)) a
  | AInexact s e f, _ => AInexact s (e - (shift - extra)) f
  end.

(** a second rounding would happen if the integer handed to convert_int still had more than p
    digits after stripping trailing zeros (it never does after the repair; kept as a run-time
    cross-check of the model) *)
Definition rat_to_fbig_twice (B p : Z) (m : mode) (N D : Z) : bool :=
  if N =? 0 then false else
  let num_digits := dlen B N - 1 in
  let den_digits := dlen B D - 1 in
  let shift := if num_digits >=? p + den_digits then 0 else (p + den_digits) - num_digits in
  let n' := N * B ^ shift in
  let q := Z.quot n' D in
  let r := Z.rem n' D in
  let extra := dlen B q - p in
  let '(hi, rem, den) :=
    if extra =? 0 then (q, r, D)
    else (Z.quot q (B ^ extra), Z.rem q (B ^ extra) * D + r, D * B ^ extra) in
  negb (rem =? 0) && (dlen B (fst (normalize B (hi + adj (round_ratio m hi rem den)) 0)) >? p).

(** the correctly rounded p-digit float of N/D: significand at the exponent of the p-th digit *)
Definition rat_to_fbig_spec (B p : Z) (m : mode) (N D : Z) : Z * Z * comparison :=
  if N =? 0 then (0, 0, Eq) else
  let u := rat_exp B N D - p + 1 in
  let M := round_rat_at B m N D u in
  (M, u, cmp_kx B 1 (XRat N D) M u).
