(** C06 (third round): as-is models of the remaining TryFrom glue and of RBig::to_int.
    Definitions only.  trailing_zeros + shift right by it is [normalize 2 v 0] (odd part, count). *)
From Dashu Require Import Base.Prelude Float.RoundSpec Float.Contract Float.Model Conv.ConvSpec Conv.ConvModel.
From DashuGen Require Import RoundTables.
Open Scope Z_scope.

Definition conv_ok {A} (c : conv A) : option A := match c with COk a => Some a | _ => None end.

(** ---- rational/src/convert.rs: impl_conversion_to_float!  TryFrom<RBig> for f32 / f64 (the
    fraction N/D is the stored, reduced one; Relaxed canonicalises first).  LB / UB are the two
    macro arguments [-149, 128] / [-1074, 1024], MD is <$t>::MANTISSA_DIGITS ---- *)
Definition rat_try_to_float_gen (P : enc_params) (LB UB MD : Z) (N D : Z) : conv Z :=
  if N =? 0 then COk 0 else
  let '(d0, den_bits) := normalize 2 D 0 in
  if negb (d0 =? 1) then CLossOfPrecision            (* denominator.is_power_of_two() *)
  else
    let num_bits := blen (Z.abs N) in
    let top_bit := num_bits - den_bits in
    if top_bit >? UB then COutOfBounds
    else if top_bit <? LB then CLossOfPrecision
    else
      let '(man, num_zeros) := normalize 2 N 0 in
      if blen (Z.abs man) >? MD then CLossOfPrecision
      else
        match encode_asis P man (num_zeros - den_bits) with
        | (b, Eq) => COk b
        | (b, _) => if b mod 2 ^ (W P - 1) =? inf_bits P then COutOfBounds else CLossOfPrecision
        end.
Definition rat_try_to_float (P : enc_params) : Z -> Z -> conv Z :=
  rat_try_to_float_gen P (- (BIAS P - 1) - MB P) (TOP_MAX P) (MB P + 1).

(** Repr::reduce2 *)
Definition reduce2 (n d : Z) : Z * Z :=
  if n =? 0 then (0, 1) else
  let zeros := Z.min (snd (normalize 2 n 0)) (snd (normalize 2 d 0)) in
  if 0 <? zeros then (n / 2 ^ zeros, d / 2 ^ zeros) else (n, d).

(** impl_conversion_from_float!  TryFrom<f32/f64> for RBig / Relaxed *)
Definition float_try_to_rat (P : enc_params) (bits : Z) : conv (Z * Z) :=
  match decode_asis P bits with
  | DFin man exp =>
      if man =? 0 then COk (0, 1)
      else let '(n, d) := if 0 <=? exp then (man * 2 ^ exp, 1) else (man, 2 ^ (- exp)) in COk (reduce2 n d)
  | _ => COutOfBounds
  end.

(** TryFrom<RBig> for the primitive integers: IBig::try_from(repr)?, then int.try_into() *)
Definition rat_try_to_ibig_c (N D : Z) : conv Z := if D =? 1 then COk N else CLossOfPrecision.
Definition rat_try_to_prim (w : Z) (sg : bool) (TW N D : Z) : conv Z :=
  cbind (rat_try_to_ibig_c N D) (ibig_to_prim w sg TW).

(** RBig / Relaxed ::to_int = split_at_point: truncated quotient and the remainder over the same
    denominator (zero() when the remainder vanishes) *)
Definition rat_to_int_asis (N D : Z) : Z * (Z * Z) :=
  let t := Z.quot N D in let r := Z.rem N D in
  (t, if r =? 0 then (0, 1) else (r, D)).

(** ---- float/src/convert.rs: impl_from_fbig_for_float!  TryFrom<FBig<R,2>> / TryFrom<Repr<2>>
    for f32 / f64 (finite input) ---- *)
Definition fbig2_try_to_float (P : enc_params) (m : mode) (s e : Z) : conv Z :=
  match fbig2_to_float P m s e with
  | FR b None => COk b
  | FR b (Some _) => if b mod 2 ^ (W P - 1) =? inf_bits P then COutOfBounds else CLossOfPrecision
  end.
(** ... and over the conversion as it was before the repair of F38 (kept for its proved statements) *)
Definition fbig2_try_to_float_old (P : enc_params) (m : mode) (s e : Z) : conv Z :=
  match fbig2_to_float_old P m s e with
  | FR b None => COk b
  | FR b (Some _) => if b mod 2 ^ (W P - 1) =? inf_bits P then COutOfBounds else CLossOfPrecision
  end.

(** impl_from_float_for_fbig!  TryFrom<f32/f64> for Repr<2> (Repr::new normalises) and the context
    precision FBig takes from the mantissa *)
Definition float_try_to_fbig (P : enc_params) (bits : Z) : conv (Z * Z * Z) :=
  match decode_asis P bits with
  | DFin man exp => let '(s, e) := normalize 2 man exp in COk (s, e, blen (Z.abs man))
  | _ => COutOfBounds
  end.

(** ---- Repr::to_f32_fast / to_f64_fast with the literals as parameters: NB bits of the numerator
    (48 / 106), DB bits of the denominator (24 / 53), the overflow bound OV (128 / 1024) and the
    underflow bound UN (-149 - 25 / -1074 - 54) ---- *)
Definition rat_to_float_fast_gen (P : enc_params) (NB DB OV UN : Z) (N D : Z) : Z :=
  if N =? 0 then 0 else
  let neg := N <? 0 in
  let num_shift := blen (Z.abs N) - NB in
  let numK := if 0 <=? num_shift then Z.abs (N / 2 ^ num_shift) else Z.abs N * 2 ^ (- num_shift) in
  let den_shift := blen D - DB in
  let denK := if 0 <=? den_shift then D / 2 ^ den_shift else D * 2 ^ (- den_shift) in
  let exponent := num_shift - den_shift in
  if exponent >=? OV then (if neg then 2 ^ (W P - 1) else 0) + inf_bits P
  else if exponent <? UN then (if neg then 2 ^ (W P - 1) else 0)
  else
    let man := numK / denK in
    let r := numK mod denK in
    let man := if (2 * r >? denK) || ((2 * r =? denK) && Z.odd man) then man + 1 else man in
    fst (encode_asis P (if neg then - man else man) exponent).

(** the approximate quotient to_f32_fast / to_f64_fast hand to encode: (mantissa, exponent) *)
Definition fast_quotient (P : enc_params) (N D : Z) : Z * Z :=
  let K := MB P + 1 in
  let num_shift := blen (Z.abs N) - 2 * K in
  let numK := if 0 <=? num_shift then Z.abs (N / 2 ^ num_shift) else Z.abs N * 2 ^ (- num_shift) in
  let den_shift := blen D - K in
  let denK := if 0 <=? den_shift then D / 2 ^ den_shift else D * 2 ^ (- den_shift) in
  let man := numK / denK in
  let r := numK mod denK in
  (if (2 * r >? denK) || ((2 * r =? denK) && Z.odd man) then man + 1 else man, num_shift - den_shift).
