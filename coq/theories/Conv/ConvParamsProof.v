(** C06: tie of the as-is models to the sources.  tools/translate.py re-reads, on every run, the
    literals of FloatEncoding::encode/decode (base/src/bit.rs), to_f32/to_f64_nontrivial and the
    shape of to_f32/to_f64_small (integer/src/convert.rs), Repr::to_f32/to_f64
    (rational/src/convert.rs) and into_f32/f64_internal (float/src/convert.rs) into
    coq/gen/ConvParams.v; here they are proved equal to the constants the models of ConvModel.v are
    written with (thresholds, shifts, sticky widths, masks).  A changed literal breaks this proof. *)
From Coq Require Import ZArith List.
Import ListNotations.
From Dashu Require Import Conv.ConvSpec Conv.ConvModel.
From DashuGen Require Import ConvParams.
Open Scope Z_scope.

(** the literals, in source order, as the model spells them *)
Definition encode_lits (P : enc_params) : list Z :=
  [TOP_MAX P; - (BIAS P - 1); MB P; NORM_LIM P; BIAS P - 1; MB P; 1; 1; 1; 1; 1; 2; 1; 1; 1; BIAS P; 1;
   W P - 1; MB P; W P - MB P; W P - MB P - 2; 6; 2 ^ (W P - MB P - 1) - 1; 3].
Definition decode_lits (P : enc_params) : list Z :=
  [W P - 1; 2 ^ MB P - 1; MB P; 2 ^ (W P - 1 - MB P) - 1; 2 ^ (W P - 1 - MB P) - 1; 0; - (BIAS P - 1); MB P; BIAS P; MB P; 2 ^ MB P].
Definition int_nontrivial_lits (P : enc_params) : list Z := [TOP_MAX P; W P - 1; W P - 1; W P - 1].
Definition rat_lits (P : enc_params) : list Z :=
  [MB P + 3; TOP_MAX P; MB P + 3 - 1; - (BIAS P - 1) - MB P - 1; MB P + 3 + 1; 0].
Definition fbig_into_lits (P : enc_params) : list Z := [TOP_MAX P; - (BIAS P - 1) - MB P; MB P + 1].

Theorem conv_params_tie :
  encode_f32_gen = encode_lits P32 /\ encode_f64_gen = encode_lits P64 /\
  decode_f32_gen = decode_lits P32 /\ decode_f64_gen = decode_lits P64 /\
  int_to_f32_nontrivial_gen = int_nontrivial_lits P32 /\ int_to_f64_nontrivial_gen = int_nontrivial_lits P64 /\
  int_to_f32_small_gen = [1; 1; 2] /\ int_to_f64_small_gen = [1; 1; 2] /\
  rat_to_f32_gen = rat_lits P32 /\ rat_to_f64_gen = rat_lits P64 /\
  fbig_into_f32_gen = fbig_into_lits P32 /\ fbig_into_f64_gen = fbig_into_lits P64 /\
  UNDER P32 = - (BIAS P32 - 1) - MB P32 /\ UNDER P64 = - (BIAS P64 - 1) - MB P64.
Proof. repeat split; vm_compute; reflexivity. Qed.
