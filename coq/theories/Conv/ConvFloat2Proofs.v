(** C06 (third round): FBig<R,2>::to_f32 / to_f64 and Repr<2>::to_f32 / to_f64 over the WHOLE
    range, as the code stands: the value is rounded to 24 / 53 bits under the mode (repr_round) and
    FloatEncoding::encode then rounds the result to nearest even into the format; the flag is the
    one of the first rounding if it was inexact and encode was exact, and the flag of
    into_f32/f64_internal (NoOp; Add/SubOne on overflow) whenever encode was inexact.  This is the
    exact statement of the open class fbig_to_float_subnormal: in the normal range the second step
    is exact (C06_fbig2_to_f32/f64), below it the two steps are a double rounding whose flag is
    NoOp whatever the direction.  Also: to_f32_fast / to_f64_fast as "encode of the approximate
    quotient". *)
From Dashu Require Import Base.Prelude Float.RoundSpec Float.RoundSpecProof Float.Contract Float.Model
  Float.ModelProof Float.RoundOpsLegal Conv.ConvSpec Conv.ConvModel Conv.ConvModel2 Conv.ConvArith Conv.ConvIeee
  Conv.ConvEncodeProofs Conv.ConvFloatProofs.
From DashuGen Require Import RoundTables.
Open Scope Z_scope.

Definition and_then_flag (first : option rounding) (second : option rounding) : option rounding :=
  match second with None => first | Some r => Some r end.

(** the two steps on a normalised (odd) significand *)
Definition two_step (P : enc_params) (m : mode) (s0 e0 : Z) : frounded :=
  let f := fmt_of P in
  if blen (Z.abs s0) <=? MB P + 1 then
    let r := ieee_rne f (fst (frac_of s0 e0)) (snd (frac_of s0 e0)) in
    FR (fst r) (short_flag P s0 e0 (snd r))
  else
    let k := blen (Z.abs s0) - (MB P + 1) in
    let s1 := spec_round m s0 (2 ^ k) in
    let r := ieee_rne f (fst (frac_of s1 (e0 + k))) (snd (frac_of s1 (e0 + k))) in
    FR (fst r) (and_then_flag (flag_of_error (Z.sgn s0) (s1 * 2 ^ k ?= s0)) (short_flag P s1 (e0 + k) (snd r))).

Section Whole.
Variable P : enc_params.
Hypothesis HMB : 1 <= MB P.
Hypothesis HW : MB P + 3 <= W P.
Hypothesis HB : 2 * BIAS P + 2 = 2 ^ (W P - 1 - MB P).
Hypothesis HBp : 1 <= BIAS P.
Hypothesis HT : TOP_MAX P = BIAS P + 1.
Hypothesis HU : UNDER P = 1 - BIAS P - MB P.
Hypothesis HN : NORM_LIM P = 1 - BIAS P \/ NORM_LIM P = 2 - BIAS P.

(** fbig2_to_float_short with the length condition on the normal form (covers the carry 2^(MB+1)) *)
Lemma fbig2_to_float_short_nf m s e :
  s <> 0 -> blen (Z.abs (fst (normalize 2 s e))) <= MB P + 1 ->
  fbig2_to_float P m s e =
    FR (fst (ieee_rne (fmt_of P) (fst (frac_of s e)) (snd (frac_of s e))))
       (short_flag P s e (snd (ieee_rne (fmt_of P) (fst (frac_of s e)) (snd (frac_of s e))))).
Proof.
  intros Hs Hb.
  pose proof (normalize_spec 2 ltac:(lia) s e) as Hnz.
  assert (E0 : fbig2_to_float P m s e = fbig2_to_float P m (fst (normalize 2 s e)) (snd (normalize 2 s e))).
  { unfold fbig2_to_float. destruct (normalize 2 s e) as [s0 e0]. cbn [fst snd].
    destruct Hnz as [_ Hnz]. destruct (Hnz Hs) as (_ & Hodd & _).
    rewrite (normalize_id 2 s0 e0) by (assumption || lia). reflexivity. }
  rewrite E0. clear E0. destruct (normalize 2 s e) as [s0 e0]. cbn [fst snd] in *.
  destruct Hnz as [_ Hnz]. destruct (Hnz Hs) as (Hs0 & Hodd & j & Hj & He0 & Es). subst e0.
  pose proof (pow2_pos j Hj) as HJ.
  assert (Hbl : blen (Z.abs s) = blen (Z.abs s0) + j).
  { rewrite Es, Z.abs_mul, (Z.abs_eq (2 ^ j)) by lia. apply blen_shift; lia. }
  rewrite (fbig2_to_float_short_normalized P HMB HW HB HBp HT HU HN) by assumption.
  assert (Hsg : (s <? 0) = (s0 <? 0)).
  { rewrite Es. destruct (Z.ltb_spec (s0 * 2 ^ j) 0); destruct (Z.ltb_spec s0 0); try reflexivity; nia. }
  unfold short_flag. rewrite Hbl, Hsg.
  replace (blen (Z.abs s0) + j + e) with (blen (Z.abs s0) + (e + j)) by lia.
  clear Hbl Hsg Hb Hs Hnz. subst s. unfold ieee_rne.
  rewrite (ieee_round_dyadic_shift (fmt_of P) MHalfEven s0 j e Hs0 Hj). reflexivity.
Qed.

Theorem fbig2_to_float_two_step_normalized m s0 e0 : s0 mod 2 <> 0 ->
  fbig2_to_float P m s0 e0 = two_step P m s0 e0.
Proof.
  intros Hodd. assert (Hs : s0 <> 0) by (intros ->; apply Hodd; reflexivity).
  unfold two_step. cbv zeta.
  destruct (Z.leb_spec (blen (Z.abs s0)) (MB P + 1)) as [Hshort|Hlong].
  - apply (fbig2_to_float_short_normalized P HMB HW HB HBp HT HU HN); assumption.
  - set (k := blen (Z.abs s0) - (MB P + 1)). set (s1 := spec_round m s0 (2 ^ k)).
    assert (Hd : MB P + 1 < dlen 2 s0) by (rewrite dlen2_blen; lia).
    destruct (repr_round_spec 2 ltac:(lia) (MB P + 1) m s0 e0 ltac:(lia) Hd) as (a & Er & Ea).
    pose proof (repr_round_digits 2 ltac:(lia) (MB P + 1) m s0 e0 ltac:(lia) Hd) as Hdig. cbv zeta in Hdig.
    rewrite Er in Hdig. cbn [approx_sig] in Hdig.
    rewrite dlen2_blen in Er, Ea, Hdig. fold k in Er, Ea, Hdig. fold s1 in Er, Hdig.
    assert (Hs1 : s1 <> 0).
    { pose proof (pow2_pos (MB P + 1 - 1) ltac:(lia)). lia. }
    (* the second step is the conversion of s1 * 2^(e0 + k), which needs no first rounding *)
    assert (Hnf : blen (Z.abs (fst (normalize 2 s1 (e0 + k)))) <= MB P + 1).
    { rewrite <- dlen2_blen. apply (normalize_sig_bound 2 ltac:(lia)); lia. }
    assert (E2 : fbig2_to_float P m s0 e0 = fr_and_then (Some a) (fbig2_to_float P m s1 (e0 + k))).
    { unfold fbig2_to_float at 1. rewrite (normalize_id 2 s0 e0) by (assumption || lia). rewrite Er.
      unfold fbig2_to_float. destruct (normalize 2 s1 (e0 + k)) as [s2 e2]. cbn [fst] in Hnf.
      rewrite repr_round_exact by (rewrite dlen2_blen; exact Hnf). reflexivity. }
    rewrite E2. rewrite (fbig2_to_float_short_nf m s1 (e0 + k) Hs1 Hnf).
    assert (Hk : 1 <= k) by (unfold k; lia).
    pose proof (round_flag m s0 k Hodd Hk) as Hfl. rewrite <- Ea in Hfl. fold s1 in Hfl.
    cbn [fr_and_then]. unfold and_then_flag. rewrite <- Hfl.
    destruct (short_flag P s1 (e0 + k) _); reflexivity.
Qed.

(** any finite non-zero representation *)
Theorem fbig2_to_float_two_step m s e : s <> 0 ->
  fbig2_to_float P m s e = two_step P m (fst (normalize 2 s e)) (snd (normalize 2 s e)).
Proof.
  intros Hs. pose proof (normalize_spec 2 ltac:(lia) s e) as Hnz.
  assert (E0 : fbig2_to_float P m s e = fbig2_to_float P m (fst (normalize 2 s e)) (snd (normalize 2 s e))).
  { unfold fbig2_to_float. destruct (normalize 2 s e) as [s0 e0]. cbn [fst snd].
    destruct Hnz as [_ Hnz]. destruct (Hnz Hs) as (_ & Hodd & _).
    rewrite (normalize_id 2 s0 e0) by (assumption || lia). reflexivity. }
  rewrite E0. destruct (normalize 2 s e) as [s0 e0]. cbn [fst snd].
  destruct Hnz as [_ Hnz]. destruct (Hnz Hs) as (_ & Hodd & _).
  apply fbig2_to_float_two_step_normalized. exact Hodd.
Qed.

(** to_f32_fast / to_f64_fast on the main branch: the pattern is the correctly rounded one of the
    approximate quotient  man * 2^exponent  (man = the truncated 2K-bit numerator over the truncated
    K-bit denominator, rounded to nearest even) *)
Theorem rat_to_float_fast_main N D : N <> 0 -> 0 < D ->
  let '(man, ex) := fast_quotient P N D in
  ex < TOP_MAX P -> - (BIAS P - 1) - MB P - (MB P + 1 + 1) <= ex ->
  rat_to_float_fast P N D =
    fst (ieee_rne (fmt_of P) (fst (frac_of (if N <? 0 then - man else man) ex))
                             (snd (frac_of (if N <? 0 then - man else man) ex))).
Proof.
  intros HN0 HD. unfold fast_quotient, rat_to_float_fast. cbv zeta.
  destruct (Z.eqb_spec N 0) as [|_]; [contradiction|].
  set (K := MB P + 1).
  set (ns := blen (Z.abs N) - 2 * K). set (ds := blen D - K).
  set (numK := if 0 <=? ns then Z.abs N / 2 ^ ns else Z.abs N * 2 ^ (- ns)).
  set (denK := if 0 <=? ds then D / 2 ^ ds else D * 2 ^ (- ds)).
  intros Hov Hun.
  destruct (Z.geb_spec (ns - ds) (TOP_MAX P)) as [G|_]; [lia|].
  destruct (Z.ltb_spec (ns - ds) (- (BIAS P - 1) - MB P - (K + 1))) as [G|_]; [unfold K in G; lia|].
  set (man := if (2 * (numK mod denK) >? denK) || ((2 * (numK mod denK) =? denK) && Z.odd (numK / denK))
              then numK / denK + 1 else numK / denK).
  (* sizes: numK < 2^(2K), 2^(K-1) <= denK, so man <= 2^(K+1) *)
  destruct (blen_bounds (Z.abs N) ltac:(lia)) as [[N1 N2] N3].
  destruct (blen_bounds D HD) as [[D1 D2] D3].
  assert (HK : 2 <= K) by (unfold K; lia).
  assert (HnumK : 0 <= numK < 2 ^ (2 * K)).
  { unfold numK. destruct (Z.leb_spec 0 ns) as [Hs|Hs].
    - pose proof (pow2_pos ns Hs). split; [apply Z.div_pos; lia|].
      apply Z.div_lt_upper_bound; [lia|]. rewrite <- pow2_split by lia.
      replace (ns + 2 * K) with (blen (Z.abs N)) by (unfold ns; lia). lia.
    - pose proof (pow2_pos (- ns) ltac:(lia)). split; [nia|].
      replace (2 * K) with (blen (Z.abs N) + - ns) by (unfold ns; lia). rewrite pow2_split by lia. nia. }
  assert (HdenK : 2 ^ (K - 1) <= denK).
  { unfold denK. destruct (Z.leb_spec 0 ds) as [Hs|Hs].
    - pose proof (pow2_pos ds Hs). apply Z.div_le_lower_bound; [lia|]. rewrite <- pow2_split by lia.
      replace (ds + (K - 1)) with (blen D - 1) by (unfold ds; lia). lia.
    - pose proof (pow2_pos (- ds) ltac:(lia)).
      replace (K - 1) with (blen D - 1 + - ds) by (unfold ds; lia). rewrite pow2_split by lia. nia. }
  pose proof (pow2_pos (K - 1) ltac:(lia)) as PK1.
  assert (Hq : 0 <= numK / denK < 2 ^ (K + 1)).
  { split; [apply Z.div_pos; lia|]. apply Z.div_lt_upper_bound; [lia|].
    replace (2 * K) with ((K - 1) + (K + 1)) in HnumK by lia. rewrite pow2_split in HnumK by lia.
    pose proof (pow2_pos (K + 1) ltac:(lia)). nia. }
  assert (Hman : 0 <= man <= 2 ^ (K + 1)).
  { unfold man. destruct (_ || _); lia. }
  assert (Hbl : blen (Z.abs (if N <? 0 then - man else man)) <= W P).
  { assert (E : Z.abs (if N <? 0 then - man else man) = man) by (destruct (N <? 0); lia). rewrite E.
    destruct (Z.eq_dec man 0) as [->|Hm0]; [cbn; lia|].
    destruct (blen_bounds man ltac:(lia)) as [[M1 M2] M3].
    destruct (Z.le_gt_cases (blen man) (K + 2)) as [|G]; [unfold K in *; lia|].
    assert (2 ^ (K + 2) <= 2 ^ (blen man - 1)) by (apply Z.pow_le_mono_r; lia).
    assert (E2 : 2 ^ (K + 2) = 2 * 2 ^ (K + 1)) by (replace (K + 2) with (K + 1 + 1) by lia; apply pow2_succ; lia).
    pose proof (pow2_pos (K + 1) ltac:(lia)). lia. }
  fold man. rewrite (encode_correct P HMB HW HB HBp HT HU HN _ _ Hbl). reflexivity.
Qed.

End Whole.

(* ------------------------------------------------------------------ instances *)

Theorem fbig2_to_f32_two_step m s e : s <> 0 ->
  fbig2_to_float P32 m s e = two_step P32 m (fst (normalize 2 s e)) (snd (normalize 2 s e)).
Proof.
  intros. apply (fbig2_to_float_two_step P32); [cbn; lia | cbn; lia | reflexivity | cbn; lia | reflexivity | reflexivity | right; reflexivity | assumption].
Qed.

Theorem fbig2_to_f64_two_step m s e : s <> 0 ->
  fbig2_to_float P64 m s e = two_step P64 m (fst (normalize 2 s e)) (snd (normalize 2 s e)).
Proof.
  intros. apply (fbig2_to_float_two_step P64); [cbn; lia | cbn; lia | reflexivity | cbn; lia | reflexivity | reflexivity | left; reflexivity | assumption].
Qed.

Theorem rat_to_f32_fast_main N D : N <> 0 -> 0 < D ->
  let '(man, ex) := fast_quotient P32 N D in
  ex < 128 -> -149 - 25 <= ex ->
  rat_to_float_fast P32 N D =
    fst (ieee_rne F32 (fst (frac_of (if N <? 0 then - man else man) ex)) (snd (frac_of (if N <? 0 then - man else man) ex))).
Proof.
  intros HN HD. pose proof (rat_to_float_fast_main P32 ltac:(cbn; lia) ltac:(cbn; lia) eq_refl ltac:(cbn; lia) eq_refl eq_refl
                              (or_intror eq_refl) N D HN HD) as H.
  destruct (fast_quotient P32 N D) as [man ex]. exact H.
Qed.

Theorem rat_to_f64_fast_main N D : N <> 0 -> 0 < D ->
  let '(man, ex) := fast_quotient P64 N D in
  ex < 1024 -> -1074 - 54 <= ex ->
  rat_to_float_fast P64 N D =
    fst (ieee_rne F64 (fst (frac_of (if N <? 0 then - man else man) ex)) (snd (frac_of (if N <? 0 then - man else man) ex))).
Proof.
  intros HN HD. pose proof (rat_to_float_fast_main P64 ltac:(cbn; lia) ltac:(cbn; lia) eq_refl ltac:(cbn; lia) eq_refl eq_refl
                              (or_introl eq_refl) N D HN HD) as H.
  destruct (fast_quotient P64 N D) as [man ex]. exact H.
Qed.

(** the parametrised text of to_f32_fast / to_f64_fast is the model at the model's constants *)
Theorem rat_to_float_fast_gen_eq P N D :
  rat_to_float_fast_gen P (2 * (MB P + 1)) (MB P + 1) (TOP_MAX P) (- (BIAS P - 1) - MB P - (MB P + 1 + 1)) N D =
  rat_to_float_fast P N D.
Proof. reflexivity. Qed.

(** the two steps on the witnesses of the open class: a double rounding (3 * 2^-151 under HalfEven:
    exact at 24 bits, then encode rounds up, flag NoOp) and a value whose first rounding changes
    the second one (the value-level witness) *)
Example two_step_examples :
  two_step P32 MHalfEven 3 (-151) = FR 1 (Some NoOp) /\
  fbig2_to_float P32 MHalfEven (2 ^ 25 + 23) (-153) = two_step P32 MHalfEven (2 ^ 25 + 23) (-153) /\
  two_step P32 MHalfEven (2 ^ 25 + 23) (-153) = FR (2 ^ 21 + 2) (Some NoOp) /\
  two_step P64 MDown (2 ^ 60 + 1) 0 = FR 4877398396442247168 (Some NoOp).
Proof. vm_compute. repeat split; reflexivity. Qed.
