(** C06 (third round): FBig<R,2>::to_f32 / to_f64 and Repr<2>::to_f32 / to_f64 over the WHOLE
    range, as the code stands: the value is rounded to 24 / 53 bits under the mode (repr_round) and
    FloatEncoding::encode then rounds the result to nearest even into the format; the flag is the
    one of the first rounding if it was inexact and encode was exact, and the flag of
    into_f32/f64_internal (NoOp; Add/SubOne on overflow) whenever encode was inexact.  This is the
    exact statement of the open class fbig_to_float_subnormal: in the normal range the second step
    is exact (C06_fbig2_to_f32/f64), below it the two steps are a double rounding whose flag is
    NoOp whatever the direction.  Also: to_f32_fast / to_f64_fast as "encode of the approximate
    quotient". *)
From Dashu Require Import Base.Prelude Float.RoundSpec Float.RoundSpecProof Float.Contract Float.Model
  Float.ModelProof Float.RoundOpsLegal Conv.ConvSpec Conv.ConvModel Conv.ConvModel2 Conv.ConvArith Conv.ConvIeee
  Conv.ConvEncodeProofs Conv.ConvFloatProofs.
From DashuGen Require Import RoundTables.
Open Scope Z_scope.

Definition and_then_flag (first : option rounding) (second : option rounding) : option rounding :=
  match second with None => first | Some r => Some r end.

(** the two steps on a normalised (odd) significand *)
Definition two_step (P : enc_params) (m : mode) (s0 e0 : Z) : frounded :=
  let f := fmt_of P in
  if blen (Z.abs s0) <=? MB P + 1 then
    let r := ieee_rne f (fst (frac_of s0 e0)) (snd (frac_of s0 e0)) in
    FR (fst r) (short_flag P s0 e0 (snd r))
  else
    let k := blen (Z.abs s0) - (MB P + 1) in
    let s1 := spec_round m s0 (2 ^ k) in
    let r := ieee_rne f (fst (frac_of s1 (e0 + k))) (snd (frac_of s1 (e0 + k))) in
    FR (fst r) (and_then_flag (flag_of_error (Z.sgn s0) (s1 * 2 ^ k ?= s0)) (short_flag P s1 (e0 + k) (snd r))).

Section Whole.
Variable P : enc_params.
Hypothesis HMB : 1 <= MB P.
Hypothesis HW : MB P + 3 <= W P.
Hypothesis HB : 2 * BIAS P + 2 = 2 ^ (W P - 1 - MB P).
Hypothesis HBp : 1 <= BIAS P.
Hypothesis HT : TOP_MAX P = BIAS P + 1.
Hypothesis HU : UNDER P = 1 - BIAS P - MB P.
Hypothesis HN : NORM_LIM P = 1 - BIAS P \/ NORM_LIM P = 2 - BIAS P.

(** fbig2_to_float_short with the length condition on the normal form (covers the carry 2^(MB+1)) *)
Lemma fbig2_to_float_short_nf m s e :
  s <> 0 -> blen (Z.abs (fst (normalize 2 s e))) <= MB P + 1 ->
  fbig2_to_float_old P m s e =
    FR (fst (ieee_rne (fmt_of P) (fst (frac_of s e)) (snd (frac_of s e))))
       (short_flag P s e (snd (ieee_rne (fmt_of P) (fst (frac_of s e)) (snd (frac_of s e))))).
Proof.
  intros Hs Hb.
  pose proof (normalize_spec 2 ltac:(lia) s e) as Hnz.
  assert (E0 : fbig2_to_float_old P m s e = fbig2_to_float_old P m (fst (normalize 2 s e)) (snd (normalize 2 s e))).
  { unfold fbig2_to_float_old. destruct (normalize 2 s e) as [s0 e0]. cbn [fst snd].
    destruct Hnz as [_ Hnz]. destruct (Hnz Hs) as (_ & Hodd & _).
    rewrite (normalize_id 2 s0 e0) by (assumption || lia). reflexivity. }
  rewrite E0. clear E0. destruct (normalize 2 s e) as [s0 e0]. cbn [fst snd] in *.
  destruct Hnz as [_ Hnz]. destruct (Hnz Hs) as (Hs0 & Hodd & j & Hj & He0 & Es). subst e0.
  pose proof (pow2_pos j Hj) as HJ.
  assert (Hbl : blen (Z.abs s) = blen (Z.abs s0) + j).
  { rewrite Es, Z.abs_mul, (Z.abs_eq (2 ^ j)) by lia. apply blen_shift; lia. }
  rewrite (fbig2_to_float_short_normalized P HMB HW HB HBp HT HU HN) by assumption.
  assert (Hsg : (s <? 0) = (s0 <? 0)).
  { rewrite Es. destruct (Z.ltb_spec (s0 * 2 ^ j) 0); destruct (Z.ltb_spec s0 0); try reflexivity; nia. }
  unfold short_flag. rewrite Hbl, Hsg.
  replace (blen (Z.abs s0) + j + e) with (blen (Z.abs s0) + (e + j)) by lia.
  clear Hbl Hsg Hb Hs Hnz. subst s. unfold ieee_rne.
  rewrite (ieee_round_dyadic_shift (fmt_of P) MHalfEven s0 j e Hs0 Hj). reflexivity.
Qed.

Theorem fbig2_to_float_two_step_normalized m s0 e0 : s0 mod 2 <> 0 ->
  fbig2_to_float_old P m s0 e0 = two_step P m s0 e0.
Proof.
  intros Hodd. assert (Hs : s0 <> 0) by (intros ->; apply Hodd; reflexivity).
  unfold two_step. cbv zeta.
  destruct (Z.leb_spec (blen (Z.abs s0)) (MB P + 1)) as [Hshort|Hlong].
  - apply (fbig2_to_float_short_normalized P HMB HW HB HBp HT HU HN); assumption.
  - set (k := blen (Z.abs s0) - (MB P + 1)). set (s1 := spec_round m s0 (2 ^ k)).
    assert (Hd : MB P + 1 < dlen 2 s0) by (rewrite dlen2_blen; lia).
    destruct (repr_round_spec 2 ltac:(lia) (MB P + 1) m s0 e0 ltac:(lia) Hd) as (a & Er & Ea).
    pose proof (repr_round_digits 2 ltac:(lia) (MB P + 1) m s0 e0 ltac:(lia) Hd) as Hdig. cbv zeta in Hdig.
    rewrite Er in Hdig. cbn [approx_sig] in Hdig.
    rewrite dlen2_blen in Er, Ea, Hdig. fold k in Er, Ea, Hdig. fold s1 in Er, Hdig.
    assert (Hs1 : s1 <> 0).
    { pose proof (pow2_pos (MB P + 1 - 1) ltac:(lia)). lia. }
    (* the second step is the conversion of s1 * 2^(e0 + k), which needs no first rounding *)
    assert (Hnf : blen (Z.abs (fst (normalize 2 s1 (e0 + k)))) <= MB P + 1).
    { rewrite <- dlen2_blen. apply (normalize_sig_bound 2 ltac:(lia)); lia. }
    assert (E2 : fbig2_to_float_old P m s0 e0 = fr_and_then (Some a) (fbig2_to_float_old P m s1 (e0 + k))).
    { unfold fbig2_to_float_old at 1. rewrite (normalize_id 2 s0 e0) by (assumption || lia). rewrite Er.
      unfold fbig2_to_float_old. destruct (normalize 2 s1 (e0 + k)) as [s2 e2]. cbn [fst] in Hnf.
      rewrite repr_round_exact by (rewrite dlen2_blen; exact Hnf). reflexivity. }
    rewrite E2. rewrite (fbig2_to_float_short_nf m s1 (e0 + k) Hs1 Hnf).
    assert (Hk : 1 <= k) by (unfold k; lia).
    pose proof (round_flag m s0 k Hodd Hk) as Hfl. rewrite <- Ea in Hfl. fold s1 in Hfl.
    cbn [fr_and_then]. unfold and_then_flag. rewrite <- Hfl.
    destruct (short_flag P s1 (e0 + k) _); reflexivity.
Qed.

(** any finite non-zero representation *)
Theorem fbig2_to_float_two_step m s e : s <> 0 ->
  fbig2_to_float_old P m s e = two_step P m (fst (normalize 2 s e)) (snd (normalize 2 s e)).
Proof.
  intros Hs. pose proof (normalize_spec 2 ltac:(lia) s e) as Hnz.
  assert (E0 : fbig2_to_float_old P m s e = fbig2_to_float_old P m (fst (normalize 2 s e)) (snd (normalize 2 s e))).
  { unfold fbig2_to_float_old. destruct (normalize 2 s e) as [s0 e0]. cbn [fst snd].
    destruct Hnz as [_ Hnz]. destruct (Hnz Hs) as (_ & Hodd & _).
    rewrite (normalize_id 2 s0 e0) by (assumption || lia). reflexivity. }
  rewrite E0. destruct (normalize 2 s e) as [s0 e0]. cbn [fst snd].
  destruct Hnz as [_ Hnz]. destruct (Hnz Hs) as (_ & Hodd & _).
  apply fbig2_to_float_two_step_normalized. exact Hodd.
Qed.

(** to_f32_fast / to_f64_fast on the main branch: the pattern is the correctly rounded one of the
    approximate quotient  man * 2^exponent  (man = the shifted 2K-bit numerator over the truncated
    K-bit denominator, rounded to nearest even) *)
Theorem rat_to_float_fast_main N D : N <> 0 -> 0 < D ->
  let '(man, ex) := fast_quotient P N D in
  ex < TOP_MAX P -> - (BIAS P - 1) - MB P - (MB P + 1 + 1) <= ex ->
  rat_to_float_fast P N D =
    fst (ieee_rne (fmt_of P) (fst (frac_of (if N <? 0 then - man else man) ex))
                             (snd (frac_of (if N <? 0 then - man else man) ex))).
Proof.
  intros HN0 HD. unfold fast_quotient, rat_to_float_fast. cbv zeta.
  destruct (Z.eqb_spec N 0) as [|_]; [contradiction|].
  set (K := MB P + 1).
  set (ns := blen (Z.abs N) - 2 * K). set (ds := blen D - K).
  set (numK := if 0 <=? ns then Z.abs (N / 2 ^ ns) else Z.abs N * 2 ^ (- ns)).
  set (denK := if 0 <=? ds then D / 2 ^ ds else D * 2 ^ (- ds)).
  intros Hov Hun.
  destruct (Z.geb_spec (ns - ds) (TOP_MAX P)) as [G|_]; [lia|].
  destruct (Z.ltb_spec (ns - ds) (- (BIAS P - 1) - MB P - (K + 1))) as [G|_]; [unfold K in G; lia|].
  set (man := if (2 * (numK mod denK) >? denK) || ((2 * (numK mod denK) =? denK) && Z.odd (numK / denK))
              then numK / denK + 1 else numK / denK).
  (* sizes: numK < 2^(2K), 2^(K-1) <= denK, so man <= 2^(K+1) *)
  destruct (blen_bounds (Z.abs N) ltac:(lia)) as [[N1 N2] N3].
  destruct (blen_bounds D HD) as [[D1 D2] D3].
  assert (HK : 2 <= K) by (unfold K; lia).
  assert (HnumK : 0 <= numK <= 2 ^ (2 * K)).
  { unfold numK. destruct (Z.leb_spec 0 ns) as [Hs|Hs].
    - pose proof (pow2_pos ns Hs) as Pns. split; [lia|].
      assert (E : 2 ^ blen (Z.abs N) = 2 ^ (2 * K) * 2 ^ ns).
      { rewrite <- pow2_split by lia. f_equal. unfold ns. lia. }
      pose proof (Z.div_mod N (2 ^ ns) ltac:(lia)) as Edm. pose proof (Z.mod_pos_bound N (2 ^ ns) Pns) as Bm.
      pose proof (pow2_pos (2 * K) ltac:(lia)).
      destruct (Z.abs_spec (N / 2 ^ ns)) as [[? ->]|[? ->]]; nia.
    - pose proof (pow2_pos (- ns) ltac:(lia)). split; [nia|].
      replace (2 * K) with (blen (Z.abs N) + - ns) by (unfold ns; lia). rewrite pow2_split by lia. nia. }
  assert (HdenK : 2 ^ (K - 1) <= denK).
  { unfold denK. destruct (Z.leb_spec 0 ds) as [Hs|Hs].
    - pose proof (pow2_pos ds Hs). apply Z.div_le_lower_bound; [lia|]. rewrite <- pow2_split by lia.
      replace (ds + (K - 1)) with (blen D - 1) by (unfold ds; lia). lia.
    - pose proof (pow2_pos (- ds) ltac:(lia)).
      replace (K - 1) with (blen D - 1 + - ds) by (unfold ds; lia). rewrite pow2_split by lia. nia. }
  pose proof (pow2_pos (K - 1) ltac:(lia)) as PK1.
  assert (Hq : 0 <= numK / denK <= 2 ^ (K + 1)).
  { split; [apply Z.div_pos; lia|].
    replace (2 * K) with ((K - 1) + (K + 1)) in HnumK by lia. rewrite pow2_split in HnumK by lia.
    pose proof (pow2_pos (K + 1) ltac:(lia)).
    assert (numK / denK < 2 ^ (K + 1) + 1); [|lia]. apply Z.div_lt_upper_bound; [lia|]. nia. }
  assert (Hman : 0 <= man <= 2 ^ (K + 1) + 1).
  { unfold man. destruct (_ || _); lia. }
  assert (Hbl : blen (Z.abs (if N <? 0 then - man else man)) <= W P).
  { assert (E : Z.abs (if N <? 0 then - man else man) = man) by (destruct (N <? 0); lia). rewrite E.
    destruct (Z.eq_dec man 0) as [->|Hm0]; [cbn; lia|].
    destruct (blen_bounds man ltac:(lia)) as [[M1 M2] M3].
    destruct (Z.le_gt_cases (blen man) (K + 2)) as [|G]; [unfold K in *; lia|].
    assert (2 ^ (K + 2) <= 2 ^ (blen man - 1)) by (apply Z.pow_le_mono_r; lia).
    assert (E2 : 2 ^ (K + 2) = 2 * 2 ^ (K + 1)) by (replace (K + 2) with (K + 1 + 1) by lia; apply pow2_succ; lia).
    assert (E3 : 2 ^ (K + 1) = 2 * 2 ^ K) by (apply pow2_succ; lia).
    pose proof (pow2_pos K ltac:(lia)). lia. }
  fold man. rewrite (encode_correct P HMB HW HB HBp HT HU HN _ _ Hbl). reflexivity.
Qed.

End Whole.

(* ------------------------------------------------------------------ instances *)

Theorem fbig2_to_f32_two_step m s e : s <> 0 ->
  fbig2_to_float_old P32 m s e = two_step P32 m (fst (normalize 2 s e)) (snd (normalize 2 s e)).
Proof.
  intros. apply (fbig2_to_float_two_step P32); [cbn; lia | cbn; lia | reflexivity | cbn; lia | reflexivity | reflexivity | right; reflexivity | assumption].
Qed.

Theorem fbig2_to_f64_two_step m s e : s <> 0 ->
  fbig2_to_float_old P64 m s e = two_step P64 m (fst (normalize 2 s e)) (snd (normalize 2 s e)).
Proof.
  intros. apply (fbig2_to_float_two_step P64); [cbn; lia | cbn; lia | reflexivity | cbn; lia | reflexivity | reflexivity | left; reflexivity | assumption].
Qed.

Theorem rat_to_f32_fast_main N D : N <> 0 -> 0 < D ->
  let '(man, ex) := fast_quotient P32 N D in
  ex < 128 -> -149 - 25 <= ex ->
  rat_to_float_fast P32 N D =
    fst (ieee_rne F32 (fst (frac_of (if N <? 0 then - man else man) ex)) (snd (frac_of (if N <? 0 then - man else man) ex))).
Proof.
  intros HN HD. pose proof (rat_to_float_fast_main P32 ltac:(cbn; lia) ltac:(cbn; lia) eq_refl ltac:(cbn; lia) eq_refl eq_refl
                              (or_intror eq_refl) N D HN HD) as H.
  destruct (fast_quotient P32 N D) as [man ex]. exact H.
Qed.

Theorem rat_to_f64_fast_main N D : N <> 0 -> 0 < D ->
  let '(man, ex) := fast_quotient P64 N D in
  ex < 1024 -> -1074 - 54 <= ex ->
  rat_to_float_fast P64 N D =
    fst (ieee_rne F64 (fst (frac_of (if N <? 0 then - man else man) ex)) (snd (frac_of (if N <? 0 then - man else man) ex))).
Proof.
  intros HN HD. pose proof (rat_to_float_fast_main P64 ltac:(cbn; lia) ltac:(cbn; lia) eq_refl ltac:(cbn; lia) eq_refl eq_refl
                              (or_introl eq_refl) N D HN HD) as H.
  destruct (fast_quotient P64 N D) as [man ex]. exact H.
Qed.

(** the parametrised text of to_f32_fast / to_f64_fast is the model at the model's constants *)
Theorem rat_to_float_fast_gen_eq P N D :
  rat_to_float_fast_gen P (2 * (MB P + 1)) (MB P + 1) (TOP_MAX P) (- (BIAS P - 1) - MB P - (MB P + 1 + 1)) N D =
  rat_to_float_fast P N D.
Proof. reflexivity. Qed.

(** the two steps on the witnesses of the open class: a double rounding (3 * 2^-151 under HalfEven:
    exact at 24 bits, then encode rounds up, flag NoOp) and a value whose first rounding changes
    the second one (the value-level witness) *)
Example two_step_examples :
  two_step P32 MHalfEven 3 (-151) = FR 1 (Some NoOp) /\
  fbig2_to_float_old P32 MHalfEven (2 ^ 25 + 23) (-153) = two_step P32 MHalfEven (2 ^ 25 + 23) (-153) /\
  two_step P32 MHalfEven (2 ^ 25 + 23) (-153) = FR (2 ^ 21 + 2) (Some NoOp) /\
  two_step P64 MDown (2 ^ 60 + 1) 0 = FR 4877398396442247168 (Some NoOp).
Proof. vm_compute. repeat split; reflexivity. Qed.

(* ------------------------------------------------------------------ error of the fast quotient *)

(** to_f32_fast / to_f64_fast: the approximate quotient man * 2^ex lies within (-1, +4.5) units of
    its own last place of the exact |N| / D (man has K or K+1 bits, K = 24 / 53), for every numerator
    and denominator: a proved bound for the "bounded error" half of the contract.  Integer form:
    (2 man - 9) * D * 2^ex < 2 |N| < (2 man + 2) * D * 2^ex, cross-multiplied when ex < 0. *)
Section FastBound.
Variable K : Z.
Hypothesis HK : 2 <= K.

Lemma fast_core numK denK man A S Dd T :
  0 < S -> 0 < T -> 0 < A -> 2 ^ (K - 1) <= denK -> 0 <= numK <= 2 ^ (2 * K) ->
  (numK - 1) * S < A < (numK + 1) * S ->
  denK * T <= Dd < (denK + 1) * T ->
  (2 * man - 1) * denK <= 2 * numK <= (2 * man + 1) * denK -> 0 <= man ->
  (2 * man - 9) * (Dd * S) < 2 * (A * T) < (2 * man + 2) * (Dd * S).
Proof.
  intros HS HT HA Hden Hnum [A1 A2] [D1 D2] [M1 M2] Hman.
  pose proof (pow2_pos (K - 1) ltac:(lia)) as PK.
  assert (Hd2 : 2 <= denK).
  { assert (2 <= 2 ^ (K - 1)); [|lia]. replace (K - 1) with (K - 2 + 1) by lia. rewrite pow2_succ by lia.
    pose proof (pow2_pos (K - 2) ltac:(lia)). lia. }
  assert (HST : 0 < S * T) by (apply Z.mul_pos_pos; lia).
  assert (HDd : 0 < Dd) by (assert (0 < denK * T) by (apply Z.mul_pos_pos; lia); lia).
  (* man is at most 2^(K+1) + 1, so 2 man <= 8 denK + 2 *)
  assert (Hmb : 2 * man <= 8 * denK + 2).
  { assert (E : 2 ^ (2 * K) = 2 ^ (K + 1) * 2 ^ (K - 1)) by (rewrite <- pow2_split by lia; f_equal; lia).
    assert (E2 : 2 ^ (K + 1) = 4 * 2 ^ (K - 1)).
    { replace (K + 1) with (K - 1 + 1 + 1) by lia. rewrite !pow2_succ by lia. ring. }
    assert ((2 * man - 1) * denK <= 2 * (2 ^ (K + 1) * 2 ^ (K - 1))) by lia.
    destruct (Z.le_gt_cases (2 * man) (8 * denK + 2)) as [|G]; [assumption|exfalso].
    assert (H1 : (8 * denK + 2) * denK <= (2 * man - 1) * denK) by (apply Z.mul_le_mono_nonneg_r; lia).
    assert (H2 : 2 ^ (K - 1) * 2 ^ (K - 1) <= denK * denK) by (apply Z.mul_le_mono_nonneg; lia).
    rewrite E2 in H. lia. }
  split.
  - (* lower *)
    destruct (Z.le_gt_cases (2 * man - 9) 0) as [Hn|Hp].
    + assert (0 < A * T) by (apply Z.mul_pos_pos; lia).
      assert ((2 * man - 9) * (Dd * S) <= 0) by (apply Z.mul_nonpos_nonneg; [lia | apply Z.mul_nonneg_nonneg; lia]). lia.
    + assert (L1 : 2 * ((numK - 1) * S) * T < 2 * A * T) by (apply Z.mul_lt_mono_pos_r; lia).
      assert (L2 : (2 * man - 9) * (Dd * S) < (2 * man - 9) * ((denK + 1) * T * S)).
      { apply Z.mul_lt_mono_pos_l; [lia|]. apply Z.mul_lt_mono_pos_r; lia. }
      assert (L3 : (2 * man - 9) * (denK + 1) <= (2 * man - 1) * denK - 2) by lia.
      assert (L4 : (2 * man - 9) * (denK + 1) * (S * T) <= ((2 * man - 1) * denK - 2) * (S * T))
        by (apply Z.mul_le_mono_nonneg_r; lia).
      assert (L5 : ((2 * man - 1) * denK - 2) * (S * T) <= (2 * numK - 2) * (S * T))
        by (apply Z.mul_le_mono_nonneg_r; lia).
      lia.
  - (* upper *)
    assert (U1 : 2 * A * T < 2 * ((numK + 1) * S) * T) by (apply Z.mul_lt_mono_pos_r; lia).
    assert (U2 : (2 * numK + 2) * (S * T) <= ((2 * man + 1) * denK + denK) * (S * T))
      by (apply Z.mul_le_mono_nonneg_r; lia).
    assert (U3 : (2 * man + 2) * (denK * T * S) <= (2 * man + 2) * (Dd * S)).
    { apply Z.mul_le_mono_nonneg_l; [lia|]. apply Z.mul_le_mono_nonneg_r; lia. }
    lia.
Qed.
End FastBound.

(** pieces with small contexts (a fresh build has no lia/nia certificate cache) *)
Lemma abs_div_bracket N c : 0 < c ->
  (Z.abs (N / c) - 1) * c < Z.abs N < (Z.abs (N / c) + 1) * c.
Proof.
  intros Hc. pose proof (Z.div_mod N c ltac:(lia)) as Edm. pose proof (Z.mod_pos_bound N c Hc) as Bm.
  set (q := N / c) in *. set (r := N mod c) in *.
  assert (F1 : 0 <= q -> 0 <= c * q) by (intros; apply Z.mul_nonneg_nonneg; lia).
  assert (F2 : q <= -1 -> c * q <= - c) by (intros; assert (c * q <= c * (-1)) by (apply Z.mul_le_mono_nonneg_l; lia); lia).
  clearbody q r. lia.
Qed.

Lemma div_bracket D c : 0 < c -> D / c * c <= D < (D / c + 1) * c.
Proof.
  intros Hc. pose proof (Z.div_mod D c ltac:(lia)) as Edm. pose proof (Z.mod_pos_bound D c Hc) as Bm.
  set (q := D / c) in *. set (r := D mod c) in *. clearbody q r. lia.
Qed.

Lemma rne_quot_bracket numK denK : 0 <= numK -> 0 < denK ->
  let man := if (2 * (numK mod denK) >? denK) || ((2 * (numK mod denK) =? denK) && Z.odd (numK / denK))
             then numK / denK + 1 else numK / denK in
  (2 * man - 1) * denK <= 2 * numK <= (2 * man + 1) * denK /\ 0 <= man.
Proof.
  intros Hn Hd. cbv zeta.
  pose proof (Z.div_mod numK denK ltac:(lia)) as Edm. pose proof (Z.mod_pos_bound numK denK Hd) as Bm.
  assert (Hq : 0 <= numK / denK) by (apply Z.div_pos; lia).
  set (q := numK / denK) in *. set (r := numK mod denK) in *. clearbody q r.
  destruct (Z.gtb_spec (2 * r) denK); cbn [orb]; [lia|].
  destruct (Z.eqb_spec (2 * r) denK); cbn [andb]; [destruct (Z.odd q)|]; lia.
Qed.

Lemma fast_pow_id1 ns ds : 0 <= ns - ds ->
  2 ^ Z.max (- ns) 0 * 2 ^ Z.max ds 0 * 2 ^ (ns - ds) = 2 ^ Z.max (- ds) 0 * 2 ^ Z.max ns 0.
Proof. intros. rewrite <- !pow2_split by lia. f_equal. lia. Qed.

Lemma fast_pow_id2 ns ds : ns - ds < 0 ->
  2 ^ Z.max (- ns) 0 * 2 ^ Z.max ds 0 = 2 ^ (- (ns - ds)) * 2 ^ Z.max (- ds) 0 * 2 ^ Z.max ns 0.
Proof. intros. rewrite <- !pow2_split by lia. f_equal. lia. Qed.

Lemma scale_back k1 k2 X Y c a : 0 < Y -> X * c = a * Y ->
  k1 * Y < 2 * X < k2 * Y -> 0 < c -> k1 * c < 2 * a < k2 * c.
Proof.
  intros HY E [L U] Hc.
  assert (L' : k1 * Y * c < 2 * X * c) by (apply Z.mul_lt_mono_pos_r; lia).
  assert (U' : 2 * X * c < k2 * Y * c) by (apply Z.mul_lt_mono_pos_r; lia).
  split; apply (Z.mul_lt_mono_pos_r Y); lia.
Qed.

Theorem fast_quotient_bound P N D : 1 <= MB P -> N <> 0 -> 0 < D ->
  let '(man, ex) := fast_quotient P N D in
  if 0 <=? ex then (2 * man - 9) * (D * 2 ^ ex) < 2 * Z.abs N < (2 * man + 2) * (D * 2 ^ ex)
  else (2 * man - 9) * D < 2 * Z.abs N * 2 ^ (- ex) < (2 * man + 2) * D.
Proof.
  intros HMB HN0 HD. unfold fast_quotient. cbv zeta.
  set (K := MB P + 1). assert (HK : 2 <= K) by (unfold K; lia).
  set (a := Z.abs N). assert (Ha : 0 < a) by (unfold a; lia).
  set (ns := blen a - 2 * K). set (ds := blen D - K).
  set (numK := if 0 <=? ns then Z.abs (N / 2 ^ ns) else a * 2 ^ (- ns)).
  set (denK := if 0 <=? ds then D / 2 ^ ds else D * 2 ^ (- ds)).
  destruct (blen_bounds a Ha) as [[N1 N2] N3]. destruct (blen_bounds D HD) as [[D1 D2] D3].
  set (S := 2 ^ Z.max ns 0). set (A := a * 2 ^ Z.max (- ns) 0).
  set (T := 2 ^ Z.max ds 0). set (Dd := D * 2 ^ Z.max (- ds) 0).
  assert (PS : 0 < S) by (apply pow2_pos; lia). assert (PT : 0 < T) by (apply pow2_pos; lia).
  assert (PA : 0 < A) by (apply Z.mul_pos_pos; [lia | apply pow2_pos; lia]).
  (* the shifted numerator *)
  assert (HA : (numK - 1) * S < A < (numK + 1) * S /\ 0 <= numK <= 2 ^ (2 * K)).
  { unfold numK, S, A. destruct (Z.leb_spec 0 ns) as [Hs|Hs].
    - rewrite Z.max_l, (Z.max_r (- ns) 0) by lia. rewrite Z.pow_0_r, Z.mul_1_r.
      pose proof (pow2_pos ns Hs) as Pns.
      pose proof (abs_div_bracket N (2 ^ ns) Pns) as [B1 B2]. fold a in B1, B2.
      split; [split; assumption|]. split; [lia|].
      assert (E : 2 ^ blen a = 2 ^ (2 * K) * 2 ^ ns) by (rewrite <- pow2_split by lia; f_equal; unfold ns; lia).
      assert (Hlt : (Z.abs (N / 2 ^ ns) - 1) * 2 ^ ns < 2 ^ (2 * K) * 2 ^ ns) by lia.
      apply Z.mul_lt_mono_pos_r in Hlt; lia.
    - rewrite Z.max_r, (Z.max_l (- ns) 0) by lia. rewrite Z.pow_0_r.
      pose proof (pow2_pos (- ns) ltac:(lia)) as Pn.
      assert (E : 2 ^ (2 * K) = 2 ^ blen a * 2 ^ (- ns)) by (rewrite <- pow2_split by lia; f_equal; unfold ns; lia).
      assert (0 <= a * 2 ^ (- ns)) by (apply Z.mul_nonneg_nonneg; lia).
      split; [lia|]. split; [lia|]. rewrite E. apply Z.mul_le_mono_nonneg_r; lia. }
  destruct HA as [HA HnumK].
  assert (HDd : denK * T <= Dd < (denK + 1) * T /\ 2 ^ (K - 1) <= denK).
  { unfold denK, T, Dd. destruct (Z.leb_spec 0 ds) as [Hs|Hs].
    - rewrite Z.max_l, (Z.max_r (- ds) 0) by lia. rewrite Z.pow_0_r, Z.mul_1_r.
      pose proof (pow2_pos ds Hs) as Pds.
      split; [apply div_bracket; exact Pds|]. apply Z.div_le_lower_bound; [lia|]. rewrite <- pow2_split by lia.
      replace (ds + (K - 1)) with (blen D - 1) by (unfold ds; lia). lia.
    - rewrite Z.max_r, (Z.max_l (- ds) 0) by lia. rewrite Z.pow_0_r, Z.mul_1_r.
      pose proof (pow2_pos (- ds) ltac:(lia)). split; [lia|].
      replace (K - 1) with (blen D - 1 + - ds) by (unfold ds; lia). rewrite pow2_split by lia.
      apply Z.mul_le_mono_nonneg_r; lia. }
  destruct HDd as [HDd HdenK].
  pose proof (pow2_pos (K - 1) ltac:(lia)) as PK1.
  (* the rounded quotient *)
  pose proof (rne_quot_bracket numK denK ltac:(lia) ltac:(lia)) as Hman. cbv zeta in Hman.
  set (man := if (2 * (numK mod denK) >? denK) || ((2 * (numK mod denK) =? denK) && Z.odd (numK / denK))
              then numK / denK + 1 else numK / denK) in *.
  destruct Hman as [Hman Hman0].
  pose proof (fast_core K HK numK denK man A S Dd T PS PT PA HdenK HnumK HA HDd Hman Hman0) as LU.
  (* back to N, D and the exponent ns - ds *)
  assert (PY : 0 < Dd * S).
  { apply Z.mul_pos_pos; [|lia]. assert (0 < denK * T) by (apply Z.mul_pos_pos; lia). lia. }
  replace (2 * (A * T)) with (2 * (A * T)) in LU by reflexivity.
  destruct (Z.leb_spec 0 (ns - ds)) as [He|He].
  - assert (Eid : A * T * (D * 2 ^ (ns - ds)) = a * (Dd * S)).
    { unfold A, T, Dd, S.
      replace (a * 2 ^ Z.max (- ns) 0 * 2 ^ Z.max ds 0 * (D * 2 ^ (ns - ds)))
        with (a * D * (2 ^ Z.max (- ns) 0 * 2 ^ Z.max ds 0 * 2 ^ (ns - ds))) by ring.
      rewrite (fast_pow_id1 ns ds He). ring. }
    pose proof (pow2_pos (ns - ds) He) as Pe. assert (Pc : 0 < D * 2 ^ (ns - ds)) by (apply Z.mul_pos_pos; lia).
    exact (scale_back _ _ (A * T) (Dd * S) (D * 2 ^ (ns - ds)) a PY Eid LU Pc).
  - assert (Eid : A * T * D = a * 2 ^ (- (ns - ds)) * (Dd * S)).
    { unfold A, T, Dd, S.
      replace (a * 2 ^ Z.max (- ns) 0 * 2 ^ Z.max ds 0 * D) with (a * D * (2 ^ Z.max (- ns) 0 * 2 ^ Z.max ds 0)) by ring.
      rewrite (fast_pow_id2 ns ds He). ring. }
    replace (2 * a * 2 ^ (- (ns - ds))) with (2 * (a * 2 ^ (- (ns - ds)))) by ring.
    exact (scale_back _ _ (A * T) (Dd * S) D (a * 2 ^ (- (ns - ds))) PY Eid LU HD).
Qed.

Theorem fast_quotient_bound_f32 N D : N <> 0 -> 0 < D ->
  let '(man, ex) := fast_quotient P32 N D in
  if 0 <=? ex then (2 * man - 9) * (D * 2 ^ ex) < 2 * Z.abs N < (2 * man + 2) * (D * 2 ^ ex)
  else (2 * man - 9) * D < 2 * Z.abs N * 2 ^ (- ex) < (2 * man + 2) * D.
Proof. intros. apply fast_quotient_bound; [cbn; lia | assumption | assumption]. Qed.

Theorem fast_quotient_bound_f64 N D : N <> 0 -> 0 < D ->
  let '(man, ex) := fast_quotient P64 N D in
  if 0 <=? ex then (2 * man - 9) * (D * 2 ^ ex) < 2 * Z.abs N < (2 * man + 2) * (D * 2 ^ ex)
  else (2 * man - 9) * D < 2 * Z.abs N * 2 ^ (- ex) < (2 * man + 2) * D.
Proof. intros. apply fast_quotient_bound; [cbn; lia | assumption | assumption]. Qed.

Example fast_quotient_examples :
  fast_quotient P32 (-4486) 73509287 = (16774784, -38) /\ fast_quotient P32 22 7 = (13182098, -22).
Proof. vm_compute. split; reflexivity. Qed.
