(** C06 (third round): FBig<R,B>::to_f32 / to_f64 and Repr<B>::to_f32 / to_f64 for bases other
    than 2, on the two routes of Context::convert_base::<B,2> that are exact before the rounding:
    B a power of two (the exponent is multiplied by log2 B) and a non-negative exponent up to
    THRESHOLD_SMALL_EXP (the power is evaluated).  On both, convert_base + and_then(into_f32/f64_
    internal) is the base-2 conversion of the same value (the debug assertion of
    into_f32/f64_internal never fires), hence the correctly rounded IEEE value with the truthful
    flag in the normal range; for a non-negative exponent the value is an integer, so there is no
    range condition at all.  The division route (negative exponent, base not a power of two) was
    repaired in the fourth round and is proved in Conv/ConvDivRoute.v; |exponent| > 38 (C08's
    logarithm route) is Conv/ConvLargeRoute.v.  [fbig2_to_float_old] is the round-to-MB+1-bits-then-
    encode conversion every base other than 2 still ends in. *)
From Dashu Require Import Base.Prelude Float.RoundSpec Float.RoundSpecProof Float.Contract Float.Model
  Float.ModelProof Float.RoundOpsLegal Conv.ConvSpec Conv.ConvModel Conv.ConvArith Conv.ConvIeee
  Conv.ConvEncodeProofs Conv.ConvFloatProofs.
From DashuGen Require Import RoundTables ConvParams2.
Open Scope Z_scope.

(** convert_base's result handed to into_f32/f64_internal through and_then = the base-2 conversion *)
Lemma and_then_checked_round P m s e : 1 <= MB P ->
  (let '(s0, e0) := normalize 2 s e in and_then_checked P (repr_round 2 (MB P + 1) m s0 e0)) =
  Ok (fbig2_to_float_old P m s e).
Proof.
  intros HMB. unfold fbig2_to_float_old. destruct (normalize 2 s e) as [s0 e0].
  destruct (Z.le_gt_cases (dlen 2 s0) (MB P + 1)) as [Hs|Hl].
  - rewrite repr_round_exact by exact Hs. cbn [and_then_checked]. unfold into_float_checked.
    destruct (Z.gtb_spec (dlen 2 s0) (MB P + 1)); [lia | reflexivity].
  - destruct (repr_round_spec 2 ltac:(lia) (MB P + 1) m s0 e0 ltac:(lia) Hl) as (a & Er & _).
    pose proof (repr_round_digits 2 ltac:(lia) (MB P + 1) m s0 e0 ltac:(lia) Hl) as Hdig. cbv zeta in Hdig.
    rewrite Er in *. cbn [approx_sig and_then_checked] in *.
    set (s1 := spec_round m s0 (2 ^ (dlen 2 s0 - (MB P + 1)))) in *.
    pose proof (normalize_sig_bound 2 ltac:(lia) s1 (e0 + (dlen 2 s0 - (MB P + 1))) (MB P + 1) ltac:(lia) ltac:(lia)) as Hb.
    destruct (normalize 2 s1 _) as [s2 e2]. cbn [fst] in Hb. unfold into_float_checked.
    destruct (Z.gtb_spec (dlen 2 s2) (MB P + 1)); [lia | reflexivity].
Qed.

(** B = 2^n, n > 1 *)
Theorem fbig_to_float_pow2_base P m n s e : 1 <= MB P -> 1 < n ->
  fbig_to_float P (2 ^ n) m s e = Ok (fbig2_to_float_old P m s (e * n)).
Proof.
  intros HMB Hn. unfold fbig_to_float.
  assert (HB : 2 ^ n <> 2).
  { replace n with (n - 1 + 1) by lia. rewrite pow2_succ by lia.
    assert (2 <= 2 ^ (n - 1)). { replace (n - 1) with (n - 2 + 1) by lia. rewrite pow2_succ by lia. pose proof (pow2_pos (n - 2) ltac:(lia)). lia. }
    lia. }
  destruct (Z.eqb_spec (2 ^ n) 2) as [|_]; [contradiction|].
  unfold convert_base_to2, ilog_exact2. rewrite Z.log2_pow2 by lia. rewrite Z.eqb_refl.
  destruct (Z.ltb_spec 1 n) as [_|]; [|lia].
  pose proof (and_then_checked_round P m s (e * n) HMB) as H.
  destruct (normalize 2 s (e * n)) as [s0 e0]. cbn [rbind]. exact H.
Qed.

(** a base that is not a power of two, non-negative exponent: the integer s * B^e *)
Theorem fbig_to_float_nonneg_exp P B m s e : 1 <= MB P -> B <> 2 -> ilog_exact2 B <= 1 -> 0 <= e ->
  fbig_to_float P B m s e = Ok (fbig2_to_float_old P m (s * B ^ e) 0).
Proof.
  intros HMB HB Hlog He. unfold fbig_to_float.
  destruct (Z.eqb_spec B 2) as [|_]; [contradiction|].
  unfold convert_base_to2. destruct (Z.ltb_spec 1 (ilog_exact2 B)) as [|_]; [lia|].
  destruct (Z.leb_spec 0 e) as [_|]; [|lia].
  pose proof (and_then_checked_round P m (s * B ^ e) 0 HMB) as H.
  destruct (normalize 2 (s * B ^ e) 0) as [s0 e0]. cbn [rbind]. exact H.
Qed.

(** with the specification: normal range for a power-of-two base, no condition for an integer *)
Theorem fbig_to_f64_pow2_base m n s e : 1 < n -> s <> 0 ->
  emin F64 + prec F64 - 1 < blen (Z.abs s) + e * n ->
  fbig_to_float P64 (2 ^ n) m s e = Ok (to_float_spec F64 m s (e * n)).
Proof.
  intros Hn Hs Hr. rewrite fbig_to_float_pow2_base by (cbn; lia).
  rewrite fbig2_to_f64_correct by assumption. reflexivity.
Qed.

Theorem fbig_to_f32_pow2_base m n s e : 1 < n -> s <> 0 ->
  emin F32 + prec F32 - 1 < blen (Z.abs s) + e * n ->
  fbig_to_float P32 (2 ^ n) m s e = Ok (to_float_spec F32 m s (e * n)).
Proof.
  intros Hn Hs Hr. rewrite fbig_to_float_pow2_base by (cbn; lia).
  rewrite fbig2_to_f32_correct by assumption. reflexivity.
Qed.

Lemma blen_nonzero_pos v : v <> 0 -> 1 <= blen (Z.abs v).
Proof. intros. destruct (blen_bounds (Z.abs v) ltac:(lia)); lia. Qed.

Theorem fbig_to_f64_nonneg_exp B m s e : 2 < B -> ilog_exact2 B <= 1 -> s <> 0 ->
  0 <= e <= nth 0 convert_small_exp_gen 0 ->
  fbig_to_float P64 B m s e = Ok (to_float_spec F64 m (s * B ^ e) 0).
Proof.
  intros HB Hl Hs He. rewrite fbig_to_float_nonneg_exp by (cbn; lia).
  assert (Hv : s * B ^ e <> 0) by (pose proof (Z.pow_pos_nonneg B e ltac:(lia) ltac:(lia)); nia).
  rewrite fbig2_to_f64_correct; [reflexivity | exact Hv |].
  pose proof (blen_nonzero_pos _ Hv). cbn. lia.
Qed.

Theorem fbig_to_f32_nonneg_exp B m s e : 2 < B -> ilog_exact2 B <= 1 -> s <> 0 ->
  0 <= e <= nth 0 convert_small_exp_gen 0 ->
  fbig_to_float P32 B m s e = Ok (to_float_spec F32 m (s * B ^ e) 0).
Proof.
  intros HB Hl Hs He. rewrite fbig_to_float_nonneg_exp by (cbn; lia).
  assert (Hv : s * B ^ e <> 0) by (pose proof (Z.pow_pos_nonneg B e ltac:(lia) ltac:(lia)); nia).
  rewrite fbig2_to_f32_correct; [reflexivity | exact Hv |].
  pose proof (blen_nonzero_pos _ Hv). cbn. lia.
Qed.

Example fbig_base_examples :
  fbig_to_float P64 16 MHalfEven 255 (-2) = Ok (to_float_spec F64 MHalfEven 255 (-8)) /\
  fbig_to_float P32 10 MUp 123456789 3 = Ok (to_float_spec F32 MUp (123456789 * 10 ^ 3) 0) /\
  fbig_to_float P32 10 MUp 123456789 3 = Ok (FR 1374024905 (Some AddOne)) /\
  ilog_exact2 10 = 0 /\ ilog_exact2 16 = 4 /\ nth 0 convert_small_exp_gen 0 = 38.
Proof. vm_compute. repeat split; reflexivity. Qed.
