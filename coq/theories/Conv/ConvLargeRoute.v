(** C06 (fourth round): FBig<R,B>::to_f32 / to_f64 and Repr<B>::to_f32 / to_f64 for a base that is not
    a power of two and |exponent| > THRESHOLD_SMALL_EXP: Context::convert_base::<B,2> takes its ln/exp
    route, whose as-is model is C08's [LargeExpAsis.convert_large_asis] (on top of C11's as-is models of
    ln / ln_base / exp; imported read-only).  The route ends in ONE repr_round of the approximant
    Y * 2^ye = significand * sig(exp(rem)) * 2^(q + exponent(exp(rem))) to 24 / 53 bits, and
    and_then(into_f32/f64_internal) encodes that: the conversion is exactly the (old) base-2
    conversion of the approximant - no debug assertion, and from the smallest normal number on the
    correctly rounded IEEE value OF THE APPROXIMANT with the truthful flag.  How far the approximant
    is from the exact value is C08's statement (its open class F05), not this property's. *)
From Dashu Require Import Base.Prelude Float.RoundSpec Float.Contract Float.Model Float.ModelProof
  Float.RoundOpsLegal Float.ElemF32 Float.ElemAsis Float.TextIoSpec Float.TextIoModel Float.LargeExpAsis
  Conv.ConvSpec Conv.ConvModel Conv.ConvArith Conv.ConvFloatProofs.
From DashuGen Require Import RoundTables.
Open Scope Z_scope.

(** Rounded<Repr<2>>::and_then(into_f32/f64_internal) on the answer of C08's model of convert_base *)
Definition conv_and_then (P : enc_params) (c : TextIoModel.conv) : result frounded :=
  match c with
  | CDone s e FExact => into_float_checked P s e
  | CDone s e (FInexact r) =>
      match into_float_checked P s e with Ok fr => Ok (fr_and_then (Some r) fr) | o => o end
  | CDone _ _ FUnknown => Panic Undocumented   (* never produced by convert_base *)
  | CPanic r => Panic r
  | CLarge => OutOfFuel
  end.

Section LargeRoute.
Context {F : Type} (O : f32ops F).
Variable W : Z.

Definition fbig_to_float_large (fuel : nat) (P : enc_params) (B : Z) (m : mode) (s e : Z) : result frounded :=
  conv_and_then P (convert_large_asis O W fuel B 2 (MB P + 1) m s e).

(** one rounding of the approximant, then the exact encoding *)
Lemma round_norm_and_then P m ys ye : 1 <= MB P ->
  conv_and_then P (round_norm 2 (MB P + 1) m ys ye) = Ok (fbig2_to_float_old P m ys ye).
Proof.
  intros HMB. unfold round_norm, fbig2_to_float_old. destruct (normalize 2 ys ye) as [s0 e0].
  destruct (Z.le_gt_cases (dlen 2 s0) (MB P + 1)) as [Hs|Hl].
  - rewrite repr_round_exact by exact Hs. cbn [approx_norm conv_and_then]. unfold into_float_checked.
    destruct (Z.gtb_spec (dlen 2 s0) (MB P + 1)); [lia | reflexivity].
  - destruct (repr_round_spec 2 ltac:(lia) (MB P + 1) m s0 e0 ltac:(lia) Hl) as (a & Er & _).
    pose proof (repr_round_digits 2 ltac:(lia) (MB P + 1) m s0 e0 ltac:(lia) Hl) as Hdig. cbv zeta in Hdig.
    rewrite Er in *. cbn [approx_sig approx_norm] in *.
    set (s1 := spec_round m s0 (2 ^ (dlen 2 s0 - (MB P + 1)))) in *.
    pose proof (normalize_sig_bound 2 ltac:(lia) s1 (e0 + (dlen 2 s0 - (MB P + 1))) (MB P + 1) ltac:(lia) ltac:(lia)) as Hb.
    destruct (normalize 2 s1 _) as [s2 e2]. cbn [fst] in Hb. cbn [conv_and_then]. unfold into_float_checked.
    destruct (Z.gtb_spec (dlen 2 s2) (MB P + 1)); [lia | reflexivity].
Qed.

Theorem fbig_to_float_large_eq fuel P B m s e t : 1 <= MB P ->
  large_trace_asis O W fuel B 2 (MB P + 1) m e = Ok t ->
  fbig_to_float_large fuel P B m s e =
    Ok (fbig2_to_float_old P m (s * approx_sig (lt_exp t)) (lt_q t + approx_exp (lt_exp t))).
Proof.
  intros HMB HT. unfold fbig_to_float_large, convert_large_asis. rewrite HT. cbn [large_pre].
  apply round_norm_and_then. exact HMB.
Qed.

(** ... hence, from the smallest normal number on, the IEEE rounding of the approximant *)
Theorem fbig_to_f64_large fuel B m s e t :
  large_trace_asis O W fuel B 2 53 m e = Ok t ->
  let Y := s * approx_sig (lt_exp t) in let ye := lt_q t + approx_exp (lt_exp t) in
  Y <> 0 -> emin F64 + prec F64 - 1 < blen (Z.abs Y) + ye ->
  fbig_to_float_large fuel P64 B m s e = Ok (to_float_spec F64 m Y ye).
Proof.
  intros HT Y ye HY Hn. rewrite (fbig_to_float_large_eq fuel P64 B m s e t ltac:(cbn; lia) HT). f_equal.
  fold Y ye. rewrite fbig2_to_f64_correct by assumption. reflexivity.
Qed.

Theorem fbig_to_f32_large fuel B m s e t :
  large_trace_asis O W fuel B 2 24 m e = Ok t ->
  let Y := s * approx_sig (lt_exp t) in let ye := lt_q t + approx_exp (lt_exp t) in
  Y <> 0 -> emin F32 + prec F32 - 1 < blen (Z.abs Y) + ye ->
  fbig_to_float_large fuel P32 B m s e = Ok (to_float_spec F32 m Y ye).
Proof.
  intros HT Y ye HY Hn. rewrite (fbig_to_float_large_eq fuel P32 B m s e t ltac:(cbn; lia) HT). f_equal.
  fold Y ye. rewrite fbig2_to_f32_correct by assumption. reflexivity.
Qed.

End LargeRoute.

(** non-vacuity: 10^40 as a double through the route (C11's as-is ln / exp with the trivial estimate
    layer [no_f32]: every f32 pre-filter undecided, the exact comparisons decide) *)
Definition ex_trace : result large_trace := Eval vm_compute in large_trace_asis no_f32 64 2000 10 2 53 MHalfEven 40.
Lemma ex_trace_eq : large_trace_asis no_f32 64 2000 10 2 53 MHalfEven 40 = ex_trace.
Proof. vm_cast_no_check (eq_refl ex_trace). Qed.

Example fbig_large_route_examples :
  fbig_to_float_large no_f32 64 2000 P64 10 MHalfEven 1 40 = Ok (FR 5205425776111082661 (Some AddOne)) /\
  (exists t, large_trace_asis no_f32 64 2000 10 2 53 MHalfEven 40 = Ok t /\
     (1 * approx_sig (lt_exp t) <> 0) /\
     (emin F64 + prec F64 - 1 < blen (Z.abs (1 * approx_sig (lt_exp t))) + (lt_q t + approx_exp (lt_exp t)))) /\
  fst (ieee_round F64 MHalfEven (10 ^ 40) 1) = 5205425776111082661.
Proof.
  split; [vm_cast_no_check (eq_refl (Ok (FR 5205425776111082661 (Some AddOne))))|].
  split; [|vm_compute; reflexivity].
  rewrite ex_trace_eq. unfold ex_trace. eexists. split; [reflexivity|]. split; vm_compute; [discriminate | reflexivity].
Qed.

(** finding fbig_to_float_large_route (open; the C06 face of C08's F05): 3 * 5^39 * 10^-39 = 3 * 2^-39 IS an
    f32, but the route computes an approximant and rounds that: under the mode Up the model (as the
    implementation) returns the right pattern flagged AddOne - an exact result reported as rounded up *)
Definition ex_large_up : result frounded := Eval vm_compute in fbig_to_float_large no_f32 64 2000 P32 10 MUp (3 * 5 ^ 39) (-39).
Theorem fbig_to_float_large_route_refuted :
  fbig_to_float_large no_f32 64 2000 P32 10 MUp (3 * 5 ^ 39) (-39) = Ok (FR 750780416 (Some AddOne)) /\
  ieee_round F32 MUp (3 * 5 ^ 39) (10 ^ 39) = (750780416, Eq) /\
  flag_of_error 1 Eq = None.
Proof.
  split; [vm_cast_no_check (eq_refl ex_large_up)|]. split; vm_compute; reflexivity.
Qed.
