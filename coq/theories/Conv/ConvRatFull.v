(** C06: RBig/Relaxed::to_f32 / to_f64 (after repair c1a55c2), the whole function: exponent
    bookkeeping (the quotient of the shifted operands has MB+3 or MB+4 bits, so its sticky form
    determines the magnitude and the rounding of N/D), the main branch and the two shortcut
    branches (overflow to infinity, underflow to zero) = [ieee_rne] of the exact rational with the
    true error sign, for every numerator and every positive denominator. *)
From Dashu Require Import Base.Prelude Float.RoundSpec Float.Contract Float.Model
  Conv.ConvSpec Conv.ConvModel Conv.ConvArith Conv.ConvIeee Conv.ConvEncodeProofs Conv.ConvPrimProofs
  Conv.ConvStickyProofs Conv.ConvRatProofs.
Open Scope Z_scope.

(** a >= D * 2^e for an exponent of any sign *)
Definition ge2 (a D e : Z) : bool := if 0 <=? e then D * 2 ^ e <=? a else D <=? a * 2 ^ (- e).

Lemma mag2_ge2 a D : mag2 a D = if ge2 a D (blen a - blen D) then blen a - blen D + 1 else blen a - blen D.
Proof. reflexivity. Qed.

Lemma ge2_scaled a D e j : 0 < D -> 0 <= j -> 0 <= e + j ->
  ge2 a D e = (D * 2 ^ (e + j) <=? a * 2 ^ j).
Proof.
  intros HD Hj Hej. unfold ge2. destruct (Z.leb_spec 0 e) as [He|He].
  - rewrite pow2_split by lia. pose proof (pow2_pos e He). pose proof (pow2_pos j Hj).
    destruct (Z.leb_spec (D * 2 ^ e) a); destruct (Z.leb_spec (D * (2 ^ e * 2 ^ j)) (a * 2 ^ j)); try reflexivity; exfalso; nia.
  - assert (E : 2 ^ j = 2 ^ (e + j) * 2 ^ (- e)) by (rewrite <- pow2_split by lia; f_equal; lia).
    rewrite E. pose proof (pow2_pos (e + j) Hej). pose proof (pow2_pos (- e) ltac:(lia)).
    destruct (Z.leb_spec D (a * 2 ^ (- e))); destruct (Z.leb_spec (D * 2 ^ (e + j)) (a * (2 ^ (e + j) * 2 ^ (- e)))); try reflexivity; exfalso; nia.
Qed.

(** the magnitude exponent is characterised by 2^(e-1) <= a/D < 2^e (scaled by any 2^j) *)
Lemma mag2_unique a D e j : 0 < a -> 0 < D -> 0 <= j -> 0 <= e - 1 + j ->
  D * 2 ^ (e - 1 + j) <= a * 2 ^ j < D * 2 ^ (e + j) -> mag2 a D = e.
Proof.
  intros Ha HD Hj Hej [H1 H2].
  destruct (blen_bounds a Ha) as [[A1 A2] A3]. destruct (blen_bounds D HD) as [[D1 D2] D3].
  set (la := blen a) in *. set (ld := blen D) in *. set (e0 := la - ld).
  set (t := Z.abs e0 + 2). set (j' := j + t).
  assert (Ht : 0 <= t) by (unfold t; lia).
  pose proof (pow2_pos t Ht) as Hpt.
  (* the hypotheses at the larger scale j' *)
  assert (H1' : D * 2 ^ (e - 1 + j') <= a * 2 ^ j').
  { unfold j'. replace (e - 1 + (j + t)) with (e - 1 + j + t) by lia.
    rewrite (pow2_split (e - 1 + j) t), (pow2_split j t) by lia.
    rewrite !Z.mul_assoc. apply Z.mul_le_mono_nonneg_r; lia. }
  assert (H2' : a * 2 ^ j' < D * 2 ^ (e + j')).
  { unfold j'. replace (e + (j + t)) with (e + j + t) by lia.
    rewrite (pow2_split (e + j) t), (pow2_split j t) by lia.
    rewrite !Z.mul_assoc. apply Z.mul_lt_mono_pos_r; lia. }
  assert (Hj' : 0 <= j') by (unfold j'; lia).
  assert (He0 : 0 <= e0 - 1 + j') by (unfold j', t; lia).
  pose proof (pow2_pos j' Hj') as Hpj.
  (* bit lengths: D * 2^(e0-1) < a < D * 2^(e0+1) *)
  assert (B1 : D * 2 ^ (e0 - 1 + j') < a * 2 ^ j').
  { assert (E : 2 ^ ld * 2 ^ (e0 - 1 + j') = 2 ^ (la - 1) * 2 ^ j').
    { rewrite <- !pow2_split by lia. f_equal. unfold e0. lia. }
    pose proof (pow2_pos (e0 - 1 + j') He0). nia. }
  assert (B2 : a * 2 ^ j' < D * 2 ^ (e0 + 1 + j')).
  { assert (E : 2 ^ (ld - 1) * 2 ^ (e0 + 1 + j') = 2 ^ la * 2 ^ j').
    { rewrite <- !pow2_split by lia. f_equal. unfold e0. lia. }
    pose proof (pow2_pos (e0 + 1 + j') ltac:(lia)). nia. }
  assert (Hlow : e0 <= e).
  { destruct (Z.le_gt_cases e0 e) as [|G]; [assumption|exfalso].
    assert (2 ^ (e + j') <= 2 ^ (e0 - 1 + j')) by (apply Z.pow_le_mono_r; lia). nia. }
  assert (Hhigh : e <= e0 + 1).
  { destruct (Z.le_gt_cases e (e0 + 1)) as [|G]; [assumption|exfalso].
    assert (2 ^ (e0 + 1 + j') <= 2 ^ (e - 1 + j')) by (apply Z.pow_le_mono_r; lia). nia. }
  rewrite mag2_ge2. fold la ld e0.
  rewrite (ge2_scaled a D e0 j') by lia.
  destruct (Z.leb_spec (D * 2 ^ (e0 + j')) (a * 2 ^ j')) as [G|G].
  - destruct (Z.eq_dec e e0) as [E|]; [|lia]. rewrite E in H2'. lia.
  - destruct (Z.eq_dec e (e0 + 1)) as [E|]; [|lia]. rewrite E in H1'.
    replace (e0 + 1 - 1 + j') with (e0 + j') in H1' by lia. lia.
Qed.

(** the sticky quotient keeps the bit length of the quotient *)
Lemma blen_lor_bit q (b : bool) : 1 <= q -> blen (Z.lor q (if b then 0 else 1)) = blen q.
Proof.
  intros Hq. destruct b; [rewrite Z.lor_0_r; reflexivity|].
  rewrite lor_1 by lia.
  destruct (blen_bounds q ltac:(lia)) as [[H1 H2] H3].
  apply blen_unique; [lia|].
  assert (E : 2 ^ blen q = 2 * 2 ^ (blen q - 1)).
  { replace (blen q) with (Z.succ (blen q - 1)) at 1 by lia. rewrite Z.pow_succ_r by lia. reflexivity. }
  pose proof (Z.div_mod q 2 ltac:(lia)). pose proof (Z.mod_pos_bound q 2 ltac:(lia)). lia.
Qed.

(** rounding a/D at 2^(sh+c) in terms of the operands shifted by sh *)
Lemma rat_round_scaled a D sh c M : 0 < a -> 0 < D -> 0 <= c ->
  let num := if 0 <=? sh then a else a * 2 ^ (- sh) in
  let den := if 0 <=? sh then D * 2 ^ sh else D in
  round_rat_at 2 MHalfEven a D (sh + c) = spec_round MHalfEven num (den * 2 ^ c) /\
  cmp_kx 2 1 (XRat a D) M (sh + c) = (M * (den * 2 ^ c) ?= num).
Proof.
  intros Ha HD Hc num den. unfold round_rat_at, cmp_kx, num, den.
  pose proof (pow2_pos c Hc) as Hpc.
  destruct (Z.leb_spec 0 sh) as [Hs|Hs].
  - destruct (Z.leb_spec 0 (sh + c)); [|lia].
    rewrite pow2_split by lia. rewrite Z.mul_assoc. split; [reflexivity|].
    f_equal; ring.
  - pose proof (pow2_pos (- sh) ltac:(lia)) as Hps.
    destruct (Z.leb_spec 0 (sh + c)) as [Hu|Hu].
    + assert (E : 2 ^ c = 2 ^ (sh + c) * 2 ^ (- sh)) by (rewrite <- pow2_split by lia; f_equal; lia).
      rewrite E, Z.mul_assoc, spec_round_even_scale by (try lia; pose proof (pow2_pos (sh + c) Hu); nia).
      split; [reflexivity|].
      replace (M * (D * 2 ^ (sh + c) * 2 ^ (- sh))) with (M * 2 ^ (sh + c) * D * 2 ^ (- sh)) by ring.
      replace (1 * a) with a by ring. symmetry. apply compare_scale. lia.
    + assert (E : 2 ^ (- sh) = 2 ^ (- (sh + c)) * 2 ^ c) by (rewrite <- pow2_split by lia; f_equal; lia).
      rewrite E, Z.mul_assoc, spec_round_even_scale by lia.
      split; [reflexivity|].
      replace (M * (D * 2 ^ c)) with (M * D * 2 ^ c) by ring.
      replace (1 * a * 2 ^ (- (sh + c))) with (a * 2 ^ (- (sh + c))) by ring.
      symmetry. apply compare_scale. lia.
Qed.

Section RatToFloat.
Variable P : enc_params.
Hypothesis HMB : 1 <= MB P.
Hypothesis HW : MB P + 4 <= W P.
Hypothesis HB : 2 * BIAS P + 2 = 2 ^ (W P - 1 - MB P).
Hypothesis HBp : 1 <= BIAS P.
Hypothesis HT : TOP_MAX P = BIAS P + 1.
Hypothesis HU : UNDER P = 1 - BIAS P - MB P.
Hypothesis HN : NORM_LIM P = 1 - BIAS P \/ NORM_LIM P = 2 - BIAS P.

Let f := fmt_of P.

(** exponent bookkeeping: the sticky quotient m of the shifted operands has MB+3 or MB+4 bits and
    blen m + shift is the magnitude exponent of a/D *)
Lemma rat_quot_sticky_facts a D : 0 < a -> 0 < D ->
  let m := fst (rat_quot_sticky P a D) in
  let shift := snd (rat_quot_sticky P a D) in
  let num := if 0 <=? shift then a else a * 2 ^ (- shift) in
  let den := if 0 <=? shift then D * 2 ^ shift else D in
  shift = blen a - blen D - (MB P + 3) /\
  m = Z.lor (num / den) (if num mod den =? 0 then 0 else 1) /\
  0 < num /\ 0 < den /\
  MB P + 3 <= blen m <= MB P + 4 /\ mag2 a D = blen m + shift.
Proof.
  intros Ha HD. unfold rat_quot_sticky. cbv zeta.
  set (shift := blen a - blen D - (MB P + 3)).
  set (num := if 0 <=? shift then a else a * 2 ^ (- shift)).
  set (den := if 0 <=? shift then D * 2 ^ shift else D).
  assert (Epair : (if 0 <=? shift then (a, D * 2 ^ shift) else (a * 2 ^ (- shift), D)) = (num, den)).
  { unfold num, den. destruct (0 <=? shift); reflexivity. }
  rewrite Epair. cbn [fst snd].
  assert (Hnum : 0 < num).
  { unfold num. destruct (Z.leb_spec 0 shift); [lia|]. pose proof (pow2_pos (- shift) ltac:(lia)). nia. }
  assert (Hden : 0 < den).
  { unfold den. destruct (Z.leb_spec 0 shift); [|lia]. pose proof (pow2_pos shift ltac:(lia)). nia. }
  assert (Hbl : blen num - blen den = MB P + 3).
  { unfold num, den. destruct (Z.leb_spec 0 shift).
    - rewrite blen_shift by lia. unfold shift in *. lia.
    - rewrite blen_shift by lia. unfold shift in *. lia. }
  destruct (blen_bounds num Hnum) as [[N1 N2] N3]. destruct (blen_bounds den Hden) as [[D1 D2] D3].
  set (K := MB P + 3) in *.
  set (q := num / den).
  pose proof (Z.div_mod num den ltac:(lia)) as Hdm. pose proof (Z.mod_pos_bound num den Hden) as Hr.
  fold q in Hdm.
  assert (E1 : 2 ^ (blen num - 1) = 2 ^ (K - 1) * 2 ^ blen den) by (rewrite <- pow2_split by lia; f_equal; lia).
  assert (E2 : 2 ^ blen num = 2 ^ (K + 1) * 2 ^ (blen den - 1)) by (rewrite <- pow2_split by lia; f_equal; lia).
  pose proof (pow2_pos (K - 1) ltac:(lia)) as HpK1. pose proof (pow2_pos (K + 1) ltac:(lia)) as HpK2.
  assert (Q1 : 2 ^ (K - 1) <= q).
  { destruct (Z.le_gt_cases (2 ^ (K - 1)) q) as [|G]; [assumption|exfalso].
    assert ((q + 1) * den <= 2 ^ (K - 1) * den) by (apply Z.mul_le_mono_nonneg_r; lia). nia. }
  assert (Q2 : q < 2 ^ (K + 1)).
  { destruct (Z.lt_ge_cases q (2 ^ (K + 1))) as [|G]; [assumption|exfalso].
    assert (2 ^ (K + 1) * den <= q * den) by (apply Z.mul_le_mono_nonneg_r; lia). nia. }
  assert (Hq1 : 1 <= q) by lia.
  set (m := Z.lor q (if num mod den =? 0 then 0 else 1)).
  assert (Hbm : blen m = blen q) by (apply blen_lor_bit; assumption).
  assert (HL : K <= blen q <= K + 1).
  { split.
    - assert (K - 1 < blen q); [|lia]. apply Z.lt_nge. intros G.
      apply blen_le_iff in G; lia.
    - apply blen_le_iff; lia. }
  split; [reflexivity|]. split; [reflexivity|]. split; [assumption|]. split; [assumption|].
  split; [lia|].
  rewrite Hbm. destruct (blen_bounds q ltac:(lia)) as [[L1 L2] L3]. set (L := blen q) in *.
  assert (G1 : den * 2 ^ (L - 1) <= num) by nia.
  assert (G2 : num < den * 2 ^ L) by nia.
  unfold num, den in G1, G2. destruct (Z.leb_spec 0 shift) as [Hs|Hs].
  - apply mag2_unique with (j := 0); try lia. change (2 ^ 0) with 1.
    rewrite !Z.add_0_r, Z.mul_1_r.
    replace (L + shift - 1) with (shift + (L - 1)) by lia. replace (L + shift) with (shift + L) by lia.
    rewrite !pow2_split by lia. rewrite !Z.mul_assoc. split; assumption.
  - apply mag2_unique with (j := - shift); try lia.
    replace (L + shift - 1 + - shift) with (L - 1) by lia. replace (L + shift + - shift) with L by lia.
    split; assumption.
Qed.

(** the rational and its sticky quotient round alike *)
Theorem rat_sticky_spec a D : 0 < a -> 0 < D ->
  let m := fst (rat_quot_sticky P a D) in
  let shift := snd (rat_quot_sticky P a D) in
  ieee_rne f a D = ieee_rne f (fst (frac_of m shift)) (snd (frac_of m shift)).
Proof.
  intros Ha HD m shift.
  destruct (rat_quot_sticky_facts a D Ha HD) as [Es [Em [Hnum [Hden [HL Hmag]]]]].
  fold m shift in Es, Em, HL, Hmag. cbv zeta in Em.
  set (num := if 0 <=? shift then a else a * 2 ^ (- shift)) in *.
  set (den := if 0 <=? shift then D * 2 ^ shift else D) in *.
  assert (Hm : 0 < m) by (apply blen_pos_arg; lia).
  pose proof (ieee_rne_dyadic f m shift Hm) as B. cbv zeta in B. rewrite B. clear B.
  unfold ieee_rne, ieee_round, ulp_exp.
  destruct (Z.eqb_spec a 0); [lia|]. destruct (Z.ltb_spec a 0); [lia|].
  rewrite (Z.abs_eq a) by lia. rewrite Hmag.
  set (u := Z.max (blen m + shift - prec f) (emin f)).
  set (c := u - shift).
  assert (Hc : 2 <= c) by (unfold c, u, f, fmt_of; cbn [prec]; lia).
  destruct (Z.leb_spec c 0); [lia|].
  assert (Eu : shift + c = u) by (unfold c; lia).
  destruct (rat_round_scaled a D shift c (round_rat_at 2 MHalfEven a D (shift + c)) Ha HD ltac:(lia)) as [R1 R2].
  cbv zeta in R1, R2. fold num den in R1, R2. rewrite Eu in R1, R2. cbv zeta.
  destruct (rne_rat_sticky num den c (Z.lt_le_incl _ _ Hnum) Hden Hc) as [S1 S2]. cbv zeta in S1, S2.
  rewrite <- Em in S1, S2.
  rewrite R2, R1, S2, S1.
  rewrite (Z.abs_eq (rne m c)) by (apply rne_nonneg; lia).
  rewrite !Z.add_0_l. reflexivity.
Qed.

(** every branch of the code is what encode does with the sticky quotient *)
Lemma rat_to_float_pos_encode a D : 0 < a -> 0 < D ->
  rat_to_float P a D = encode_asis P (fst (rat_quot_sticky P a D)) (snd (rat_quot_sticky P a D)).
Proof.
  intros Ha HD.
  destruct (rat_quot_sticky_facts a D Ha HD) as [Es [Em [Hnum [Hden [HL Hmag]]]]]. cbv zeta in Em.
  set (m := fst (rat_quot_sticky P a D)) in *. set (shift := snd (rat_quot_sticky P a D)) in *.
  assert (Hm : 0 < m) by (apply blen_pos_arg; lia).
  unfold rat_to_float. destruct (Z.eqb_spec a 0); [lia|]. destruct (Z.ltb_spec a 0); [lia|].
  rewrite (Z.abs_eq a) by lia. cbv zeta. rewrite <- Es.
  destruct (Z.geb_spec shift (TOP_MAX P - (MB P + 3 - 1))) as [Hov|Hov].
  { unfold with_sign, encode_asis.
    destruct (Z.eqb_spec m 0); [lia|]. destruct (Z.ltb_spec m 0); [lia|].
    rewrite (Z.abs_eq m) by lia. cbv zeta.
    destruct (Z.gtb_spec (W P - (W P - blen m) + shift) (TOP_MAX P)); [|lia].
    unfold inf_bits. rewrite Z.add_0_l. reflexivity. }
  destruct (Z.ltb_spec shift (- (BIAS P - 1) - MB P - 1 - (MB P + 3 + 1))) as [Hun|Hun].
  { unfold with_sign, encode_asis.
    destruct (Z.eqb_spec m 0); [lia|]. destruct (Z.ltb_spec m 0); [lia|].
    rewrite (Z.abs_eq m) by lia. cbv zeta.
    destruct (Z.gtb_spec (W P - (W P - blen m) + shift) (TOP_MAX P)); [lia|].
    destruct (Z.ltb_spec (W P - (W P - blen m) + shift) (UNDER P)); [|lia]. reflexivity. }
  assert (Epair : (if 0 <=? shift then (a, D * 2 ^ shift) else (a * 2 ^ (- shift), D)) =
                  (if 0 <=? shift then a else a * 2 ^ (- shift), if 0 <=? shift then D * 2 ^ shift else D)).
  { destruct (0 <=? shift); reflexivity. }
  rewrite Epair. rewrite <- Em. reflexivity.
Qed.

Lemma rat_to_float_neg a D : 0 < a -> 0 < D ->
  rat_to_float P (- a) D = (fst (rat_to_float P a D) + 2 ^ (W P - 1), CompOpp (snd (rat_to_float P a D))).
Proof.
  intros Ha HD.
  destruct (rat_quot_sticky_facts a D Ha HD) as [Es [Em [Hnum [Hden [HL Hmag]]]]]. cbv zeta in Em.
  set (m := fst (rat_quot_sticky P a D)) in *. set (shift := snd (rat_quot_sticky P a D)) in *.
  assert (Hm : 0 < m) by (apply blen_pos_arg; lia).
  unfold rat_to_float. destruct (Z.eqb_spec (- a) 0); [lia|]. destruct (Z.eqb_spec a 0); [lia|].
  destruct (Z.ltb_spec (- a) 0); [|lia]. destruct (Z.ltb_spec a 0); [lia|].
  rewrite Z.abs_opp, (Z.abs_eq a) by lia. cbv zeta. rewrite <- Es.
  destruct (shift >=? TOP_MAX P - (MB P + 3 - 1)); [reflexivity|].
  destruct (shift <? - (BIAS P - 1) - MB P - 1 - (MB P + 3 + 1)); [reflexivity|].
  assert (Epair : (if 0 <=? shift then (a, D * 2 ^ shift) else (a * 2 ^ (- shift), D)) =
                  (if 0 <=? shift then a else a * 2 ^ (- shift), if 0 <=? shift then D * 2 ^ shift else D)).
  { destruct (0 <=? shift); reflexivity. }
  rewrite Epair. rewrite <- Em. apply (encode_neg P HMB ltac:(lia)); assumption.
Qed.

(** RBig / Relaxed ::to_f32 / to_f64 = the correctly rounded value of N/D with the true error sign *)
Theorem rat_to_float_correct N D : 0 < D -> rat_to_float P N D = ieee_rne f N D.
Proof.
  intros HD. destruct (Z.lt_trichotomy N 0) as [Hneg|[->|Hpos]].
  - replace N with (- (- N)) by lia. rewrite rat_to_float_neg by lia.
    rewrite ieee_rne_opp by lia.
    rewrite rat_to_float_pos_encode by lia.
    rewrite (rat_sticky_spec (- N) D) by lia.
    destruct (rat_quot_sticky_facts (- N) D ltac:(lia) HD) as [_ [_ [_ [_ [HL _]]]]].
    rewrite (encode_correct P HMB ltac:(lia) HB HBp HT HU HN).
    + unfold f. rewrite (f_sign P). reflexivity.
    + rewrite Z.abs_eq by (apply Z.lt_le_incl, blen_pos_arg; lia). lia.
  - reflexivity.
  - rewrite rat_to_float_pos_encode by lia.
    rewrite (rat_sticky_spec N D) by lia.
    destruct (rat_quot_sticky_facts N D Hpos HD) as [_ [_ [_ [_ [HL _]]]]].
    apply (encode_correct P HMB ltac:(lia) HB HBp HT HU HN).
    rewrite Z.abs_eq by (apply Z.lt_le_incl, blen_pos_arg; lia). lia.
Qed.

End RatToFloat.

Theorem rat_to_f32_correct N D : 0 < D -> rat_to_float P32 N D = ieee_rne F32 N D.
Proof.
  intros. change F32 with (fmt_of P32).
  apply rat_to_float_correct; [cbn; lia | cbn; lia | reflexivity | cbn; lia | reflexivity | reflexivity | right; reflexivity | assumption].
Qed.

Theorem rat_to_f64_correct N D : 0 < D -> rat_to_float P64 N D = ieee_rne F64 N D.
Proof.
  intros. change F64 with (fmt_of P64).
  apply rat_to_float_correct; [cbn; lia | cbn; lia | reflexivity | cbn; lia | reflexivity | reflexivity | left; reflexivity | assumption].
Qed.

Example rat_to_f64_overflow_shortcut : rat_to_float P64 (2 ^ 1100) 3 = (inf_bits P64, Gt).
Proof. vm_compute. reflexivity. Qed.
Example rat_to_f64_underflow_shortcut : rat_to_float P64 (-3) (2 ^ 1200) = (2 ^ 63, Gt).
Proof. vm_compute. reflexivity. Qed.
Example rat_to_f32_subnormal_tie : rat_to_float P32 3 (2 ^ 150) = ieee_rne F32 3 (2 ^ 150).
Proof. apply rat_to_f32_correct. lia. Qed.
