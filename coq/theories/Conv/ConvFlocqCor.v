(** C06: the code against Flocq directly.  [ieee_rne] is only the intermediate: composing the
    model theorems with the bridge of ConvFlocq.v gives, for FloatEncoding::encode and the integer
    conversions, bit patterns equal to [bits_of_b32/b64 (binary_normalize ... mode_NE m e false)]
    and error signs equal to Flocq's [Rcompare] of the rounded against the exact value. *)
From Coq Require Import ZArith Reals Lia.
From Dashu Require Import Base.Prelude Float.RoundSpec Float.Contract Conv.ConvSpec Conv.ConvModel Conv.ConvArith
  Conv.ConvIeee Conv.ConvEncodeProofs Conv.ConvStickyProofs Conv.ConvSmallProofs Conv.ConvFlocq.
From Flocq Require Import Core IEEE754.BinarySingleNaN IEEE754.Binary IEEE754.Bits.
Open Scope Z_scope.

Definition flocq64 (m e : Z) := binary_normalize 53 1024 (eq_refl) (eq_refl) mode_NE m e false.
Definition flocq32 (m e : Z) := binary_normalize 24 128 (eq_refl) (eq_refl) mode_NE m e false.

Theorem encode_f64_flocq m e : - 2 ^ 63 <= m < 2 ^ 63 -> m <> 0 ->
  fst (encode_asis P64 m e) = bits_of_b64 (flocq64 m e) /\
  snd (encode_asis P64 m e) =
    if is_finite 53 1024 (flocq64 m e) then Rcompare (B2R 53 1024 (flocq64 m e)) (F2R (Float radix2 m e))
    else if m <? 0 then Lt else Gt.
Proof.
  intros Hm Hnz. rewrite encode_f64_correct by assumption. split.
  - apply ieee_rne_flocq_f64; assumption.
  - apply ieee_rne_flocq_f64_sign; assumption.
Qed.

Theorem encode_f32_flocq m e : - 2 ^ 31 <= m < 2 ^ 31 -> m <> 0 ->
  fst (encode_asis P32 m e) = bits_of_b32 (flocq32 m e) /\
  snd (encode_asis P32 m e) =
    if is_finite 24 128 (flocq32 m e) then Rcompare (B2R 24 128 (flocq32 m e)) (F2R (Float radix2 m e))
    else if m <? 0 then Lt else Gt.
Proof.
  intros Hm Hnz. rewrite encode_f32_correct by assumption. split.
  - apply ieee_rne_flocq_f32; assumption.
  - apply ieee_rne_flocq_f32_sign; assumption.
Qed.

Lemma frac_of_int v : frac_of v 0 = (v, 1).
Proof. unfold frac_of. cbn [Z.leb Z.compare]. change (2 ^ 0) with 1. rewrite Z.mul_1_r. reflexivity. Qed.

(** IBig::to_f64 / to_f32 (UBig = the non-negative half) of every non-zero integer *)
Theorem ibig_to_f64_flocq DW v : 64 <= DW -> v <> 0 ->
  fst (ibig_to_float P64 DW v) = bits_of_b64 (flocq64 v 0) /\
  snd (ibig_to_float P64 DW v) =
    if is_finite 53 1024 (flocq64 v 0) then Rcompare (B2R 53 1024 (flocq64 v 0)) (IZR v)
    else if v <? 0 then Lt else Gt.
Proof.
  intros HD Hnz. rewrite ibig_to_f64_correct by assumption.
  pose proof (ieee_rne_flocq_f64 v 0 Hnz) as A. pose proof (ieee_rne_flocq_f64_sign v 0 Hnz) as B.
  cbv zeta in A, B. rewrite frac_of_int in A, B. cbn [fst snd] in A, B.
  replace (F2R (Float radix2 v 0)) with (IZR v) in B by (unfold F2R; cbn; rewrite Rmult_1_r; reflexivity).
  split; assumption.
Qed.

Theorem ibig_to_f32_flocq DW v : 32 <= DW -> v <> 0 ->
  fst (ibig_to_float P32 DW v) = bits_of_b32 (flocq32 v 0) /\
  snd (ibig_to_float P32 DW v) =
    if is_finite 24 128 (flocq32 v 0) then Rcompare (B2R 24 128 (flocq32 v 0)) (IZR v)
    else if v <? 0 then Lt else Gt.
Proof.
  intros HD Hnz. rewrite ibig_to_f32_correct by assumption.
  pose proof (ieee_rne_flocq_f32 v 0 Hnz) as A. pose proof (ieee_rne_flocq_f32_sign v 0 Hnz) as B.
  cbv zeta in A, B. rewrite frac_of_int in A, B. cbn [fst snd] in A, B.
  replace (F2R (Float radix2 v 0)) with (IZR v) in B by (unfold F2R; cbn; rewrite Rmult_1_r; reflexivity).
  split; assumption.
Qed.

Example ibig_to_f64_flocq_u128_max :
  fst (ibig_to_float P64 128 (2 ^ 128 - 1)) = bits_of_b64 (flocq64 (2 ^ 128 - 1) 0).
Proof. apply ibig_to_f64_flocq; lia. Qed.
