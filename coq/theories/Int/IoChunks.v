(** C07: convert.rs TypedReprRef::to_chunks (after the repair of F02) returns exactly the
    specification chunks on its three paths: double word (shift and mask), chunk width a multiple of
    the word size (slices of the word array, the top slice may be short), general width (a window of
    words shifted right and masked).  Any word size, any value, any chunk width. *)
From Dashu Require Import Base.Prelude Base.Words Int.IoSpec Int.IoModel Int.IoDigits Int.IoBytes Int.IoRadix Int.IoPow2.
Open Scope Z_scope.

Section Chunks.
Variable w : Z.
Hypothesis w_pos : 0 < w.

Lemma Bpow k : 0 <= k -> B w ^ k = 2 ^ (w * k).
Proof. intros. unfold B. rewrite Z.pow_mul_r by lia. reflexivity. Qed.

Lemma to_words_value_mod n : forall v, value w (to_words w n v) = v mod B w ^ Z.of_nat n.
Proof.
  pose proof (B_pos w w_pos) as HB.
  induction n as [|n IH]; intros v; cbn [to_words value].
  - cbn [Z.of_nat]. rewrite Z.pow_0_r, Z.mod_1_r. reflexivity.
  - rewrite IH, Nat2Z.inj_succ, Z.pow_succ_r by lia.
    rewrite (Z.rem_mul_r v (B w) (B w ^ Z.of_nat n)); [reflexivity | lia | apply Z.pow_pos_nonneg; lia].
Qed.

Lemma skipn_to_words b : forall n v, skipn b (to_words w n v) = to_words w (n - b) (v / B w ^ Z.of_nat b).
Proof.
  pose proof (B_pos w w_pos) as HB.
  induction b as [|b IH]; intros n v.
  - cbn [skipn Z.of_nat]. rewrite Z.pow_0_r, Z.div_1_r, Nat.sub_0_r. reflexivity.
  - destruct n as [|n]; [reflexivity|]. cbn [to_words skipn Nat.sub]. rewrite IH.
    rewrite Nat2Z.inj_succ, Z.pow_succ_r, Z.div_div by (try apply Z.pow_pos_nonneg; lia). reflexivity.
Qed.

Lemma firstn_to_words a : forall n v, firstn a (to_words w n v) = to_words w (Nat.min a n) v.
Proof.
  induction a as [|a IH]; intros n v; [reflexivity|].
  destruct n as [|n]; [reflexivity|]. cbn [to_words firstn Nat.min]. rewrite IH. reflexivity.
Qed.

(** a slice of the word array is a bit field of the value *)
Lemma slice_value n v a b : 0 <= v < B w ^ Z.of_nat n ->
  value w (firstn a (skipn b (to_words w n v))) = (v / B w ^ Z.of_nat b) mod B w ^ Z.of_nat a.
Proof.
  intros Hv. pose proof (B_pos w w_pos) as HB.
  rewrite skipn_to_words, firstn_to_words, to_words_value_mod.
  assert (Hpb : 0 < B w ^ Z.of_nat b) by (apply Z.pow_pos_nonneg; lia).
  destruct (Nat.le_gt_cases a (n - b)) as [Hle|Hgt].
  - rewrite Nat.min_l by exact Hle. reflexivity.
  - rewrite Nat.min_r by lia.
    assert (Hq : 0 <= v / B w ^ Z.of_nat b < B w ^ Z.of_nat (n - b)).
    { split; [apply Z.div_pos; lia|]. apply Z.div_lt_upper_bound; [lia|].
      destruct (Nat.le_gt_cases b n) as [Hbn|Hbn].
      - rewrite <- Z.pow_add_r by lia. replace (Z.of_nat b + Z.of_nat (n - b)) with (Z.of_nat n) by lia. lia.
      - replace (n - b)%nat with 0%nat by lia. cbn [Z.of_nat]. rewrite Z.pow_0_r, Z.mul_1_r.
        apply Z.lt_le_trans with (B w ^ Z.of_nat n); [lia|]. apply Z.pow_le_mono_r; lia. }
    rewrite !Z.mod_small; [reflexivity | | exact Hq]. split; [lia|].
    apply Z.lt_le_trans with (B w ^ Z.of_nat (n - b)); [lia|]. apply Z.pow_le_mono_r; lia.
Qed.

Lemma nwords_covers v : 0 <= v -> v < B w ^ Z.of_nat (nwords w v).
Proof.
  intros Hv. pose proof (blen_nonneg v) as Hb. pose proof (blen_lt v Hv) as Hlt.
  unfold nwords, wlen.
  pose proof (Z.div_mod (blen v + w - 1) w ltac:(lia)) as D. pose proof (Z.mod_pos_bound (blen v + w - 1) w ltac:(lia)) as M.
  assert (Hq : 0 <= (blen v + w - 1) / w) by (apply Z.div_pos; lia).
  rewrite Z2Nat.id by lia. rewrite Bpow by lia.
  apply Z.lt_le_trans with (2 ^ blen v); [lia|]. apply Z.pow_le_mono_r; nia.
Qed.

(** general width: the window [start_pos words .. stop) shifted right by start mod w *)
Lemma window_chunk v cb i : 0 <= v -> 0 < cb -> 0 <= i ->
  let start := i * cb in
  let stop := Z.min (blen v) (start + cb) in
  let sp := start / w in
  start < blen v ->
  ((v / 2 ^ (w * sp)) mod 2 ^ (stop - w * sp)) / 2 ^ (start mod w) = (v / 2 ^ start) mod 2 ^ cb.
Proof.
  intros Hv Hcb Hi start stop sp Hin.
  assert (Hs : 0 <= start) by (unfold start; nia).
  pose proof (Z.div_mod start w ltac:(lia)) as D. pose proof (Z.mod_pos_bound start w ltac:(lia)) as M. fold sp in D.
  assert (Hsp : 0 <= sp) by (unfold sp; apply Z.div_pos; lia).
  set (o := start mod w) in *. assert (Ewsp : w * sp = start - o) by lia.
  assert (Hstop : start < stop <= start + cb) by (unfold stop; lia).
  set (y := v / 2 ^ (w * sp)).
  (* (y mod 2^(o + l)) / 2^o with l = stop - start *)
  replace (stop - w * sp) with (o + (stop - start)) by lia.
  pose proof (pow2_pos o ltac:(lia)) as Po. pose proof (pow2_pos (stop - start) ltac:(lia)) as Pl.
  assert (E1 : (y mod 2 ^ (o + (stop - start))) / 2 ^ o = (y / 2 ^ o) mod 2 ^ (stop - start)).
  { rewrite Z.pow_add_r by lia. rewrite Z.rem_mul_r by lia.
    rewrite Z.add_comm, Z.mul_comm, Z.div_add_l by lia.
    rewrite (Z.div_small (y mod 2 ^ o)) by (apply Z.mod_pos_bound; lia). lia. }
  rewrite E1.
  assert (E2 : y / 2 ^ o = v / 2 ^ start).
  { unfold y. pose proof (pow2_pos (w * sp) ltac:(nia)). rewrite Z.div_div by lia.
    rewrite <- Z.pow_add_r by nia. f_equal. f_equal. lia. }
  rewrite E2.
  destruct (Z.le_gt_cases (start + cb) (blen v)) as [Hfull|Hshort].
  - replace (stop - start) with cb by (unfold stop; lia). reflexivity.
  - (* the top chunk: fewer than cb bits are left, and they are all there is *)
    assert (Es : stop = blen v) by (unfold stop; lia).
    pose proof (blen_lt v Hv) as Hlt. pose proof (pow2_pos start Hs) as Ps.
    assert (Hq : 0 <= v / 2 ^ start < 2 ^ (stop - start)).
    { split; [apply Z.div_pos; lia|]. apply Z.div_lt_upper_bound; [lia|].
      rewrite <- Z.pow_add_r by lia. replace (start + (stop - start)) with (blen v) by lia. exact Hlt. }
    rewrite !Z.mod_small; [reflexivity | | exact Hq]. split; [lia|].
    apply Z.lt_le_trans with (2 ^ (stop - start)); [lia|]. apply Z.pow_le_mono_r; lia.
Qed.

Lemma chunk_count_pos_index v cb i : 0 < cb -> 0 <= i < chunk_count v cb -> i * cb < blen v.
Proof.
  intros Hcb Hi. unfold chunk_count in Hi.
  pose proof (Z.div_mod (blen v + cb - 1) cb ltac:(lia)) as D. pose proof (Z.mod_pos_bound (blen v + cb - 1) cb ltac:(lia)) as M.
  nia.
Qed.

Theorem to_chunks_asis_correct v cb : 0 <= v -> 0 < cb -> to_chunks_asis w v cb = Ok (to_chunks_spec v cb).
Proof.
  intros Hv Hcb. unfold to_chunks_asis, to_chunks_gen, to_chunks_spec. fold (chunk_count v cb).
  destruct (Z.leb_spec cb 0); [lia|].
  pose proof (blen_nonneg v) as Hb. pose proof (blen_lt v Hv) as Hlt.
  assert (Hc : 0 <= chunk_count v cb) by (unfold chunk_count; apply Z.div_pos; lia).
  destruct (Z.ltb_spec v (Bw w * Bw w)) as [Hsmall|Hlarge].
  - f_equal. destruct (Z.eqb_spec (chunk_count v cb) 0) as [E0|N0]; [rewrite E0; reflexivity|].
    destruct (Z.eqb_spec (chunk_count v cb) 1) as [E1|N1]; [|reflexivity].
    rewrite E1. change (Z.to_nat 1) with 1%nat. cbn [seq map]. change (Z.of_nat 0) with 0. rewrite Z.mul_0_l, Z.pow_0_r, Z.div_1_r.
    f_equal. symmetry. apply Z.mod_small. split; [lia|].
    apply Z.lt_le_trans with (2 ^ blen v); [lia|]. apply Z.pow_le_mono_r; [lia|].
    unfold chunk_count in E1.
    pose proof (Z.div_mod (blen v + cb - 1) cb ltac:(lia)) as D. pose proof (Z.mod_pos_bound (blen v + cb - 1) cb ltac:(lia)) as M. nia.
  - destruct (Z.eqb_spec (cb mod w) 0) as [Eal|Nal].
    + (* word aligned: slices of the word array *)
      cbn [negb andb]. f_equal. apply map_ext_in. intros i Hi. apply in_seq in Hi.
      pose proof (Z.div_mod cb w ltac:(lia)) as D. rewrite Eal in D.
      assert (Hwpc : 0 < cb / w) by nia.
      rewrite slice_value by (split; [lia | apply nwords_covers; lia]).
      rewrite !Bpow by lia. f_equal; [f_equal|]; f_equal; nia.
    + f_equal. apply map_ext_in. intros i Hi. apply in_seq in Hi.
      apply (window_chunk v cb (Z.of_nat i)); try lia.
      apply chunk_count_pos_index; lia.
Qed.

End Chunks.

(** to_chunks then from_chunks through the models: the identity (the round trip the property asks) *)
Theorem chunks_roundtrip_asis w v cb cs : 0 < w -> 0 <= v -> 0 < cb ->
  to_chunks_asis w v cb = Ok cs -> from_chunks_asis w cb cs = v.
Proof.
  intros Hw Hv Hcb H. rewrite to_chunks_asis_correct in H by assumption. injection H as <-.
  rewrite from_chunks_asis_correct by lia. apply to_chunks_roundtrip; assumption.
Qed.

Example to_chunks_asis_example : to_chunks_asis 64 (2 ^ 130 + 5) 128 = Ok [5; 4] /\ to_chunks_asis 64 (2 ^ 130 + 5) 100 = Ok [5; 2 ^ 30].
Proof. split; vm_compute; reflexivity. Qed.
