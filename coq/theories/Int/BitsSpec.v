(** C09: executable specifications of the bit-level API in terms of Coq's infinite two's-complement
    functions on Z (Z.testbit, Z.land, ...), plus the characterisation lemmas that justify reading
    them as "the number written in two's complement with infinitely many sign bits". *)
From Dashu Require Import Base.Prelude.
Open Scope Z_scope.

Definition bit_len_spec (a : Z) : Z := if a =? 0 then 0 else Z.log2 (Z.abs a) + 1.
Definition set_bit_spec (a n : Z) : Z := Z.lor a (2 ^ n).
Definition clear_bit_spec (a n : Z) : Z := Z.ldiff a (2 ^ n).

Fixpoint tz_pos (p : positive) : Z :=
  match p with xO q => 1 + tz_pos q | _ => 0 end.
Definition trailing_zeros_spec (a : Z) : option Z :=
  match a with Z0 => None | Zpos p | Zneg p => Some (tz_pos p) end.
(** trailing ones of a = trailing zeros of the complement; None for -1 (all ones) *)
Definition trailing_ones_spec (a : Z) : option Z := trailing_zeros_spec (Z.lnot a).

Fixpoint pop_pos (p : positive) : Z :=
  match p with xH => 1 | xO q => pop_pos q | xI q => 1 + pop_pos q end.
Definition count_ones_spec (a : Z) : Z := match a with Zpos p => pop_pos p | _ => 0 end.
(** zeros below the top one bit of a non-negative number; None for 0 *)
Definition count_zeros_spec (a : Z) : option Z :=
  if a =? 0 then None else Some (bit_len_spec a - count_ones_spec a).

Definition split_bits_spec (a n : Z) : Z * Z := (a mod 2 ^ n, a / 2 ^ n).
Definition clear_high_bits_spec (a n : Z) : Z := a mod 2 ^ n.
Definition is_power_of_two_spec (a : Z) : bool := (0 <? a) && (a =? 2 ^ Z.log2 a).
Definition next_power_of_two_spec (a : Z) : Z := if a <=? 1 then 1 else 2 ^ (Z.log2 (a - 1) + 1).
Definition ones_spec (n : Z) : Z := Z.ones n.

(* ---------------------------------------------------------------- characterisations *)

Lemma tz_pos_nonneg p : 0 <= tz_pos p.
Proof. induction p; cbn [tz_pos]; lia. Qed.

Lemma tz_pos_spec p : Z.testbit (Zpos p) (tz_pos p) = true /\ forall i, 0 <= i < tz_pos p -> Z.testbit (Zpos p) i = false.
Proof.
  induction p as [q IH|q IH|]; cbn [tz_pos].
  - split; [reflexivity | intros; lia].
  - destruct IH as [IH1 IH2]. pose proof (tz_pos_nonneg q) as Hq. split.
    + change (Zpos q~0) with (2 * Zpos q). replace (1 + tz_pos q) with (Z.succ (tz_pos q)) by lia.
      rewrite Z.testbit_even_succ by assumption. exact IH1.
    + intros i Hi. change (Zpos q~0) with (2 * Zpos q).
      destruct (Z.eq_dec i 0) as [->|Hne]; [apply Z.testbit_even_0|].
      replace i with (Z.succ (i - 1)) by lia. rewrite Z.testbit_even_succ by lia. apply IH2. lia.
  - split; [reflexivity | intros; lia].
Qed.

Lemma testbit_opp_low_zeros a k : 0 <= k -> (forall i, 0 <= i < k -> Z.testbit a i = false) ->
  forall i, 0 <= i < k -> Z.testbit (- a) i = false.
Proof.
  intros Hk Hlow i Hi.
  assert (Hm : a mod 2 ^ k = 0).
  { apply Z.bits_inj'. intros j Hj. rewrite Z.bits_0, Z.testbit_mod_pow2 by lia.
    destruct (Z.ltb_spec j k); simpl; [apply Hlow; lia | reflexivity]. }
  assert (Hm' : (- a) mod 2 ^ k = 0) by (apply Z_mod_zero_opp_full; exact Hm).
  rewrite <- (Z.mod_pow2_bits_low (- a) k i) by lia. rewrite Hm'. apply Z.bits_0.
Qed.

(** the defining property: 2^k divides a and 2^(k+1) does not, expressed on bits - for every sign *)
Theorem trailing_zeros_spec_ok a k : trailing_zeros_spec a = Some k ->
  0 <= k /\ Z.testbit a k = true /\ forall i, 0 <= i < k -> Z.testbit a i = false.
Proof.
  destruct a as [|p|p]; cbn [trailing_zeros_spec]; intros H; inversion H; subst; clear H.
  - pose proof (tz_pos_spec p) as [H1 H2]. pose proof (tz_pos_nonneg p). auto.
  - pose proof (tz_pos_spec p) as [H1 H2]. pose proof (tz_pos_nonneg p) as Hk.
    split; [exact Hk|]. split.
    + (* bit k of -p: -p = lnot (p - 1); p = 2^k * odd *)
      change (Zneg p) with (- Zpos p).
      assert (Hdiv : Zpos p mod 2 ^ tz_pos p = 0).
      { apply Z.bits_inj'. intros j Hj. rewrite Z.bits_0, Z.testbit_mod_pow2 by lia.
        destruct (Z.ltb_spec j (tz_pos p)); simpl; [apply H2; lia | reflexivity]. }
      set (k := tz_pos p) in *.
      assert (Hp : 0 < 2 ^ k) by (apply Z.pow_pos_nonneg; lia).
      pose proof (Z.div_mod (Zpos p) (2 ^ k) ltac:(lia)) as Hdm. rewrite Hdiv, Z.add_0_r in Hdm.
      set (q := Zpos p / 2 ^ k) in *.
      assert (Hodd : Z.testbit q 0 = true).
      { unfold q. rewrite <- Z.shiftr_div_pow2 by lia. rewrite Z.shiftr_spec by lia. rewrite Z.add_0_l. exact H1. }
      replace (- Zpos p) with ((- q) * 2 ^ k) by (rewrite Hdm; ring).
      rewrite Z.mul_pow2_bits by lia. rewrite Z.sub_diag.
      rewrite Z.bit0_odd in *. rewrite Z.odd_opp. exact Hodd.
    + change (Zneg p) with (- Zpos p). apply testbit_opp_low_zeros; assumption.
Qed.

Theorem trailing_zeros_spec_none a : trailing_zeros_spec a = None <-> a = 0.
Proof. destruct a; simpl; split; intros H; congruence. Qed.

Theorem trailing_ones_spec_ok a k : trailing_ones_spec a = Some k ->
  0 <= k /\ Z.testbit a k = false /\ forall i, 0 <= i < k -> Z.testbit a i = true.
Proof.
  unfold trailing_ones_spec. intros H. apply trailing_zeros_spec_ok in H. destruct H as (Hk & H1 & H2).
  split; [exact Hk|]. rewrite Z.lnot_spec in H1 by lia. split.
  - now destruct (Z.testbit a k).
  - intros i Hi. specialize (H2 i Hi). rewrite Z.lnot_spec in H2 by lia. now destruct (Z.testbit a i).
Qed.

Theorem trailing_ones_spec_none a : trailing_ones_spec a = None <-> a = -1.
Proof.
  unfold trailing_ones_spec. rewrite trailing_zeros_spec_none. unfold Z.lnot. rewrite <- Z.sub_1_r. lia.
Qed.

Theorem next_power_of_two_spec_ok a : 0 <= a ->
  let p := next_power_of_two_spec a in
  a <= p /\ (exists k, 0 <= k /\ p = 2 ^ k) /\ (1 < p -> p / 2 < a).
Proof.
  intros Ha p. unfold p, next_power_of_two_spec. destruct (Z.leb_spec a 1) as [H|H].
  - split; [lia|]. split; [exists 0; split; [lia|reflexivity] | lia].
  - pose proof (Z.log2_spec (a - 1) ltac:(lia)) as [L1 L2].
    pose proof (Z.log2_nonneg (a - 1)) as L0.
    replace (Z.succ (Z.log2 (a - 1))) with (Z.log2 (a - 1) + 1) in L2 by lia.
    split; [lia|]. split.
    + exists (Z.log2 (a - 1) + 1). split; [lia | reflexivity].
    + intros _. rewrite Z.pow_add_r by lia. rewrite Z.pow_1_r. rewrite Z.div_mul by lia. lia.
Qed.

Theorem is_power_of_two_spec_ok a : is_power_of_two_spec a = true <-> exists k, 0 <= k /\ a = 2 ^ k.
Proof.
  unfold is_power_of_two_spec. rewrite andb_true_iff, Z.ltb_lt, Z.eqb_eq. split.
  - intros [Hp He]. exists (Z.log2 a). split; [apply Z.log2_nonneg | exact He].
  - intros (k & Hk & ->). split; [apply Z.pow_pos_nonneg; lia|]. rewrite Z.log2_pow2 by assumption. reflexivity.
Qed.

Theorem split_bits_spec_ok a n : 0 <= n ->
  let '(lo, hi) := split_bits_spec a n in a = hi * 2 ^ n + lo /\ 0 <= lo < 2 ^ n.
Proof.
  intros Hn. unfold split_bits_spec. assert (0 < 2 ^ n) by (apply Z.pow_pos_nonneg; lia).
  split; [rewrite Z.mul_comm; apply Z.div_mod; lia | apply Z.mod_pos_bound; lia].
Qed.

Theorem set_clear_bit_spec_ok a n i : 0 <= n -> 0 <= i ->
  Z.testbit (set_bit_spec a n) i = (if i =? n then true else Z.testbit a i) /\
  Z.testbit (clear_bit_spec a n) i = (if i =? n then false else Z.testbit a i).
Proof.
  intros Hn Hi. unfold set_bit_spec, clear_bit_spec. rewrite Z.lor_spec, Z.ldiff_spec.
  rewrite Z.pow2_bits_eqb by assumption. rewrite (Z.eqb_sym n i).
  destruct (i =? n); destruct (Z.testbit a i); auto.
Qed.

Theorem bit_len_spec_ok a : a <> 0 -> 2 ^ (bit_len_spec a - 1) <= Z.abs a < 2 ^ bit_len_spec a.
Proof.
  intros Ha. unfold bit_len_spec. destruct (Z.eqb_spec a 0); [contradiction|].
  pose proof (Z.log2_spec (Z.abs a) ltac:(lia)) as [L1 L2].
  replace (Z.log2 (Z.abs a) + 1 - 1) with (Z.log2 (Z.abs a)) by lia.
  replace (Z.succ (Z.log2 (Z.abs a))) with (Z.log2 (Z.abs a) + 1) in L2 by lia. lia.
Qed.
