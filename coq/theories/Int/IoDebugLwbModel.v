(** C07 (round 4): the Debug printer with the logarithm routine INSIDE the model.  IoDebugModel.debug_asis
    takes `log::repr::log_word_base(words, 10).0` as a function parameter (contract = hypothesis); here the
    call is C12's as-is model GrlModel.log_word_base_asis (estimate from the f32 bounds as parameter [est],
    `assert!(est_pow <= target)`, whole-word stage, digit stage, one division back), its power result
    `pow` is what the printer divides.  Definitions only (proofs: IoDebugLwb.v). *)
From Dashu Require Import Base.Prelude Base.Words Int.IoSpec Int.IoModel Int.IoDebugModel.
From Dashu Require Int.GrlModel.
Open Scope Z_scope.

Section DebugLwb.
Variable w : Z.
Variable L : dbg_lits.
(** `(log2_self * wexp as f32 / log2_wbase) as usize`: the float estimate of the exponent *)
Variable est : Z -> Z.

Let rx := dl_radix L.

(** enough for both loops of log_word_base (lemma lwb_fuel_suffices) *)
Definition lwb_fuel (m : Z) : nat := S (Z.to_nat (blen m)).

(** DoubleEnd::fmt_non_power_two, RefLarge, after `let (exp, pow) = log_word_base(words, 10)` *)
Definition debug_large_tail (neg plus alt : bool) (m dpw R exp pow : Z) : result (list Z) :=
    let plow := prepared_word w rx (m mod R) dpw in
    let dv := R / dl_pow_div L in
    if negb (pow mod dv =? 0) then Panic Undocumented else
    let pow' := pow / dv in
    if pow' <? Bw w then Panic Undocumented else
    let k := wlen w pow' in
    let shift := w * k - blen pow' in
    let pn := pow' * 2 ^ shift in
    let mn := m * 2 ^ shift in
    let Lm := wlen w m in
    let lo_len := if mn / Bw w ^ Lm =? 0 then Lm - 1 else Lm in
    if lo_len <? k then Panic Undocumented else
    if pn <? mn / Bw w ^ (lo_len + 1 - k) then Panic Undocumented else
    let q := (mn / Bw w ^ (lo_len - k)) / pn in
    Ok (double_end_format w L neg plus alt (exp + 1) m (prepared_word w rx q dpw) (Some plow)).

Definition debug_lwb_asis (plus alt : bool) (v : Z) : result (list Z) :=
  let m := Z.abs v in
  if m <? Bw w * Bw w then debug_asis w L (fun _ => 0) plus alt v      (* RefSmall: the logarithm is not called *)
  else
    let '(dpw, R) := radix_info w rx in
    (* base == 10: (wexp, wbase) = (RADIX10_INFO.digits_per_word, RADIX10_INFO.range_per_word) *)
    rbind (GrlModel.log_word_base_asis (lwb_fuel m) w (est m) dpw m rx) (fun ep =>
    debug_large_tail (v <? 0) plus alt m dpw R (fst ep) (snd ep)).

End DebugLwb.

(** an admissible estimate for the extraction: the exact exponent lowered by a pseudo-random deficit of 0..40, so that
    the run exercises both correction loops of log_word_base (IoDebugLwb.est_under_ok: it passes the assertion) *)
Definition est_under (m : Z) : Z := Z.max 0 (ilog_exact 10 m - m mod 41).
