(** C17 (round 4) - proofs about the storage machine of StorageOps3.v, part 3: sqrt / sqrt_rem.
    sqrt_rem_large indexes the shifted copy of its operand with buffer[..n], buffer[n] and truncates it to n or n + 1 words
    (n = (len + 1) / 2): this is in bounds because the shifted copy has EXACTLY 2n words, a fact about the VALUE of the
    operand (normalized: word digits, top word nonzero) and of shift = WORD_BITS * (len & 1) + (leading_zeros & !1).  It is
    proved here for every word size w >= 2 and every normalized operand of at least 3 words ([shifted_len]); with it the
    routine fails no guard (incl. the debug assertions of root::sqrt_rem on the lengths), keeps the invariant and frees
    the input copy exactly once - also when only the root is wanted and the copy holds the kernel's leftovers. *)
From Dashu Require Import Base.Prelude Base.Words Int.StorageModel Int.StorageProofs Int.StorageArith Int.StorageHistory
  Int.StorageOps2 Int.StorageOps2Proofs Int.StorageOps3 Int.StorageOps3Proofs.
From DashuGen Require Import StorageGen StorageGen4.
Open Scope Z_scope.

Section WordFacts.
Variable w : Z.
Hypothesis w_big : 2 <= w.

Let w_pos : 0 < w. Proof. lia. Qed.

Notation B := (Words.B w).
Notation value := (Words.value w).
Notation wf := (Words.wf w).

(* ------------------------------------------------------------------ word lists and their values *)
Lemma B_pow k : 0 <= k -> B ^ k = 2 ^ (w * k).
Proof. intros Hk. unfold Words.B. rewrite <- Z.pow_mul_r by lia. reflexivity. Qed.

Lemma strip_value ws : value (strip ws) = value ws.
Proof.
  induction ws as [|x r IH]; cbn [strip]; [reflexivity|]. cbn [Words.value]. rewrite <- IH.
  destruct (strip r) as [|y r'] eqn:E.
  - destruct (Z.eqb_spec x 0) as [->|Hx]; cbn [Words.value]; lia.
  - cbn [Words.value]. reflexivity.
Qed.

Lemma strip_wf ws : wf ws -> wf (strip ws).
Proof.
  induction ws as [|x r IH]; intros H; cbn [strip]; [exact H|].
  apply Words.wf_cons in H. destruct H as [Hx Hr]. specialize (IH Hr).
  destruct (strip r) as [|y r'] eqn:E.
  - destruct (x =? 0); [apply Words.wf_nil | apply Words.wf_cons; split; [exact Hx | apply Words.wf_nil]].
  - apply Words.wf_cons. split; assumption.
Qed.

(** a normalized list of L >= 1 words is worth at least B^(L-1) *)
Lemma value_lower ws : wf ws -> ws <> [] -> last ws 0 <> 0 -> B ^ (len ws - 1) <= value ws.
Proof.
  pose proof (Words.B_pos w w_pos) as HB.
  induction ws as [|x r IH]; intros H Hne Hl; [contradiction|].
  apply Words.wf_cons in H. destruct H as [Hx Hr]. rewrite len_cons. cbn [Words.value].
  destruct r as [|y r'].
  - lnil. replace (1 + 0 - 1) with 0 by lia. rewrite Z.pow_0_r. cbn [last Words.value] in *. lia.
  - assert (last (y :: r') 0 <> 0) as Hl' by exact Hl.
    specialize (IH Hr ltac:(discriminate) Hl'). pose proof (len_nonneg r') as L0. rewrite len_cons in *.
    replace (1 + (1 + len r') - 1) with (Z.succ (1 + len r' - 1)) by lia. rewrite Z.pow_succ_r by lia. nia.
Qed.

(** the number of words of a normalized list is determined by its value *)
Lemma len_strip_of_value ws k : wf ws -> 1 <= k -> B ^ (k - 1) <= value ws < B ^ k -> len (strip ws) = k.
Proof.
  intros Hw Hk Hv. pose proof (Words.B_pos w w_pos) as HB.
  pose proof (strip_wf ws Hw) as Hs. pose proof (strip_value ws) as Ev. pose proof (strip_cases ws) as Hc.
  assert (0 < B ^ (k - 1)) as Hp by (apply Z.pow_pos_nonneg; lia).
  assert (1 < B) as HB1 by (pose proof (Words.B_ge_2 w w_pos); lia).
  destruct Hc as [Hc|Hc].
  - rewrite Hc in Ev. cbn [Words.value] in Ev. lia.
  - assert (strip ws <> []) as Hne by (intros E; rewrite E in Ev; cbn [Words.value] in Ev; lia).
    pose proof (value_lower (strip ws) Hs Hne Hc) as Hlo. pose proof (Words.value_bounds w w_pos (strip ws) Hs) as Hhi.
    pose proof (len_nonneg (strip ws)) as L0.
    assert (len (strip ws) - 1 < k) by (apply (Z.pow_lt_mono_r_iff B); lia).
    assert (k - 1 < len (strip ws)) by (apply (Z.pow_lt_mono_r_iff B); lia).
    lia.
Qed.

Lemma value_split_last ws : ws <> [] -> value ws = value (removelast ws) + B ^ (len ws - 1) * last ws 0.
Proof.
  intros Hne. rewrite (app_removelast_last 0 Hne) at 1. rewrite (Words.value_app w). cbn [Words.value].
  assert (len (removelast ws) = len ws - 1) as E.
  { rewrite (app_removelast_last 0 Hne) at 2. rewrite len_app, len_cons. lnil. lia. }
  rewrite E. lia.
Qed.

Lemma wf_removelast ws : wf ws -> wf (removelast ws).
Proof.
  intros H. destruct ws as [|x r]; [exact H|]. assert (x :: r <> []) as Hne by discriminate.
  rewrite (app_removelast_last 0 Hne) in H. apply Words.wf_app in H. tauto.
Qed.

Lemma wf_last ws : wf ws -> ws <> [] -> 0 <= last ws 0 < B.
Proof.
  intros H Hne. rewrite (app_removelast_last 0 Hne) in H. apply Words.wf_app in H. destruct H as [_ H].
  apply Words.wf_cons in H. tauto.
Qed.

Lemma sandwich P r top a : 0 < P -> 0 <= r < P -> a <= top < 2 * a -> P * a <= r + P * top < P * (a * 2).
Proof. intros HP Hr Ht. split; nia. Qed.

(** THE value-level fact behind sqrt_rem_large's indices: the operand shifted by
    shift = w * (len & 1) + (leading_zeros(top) & !1) has exactly 2 * ((len + 1) / 2) words *)
Theorem shifted_len ws K :
  wf ws -> 1 <= len ws -> last ws 0 <> 0 -> 2 * gen4_sqrt_out_len (len ws) <= K ->
  len (strip (tow w K (value ws * 2 ^ sqrt_shift w ws))) = 2 * gen4_sqrt_out_len (len ws).
Proof.
  intros Hw HL Hl HK. unfold gen4_sqrt_out_len in *. set (L := len ws) in *.
  assert (ws <> []) as Hne by (intros E; unfold L in HL; rewrite E in HL; cbn in HL; lia).
  pose proof (wf_last ws Hw Hne) as Ht. set (top := last ws 0) in *.
  pose proof (Z.log2_spec top ltac:(lia)) as [T1 T2]. set (t := Z.log2 top) in *.
  pose proof (Z.log2_nonneg top) as T0. fold t in T0.
  assert (t < w) as Tw.
  { apply (Z.pow_lt_mono_r_iff 2); [lia | lia |]. unfold Words.B in Ht. lia. }
  unfold sqrt_shift, lz_even. fold L top t.
  set (e := 2 * ((w - 1 - t) / 2)).
  assert (0 <= e <= w - 1 - t) as He.
  { unfold e. pose proof (Z.div_mod (w - 1 - t) 2 ltac:(lia)). pose proof (Z.mod_pos_bound (w - 1 - t) 2 ltac:(lia)). lia. }
  pose proof (Z.div_mod L 2 ltac:(lia)) as D1. pose proof (Z.mod_pos_bound L 2 ltac:(lia)) as D2.
  pose proof (Z.div_mod (L + 1) 2 ltac:(lia)) as D3. pose proof (Z.mod_pos_bound (L + 1) 2 ltac:(lia)) as D4.
  assert (2 * ((L + 1) / 2) = L + L mod 2) as E2n.
  { assert ((L + 1) mod 2 = 1 - L mod 2) as Em.
    { rewrite Z.add_mod by lia. destruct (Z.eq_dec (L mod 2) 0) as [E0|E0]; [rewrite E0; reflexivity|].
      replace (L mod 2) with 1 by lia. reflexivity. }
    lia. }
  set (n2 := 2 * ((L + 1) / 2)) in *.
  set (sh := w * (L mod 2) + e).
  assert (0 <= sh) as Hsh by (unfold sh; nia).
  pose proof (value_split_last ws Hne) as Ex. fold L top in Ex.
  pose proof (Words.value_bounds w w_pos (removelast ws) (wf_removelast ws Hw)) as Hr.
  assert (len (removelast ws) = L - 1) as Er.
  { unfold L. rewrite (app_removelast_last 0 Hne) at 2. rewrite len_app, len_cons. lnil. lia. }
  rewrite Er in Hr.
  assert (0 < B ^ (L - 1)) as HBp by (apply Z.pow_pos_nonneg; [apply (Words.B_pos w w_pos) | lia]).
  assert (0 < 2 ^ sh) as H2s by (apply Z.pow_pos_nonneg; lia).
  set (x := value ws) in *.
  (* bounds of x in powers of two *)
  assert (0 < 2 ^ t) as H2t by (apply Z.pow_pos_nonneg; lia).
  assert (2 ^ (t + 1) = 2 * 2 ^ t) as E2t by (rewrite Z.pow_add_r by lia; change (2 ^ 1) with 2; lia).
  pose proof (sandwich (B ^ (L - 1)) (value (removelast ws)) top (2 ^ t) HBp Hr ltac:(lia)) as [Xlo Xhi].
  rewrite <- Ex in Xlo, Xhi. clear Ex Hr D1 D3 D4 T1 T2.
  rewrite (B_pow (L - 1)) in Xlo, Xhi by lia.
  assert (0 <= w * (L - 1)) as Hwl by (apply Z.mul_nonneg_nonneg; lia).
  assert (0 <= w * (L mod 2)) as Hwm by (apply Z.mul_nonneg_nonneg; lia).
  assert (w * (n2 - 1) = w * (L - 1) + w * (L mod 2)) as En1 by (rewrite E2n; ring).
  assert (w * n2 = w * (L - 1) + w * (L mod 2) + w) as En2 by (rewrite E2n; ring).
  rewrite <- Z.pow_add_r in Xlo by lia.
  replace (2 ^ t * 2) with (2 ^ (t + 1)) in Xhi by lia. rewrite <- Z.pow_add_r in Xhi by lia.
  assert (B ^ (n2 - 1) <= x * 2 ^ sh) as Vlo.
  { rewrite B_pow by lia. apply Z.le_trans with (2 ^ (w * (L - 1) + t) * 2 ^ sh); [|apply Z.mul_le_mono_nonneg_r; lia].
    rewrite <- Z.pow_add_r by lia. apply Z.pow_le_mono_r; [lia|]. unfold sh. lia. }
  assert (x * 2 ^ sh < B ^ n2) as Vhi.
  { rewrite B_pow by lia. apply Z.lt_le_trans with (2 ^ (w * (L - 1) + (t + 1)) * 2 ^ sh); [apply Z.mul_lt_mono_pos_r; lia|].
    rewrite <- Z.pow_add_r by lia. apply Z.pow_le_mono_r; [lia|]. unfold sh. lia. }
  apply len_strip_of_value.
  - apply (Words.to_words_wf w w_pos).
  - lia.
  - unfold tow. rewrite (Words.value_to_words w w_pos).
    + split; assumption.
    + split; [apply Z.mul_nonneg_nonneg; [apply (Words.value_nonneg w w_pos); exact Hw | lia]|]. apply Z.lt_le_trans with (B ^ n2); [exact Vhi|].
      apply Z.pow_le_mono_r; [apply (Words.B_pos w w_pos) | lia].
Qed.

End WordFacts.

Section Ops3Sqrt.
Variable w : Z.
Variable M : Z.
Hypothesis w_big : 2 <= w.
Hypothesis M_big : 8 <= M.
Variable jv : list Z -> Z.

Let w_pos : 0 < w. Proof. lia. Qed.

Notation ReprInv := (ReprInv M).
Notation BufOK := (BufOK M).
Notation RQ := (RQ M).
Notation OQ := (OQ M).
Notation TargInv := (TargInv M).
Notation B := (Words.B w).
Notation value := (Words.value w).
Notation wf := (Words.wf w).

Ltac lens := cbn [setws bws bcap bptr];
  repeat (rewrite len_app || rewrite len_cons || (rewrite len_repeat by lia) || (rewrite (len_tow' w) by lia)); lnil.

(* ------------------------------------------------------------------ from_buffer / shl_large_ref, words tracked *)
Theorem wp_from_buffer_w b F m (Q : repr -> mem -> Prop) :
  Own (bblk b :: F) m -> BufOK b ->
  (forall r m', Own (rblks r ++ F) m' -> ReprInv r ->
                (3 <= len (strip (bws b)) -> exists b', r = RHeap Positive b' /\ bws b' = strip (bws b)) -> Q r m') ->
  safe (from_buffer w M b) m Q.
Proof.
  intros HO [HB1 HB2] HQ. unfold from_buffer.
  pose proof (strip_cases (bws b)) as Hs. pose proof (strip_len (bws b)) as Hl.
  destruct (strip (bws b)) as [|x [|y [|z rest]]] eqn:E.
  - apply safe_bind. eapply wp_drop_buffer; [exact HO|]. intros m' HO'. apply safe_ret. apply HQ; auto; [apply ReprInv_from_word | cbn; lia].
  - apply safe_bind. eapply wp_drop_buffer; [exact HO|]. intros m' HO'. apply safe_ret. apply HQ; auto; [apply ReprInv_from_word | cbn; lia].
  - apply safe_bind. eapply wp_drop_buffer; [exact HO|]. intros m' HO'. apply safe_ret. apply HQ; auto; [apply ReprInv_from_dword | cbn; lia].
  - set (ws := x :: y :: z :: rest) in *.
    assert (3 <= len ws) as H3 by (unfold ws; rewrite !len_cons; pose proof (len_nonneg rest); lia).
    destruct Hs as [Hs|Hs]; [discriminate|].
    apply safe_bind. unfold shrink_to_fit, max_compact_chk. cbn [setws bws bcap].
    apply safe_bind. apply safe_bind. apply safe_guard12. intros Hle. apply Z.leb_le in Hle. apply safe_ret.
    destruct (Z.gtb_spec (bcap b) (max_compact_capacity M (len ws))).
    + eapply (wp_reallocate M M_big); [exact HO | cbn [setws bws]; lia |]. cbn [setws bws].
      intros b' m' HO' E1 E2 E3 HB'. apply safe_ret. apply HQ; cbn [rblks app]; auto.
      * cbn [StorageProofs.ReprInv]. rewrite E1, E2. destruct (default_capacity_bounds M M_big (len ws) ltac:(lia)) as [B1 B2]. repeat split; auto; lia.
      * intros _. exists b'. split; [reflexivity | exact E1].
    + apply safe_ret. apply HQ; cbn [rblks app]; auto.
      * cbn [StorageProofs.ReprInv setws bws bcap]. repeat split; auto; lia.
      * intros _. eexists. split; [reflexivity | reflexivity].
Qed.

Lemma wp_shl_large_ref_w ws n F m (Q : repr -> mem -> Prop) :
  Own F m -> 0 <= n ->
  (forall r m', Own (rblks r ++ F) m' -> ReprInv r ->
     (3 <= len (strip (tow w (n / w + len ws + 1) (val w ws * 2 ^ n))) ->
      exists b', r = RHeap Positive b' /\ bws b' = strip (tow w (n / w + len ws + 1) (val w ws * 2 ^ n))) -> Q r m') ->
  safe (shl_large_ref w M ws n) m Q.
Proof.
  intros HO Hn HQ. unfold shl_large_ref. cbv zeta. pose proof (sw_nonneg w w_pos n Hn) as Hs. pose proof (len_nonneg ws) as L0.
  apply safe_bind. eapply (wp_alloc M M_big); [exact HO | lia |]. intros b m1 HO1 E1 E2 HB.
  apply safe_bind. eapply wp_push_repeat; [rewrite E1; lnil; lia|].
  apply safe_bind. eapply wp_push_slice; [lens; rewrite E1; lens; lia|].
  apply safe_bind. eapply wp_push; [lens; rewrite E1; lens; lia|].
  assert (len (bws b ++ repeat 0 (Z.to_nat (n / w)) ++ ws ++ [0]) = n / w + len ws + 1) as EL by (rewrite E1; lens; lia).
  eapply wp_from_buffer_w; [exact HO1 | |].
  - eapply (BufOK_any M b); [exact HB | reflexivity |]. cbn [setws bws bcap]. rewrite <- !app_assoc, EL. lens. lia.
  - cbn [setws bws]. rewrite <- !app_assoc, EL. exact HQ.
Qed.

(* ------------------------------------------------------------------ sqrt_rem_large *)
Theorem wp_sqrt_rem_large ws root_only F m (Q : repr * repr -> mem -> Prop) :
  Own F m -> wf ws -> 3 <= len ws -> last ws 0 <> 0 ->
  (forall q r m', Own (rblks q ++ rblks r ++ F) m' -> ReprInv q -> ReprInv r -> Q (q, r) m') ->
  safe (sqrt_rem_large w M jv ws root_only) m Q.
Proof.
  intros HO Hw H3 Hl HQ. unfold sqrt_rem_large. cbv zeta.
  set (n := gen4_sqrt_out_len (len ws)). set (shift := sqrt_shift w ws).
  assert (2 <= n /\ 2 * n <= len ws + 1) as [Hn2 Hn3].
  { unfold n, gen4_sqrt_out_len. pose proof (Z.div_mod (len ws + 1) 2 ltac:(lia)). pose proof (Z.mod_pos_bound (len ws + 1) 2 ltac:(lia)). lia. }
  assert (0 <= shift) as Hsh.
  { unfold shift, sqrt_shift, lz_even. pose proof (Z.mod_pos_bound (len ws) 2 ltac:(lia)).
    assert (ws <> []) as Hne by (intros E; rewrite E in H3; cbn in H3; lia).
    pose proof (wf_last w ws Hw Hne) as Ht. pose proof (Z.log2_nonneg (last ws 0)).
    assert (Z.log2 (last ws 0) < w).
    { apply (Z.pow_lt_mono_r_iff 2); [lia | lia |]. pose proof (Z.log2_spec (last ws 0) ltac:(lia)). unfold Words.B in Ht. lia. }
    assert (0 <= (w - 1 - Z.log2 (last ws 0)) / 2) by (apply Z.div_pos; lia). nia. }
  apply safe_bind. eapply wp_shl_large_ref_w; [exact HO | exact Hsh |]. intros sh m1 HO1 HR1 Hwords.
  assert (0 <= shift / w) as Hsw by (apply Z.div_pos; lia).
  pose proof (shifted_len w w_big ws (shift / w + len ws + 1) Hw ltac:(lia) Hl ltac:(fold n; lia)) as ELen.
  fold n shift in ELen. unfold val in Hwords.
  destruct (Hwords ltac:(rewrite ELen; lia)) as (buffer & -> & Eb). rewrite ELen in *. clear Hwords.
  cbn [into_buffer]. apply safe_bind. apply safe_ret.
  cbn [rblks app] in HO1. destruct HR1 as (R1 & R2 & R3).
  assert (BufOK buffer) as HBb.
  { split; [|lia]. pose proof (max_compact_le_M M (len (bws buffer))). lia. }
  assert (len (bws buffer) = 2 * n) as ELb by (rewrite Eb; exact ELen).
  unfold gen4_sqrt_out_request.
  apply safe_bind. eapply (wp_alloc M M_big); [exact HO1 | lia |]. intros out0 m2 HO2 E1 E2 HB.
  apply safe_bind. apply wp_push_repeat; [rewrite E1; lnil; lia|].
  apply safe_bind. apply safe_guard.
  { apply andb_true_intro. split; [apply Z.eqb_eq | apply Z.leb_le]; lens; rewrite ?E1; lens; lia. }
  apply safe_bind.
  apply (safe_mono _ _ (fun b2 m' => m' = m2 /\ bblk b2 = bblk buffer /\ len (bws b2) <= bcap buffer)).
  - destruct root_only.
    + apply safe_ret. split; [reflexivity|]. split; [reflexivity|]. lens. lia.
    + apply safe_bind. apply safe_guard; [apply Z.ltb_lt; lia|].
      unfold gen4_sqrt_trunc_noshift, gen4_sqrt_trunc_word, gen4_sqrt_trunc_bits.
      apply safe_bind. apply wp_truncate; [destruct (shift =? 0); [|destruct (shift >=? w)]; lia|].
      apply safe_ret. split; [reflexivity|]. split; [reflexivity|].
      set (k := if shift =? 0 then n + 1 else if shift >=? w then n else n + 1).
      pose proof (len_firstn_le (bws buffer) (Z.to_nat k)). pose proof (len_nonneg (firstn (Z.to_nat k) (bws buffer))). lens. lia.
  - intros b2 m' (-> & EB & HL2).
    apply safe_bind. eapply (wp_fb_any w M M_big out0 _ (bblk buffer :: F)); [exact HO2 | exact HB | reflexivity | reflexivity | |].
    { lens. lia. }
    intros q m3 HO3 HRq.
    apply safe_bind. eapply (wp_fb w M M_big b2 (rblks q ++ F)).
    + unfold bblk in *. rewrite EB. apply Own_mid. exact HO3.
    + eapply BufOK_same; [exact HBb | exact EB | exact HL2].
    + intros r m4 HO4 HRr. apply safe_ret. apply HQ; auto. apply Own_swap_app'. exact HO4.
Qed.

(** operands whose words sqrt reads: normalized (word digits; the top word is nonzero by the invariant) *)
Definition TargWf (a : targ) : Prop := match a with TRefLarge ws => wf ws /\ last ws 0 <> 0 | TLarge b => wf (bws b) /\ last (bws b) 0 <> 0 | _ => True end.

Theorem wp_sqrt_ref a F m Q : Own F m -> TargInv a -> TargWf a -> tblks a = [] -> RQ F Q -> safe (sqrt_ref w M jv a) m Q.
Proof.
  intros HO Ha Hw Hb HQ. unfold sqrt_ref. destruct (small_of a) as [d|] eqn:Ea.
  - apply safe_ret. apply HQ; [exact HO | apply ReprInv_from_word].
  - pose proof (twords_len M a Ha Ea) as L.
    assert (wf (twords a) /\ last (twords a) 0 <> 0) as [W1 W2] by (destruct a; try discriminate; exact Hw).
    apply safe_bind. eapply wp_sqrt_rem_large; [exact HO | exact W1 | exact L | exact W2 |]. intros q r m1 HO1 HRq HRr.
    cbn [fst snd]. apply safe_bind. eapply wp_repr_drop; [apply Own_swap_app'; exact HO1|]. intros m2 HO2.
    apply safe_ret. apply HQ; assumption.
Qed.

Theorem wp_sqrt_rem_ref a F m (Q : repr * repr -> mem -> Prop) :
  Own F m -> TargInv a -> TargWf a -> tblks a = [] ->
  (forall q r m', Own (rblks q ++ rblks r ++ F) m' -> ReprInv q -> ReprInv r -> Q (q, r) m') ->
  safe (sqrt_rem_ref w M jv a) m Q.
Proof.
  intros HO Ha Hw Hb HQ. unfold sqrt_rem_ref. destruct (small_of a) as [d|] eqn:Ea.
  - apply safe_ret. apply HQ; [exact HO | apply ReprInv_from_word | apply ReprInv_from_dword].
  - pose proof (twords_len M a Ha Ea) as L.
    assert (wf (twords a) /\ last (twords a) 0 <> 0) as [W1 W2] by (destruct a; try discriminate; exact Hw).
    eapply wp_sqrt_rem_large; eauto.
Qed.

(** IBig::sqrt: a negative operand panics before anything is allocated *)
Theorem wp_isqrt_top s a F m Q : Own F m -> TargInv a -> TargWf a -> tblks a = [] -> OQ F Q -> safe (isqrt_top w M jv s a) m Q.
Proof.
  intros HO Ha Hw Hb HQ. destruct s; cbn [isqrt_top].
  - eapply wp_done; [|exact HQ]. intros Q' HQ'. eapply wp_sqrt_ref; eauto.
  - apply safe_ret. apply HQ. exact HO.
Qed.

End Ops3Sqrt.
