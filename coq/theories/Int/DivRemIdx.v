(** C02 - fast_rem_by_normalized_word / fast_rem_by_normalized_dword (div/mod.rs) with the index arithmetic of
    the source: `let mut i = ..; while i > 2 { i -= 2; .. words[i - 1], words[i] .. } if i == 2 { .. words[0] .. }`.
    An index outside the slice and a usize subtraction below zero are panics of the model (overflow checks are on
    in the harness build).  Definitions only; Int/DivRemIdxProofs.v shows that no such panic can happen and that
    these are the list recursions rem_word_loop / rem_dword_loop of DivWordModel.v, which rem_by_word,
    rem_by_dword, is_multiple_of_const and ConstDivisor::rem (rem_large) are built from. *)
From Dashu Require Import Base.Prelude Base.Words Int.DivWordModel.
Open Scope Z_scope.

Section RemIdx.
Variable w : Z.
Notation B := (Words.B w).
Variable div1by1 div2by1 div2by2 : Z -> Z -> Z * Z.
Variable div3by2 div4by2 : Z -> Z -> Z -> Z * Z.

(** words[i] for a usize expression i (computed in Z: negative = the subtraction wrapped below zero) *)
Definition idx (ws : list Z) (i : Z) : result Z :=
  if (0 <=? i) && (i <? len ws) then Ok (nth (Z.to_nat i) ws 0) else Panic Undocumented.

(** `while i > 2 { i -= 2; let top_dword = double_word(words[i - 1], words[i]); rem = div_rem_4by2(top_dword, rem).1 }` *)
Fixpoint rem_dword_while (fuel : nat) (d : Z) (ws : list Z) (i rem : Z) : result (Z * Z) :=
  if i >? 2 then
    match fuel with
    | O => OutOfFuel
    | S f => let i := i - 2 in
             rbind (idx ws (i - 1)) (fun lo => rbind (idx ws i) (fun hi =>
             rem_dword_while f d ws i (snd (div4by2 d (lo + B * hi) rem))))
    end
  else Ok (i, rem).

Definition fast_rem_dword_idx (d : Z) (ws : list Z) : result Z :=
  if len ws <? 2 then Panic Undocumented                                 (* debug_assert!(words.len() >= 2) *)
  else
    let i := len ws - 1 in
    rbind (idx ws (i - 1)) (fun lo => rbind (idx ws i) (fun hi =>
    let rem := snd (div2by2 d (lo + B * hi)) in
    rbind (rem_dword_while (length ws) d ws i rem) (fun '(i, rem) =>
    if i =? 2 then rbind (idx ws 0) (fun x => Ok (snd (div3by2 d x rem))) else Ok rem))).

(** `let mut i = words_lo.len(); while i > 0 { i -= 1; rem = div_rem_2by1(double_word(words_lo[i], rem)).1 }` *)
Fixpoint rem_word_while (fuel : nat) (d : Z) (lo : list Z) (i rem : Z) : result Z :=
  if i >? 0 then
    match fuel with
    | O => OutOfFuel
    | S f => let i := i - 1 in
             rbind (idx lo i) (fun x => rem_word_while f d lo i (snd (div2by1 d (x + B * rem))))
    end
  else Ok rem.

Definition fast_rem_word_idx (d : Z) (ws : list Z) : result Z :=
  if len ws <? 1 then Panic Undocumented                                 (* debug_assert!(!words.is_empty()); split_hi_word *)
  else
    rbind (idx ws (len ws - 1)) (fun last =>
    let words_lo := firstn (length ws - 1) ws in
    rem_word_while (length ws) d words_lo (len words_lo) (snd (div1by1 d last))).

(** rem_by_word / rem_by_dword around them (shortcut for powers of two, final renormalisation of the remainder) *)
Definition rem_by_word_idx (ws : list Z) (rhs : Z) : result Z :=
  if is_pow2 rhs then rbind (idx ws 0) (fun x => Ok (Z.land x (rhs - 1)))
  else let s := lzw w 1 rhs in let d := rhs * 2 ^ s in
       rbind (fast_rem_word_idx d ws) (fun rem => Ok (snd (div2by1 d (rem * 2 ^ s)) / 2 ^ s)).

Definition rem_by_dword_idx (ws : list Z) (rhs : Z) : result Z :=
  if is_pow2 rhs then rbind (idx ws 0) (fun x0 => rbind (idx ws 1) (fun x1 => Ok (Z.land (x0 + B * x1) (rhs - 1))))
  else let s := lzw w 2 rhs in let d := rhs * 2 ^ s in
       rbind (fast_rem_dword_idx d ws) (fun rem =>
       let v := rem * 2 ^ s in Ok (snd (div3by2 d (v mod B) (v / B)) / 2 ^ s)).

End RemIdx.
