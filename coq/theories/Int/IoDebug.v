(** C07 (round 3): the Debug printer (DoubleEnd) prints the specification text - every integer whose bit
    length fits a word, every even word size >= 8, any logarithm routine that meets the contract of
    log_word_base (C12).  In particular: the divisor 10^(exp+1-digits_per_word) always has more than
    one word, the remainder of pow / (range_per_word/10) is zero, the shifted number has exactly one
    word more than the normalised divisor (so ONE Knuth step yields the whole quotient), the
    preconditions of div_rem_highest_word hold, and the quotient has exactly digits_per_word digits.
    The literals and the radix are the regenerated ones (coq/gen/IoTables3.v). *)
From Dashu Require Import Base.Prelude Base.Words Int.IoSpec Int.IoModel Int.IoDigits Int.IoPrint Int.IoRadix Int.IoDebugModel.
From DashuGen Require Import IoTables3.
Open Scope Z_scope.

(* ------------------------------------------------------------------------------------------ *)
(** * arithmetic of powers of two *)
Lemma pow2_pos n : 0 <= n -> 0 < 2 ^ n.
Proof. intros. apply Z.pow_pos_nonneg; lia. Qed.

Lemma pow2_lt_inv a b x : 0 <= b -> 2 ^ a <= x -> x < 2 ^ b -> a < b.
Proof.
  intros Hb H1 H2. destruct (Z.lt_ge_cases a b) as [L|G]; [exact L|exfalso].
  assert (2 ^ b <= 2 ^ a) by (apply Z.pow_le_mono_r; lia). lia.
Qed.

Lemma wlen_bounds w x : 0 < w -> 0 < x -> 0 < wlen w x /\ w * (wlen w x - 1) < blen x <= w * wlen w x.
Proof.
  intros Hw Hx. unfold wlen.
  assert (Hb : 0 < blen x).
  { unfold blen. destruct (Z.leb_spec x 0); [lia|]. pose proof (Z.log2_nonneg x). lia. }
  pose proof (Z.div_mod (blen x + w - 1) w ltac:(lia)) as Hd.
  pose proof (Z.mod_pos_bound (blen x + w - 1) w Hw) as Hm.
  set (k := (blen x + w - 1) / w) in *. set (rr := (blen x + w - 1) mod w) in *.
  assert (0 < k) by (clear - Hd Hm Hb Hw; nia).
  split; [assumption|]. clear - Hd Hm. lia.
Qed.

(** the shifted dividend has exactly one word more than the normalised divisor *)
Lemma highest_word_arith w k s Lm m pw q :
  0 < w -> 0 < k -> 0 <= s < w -> 0 < Lm ->
  2 ^ (w * k - 1) <= pw * 2 ^ s < 2 ^ (w * k) ->
  2 <= q -> q + 1 <= 2 ^ w -> q * pw <= m < (q + 1) * pw ->
  2 ^ (w * (Lm - 1)) <= m < 2 ^ (w * Lm) ->
  (if (m * 2 ^ s) / 2 ^ (w * Lm) =? 0 then Lm - 1 else Lm) = k /\ m * 2 ^ s < 2 ^ w * (pw * 2 ^ s).
Proof.
  intros Hw Hk Hs HL Hpn Hq Hq1 Hm HmL.
  assert (Wk : 0 < w * k) by (apply Z.mul_pos_pos; lia).
  assert (WL : 0 < w * Lm) by (apply Z.mul_pos_pos; lia).
  assert (WL1 : 0 <= w * (Lm - 1)) by (apply Z.mul_nonneg_nonneg; lia).
  assert (Wk1 : w * (k + 1) = w * k + w) by ring.
  assert (WLp : w * (Lm + 1) = w * Lm + w) by ring.
  assert (P2s : 0 < 2 ^ s) by (apply pow2_pos; lia).
  assert (P2w : 0 < 2 ^ w) by (apply pow2_pos; lia).
  assert (PL : 0 < 2 ^ (w * Lm)) by (apply pow2_pos; lia).
  set (pn := pw * 2 ^ s) in *. set (mn := m * 2 ^ s).
  assert (Hlo : q * pn <= mn) by (unfold pn, mn; clear - Hm P2s; nia).
  assert (Hhi : mn < (q + 1) * pn) by (unfold pn, mn; clear - Hm P2s; nia).
  assert (Ppn : 0 < pn).
  { assert (0 < 2 ^ (w * k - 1)) by (apply pow2_pos; lia). lia. }
  assert (E1 : 2 ^ (w * k) = 2 * 2 ^ (w * k - 1)).
  { rewrite <- Z.pow_succ_r by lia. f_equal. lia. }
  assert (A : 2 ^ (w * k) <= mn) by (clear - Hlo Hq Hpn E1; nia).
  assert (E2 : 2 ^ (w * (k + 1)) = 2 ^ w * 2 ^ (w * k)).
  { rewrite Wk1, Z.pow_add_r by lia. ring. }
  assert (Bd : mn < 2 ^ w * pn) by (clear - Hhi Hq1 Ppn; nia).
  assert (Bb : mn < 2 ^ (w * (k + 1))).
  { rewrite E2. clear - Bd Hpn P2w. nia. }
  assert (C1 : 2 ^ (w * (Lm - 1)) <= mn) by (unfold mn; clear - HmL P2s; nia).
  assert (S2 : 2 ^ s < 2 ^ w) by (apply Z.pow_lt_mono_r; lia).
  assert (E3 : 2 ^ (w * (Lm + 1)) = 2 ^ (w * Lm) * 2 ^ w).
  { rewrite WLp, Z.pow_add_r by lia. ring. }
  assert (C2 : mn < 2 ^ (w * (Lm + 1))).
  { rewrite E3. unfold mn. clear - HmL S2 P2s PL. nia. }
  split; [|exact Bd].
  assert (Mn0 : 0 <= mn) by lia.
  destruct (Z.eqb_spec (mn / 2 ^ (w * Lm)) 0) as [E|NE].
  - apply Z.div_small_iff in E; [|lia]. destruct E as [E|E]; [|lia].
    pose proof (pow2_lt_inv (w * k) (w * Lm) mn ltac:(lia) A ltac:(lia)) as H1.
    pose proof (pow2_lt_inv (w * (Lm - 1)) (w * (k + 1)) mn ltac:(lia) C1 Bb) as H2.
    apply Z.mul_lt_mono_pos_l in H1; [|exact Hw]. apply Z.mul_lt_mono_pos_l in H2; [|exact Hw]. lia.
  - assert (G : 2 ^ (w * Lm) <= mn).
    { destruct (Z.lt_ge_cases mn (2 ^ (w * Lm))) as [Lt|Ge]; [|lia]. exfalso. apply NE. apply Z.div_small. lia. }
    pose proof (pow2_lt_inv (w * Lm) (w * (k + 1)) mn ltac:(lia) G Bb) as H1.
    pose proof (pow2_lt_inv (w * k) (w * (Lm + 1)) mn ltac:(lia) A C2) as H2.
    apply Z.mul_lt_mono_pos_l in H1; [|exact Hw]. apply Z.mul_lt_mono_pos_l in H2; [|exact Hw]. lia.
Qed.

(* ------------------------------------------------------------------------------------------ *)
(** * digits: count, head and tail *)
Section Digits.
Variable r : Z.
Hypothesis r_ge_2 : 2 <= r.

Lemma digits_len e n : 0 <= e -> r ^ e <= n < r ^ (e + 1) -> len (digits_spec r n) = e + 1.
Proof.
  intros He Hn. assert (Pe : 0 < r ^ e) by (apply Z.pow_pos_nonneg; lia).
  pose proof (canonical_len_value r r_ge_2 _ (digits_spec_canonical r r_ge_2 n ltac:(lia))) as H.
  rewrite (digits_spec_value r r_ge_2 n ltac:(lia)) in H. specialize (H ltac:(lia)).
  set (l := len (digits_spec r n)) in *.
  assert (0 <= l) by (unfold l, len; lia).
  destruct (Z.lt_trichotomy l (e + 1)) as [L|[E|G]]; [exfalso|exact E|exfalso].
  - assert (r ^ l <= r ^ e) by (apply Z.pow_le_mono_r; lia). lia.
  - assert (r ^ (e + 1) <= r ^ (l - 1)) by (apply Z.pow_le_mono_r; lia). lia.
Qed.

Lemma digits_len_blen n : 0 < n -> len (digits_spec r n) <= blen n.
Proof.
  intros Hn.
  pose proof (canonical_len_value r r_ge_2 _ (digits_spec_canonical r r_ge_2 n ltac:(lia))) as H.
  rewrite (digits_spec_value r r_ge_2 n ltac:(lia)) in H. specialize (H ltac:(lia)).
  set (l := len (digits_spec r n)) in *.
  destruct (blen_spec n Hn) as [_ Hb].
  assert (Hbl : 0 <= blen n) by (unfold blen; destruct (n <=? 0); [lia | pose proof (Z.log2_nonneg n); lia]).
  destruct (Z.le_gt_cases l (blen n)) as [L|G]; [exact L|exfalso].
  assert (2 ^ blen n <= 2 ^ (l - 1)) by (apply Z.pow_le_mono_r; lia).
  assert (2 ^ (l - 1) <= r ^ (l - 1)) by (apply Z.pow_le_mono_l; lia). lia.
Qed.

(** the [k] leading and the [k] trailing digits of a number with at least [k] digits *)
Lemma digits_head_tail e (k : nat) n : (0 < k)%nat -> Z.of_nat k <= e -> r ^ e <= n < r ^ (e + 1) ->
  let ds := digits_spec r n in
  firstn k ds = digits_spec r (n / r ^ (e + 1 - Z.of_nat k)) /\
  skipn (length ds - k) ds = digits_pad k r (n mod r ^ Z.of_nat k) /\
  r ^ (Z.of_nat k - 1) <= n / r ^ (e + 1 - Z.of_nat k) < r ^ Z.of_nat k.
Proof.
  intros Hk Hke Hn ds.
  assert (He : 0 <= e) by lia.
  set (j := e + 1 - Z.of_nat k) in *.
  assert (Pj : 0 < r ^ j) by (apply Z.pow_pos_nonneg; lia).
  assert (Ee : r ^ e = r ^ (Z.of_nat k - 1) * r ^ j) by (rewrite <- Z.pow_add_r by lia; f_equal; lia).
  assert (Ee1 : r ^ (e + 1) = r ^ Z.of_nat k * r ^ j) by (rewrite <- Z.pow_add_r by lia; f_equal; lia).
  assert (Hq : r ^ (Z.of_nat k - 1) <= n / r ^ j < r ^ Z.of_nat k).
  { split; [apply Z.div_le_lower_bound; lia | apply Z.div_lt_upper_bound; lia]. }
  assert (Pk1 : 0 < r ^ (Z.of_nat k - 1)) by (apply Z.pow_pos_nonneg; lia).
  assert (Lq : len (digits_spec r (n / r ^ j)) = Z.of_nat k).
  { rewrite (digits_len (Z.of_nat k - 1)); [lia | lia |]. replace (Z.of_nat k - 1 + 1) with (Z.of_nat k) by lia. exact Hq. }
  assert (Lds : len ds = e + 1) by (apply digits_len; assumption).
  split; [|split; [|exact Hq]].
  - assert (Hj : r ^ Z.of_nat (Z.to_nat j) <= n).
    { rewrite Z2Nat.id by lia. assert (r ^ j <= r ^ e) by (apply Z.pow_le_mono_r; lia). lia. }
    unfold ds. rewrite (digits_spec_divmod r r_ge_2 n (Z.to_nat j) Hj). rewrite Z2Nat.id by lia.
    rewrite firstn_app. replace (k - length (digits_spec r (n / r ^ j)))%nat with 0%nat by (unfold len in Lq; lia).
    cbn [firstn]. rewrite app_nil_r. apply firstn_all2. unfold len in Lq. lia.
  - assert (Hk' : r ^ Z.of_nat k <= n).
    { assert (r ^ Z.of_nat k <= r ^ e) by (apply Z.pow_le_mono_r; lia). lia. }
    unfold ds. rewrite (digits_spec_divmod r r_ge_2 n k Hk').
    rewrite app_length, digits_pad_length. replace (length (digits_spec r (n / r ^ Z.of_nat k)) + k - k)%nat
      with (length (digits_spec r (n / r ^ Z.of_nat k)) + 0)%nat by lia.
    rewrite skipn_app. rewrite Nat.add_0_r, skipn_all. cbn [app].
    replace (length (digits_spec r (n / r ^ Z.of_nat k)) - length (digits_spec r (n / r ^ Z.of_nat k)))%nat with 0%nat by lia.
    reflexivity.
Qed.
End Digits.

Lemma digits_pad_is_spec r k n : 2 <= r -> (0 < k)%nat -> r ^ (Z.of_nat k - 1) <= n < r ^ Z.of_nat k ->
  digits_pad k r n = digits_spec r n.
Proof.
  intros Hr Hk Hn. assert (0 < r ^ (Z.of_nat k - 1)) by (apply Z.pow_pos_nonneg; lia).
  apply (value_inj_same_len r Hr).
  - apply digits_pad_range. exact Hr.
  - apply digits_spec_range; [exact Hr | lia].
  - rewrite digits_pad_length. pose proof (digits_len r Hr (Z.of_nat k - 1) n ltac:(lia)) as L.
    replace (Z.of_nat k - 1 + 1) with (Z.of_nat k) in L by lia. specialize (L Hn). unfold len in L. lia.
  - rewrite digits_pad_value, digits_spec_value by lia. apply Z.mod_small. lia.
Qed.

(* ------------------------------------------------------------------------------------------ *)
(** * the Debug printer *)
Lemma Bw_256 w : 8 <= w -> 256 <= Bw w.
Proof. intros. unfold Bw. change 256 with (2 ^ 8). apply Z.pow_le_mono_r; lia. Qed.

Lemma blen_nonneg x : 0 <= blen x.
Proof. unfold blen. destruct (x <=? 0); [lia | pose proof (Z.log2_nonneg x); lia]. Qed.

Section Debug.
Variable w : Z.
Hypothesis w_ge : 8 <= w.
Variable ilog : Z -> Z.
Hypothesis ilog_ok : forall m, Bw w * Bw w <= m -> 0 <= ilog m /\ 10 ^ ilog m <= m < 10 ^ (ilog m + 1).
Variables dpw R : Z.
Hypothesis Hinfo : radix_info w 10 = (dpw, R).
Hypothesis dpw_pos : 0 < dpw.
Hypothesis HR : R = 10 ^ dpw.
Hypothesis R_lt_B : R < Bw w.
Hypothesis B_le : Bw w <= R * 10.

Let w_pos : 0 < w. Proof. lia. Qed.
Let r10 : 2 <= 10. Proof. lia. Qed.

Lemma dpw_ge_2 : 2 <= dpw.
Proof.
  destruct (Z.lt_ge_cases dpw 2) as [L|G]; [exfalso|exact G]. assert (dpw = 1) by lia. subst dpw.
  rewrite Z.pow_1_r in HR. pose proof (Bw_256 w w_ge). lia.
Qed.

Lemma R_ge_100 : 100 <= R.
Proof. rewrite HR. change 100 with (10 ^ 2). apply Z.pow_le_mono_r; [lia | apply dpw_ge_2]. Qed.

Lemma B_le_RR : Bw w <= R * R.
Proof. pose proof R_ge_100. nia. Qed.

Lemma usize_dec u : 0 <= u < Bw w -> write_usize_decimals w gen_dbg_lits u = dec_text u.
Proof.
  intros Hu. unfold write_usize_decimals, dec_text. change (dl_radix gen_dbg_lits) with 10.
  rewrite Z.mod_small by exact Hu. rewrite (prepared_word_top w 10 dpw r10 w_pos dpw_pos u Hu). reflexivity.
Qed.

Lemma verbose_ok m : 0 <= m -> blen m < Bw w ->
  let nd := if m =? 0 then 0 else len (digits_spec 10 m) in
  dl_open gen_dbg_lits ++ write_usize_decimals w gen_dbg_lits nd ++ dl_mid gen_dbg_lits
    ++ write_usize_decimals w gen_dbg_lits (blen m) ++ dl_close gen_dbg_lits = debug_verbose_spec m.
Proof.
  intros Hm Hb nd. unfold debug_verbose_spec. fold nd.
  assert (Hnd : 0 <= nd < Bw w).
  { unfold nd. destruct (Z.eqb_spec m 0); [pose proof (Bw_256 w w_ge); lia|].
    pose proof (digits_len_blen 10 r10 m ltac:(lia)). unfold len in *. lia. }
  rewrite (usize_dec nd Hnd), (usize_dec (blen m)) by (pose proof (blen_nonneg m); lia). reflexivity.
Qed.

Theorem debug_asis_correct_gen plus alt v : blen (Z.abs v) < Bw w ->
  debug_asis w gen_dbg_lits ilog plus alt v = Ok (debug_spec dpw (Bw w * Bw w) plus alt v).
Proof.
  intros Hbl. unfold debug_asis, debug_spec. change (dl_radix gen_dbg_lits) with 10. rewrite Hinfo.
  set (m := Z.abs v) in *. assert (Hm0 : 0 <= m) by (unfold m; lia).
  pose proof (Bw_256 w w_ge) as HB256. pose proof (verbose_ok m Hm0 Hbl) as Hverb. cbv zeta in Hverb.
  set (sg := if v <? 0 then [45] else if plus then [43] else []).
  assert (Hsg : (if v <? 0 then dl_minus gen_dbg_lits else if plus then dl_plus gen_dbg_lits else []) = sg) by reflexivity.
  destruct (Z.ltb_spec m (Bw w)) as [S1|S1].
  - (* one word *)
    destruct (Z.ltb_spec m (Bw w * Bw w)) as [_|G]; [|nia].
    rewrite (prepared_word_top w 10 dpw r10 w_pos dpw_pos m ltac:(lia)).
    unfold double_end_format. rewrite Hsg. f_equal. f_equal. f_equal. cbn [app].
    destruct alt; [|reflexivity]. exact Hverb.
  - destruct (Z.ltb_spec m (Bw w * Bw w)) as [S2|S2].
    + (* double word *)
      rewrite (prepared_dword_correct w 10 dpw R r10 w_pos Hinfo dpw_pos HR R_lt_B B_le_RR m ltac:(lia)).
      unfold double_end_format. rewrite Hsg. f_equal. f_equal. f_equal. cbn [app].
      destruct alt; [|reflexivity]. destruct (Z.eqb_spec m 0); [lia|]. exact Hverb.
    + (* large *)
      destruct (ilog_ok m S2) as (He0 & He). set (e := ilog m) in *.
      assert (HRR : R * R <= m) by (pose proof R_ge_100 as HBR; pose proof R_lt_B as HRB; clear - HBR HRB S2; nia).
      assert (Hdd : 2 * dpw < e + 1).
      { assert (E : R * R = 10 ^ (2 * dpw)) by (rewrite HR, <- Z.pow_add_r by lia; f_equal; lia).
        destruct (Z.lt_ge_cases (2 * dpw) (e + 1)) as [L|G]; [exact L|exfalso].
        assert (10 ^ (e + 1) <= 10 ^ (2 * dpw)) by (apply Z.pow_le_mono_r; lia). lia. }
      pose proof dpw_ge_2 as Hd2.
      set (j := e + 1 - dpw). assert (Hj : dpw + 1 <= j) by (unfold j; lia).
      assert (Edv : R / gen_dbg_pow_div = 10 ^ (dpw - 1)).
      { unfold gen_dbg_pow_div. rewrite HR. replace dpw with (dpw - 1 + 1) at 1 by lia.
        rewrite Z.pow_add_r, Z.pow_1_r by lia. apply Z.div_mul. lia. }
      change (dl_pow_div gen_dbg_lits) with gen_dbg_pow_div. rewrite Edv.
      assert (Pd : 0 < 10 ^ (dpw - 1)) by (apply Z.pow_pos_nonneg; lia).
      assert (Epow : 10 ^ e = 10 ^ j * 10 ^ (dpw - 1)) by (rewrite <- Z.pow_add_r by lia; f_equal; unfold j; lia).
      rewrite Epow, Z.mod_mul by lia. rewrite Z.eqb_refl. cbn [negb]. rewrite Z.div_mul by lia.
      set (pw := 10 ^ j).
      assert (Hpw : Bw w <= pw).
      { unfold pw. assert (10 ^ (dpw + 1) <= 10 ^ j) by (apply Z.pow_le_mono_r; lia).
        rewrite Z.pow_add_r, Z.pow_1_r, <- HR in H by lia. lia. }
      destruct (Z.ltb_spec pw (Bw w)) as [C|_]; [lia|].
      assert (Ppw : 0 < pw) by lia.
      destruct (wlen_bounds w pw w_pos Ppw) as (Hk & Hk1 & Hk2). set (k := wlen w pw) in *.
      destruct (blen_spec pw Ppw) as [Hb1 Hb2].
      set (s := w * k - blen pw). assert (Hs : 0 <= s < w) by (unfold s; lia).
      assert (Hbp : 0 < blen pw) by (pose proof (blen_nonneg pw); destruct (Z.eq_dec (blen pw) 0) as [E|]; [rewrite E in Hb2; cbn in Hb2; lia | lia]).
      assert (P2s : 0 < 2 ^ s) by (apply pow2_pos; lia).
      assert (Hpn : 2 ^ (w * k - 1) <= pw * 2 ^ s < 2 ^ (w * k)).
      { replace (w * k - 1) with (blen pw - 1 + s) by (unfold s; lia). replace (w * k) with (blen pw + s) by (unfold s; lia).
        rewrite !Z.pow_add_r by lia. clear - Hb1 Hb2 P2s. nia. }
      (* the quotient *)
      assert (Hkd : Z.of_nat (Z.to_nat dpw) = dpw) by lia.
      destruct (digits_head_tail 10 r10 e (Z.to_nat dpw) m ltac:(lia) ltac:(lia) He) as (Hhead & Htail & Hq).
      rewrite Hkd in Hhead, Hq. fold j in Hhead, Hq. fold pw in Hhead, Hq. set (q := m / pw) in *.
      assert (Hq2 : 2 <= q).
      { assert (10 ^ 1 <= 10 ^ (dpw - 1)) by (apply Z.pow_le_mono_r; lia). rewrite Z.pow_1_r in H. lia. }
      assert (Hq1 : q + 1 <= 2 ^ w) by (fold (Bw w); rewrite <- HR in Hq; lia).
      assert (Hqm : q * pw <= m < (q + 1) * pw).
      { unfold q. pose proof (Z.mul_div_le m pw Ppw). pose proof (Z.mul_succ_div_gt m pw Ppw). lia. }
      assert (Pm : 0 < m) by lia.
      destruct (wlen_bounds w m w_pos Pm) as (HL & HL1 & HL2). set (Lm := wlen w m) in *.
      destruct (blen_spec m Pm) as [Hm1 Hm2].
      assert (HmL : 2 ^ (w * (Lm - 1)) <= m < 2 ^ (w * Lm)).
      { split.
        - assert (2 ^ (w * (Lm - 1)) <= 2 ^ (blen m - 1)) by (apply Z.pow_le_mono_r; lia). lia.
        - assert (2 ^ blen m <= 2 ^ (w * Lm)) by (apply Z.pow_le_mono_r; lia). lia. }
      destruct (highest_word_arith w k s Lm m pw q w_pos Hk Hs HL Hpn Hq2 Hq1 Hqm HmL) as (Hlo & Hbd).
      assert (EB : forall n, 0 <= n -> Bw w ^ n = 2 ^ (w * n)) by (intros n Hn; unfold Bw; rewrite Z.pow_mul_r by lia; reflexivity).
      rewrite (EB Lm) by lia. rewrite Hlo. rewrite Z.ltb_irrefl.
      replace (k + 1 - k) with 1 by lia. rewrite Z.sub_diag, Z.pow_1_r, Z.pow_0_r, Z.div_1_r.
      assert (Ppn : 0 < pw * 2 ^ s) by (apply Z.mul_pos_pos; assumption).
      destruct (Z.ltb_spec (pw * 2 ^ s) (m * 2 ^ s / Bw w)) as [C|_].
      { exfalso. assert (m * 2 ^ s / Bw w < pw * 2 ^ s) by (apply Z.div_lt_upper_bound; [unfold Bw; lia | exact Hbd]). lia. }
      rewrite Z.div_mul_cancel_r by lia. fold q.
      (* texts *)
      rewrite (prepared_word_pad w 10 dpw R r10 w_pos Hinfo dpw_pos HR R_lt_B B_le_RR q ltac:(rewrite HR; lia)).
      rewrite (prepared_word_pad w 10 dpw R r10 w_pos Hinfo dpw_pos HR R_lt_B B_le_RR (m mod R) ltac:(apply Z.mod_pos_bound; lia)).
      rewrite (digits_pad_is_spec 10 (Z.to_nat dpw) q r10 ltac:(lia) ltac:(rewrite Hkd; exact Hq)).
      rewrite <- Hhead. replace R with (10 ^ Z.of_nat (Z.to_nat dpw)) at 1 by (rewrite Hkd; symmetry; exact HR).
      rewrite <- Htail.
      unfold double_end_format. rewrite Hsg. f_equal. f_equal.
      change (dl_dots gen_dbg_lits) with [46; 46]. rewrite <- !app_assoc. f_equal. f_equal. f_equal.
      destruct alt; [|reflexivity]. destruct (Z.eqb_spec m 0); [lia|].
      rewrite <- (digits_len 10 r10 e m He0 He). exact Hverb.
Qed.
End Debug.

(** closed form: every even word size >= 8 *)
Theorem debug_asis_correct w ilog plus alt v : 8 <= w -> w mod 2 = 0 ->
  (forall m, Bw w * Bw w <= m -> 0 <= ilog m /\ 10 ^ ilog m <= m < 10 ^ (ilog m + 1)) ->
  blen (Z.abs v) < Bw w ->
  debug_asis w gen_dbg_lits ilog plus alt v = Ok (debug_spec (fst (radix_info w 10)) (Bw w * Bw w) plus alt v).
Proof.
  intros Hw He Hlog Hb.
  assert (H10 : 10 < Bw w) by (pose proof (Bw_256 w Hw); lia).
  destruct (radix_info_ok w 10 ltac:(lia) He ltac:(lia) H10) as (dpw & R & Hinfo & Hd & HR & Hlt & Hle).
  rewrite Hinfo. cbn [fst]. apply (debug_asis_correct_gen w Hw ilog Hlog dpw R Hinfo Hd HR Hlt Hle). exact Hb.
Qed.

(** the exact logarithm used by the extraction meets the contract *)
Lemma ilog_exact_ok m : 1 <= m -> 0 <= ilog_exact 10 m /\ 10 ^ ilog_exact 10 m <= m < 10 ^ (ilog_exact 10 m + 1).
Proof.
  intros Hm. unfold ilog_exact.
  pose proof (canonical_len_value 10 ltac:(lia) _ (digits_spec_canonical 10 ltac:(lia) m ltac:(lia))) as H.
  rewrite (digits_spec_value 10 ltac:(lia) m ltac:(lia)) in H. specialize (H ltac:(lia)).
  set (l := len (digits_spec 10 m)) in *. replace (l - 1 + 1) with l by lia.
  split; [|exact H]. destruct (Z.le_gt_cases 1 l) as [L|G]; [lia|exfalso].
  assert (l <= 0) by lia. assert (10 ^ l <= 10 ^ 0) by (apply Z.pow_le_mono_r; unfold l, len in *; lia). rewrite Z.pow_0_r in H1. lia.
Qed.

Corollary debug_asis_exact w plus alt v : 8 <= w -> w mod 2 = 0 -> blen (Z.abs v) < Bw w ->
  debug_asis w gen_dbg_lits (ilog_exact 10) plus alt v = Ok (debug_spec (fst (radix_info w 10)) (Bw w * Bw w) plus alt v).
Proof.
  intros Hw He Hb. apply debug_asis_correct; try assumption. intros m Hm. apply ilog_exact_ok.
  pose proof (Bw_256 w Hw). nia.
Qed.

(** the specification itself: what is shown are digits of the number - the head and the tail of its positional
    representation, the true digit count and bit length *)
Example debug_spec_ex1 : debug_spec 19 (2 ^ 128) false false (- (10 ^ 40 + 7)) =
  [45] ++ map (digit_char false) (1 :: repeat 0 18) ++ [46; 46] ++ map (digit_char false) (repeat 0 18 ++ [7]).
Proof. vm_compute. reflexivity. Qed.
Example debug_asis_ex1 : debug_asis 64 gen_dbg_lits (ilog_exact 10) true true (10 ^ 40 + 7) =
  Ok ([43] ++ map (digit_char false) (1 :: repeat 0 18) ++ [46; 46] ++ map (digit_char false) (repeat 0 18 ++ [7])
      ++ [32; 40; 100; 105; 103; 105; 116; 115; 58; 32; 52; 49; 44; 32; 98; 105; 116; 115; 58; 32; 49; 51; 51; 41]).
Proof. vm_compute. reflexivity. Qed.
Example debug_asis_ex0 : debug_asis 64 gen_dbg_lits (ilog_exact 10) false true 0 =
  Ok ([48; 32; 40; 100; 105; 103; 105; 116; 115; 58; 32; 48; 44; 32; 98; 105; 116; 115; 58; 32; 48; 41]).
Proof. vm_compute. reflexivity. Qed.

(** the hypothesis on the logarithm is the certificate C12 proves for log_word_base
    (C12_log_word_base_asis_correct: any Ok result (e, p) satisfies ilog_cert target base e = true) *)
From Dashu Require Import Int.GrlSpec.
Lemma ilog_cert_contract m e : 0 <= m -> ilog_cert m 10 e = true -> 0 <= e /\ 10 ^ e <= m < 10 ^ (e + 1).
Proof.
  intros Hm H. unfold ilog_cert in H. rewrite Z.abs_eq in H by exact Hm.
  apply andb_prop in H. destruct H as [H H3]. apply andb_prop in H. destruct H as [H1 H2].
  apply Z.leb_le in H1. apply Z.leb_le in H2. apply Z.ltb_lt in H3. lia.
Qed.

Corollary debug_asis_c12 w ilog plus alt v : 8 <= w -> w mod 2 = 0 ->
  (forall m, Bw w * Bw w <= m -> ilog_cert m 10 (ilog m) = true) ->
  blen (Z.abs v) < Bw w ->
  debug_asis w gen_dbg_lits ilog plus alt v = Ok (debug_spec (fst (radix_info w 10)) (Bw w * Bw w) plus alt v).
Proof.
  intros Hw He Hc Hb. apply debug_asis_correct; try assumption. intros m Hm. apply ilog_cert_contract; [|apply Hc; exact Hm].
  pose proof (Bw_256 w Hw). nia.
Qed.
