(** C09: the shift kernels of shift.rs (shl_in_place, shr_in_place with its carries) and of
    shift_ops.rs mod repr (shl_dword and its spill paths, shl_large / shl_large_ref, shr_dword,
    shr_large / shr_large_ref), the low-bit tests are_dword_low_bits_nonzero /
    are_slice_low_bits_nonzero, and Shr for IBig through the regenerated sign table:
    magnitudes are shifted exactly as Z.shiftl / Z.shiftr, IBig >> n is floor division by 2^n -
    for every word size. *)
From Dashu Require Import Base.Prelude Base.Words Int.BitsSpec Int.BitsSign Int.BitsWords Int.BitsKernels Int.BitsKernelsBase.
From DashuGen Require Import SignTables.
Open Scope Z_scope.

Section Shift.
Variable w : Z.
Hypothesis w_pos : 0 < w.
Notation B := (B w).
Notation value := (value w).
Notation wf := (wf w).

Lemma B_split s : 0 <= s <= w -> B = 2 ^ s * 2 ^ (w - s).
Proof. intros Hs. rewrite (B_pow w), <- Z.pow_add_r by lia. f_equal. lia. Qed.

Lemma pow_pos_2 k : 0 <= k -> 0 < 2 ^ k.
Proof. intros. apply Z.pow_pos_nonneg; lia. Qed.

Lemma multiple_k c m : 0 < m -> c mod m = 0 -> c = m * (c / m).
Proof. intros Hm Hc. pose proof (Z.div_mod c m ltac:(lia)). lia. Qed.

Lemma mod_of_multiple m k : 0 < m -> (m * k) mod m = 0.
Proof. intros Hm. rewrite Z.mul_comm. apply Z.mod_mul. lia. Qed.

(** the low part of a multiple of m modulo a multiple of m is a multiple of m *)
Lemma mod_keeps_multiple d m q : 0 < m -> 0 < q -> d mod m = 0 -> (d mod (m * q)) mod m = 0.
Proof.
  intros Hm Hq Hd. rewrite (multiple_k d m Hm Hd) at 1.
  rewrite Z.mul_mod_distr_l by lia. apply mod_of_multiple. exact Hm.
Qed.

(* ---------------------------------------------------------------- shl_in_place *)

Lemma shl_loop_ok s : 0 <= s < w -> forall ws carry, wf ws -> 0 <= carry < 2 ^ s ->
  let '(r, c) := shl_loop w s ws carry in
  wf r /\ length r = length ws /\ value r + B ^ len ws * c = value ws * 2 ^ s + carry /\ 0 <= c < 2 ^ s.
Proof.
  intros Hs. pose proof (B_pos w w_pos) as HB. pose proof (pow_pos_2 s ltac:(lia)) as Hp.
  pose proof (pow_pos_2 (w - s) ltac:(lia)) as Hq. pose proof (B_split s ltac:(lia)) as HBs.
  induction ws as [|x r IH]; intros carry Hw Hc.
  - cbn [shl_loop]. unfold len. cbn [length Z.of_nat Words.value]. rewrite Z.pow_0_r.
    repeat split; try constructor; lia.
  - apply wf_cons in Hw. destruct Hw as [Hx Hr]. cbn [shl_loop].
    rewrite Z.shiftl_mul_pow2 by lia. set (d := x * 2 ^ s).
    assert (Hd : 0 <= d < B * 2 ^ s) by (unfold d; nia).
    assert (Hdq : 0 <= d / B < 2 ^ s) by (split; [apply Z.div_pos; lia | apply Z.div_lt_upper_bound; lia]).
    assert (Hdm : 0 <= d mod B < B) by (apply Z.mod_pos_bound; lia).
    assert (Hmul : (d mod B) mod 2 ^ s = 0).
    { rewrite HBs. apply mod_keeps_multiple; [lia | lia |]. unfold d. rewrite Z.mul_comm. apply mod_of_multiple. lia. }
    specialize (IH (d / B) Hr Hdq). destruct (shl_loop w s r (d / B)) as [r' c]. destruct IH as (W & L & V & C).
    rewrite (lor_disjoint (d mod B) carry s) by (assumption || lia).
    pose proof (multiple_k (d mod B) (2 ^ s) Hp Hmul) as Hk. set (k := (d mod B) / 2 ^ s) in *.
    split; [|split; [|split]].
    + apply wf_cons. split; [|exact W].
      assert (Hkq : k < 2 ^ (w - s)) by (rewrite Hk, HBs in Hdm; nia).
      rewrite Hk. rewrite HBs. nia.
    + cbn [length]. lia.
    + unfold len in *. cbn [length Words.value]. rewrite Nat2Z.inj_succ, Z.pow_succ_r by lia.
      assert (E : value r' = value r * 2 ^ s + d / B - B ^ Z.of_nat (length r) * c) by lia.
      rewrite E. pose proof (Z.div_mod d B ltac:(lia)) as Hdd.
      assert (Hd' : x * 2 ^ s = d) by reflexivity. clearbody d. lia.
    + exact C.
Qed.

Theorem shl_in_place_correct ws s : 0 <= s < w -> wf ws ->
  let '(r, c) := shl_in_place w ws s in
  wf r /\ length r = length ws /\ value r + B ^ len ws * c = value ws * 2 ^ s /\ 0 <= c < B.
Proof.
  intros Hs Hw. unfold shl_in_place. pose proof (B_pos w w_pos) as HB. destruct (Z.eqb_spec s 0) as [->|Hne].
  - rewrite Z.pow_0_r. repeat split; try assumption; lia.
  - pose proof (shl_loop_ok s Hs ws 0 Hw) as H. pose proof (pow_pos_2 s ltac:(lia)) as Hp.
    specialize (H ltac:(lia)). destruct (shl_loop w s ws 0) as [r c]. destruct H as (W & L & V & C).
    repeat split; try assumption; try lia.
    assert (2 ^ s < 2 ^ w) by (apply Z.pow_lt_mono_r; lia). rewrite (B_pow w). lia.
Qed.

(* ---------------------------------------------------------------- shl on magnitudes *)

Lemma rhs_split rhs : 0 <= rhs -> 2 ^ rhs = B ^ (rhs / w) * 2 ^ (rhs mod w).
Proof.
  intros Hr. pose proof (Z.div_pos rhs w Hr w_pos). pose proof (Z.mod_pos_bound rhs w w_pos).
  rewrite (Bpow_pow w) by lia. rewrite <- Z.pow_add_r by nia. f_equal. apply Z.div_mod. lia.
Qed.

Lemma value_zeros_app n ws : value (repeat 0 n ++ ws) = B ^ Z.of_nat n * value ws.
Proof. rewrite value_app, value_repeat_zero, len_repeat. lia. Qed.

Lemma wf_zeros_app n ws : wf ws -> wf (repeat 0 n ++ ws).
Proof. intros H. apply wf_app. split; [apply wf_repeat_zero; exact w_pos | exact H]. Qed.

Lemma shl_buffer_ok ws rhs : 0 <= rhs -> wf ws ->
  let '(r, c) := shl_in_place w ws (rhs mod w) in
  wf (repeat 0 (Z.to_nat (rhs / w)) ++ (r ++ [c])) /\
  value (repeat 0 (Z.to_nat (rhs / w)) ++ (r ++ [c])) = Z.shiftl (value ws) rhs.
Proof.
  intros Hr Hw. pose proof (Z.mod_pos_bound rhs w w_pos) as Hm. pose proof (Z.div_pos rhs w Hr w_pos) as Hd.
  pose proof (shl_in_place_correct ws (rhs mod w) Hm Hw) as H.
  destruct (shl_in_place w ws (rhs mod w)) as [r c]. destruct H as (W & L & V & C). split.
  - apply wf_zeros_app. apply wf_app. split; [exact W | apply wf_cons; split; [exact C | constructor]].
  - rewrite value_zeros_app, value_app. cbn [Words.value]. rewrite Z2Nat.id by lia.
    rewrite Z.shiftl_mul_pow2 by lia. rewrite (rhs_split rhs Hr).
    unfold len in *. rewrite L. nia.
Qed.

Theorem shl_large_ref_correct ws rhs : 0 <= rhs -> wf ws ->
  bvalue w (shl_large_ref w ws rhs) = Z.shiftl (value ws) rhs /\ brepr_ok w (shl_large_ref w ws rhs).
Proof.
  intros Hr Hw. unfold shl_large_ref. pose proof (shl_buffer_ok ws rhs Hr Hw) as H.
  destruct (shl_in_place w ws (rhs mod w)) as [r c]. rewrite <- app_assoc. destruct H as [W V].
  destruct (from_buffer_ok w w_pos _ W) as [V' K]. split; [rewrite V'; exact V | exact K].
Qed.

(** both outcomes of the capacity test of shl_large give the same result *)
Theorem shl_large_correct cap buf rhs : 0 <= rhs -> wf buf ->
  bvalue w (shl_large w cap buf rhs) = Z.shiftl (value buf) rhs /\ brepr_ok w (shl_large w cap buf rhs).
Proof.
  intros Hr Hw. unfold shl_large. destruct cap; cbn [negb]; [|apply shl_large_ref_correct; assumption].
  pose proof (shl_buffer_ok buf rhs Hr Hw) as H.
  destruct (shl_in_place w buf (rhs mod w)) as [r c]. destruct H as [W V].
  destruct (from_buffer_ok w w_pos _ W) as [V' K]. split; [rewrite V'; exact V | exact K].
Qed.

Theorem shl_large_capacity_irrelevant buf rhs : shl_large w true buf rhs = shl_large w false buf rhs.
Proof.
  unfold shl_large, shl_large_ref. cbn [negb]. destruct (shl_in_place w buf (rhs mod w)) as [r c].
  rewrite <- app_assoc. reflexivity.
Qed.

Lemma shl_one_spilled_correct rhs : 0 <= rhs ->
  bvalue w (shl_one_spilled w rhs) = Z.shiftl 1 rhs /\ brepr_ok w (shl_one_spilled w rhs).
Proof.
  intros Hr. unfold shl_one_spilled. pose proof (Z.mod_pos_bound rhs w w_pos) as Hm.
  pose proof (Z.div_pos rhs w Hr w_pos) as Hd. rewrite !(shiftl_1) by lia.
  assert (W : wf (repeat 0 (Z.to_nat (rhs / w)) ++ [2 ^ (rhs mod w)])).
  { apply wf_zeros_app. apply wf_cons. split; [apply (pow_word_bit w); lia | constructor]. }
  destruct (from_buffer_ok w w_pos _ W) as [V K]. split; [|exact K].
  rewrite V, value_zeros_app. cbn [Words.value]. rewrite Z2Nat.id by lia. rewrite (rhs_split rhs Hr). lia.
Qed.

Lemma math_shl_dword_ok dw s : 0 <= s < w -> 0 <= dw < B * B ->
  let '(n0, n1, n2) := math_shl_dword w dw s in
  wf [n0; n1; n2] /\ value [n0; n1; n2] = dw * 2 ^ s.
Proof.
  intros Hs Hd. pose proof (B_pos w w_pos) as HB. pose proof (pow_pos_2 s ltac:(lia)) as Hp.
  unfold math_shl_dword. rewrite !Z.shiftl_mul_pow2 by lia.
  set (lo := dw mod B). set (hi := dw / B).
  assert (Hlo : 0 <= lo < B) by (apply Z.mod_pos_bound; lia).
  assert (Hhi : 0 <= hi < B) by (split; [apply Z.div_pos; lia | apply Z.div_lt_upper_bound; lia]).
  assert (Hdw : dw = B * hi + lo) by (apply Z.div_mod; lia).
  set (d0 := lo * 2 ^ s).
  assert (Hc : 0 <= d0 / B < 2 ^ s) by (split; [apply Z.div_pos; nia | apply Z.div_lt_upper_bound; nia]).
  rewrite (lor_disjoint (hi * 2 ^ s) (d0 / B) s) by (try assumption; try lia; rewrite Z.mul_comm; apply mod_of_multiple; lia).
  set (d1 := hi * 2 ^ s + d0 / B).
  assert (Hd1 : 0 <= d1 < B * 2 ^ s) by (unfold d1; nia).
  assert (2 ^ s < B) by (rewrite (B_pow w); apply Z.pow_lt_mono_r; lia).
  assert (H0 : 0 <= d0 mod B < B) by (apply Z.mod_pos_bound; lia).
  assert (H1 : 0 <= d1 mod B < B) by (apply Z.mod_pos_bound; lia).
  assert (H2 : 0 <= d1 / B < B) by (split; [apply Z.div_pos; lia | apply Z.div_lt_upper_bound; nia]).
  split; [repeat (apply wf_cons; split; [assumption|]); constructor|].
  cbn [Words.value]. pose proof (Z.div_mod d0 B ltac:(lia)). pose proof (Z.div_mod d1 B ltac:(lia)).
  unfold d1, d0 in *. nia.
Qed.

Lemma shl_dword_spilled_correct dw rhs : 0 <= rhs -> 0 <= dw < B * B ->
  bvalue w (shl_dword_spilled w dw rhs) = Z.shiftl dw rhs /\ brepr_ok w (shl_dword_spilled w dw rhs).
Proof.
  intros Hr Hd. unfold shl_dword_spilled. pose proof (Z.mod_pos_bound rhs w w_pos) as Hm.
  pose proof (Z.div_pos rhs w Hr w_pos) as Hq.
  pose proof (math_shl_dword_ok dw (rhs mod w) Hm Hd) as H.
  destruct (math_shl_dword w dw (rhs mod w)) as [[n0 n1] n2]. destruct H as [W V].
  pose proof (wf_zeros_app (Z.to_nat (rhs / w)) _ W) as W'.
  destruct (from_buffer_ok w w_pos _ W') as [V' K]. split; [|exact K].
  rewrite V', value_zeros_app, V, Z2Nat.id by lia. rewrite Z.shiftl_mul_pow2 by lia. rewrite (rhs_split rhs Hr). ring.
Qed.

Theorem shl_dword_correct dw rhs : 0 <= rhs -> 0 < dw < B * B ->
  bvalue w (shl_dword w dw rhs) = Z.shiftl dw rhs /\ brepr_ok w (shl_dword w dw rhs).
Proof.
  intros Hr Hd. unfold shl_dword. destruct (Z.leb_spec rhs (dword_lz w dw)) as [C|C].
  - unfold from_dword. cbn [bvalue brepr_ok]. split; [reflexivity|]. rewrite Z.shiftl_mul_pow2 by lia.
    unfold dword_lz, bit_len_spec in C. destruct (Z.eqb_spec dw 0); [lia|]. rewrite Z.abs_eq in C by lia.
    pose proof (Z.log2_spec dw ltac:(lia)) as [_ L]. pose proof (pow_pos_2 rhs Hr).
    split; [nia|]. rewrite (BB_pow w w_pos).
    apply Z.lt_le_trans with (2 ^ Z.succ (Z.log2 dw) * 2 ^ rhs); [nia|].
    rewrite <- Z.pow_add_r by (pose proof (Z.log2_nonneg dw); lia). apply Z.pow_le_mono_r; lia.
  - destruct (Z.eqb_spec dw 1) as [->|Hne]; [apply shl_one_spilled_correct; exact Hr|].
    apply shl_dword_spilled_correct; lia.
Qed.

Theorem repr_shl_correct cap r rhs : 0 <= rhs -> brepr_ok w r ->
  bvalue w (repr_shl w cap r rhs) = Z.shiftl (bvalue w r) rhs /\ brepr_ok w (repr_shl w cap r rhs).
Proof.
  intros Hr Hk. pose proof (B_pos w w_pos) as HB. destruct r as [d|b]; cbn [repr_shl bvalue].
  - cbn [brepr_ok] in Hk. destruct (Z.eqb_spec d 0) as [->|Hne].
    + cbn [bvalue brepr_ok]. rewrite Z.shiftl_0_l. split; [reflexivity | nia].
    + apply shl_dword_correct; lia.
  - destruct Hk as (W & _). apply shl_large_correct; assumption.
Qed.

Theorem repr_shl_ref_correct r rhs : 0 <= rhs -> brepr_ok w r ->
  bvalue w (repr_shl_ref w r rhs) = Z.shiftl (bvalue w r) rhs /\ brepr_ok w (repr_shl_ref w r rhs).
Proof.
  intros Hr Hk. pose proof (B_pos w w_pos) as HB. destruct r as [d|b]; cbn [repr_shl_ref bvalue].
  - cbn [brepr_ok] in Hk. destruct (Z.eqb_spec d 0) as [->|Hne].
    + cbn [bvalue brepr_ok]. rewrite Z.shiftl_0_l. split; [reflexivity | nia].
    + apply shl_dword_correct; lia.
  - destruct Hk as (W & _). apply shl_large_ref_correct; assumption.
Qed.

(* ---------------------------------------------------------------- shr_in_place *)

Lemma shr_word_ok x s : 0 < s < w -> 0 <= x < B ->
  let '(nw, nc) := shr_word w x s in
  0 <= nw < 2 ^ (w - s) /\ 0 <= nc < B /\ nc mod 2 ^ (w - s) = 0 /\ nw * B + nc = x * 2 ^ (w - s).
Proof.
  intros Hs Hx. pose proof (B_pos w w_pos) as HB. pose proof (pow_pos_2 s ltac:(lia)) as Hp.
  pose proof (pow_pos_2 (w - s) ltac:(lia)) as Hq. pose proof (B_split s ltac:(lia)) as HBs.
  unfold shr_word. rewrite Z.shiftr_div_pow2 by lia.
  assert (E : B * x / 2 ^ s = x * 2 ^ (w - s)).
  { rewrite HBs. replace (2 ^ s * 2 ^ (w - s) * x) with (x * 2 ^ (w - s) * 2 ^ s) by ring. apply Z.div_mul. lia. }
  rewrite E. set (d := x * 2 ^ (w - s)).
  assert (Hd : 0 <= d < B * 2 ^ (w - s)) by (unfold d; nia).
  split; [split; [apply Z.div_pos; lia | apply Z.div_lt_upper_bound; lia]|].
  split; [apply Z.mod_pos_bound; lia|]. split.
  - rewrite HBs, (Z.mul_comm (2 ^ s)). apply mod_keeps_multiple; [lia | lia |].
    unfold d. rewrite Z.mul_comm. apply mod_of_multiple. lia.
  - pose proof (Z.div_mod d B ltac:(lia)). lia.
Qed.

Lemma shr_loop_ok s : 0 < s < w -> forall ws carry, wf ws -> 0 <= carry < B -> carry mod 2 ^ (w - s) = 0 ->
  let '(r, c) := shr_loop w s ws carry in
  wf r /\ length r = length ws /\ value r * B + c = value ws * 2 ^ (w - s) + carry * B ^ len ws /\
  0 <= c < B /\ c mod 2 ^ (w - s) = 0.
Proof.
  intros Hs. pose proof (B_pos w w_pos) as HB. pose proof (pow_pos_2 s ltac:(lia)) as Hp.
  pose proof (pow_pos_2 (w - s) ltac:(lia)) as Hq. pose proof (B_split s ltac:(lia)) as HBs.
  induction ws as [|x r IH]; intros carry Hw Hc Hcm.
  - cbn [shr_loop]. unfold len. cbn [length Z.of_nat Words.value]. rewrite Z.pow_0_r.
    repeat split; try constructor; try lia; try exact Hcm.
  - apply wf_cons in Hw. destruct Hw as [Hx Hr]. cbn [shr_loop].
    specialize (IH carry Hr Hc Hcm). destruct (shr_loop w s r carry) as [r' c1]. destruct IH as (W & L & V & C & Cm).
    pose proof (shr_word_ok x s Hs Hx) as Hsw. destruct (shr_word w x s) as [nw nc]. destruct Hsw as (Hnw & Hnc & Hncm & E).
    rewrite Z.lor_comm. rewrite (lor_disjoint c1 nw (w - s)) by (assumption || lia).
    pose proof (multiple_k c1 (2 ^ (w - s)) Hq Cm) as Hk. set (k := c1 / 2 ^ (w - s)) in *.
    split; [|split; [|split; [|split]]].
    + apply wf_cons. split; [|exact W].
      assert (Hks : k < 2 ^ s) by (rewrite Hk, HBs in C; nia).
      rewrite Hk. rewrite HBs. nia.
    + cbn [length]. lia.
    + unfold len in *. cbn [length Words.value]. rewrite Nat2Z.inj_succ, Z.pow_succ_r by lia.
      assert (E' : value r' * B = value r * 2 ^ (w - s) + carry * B ^ Z.of_nat (length r) - c1) by lia.
      replace ((c1 + nw + B * value r') * B + nc) with (c1 * B + (nw * B + nc) + B * (value r' * B)) by ring.
      rewrite E', E. ring.
    + exact Hnc.
    + exact Hncm.
Qed.

Theorem shr_in_place_correct ws s : 0 <= s <= w -> wf ws ->
  let '(r, c) := shr_in_place w ws s in
  wf r /\ length r = length ws /\ value r = value ws / 2 ^ s.
Proof.
  intros Hs Hw. pose proof (B_pos w w_pos) as HB. unfold shr_in_place.
  destruct (Z.eqb_spec s w) as [->|Hne].
  - unfold shr_in_place_one_word. destruct ws as [|x r].
    + split; [constructor|]. split; [reflexivity|]. cbn [Words.value]. rewrite Z.div_0_l; [reflexivity | apply Z.pow_nonzero; lia].
    + apply wf_cons in Hw. destruct Hw as [Hx Hr]. split; [|split].
      * apply wf_app. split; [exact Hr | apply wf_cons; split; [lia | constructor]].
      * rewrite app_length. cbn [length]. lia.
      * rewrite value_app. cbn [Words.value]. rewrite <- (B_pow w).
        rewrite <- (Z.div_unique_pos (x + B * value r) B (value r) x) by lia. lia.
  - unfold shr_in_place_with_carry. destruct (Z.eqb_spec s 0) as [->|Hne0].
    + rewrite Z.pow_0_r, Z.div_1_r. repeat split; assumption.
    + pose proof (shr_loop_ok s ltac:(lia) ws 0 Hw ltac:(lia) (Z.mod_0_l (2 ^ (w - s)) ltac:(apply Z.pow_nonzero; lia))) as H.
      destruct (shr_loop w s ws 0) as [r c]. destruct H as (W & L & V & C & Cm).
      split; [exact W|]. split; [exact L|].
      pose proof (pow_pos_2 s ltac:(lia)) as Hp. pose proof (pow_pos_2 (w - s) ltac:(lia)) as Hq.
      pose proof (B_split s ltac:(lia)) as HBs.
      pose proof (multiple_k c (2 ^ (w - s)) Hq Cm) as Hk. set (k := c / 2 ^ (w - s)) in *.
      assert (Hks : 0 <= k < 2 ^ s) by (rewrite Hk, HBs in C; nia).
      apply Z.div_unique_pos with (r := k); [exact Hks|].
      rewrite Z.mul_0_l, Z.add_0_r, Hk, HBs in V.
      assert (V' : 2 ^ (w - s) * (value r * 2 ^ s + k) = 2 ^ (w - s) * value ws) by lia.
      apply Z.mul_reg_l in V'; lia.
Qed.

(* ---------------------------------------------------------------- shr on magnitudes *)

Lemma value_skipn_div k ws : wf ws -> value (skipn k ws) = value ws / B ^ len (firstn k ws).
Proof.
  intros Hw. pose proof (B_pos w w_pos) as HB. rewrite (value_firstn_skipn w k ws) at 1.
  pose proof (value_bounds w w_pos (firstn k ws) (wf_firstn w k ws Hw)) as Hb.
  assert (0 < B ^ len (firstn k ws)) by (apply Z.pow_pos_nonneg; unfold len; lia).
  rewrite Z.mul_comm, Z.div_add by lia. rewrite Z.div_small by lia. lia.
Qed.

Lemma shr_words_bits ws rhs : 0 <= rhs -> wf ws -> rhs / w < len ws ->
  value (skipn (Z.to_nat (rhs / w)) ws) / 2 ^ (rhs mod w) = Z.shiftr (value ws) rhs.
Proof.
  intros Hr Hw Hl. pose proof (Z.mod_pos_bound rhs w w_pos) as Hm. pose proof (Z.div_pos rhs w Hr w_pos) as Hd.
  pose proof (B_pos w w_pos) as HB.
  rewrite value_skipn_div by assumption. rewrite Z.shiftr_div_pow2 by lia. rewrite (rhs_split rhs Hr).
  assert (E : len (firstn (Z.to_nat (rhs / w)) ws) = rhs / w).
  { unfold len in *. rewrite firstn_length. lia. }
  rewrite E. rewrite Z.div_div; [reflexivity | apply Z.pow_nonzero; lia | apply pow_pos_2; lia].
Qed.

Lemma shr_beyond ws rhs : 0 <= rhs -> wf ws -> len ws <= rhs / w -> Z.shiftr (value ws) rhs = 0.
Proof.
  intros Hr Hw Hl. pose proof (Z.mod_pos_bound rhs w w_pos) as Hm. pose proof (B_pos w w_pos) as HB.
  rewrite Z.shiftr_div_pow2 by lia. apply Z.div_small.
  pose proof (value_bounds w w_pos ws Hw) as Hb. split; [lia|].
  apply Z.lt_le_trans with (B ^ len ws); [lia|]. rewrite (rhs_split rhs Hr).
  assert (B ^ len ws <= B ^ (rhs / w)) by (apply Z.pow_le_mono_r; unfold len in *; lia).
  pose proof (pow_pos_2 (rhs mod w) ltac:(lia)). nia.
Qed.

Theorem shr_large_correct buf rhs : 0 <= rhs -> wf buf ->
  bvalue w (shr_large w buf rhs) = Z.shiftr (value buf) rhs /\ brepr_ok w (shr_large w buf rhs).
Proof.
  intros Hr Hw. pose proof (B_pos w w_pos) as HB. unfold shr_large.
  pose proof (Z.mod_pos_bound rhs w w_pos) as Hm.
  destruct (Z.geb_spec (rhs / w) (len buf)) as [C|C].
  - cbn [bvalue brepr_ok]. rewrite shr_beyond by (assumption || lia). split; [reflexivity | nia].
  - pose proof (shr_in_place_correct (skipn (Z.to_nat (rhs / w)) buf) (rhs mod w) ltac:(lia) (wf_skipn w _ _ Hw)) as H.
    destruct (shr_in_place w (skipn (Z.to_nat (rhs / w)) buf) (rhs mod w)) as [r c]. destruct H as (W & L & V).
    cbn [fst]. destruct (from_buffer_ok w w_pos _ W) as [V' K]. split; [|exact K].
    rewrite V', V. apply shr_words_bits; assumption.
Qed.

Theorem shr_large_ref_correct ws rhs : 0 <= rhs -> wf ws ->
  bvalue w (shr_large_ref w ws rhs) = Z.shiftr (value ws) rhs /\ brepr_ok w (shr_large_ref w ws rhs).
Proof.
  intros Hr Hw. pose proof (B_pos w w_pos) as HB. unfold shr_large_ref.
  pose proof (Z.mod_pos_bound rhs w w_pos) as Hm. pose proof (Z.div_pos rhs w Hr w_pos) as Hd.
  destruct (Z.le_gt_cases (len ws) (rhs / w)) as [C|C].
  - rewrite Z.min_r by lia. unfold len. rewrite Nat2Z.id, skipn_all.
    cbn [bvalue brepr_ok]. rewrite shr_beyond by (assumption || lia). split; [reflexivity | nia].
  - rewrite Z.min_l by lia. rewrite <- (shr_words_bits ws rhs Hr Hw C).
    pose proof (wf_skipn w (Z.to_nat (rhs / w)) ws Hw) as Ws.
    pose proof (pow_pos_2 (rhs mod w) ltac:(lia)) as Hp.
    destruct (skipn (Z.to_nat (rhs / w)) ws) as [|x [|y [|z t]]] eqn:Es.
    + cbn [bvalue brepr_ok Words.value]. rewrite Z.div_0_l by lia. split; [reflexivity | nia].
    + apply wf_cons in Ws. destruct Ws as [Hx _]. unfold from_word. cbn [bvalue brepr_ok Words.value].
      rewrite Z.shiftr_div_pow2 by lia. rewrite Z.mul_0_r, Z.add_0_r. split; [reflexivity|].
      split; [apply Z.div_pos; lia|]. apply Z.le_lt_trans with x; [apply Z.div_le_upper_bound; nia | nia].
    + apply wf_cons in Ws. destruct Ws as [Hx Ws]. apply wf_cons in Ws. destruct Ws as [Hy _].
      unfold from_dword. cbn [bvalue brepr_ok Words.value]. rewrite Z.shiftr_div_pow2 by lia.
      rewrite Z.mul_0_r, Z.add_0_r. split; [reflexivity|].
      split; [apply Z.div_pos; nia|]. apply Z.le_lt_trans with (x + B * y); [apply Z.div_le_upper_bound; nia | nia].
    + pose proof (shr_in_place_correct (x :: y :: z :: t) (rhs mod w) ltac:(lia) Ws) as H.
      destruct (shr_in_place w (x :: y :: z :: t) (rhs mod w)) as [r c]. destruct H as (W & L & V).
      cbn [fst]. destruct (from_buffer_ok w w_pos _ W) as [V' K]. split; [rewrite V'; exact V | exact K].
Qed.

Lemma shr_dword_correct dw rhs : 0 <= rhs -> 0 <= dw < B * B ->
  bvalue w (shr_dword w dw rhs) = Z.shiftr dw rhs /\ brepr_ok w (shr_dword w dw rhs).
Proof.
  intros Hr Hd. pose proof (B_pos w w_pos) as HB. unfold shr_dword. pose proof (pow_pos_2 rhs Hr) as Hp.
  destruct (Z.ltb_spec rhs (2 * w)) as [C|C]; unfold from_dword; cbn [bvalue brepr_ok].
  - split; [reflexivity|]. rewrite Z.shiftr_div_pow2 by lia.
    split; [apply Z.div_pos; lia|]. apply Z.le_lt_trans with dw; [apply Z.div_le_upper_bound; nia | lia].
  - rewrite Z.shiftr_div_pow2 by lia. rewrite Z.div_small; [split; [reflexivity | nia]|].
    split; [lia|]. apply Z.lt_le_trans with (2 ^ (2 * w)); [rewrite <- (BB_pow w w_pos); lia | apply Z.pow_le_mono_r; lia].
Qed.

Theorem repr_shr_correct r rhs : 0 <= rhs -> brepr_ok w r ->
  bvalue w (repr_shr w r rhs) = Z.shiftr (bvalue w r) rhs /\ brepr_ok w (repr_shr w r rhs).
Proof.
  intros Hr Hk. destruct r as [d|b]; cbn [repr_shr bvalue].
  - apply shr_dword_correct; assumption.
  - destruct Hk as (W & _). apply shr_large_correct; assumption.
Qed.

Theorem repr_shr_ref_correct r rhs : 0 <= rhs -> brepr_ok w r ->
  bvalue w (repr_shr_ref w r rhs) = Z.shiftr (bvalue w r) rhs /\ brepr_ok w (repr_shr_ref w r rhs).
Proof.
  intros Hr Hk. destruct r as [d|b]; cbn [repr_shr_ref bvalue].
  - apply shr_dword_correct; assumption.
  - destruct Hk as (W & _). apply shr_large_ref_correct; assumption.
Qed.

(* ---------------------------------------------------------------- are_low_bits_nonzero *)

Lemma dword_low_bits_nonzero_correct d n : 0 <= n -> 0 <= d < B * B ->
  dword_low_bits_nonzero w d n = low_bits_nonzero d n.
Proof.
  intros Hn Hd. unfold dword_low_bits_nonzero, low_bits_nonzero.
  rewrite (ones_dword_ok w w_pos) by lia. rewrite Z.land_ones by lia. f_equal. f_equal.
  destruct (Z.le_gt_cases n (2 * w)) as [C|C]; [rewrite Z.min_l by lia; reflexivity|].
  rewrite Z.min_r by lia. rewrite <- (BB_pow w w_pos). rewrite !Z.mod_small; try lia.
  split; [lia|]. apply Z.lt_le_trans with (2 ^ (2 * w)); [rewrite <- (BB_pow w w_pos); lia | apply Z.pow_le_mono_r; lia].
Qed.

(** (lo + P * y) mod (P * M) with lo < P *)
Lemma mod_split lo P y M : 0 <= lo < P -> 0 < M -> (lo + P * y) mod (P * M) = lo + P * (y mod M).
Proof.
  intros Hlo HM. pose proof (Z.div_mod y M ltac:(lia)) as Hy. pose proof (Z.mod_pos_bound y M HM) as Hb.
  symmetry. apply Z.mod_unique_pos with (q := y / M); [nia|]. rewrite Hy at 1. ring.
Qed.

Lemma existsb_nonzero ws : wf ws -> existsb (fun x => negb (x =? 0)) ws = negb (value ws =? 0).
Proof.
  intros Hw. destruct (Z.eqb_spec (value ws) 0) as [E|E]; cbn [negb].
  - apply (value_zero_iff w w_pos ws Hw) in E. apply not_true_is_false. intros Hex.
    apply existsb_exists in Hex. destruct Hex as (x & Hin & Hx). rewrite Forall_forall in E.
    rewrite (E x Hin) in Hx. discriminate.
  - destruct (existsb (fun x => negb (x =? 0)) ws) eqn:Hex; [reflexivity|]. exfalso. apply E.
    apply (value_zero_iff w w_pos ws Hw). rewrite Forall_forall. intros x Hin.
    destruct (Z.eqb_spec x 0) as [|Hx]; [assumption|].
    assert (existsb (fun x => negb (x =? 0)) ws = true); [|congruence].
    apply existsb_exists. exists x. split; [exact Hin|]. destruct (Z.eqb_spec x 0); [contradiction | reflexivity].
Qed.

Lemma skipn_nth (ws : list Z) : forall k, (k < length ws)%nat -> skipn k ws = nth k ws 0 :: skipn (S k) ws.
Proof.
  induction ws as [|x r IH]; intros [|k] Hk; cbn [length] in Hk; try lia; [reflexivity|].
  cbn [skipn nth]. rewrite IH by lia. reflexivity.
Qed.

Theorem slice_low_bits_nonzero_correct ws n : 0 <= n -> wf ws -> value ws <> 0 ->
  slice_low_bits_nonzero w ws n = low_bits_nonzero (value ws) n.
Proof.
  intros Hn Hw Hv. pose proof (B_pos w w_pos) as HB. unfold slice_low_bits_nonzero, low_bits_nonzero.
  pose proof (Z.mod_pos_bound n w w_pos) as Hm. pose proof (Z.div_pos n w Hn w_pos) as Hd.
  pose proof (value_bounds w w_pos ws Hw) as Hb.
  destruct (Z.geb_spec (n / w) (len ws)) as [C|C].
  - rewrite Z.mod_small.
    + destruct (Z.eqb_spec (value ws) 0); [contradiction | reflexivity].
    + split; [lia|]. apply Z.lt_le_trans with (B ^ len ws); [lia|]. rewrite (rhs_split n Hn).
      assert (B ^ len ws <= B ^ (n / w)) by (apply Z.pow_le_mono_r; unfold len in *; lia).
      pose proof (pow_pos_2 (n mod w) ltac:(lia)). nia.
  - set (k := Z.to_nat (n / w)).
    assert (Hk : (k < length ws)%nat) by (unfold k, len in *; lia).
    pose proof (wf_firstn w k ws Hw) as Wlo. pose proof (value_bounds w w_pos _ Wlo) as Hlo.
    assert (El : len (firstn k ws) = n / w) by (unfold len, k in *; rewrite firstn_length; lia).
    rewrite El in Hlo.
    assert (Esk : skipn k ws = nth k ws 0 :: skipn (S k) ws).
    { apply skipn_nth. exact Hk. }
    assert (Ev : value ws = value (firstn k ws) + B ^ (n / w) * (nth k ws 0 + B * value (skipn (S k) ws))).
    { rewrite (value_firstn_skipn w k ws) at 1. rewrite El, Esk. reflexivity. }
    pose proof (wf_nth w w_pos ws k Hw) as Hx.
    rewrite (existsb_nonzero _ Wlo). rewrite (ones_word_ok w) by lia. rewrite Z.land_ones by lia.
    rewrite (rhs_split n Hn). rewrite Ev. rewrite mod_split by (try lia; apply pow_pos_2; lia).
    assert (Em : (nth k ws 0 + B * value (skipn (S k) ws)) mod 2 ^ (n mod w) = nth k ws 0 mod 2 ^ (n mod w)).
    { rewrite (B_split (n mod w)) by lia. rewrite <- Z.mul_assoc, (Z.mul_comm (2 ^ (n mod w))), Z.mod_add; [reflexivity|].
      apply Z.pow_nonzero; lia. }
    rewrite Em. set (lo := value (firstn k ws)) in *. set (xm := nth k ws 0 mod 2 ^ (n mod w)).
    assert (0 <= xm) by (apply Z.mod_pos_bound; apply pow_pos_2; lia).
    assert (0 < B ^ (n / w)) by (apply Z.pow_pos_nonneg; lia).
    destruct (Z.eqb_spec lo 0), (Z.eqb_spec xm 0), (Z.eqb_spec (lo + B ^ (n / w) * xm) 0); cbn [negb orb]; try reflexivity; nia.
Qed.

Theorem are_low_bits_nonzero_correct r n : 0 <= n -> brepr_ok w r ->
  are_low_bits_nonzero w r n = low_bits_nonzero (bvalue w r) n.
Proof.
  intros Hn Hk. destruct r as [d|ws]; cbn [are_low_bits_nonzero bvalue].
  - apply dword_low_bits_nonzero_correct; assumption.
  - pose proof (brepr_large_lower w w_pos ws Hk) as Hl. destruct Hk as (W & _). pose proof (B_pos w w_pos).
    apply slice_low_bits_nonzero_correct; [assumption | assumption | nia].
Qed.

(* ---------------------------------------------------------------- Shl / Shr for IBig *)

(** the as-is model of IBig >> n is the regenerated sign table applied to the value of the
    magnitude, hence (C09_shr) Z.shiftr of the signed value: floor division by 2^n *)
Theorem ibig_shr_asis_table s r n : 0 <= n -> brepr_ok w r ->
  ibig_shr_asis w s r n = ibig_shr_gen s (bvalue w r) n /\
  ibig_shr_ref_asis w s r n = ibig_shr_ref_gen s (bvalue w r) n.
Proof.
  intros Hn Hk. unfold ibig_shr_asis, ibig_shr_ref_asis, ibig_shr_gen, ibig_shr_ref_gen.
  rewrite (proj1 (repr_shr_correct r n Hn Hk)), (proj1 (repr_shr_ref_correct r n Hn Hk)).
  rewrite (are_low_bits_nonzero_correct r n Hn Hk). destruct s; split; reflexivity.
Qed.

Theorem ibig_shr_asis_correct s r n : 0 <= n -> brepr_ok w r ->
  ibig_shr_asis w s r n = Z.shiftr (signed s (bvalue w r)) n /\
  ibig_shr_ref_asis w s r n = Z.shiftr (signed s (bvalue w r)) n /\
  ibig_shr_asis w s r n = signed s (bvalue w r) / 2 ^ n.
Proof.
  intros Hn Hk. destruct (ibig_shr_asis_table s r n Hn Hk) as [E1 E2].
  pose proof (brepr_ok_nonneg w w_pos r Hk) as Hv.
  destruct (ibig_shr_correct s (bvalue w r) n Hn Hv) as [G1 G2].
  rewrite E1, E2, G1, G2. repeat split. apply Z.shiftr_div_pow2. exact Hn.
Qed.

Theorem ibig_shl_asis_correct s cap r n : 0 <= n -> brepr_ok w r ->
  ibig_shl_asis w s cap r n = Z.shiftl (signed s (bvalue w r)) n.
Proof.
  intros Hn Hk. unfold ibig_shl_asis. rewrite (proj1 (repr_shl_correct cap r n Hn Hk)).
  rewrite !Z.shiftl_mul_pow2 by lia. unfold signed. ring.
Qed.

End Shift.
