(** C07 as-is models: transcriptions of integer/src/{radix.rs, fmt/*.rs, parse/*.rs, convert.rs}.
    Same branches, thresholds and loop structure as the Rust code; magnitudes are [Z] (or word lists
    where the code packs bits across words).  [w] = word size in bits.  Definitions only. *)
From Dashu Require Import Base.Prelude Base.Words Int.IoSpec.
From DashuGen Require Import Params.
Open Scope Z_scope.

Section Model.
Variable w : Z.

Definition Bw : Z := 2 ^ w.
(** linear-time list reversal (= [rev], lemma [rev_fast_rev]) *)
Definition rev_fast {A} (l : list A) : list A := rev_append l [].
Definition wlen (x : Z) : Z := (blen x + w - 1) / w.          (* number of words of a magnitude *)

(* ------------------------------------------------------------------------------------------ *)
(** * radix.rs / math.rs: digits per word and range per word (estimate, then correct upwards) *)

Fixpoint max_exp_loop (fuel : nat) (base exp pow : Z) : result (Z * Z) :=
  match fuel with
  | O => OutOfFuel
  | S f => if pow * base <? Bw                               (* pow.checked_mul(base) *)
           then max_exp_loop f base (exp + 1) (pow * base)
           else Ok (exp, pow)
  end.

Definition max_exp_in_word (base : Z) : result (Z * Z) :=
  if base >? Z.ones (w / 2) then Ok (1, base)
  else let exp := w / blen base in max_exp_loop (Z.to_nat w) base exp (base ^ exp).

(** (digits_per_word, range_per_word) *)
Definition radix_info (r : Z) : Z * Z :=
  match max_exp_in_word r with Ok p => p | _ => (1, r) end.

Definition is_pow2 (r : Z) : bool := r =? 2 ^ Z.log2 r.
Definition log_radix (r : Z) : Z := Z.log2 r.                 (* radix.trailing_zeros() of a power of two *)

(* ------------------------------------------------------------------------------------------ *)
(** * fmt/non_power_two.rs *)

(** PreparedWord::new(word, radix, min_digits): divide by the radix until the word is zero and at
    least [min] digits were produced; [acc] holds the digits produced so far (most significant first) *)
Fixpoint word_digits (fuel : nat) (r word min : Z) (acc : list Z) (cnt : Z) : list Z :=
  match fuel with
  | O => acc
  | S f => if (cnt <? min) || negb (word =? 0)
           then word_digits f r (word / r) min (word mod r :: acc) (cnt + 1)
           else acc
  end.
Definition prepared_word (r word min : Z) : list Z :=
  word_digits (Z.to_nat (w + min)) r word min [] 0.

(** PreparedDword::new: three parts split at range_per_word; all digits of the low part, digits of
    the middle part until both upper parts are exhausted, then the digits of the top part *)
Fixpoint dword_mid (k : nat) (r p1 p2 : Z) (acc : list Z) : Z * list Z :=
  match k with
  | O => (p1, acc)
  | S j => if (p1 =? 0) && (p2 =? 0) then (p1, acc) else dword_mid j r (p1 / r) p2 (p1 mod r :: acc)
  end.
Definition prepared_dword (r x : Z) : list Z :=
  let '(dpw, R) := radix_info r in
  let p0 := x mod R in let q := x / R in
  let p1 := q mod R in let p2 := q / R in
  let a0 := digits_pad_acc (Z.to_nat dpw) r p0 [] in
  let '(_, a1) := dword_mid (Z.to_nat dpw) r p1 p2 a0 in
  word_digits (Z.to_nat w) r p2 0 a1 0.

(** PreparedMedium::new: divide by range_per_word while the buffer is longer than one word *)
Fixpoint medium_groups (fuel : nat) (R x : Z) (groups : list Z) : Z * list Z :=
  match fuel with
  | O => (x, groups)
  | S f => if x <? Bw then (x, groups) else medium_groups f R (x / R) (x mod R :: groups)
  end.
Definition prepared_medium (r x : Z) : list Z :=
  let '(dpw, R) := radix_info r in
  let '(top, gs) := medium_groups (Z.to_nat (blen x)) R x [] in
  prepared_word r top 1 ++ flat_map (fun g => prepared_word r g dpw) gs.

(** PreparedLarge::write_chunk: exactly CHUNK_LEN groups of digits_per_word digits *)
Definition write_chunk (r x : Z) : list Z :=
  let '(dpw, R) := radix_info r in
  flat_map (fun g => prepared_word r g dpw) (digits_pad (Z.to_nat fmt_chunk_len) R x).

(** PreparedLarge::write_big_chunk(i, x): [ps] = radix_powers[..i], largest first *)
Fixpoint write_big_chunk (r : Z) (ps : list Z) (x : Z) : list Z :=
  match ps with
  | [] => write_chunk r x
  | p :: rest => write_big_chunk r rest (x / p) ++ write_big_chunk r rest (x mod p)
  end.

(** the squaring loop of PreparedLarge::new; [ps] largest first *)
Fixpoint fmt_powers (fuel : nat) (x : Z) (ps : list Z) : list Z :=
  match fuel, ps with
  | S f, prev :: _ =>
    if 2 * wlen prev - 1 >? wlen x then ps
    else let new := prev * prev in if new >? x then ps else fmt_powers f x (new :: ps)
  | _, _ => ps
  end.

(** the division cascade: the first (largest) power always divides, the others only if x >= p *)
Fixpoint large_split (r : Z) (ps : list Z) (first : bool) (x : Z) (tail : list Z) : list Z :=
  match ps with
  | [] => prepared_medium r x ++ tail
  | p :: rest =>
    if first || (x >=? p)
    then large_split r rest false (x / p) (write_big_chunk r rest (x mod p) ++ tail)
    else large_split r rest false x tail
  end.

Definition prepared_large (r x : Z) : list Z :=
  let '(dpw, R) := radix_info r in
  let chunk_power := R ^ fmt_chunk_len in
  if chunk_power >? x then prepared_medium r x
  else large_split r (fmt_powers (Z.to_nat (blen x)) x [chunk_power]) true x [].

(** InRadixWriter::fmt_non_power_two: dispatch on the representation and the length *)
Definition digits_np2_asis (r x : Z) : list Z :=
  if x <? Bw then prepared_word r x 1
  else if x <? Bw * Bw then prepared_dword r x
  else let '(dpw, R) := radix_info r in
       if wlen x * (dpw + 1) <=? fmt_chunk_len * dpw then prepared_medium r x else prepared_large r x.

(* ------------------------------------------------------------------------------------------ *)
(** * fmt/power_two.rs *)

Definition p2_width (lr x : Z) : Z := Z.max ((blen x + lr - 1) / lr) 1.

(** PreparedWord / PreparedDword: digit idx = (x >> idx*log_radix) & mask *)
Definition p2_small_digits (lr x : Z) : list Z :=
  rev (map (fun i => (x / 2 ^ (Z.of_nat i * lr)) mod 2 ^ lr) (seq 0 (Z.to_nat (p2_width lr x)))).

(** PreparedLarge::write: walk the words from the top, a digit may straddle two words *)
Fixpoint p2_write (fuel : nat) (lr word : Z) (rest : list Z) (bits : Z) (acc : list Z) : list Z :=
  match fuel with
  | O => rev_fast acc
  | S f =>
    if bits <? lr then
      match rest with
      | [] => rev_fast acc
      | w' :: rest' =>
        let extra := lr - bits in
        let bits' := w - extra in
        p2_write f lr w' rest' bits' (Z.lor ((word * 2 ^ extra) mod Bw) (w' / 2 ^ bits') mod 2 ^ lr :: acc)
      end
    else p2_write f lr word rest (bits - lr) ((word / 2 ^ (bits - lr)) mod 2 ^ lr :: acc)
  end.

Definition p2_large_digits (lr x : Z) : list Z :=
  let n := wlen x in
  let ws := rev_fast (to_words w (Z.to_nat n) x) in
  let width := p2_width lr x in
  match ws with
  | [] => []
  | top :: rest => p2_write (Z.to_nat (width + n + 1)) lr top rest (width * lr - (n - 1) * w) []
  end.

Definition digits_p2_asis (r x : Z) : list Z :=
  if x <? Bw * Bw then p2_small_digits (log_radix r) x else p2_large_digits (log_radix r) x.

Definition digits_asis (r x : Z) : list Z :=
  if is_pow2 r then digits_p2_asis r x else digits_np2_asis r x.

(* ------------------------------------------------------------------------------------------ *)
(** * fmt/mod.rs InRadixWriter::format_prepared; [prefix] was already chosen by the trait impl *)

Definition format_prepared_asis (f : fmtflags) (neg : bool) (prefix digits : list Z) : list Z :=
  let sg := if neg then [45] else if f_plus f then [43] else [] in
  let width := len digits + (len sg + len prefix) in
  match f_width f with
  | None => sg ++ prefix ++ digits
  | Some min =>
    if width >=? min then sg ++ prefix ++ digits
    else if f_zero f then sg ++ prefix ++ rep (min - width) [48] ++ digits
    else
      let left_pad := match f_align f with
                      | Some ALeft => 0
                      | Some ARight | None => min - width
                      | Some ACenter => (min - width) / 2
                      end in
      rep left_pad (f_fill f) ++ sg ++ prefix ++ digits ++ rep (min - width - left_pad) (f_fill f)
  end.

Definition fmt_asis (k : fkind) (f : fmtflags) (v : Z) : result (list Z) :=
  let r := kind_radix k in
  if radix_valid r then
    let prefix := if f_alt f then kind_prefix k else [] in
    Ok (format_prepared_asis f (v <? 0) prefix (map (digit_char (kind_upper k f)) (digits_asis r (Z.abs v))))
  else Panic InvalidRadix.

(* ------------------------------------------------------------------------------------------ *)
(** * parse/non_power_two.rs *)

Definition parse_word_np2 (r : Z) (s : list Z) : result Z :=
  fold_left (fun acc c => rbind acc (fun a =>
     match digit_from_ascii r c with Some d => Ok (a * r + d) | None => Err E_InvalidDigit end)) s (Ok 0).

Fixpoint chunks_of (fuel : nat) (k : nat) (s : list Z) : list (list Z) :=
  match fuel with
  | O => []
  | S f => match s with [] => [] | _ => firstn k s :: chunks_of f k (skipn k s) end
  end.
(** slice::rchunks(k), leftmost group first (it may be shorter) *)
Definition rchunks (k : nat) (s : list Z) : list (list Z) :=
  let h := Nat.modulo (length s) k in
  (if Nat.eqb h 0 then [] else [firstn h s]) ++ chunks_of (length s) k (skipn h s).

Definition parse_chunk (r : Z) (s : list Z) : result Z :=
  let '(dpw, R) := radix_info r in
  fold_left (fun acc g => rbind acc (fun a => rbind (parse_word_np2 r g) (fun n => Ok (a * R + n))))
            (rchunks (Z.to_nat dpw) s) (Ok 0).

(** parse_large_divide_conquer; [ps] = radix_powers, largest first *)
Fixpoint parse_dc (r chunk_bytes : Z) (ps : list Z) (s : list Z) : result Z :=
  match ps with
  | [] => parse_chunk r s
  | p :: rest =>
    let lo_len := chunk_bytes * 2 ^ len rest in
    if len s <=? lo_len then parse_dc r chunk_bytes rest s
    else
      let k := Z.to_nat (len s - lo_len) in
      rbind (parse_dc r chunk_bytes rest (firstn k s)) (fun hi =>
      rbind (parse_dc r chunk_bytes rest (skipn k s)) (fun lo => Ok (hi * p + lo)))
  end.

Fixpoint parse_powers (fuel : nat) (chunk_bytes n : Z) (ps : list Z) : list Z :=
  match fuel, ps with
  | S f, prev :: _ =>
    if chunk_bytes <=? (n - 1) / 2 ^ len ps then parse_powers f chunk_bytes n (prev * prev :: ps) else ps
  | _, _ => ps
  end.

Definition parse_large_np2 (r : Z) (s : list Z) : result Z :=
  let '(dpw, R) := radix_info r in
  let chunk_bytes := parse_chunk_len * dpw in
  parse_dc r chunk_bytes (parse_powers (Z.to_nat (blen (len s))) chunk_bytes (len s) [R ^ parse_chunk_len]) s.

Definition parse_np2 (r : Z) (s : list Z) : result Z :=
  let '(dpw, R) := radix_info r in
  let bytes := if existsb (fun c => c =? 95) s then filter (fun c => negb (c =? 95)) s else s in
  if len bytes <=? dpw then parse_word_np2 r bytes
  else if len bytes <=? parse_chunk_len * dpw then parse_chunk r bytes
  else parse_large_np2 r bytes.

(* ------------------------------------------------------------------------------------------ *)
(** * parse/power_two.rs *)

(** parse_word: from the last byte, [word |= digit << bits] *)
Fixpoint p2_parse_word (r lr : Z) (s : list Z) (word bits : Z) : result Z :=
  match s with
  | [] => Ok word
  | c :: t =>
    if c =? 95 then p2_parse_word r lr t word bits
    else match digit_from_ascii r c with
         | None => Err E_InvalidDigit
         | Some d => p2_parse_word r lr t (Z.lor word ((d * 2 ^ bits) mod Bw)) (bits + lr)
         end
  end.

(** parse_large: bit packing into words; [buf] holds the pushed words, most recent first *)
Fixpoint p2_parse_large (r lr : Z) (s : list Z) (buf : list Z) (word bits : Z) : result (list Z) :=
  match s with
  | [] => Ok (rev_fast (if 0 <? bits then word :: buf else buf))
  | c :: t =>
    if c =? 95 then p2_parse_large r lr t buf word bits
    else match digit_from_ascii r c with
         | None => Err E_InvalidDigit
         | Some d =>
           let word' := Z.lor word ((d * 2 ^ bits) mod Bw) in
           let new_bits := bits + lr in
           if new_bits >=? w
           then p2_parse_large r lr t (word' :: buf) (d / 2 ^ (w - bits)) (new_bits - w)
           else p2_parse_large r lr t buf word' new_bits
         end
  end.

Definition parse_p2 (r : Z) (s : list Z) : result Z :=
  let lr := log_radix r in
  if len s <=? w / lr then p2_parse_word r lr (rev_fast s) 0 0
  else rmap (value w) (p2_parse_large r lr (rev_fast s) [] 0 0).

(* ------------------------------------------------------------------------------------------ *)
(** * parse/mod.rs from_str_radix_no_sign *)

Fixpoint strip_zeros (s : list Z) : list Z :=
  match s with 48 :: t => strip_zeros t | _ => s end.

Definition body_asis (r : Z) (s : list Z) : result Z :=
  if forallb (fun c => c =? 95) s then Err E_NoDigits        (* no digit at all (after the repair of F03; was: src.is_empty()) *)
  else let s' := strip_zeros s in
       if is_pow2 r then parse_p2 r s' else parse_np2 r s'.

(** the code as it was before the repair: only the empty string was refused *)
Definition body_asis_before_fix (r : Z) (s : list Z) : result Z :=
  match s with [] => Err E_NoDigits | _ =>
    let s' := strip_zeros s in if is_pow2 r then parse_p2 r s' else parse_np2 r s' end.

Definition from_str_radix_asis := from_str_radix_gen body_asis.
Definition from_str_prefix_asis := from_str_prefix_gen body_asis.

(* ------------------------------------------------------------------------------------------ *)
(** * convert.rs: bytes *)

Definition WBy : Z := w / 8.                                   (* WORD_BYTES *)
Definition lzw (x : Z) : Z := w - blen x.                      (* Word::leading_zeros *)
Definition nwords (x : Z) : nat := Z.to_nat (wlen x).

(** words_to_le_bytes::<FLIP>(words) with the number of skipped top bytes made explicit *)
Definition words_to_le_bytes (flip : bool) (ws : list Z) (skip : Z) : list Z :=
  let fl x := if flip then Bw - 1 - x else x in
  flat_map (fun x => le_bytes_n (Z.to_nat WBy) (fl x)) (removelast ws)
  ++ firstn (Z.to_nat (WBy - skip)) (le_bytes_n (Z.to_nat WBy) (fl (last ws 0))).

(** TypedReprRef::to_le_bytes *)
Definition to_le_bytes_asis (m : Z) : list Z :=
  if m <? Bw * Bw
  then firstn (Z.to_nat (2 * WBy - (2 * w - blen m) / 8)) (le_bytes_n (Z.to_nat (2 * WBy)) m)
  else let ws := to_words w (nwords m) m in words_to_le_bytes false ws (lzw (last ws 0) / 8).

(** TypedReprRef::to_signed_le_bytes(negate); [fixed] = false gives the code before the repair of
    F01 (length of the flipped words taken after the subtraction of one) *)
Definition to_signed_le_bytes_gen (fixed : bool) (v : Z) : list Z :=
  let m := Z.abs v in
  let neg := v <? 0 in
  if m =? 0 then [] else
  let bytes :=
    if neg then
      if m <? Bw * Bw
      then firstn (Z.to_nat (2 * WBy - (2 * w - blen m) / 8)) (le_bytes_n (Z.to_nat (2 * WBy)) (Bw * Bw - m))
      else let ws := to_words w (nwords m) m in
           let ws1 := to_words w (nwords m) (m - 1) in
           words_to_le_bytes true ws1 (lzw (last (if fixed then ws else ws1) 0) / 8)
    else to_le_bytes_asis m in
  let leading_zeros := if m <? Bw * Bw then 2 * w - blen m else lzw (last (to_words w (nwords m) m) 0) in
  if leading_zeros mod 8 =? 0 then bytes ++ [if neg then 255 else 0] else bytes.

Definition to_signed_le_bytes_asis := to_signed_le_bytes_gen true.
Definition to_signed_le_bytes_before_fix := to_signed_le_bytes_gen false.

(** Repr::from_le_bytes: both paths are the little-endian sum *)
Definition pad_bytes (n : nat) (pad : Z) (bs : list Z) : list Z := bs ++ repeat pad (n - length bs).
Definition from_le_bytes_asis (bs : list Z) : Z :=
  if len bs <=? 2 * WBy then le_value (pad_bytes (Z.to_nat (2 * WBy)) 0 bs)
  else let nw := Z.to_nat ((len bs - 1) / WBy + 1) in le_value (pad_bytes (nw * Z.to_nat WBy) 0 bs).

(** Repr::from_signed_le_bytes *)
Definition from_signed_le_bytes_asis (bs : list Z) : Z :=
  match bs with
  | [] => 0
  | _ =>
    if last bs 0 <? 128 then from_le_bytes_asis bs
    else if len bs <=? 2 * WBy
    then let d := le_value (pad_bytes (Z.to_nat (2 * WBy)) 255 bs) in - ((Bw * Bw - 1 - d + 1) mod (Bw * Bw))
    else let nw := Z.to_nat ((len bs - 1) / WBy + 1) in
         let d := le_value (pad_bytes (nw * Z.to_nat WBy) 255 bs) in
         - (Bw ^ Z.of_nat nw - 1 - d + 1)
  end.

(* ------------------------------------------------------------------------------------------ *)
(** * convert.rs: bit chunks *)

(** TypedReprRef::to_chunks; [fixed] = false gives the word-aligned path before the repair of F02,
    which read [words_per_chunk] words for the last chunk whatever was left *)
Definition to_chunks_gen (fixed : bool) (v cb : Z) : result (list Z) :=
  if cb <=? 0 then Panic Undocumented else
  let count := (blen v + cb - 1) / cb in
  if v <? Bw * Bw then
    Ok (if count =? 0 then [] else if count =? 1 then [v]
        else map (fun i => (v / 2 ^ (Z.of_nat i * cb)) mod 2 ^ cb) (seq 0 (Z.to_nat count)))
  else if cb mod w =? 0 then
    let wpc := cb / w in
    if negb fixed && negb (count * wpc <=? wlen v) then Panic Undocumented
    else Ok (map (fun i => value w (firstn (Z.to_nat wpc) (skipn (i * Z.to_nat wpc) (to_words w (nwords v) v))))
                 (seq 0 (Z.to_nat count)))
  else
    let bit_len := blen v in
    Ok (map (fun i =>
          let start := Z.of_nat i * cb in
          let stop := Z.min bit_len (start + cb) in
          let start_pos := start / w in
          ((v / 2 ^ (w * start_pos)) mod 2 ^ (stop - w * start_pos)) / 2 ^ (start mod w))
        (seq 0 (Z.to_nat count))).

Definition to_chunks_asis := to_chunks_gen true.
Definition to_chunks_before_fix := to_chunks_gen false.

(** chunks_to_words: shift each chunk into place and add *)
Definition from_chunks_asis (cb : Z) (cs : list Z) : Z :=
  fst (fold_left (fun '(acc, i) c => (acc + (c * 2 ^ ((i * cb) mod w)) * 2 ^ (w * ((i * cb) / w)), i + 1)) cs (0, 0)).

End Model.
