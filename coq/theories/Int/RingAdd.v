(** C01 (L0): as-is models of the carry/borrow kernels of integer/src/add.rs over little-endian
    word lists of an arbitrary word size [w] (B = 2^w).  An in-place function on [&mut [Word]]
    becomes a pure function returning the new contents (same length) and the carry.
    Definitions only; the proofs are in RingAddProofs.v. *)
From Dashu Require Import Base.Prelude Base.Words.
Open Scope Z_scope.

Definition b2z (b : bool) : Z := if b then 1 else 0.

Section AddKernels.
Variable w : Z.
Notation BB := (B w).

(** arch::add::add_with_carry / sub_with_borrow (also Word::overflowing_add/sub with carry = false) *)
Definition add_with_carry (a b : Z) (c : bool) : Z * bool :=
  let s := a + b + b2z c in (s mod BB, BB <=? s).
Definition sub_with_borrow (a b : Z) (c : bool) : Z * bool :=
  let d := a - b - b2z c in (d mod BB, d <? 0).

(** add_one_in_place / sub_one_in_place: stop at the first word that does not wrap *)
Fixpoint add_one_in_place (ws : list Z) : list Z * bool :=
  match ws with
  | [] => ([], true)
  | x :: r =>
      let '(a, o) := add_with_carry x 1 false in
      if o then let '(r', c) := add_one_in_place r in (a :: r', c) else (a :: r, false)
  end.

Fixpoint sub_one_in_place (ws : list Z) : list Z * bool :=
  match ws with
  | [] => ([], true)
  | x :: r =>
      let '(a, o) := sub_with_borrow x 1 false in
      if o then let '(r', c) := sub_one_in_place r in (a :: r', c) else (a :: r, false)
  end.

(** add_word_in_place / sub_word_in_place: [split_first_mut().unwrap()] - every caller tests for
    emptiness first, the [[]] arm is unreachable (it would be a panic) *)
Definition add_word_in_place (ws : list Z) (rhs : Z) : list Z * bool :=
  match ws with
  | [] => ([], false)
  | x :: r =>
      let '(a, c) := add_with_carry x rhs false in
      if c then let '(r', c') := add_one_in_place r in (a :: r', c') else (a :: r, false)
  end.

Definition sub_word_in_place (ws : list Z) (rhs : Z) : list Z * bool :=
  match ws with
  | [] => ([], false)
  | x :: r =>
      let '(a, c) := sub_with_borrow x rhs false in
      if c then let '(r', c') := sub_one_in_place r in (a :: r', c') else (a :: r, false)
  end.

(** add_dword_in_place / sub_dword_in_place (at least two words; fewer is unreachable) *)
Definition add_dword_in_place (ws : list Z) (rhs : Z) : list Z * bool :=
  match ws with
  | x0 :: x1 :: r =>
      let b0 := rhs mod BB in let b1 := rhs / BB in
      let '(s0, c) := add_with_carry x0 b0 false in
      let '(s1, c) := add_with_carry x1 b1 c in
      if c then let '(r', c') := add_one_in_place r in (s0 :: s1 :: r', c') else (s0 :: s1 :: r, false)
  | _ => (ws, false)
  end.

Definition sub_dword_in_place (ws : list Z) (rhs : Z) : list Z * bool :=
  match ws with
  | x0 :: x1 :: r =>
      let b0 := rhs mod BB in let b1 := rhs / BB in
      let '(s0, c) := sub_with_borrow x0 b0 false in
      let '(s1, c) := sub_with_borrow x1 b1 c in
      if c then let '(r', c') := sub_one_in_place r in (s0 :: s1 :: r', c') else (s0 :: s1 :: r, false)
  | _ => (ws, false)
  end.

(** add_same_len_in_place / sub_same_len_in_place: a zip loop threading the carry (the loops start
    with carry = false; the parameter makes the induction go through) *)
Fixpoint add_same_len (ws rhs : list Z) (c : bool) : list Z * bool :=
  match ws, rhs with
  | a :: ws', b :: rhs' =>
      let '(s, c1) := add_with_carry a b c in
      let '(r, c2) := add_same_len ws' rhs' c1 in (s :: r, c2)
  | _, _ => (ws, c)
  end.

Fixpoint sub_same_len (ws rhs : list Z) (c : bool) : list Z * bool :=
  match ws, rhs with
  | a :: ws', b :: rhs' =>
      let '(s, c1) := sub_with_borrow a b c in
      let '(r, c2) := sub_same_len ws' rhs' c1 in (s :: r, c2)
  | _, _ => (ws, c)
  end.

(** sub_same_len_in_place_swap: rhs = lhs - rhs (the result replaces [rhs]) *)
Fixpoint sub_same_len_swap (lhs rhs : list Z) (c : bool) : list Z * bool :=
  match lhs, rhs with
  | a :: lhs', b :: rhs' =>
      let '(s, c1) := sub_with_borrow a b c in
      let '(r, c2) := sub_same_len_swap lhs' rhs' c1 in (s :: r, c2)
  | _, _ => (rhs, c)
  end.

Definition add_same_len_in_place ws rhs := add_same_len ws rhs false.
Definition sub_same_len_in_place ws rhs := sub_same_len ws rhs false.
Definition sub_same_len_in_place_swap lhs rhs := sub_same_len_swap lhs rhs false.

(** add_in_place / sub_in_place: lhs.split_at_mut(rhs.len()), same-length part, then the carry runs
    into the high part *)
Definition add_in_place (lhs rhs : list Z) : list Z * bool :=
  let lo := firstn (length rhs) lhs in
  let hi := skipn (length rhs) lhs in
  let '(lo', c) := add_same_len_in_place lo rhs in
  if c then let '(hi', c') := add_one_in_place hi in (lo' ++ hi', c') else (lo' ++ hi, false).

Definition sub_in_place (lhs rhs : list Z) : list Z * bool :=
  let lo := firstn (length rhs) lhs in
  let hi := skipn (length rhs) lhs in
  let '(lo', c) := sub_same_len_in_place lo rhs in
  if c then let '(hi', c') := sub_one_in_place hi in (lo' ++ hi', c') else (lo' ++ hi, false).

(** length without the most significant zero words (the two [while] loops at the start of
    sub_in_place_with_sign) *)
Fixpoint trim_len (ws : list Z) : nat :=
  match ws with
  | [] => O
  | x :: r => match trim_len r with
              | O => if x =? 0 then O else 1%nat
              | S k => S (S k)
              end
  end.

Definition set_nth (k : nat) (v : Z) (l : list Z) : list Z := firstn k l ++ v :: skipn (S k) l.

(** the [Equal] arm: compare from the top, zeroing equal words of lhs on the way down *)
Fixpoint sub_sign_eq (n : nat) (lhs rhs : list Z) : list Z * sign :=
  match n with
  | O => (lhs, Positive)
  | S k =>
      match nth k lhs 0 ?= nth k rhs 0 with
      | Gt => let '(r, _) := sub_same_len_in_place (firstn n lhs) (firstn n rhs) in (r ++ skipn n lhs, Positive)
      | Lt => let '(r, _) := sub_same_len_in_place_swap (firstn n rhs) (firstn n lhs) in (r ++ skipn n lhs, Negative)
      | Eq => sub_sign_eq k (set_nth k 0 lhs) rhs
      end
  end.

(** sub_in_place_with_sign: (sign, lhs) = lhs - rhs, len lhs >= len rhs *)
Definition sub_in_place_with_sign (lhs rhs : list Z) : list Z * sign :=
  let ll := trim_len lhs in
  let rl := trim_len rhs in
  match Nat.compare ll rl with
  | Gt =>
      let '(r, _) := sub_in_place (firstn ll lhs) (firstn rl rhs) in (r ++ skipn ll lhs, Positive)
  | Lt =>
      let '(r, borrow) := sub_same_len_in_place_swap (firstn ll rhs) (firstn ll lhs) in
      let mid := firstn (rl - ll) (skipn ll rhs) in          (* lhs[ll..rl].copy_from_slice(rhs[ll..rl]) *)
      let mid' := if borrow then fst (sub_one_in_place mid) else mid in
      (r ++ mid' ++ skipn rl lhs, Negative)
  | Eq => sub_sign_eq ll lhs rhs
  end.

(** signed variants; the carry is a SignedWord in {-1, 0, 1} *)
Definition add_signed_word_in_place (ws : list Z) (rhs : Z) : list Z * Z :=
  if (rhs =? 0) || (match ws with [] => true | _ => false end) then (ws, rhs)
  else if 0 <? rhs then let '(r, c) := add_word_in_place ws rhs in (r, b2z c)
  else let '(r, c) := sub_word_in_place ws (- rhs) in (r, - b2z c).

Definition add_signed_same_len_in_place (ws : list Z) (s : sign) (rhs : list Z) : list Z * Z :=
  match s with
  | Positive => let '(r, c) := add_same_len_in_place ws rhs in (r, b2z c)
  | Negative => let '(r, c) := sub_same_len_in_place ws rhs in (r, - b2z c)
  end.

Definition add_signed_in_place (ws : list Z) (s : sign) (rhs : list Z) : list Z * Z :=
  match s with
  | Positive => let '(r, c) := add_in_place ws rhs in (r, b2z c)
  | Negative => let '(r, c) := sub_in_place ws rhs in (r, - b2z c)
  end.

End AddKernels.
