(** C12 round 4 - the Lehmer branch of gcd_in_place / gcd_ext_in_place, tied together:
    (1) the panic branch "a guessed step went negative" of the value-level model GrlLehmer.lehmer_iter is DEAD:
        for every 0 <= y <= x with x of at least two words (three when the double word guess is used) the step
        computed from lehmer_guess / lehmer_guess_dword on the aligned leading bits has a*x - b*y >= 0 and
        d*y - c*x >= 0; the new x is below y and the lengths of x and y differ by at most one word (the
        debug_assert of lehmer_step);
    (2) on the word lists of x and y the word-level model of lehmer_step returns exactly the words of the two
        values of the value-level step (refinement), for every word size w >= 2 and every threshold >= 3. *)
From Dashu Require Import Base.Prelude Int.GrlSpec Int.GrlModel Int.GrlLehmer Int.GrlLehmerProof
  Int.GrlLehmerGuessProof Int.GrlLehmerTopProof Int.GrlLehmerW Int.GrlLehmerWProof.
From Coq Require Import List.
Import ListNotations.
Open Scope Z_scope.

Lemma div_bounds : forall v P, 0 < P -> (v / P) * P <= v < (v / P + 1) * P.
Proof.
  intros v P HP. pose proof (Z.div_mod v P ltac:(lia)). pose proof (Z.mod_pos_bound v P HP). lia.
Qed.

(** y >= 2^(bit_len x - w) has at most one word less than x *)
Lemma wlen_close : forall w x y, 1 <= w -> 0 < x -> 2 ^ (bit_len x - w) <= y -> w <= bit_len x ->
  wlen w x - wlen w y <= 1.
Proof.
  intros w x y Hw Hx Hy Hbl.
  assert (0 < y) as Py by (pose proof (p2p (bit_len x - w) ltac:(lia)); lia).
  assert (bit_len x = Z.log2 x + 1) as Ebl by (unfold bit_len; destruct (Z.eqb_spec x 0); [lia|reflexivity]).
  assert (bit_len x - w <= Z.log2 y) as Hl by (apply Z.log2_le_pow2; [exact Py|exact Hy]).
  unfold wlen. destruct (Z.eqb_spec x 0); [lia|]. destruct (Z.eqb_spec y 0); [lia|].
  assert ((Z.log2 x + 1 - w) / w <= Z.log2 y / w) by (apply Z.div_le_mono; lia).
  replace (Z.log2 x + 1 - w) with (Z.log2 x + 1 + (-1) * w) in * by ring.
  rewrite Z.div_add in * by lia.
  assert (Z.log2 x / w <= (Z.log2 x + 1) / w) by (apply Z.div_le_mono; lia). lia.
Qed.

Lemma guess_loop_no_err : forall n B L a b c d xb yb e, lehmer_guess_loop n B L a b c d xb yb <> Err e.
Proof.
  induction n as [|k IH]; intros B L a b c d xb yb e; [discriminate|].
  cbn [lehmer_guess_loop]. destruct (_ =? 0); [discriminate|].
  destruct (lehmer_half _ _ a b c d xb yb c); [discriminate|discriminate|]. destruct (_ =? _); [discriminate|].
  destruct (lehmer_half _ _ _ _ _ _ _ _ _); [discriminate|discriminate|]. destruct (_ =? _); [discriminate|]. apply IH.
Qed.

Section Tie.
Variable w : Z.
Hypothesis Hw : 2 <= w.
Let W := 2 ^ w.
Let L := coeff_limit w.

Lemma L_succ : L + 1 = 2 ^ (w - 1).
Proof. unfold L, coeff_limit. ring. Qed.

(** * (1) the guessed step is never negative *)
Theorem lehmer_guess_for_nonneg : forall mdl x y a b c d, 3 <= mdl -> 0 <= y <= x -> 2 <= wlen w x ->
  lehmer_guess_for mdl w x y = Ok (a, b, c, d) ->
  ginv L a b c d /\ 0 <= a * x - b * y /\ 0 <= d * y - c * x /\
  (b <> 0 -> a * x - b * y < y /\ wlen w x - wlen w y <= 1).
Proof.
  intros mdl x y a b c d Hmdl Hyx Hn. unfold lehmer_guess_for.
  assert (0 < x) as Px.
  { destruct (Z.eq_dec x 0) as [e|e]; [|lia]. subst x. unfold wlen in Hn. cbn in Hn. lia. }
  destruct (coeff_limit_facts w Hw) as [HL1 HL2]. fold L in HL1, HL2.
  destruct (Z.ltb_spec (wlen w x) mdl) as [Hlt|Hge].
  - (* single word guess *)
    destruct (highest_word_normalized_div w ltac:(lia) x y Hyx Hn) as [E [Hbl [T1 T2]]]. rewrite E.
    set (k := bit_len x - w) in *. pose proof (p2p k ltac:(lia)) as PP.
    set (xh := x / 2 ^ k) in *. set (yh := y / 2 ^ k) in *.
    assert (yh <= xh) as Hh by (unfold xh, yh; apply Z.div_le_mono; lia).
    assert (0 <= yh) as Hyh by (unfold yh; apply Z.div_pos; lia).
    unfold lehmer_guess. destruct (Z.ltb_spec xh yh); [lia|]. intros G.
    destruct (guess_loop_nonneg x y (2 ^ k) xh yh PP (div_bounds x _ PP) (div_bounds y _ PP) ltac:(lia) Hyh
                _ _ _ _ _ _ _ HL1 Hh G) as [GI [Nx [Ny Hb]]].
    split; [exact GI|]. split; [exact Nx|]. split; [exact Ny|].
    intros Hb0. destruct (Hb Hb0) as [K1 K2]. split; [exact K1|].
    apply wlen_close; try lia. fold k.
    assert (1 <= yh).
    { destruct (Z.eq_dec yh 0) as [e|e]; [|lia]. rewrite e, Z.mul_0_r in K2. lia. }
    pose proof (div_bounds y _ PP) as [D1 _]. fold yh in D1.
    assert (1 * 2 ^ k <= yh * 2 ^ k) by (apply Z.mul_le_mono_nonneg_r; lia). lia.
  - (* double word guess *)
    assert (3 <= wlen w x) as Hn3 by lia.
    destruct (highest_dword_normalized_div w ltac:(lia) x y Hyx Hn3) as [E [Hbl [T1 T2]]]. rewrite E.
    set (k := bit_len x - 2 * w) in *. pose proof (p2p k ltac:(lia)) as PP.
    set (xh := x / 2 ^ k) in *. set (yh := y / 2 ^ k) in *.
    assert (yh <= xh) as Hh by (unfold xh, yh; apply Z.div_le_mono; lia).
    assert (0 <= yh) as Hyh by (unfold yh; apply Z.div_pos; lia).
    unfold lehmer_guess_dword. destruct (Z.ltb_spec xh yh); [lia|].
    destruct (lehmer_guess_loop _ _ _ 1 0 0 1 xh yh) as [[[[a0 b0] c0] d0]|?|?|] eqn:G; cbn [rbind]; try discriminate.
    destruct (guess_loop_nonneg x y (2 ^ k) xh yh PP (div_bounds x _ PP) (div_bounds y _ PP) ltac:(lia) Hyh
                _ _ _ _ _ _ _ HL1 Hh G) as [GI [Nx [Ny Hb]]].
    pose proof GI as [Ga [Gb [Gc [Gd _]]]].
    intros E2. injection E2 as <- <- <- <-. fold W. unfold W. rewrite !Z.mod_small by lia.
    split; [exact GI|]. split; [exact Nx|]. split; [exact Ny|].
    intros Hb0. destruct (Hb Hb0) as [K1 K2]. split; [exact K1|].
    apply wlen_close; try lia.
    (* yh > 2^w, so y has the bit bit_len x - w *)
    rewrite L_succ in K2.
    assert (2 ^ (2 * w - 1) = 2 ^ (w - 1) * 2 ^ w) as E3 by (rewrite <- Z.pow_add_r by lia; f_equal; lia).
    assert (2 ^ w <= yh) as Hyw.
    { destruct (Z.lt_ge_cases yh (2 ^ w)) as [Hlt|]; [exfalso|assumption].
      assert (2 ^ (w - 1) * yh <= 2 ^ (w - 1) * 2 ^ w) by (apply Z.mul_le_mono_nonneg_l; [apply Z.pow_nonneg|]; lia). lia. }
    pose proof (div_bounds y _ PP) as [D1 _]. fold yh in D1.
    assert (2 ^ w * 2 ^ k <= yh * 2 ^ k) by (apply Z.mul_le_mono_nonneg_r; lia).
    replace (bit_len x - w) with (w + k) by (unfold k; lia). rewrite Z.pow_add_r by lia. lia.
Qed.

(** the value-level iteration without its panic branch *)
Definition lehmer_iter_total_step (mdl x y : Z) : result lstep :=
  rbind (lehmer_guess_for mdl w x y) (fun g =>
    let '(a, b, c, d) := g in
    if b =? 0 then Ok (StEuclid (x / y) (x mod y))
    else Ok (StLehmer a b c d (a * x - b * y) (d * y - c * x))).

Theorem lehmer_iter_negative_branch_dead : forall mdl x y, 3 <= mdl -> 0 <= y <= x -> 2 <= wlen w x ->
  lehmer_iter mdl w x y = lehmer_iter_total_step mdl x y.
Proof.
  intros mdl x y Hmdl Hyx Hn. unfold lehmer_iter, lehmer_iter_total_step.
  destruct (lehmer_guess_for mdl w x y) as [[[[a b] c] d]|?|?|] eqn:G; cbn [rbind]; try reflexivity.
  destruct (lehmer_guess_for_nonneg _ _ _ _ _ _ _ Hmdl Hyx Hn G) as [_ [Nx [Ny _]]].
  destruct (b =? 0); [reflexivity|].
  destruct (Z.ltb_spec (a * x - b * y) 0); [lia|]. destruct (Z.ltb_spec (d * y - c * x) 0); [lia|]. reflexivity.
Qed.


(** the guess itself never panics: no overflow of the Word / DoubleWord arithmetic, no division by zero,
    the debug_assert xbar >= ybar holds *)
Theorem lehmer_guess_for_no_panic : forall mdl x y r, 3 <= mdl -> 0 <= y <= x -> 2 <= wlen w x ->
  lehmer_guess_for mdl w x y <> Panic r.
Proof.
  intros mdl x y r Hmdl Hyx Hn. unfold lehmer_guess_for.
  destruct (Z.ltb_spec (wlen w x) mdl) as [Hlt|Hge].
  - destruct (highest_word_normalized_div w ltac:(lia) x y Hyx Hn) as [E [Hbl [T1 T2]]]. rewrite E.
    pose proof (p2p (bit_len x - w) ltac:(lia)) as PP.
    apply lehmer_guess_no_panic; [exact Hw| |exact T2].
    split; [apply Z.div_pos; lia|apply Z.div_le_mono; lia].
  - assert (3 <= wlen w x) as Hn3 by lia.
    destruct (highest_dword_normalized_div w ltac:(lia) x y Hyx Hn3) as [E [Hbl [T1 T2]]]. rewrite E.
    pose proof (p2p (bit_len x - 2 * w) ltac:(lia)) as PP.
    apply lehmer_guess_dword_no_panic; [exact Hw| |exact T2].
    split; [apply Z.div_pos; lia|apply Z.div_le_mono; lia].
Qed.

(** one iteration of the main loops always succeeds *)
Theorem lehmer_iter_always_ok : forall mdl x y, 3 <= mdl -> 0 <= y <= x -> 2 <= wlen w x ->
  exists st, lehmer_iter mdl w x y = Ok st.
Proof.
  intros mdl x y Hmdl Hyx Hn.
  rewrite (lehmer_iter_negative_branch_dead mdl x y Hmdl Hyx Hn). unfold lehmer_iter_total_step.
  pose proof (lehmer_guess_for_no_panic mdl x y) as NP.
  pose proof (lehmer_guess_for_total mdl w x y Hw ltac:(lia)) as NF.
  assert (forall e, lehmer_guess_for mdl w x y <> Err e) as NE.
  { intros e. unfold lehmer_guess_for. destruct (_ <? _).
    - destruct (highest_word_normalized w x y) as [xh yh]. unfold lehmer_guess. destruct (_ <? _); [discriminate|].
      apply guess_loop_no_err.
    - destruct (highest_dword_normalized w x y) as [xh yh]. unfold lehmer_guess_dword. destruct (_ <? _); [discriminate|].
      pose proof (guess_loop_no_err (guess_fuel w) (2 ^ (2 * w)) (coeff_limit w) 1 0 0 1 xh yh e) as NL.
      destruct (lehmer_guess_loop _ _ _ 1 0 0 1 xh yh) as [[[[a0 b0] c0] d0]|?|?|]; cbn [rbind]; try discriminate. congruence. }
  destruct (lehmer_guess_for mdl w x y) as [[[[a b] c] d]|r|e|]; cbn [rbind].
  - destruct (b =? 0); eauto.
  - exfalso. exact (NP r Hmdl Hyx Hn eq_refl).
  - exfalso. exact (NE e eq_refl).
  - exfalso. exact (NF eq_refl).
Qed.

(** * (2) the word-level step refines the value-level step *)
Theorem lehmer_iter_words_refines : forall mdl xs ys a b c d x' y',
  3 <= mdl -> wordl w xs -> wordl w ys ->
  Z.of_nat (length xs) = wlen w (wval W xs) -> Z.of_nat (length ys) = wlen w (wval W ys) ->
  wval W ys <= wval W xs -> (2 <= length xs)%nat ->
  lehmer_iter mdl w (wval W xs) (wval W ys) = Ok (StLehmer a b c d x' y') ->
  exists xs1 ys1, lehmer_iter_words mdl w xs ys = Ok (Some (a, b, c, d, xs1, ys1)) /\
    length xs1 = length xs /\ length ys1 = length ys /\ wordl w xs1 /\ wordl w ys1 /\
    wval W xs1 = x' /\ wval W ys1 = y' /\ 0 <= x' < wval W ys /\ 0 <= y'.
Proof.
  intros mdl xs ys a b c d x' y' Hmdl Wxs Wys Lx Ly Hyx Hlen2.
  set (X := wval W xs) in *. set (Y := wval W ys) in *.
  pose proof (wval_bound w Hw ys Wys) as BY. fold W Y in BY.
  assert (0 <= Y <= X) as HYX by lia.
  assert (2 <= wlen w X) as Hn by lia.
  rewrite (lehmer_iter_negative_branch_dead mdl X Y Hmdl HYX Hn). unfold lehmer_iter_total_step, lehmer_iter_words.
  fold W X Y.
  destruct (lehmer_guess_for mdl w X Y) as [[[[a0 b0] c0] d0]|?|?|] eqn:G; cbn [rbind]; try discriminate.
  destruct (lehmer_guess_for_nonneg _ _ _ _ _ _ _ Hmdl HYX Hn G) as [GI [Nx [Ny Hb]]].
  destruct (Z.eqb_spec b0 0) as [e|e]; [discriminate|].
  intros E. injection E as -> -> -> -> <- <-.
  destruct (Hb e) as [K1 K2].
  pose proof (wlen_mono w ltac:(lia) Y X HYX) as Hm.
  assert (length xs = length ys \/ length xs = S (length ys)) as Hl by lia.
  destruct (lstep_words_correct w Hw a b c d xs ys Wxs Wys GI Hl) as [xs1 [ys1 [E1 [L1 [L2 [W1 [W2 [V1 V2]]]]]]]].
  - fold W X Y. lia.
  - fold W X Y. exact Ny.
  - rewrite E1. exists xs1, ys1. fold W X Y in V1, V2. repeat split; try assumption; lia.
Qed.
End Tie.

(** canonical word lists (non-zero top word) have [wlen] words *)
Lemma wlen_canonical : forall w l t, 2 <= w -> wordl w (l ++ [t]) -> t <> 0 ->
  Z.of_nat (length (l ++ [t])) = wlen w (wval (2 ^ w) (l ++ [t])).
Proof.
  intros w l t Hw Hl Ht.
  apply Forall_app in Hl. destruct Hl as [Hl1 Hl2]. inversion Hl2 as [|? ? Ht2 _]; subst.
  pose proof (wval_bound w Hw l Hl1) as B. pose proof (W_pos w Hw) as PW.
  rewrite wval_app. cbn [wval]. rewrite Z.mul_0_r, Z.add_0_r.
  set (n := Z.of_nat (length l)) in *. set (W := 2 ^ w) in *. set (Q := W ^ n) in *.
  assert (Q = 2 ^ (w * n)) as EQ by (unfold Q, W; rewrite <- Z.pow_mul_r by lia; reflexivity).
  assert (0 < Q) by (rewrite EQ; apply p2p; apply Z.mul_nonneg_nonneg; lia).
  assert (1 * Q <= Q * t) by (rewrite (Z.mul_comm Q t); apply Z.mul_le_mono_nonneg_r; lia).
  assert (Q * (t + 1) <= Q * W) by (apply Z.mul_le_mono_nonneg_l; lia).
  set (v := wval W l + Q * t) in *.
  assert (Q <= v < Q * W) as Hv by (unfold v; lia).
  assert (Q * W = 2 ^ (w * n + w)) as EQW by (rewrite EQ; unfold W; rewrite <- Z.pow_add_r by (try apply Z.mul_nonneg_nonneg; lia); reflexivity).
  assert (w * n <= Z.log2 v) by (apply Z.log2_le_pow2; [lia|rewrite <- EQ; lia]).
  assert (Z.log2 v < w * n + w) by (apply Z.log2_lt_pow2; [lia|rewrite <- EQW; lia]).
  rewrite app_length. cbn [length]. rewrite Nat2Z.inj_add. fold n. change (Z.of_nat 1) with 1.
  unfold wlen. destruct (Z.eqb_spec v 0); [lia|].
  assert (Z.log2 v / w = n); [|lia].
  symmetry. apply (Z.div_unique _ _ _ (Z.log2 v - w * n)); lia.
Qed.

(** * the main loop of gcd_in_place never panics (no overflow in the guess, no negative step) *)
Theorem lehmer_loop_never_panics : forall w fuel mdl ml x y sw r, 2 <= w -> 3 <= mdl -> 1 <= ml -> 0 <= y <= x ->
  lehmer_loop fuel mdl w ml x y sw <> Panic r.
Proof.
  intros w fuel mdl ml. induction fuel as [|k IH]; intros x y sw r Hw Hmdl Hml Hyx; [discriminate|].
  cbn [lehmer_loop]. destruct (Z.leb_spec (wlen w y) ml) as [Hl|Hl]; [discriminate|].
  pose proof (wlen_mono w ltac:(lia) y x Hyx) as Hm.
  assert (y <> 0) as Hy0 by (intros e; subst y; unfold wlen in Hl; cbn in Hl; lia).
  destruct (lehmer_iter_always_ok w Hw mdl x y Hmdl Hyx ltac:(lia)) as [st E]. rewrite E.
  destruct st as [q r0|a b c d x1 y1].
  - destruct (lehmer_iter_euclid _ _ _ _ _ _ E) as [-> ->].
    pose proof (Z.mod_pos_bound x y ltac:(lia)). apply IH; try assumption; lia.
  - assert (0 <= y) as Py0 by lia.
    destruct (lehmer_iter_lehmer _ _ _ _ _ _ _ _ _ _ Hw Py0 E) as [_ [_ [_ [_ [Px Py]]]]].
    destruct (Z.leb_spec x1 y1); apply IH; try assumption; lia.
Qed.

(** * non-vacuity: concrete runs of the word-level models (w = 64) *)
(** x one word longer than y: the extra step for the top word (x_carry <> 0) *)
Example lstep_words_longer_example :
  lstep_words 64 1 1 0 1 [2 ^ 64 - 1; 0; 1] [2 ^ 64 - 1; 2 ^ 64 - 1] = Ok ([0; 1; 0], [2 ^ 64 - 1; 2 ^ 64 - 1]).
Proof. vm_compute. reflexivity. Qed.

(** outside the contract: a negative a*x - b*y is NOT caught by the debug_asserts of lehmer_step when c = 0 (the
    carry -1 is folded into the top word, garbage is stored) - the step is safe only because the guess never
    produces it (lehmer_guess_for_nonneg); with c <> 0 the assertion on y_carry fires *)
Example lstep_words_negative_example :
  lstep_words 64 1 1 0 1 [5; 0] [7; 0] = Ok ([2 ^ 64 - 2; 2 ^ 64 - 2], [7; 0]) /\
  lstep_words 64 2 3 1 2 [5; 0] [7; 0] = Panic Undocumented.
Proof. split; vm_compute; reflexivity. Qed.

Example lext_words_example :
  lext_words 64 (2 ^ 63 - 1) (2 ^ 63 - 1) 1 0 2 [2 ^ 64 - 1; 2 ^ 64 - 1; 9] [2 ^ 64 - 1; 2 ^ 64 - 1] =
    Ok ([2; 18446744073709551615; 9], [18446744073709551615; 18446744073709551615], 18446744073709551613, 0).
Proof. vm_compute. reflexivity. Qed.

(** one iteration on three-word operands: guess from the leading word, then the word loop *)
Example lehmer_iter_words_example :
  lehmer_iter_words 300 64 (to_words (2 ^ 64) 3 (3 * (2 ^ 190 + 7))) (to_words (2 ^ 64) 3 (3 * (2 ^ 170 + 11))) = Ok None /\
  exists a b c d xs1 ys1,
    lehmer_iter_words 300 64 (to_words (2 ^ 64) 3 (2 ^ 190 + 12345)) (to_words (2 ^ 64) 3 (2 ^ 189 + 2 ^ 188 + 99)) = Ok (Some (a, b, c, d, xs1, ys1))
    /\ b <> 0.
Proof.
  split; [vm_compute; reflexivity|].
  destruct (lehmer_iter_words 300 64 (to_words (2 ^ 64) 3 (2 ^ 190 + 12345)) (to_words (2 ^ 64) 3 (2 ^ 189 + 2 ^ 188 + 99)))
    as [[[[[[[a b] c] d] xs1] ys1]|]|?|?|] eqn:E; vm_compute in E; try discriminate.
  exists a, b, c, d, xs1, ys1. split; [reflexivity|]. injection E as <- <- <- <- <- <-. discriminate.
Qed.

(** * finding F09 (fixed in /repo): the cofactor update of the Euclidean step of gcd_ext_in_place
    Before the repair, [t0 += q*t1] (lehmer.rs lines 392-413) was carried out on the low
    qt1_len = q_lo.len() + t1_len words of t0 only and the carry was STORED at index qt1_len: the words of t0 above
    qt1_len were lost.  At value level the old code computed [euclid_t0_prefix]; it agrees with t0 + q*t1 exactly
    when t0 has at most qt1_len words - true while t0 <= t1, but after a Lehmer step that ends with x <= y the
    swapped cofactors are in the order t0 > t1 and a following quotient of a single word (q_lo empty) loses a
    word of t0.  The repaired code adds the carry into the upper words: t0 + q*t1, what GrlLehmer.lehmer_ext_loop
    has always modelled. *)
Definition euclid_t0_prefix (w qlo_len t0 q t1 : Z) : Z :=
  t0 mod 2 ^ (w * (qlo_len + wlen w t1)) + q * t1.

Theorem euclid_t0_prefix_ok : forall w qlo_len t0 q t1, 1 <= w -> 0 <= t0 -> 0 <= t1 -> 0 <= qlo_len ->
  wlen w t0 <= qlo_len + wlen w t1 -> euclid_t0_prefix w qlo_len t0 q t1 = t0 + q * t1.
Proof.
  intros w qlo_len t0 q t1 Hw Ht0 Ht1 Hq Hl. unfold euclid_t0_prefix.
  pose proof (wlen_upper w Hw t0 Ht0) as U. pose proof (wlen_nonneg w Hw t0 Ht0) as N0.
  pose proof (wlen_nonneg w Hw t1 Ht1) as N1.
  assert (2 ^ (w * wlen w t0) <= 2 ^ (w * (qlo_len + wlen w t1))).
  { apply Z.pow_le_mono_r; [lia|]. apply Z.mul_le_mono_nonneg_l; lia. }
  rewrite Z.mod_small by lia. reflexivity.
Qed.

(** the smallest shape of the failure: t0 of two words, t1 of one word, quotient 1 *)
Theorem euclid_t0_prefix_refuted :
  euclid_t0_prefix 64 0 (2 ^ 64) 1 1 = 1 /\ 2 ^ 64 + 1 * 1 <> 1 /\ wlen 64 (2 ^ 64) = 2 /\ wlen 64 1 = 1.
Proof. repeat split; vm_compute; congruence. Qed.
