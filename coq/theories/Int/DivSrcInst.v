(** C02 - the word-level division models of DivWordModel.v with NOTHING left abstract:
    num-modular's primitives are the as-is models of DivNumModular.v (Moller-Granlund reciprocal
    division with the wrapping arithmetic of barrett.rs) and the multiplication kernel is C01's as-is
    model of mul::add_signed_mul (Int/RingMul.v: schoolbook / Karatsuba / Toom-3 behind the
    thresholds regenerated from mul/mod.rs).  Definitions only. *)
From Dashu Require Import Base.Prelude Base.Words Int.DivWordModel Int.DivNumModular Int.RingMul.
From DashuGen Require Import Params.
Open Scope Z_scope.

Section Src.
Variable w : Z.

(** mul::add_signed_mul(c, Negative, a, b, memory) -> SignedWord carry.  The C01 model is total on
    well-formed operands with len c = len a + len b (DivSrcInstProofs.c01_mul_sub_contract); the other
    constructors of [result] are unreachable there. *)
Definition c01_mul_sub (c a b : list Z) : list Z * Z :=
  match add_signed_mul w (Z.to_nat mul_threshold_simple) (Z.to_nat mul_threshold_karatsuba)
          (Z.to_nat mul_simple_chunk_len) c Negative a b with
  | Ok (r, k) => (r, k)
  | _ => (c, 0)
  end.

Definition Ts : nat := Z.to_nat div_threshold_simple.

Definition s_div_rem_in_place := div_rem_in_place w (nm3by2 w) c01_mul_sub Ts.
Definition s_div_rem_large := div_rem_large w (nm3by2 w) c01_mul_sub Ts.
Definition s_repr_div_rem := repr_div_rem w (nm2by1 w) (nm3by2 w) (nm4by2 w) c01_mul_sub Ts.
Definition s_repr_div := repr_div w (nm2by1 w) (nm3by2 w) (nm4by2 w) c01_mul_sub Ts.
Definition s_repr_rem := repr_rem w (nm1by1 w) (nm2by1 w) (nm2by2 w) (nm3by2 w) (nm4by2 w) c01_mul_sub Ts.
Definition s_const_div_rem := const_div_rem w (nm2by1 w) (nm3by2 w) (nm4by2 w) c01_mul_sub Ts.
Definition s_const_rem := const_rem w (nm1by1 w) (nm2by1 w) (nm2by2 w) (nm3by2 w) (nm4by2 w) c01_mul_sub Ts.

(** hook level (verif_hooks::div_kernel), as DivWordInst.kernel_asis but with the transcribed primitives:
    which = 0 dispatch, 1 schoolbook, 2 divide and conquer; answer (carry, quotient, remainder) *)
Definition s_kernel_asis (which : Z) (lhs rhs : Z) (m : Z) : result (Z * Z * Z) :=
  let l := to_words w (Z.to_nat m) lhs in let r := words_of w rhs in
  let n := length r in
  let res := if which =? 1 then Ok (simple_div_rem w (nm3by2 w) l r)
             else if which =? 2 then dc_div_rem w (nm3by2 w) c01_mul_sub Ts (fuel_for l) l r
             else s_div_rem_in_place (fuel_for l) l r in
  rbind res (fun '(l', c) => Ok (Z.b2z c, Words.value w (skipn n l'), Words.value w (firstn n l'))).

End Src.
