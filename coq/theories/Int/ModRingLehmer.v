(** C13 (round 4) - the extended gcd behind Reduced::inv of the multi-word ring with NO abstract function left
    (definitions only; proofs in ModRingLehmerGuess.v / ModRingLehmerProofs.v):
      raw_len = 1, 2   gcd::gcd_ext_word / gcd_ext_dword   = ModRingGcdSmall.gcd_ext_small_asis, now with a fuel
                       LOGARITHMIC in the operands (the oracle can run it)
      raw_len >= 3     gcd::lehmer::gcd_ext_in_place       = C12's as-is model GrlLehmer.gcd_ext_in_place_gen with the
                       constants of the source (sign line 486 in full, MIN_DWORD_GUESS_LEN) and logarithmic fuels.
    [gcd_ext_src] is the dispatch of inv_large as a RESULT (a debug assertion / checked word operation of the gcd code
    that fires is a Panic); [gcd_src] is the same as a total function, the form wl_inv / inv_asis take. *)
From Dashu Require Import Base.Prelude Base.Words Int.GrlSpec Int.GrlModel Int.GrlLehmer
  Int.ModRingSpec Int.ModRingPowModel Int.ModRingModel Int.ModRingGcdSmall.
Open Scope Z_scope.

(** Euclid's remainder sequence: the product of two consecutive remainders at least halves in every step *)
Definition prim_fuel (a b : Z) : nat := Z.to_nat (Z.log2 (a * b) + 1).

(** the outer loop of gcd_ext_in_place: x * y at least halves in every iteration (Euclidean or Lehmer step) *)
Definition lehmer_fuel_log (lhs rhs : Z) : nat := S (Z.to_nat (Z.log2 (lhs * rhs) + 1)).

(** gcd_ext_in_place(lhs, rhs) as the source has it: `swapped ^= (cx < 0) || (cx == 0 && cy > 0)`,
    MIN_DWORD_GUESS_LEN = 300; the single-word ending runs the primitive gcd_ext on (x mod y, y), y < 2^w *)
Definition lehmer_inplace_asis (w lhs rhs : Z) : result (Z * Z * sign) :=
  gcd_ext_in_place_gen true (lehmer_fuel_log lhs rhs) (Z.to_nat (2 * w)) MIN_DWORD_GUESS_LEN w lhs rhs.

(** the dispatch of inv_large: `match raw_len { 1 => gcd_ext_word, 2 => gcd_ext_dword, _ => gcd_ext_in_place }` *)
Definition gcd_ext_src (w lhs rhs : Z) : result (Z * Z * sign) :=
  if rhs <? 2 ^ w * 2 ^ w then
    gcd_ext_small_asis (prim_fuel rhs (lhs mod rhs)) ((2 ^ w) ^ ModRingModel.nwords w lhs) lhs rhs
  else lehmer_inplace_asis w lhs rhs.

Definition gcd_src (w lhs rhs : Z) : Z * Z * sign :=
  match gcd_ext_src w lhs rhs with
  | Ok res => res
  | _ => (0, 0, Positive)        (* unreachable for 0 < rhs < lhs: gcd_ext_src_ok *)
  end.

(** which branch ran (1 = word, 2 = double word, 3 = Lehmer), for the path statistics of the correspondence run *)
Definition gcd_src_branch (w rhs : Z) : Z := if rhs <? 2 ^ w then 1 else if rhs <? 2 ^ w * 2 ^ w then 2 else 3.
